(* MiniAldor: program generator.  gen : seed -> size -> prog.
   All random choices are functions of ONE explicitly carried splittable PRNG state
   (splitmix64 finaliser over Z): draw i of state r is [rn r i n]; the state handed to the
   i-th sub-generator is [ch r i].  The feature mix is drawn per seed ([draw_feats]).

   Guarded operations only: divisors are non-zero literals or ((e mod K) + 1); `machine` is
   applied to (e mod K); loop bounds are small literals; `while` loops count a reserved
   counter down, decrementing first; recursive functions count their first parameter down
   and are entered with a small literal.  Growth of Integer / String values inside loops is
   kept linear (one operand of Integer `*` and of String `+` is a literal).

   [gen] runs the generator, then keeps the program only if it is accepted by [typecheck]
   and the reference evaluator finishes with [Done] within [gen_fuel]; otherwise it derives
   a new state and retries, finally falling back to [fallback_prog].  The number of retries
   is reported by the tool (`tries`), so a generator that stopped producing is visible.   *)
Require Import List ZArith String Bool Arith Ascii.
Require Import AV.Mini.Syntax AV.Mini.Types AV.Mini.Eval AV.Mini.Print.
Import ListNotations.
Local Open Scope Z_scope.

(* ---------------- PRNG ---------------- *)
Definition rng := Z.
Definition golden : Z := 11400714819323198485.   (* 0x9e3779b97f4a7c15 *)
Definition mask64 : Z := 18446744073709551615.
Definition m64 (z : Z) : Z := Z.land z mask64.
(* shift-add-xor finaliser (Jenkins / Wang style 64-bit integer hash): multiplications by
   (1 + 2^k) only, because Z.mul on binary positives is slow after extraction              *)
Definition mix (z : Z) : Z :=
  let a0 := m64 z in
  let a1 := m64 (Z.lxor mask64 a0 + Z.shiftl a0 21) in
  let a2 := Z.lxor a1 (Z.shiftr a1 24) in
  let a3 := m64 (a2 + Z.shiftl a2 3 + Z.shiftl a2 8) in
  let a4 := Z.lxor a3 (Z.shiftr a3 14) in
  let a5 := m64 (a4 + Z.shiftl a4 2 + Z.shiftl a4 4) in
  let a6 := Z.lxor a5 (Z.shiftr a5 28) in
  m64 (a6 + Z.shiftl a6 31).
Definition rn (r : rng) (i n : Z) : Z := if n <=? 0 then 0 else mix (r + (2 * i + 1) * golden) mod n.
Definition ch (r : rng) (i : Z) : rng := mix (mix (r + (2 * i + 2) * golden) + 1).
Definition rb (r : rng) (i : Z) (num den : Z) : bool := rn r i den <? num.   (* true with prob num/den *)
Definition rng_of_seed (seed : Z) : rng := mix (mix seed + golden).

Definition pick {A : Type} (r : rng) (i : Z) (l : list A) (d : A) : A :=
  nth (Z.to_nat (rn r i (Z.of_nat (List.length l)))) l d.

(* ---------------- features ---------------- *)
Record feats : Type := mkFeats {
  fInt : bool; fStr : bool; fFun : bool; fRec : bool; fOvl : bool;
  fWhile : bool; fFor : bool; fExit : bool; fSeq : bool;
  fErr : bool;   (* `error` / `never` endings *)
  fExn : bool;   (* throw / try / catch *)
  fList : bool;  (* List(T): literals, cons / first / rest / # / empty? / reverse / = / l.i, for x in l *)
  fDom : bool;   (* the parametrised domains BoxA(T) / BoxB(T) of category BoxCat(T) with defaults *)
  fMac : bool;   (* macros: type names through MI / BI, DBL(x) / SQR(x) calls *)
  fClo : bool;   (* function values: ((a: T): R +-> f(captured.., a)), passed, returned, stored, applied *)
  fUni : bool;   (* Union(..): construction, `case` tests, guarded branch access *)
  fArr : bool;   (* Array(T): literals, new(n, x), #, a.i, a.i := v, for x in a *)
  fRcd : bool;   (* Record(..): construction, field read, field update, passing and returning *)
  fTryTop : bool; (* `try` statements stand at file level only (true) or inside functions only (false) *)
  fQual : bool   (* literals rendered `5@MachineInteger` (true) or through the typed helper `mi(5)` (false) *)
}.

Definition draw_feats (r : rng) : feats :=
  mkFeats (rb r 1 3 4) (rb r 2 2 3) (rb r 3 4 5) (rb r 4 1 2) (rb r 5 1 2)
          (rb r 6 2 3) (rb r 7 3 4) (rb r 8 2 3) (rb r 9 1 2) (rb r 11 1 4) (rb r 12 1 2) (rb r 15 1 2) (rb r 16 1 3) (rb r 14 1 2) (rb r 21 1 2) (rb r 20 1 2) (rb r 19 1 2) (rb r 18 1 2) (rb r 17 1 2) (rb r 10 1 2).

(* ---------------- generation environment ---------------- *)
Record fsig : Type := mkSig {
  gs_name : nat; gs_params : list ty; gs_ret : ty; gs_pure : bool;
  gs_rec : bool;         (* first parameter is a down-counter *)
  gs_thr : bool;         (* may let a user exception escape *)
  gs_try : bool;         (* may execute a `try` (its body holds one, or it calls such a function) *)
  gs_ncap : option nat   (* Some k: a helper for function values (sees no global, base types only);
                            its first k parameters are the captured values *)
}.

Inductive mode : Type := MAny | MPure | MStable.

(* how the generator may use a variable: a constant (never assigned: `stable`), an ordinary
   variable (may be assigned), or a reserved loop counter (assigned only by the `while`
   pattern that owns it, read-only otherwise, but not stable)                             *)
Inductive vkind : Type := KConst | KVar | KCnt.
Definition k_assignable (k : vkind) : bool := match k with KVar => true | _ => false end.
Definition k_stable (k : vkind) : bool := match k with KConst => true | _ => false end.

Record genv : Type := mkGenv {
  gFe : feats;
  gG : list (ty * vkind);    (* visible globals *)
  gF : list fsig;            (* callable functions *)
  gL : list (ty * vkind);    (* frame *)
  gCnt : list nat;           (* reserved loop counters: frame slots (in a function) or globals (top level) *)
  gTop : bool;               (* at top level (counters are globals) *)
  gRet : option ty;
  gLoop : bool;
  gPureF : bool;             (* inside a function claimed pure *)
  gSelf : option fsig;       (* the recursive function being defined *)
  gNoIf : bool;              (* inside a top-level loop, qualified style: no `if` (see no_top_loop) *)
  gNoLoop : bool;            (* below a top-level `if`, qualified style: no loop *)
  gInTry : bool;             (* inside a `try` whose handlers catch every user exception *)
  gThr : bool;               (* inside a function that may let exceptions escape *)
  gNoTry : bool;             (* below a top-level `if` (either literal style): no `try` *)
  gNoSC : bool;              (* inside the condition of an exit `c => ..`: no short-circuit and / or *)
  gCallTF : bool             (* only functions that never execute a `try` may be called here (inside
                                functions that are themselves `try`-free)                          *);
  gPos : nat                 (* where a record-typed expression being generated will go (Types.v,
                                records without aliasing): 2 = stored / returned: fresh records only;
                                1 = argument: fresh or an immutable name; 0 = operand of a field read *);
  gNoClo : bool              (* inside an `if` expression: no function expression.  The pinned compiler
                                answers "Cannot determine the meaning of this expression because the type
                                of one of its subexpressions cannot yet be completely analyzed" for
                                `if c then f(.., lambda, ..) else f(.., lambda, ..)` (reported)          *)
}.

Definition set_L (E : genv) (l : list (ty * vkind)) : genv :=
  mkGenv (gFe E) (gG E) (gF E) l (gCnt E) (gTop E) (gRet E) (gLoop E) (gPureF E) (gSelf E) (gNoIf E) (gNoLoop E) (gInTry E) (gThr E) (gNoTry E) (gNoSC E) (gCallTF E) (gPos E) (gNoClo E).
Definition set_loop (E : genv) (b : bool) : genv :=
  mkGenv (gFe E) (gG E) (gF E) (gL E) (gCnt E) (gTop E) (gRet E) b (gPureF E) (gSelf E) (gNoIf E) (gNoLoop E) (gInTry E) (gThr E) (gNoTry E) (gNoSC E) (gCallTF E) (gPos E) (gNoClo E).
Definition set_cnt (E : genv) (c : list nat) : genv :=
  mkGenv (gFe E) (gG E) (gF E) (gL E) c (gTop E) (gRet E) (gLoop E) (gPureF E) (gSelf E) (gNoIf E) (gNoLoop E) (gInTry E) (gThr E) (gNoTry E) (gNoSC E) (gCallTF E) (gPos E) (gNoClo E).

(* With the qualified literal style (fQual) nothing at the top level of a file nests an `if`
   (statement or expression) and a loop in either order: the pinned compiler rejects a
   qualified literal (`2@MachineInteger`) inside a `repeat` inside a top-level `if` whose
   condition holds a qualified literal, and inside an `if` inside a top-level loop ("No
   meaning for integer-style literal"; reported as a finding, tools/MINI_TOOL.md).  Inside
   functions, and everywhere with the helper style, all shapes are generated.
   In both styles no `try` stands below a top-level `if`: the pinned compiler answers "Cannot
   determine the meaning of this expression because the type of one of its subexpressions
   cannot yet be completely analyzed" for the condition (same family of defect).          *)
(* no `return` inside a sequence used as an operand: the pinned compiler rejects
   `if ({ if b then { return x }; true }) then ..` inside a function with "The `return' is
   not inside a function" (reported as a finding)                                          *)
Definition no_ret (E : genv) : genv :=
  mkGenv (gFe E) (gG E) (gF E) (gL E) (gCnt E) (gTop E) None (gLoop E) (gPureF E) (gSelf E) (gNoIf E) (gNoLoop E) (gInTry E) (gThr E) (gNoTry E) (gNoSC E) (gCallTF E) (gPos E) (gNoClo E).
Definition set_pos (E : genv) (p : nat) : genv :=
  mkGenv (gFe E) (gG E) (gF E) (gL E) (gCnt E) (gTop E) (gRet E) (gLoop E) (gPureF E) (gSelf E) (gNoIf E)
         (gNoLoop E) (gInTry E) (gThr E) (gNoTry E) (gNoSC E) (gCallTF E) p (gNoClo E).
Definition set_noclo (E : genv) : genv :=
  mkGenv (gFe E) (gG E) (gF E) (gL E) (gCnt E) (gTop E) (gRet E) (gLoop E) (gPureF E) (gSelf E) (gNoIf E)
         (gNoLoop E) (gInTry E) (gThr E) (gNoTry E) (gNoSC E) (gCallTF E) (gPos E) true.
Definition set_try (E : genv) (b : bool) : genv :=
  mkGenv (gFe E) (gG E) (gF E) (gL E) (gCnt E) (gTop E) (gRet E) (gLoop E) (gPureF E) (gSelf E) (gNoIf E)
         (gNoLoop E) b (gThr E) (gNoTry E) (gNoSC E) (gCallTF E) (gPos E) (gNoClo E).
(* may a call to g be placed here: throwing functions only where the exception is caught
   (or passed on by a function that is itself marked throwing)                             *)
Definition thr_ok (E : genv) (g : fsig) : bool :=
  ((negb (gs_thr g) || gInTry E || gThr E) && (negb (gCallTF E) || negb (gs_try g)))%bool.
(* List constructs at the top level of a file: never below an `if` (statement or expression)
   and never with an `if` inside them -- the pinned compiler loses the List(T) imports /
   qualified names there (same family of defect as above: `empty?` of a List(String) "did not
   match any possible parameter type ... could be suitable if imported" inside a top-level
   `if`).  Inside functions every shape is generated.                                        *)
Definition lists_ok (E : genv) : bool := ((fList (gFe E) || fDom (gFe E) || fRcd (gFe E) || fArr (gFe E) || fUni (gFe E) || fClo (gFe E)) && negb (gTop E && gNoTry E))%bool.
Definition is_list (t : ty) : bool := match t with TList _ | TBox _ _ | TRec _ | TArr _ | TUni _ | TFun _ _ => true | _ => false end.
Definition force_noif (E : genv) : genv :=
  mkGenv (gFe E) (gG E) (gF E) (gL E) (gCnt E) (gTop E) (gRet E) (gLoop E) (gPureF E) (gSelf E) true
         (gNoLoop E) (gInTry E) (gThr E) (gNoTry E) (gNoSC E) (gCallTF E) (gPos E) (gNoClo E).
Definition sig_has_list (g : fsig) : bool := existsb is_list (gs_ret g :: gs_params g).
Definition topq (E : genv) : bool := (gTop E && fQual (gFe E))%bool.
Definition no_top_loop (E : genv) : genv :=
  if gTop E
  then mkGenv (gFe E) (gG E) (gF E) (gL E) (gCnt E) (gTop E) (gRet E) (gLoop E) (gPureF E) (gSelf E) (gNoIf E)
              (fQual (gFe E) || gNoLoop E) (gInTry E) (gThr E) true (gNoSC E) (gCallTF E) (gPos E) (gNoClo E)
  else E.
(* The condition of an exit `c => ..` holds no short-circuit `and` / `or`: the pinned compiler
   crashes on `(if c then (b or false) else b) => false; ..; false` inside a function (the
   constant first used in the skipped operand is left uninitialised: same defect as the
   file-level one, reported as a finding)                                                *)
Definition exit_cond (E : genv) : genv :=
  let E1 := no_top_loop E in
  mkGenv (gFe E1) (gG E1) (gF E1) (gL E1) (gCnt E1) (gTop E1) (gRet E1) (gLoop E1) (gPureF E1) (gSelf E1)
         (gNoIf E1) (gNoLoop E1) (gInTry E1) (gThr E1) (gNoTry E1) true (gCallTF E1) (gPos E1) (gNoClo E1).
Definition set_noif (E : genv) : genv :=
  mkGenv (gFe E) (gG E) (gF E) (gL E) (gCnt E) (gTop E) (gRet E) (gLoop E) (gPureF E) (gSelf E)
         (topq E || (gTop E && (fRcd (gFe E) || fArr (gFe E) || fUni (gFe E))))%bool
         (gNoLoop E) (gInTry E) (gThr E) (gNoTry E) (gNoSC E) (gCallTF E) (gPos E) (gNoClo E).

Definition elem_types (fe : feats) : list bty :=
  [BMI; BBool] ++ (if fInt fe then [BInt] else []) ++ (if fStr fe then [BStr] else []).

(* the record types a program may use: shapes over the available base types *)
Definition rec_types (fe : feats) : list (list bty) :=
  [[BMI; BBool]; [BMI; BMI; BMI]]
  ++ (if fInt fe then [[BInt; BMI]] else []) ++ (if fStr fe then [[BStr; BMI]; [BBool; BStr]] else []).

(* function values: (captured parameter types, remaining parameter types, result type);
   one helper function is generated per shape, before every global declaration            *)
Definition clo_shapes (fe : feats) : list (list bty * list bty * bty) :=
  [([BMI], [BMI], BMI); ([BMI; BBool], [BMI], BBool)]
  ++ (if fStr fe then [([BStr], [BMI; BMI], BStr)] else [])
  ++ (if fInt fe then [([BInt; BMI], [], BInt)] else []).

Definition val_types (fe : feats) : list ty :=
  [TMI; TBool; TMI] ++ (if fInt fe then [TInt; TInt] else []) ++ (if fStr fe then [TStr] else [])
  ++ (if fList fe then map TList (elem_types fe) else [])
  ++ (if fDom fe then [TBox DA NMI; TBox DB NMI] ++ (if fInt fe then [TBox DA NInt; TBox DB NInt] else []) else [])
  ++ (if fRcd fe then map TRec (rec_types fe) else [])
  ++ (if fArr fe then map TArr (elem_types fe) else [])
  ++ (if fUni fe then map TUni (rec_types fe) else [])
  ++ (if fClo fe then map (fun sh => TFun (snd (fst sh)) (snd sh)) (clo_shapes fe) else []).

Definition gen_ty (fe : feats) (r : rng) (i : Z) : ty := pick r i (val_types fe) TMI.

(* indices k of l whose entry satisfies q *)
Fixpoint idx_where {A : Type} (q : A -> bool) (k : nat) (l : list A) : list nat :=
  match l with
  | [] => []
  | a :: rest => if q a then k :: idx_where q (S k) rest else idx_where q (S k) rest
  end.

(* ---------------- literals ---------------- *)
Definition mi_specials : list Z :=
  [0; 1; 2; 3; 7; 10; 100; 255; 256; 65535; 65536; 2147483647; 2147483648; 4294967295;
   4294967296; 4611686018427387903; 4611686018427387904; 9223372036854775806; 9223372036854775807].
Definition int_specials : list Z :=
  [0; 1; 2; 10; 4294967296; 9223372036854775807; 9223372036854775808; 18446744073709551615;
   18446744073709551616; 18446744073709551617; 340282366920938463463374607431768211456;
   1000000000000000000000000000000; 123456789012345678901234567890123456789].

Definition gen_num (n : nty) (r : rng) : Z :=
  let c := rn r 0 10 in
  if c <? 5 then rn r 1 12
  else if c <? 8 then
    match n with
    | NMI => pick r 2 mi_specials 5
    | NInt => pick r 2 int_specials 5
    end
  else
    match n with
    | NMI => rn r 3 two63
    | NInt => rn r 3 two64 * rn r 4 two64 + rn r 5 1000
    end.

Definition str_atoms : list string :=
  ["a"; "b"; "xy"; " "; "_"; String (ascii_of_nat 34) EmptyString; "Z9"; ":"; "-"; "q_r"; "~"; "\"; "{"; "'"; "#"]%string.

Fixpoint gen_str (n : nat) (r : rng) : string :=
  match n with
  | O => EmptyString
  | S k => (pick r 0 str_atoms "a"%string ++ gen_str k (ch r 1))%string
  end.

Definition gen_blit (b : bty) (r : rng) : expr :=
  match b with
  | BMI => ELit (LNum NMI (gen_num NMI r))
  | BInt => ELit (LNum NInt (gen_num NInt r))
  | BBool => ELit (LBool (rb r 0 1 2))
  | BStr => ELit (LStr (gen_str (Z.to_nat (rn r 6 4)) (ch r 7)))
  end.

Definition gen_lit (t : ty) (r : rng) : expr :=
  match t with
  | TMI => gen_blit BMI r
  | TInt => gen_blit BInt r
  | TBool => gen_blit BBool r
  | TStr => gen_blit BStr r
  | TList b => EListLit b (map (fun i => gen_blit b (ch r (Z.of_nat i + 20))) (seq 0 (Z.to_nat (rn r 8 4))))
  | TBox d n => EPrim (PBox d n) [gen_blit (match n with NMI => BMI | NInt => BInt end) r]
  | TRec fs => ERec fs (map (fun ib => gen_blit (snd ib) (ch r (Z.of_nat (fst ib) + 20)))
                            (combine (seq 0 (List.length fs)) fs))
  | TArr b => EArrLit b (map (fun i => gen_blit b (ch r (Z.of_nat i + 20))) (seq 0 (S (Z.to_nat (rn r 8 3)))))
  | TUni fs => let i := Z.to_nat (rn r 8 (Z.of_nat (List.length fs))) in
               EUni fs i (gen_blit (nth i fs BMI) (ch r 20))
  | TFun ps r0 => EClo 0 ps r0 []     (* placeholder, never emitted: see leaf *)
  | TBad => ELit (LBool false)
  end.

Definition small_lit (n : nty) (lo span : Z) (r : rng) : expr :=
  (* literal in [lo, lo+span), written with a unary minus when negative *)
  let z := lo + rn r 0 span in
  if z <? 0 then EPrim (PNeg n) [ELit (LNum n (- z))] else ELit (LNum n z).

(* ---------------- leaves ---------------- *)
Definition leaf (E : genv) (m : mode) (t : ty) (r : rng) : expr :=
  let okg (d : ty * vkind) :=
      (ty_eqb (fst d) t && match m with MStable => k_stable (snd d) | _ => true end
       && match t with
          | TRec _ | TArr _ => match gPos E with 0%nat => true | 1%nat => k_stable (snd d) | _ => false end
          | _ => true
          end)%bool in
  let gs := idx_where okg 0 (gG E) in
  let ls := idx_where okg 0 (gL E) in
  let cands := map EGlob gs ++ map ELoc ls ++ map ELoc ls in
  (* a new function value: the helper whose remaining parameters / result fit, captured
     arguments generated as literals or immutable names (never inside a loop: Types.v)      *)
  let fresh_val :=
      match t with
      | TFun ps r0 =>
        if gNoClo E then gen_lit t r else
          match filter (fun g => match gs_ncap g with
                                 | Some k => (tys_eqb (skipn k (gs_params g)) (map ty_of_bty ps)
                                              && ty_eqb (gs_ret g) (ty_of_bty r0))%bool
                                 | None => false
                                 end) (gF E) with
          | g :: _ =>
              let k := match gs_ncap g with Some k => k | None => 0%nat end in
              EClo (gs_name g) ps r0
                   (map (fun it => let okc (d : ty * vkind) := (ty_eqb (fst d) (snd it) && k_stable (snd d))%bool in
                                   let cs := map EGlob (idx_where okc 0 (gG E))
                                             ++ (if gLoop E then [] else map ELoc (idx_where okc 0 (gL E))) in
                                   match cs with
                                   | [] => gen_lit (snd it) (ch r (Z.of_nat (fst it) + 12))
                                   | c0 :: _ => if rb r (Z.of_nat (fst it) + 12) 1 3 then gen_lit (snd it) (ch r (Z.of_nat (fst it) + 12))
                                                else pick r (Z.of_nat (fst it) + 16) cs c0
                                   end)
                        (combine (seq 0 k) (firstn k (gs_params g))))
          | [] => gen_lit t r
          end
      | _ => gen_lit t r
      end in
  match cands with
  | [] => fresh_val
  | _ => if rb r 10 2 5 then fresh_val else pick r 11 cands fresh_val
  end.

(* callable functions with result t in mode m *)
Definition callable (E : genv) (m : mode) (t : ty) : list fsig :=
  filter (fun g => (ty_eqb (gs_ret g) t && thr_ok E g && (lists_ok E || negb (sig_has_list g))
                    && (negb (gNoClo E || gLoop E) || negb (existsb (fun t0 => match t0 with TFun _ _ => true | _ => false end) (gs_ret g :: gs_params g)))
                    && match m with
                       | MAny => negb (gPureF E) || gs_pure g
                       | MPure => gs_pure g
                       | MStable => false
                       end)%bool) (gF E).

Definition sub_mode (m : mode) : mode := match m with MAny => MPure | x => x end.

Definition nty_of (t : ty) : nty := match t with TInt => NInt | _ => NMI end.
Definition bty_of (t : ty) : bty :=
  match t with TInt => BInt | TBool => BBool | TStr => BStr | _ => BMI end.
Definition pick_elem (E : genv) (r : rng) (i : Z) : bty := pick r i (elem_types (gFe E)) BMI.

Definition gen_nty (E : genv) (r : rng) (i : Z) : nty :=
  if (fInt (gFe E) && rb r i 1 2)%bool then NInt else NMI.

(* argument modes for an n-ary node: in MAny, either every operand pure, or operand j free
   and the others stable (Types.ordered_args)                                              *)
Definition arg_mode (m : mode) (r : rng) (n : nat) (j : nat) : mode :=
  match m with
  | MAny => if rb r 20 1 2 then MPure
            else if Nat.eqb j (Z.to_nat (rn r 21 (Z.of_nat n))) then MAny else MStable
  | x => x
  end.

(* ---------------- expressions and statements ---------------- *)
Fixpoint gen_expr (sz : nat) (E : genv) (m : mode) (t : ty) (r : rng) {struct sz} : expr :=
  let E := if (gTop E && is_list t)%bool then force_noif E else E in
  match sz with
  | O => leaf E m t r
  | S k =>
    let am := arg_mode m r in
    let args2 (t1 t2 : ty) := [gen_expr k E (am 2%nat 0%nat) t1 (ch r 1); gen_expr k E (am 2%nat 1%nat) t2 (ch r 2)] in
    let c := rn r 0 12 in
    if c <? 3 then leaf E m t r
    else if (c <? 8) && fDom (gFe E) && negb (gTop E && gNoTry E) && rb r 47 1 8
            && (match t with TMI => true | _ => false end) then
      (* a constant export with a default value / a default function using it, through a domain *)
      let d := pick r 48 [SzA; SzB; SzC] SzA in
      EPrim (if rb r 49 1 2 then PSzLimit d else PSzTwice d) []
    else if (c <? 8) && fClo (gFe E) && negb (gTop E && gNoTry E) && negb (gPureF E) && rb r 45 1 5
            && (match m with MAny => true | _ => false end)
            && (match t with TMI | TInt | TBool | TStr => true | _ => false end) then
      (* application of a function value with result type t *)
      match filter (fun sh => bty_eqb (snd sh) (bty_of t)) (clo_shapes (gFe E)) with
      | [] => leaf E m t r
      | sh0 :: shs =>
          let sh := pick r 46 (sh0 :: shs) sh0 in
          let ps := snd (fst sh) in
          let fn := leaf E MPure (TFun ps (snd sh)) (ch r 1) in
          (* inside a loop only an existing function value can be applied *)
          if ((gLoop E || gNoClo E) && match fn with EClo _ _ _ _ => true | _ => false end)%bool then leaf E m t r
          else EApp fn (map (fun ib => gen_expr k E MPure (ty_of_bty (snd ib)) (ch r (Z.of_nat (fst ib) + 2)))
                            (combine (seq 0 (List.length ps)) ps))
      end
    else if (c <? 8) && fUni (gFe E) && negb (gTop E) && negb (gNoIf E) && rb r 42 1 6
            && (match t with TMI | TInt | TBool | TStr => true | _ => false end) then
      (* `u case f<i>` / guarded branch access `if u case f<i> then u.f<i> else lit`; u is pure, written twice *)
      let cands := flat_map (fun fs => map (fun i => (fs, i))
                                           (idx_where (fun b => bty_eqb b (bty_of t)) 0 fs)) (rec_types (gFe E)) in
      match t, cands with
      | TBool, _ => let fs := pick r 43 (rec_types (gFe E)) [BMI; BBool] in
                    ECase (Z.to_nat (rn r 44 (Z.of_nat (List.length fs)))) (gen_expr k E (sub_mode m) (TUni fs) (ch r 1))
      | _, [] => leaf E m t r
      | _, c0 :: _ => let fi := pick r 43 cands c0 in
                      let u := gen_expr k E (sub_mode m) (TUni (fst fi)) (ch r 1) in
                      EIf (ECase (snd fi) u) (EUGet (snd fi) u) (gen_lit t (ch r 2))
      end
    else if (c <? 8) && fArr (gFe E) && negb (gTop E && gNoTry E) && rb r 39 1 6
            && (match t with TMI | TInt | TBool | TStr => true | _ => false end)
            && existsb (bty_eqb (bty_of t)) (elem_types (gFe E)) then
      (* a.(e mod (# a)): arrays are never empty in generated programs; a is pure and written twice *)
      let b := bty_of t in
      let a := gen_expr k (set_pos E 0) (sub_mode m) (TArr b) (ch r 1) in
      if (match t with TMI => rb r 40 1 3 | _ => false end) then EPrim (PALen (pick_elem E r 41)) [gen_expr k (set_pos E 0) (sub_mode m) (TArr (pick_elem E r 41)) (ch r 1)]
      else EPrim (PAGet b) [a; EPrim (PMod NMI) [gen_expr k E (sub_mode m) TMI (ch r 2); EPrim (PALen b) [a]]]
    else if (c <? 8) && fRcd (gFe E) && negb (gTop E && gNoTry E) && rb r 37 1 5
            && (match t with TMI | TInt | TBool | TStr => true | _ => false end) then
      (* field read: a record type of the program with a field of the wanted type *)
      let cands := flat_map (fun fs => map (fun i => (fs, i))
                                           (idx_where (fun b => bty_eqb b (bty_of t)) 0 fs)) (rec_types (gFe E)) in
      match cands with
      | [] => leaf E m t r
      | c0 :: _ => let fi := pick r 38 cands c0 in
                   (* the operand is a name or a fresh record, not a call: see corpus
                      relt-unimplemented-in-interpreter *)
                   EField (snd fi) (leaf (set_pos E 0) m (TRec (fst fi)) (ch r 1))
      end
    else if (c <? 8) && fDom (gFe E) && negb (gTop E && gNoTry E)
            && (match t with TMI => true | TInt => true | _ => false end) && rb r 35 1 6 then
      let n := nty_of t in
      EPrim (PUnbox (if rb r 36 1 2 then DA else DB) n)
            [gen_expr k E m (TBox (if rb r 36 1 2 then DA else DB) n) (ch r 1)]
    else if (c <? 8) && lists_ok E && fList (gFe E) && rb r 30 1 5 then
      (* list observers; first / l.i guarded by empty? (the list expression is pure and is
         written twice)                                                                  *)
      let ba := pick_elem E r 31 in                 (* any element type: for #, empty?, = *)
      let bt := bty_of t in                         (* element type = wanted type: first, l.i *)
      let la := gen_expr k E (sub_mode m) (TList ba) (ch r 1) in
      let lt := gen_expr k E (sub_mode m) (TList bt) (ch r 1) in
      let pick_first :=
          if (gTop E || gNoIf E)%bool then leaf E m t r
          else if rb r 33 1 2 then EIf (EPrim (PLEmptyQ bt) [lt]) (gen_lit t (ch r 3)) (EPrim (PLFirst bt) [lt])
          else EIf (EPrim (PLEmptyQ bt) [lt]) (gen_lit t (ch r 3))
                   (EPrim (PLNth bt) [lt; EPrim (PAdd NMI) [EPrim (PMod NMI) [gen_expr k E (sub_mode m) TMI (ch r 4); EPrim (PLLen bt) [lt]];
                                                            ELit (LNum NMI 1)]]) in
      match t with
      | TList _ | TBox _ _ | TRec _ | TArr _ | TUni _ | TFun _ _ | TBad => leaf E m t r
      | TBool =>
          let o := rn r 32 3 in
          if o <? 1 then EPrim (PLEmptyQ ba) [la]
          else if o <? 2 then EPrim (if rb r 34 1 2 then PLEq ba else PLNe ba) [la; gen_expr k E (sub_mode m) (TList ba) (ch r 2)]
          else pick_first
      | TMI => if rb r 32 1 2 then EPrim (PLLen ba) [la] else pick_first
      | _ => if existsb (bty_eqb bt) (elem_types (gFe E)) then pick_first else leaf E m t r
      end
    else if c <? 8 then
      (* library operation *)
      match t with
      | TMI | TInt =>
          let n := nty_of t in
          let tn := ty_of_nty n in
          let o := rn r 3 13 in
          if o <? 3 then EPrim (PAdd n) (args2 tn tn)
          else if o <? 5 then EPrim (PSub n) (args2 tn tn)
          else if o <? 6 then
            match n with
            | NMI => EPrim (PMul n) (args2 tn tn)
            | NInt => EPrim (PMul n) [gen_expr k E (sub_mode m) tn (ch r 1); gen_lit tn (ch r 2)]
            end
          else if (o <? 7) && fMac (gFe E) then
            match n with
            | NMI => EMac (if rb r 4 1 2 then MDbl n else MSqr n) (gen_expr k E (sub_mode m) tn (ch r 1))
            | NInt => EMac (MDbl n) (gen_expr k E (sub_mode m) tn (ch r 1))
            end
          else if o <? 7 then EPrim (PNeg n) [gen_expr k E m tn (ch r 1)]
          else if o <? 9 then
            (* guarded division: divisor a literal >= 2 or ((e mod K) + 1) *)
            let dv := if rb r 4 1 2 then small_lit n 2 9 (ch r 5)
                      else EPrim (PAdd n) [EPrim (PMod n) [gen_expr k E (sub_mode m) tn (ch r 2); small_lit n 2 9 (ch r 5)];
                                           ELit (LNum n 1)] in
            let op := pick r 6 [PQuo n; PRem n; PMod n] (PQuo n) in
            EPrim op [gen_expr k E (sub_mode m) tn (ch r 1); dv]
          else if o <? 10 then EPrim (PAbs n) [gen_expr k E m tn (ch r 1)]
          else if o <? 11 then EPrim (if rb r 4 1 2 then PMin n else PMax n) (args2 tn tn)
          else if o <? 12 then
            match n with
            | NInt => EPrim PToInt [gen_expr k E m TMI (ch r 1)]
            | NMI => if fInt (gFe E)
                     then EPrim PToMI [EPrim (PMod NInt) [gen_expr k E (sub_mode m) TInt (ch r 1); small_lit NInt 2 1000000 (ch r 5)]]
                     else EPrim (PAdd n) (args2 tn tn)
            end
          else
            match n with
            | NMI => if fStr (gFe E) then EPrim PLen [gen_expr k E m TStr (ch r 1)]
                     else EPrim (PSub n) (args2 tn tn)
            | NInt => EPrim (PAdd n) (args2 tn tn)
            end
      | TBool =>
          let o := rn r 3 12 in
          if o <? 6 then
            let n := gen_nty E r 4 in
            let tn := ty_of_nty n in
            EPrim (pick r 5 [PEq n; PNe n; PLt n; PLe n; PGt n; PGe n] (PLt n)) (args2 tn tn)
          else if o <? 7 then EPrim PNot [gen_expr k E m TBool (ch r 1)]
          else if o <? 9 then EPrim (pick r 5 [PBAnd; PBOr; PBEq; PBNe] PBAnd) (args2 TBool TBool)
          else if o <? 10 then
            if fStr (gFe E) then EPrim (if rb r 5 1 2 then PSEq else PSNe) (args2 TStr TStr)
            else EPrim PNot [gen_expr k E m TBool (ch r 1)]
          else if (gTop E || gNoSC E)%bool then
            (* no short-circuit and/or at the top level of a file: the pinned compiler leaves an
               imported operation uninitialised when its first use is in the skipped operand
               (segmentation fault at the next use; reported as a finding)                    *)
            EPrim (if o <? 11 then PBAnd else PBOr) (args2 TBool TBool)
          (* the operands of and / or hold no `if` expression: the pinned compiler itself crashes
             (segmentation violation at compile time) on `((if p then (p and q) else p) and q)`
             (reported as a finding)                                                           *)
          else if o <? 11 then EAnd (gen_expr k (force_noif E) m TBool (ch r 1)) (gen_expr k (force_noif E) m TBool (ch r 2))
          else EOr (gen_expr k (force_noif E) m TBool (ch r 1)) (gen_expr k (force_noif E) m TBool (ch r 2))
      | TStr => EPrim PCat [gen_expr k E (sub_mode m) TStr (ch r 1); gen_lit TStr (ch r 2)]
      | TFun _ _ | TBad => leaf E m t r
      | TUni fs =>
          let i := Z.to_nat (rn r 3 (Z.of_nat (List.length fs))) in
          EUni fs i (gen_expr k (force_noif E) (sub_mode m) (ty_of_bty (nth i fs BMI)) (ch r 5))
      | TArr b =>
          (* always a fresh, non-empty array (so that `e mod (# a)` is a valid index everywhere) *)
          if rb r 3 1 3
          then EPrim (PANew b) [ELit (LNum NMI (1 + rn r 4 4)); gen_expr k (force_noif E) (sub_mode m) (ty_of_bty b) (ch r 5)]
          else EArrLit b (map (fun i => gen_expr k (force_noif E) (sub_mode m) (ty_of_bty b) (ch r (Z.of_nat i + 5)))
                              (seq 0 (S (Z.to_nat (rn r 4 3)))))
      | TRec fs =>
          (* always a fresh record; no `if` inside the bracket (see if-inside-list-bracket) *)
          ERec fs (map (fun ib => gen_expr k (force_noif E) (sub_mode m) (ty_of_bty (snd ib)) (ch r (Z.of_nat (fst ib) + 5)))
                       (combine (seq 0 (List.length fs)) fs))
      | TBox d n =>
          let o := rn r 3 5 in
          let x := gen_expr k E (sub_mode m) (TBox d n) (ch r 1) in
          if o <? 1 then EPrim (PBox d n) [gen_expr k E m (ty_of_nty n) (ch r 2)]
          else if o <? 2 then EPrim (PBump d n) [x]
          else if o <? 3 then EPrim (PTwice d n) [x]
          else EPrim (PScale d n) [x; gen_lit (ty_of_nty n) (ch r 2)]
      | TList b =>
          let o := rn r 3 6 in
          let l := gen_expr k E (sub_mode m) (TList b) (ch r 1) in
          if o <? 2 then EPrim (PLCons b) [gen_expr k E (sub_mode m) (ty_of_bty b) (ch r 2); l]
          else if (o <? 3) && negb (gTop E) && negb (gNoIf E) then EIf (EPrim (PLEmptyQ b) [l]) l (EPrim (PLRest b) [l])    (* guarded rest *)
          else if o <? 4 then EPrim (PLRev b) [l]
          else
            (* no `if` inside a bracket: `[(if b then x else y)]` crashes at run time with the pinned
               compiler (segmentation violation; reported as a finding)                           *)
            EListLit b (map (fun i => gen_expr k (force_noif E) (sub_mode m) (ty_of_bty b) (ch r (Z.of_nat i + 5)))
                               (seq 0 (Z.to_nat (rn r 4 4))))
      end
    else if c <? 10 then
      (* function call *)
      match callable E m t with
      | [] =>
          match gSelf E, m with
          | Some g, MAny | Some g, MPure =>
              if (ty_eqb (gs_ret g) t && (match m with MPure => gs_pure g | _ => true end)
                  && (negb (gCallTF E) || negb (gs_try g)))%bool
              then ECall (gs_name g)
                     (EPrim (PSub NMI) [ELoc 0; ELit (LNum NMI 1)]
                      :: map (fun jt => gen_expr k (set_pos E 1) MStable (snd jt) (ch r (Z.of_nat (fst jt) + 3)))
                             (combine (seq 0 (List.length (gs_params g))) (tl (gs_params g))))
              else leaf E m t r
          | _, _ => leaf E m t r
          end
      | g0 :: gs' =>
          let g := pick r 3 (g0 :: gs') g0 in
          let n := List.length (gs_params g) in
          let am' := arg_mode (match m with MAny => MAny | x => x end) (ch r 4) n in
          ECall (gs_name g)
            (map (fun jt =>
                    if (gs_rec g && Nat.eqb (fst jt) 0)%bool then ELit (LNum NMI (rn r 5 5))
                    else gen_expr k (set_pos E 1) (am' (fst jt)) (snd jt) (ch r (Z.of_nat (fst jt) + 6)))
                 (combine (seq 0 n) (gs_params g)))
      end
    else if c <? 11 then
      if gNoIf E then leaf E m t r
      else if ((gTop E && is_list t) || match t with TFun _ _ => true | _ => false end)%bool then leaf E m t r
      else let Ei := set_noclo (match t with TRec _ | TArr _ => set_pos (no_top_loop E) (match gPos E with 0%nat => 0%nat | _ => 2%nat end)
                               | _ => no_top_loop E end) in
           EIf (gen_expr k Ei m TBool (ch r 1)) (gen_expr k Ei m t (ch r 2)) (gen_expr k Ei m t (ch r 3))
    else
      match m with
      | MAny =>
          if (fSeq (gFe E) && negb (match t with TRec _ | TArr _ => true | _ => false end))%bool
          then ESeq (gen_block k (no_ret (no_top_loop E)) (Some t) (Z.to_nat (rn r 3 3)) (ch r 4))
                    (gen_expr k E MAny t (ch r 5))
          else leaf E m t r
      | _ => leaf E m t r
      end
  end

(* a list of about n statements; vs = Some t: directly inside a value sequence of type t *)
with gen_block (sz : nat) (E : genv) (vs : option ty) (n : nat) (r : rng) {struct sz} : list stmt :=
  match sz with
  | O => []
  | S k =>
    (fix go (n : nat) (r : rng) {struct n} : list stmt :=
       match n with
       | O => []
       | S n' => gen_stmts k E vs (ch r 1) ++ go n' (ch r 2)
       end) n r
  end

with gen_stmts (sz : nat) (E : genv) (vs : option ty) (r : rng) {struct sz} : list stmt :=
  let E := set_pos E 2 in
  let asg_ok (d : ty * vkind) := (k_assignable (snd d) && (lists_ok E || negb (is_list (fst d)))
                                  && negb (gLoop E && match fst d with TFun _ _ => true | _ => false end))%bool in
  let asg_g := idx_where asg_ok 0 (gG E) in
  let asg_l := idx_where asg_ok 0 (gL E) in
  let print1 (k : nat) :=
      (* values of the Box domains have no `<<`: they are observed through unbox *)
      let tys := filter (fun t => (match t with TBox _ _ | TRec _ | TUni _ | TFun _ _ => false | _ => true end) && (lists_ok E || negb (is_list t)))%bool
                        (val_types (gFe E)) in
      let t1 := pick r 30 tys TMI in
      let t2 := pick r 31 tys TMI in
      if rb r 32 1 2 then [SPrint [gen_expr k E MAny t1 (ch r 33)]]
      else [SPrint [gen_expr k E MPure t1 (ch r 33); ELit (LStr " "%string); gen_expr k E MPure t2 (ch r 34)]] in
  let assign (k : nat) :=
      match (if gPureF E then [] else asg_g), asg_l with
      | [], [] => []
      | gs, ls =>
          let ng := Z.of_nat (List.length gs) in
          let nl := Z.of_nat (List.length ls) in
          let j := rn r 35 (ng + nl) in
          if j <? ng then
            let g := nth (Z.to_nat j) gs 0%nat in
            match nth_error (gG E) g with
            | Some (TRec fs, _) =>
                if rb r 37 1 2 then [SAssG g (gen_expr k E MAny (TRec fs) (ch r 36))]
                else let i := Z.to_nat (rn r 38 (Z.of_nat (List.length fs))) in
                     [SSetG g i (gen_expr k E MPure (ty_of_bty (nth i fs BMI)) (ch r 36))]
            | Some (TArr b, _) =>
                if rb r 37 1 2 then [SAssG g (gen_expr k E MAny (TArr b) (ch r 36))]
                else [SSetIG g (EPrim (PMod NMI) [gen_expr k E MPure TMI (ch r 38); EPrim (PALen b) [EGlob g]])
                               (gen_expr k E MPure (ty_of_bty b) (ch r 36))]
            | Some (t, _) => [SAssG g (gen_expr k E MAny t (ch r 36))]
            | None => []
            end
          else
            let l := nth (Z.to_nat (j - ng)) ls 0%nat in
            match nth_error (gL E) l with
            | Some (TRec fs, _) =>
                if rb r 37 1 2 then [SAssL l (gen_expr k E MAny (TRec fs) (ch r 36))]
                else let i := Z.to_nat (rn r 38 (Z.of_nat (List.length fs))) in
                     [SSetL l i (gen_expr k E MPure (ty_of_bty (nth i fs BMI)) (ch r 36))]
            | Some (TArr b, _) =>
                if rb r 37 1 2 then [SAssL l (gen_expr k E MAny (TArr b) (ch r 36))]
                else [SSetIL l (EPrim (PMod NMI) [gen_expr k E MPure TMI (ch r 38); EPrim (PALen b) [ELoc l]])
                               (gen_expr k E MPure (ty_of_bty b) (ch r 36))]
            | Some (t, _) => [SAssL l (gen_expr k E MAny t (ch r 36))]
            | None => []
            end
      end in
  let simple (k : nat) := if gPureF E then assign k else print1 k in
  match sz with
  | O => []
  | S k =>
    let c := rn r 0 20 in
    if (16 <=? c) && negb (gPureF E) && (fExn (gFe E) || fErr (gFe E)) then
      if (c <? 18) && fExn (gFe E) && negb (gNoTry E) && (negb (gTop E) || fTryTop (gFe E)) then
        (* try / catch: handlers for every user exception, rotated *)
        let rot := Z.to_nat (rn r 1 3) in
        let full := orb (rb r 2 3 4) (negb (gInTry E || gThr E)) in
        let ks := if full then [rot; (rot + 1) mod 3; (rot + 2) mod 3]%nat else [rot] in
        (* no break / iterate / return out of a try block: the pinned compiler turns `iterate`
           inside a `try` body into a goto to a label of another C function ("label used but not
           defined") and the interpreter crashes (reported as a finding)                         *)
        let Et := no_ret (set_loop E false) in
        [STry (gen_block k (no_top_loop (set_try Et (full || gInTry E))) None (S (Z.to_nat (rn r 3 3))) (ch r 4))
              (map (fun j => (j, gen_block k (no_top_loop Et) None (Z.to_nat (rn r (5 + Z.of_nat j) 2)) (ch r (8 + Z.of_nat j)))) ks)]
      else if (c <? 19) && fExn (gFe E) && (gInTry E || gThr E) then
        if gNoIf E then [] else [SIf (gen_expr k (no_top_loop E) MAny TBool (ch r 1)) [SThrow (Z.to_nat (rn r 2 3))] []]
      else if fErr (gFe E) && rb r 1 1 3 then
        if gNoIf E then []
        else [SIf (gen_expr k (no_top_loop E) MAny TBool (ch r 2))
                  [if rb r 3 1 4 then SNever else SError (ELit (LStr (gen_str 2 (ch r 4))))] []]
      else simple k
    else if (c =? 4) && gLoop E then
      (* more loop exits: break / iterate under a generated condition *)
      let j := if rb r 1 1 2 then SBreak else SIterate in
      if fExit (gFe E) then [SExit (gen_expr k (exit_cond E) MAny TBool (ch r 2)) j]
      else if gNoIf E then [] else [SIf (gen_expr k (no_top_loop E) MAny TBool (ch r 2)) [j] []]
    else if c <? 4 then simple k
    else if c <? 7 then assign k
    else if (c <? 9) && gNoIf E then assign k
    else if c <? 9 then
      [SIf (gen_expr k (no_top_loop E) MAny TBool (ch r 1))
           (gen_block k (no_top_loop E) None (S (Z.to_nat (rn r 2 2))) (ch r 3))
           (if rb r 4 1 2 then [] else gen_block k (no_top_loop E) None (S (Z.to_nat (rn r 5 2))) (ch r 6))]
    else if c <? 11 then
      if (lists_ok E && (fList (gFe E) || fArr (gFe E)) && fFor (gFe E) && negb (gNoLoop E) && rb r 7 1 3)%bool then
        let b := pick_elem E r 8 in
        let E' := set_noif (set_loop (set_L E (gL E ++ [(ty_of_bty b, KConst)])) true) in
        [SForIn b (gen_expr k (set_pos E 0) MAny (if (fArr (gFe E) && (rb r 9 1 2 || negb (fList (gFe E))))%bool then TArr b else TList b) (ch r 1))
                  (gen_block k E' None (S (Z.to_nat (rn r 5 3))) (ch r 6))]
      else if (fFor (gFe E) && negb (gNoLoop E))%bool then
        let lo := small_lit NMI (-2) 6 (ch r 1) in
        let hi := if rb r 2 3 4 then small_lit NMI 0 7 (ch r 3)
                  else EPrim (PMod NMI) [gen_expr k E MStable TMI (ch r 3); small_lit NMI 2 6 (ch r 4)] in
        let E' := set_noif (set_loop (set_L E (gL E ++ [(TMI, KConst)])) true) in
        [SFor lo hi (gen_block k E' None (S (Z.to_nat (rn r 5 3))) (ch r 6))]
      else simple k
    else if c <? 12 then
      match (if (fWhile (gFe E) && negb (gNoLoop E))%bool then gCnt E else []) with
      | [] => assign k
      | cn :: rest =>
          let E' := set_noif (set_loop (set_cnt E rest) true) in
          let body := gen_block k E' None (S (Z.to_nat (rn r 5 2))) (ch r 6) in
          let init := ELit (LNum NMI (rn r 1 5)) in
          if gTop E then
            [SAssG cn init;
             SWhile (EPrim (PGt NMI) [EGlob cn; ELit (LNum NMI 0)])
                    (SAssG cn (EPrim (PSub NMI) [EGlob cn; ELit (LNum NMI 1)]) :: body)]
          else
            [SAssL cn init;
             SWhile (EPrim (PGt NMI) [ELoc cn; ELit (LNum NMI 0)])
                    (SAssL cn (EPrim (PSub NMI) [ELoc cn; ELit (LNum NMI 1)]) :: body)]
      end
    else if c <? 13 then
      (* exits and jumps *)
      match vs with
      | Some t =>
          if fExit (gFe E) then [SExitV (gen_expr k (exit_cond E) MAny TBool (ch r 1)) (gen_expr k E MAny t (ch r 2))]
          else assign k
      | None =>
          if gLoop E then
            let j := if rb r 1 1 2 then SBreak else SIterate in
            if fExit (gFe E) then [SExit (gen_expr k (exit_cond E) MAny TBool (ch r 2)) j]
            else if gNoIf E then [] else [SIf (gen_expr k (no_top_loop E) MAny TBool (ch r 2)) [j] []]
          else if fExit (gFe E) then
            (* `c => s` is an `if` in disguise: at the top level s is generated under the
               restrictions that hold below a top-level `if`                              *)
            match (if gTop E then gen_stmts k (no_top_loop E) None (ch r 7) else assign k) with
            | [s] => if is_exit s then [] else [SExit (gen_expr k (exit_cond E) MAny TBool (ch r 2)) s]
            | _ => []
            end
          else assign k
      end
    else if c <? 14 then
      match gRet E with
      | Some t => if gNoIf E then []
                  else [SIf (gen_expr k (no_top_loop E) MAny TBool (ch r 1)) [SReturn (gen_expr k E MAny t (ch r 2))] []]
      | None => simple k
      end
    else
      (* call for effect *)
      match filter (fun g => (negb (gs_pure g) && thr_ok E g && (lists_ok E || negb (sig_has_list g))
                              && (negb (gNoClo E || gLoop E)
                                  || negb (existsb (fun t0 => match t0 with TFun _ _ => true | _ => false end) (gs_params g))))%bool)
                   (if gPureF E then [] else gF E) with
      | [] => simple k
      | g0 :: gs' =>
          let g := pick r 1 (g0 :: gs') g0 in
          let n := List.length (gs_params g) in
          [SCall (gs_name g)
             (map (fun jt =>
                     if (gs_rec g && Nat.eqb (fst jt) 0)%bool then ELit (LNum NMI (rn r 5 5))
                     else gen_expr k (set_pos E 1) MPure (snd jt) (ch r (Z.of_nat (fst jt) + 6)))
                  (combine (seq 0 n) (gs_params g)))]
      end
  end.

(* ---------------- functions ---------------- *)
Definition gen_params (fe : feats) (r : rng) : list ty :=
  map (fun i => gen_ty fe r (Z.of_nat i + 40)) (seq 0 (Z.to_nat (rn r 39 4))).

Fixpoint sig_taken (fs : list fsig) (name : nat) (ps : list ty) : bool :=
  match fs with
  | [] => false
  | g :: r => ((Nat.eqb (gs_name g) name && tys_eqb (gs_params g) ps) || sig_taken r name ps)%bool
  end.

Definition fresh_name (fs : list fsig) : nat := S (fold_right (fun g a => Nat.max (gs_name g) a) 0%nat fs).

(* Build one function definition.  G: globals visible (generator view), fs: earlier functions *)
Definition gen_fun (sz : nat) (fe : feats) (G : list (ty * vkind)) (fs : list fsig) (r : rng)
           (forced : option (nat * list ty * ty))   (* helper for function values: (captured, parameters, result) *)
  : fundef * fsig :=
  let isrec := (fRec fe && rb r 1 1 3 && match forced with None => true | _ => false end)%bool in
  let ps0 := gen_params fe (ch r 2) in
  let ps := match forced with Some (_, fps, _) => fps | None => if isrec then TMI :: ps0 else ps0 end in
  let ret := match forced with Some (_, _, fr) => fr | None => gen_ty fe r 3 end in
  (* overloading: reuse an earlier name with a different parameter list; the purity of a
     name is shared by all its definitions                                                *)
  let reuse := match fs with
               | [] => None
               | g0 :: _ => if (fOvl fe && rb r 4 1 2 && match forced with None => true | _ => false end)%bool
                            then let g := pick r 5 fs g0 in
                                 if sig_taken fs (gs_name g) ps then None else Some g
                            else None
               end in
  let name := match reuse with Some g => gs_name g | None => fresh_name fs end in
  let pure := match reuse with Some g => gs_pure g | None => rb r 6 1 2 end in
  let thr := (fExn fe && negb pure && rb r 13 1 3)%bool in
  (* The pinned run time crashes when a program mixes a file-level `try` with a function whose
     own `try` catches an exception (reported as a finding): per program, `try` stands either
     at file level only or inside functions only (fTryTop).                                  *)
  let maytry := (fExn fe && negb pure && negb (fTryTop fe))%bool in
  let me := mkSig name ps ret pure isrec thr maytry (match forced with Some (k, _, _) => Some k | None => None end) in
  let np := List.length ps in
  let nloc := Z.to_nat (rn r 7 3) in
  let ncnt := if fWhile fe then Z.to_nat (rn r 8 2) else 0%nat in
  let ltys := map (fun i => gen_ty fe r (Z.of_nat i + 50)) (seq 0 nloc) in
  let pframe := map (fun t => (t, KConst)) ps in
  let E0 := mkGenv fe G fs pframe [] false (Some ret) false pure None false false false false (negb maytry) false (negb maytry) 2%nat false in
  (* initialisers of the locals: each sees the parameters and the earlier locals *)
  let locals :=
      (fix go (i : nat) (ts : list ty) (fr : list (ty * vkind)) : list (ty * expr) :=
         match ts with
         | [] => []
         | t :: rest => (t, gen_expr 1 (set_L E0 fr) MPure t (ch r (Z.of_nat i + 60)))
                        :: go (S i) rest (fr ++ [(t, KVar)])
         end) 0%nat ltys pframe in
  let cnts := map (fun _ => (TMI, ELit (LNum NMI 0))) (seq 0 ncnt) in
  let frame := pframe ++ map (fun t => (t, KVar)) ltys ++ map (fun _ => (TMI, KCnt)) (seq 0 ncnt) in
  let E := mkGenv fe G fs frame (seq (np + nloc) ncnt) false (Some ret) false pure
                  (if isrec then Some me else None) false false false thr (negb maytry) false (negb maytry) 2%nat false in
  let guard := if isrec
               then [SExitV (EPrim (PLe NMI) [ELoc 0; ELit (LNum NMI 0)]) (gen_expr 1 (set_L E0 pframe) MPure ret (ch r 9))]
               else [] in
  let body := guard ++ gen_block sz E (Some ret) (S (Z.to_nat (rn r 10 3))) (ch r 11) in
  let result := gen_expr sz E MAny ret (ch r 12) in
  (mkFun name ps ret (locals ++ cnts) body result pure
         (List.length G), me).

(* ---------------- programs ---------------- *)
(* a top-level form may not be an exit (it would leave the file's sequence) *)
Definition no_top_exit (st : stmt) : stmt :=
  match st with
  | SExit c s' => SIf c [s'] []
  | _ => st
  end.

(* state of the top-level generator: items so far (reversed), globals, functions *)
Fixpoint gen_items (n : nat) (sz : nat) (fe : feats) (G : list (ty * vkind)) (cnt : list nat)
         (fs : list fsig) (r : rng) {struct n} : prog :=
  match n with
  | O =>
      (* finally print every global, so that the whole final state is observed *)
      map (fun k => IStmt (SPrint [match nth_error G k with
                                   | Some (TBox d n, _) => EPrim (PUnbox d n) [EGlob k]
                                   | Some (TRec fs, _) => EField 0 (EGlob k)
                                   | Some (TUni fs, _) => ECase 0 (EGlob k)
                                   | Some (TFun _ _, _) => ELit (LStr "fn"%string)
                                   | _ => EGlob k
                                   end])) (seq 0 (List.length G))
      ++ flat_map (fun k => match nth_error G k with
                            | Some (TRec fs, _) => map (fun i => IStmt (SPrint [EField i (EGlob k)])) (seq 1 (List.length fs - 1))
                            | _ => []
                            end) (seq 0 (List.length G))
  | S n' =>
      let E := mkGenv fe G fs [] cnt true None false false None false false false false false false false 2%nat false in
      let c := rn r 0 10 in
      if c <? 3 then
        let t := gen_ty fe r 1 in
        let isvar := rb r 2 2 3 in
        let e := gen_expr sz E MAny t (ch r 3) in
        (if isvar then IVar t e else IConst t e)
        :: gen_items n' sz fe (G ++ [(t, if isvar then KVar else KConst)]) cnt fs (ch r 4)
      else if (c <? 5) && fFun fe then
        let (fd, g) := gen_fun sz fe G fs (ch r 1) None in
        IFun fd :: gen_items n' sz fe G cnt (fs ++ [g]) (ch r 4)
      else
        map (fun st => IStmt (no_top_exit st)) (gen_stmts (S sz) E None (ch r 1)) ++ gen_items n' sz fe G cnt fs (ch r 4)
  end.

Definition gen0 (fe : feats) (r : rng) (size : nat) : prog :=
  let sz := Nat.min 4 (1 + size / 8)%nat in
  (* two reserved global while-counters, declared first *)
  let pre := if fWhile fe then [IVar TMI (ELit (LNum NMI 0)); IVar TMI (ELit (LNum NMI 0))] else [] in
  let G0 := if fWhile fe then [(TMI, KCnt); (TMI, KCnt)] else [] in
  let cnt := if fWhile fe then [0%nat; 1%nat] else [] in
  (* helpers for function values come first: they see no global (fd_nglob = 0) and use the base
     types only *)
  let fe_base := mkFeats (fInt fe) (fStr fe) (fFun fe) false (fOvl fe) (fWhile fe) (fFor fe) (fExit fe) (fSeq fe)
                         false false false false (fMac fe) false false false false (fTryTop fe) (fQual fe) in
  let helpers :=
      if fClo fe then
        (fix go (i : nat) (shs : list (list bty * list bty * bty)) (fs : list fsig) : list item * list fsig :=
           match shs with
           | [] => ([], fs)
           | (caps, ps, r0) :: rest =>
               let (fd, g) := gen_fun 2 fe_base [] fs (ch r (Z.of_nat i + 50))
                                      (Some (List.length caps, map ty_of_bty (caps ++ ps), ty_of_bty r0)) in
               let (its, fs') := go (S i) rest (fs ++ [g]) in
               (IFun fd :: its, fs')
           end) 0%nat (clo_shapes fe) []
      else ([], []) in
  fst helpers ++ pre ++ gen_items (3 + size)%nat sz fe G0 cnt (snd helpers) (ch r 1).

(* rendering style of the literals of the program generated from [seed] *)
Definition style_of_seed (seed : Z) : Print.style :=
  let fe := draw_feats (rng_of_seed seed) in Print.mkStyle (fQual fe) (fMac fe).

Definition gen_fuel : nat := 3000.

Definition accepted (p : prog) : bool :=
  (typecheck p && match eval gen_fuel p with Done _ _ => true | _ => false end)%bool.

Definition fallback_prog : prog := [IStmt (SPrint [ELit (LStr "fallback"%string)])].

Fixpoint gen_try (fe : feats) (k : nat) (r : rng) (size : nat) : option (nat * prog) :=
  let p := gen0 fe r size in
  if accepted p then Some (k, p)
  else match k with
       | O => None
       | S k' => gen_try fe k' (ch r 99) size
       end.

Definition gen_tries : nat := 5.

(* (number of rejected candidates before the accepted one, program);
   S gen_tries means that the fallback was used                                           *)
Definition gen_with_tries (seed : Z) (size : nat) : nat * prog :=
  match gen_try (draw_feats (rng_of_seed seed)) gen_tries (rng_of_seed seed) size with
  | Some (k, p) => ((gen_tries - k)%nat, p)
  | None => (S gen_tries, fallback_prog)
  end.

Definition gen (seed : Z) (size : nat) : prog := snd (gen_with_tries seed size).
