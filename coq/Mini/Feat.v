(* MiniAldor: what a program contains (feature names, literal classes, size), computed from
   the abstract program so that the evidence counts what was really generated.  Definitions only. *)
Require Import List ZArith String Bool Arith Ascii.
Require Import AV.Mini.Syntax AV.Mini.Types AV.Mini.Eval.
Import ListNotations.
Local Open Scope string_scope.
Local Open Scope list_scope.

Definition lit_class (l : lit) : string :=
  match l with
  | LNum NMI z =>
      if (z =? 0)%Z then "mi:0" else if (z =? 1)%Z then "mi:1"
      else if (z <? 256)%Z then "mi:small"
      else if (z <? 2147483648)%Z then "mi:<2^31"
      else if (z <? 4294967296)%Z then "mi:<2^32"
      else if (z <? 9223372036854775806)%Z then "mi:<2^63-2" else "mi:max"
  | LNum NInt z =>
      if (z =? 0)%Z then "int:0" else if (z =? 1)%Z then "int:1"
      else if (z <? 256)%Z then "int:small"
      else if (z <? two63)%Z then "int:<2^63"
      else if (z <? two64)%Z then "int:<2^64"
      else if (z <? two64 * two64)%Z then "int:<2^128" else "int:huge"
  | LBool _ => "bool"
  | LStr s =>
      if String.eqb s "" then "str:empty"
      else if existsb (fun c => orb (Nat.eqb (nat_of_ascii c) 34) (Nat.eqb (nat_of_ascii c) 95))
                      (list_ascii_of_string s) then "str:escaped" else "str:plain"
  end.

Definition prim_feat (p : prim) : string :=
  match p with
  | PAdd n | PSub n | PMul n | PNeg n | PAbs n | PMin n | PMax n =>
      match n with NMI => "mi-arith" | NInt => "int-arith" end
  | PQuo n | PRem n | PMod n => match n with NMI => "mi-div" | NInt => "int-div" end
  | PEq n | PNe n | PLt n | PLe n | PGt n | PGe n => match n with NMI => "mi-cmp" | NInt => "int-cmp" end
  | PToInt | PToMI => "convert"
  | PNot | PBAnd | PBOr | PBEq | PBNe => "bool-op"
  | PCat | PLen | PSEq | PSNe => "string-op"
  | PLCons _ | PLFirst _ | PLRest _ | PLLen _ | PLEmptyQ _ | PLRev _ | PLEq _ | PLNe _ | PLNth _ => "list-op"
  | PBox _ _ | PUnbox _ _ | PBump _ _ => "domain-op"
  | PTwice _ _ => "category-default"
  | PScale DA _ => "category-default"
  | PScale DB _ => "default-overridden"
  | PANew _ | PALen _ | PAGet _ => "array-op"
  | PSzLimit _ | PSzTwice _ => "category-default-constant"
  end.

(* (features, literal classes, node count) *)
Fixpoint fe_e (e : expr) : list string * list string * nat :=
  let join (l : list (list string * list string * nat)) :=
      fold_right (fun x a => (fst (fst x) ++ fst (fst a), snd (fst x) ++ snd (fst a), (snd x + snd a)%nat))
                 ([], [], 1%nat) l in
  let add (f : string) (x : list string * list string * nat) := (f :: fst (fst x), snd (fst x), snd x) in
  match e with
  | ELit l => ([], [lit_class l], 1%nat)
  | EGlob _ => (["global"], [], 1%nat)
  | ELoc _ => (["local"], [], 1%nat)
  | EPrim p args => add (prim_feat p) (join (map fe_e args))
  | ECall _ args => add "call" (join (map fe_e args))
  | EIf c a b => add "if-expr" (join [fe_e c; fe_e a; fe_e b])
  | EAnd a b | EOr a b => add "and-or" (join [fe_e a; fe_e b])
  | ESeq ss e' => add "value-seq" (join (fe_e e' :: map fe_s ss))
  | EMac _ e' => add "macro-call" (join [fe_e e'])
  | EListLit _ es => add (match es with [] => "list-empty" | _ => "list-literal" end) (join (map fe_e es))
  | ERec _ es => add "record" (join (map fe_e es))
  | EArrLit _ es => add "array-literal" (join (map fe_e es))
  | EField _ e' => add "record-field" (join [fe_e e'])
  | EClo _ _ _ es => add "closure" (join (map fe_e es))
  | EApp fn es => add "closure-call" (join (fe_e fn :: map fe_e es))
  | EUni _ _ e' => add "union" (join [fe_e e'])
  | ECase _ e' => add "union-case" (join [fe_e e'])
  | EUGet _ e' => add "union-field" (join [fe_e e'])
  end
with fe_s (s : stmt) : list string * list string * nat :=
  let join (l : list (list string * list string * nat)) :=
      fold_right (fun x a => (fst (fst x) ++ fst (fst a), snd (fst x) ++ snd (fst a), (snd x + snd a)%nat))
                 ([], [], 1%nat) l in
  let add (f : string) (x : list string * list string * nat) := (f :: fst (fst x), snd (fst x), snd x) in
  match s with
  | SAssG _ e => add "assign-global" (join [fe_e e])
  | SAssL _ e => add "assign-local" (join [fe_e e])
  | SSetG _ _ e | SSetL _ _ e => add "record-update" (join [fe_e e])
  | SSetIG _ j e | SSetIL _ j e => add "array-update" (join [fe_e j; fe_e e])
  | SPrint es => add "print" (join (map fe_e es))
  | SIf c a b => add "if-stmt" (join (fe_e c :: map fe_s a ++ map fe_s b))
  | SWhile c body => add "while" (join (fe_e c :: map fe_s body))
  | SFor lo hi body => add "for" (join (fe_e lo :: fe_e hi :: map fe_s body))
  | SForIn _ l body => add "for-in-list" (join (fe_e l :: map fe_s body))
  | SBreak => (["break"], [], 1%nat)
  | SIterate => (["iterate"], [], 1%nat)
  | SReturn e => add "return" (join [fe_e e])
  | SExit c s' => add "exit" (join [fe_e c; fe_s s'])
  | SExitV c e => add "exit-value" (join [fe_e c; fe_e e])
  | SCall _ args => add "call-stmt" (join (map fe_e args))
  | SError e => add "error" (join [fe_e e])
  | SNever => (["never"], [], 1%nat)
  | SThrow _ => (["throw"], [], 1%nat)
  | STry body hs => add "try" (join (map fe_s body ++ flat_map (fun h => map fe_s (snd h)) hs))
  end.

Definition fe_join (l : list (list string * list string * nat)) : list string * list string * nat :=
  fold_right (fun x a => (fst (fst x) ++ fst (fst a), snd (fst x) ++ snd (fst a), (snd x + snd a)%nat))
             ([], [], 0%nat) l.

Definition fe_fun (F : list fundef) (fd : fundef) : list string * list string * nat :=
  let x := fe_join (map (fun le => fe_e (snd le)) (fd_locals fd) ++ map fe_s (fd_body fd) ++ [fe_e (fd_result fd)]) in
  let selfcall := existsb (String.eqb "call") (fst (fst x)) in
  let ovl := Nat.ltb 1 (List.length (filter (fun g => Nat.eqb (fd_name g) (fd_name fd)) F)) in
  ((["function"] ++ (if ovl then ["overload"] else [])
    ++ (if fd_pure fd then ["pure-function"] else ["impure-function"])
    ++ (match fd_locals fd with [] => [] | _ => ["locals"] end)) ++ fst (fst x), snd (fst x), snd x).

Definition fe_item (F : list fundef) (it : item) : list string * list string * nat :=
  match it with
  | IConst _ e => let x := fe_e e in ("constant" :: fst (fst x), snd (fst x), snd x)
  | IVar _ e => let x := fe_e e in ("variable" :: fst (fst x), snd (fst x), snd x)
  | IFun fd => fe_fun F fd
  | IStmt s => fe_s s
  end.

Fixpoint dedup (l : list string) : list string :=
  match l with
  | [] => []
  | x :: r => if existsb (String.eqb x) r then dedup r else x :: dedup r
  end.

Fixpoint calls_e (n0 : nat) (e : expr) : bool :=
  match e with
  | ELit _ | EGlob _ | ELoc _ => false
  | EPrim _ args => existsb (calls_e n0) args
  | ECall n args => (Nat.eqb n n0 || existsb (calls_e n0) args)%bool
  | EIf c a b => (calls_e n0 c || calls_e n0 a || calls_e n0 b)%bool
  | EAnd a b | EOr a b => (calls_e n0 a || calls_e n0 b)%bool
  | ESeq ss e' => (existsb (calls_s n0) ss || calls_e n0 e')%bool
  | EMac _ e' => calls_e n0 e'
  | EListLit _ es | ERec _ es | EArrLit _ es => existsb (calls_e n0) es
  | EClo n _ _ es => (Nat.eqb n n0 || existsb (calls_e n0) es)%bool
  | EApp fn es => (calls_e n0 fn || existsb (calls_e n0) es)%bool
  | EField _ e' | EUni _ _ e' | ECase _ e' | EUGet _ e' => calls_e n0 e'
  end
with calls_s (n0 : nat) (s : stmt) : bool :=
  match s with
  | SAssG _ e | SAssL _ e | SReturn e | SSetG _ _ e | SSetL _ _ e => calls_e n0 e
  | SSetIG _ j e | SSetIL _ j e => (calls_e n0 j || calls_e n0 e)%bool
  | SPrint es => existsb (calls_e n0) es
  | SCall n es => (Nat.eqb n n0 || existsb (calls_e n0) es)%bool
  | SIf c a b => (calls_e n0 c || existsb (calls_s n0) a || existsb (calls_s n0) b)%bool
  | SWhile c body => (calls_e n0 c || existsb (calls_s n0) body)%bool
  | SFor lo hi body => (calls_e n0 lo || calls_e n0 hi || existsb (calls_s n0) body)%bool
  | SForIn _ l body => (calls_e n0 l || existsb (calls_s n0) body)%bool
  | SBreak | SIterate | SNever | SThrow _ => false
  | SExit c s' => (calls_e n0 c || calls_s n0 s')%bool
  | SExitV c e => (calls_e n0 c || calls_e n0 e)%bool
  | SError e => calls_e n0 e
  | STry body hs => (existsb (calls_s n0) body || existsb (fun h => existsb (calls_s n0) (snd h)) hs)%bool
  end.

(* a definition that calls its own name *)
Definition recursive_fun (fd : fundef) : bool :=
  let n0 := fd_name fd in
  (existsb (fun le => calls_e n0 (snd le)) (fd_locals fd) || existsb (calls_s n0) (fd_body fd)
   || calls_e n0 (fd_result fd))%bool.

(* features, literal classes, size *)
Definition describe (p : prog) : list string * list string * nat :=
  let F := funs_of p in
  let x := fe_join (map (fe_item F) p) in
  (dedup (fst (fst x) ++ (if existsb recursive_fun F then ["recursion"] else [])),
   dedup (snd (fst x)), snd x).
