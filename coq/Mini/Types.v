(* MiniAldor: the typing rules of the subset as a total boolean checker.
   Definitions only (facts in Facts.v).

   Overload resolution (langfuns.tex:341-343, langsumm.tex:29-31): a call f(a1..an) is
   resolved among ALL definitions named f in the file (file scope, langenvs.tex:83-107)
   by the number and the types of the actual arguments; the subset never uses the
   context type, so a call with two surviving meanings is an error (msghelp.tex:163
   "There are %d meanings ...") and a call with none is an error.

   Evaluation order of actual arguments "is not defined" (langfuns.tex:211-212): a
   program belongs to the defined subset only if no result can depend on it
   ([ordered_args]): at most one operand with effects, and then every other operand
   is built from literals and constants only.                                        *)
Require Import List ZArith String Bool Arith.
Require Import AV.Mini.Syntax.
Import ListNotations.
Local Open Scope Z_scope.

Section MapOpt.
  Context {A B : Type} (f : A -> option B).
  Fixpoint map_opt (l : list A) : option (list B) :=
    match l with
    | [] => Some []
    | a :: r => match f a with
                | Some b => match map_opt r with Some bs => Some (b :: bs) | None => None end
                | None => None
                end
    end.
End MapOpt.

Fixpoint tys_eqb (a b : list ty) : bool :=
  match a, b with
  | [], [] => true
  | x :: a', y :: b' => ty_eqb x y && tys_eqb a' b'
  | _, _ => false
  end.

Definition two63 : Z := 9223372036854775808.
Definition two64 : Z := 18446744073709551616.

(* string literals: printable ASCII only (32..126), so that the text is the same in
   every locale and the renderer's escaping (langexpr.tex:147-157) is total          *)
Fixpoint str_ok (s : string) : bool :=
  match s with
  | EmptyString => true
  | String c r => let n := Ascii.nat_of_ascii c in (Nat.leb 32 n && Nat.leb n 126 && str_ok r)%bool
  end.

Definition lit_type (l : lit) : option ty :=
  match l with
  | LNum NMI z => if (0 <=? z) && (z <? two63) then Some TMI else None
  | LNum NInt z => if 0 <=? z then Some TInt else None
  | LBool _ => Some TBool
  | LStr s => if str_ok s then Some TStr else None
  end.

Definition prim_sig (p : prim) : list ty * ty :=
  match p with
  | PAdd n | PSub n | PMul n | PQuo n | PRem n | PMod n | PMin n | PMax n =>
      ([ty_of_nty n; ty_of_nty n], ty_of_nty n)
  | PNeg n | PAbs n => ([ty_of_nty n], ty_of_nty n)
  | PEq n | PNe n | PLt n | PLe n | PGt n | PGe n => ([ty_of_nty n; ty_of_nty n], TBool)
  | PToInt => ([TMI], TInt)
  | PToMI => ([TInt], TMI)
  | PNot => ([TBool], TBool)
  | PBAnd | PBOr | PBEq | PBNe => ([TBool; TBool], TBool)
  | PCat => ([TStr; TStr], TStr)
  | PLen => ([TStr], TMI)
  | PSEq | PSNe => ([TStr; TStr], TBool)
  | PLCons b => ([ty_of_bty b; TList b], TList b)
  | PLFirst b => ([TList b], ty_of_bty b)
  | PLRest b | PLRev b => ([TList b], TList b)
  | PLLen b => ([TList b], TMI)
  | PLEmptyQ b => ([TList b], TBool)
  | PLEq b | PLNe b => ([TList b; TList b], TBool)
  | PLNth b => ([TList b; TMI], ty_of_bty b)
  | PBox d n => ([ty_of_nty n], TBox d n)
  | PUnbox d n => ([TBox d n], ty_of_nty n)
  | PBump d n | PTwice d n => ([TBox d n], TBox d n)
  | PScale d n => ([TBox d n; ty_of_nty n], TBox d n)
  | PANew b => ([TMI; ty_of_bty b], TArr b)
  | PALen b => ([TArr b], TMI)
  | PAGet b => ([TArr b; TMI], ty_of_bty b)
  | PSzLimit _ | PSzTwice _ => ([], TMI)
  end.

(* ---- overload resolution ---- *)
Fixpoint cands_from (j : nat) (fs : list fundef) (name : nat) (tys : list ty) : list (nat * fundef) :=
  match fs with
  | [] => []
  | fd :: r =>
      if (Nat.eqb (fd_name fd) name && tys_eqb (fd_params fd) tys)%bool
      then (j, fd) :: cands_from (S j) r name tys
      else cands_from (S j) r name tys
  end.

Definition resolve (fs : list fundef) (name : nat) (tys : list ty) : option (nat * fundef) :=
  match cands_from 0 fs name tys with
  | [x] => Some x
  | _ => None          (* no meaning, or more than one meaning *)
  end.

(* ---- contexts ---- *)
Record ctx : Type := mkCtx {
  cG : list (ty * bool);     (* all global declarations of the file: type, assignable *)
  cNG : nat;                 (* how many of them precede the current form *)
  cF : list fundef;          (* all function definitions of the file *)
  cNF : nat;                 (* how many of them are defined (own definition included) *)
  cL : list (ty * bool);     (* frame: parameters, locals, loop variables: type, assignable *)
  cRet : option ty;          (* enclosing function's return type *)
  cLoop : bool;              (* inside a loop body *)
  cSeq : option ty;          (* directly inside a value sequence of this type *)
  cPure : bool               (* inside a function claimed free of side effects *)
}.

Definition with_seq (cx : ctx) (o : option ty) : ctx :=
  mkCtx (cG cx) (cNG cx) (cF cx) (cNF cx) (cL cx) (cRet cx) (cLoop cx) o (cPure cx).
Definition in_loop (cx : ctx) : ctx :=
  mkCtx (cG cx) (cNG cx) (cF cx) (cNF cx) (cL cx) (cRet cx) true None (cPure cx).
Definition push_local (cx : ctx) (d : ty * bool) : ctx :=
  mkCtx (cG cx) (cNG cx) (cF cx) (cNF cx) (cL cx ++ [d]) (cRet cx) (cLoop cx) (cSeq cx) (cPure cx).

(* ---- effects and order independence (syntactic, conservative) ---- *)
Definition name_maybe_impure (fs : list fundef) (name : nat) : bool :=
  existsb (fun fd => Nat.eqb (fd_name fd) name && negb (fd_pure fd))%bool fs.

Fixpoint eff (fs : list fundef) (e : expr) : bool :=
  match e with
  | ELit _ | EGlob _ | ELoc _ => false
  | EPrim _ args => existsb (eff fs) args
  | ECall name args => (name_maybe_impure fs name || existsb (eff fs) args)%bool
  | EIf c a b => (eff fs c || eff fs a || eff fs b)%bool
  | EAnd a b | EOr a b => (eff fs a || eff fs b)%bool
  | ESeq ss e => match ss with [] => eff fs e | _ => true end
  | EMac _ e => eff fs e
  | EListLit _ es | ERec _ es | EArrLit _ es => existsb (eff fs) es
  | EField _ e | EUni _ _ e | ECase _ e | EUGet _ e => eff fs e
  | EClo _ _ _ caps => existsb (eff fs) caps       (* forming a function value has no effect *)
  | EApp _ _ => true                             (* applying one may *)
  end.

Fixpoint stable (cx : ctx) (e : expr) : bool :=
  match e with
  | ELit _ => true
  | EGlob k => match nth_error (cG cx) k with Some (_, false) => true | _ => false end
  | ELoc k => match nth_error (cL cx) k with Some (_, false) => true | _ => false end
  | EPrim _ args => forallb (stable cx) args
  | ECall _ _ => false
  | EIf c a b => (stable cx c && stable cx a && stable cx b)%bool
  | EAnd a b | EOr a b => (stable cx a && stable cx b)%bool
  | ESeq _ _ => false
  | EMac _ e => stable cx e
  | EListLit _ es | ERec _ es | EArrLit _ es => forallb (stable cx) es
  | EField _ e | EUni _ _ e | ECase _ e | EUGet _ e => stable cx e
  | EClo _ _ _ caps => forallb (stable cx) caps
  | EApp _ _ => false
  end.

Definition mac_nty (m : mac) : nty := match m with MDbl n | MSqr n => n end.
Definition mac_prim (m : mac) : prim := match m with MDbl n => PAdd n | MSqr n => PMul n end.

(* ---- records and arrays without aliasing ----
   A Record (and an Array) value is an updatable object (langtdef.tex:237): `r.f := v` is seen through every
   name bound to the same object.  The subset keeps every UPDATABLE variable the only name of
   its record: what is stored into a variable, returned, or yielded by an exit must be a
   FRESH record (a constructor, a call result, or an `if` of such); what is passed as an
   argument or bound to a constant may also be an immutable name (constant, parameter, loop
   variable), whose record is never updated.  So value semantics and reference semantics
   coincide on the subset.                                                              *)
Definition is_rec (t : ty) : bool := match t with TRec _ | TArr _ => true | _ => false end.

Fixpoint fresh (e : expr) : bool :=
  match e with
  | ERec _ _ | ECall _ _ | EArrLit _ _ | EPrim (PANew _) _ => true
  | EIf _ a b => (fresh a && fresh b)%bool
  | _ => false
  end.

Definition sharable (cx : ctx) (e : expr) : bool :=
  (fresh e
   || match e with
      | EGlob k => match nth_error (cG cx) k with Some (_, false) => true | _ => false end
      | ELoc k => match nth_error (cL cx) k with Some (_, false) => true | _ => false end
      | _ => false
      end)%bool.

(* e of type t may be stored / returned *)
Definition store_ok (t : ty) (e : expr) : bool := (negb (is_rec t) || fresh e)%bool.

Fixpoint args_sharable (cx : ctx) (es : list expr) (ts : list ty) : bool :=
  match es, ts with
  | e :: es', t :: ts' => ((negb (is_rec t) || sharable cx e) && args_sharable cx es' ts')%bool
  | _, _ => true
  end.

Definition ordered_args (cx : ctx) (es : list expr) : bool :=
  let n := List.length (filter (eff (cF cx)) es) in
  (Nat.eqb n 0 || (Nat.eqb n 1 && forallb (fun e => eff (cF cx) e || stable cx e) es))%bool.

(* stdout << e1 << e2 << ... : e1 is evaluated before the first output; the others
   may be evaluated at any time relative to it                                        *)
Definition ordered_print (cx : ctx) (es : list expr) : bool :=
  match es with
  | [] => true
  | e :: r => (forallb (fun x => negb (eff (cF cx) x)) r
               && (negb (eff (cF cx) e) || forallb (stable cx) r))%bool
  end.

Definition opt_ty_eqb (o : option ty) (t : ty) : bool :=
  match o with Some u => ty_eqb u t | None => false end.

Definition is_exit (s : stmt) : bool :=
  match s with SExit _ _ | SExitV _ _ => true | _ => false end.

(* ---- the rules ---- *)
Definition check_call (cx : ctx) (name : nat) (tys : list ty) : option ty :=
  match resolve (cF cx) name tys with
  | Some (j, fd) =>
      if (Nat.ltb j (cNF cx) && Nat.leb (fd_nglob fd) (cNG cx)
          && (negb (cPure cx) || fd_pure fd))%bool
      then Some (fd_ret fd) else None
  | None => None
  end.

Fixpoint infer (cx : ctx) (e : expr) {struct e} : option ty :=
  match e with
  | ELit l => lit_type l
  | EGlob k => if Nat.ltb k (cNG cx)
               then match nth_error (cG cx) k with Some (t, _) => Some t | None => None end
               else None
  | ELoc k => match nth_error (cL cx) k with Some (t, _) => Some t | None => None end
  | EPrim p args =>
      match map_opt (infer cx) args with
      | Some tys => if (tys_eqb tys (fst (prim_sig p)) && ordered_args cx args)%bool
                    then Some (snd (prim_sig p)) else None
      | None => None
      end
  | ECall name args =>
      match map_opt (infer cx) args with
      | Some tys => if (ordered_args cx args && args_sharable cx args tys)%bool then check_call cx name tys else None
      | None => None
      end
  | EIf c a b =>
      match infer cx c, infer cx a, infer cx b with
      | Some TBool, Some t, Some u => if ty_eqb t u then Some t else None
      | _, _, _ => None
      end
  | EAnd a b | EOr a b =>
      match infer cx a, infer cx b with
      | Some TBool, Some TBool => Some TBool
      | _, _ => None
      end
  | ESeq ss e =>
      match infer cx e with
      | Some t => if forallb (check_stmt (with_seq cx (Some t))) ss then Some t else None
      | None => None
      end
  | EMac m e =>
      (* the two copies of the argument are operands of one call: their evaluation order is
         not defined, so the argument must be free of effects                              *)
      match infer cx e with
      | Some t => if (ty_eqb t (ty_of_nty (mac_nty m)) && negb (eff (cF cx) e))%bool
                  then Some t else None
      | None => None
      end
  | EArrLit b es =>
      match map_opt (infer cx) es with
      | Some tys => if (forallb (fun t => ty_eqb t (ty_of_bty b)) tys && ordered_args cx es)%bool
                    then Some (TArr b) else None
      | None => None
      end
  | ERec fs es =>
      match map_opt (infer cx) es with
      | Some tys => if (tys_eqb tys (map ty_of_bty fs) && ordered_args cx es)%bool then Some (TRec fs) else None
      | None => None
      end
  | EField i e' =>
      match infer cx e' with
      | Some (TRec fs) => match nth_error fs i with Some b => Some (ty_of_bty b) | None => None end
      | _ => None
      end
  (* A function expression captures variables, not values (langenvs.tex:394-418); the subset
     only captures immutable names and literals ([stable]), so the two coincide, and forms no
     function value inside a loop (the `for` variable would be captured).  The body is a call of
     a file-level function that sees no global (fd_nglob = 0), so the value can be applied
     anywhere.                                                                              *)
  | EClo name ps r caps =>
      match map_opt (infer cx) caps with
      | Some tys =>
          if (forallb (stable cx) caps && negb (cLoop cx)
              && forallb (fun t => match bty_of_ty t with Some _ => true | None => false end) tys)%bool
          then match resolve (cF cx) name (tys ++ map ty_of_bty ps) with
               | Some (j, fd) =>
                   if (Nat.ltb j (cNF cx) && Nat.eqb (fd_nglob fd) 0)%bool
                   then match bty_of_ty (fd_ret fd) with
                        | Some r' => if bty_eqb r r' then Some (TFun ps r) else None
                        | None => None
                        end
                   else None
               | None => None
               end
          else None
      | None => None
      end
  | EApp fn args =>
      match infer cx fn, map_opt (infer cx) args with
      | Some (TFun ps r), Some tys =>
          if (tys_eqb tys (map ty_of_bty ps) && ordered_args cx (fn :: args) && negb (cPure cx))%bool
          then Some (ty_of_bty r) else None
      | _, _ => None
      end
  | EUni fs i e' =>
      match nth_error fs i with
      | Some b => if opt_ty_eqb (infer cx e') (ty_of_bty b) then Some (TUni fs) else None
      | None => None
      end
  | ECase i e' =>
      match infer cx e' with
      | Some (TUni fs) => if Nat.ltb i (List.length fs) then Some TBool else None
      | _ => None
      end
  | EUGet i e' =>
      match infer cx e' with
      | Some (TUni fs) => match nth_error fs i with Some b => Some (ty_of_bty b) | None => None end
      | _ => None
      end
  | EListLit b es =>
      match map_opt (infer cx) es with
      | Some tys => if (forallb (fun t => ty_eqb t (ty_of_bty b)) tys && ordered_args cx es)%bool
                    then Some (TList b) else None
      | None => None
      end
  end
with check_stmt (cx : ctx) (s : stmt) {struct s} : bool :=
  match s with
  | SAssG k e =>
      (negb (cPure cx) && Nat.ltb k (cNG cx)
       && match nth_error (cG cx) k with
          | Some (t, true) => (opt_ty_eqb (infer cx e) t && store_ok t e)%bool
          | _ => false
          end)%bool
  | SAssL k e =>
      match nth_error (cL cx) k with
      | Some (t, true) => (opt_ty_eqb (infer cx e) t && store_ok t e)%bool
      | _ => false
      end
  (* r.f := e is set!(r, f, e): r and e are arguments of one call, evaluated in no defined
     order (langfuns.tex:211), so e must be free of effects (it could re-assign r)          *)
  | SSetG k i e =>
      (negb (cPure cx) && negb (eff (cF cx) e) && Nat.ltb k (cNG cx)
       && match nth_error (cG cx) k with
          | Some (TRec fs, true) =>
              match nth_error fs i with Some b => opt_ty_eqb (infer cx e) (ty_of_bty b) | None => false end
          | _ => false
          end)%bool
  | SSetL k i e =>
      (negb (eff (cF cx) e)
       && match nth_error (cL cx) k with
          | Some (TRec fs, true) =>
              match nth_error fs i with Some b => opt_ty_eqb (infer cx e) (ty_of_bty b) | None => false end
          | _ => false
          end)%bool
  (* a.(i) := e is set!(a, i, e): i and e free of effects (unspecified argument order) *)
  | SSetIG k i e =>
      (negb (cPure cx) && negb (eff (cF cx) i) && negb (eff (cF cx) e) && Nat.ltb k (cNG cx)
       && opt_ty_eqb (infer cx i) TMI
       && match nth_error (cG cx) k with
          | Some (TArr b, true) => opt_ty_eqb (infer cx e) (ty_of_bty b)
          | _ => false
          end)%bool
  | SSetIL k i e =>
      (negb (eff (cF cx) i) && negb (eff (cF cx) e) && opt_ty_eqb (infer cx i) TMI
       && match nth_error (cL cx) k with
          | Some (TArr b, true) => opt_ty_eqb (infer cx e) (ty_of_bty b)
          | _ => false
          end)%bool
  | SPrint es =>
      (negb (cPure cx)
       && match map_opt (infer cx) es with Some _ => true | None => false end
       && ordered_print cx es)%bool
  | SIf c a b =>
      (opt_ty_eqb (infer cx c) TBool
       && forallb (check_stmt (with_seq cx None)) a
       && forallb (check_stmt (with_seq cx None)) b)%bool
  | SWhile c body =>
      (opt_ty_eqb (infer cx c) TBool && forallb (check_stmt (in_loop cx)) body)%bool
  | SFor lo hi body =>
      (opt_ty_eqb (infer cx lo) TMI && opt_ty_eqb (infer cx hi) TMI
       && ordered_args cx [lo; hi]
       && forallb (check_stmt (in_loop (push_local cx (TMI, false)))) body)%bool
  | SForIn b l body =>
      ((opt_ty_eqb (infer cx l) (TList b) || opt_ty_eqb (infer cx l) (TArr b))
       && forallb (check_stmt (in_loop (push_local cx (ty_of_bty b, false)))) body)%bool
  | SBreak | SIterate => cLoop cx
  | SReturn e => match cRet cx with Some t => (opt_ty_eqb (infer cx e) t && store_ok t e)%bool | None => false end
  | SExit c s' =>
      (match cSeq cx with None => true | Some _ => false end
       && opt_ty_eqb (infer cx c) TBool && negb (is_exit s') && check_stmt cx s')%bool
  | SExitV c e =>
      match cSeq cx with
      | Some t => (opt_ty_eqb (infer cx c) TBool && opt_ty_eqb (infer cx e) t && store_ok t e)%bool
      | None => false
      end
  | SCall name args =>
      match map_opt (infer cx) args with
      | Some tys => (ordered_args cx args && args_sharable cx args tys
                     && match check_call cx name tys with Some _ => true | None => false end)%bool
      | None => false
      end
  | SError e => (negb (cPure cx) && opt_ty_eqb (infer cx e) TStr)%bool
  | SNever | SThrow _ =>
      (negb (cPure cx) && match s with SThrow k => Nat.ltb k n_exn | _ => true end)%bool
  | STry body hs =>
      (negb (cPure cx)
       && forallb (check_stmt (with_seq cx None)) body
       && forallb (fun h => (Nat.ltb (fst h) n_exn
                             && forallb (check_stmt (with_seq cx None)) (snd h))%bool) hs)%bool
  end.

Definition check_block (cx : ctx) (ss : list stmt) : bool := forallb (check_stmt cx) ss.

(* locals l<k>: T := init, each initialiser sees the parameters and the earlier locals *)
Fixpoint check_locals (cx : ctx) (ls : list (ty * expr)) : option ctx :=
  match ls with
  | [] => Some cx
  | (t, e) :: r => if (opt_ty_eqb (infer cx e) t && store_ok t e)%bool
                   then check_locals (push_local cx (t, true)) r else None
  end.

Definition fun_ctx (G : list (ty * bool)) (F : list fundef) (j : nat) (fd : fundef) : ctx :=
  mkCtx G (fd_nglob fd) F (S j) (map (fun t => (t, false)) (fd_params fd))
        (Some (fd_ret fd)) false None (fd_pure fd).

Definition check_fun (G : list (ty * bool)) (F : list fundef) (j : nat) (fd : fundef) : bool :=
  match check_locals (fun_ctx G F j fd) (fd_locals fd) with
  | Some cx => (check_block (with_seq cx (Some (fd_ret fd))) (fd_body fd)
                && opt_ty_eqb (infer cx (fd_result fd)) (fd_ret fd)
                && store_ok (fd_ret fd) (fd_result fd))%bool
  | None => false
  end.

Definition top_ctx (G : list (ty * bool)) (F : list fundef) (ng nf : nat) : ctx :=
  mkCtx G ng F nf [] None false None false.

Fixpoint globals_of (p : prog) : list (ty * bool) :=
  match p with
  | [] => []
  | IConst t _ :: r => (t, false) :: globals_of r
  | IVar t _ :: r => (t, true) :: globals_of r
  | _ :: r => globals_of r
  end.

Fixpoint funs_of (p : prog) : list fundef :=
  match p with
  | [] => []
  | IFun fd :: r => fd :: funs_of r
  | _ :: r => funs_of r
  end.

Fixpoint check_items (G : list (ty * bool)) (F : list fundef) (ng nf : nat) (p : prog) : bool :=
  match p with
  | [] => true
  | IConst t e :: r =>
      (opt_ty_eqb (infer (top_ctx G F ng nf) e) t
       && (negb (is_rec t) || sharable (top_ctx G F ng nf) e) && check_items G F (S ng) nf r)%bool
  | IVar t e :: r =>
      (opt_ty_eqb (infer (top_ctx G F ng nf) e) t && store_ok t e && check_items G F (S ng) nf r)%bool
  | IFun fd :: r =>
      (Nat.eqb (fd_nglob fd) ng && check_fun G F nf fd && check_items G F ng (S nf) r)%bool
  | IStmt s :: r =>
      (negb (is_exit s) && check_stmt (top_ctx G F ng nf) s && check_items G F ng nf r)%bool
  end.

Definition typecheck (p : prog) : bool :=
  check_items (globals_of p) (funs_of p) 0 0 p.
