(* MiniAldor: the reference evaluator (fuelled big-step).  Definitions only.
   Written from the language definition: Aldor User Guide (/repo/aldor/aldorug) for the
   control structure, libaldor sources (/repo/aldor/lib/aldor/src) for the meaning of the
   library operations.  No compiler source was consulted for any rule below.

   eval f p = Done out st : the program prints [out] and ends with status class [st]
            | OutOfFuel    : f was too small (eval_fuel_mono: a larger f gives the same Done)
            | Undef        : the program reaches an operation whose result the definition
                             leaves open (division by zero, `machine` of an Integer that
                             does not fit) -- generated programs never do
            | Stuck        : a dynamic type error / unbound name (excluded for well-typed
                             programs by typecheck_sound)                                 *)
Require Import List ZArith String Bool Arith Ascii.
Require Import Coq.Numbers.DecimalString.
Require Import AV.Mini.Syntax AV.Mini.Types.
Import ListNotations.
Local Open Scope Z_scope.

(* values of the base types, as stored in the fields of a record *)
Inductive bval : Type :=
| BVNum (n : nty) (z : Z)
| BVBool (b : bool)
| BVStr (s : string).

Definition bty_of_nty (n : nty) : bty := match n with NMI => BMI | NInt => BInt end.

Definition btype_of (b : bval) : bty :=
  match b with
  | BVNum n _ => bty_of_nty n
  | BVBool _ => BBool
  | BVStr _ => BStr
  end.

Inductive value : Type :=
| VNum (n : nty) (z : Z)
| VBool (b : bool)
| VStr (s : string)
(* lists of base values, one representation per element type, so that every value has
   exactly one type and needs no well-formedness side condition                        *)
| VLNum (n : nty) (zs : list Z)
| VLBool (bs : list bool)
| VLStr (ss : list string)
| VBox (d : dom) (n : nty) (z : Z)    (* a value of BoxA(T) / BoxB(T): Rep == T *)
| VANum (n : nty) (zs : list Z)       (* arrays of base values (one representation per element type) *)
| VABool (bs : list bool)
| VAStr (ss : list string)
| VUni (pre : list bty) (b : bval) (post : list bty)
      (* a union value in branch number (length pre); the branch types before and after are
         kept so that the value determines its own type *)
| VClo (j : nat) (env : list bval)    (* a function value: function number j of the file, applied to
                                         the captured values env and waiting for the other arguments *)
| VRec (fs : list bval).              (* a record; never shared between updatable names (Types.v) *)

(* The type of a value.  A function value determines its type through the function table F:
   function j applied to env has type (remaining parameters) -> result, provided env fits the
   leading parameters, every parameter and the result are of base type and the function sees
   no global; any other combination has the type TBad that no expression has.            *)
Fixpoint btys_of_tys (ts : list ty) : option (list bty) :=
  match ts with
  | [] => Some []
  | t :: r => match bty_of_ty t, btys_of_tys r with
              | Some b, Some bs => Some (b :: bs)
              | _, _ => None
              end
  end.

Definition clo_ty (F : list fundef) (j : nat) (env : list bval) : ty :=
  match nth_error F j with
  | Some fd =>
      match btys_of_tys (fd_params fd), bty_of_ty (fd_ret fd) with
      | Some bs, Some r =>
          if (Nat.eqb (fd_nglob fd) 0 && btys_eqb (firstn (List.length env) bs) (map btype_of env)
              && Nat.leb (List.length env) (List.length bs))%bool
          then TFun (skipn (List.length env) bs) r else TBad
      | _, _ => TBad
      end
  | None => TBad
  end.

Definition type_of (F : list fundef) (v : value) : ty :=
  match v with
  | VNum n _ => ty_of_nty n
  | VBool _ => TBool
  | VStr _ => TStr
  | VLNum n _ => TList (bty_of_nty n)
  | VLBool _ => TList BBool
  | VLStr _ => TList BStr
  | VBox d n _ => TBox d n
  | VANum n _ => TArr (bty_of_nty n)
  | VABool _ => TArr BBool
  | VAStr _ => TArr BStr
  | VUni pre b post => TUni (pre ++ btype_of b :: post)
  | VClo j env => clo_ty F j env
  | VRec fs => TRec (map btype_of fs)
  end.

Definition to_bval (v : value) : option bval :=
  match v with
  | VNum n z => Some (BVNum n z)
  | VBool b => Some (BVBool b)
  | VStr s => Some (BVStr s)
  | _ => None
  end.

Definition of_bval (b : bval) : value :=
  match b with
  | BVNum n z => VNum n z
  | BVBool x => VBool x
  | BVStr x => VStr x
  end.

Fixpoint set_nth {A : Type} (l : list A) (k : nat) (a : A) : option (list A) :=
  match l, k with
  | [], _ => None
  | _ :: r, O => Some (a :: r)
  | x :: r, S k' => match set_nth r k' a with Some r' => Some (x :: r') | None => None end
  end.

(* the elements of a list value, as values *)
Definition dec_list (v : value) : option (list value) :=
  match v with
  | VLNum n zs => Some (map (VNum n) zs)
  | VLBool bs => Some (map VBool bs)
  | VLStr ss => Some (map VStr ss)
  | VANum n zs => Some (map (VNum n) zs)       (* for x in a: the elements in index order *)
  | VABool bs => Some (map VBool bs)
  | VAStr ss => Some (map VStr ss)
  | _ => None
  end.

(* the array value with the given elements *)
Definition enc_arr (b : bty) (vs : list value) : option value :=
  match b with
  | BMI => option_map (VANum NMI) (map_opt (fun v => match v with VNum _ z => Some z | _ => None end) vs)
  | BInt => option_map (VANum NInt) (map_opt (fun v => match v with VNum _ z => Some z | _ => None end) vs)
  | BBool => option_map VABool (map_opt (fun v => match v with VBool x => Some x | _ => None end) vs)
  | BStr => option_map VAStr (map_opt (fun v => match v with VStr x => Some x | _ => None end) vs)
  end.

(* a.(i) := v on an array value; None when i is outside 0 .. #a - 1 *)
Definition arr_set (a : value) (i : Z) (v : value) : option (option value) :=
  (* outer None: dynamic type error; inner None: index out of range *)
  if (i <? 0)%Z then Some None else
  match a, v with
  | VANum n zs, VNum _ z => Some (option_map (VANum n) (set_nth zs (Z.to_nat i) z))
  | VABool bs, VBool x => Some (option_map VABool (set_nth bs (Z.to_nat i) x))
  | VAStr ss, VStr x => Some (option_map VAStr (set_nth ss (Z.to_nat i) x))
  | _, _ => None
  end.

(* the list value with the given elements *)
Definition enc_list (b : bty) (vs : list value) : option value :=
  match b with
  | BMI => option_map (VLNum NMI) (map_opt (fun v => match v with VNum _ z => Some z | _ => None end) vs)
  | BInt => option_map (VLNum NInt) (map_opt (fun v => match v with VNum _ z => Some z | _ => None end) vs)
  | BBool => option_map VLBool (map_opt (fun v => match v with VBool x => Some x | _ => None end) vs)
  | BStr => option_map VLStr (map_opt (fun v => match v with VStr x => Some x | _ => None end) vs)
  end.

(* 64-bit two's complement wrap-around: MachineInteger operations are the Machine SInt
   builtins, "no overflow check" (sal_mint.as:76-101)                                   *)
Definition wrap64 (z : Z) : Z := ((z + two63) mod two64) - two63.

Definition norm (n : nty) (z : Z) : Z := match n with NMI => wrap64 z | NInt => z end.

Definition value_of_lit (l : lit) : value :=
  match l with
  | LNum n z => VNum n (norm n z)
  | LBool b => VBool b
  | LStr s => VStr s
  end.

(* ---- printing (sal_itools.as:84-106 print base 10: '-' then digits, "0" for zero;
        sal_char.as:127 Boolean prints T / F; sal_string.as:452 String prints its characters) *)
Definition dec_of_Z (z : Z) : string := NilZero.string_of_int (Z.to_int z).

Fixpoint sep_strs (l : list string) : string :=
  match l with
  | [] => ""%string
  | [x] => x
  | x :: r => (x ++ "," ++ sep_strs r)%string
  end.

(* lists print as [e1,e2,..] : `[`, elements separated by `,`, `]` (sal_list.as:327-336) *)
Definition show (v : value) : string :=
  match v with
  | VNum _ z => dec_of_Z z
  | VBool true => "T"
  | VBool false => "F"
  | VStr s => s
  | VLNum _ zs => ("[" ++ sep_strs (map dec_of_Z zs) ++ "]")%string
  | VLBool bs => ("[" ++ sep_strs (map (fun b : bool => if b then "T"%string else "F"%string) bs) ++ "]")%string
  | VLStr ss => ("[" ++ sep_strs ss ++ "]")%string
  | VBox _ _ _ => "?box"%string          (* no OutputType: never printed by a well-typed program *)
  | VANum _ zs => ("[" ++ sep_strs (map dec_of_Z zs) ++ "]")%string      (* sal_array.as:325-333 *)
  | VABool bs => ("[" ++ sep_strs (map (fun b : bool => if b then "T"%string else "F"%string) bs) ++ "]")%string
  | VAStr ss => ("[" ++ sep_strs ss ++ "]")%string
  | VUni _ _ _ => "?union"%string
  | VClo _ _ => "?function"%string
  | VRec _ => "?record"%string
  end.

(* ---- library operations ---- *)
Inductive pres : Type := PVal (v : value) | PUndef | PStuck.

(* mod (sal_intcat.as:256-260, sal_mint.as:117-121, sal_int.as:70-74):
     (r := a rem b) < 0 => r + abs b; r                                                  *)
Definition num_abs (n : nty) (a : Z) : Z := if a <? 0 then norm n (- a) else a.
Definition num_mod (n : nty) (a b : Z) : Z :=
  let r := Z.rem a b in if r <? 0 then norm n (r + num_abs n b) else r.

Definition sz_limit (d : sdom) : Z := match d with SzA => 50 | _ => 10 end.

Definition box_bump (d : dom) (n : nty) (z : Z) : Z :=
  match d with DA => norm n (z + 1) | DB => norm n (z + z) end.

Fixpoint list_eqb {A : Type} (eqb : A -> A -> bool) (a b : list A) : bool :=
  match a, b with
  | [], [] => true
  | x :: a', y :: b' => (eqb x y && list_eqb eqb a' b')%bool
  | _, _ => false
  end.

Definition prim_eval (p : prim) (vs : list value) : pres :=
  match p, vs with
  | PAdd n, [VNum n1 a; VNum n2 b] => PVal (VNum n (norm n (a + b)))
  | PSub n, [VNum n1 a; VNum n2 b] => PVal (VNum n (norm n (a - b)))
  | PMul n, [VNum n1 a; VNum n2 b] => PVal (VNum n (norm n (a * b)))
  | PNeg n, [VNum n1 a] => PVal (VNum n (norm n (- a)))
  (* quo / rem: SIntQuo/SIntRem, BIntQuo/BIntRem: truncation toward zero, remainder has the
     sign of the dividend (sal_mint.as:76-101; sal_intcat.as documentation).  b = 0 is
     not defined; for MachineInteger min quo -1 overflows the hardware division: not defined *)
  | PQuo n, [VNum n1 a; VNum n2 b] =>
      if b =? 0 then PUndef
      else match n with
           | NMI => if (a =? - two63) && (b =? -1) then PUndef else PVal (VNum n (Z.quot a b))
           | NInt => PVal (VNum n (Z.quot a b))
           end
  | PRem n, [VNum n1 a; VNum n2 b] =>
      if b =? 0 then PUndef
      else match n with
           | NMI => if (a =? - two63) && (b =? -1) then PUndef else PVal (VNum n (Z.rem a b))
           | NInt => PVal (VNum n (Z.rem a b))
           end
  | PMod n, [VNum n1 a; VNum n2 b] =>
      if b =? 0 then PUndef
      else match n with
           | NMI => if (a =? - two63) && (b =? -1) then PUndef else PVal (VNum n (num_mod n a b))
           | NInt => PVal (VNum n (num_mod n a b))
           end
  | PAbs n, [VNum n1 a] => PVal (VNum n (num_abs n a))
  (* max(a,b) == { a < b => b; a }   min(a,b) == { a < b => a; b }  (sal_torder.as:51-52) *)
  | PMin n, [VNum n1 a; VNum n2 b] => PVal (VNum n (if a <? b then a else b))
  | PMax n, [VNum n1 a; VNum n2 b] => PVal (VNum n (if a <? b then b else a))
  | PEq n, [VNum n1 a; VNum n2 b] => PVal (VBool (a =? b))
  | PNe n, [VNum n1 a; VNum n2 b] => PVal (VBool (negb (a =? b)))
  | PLt n, [VNum n1 a; VNum n2 b] => PVal (VBool (a <? b))
  | PLe n, [VNum n1 a; VNum n2 b] => PVal (VBool (a <=? b))
  | PGt n, [VNum n1 a; VNum n2 b] => PVal (VBool (b <? a))
  | PGe n, [VNum n1 a; VNum n2 b] => PVal (VBool (b <=? a))
  (* n::Integer is exact (sal_int.as:39); machine x is "the low machine word", marked
     `except OFLOW` (sal_int.as:40, sal_lang.as:675): defined here only when x fits       *)
  | PToInt, [VNum n1 a] => PVal (VNum NInt a)
  | PToMI, [VNum n1 a] => if (- two63 <=? a) && (a <? two63) then PVal (VNum NMI a) else PUndef
  | PNot, [VBool a] => PVal (VBool (negb a))
  | PBAnd, [VBool a; VBool b] => PVal (VBool (a && b))
  | PBOr, [VBool a; VBool b] => PVal (VBool (a || b))
  | PBEq, [VBool a; VBool b] => PVal (VBool (Bool.eqb a b))
  | PBNe, [VBool a; VBool b] => PVal (VBool (negb (Bool.eqb a b)))
  | PCat, [VStr a; VStr b] => PVal (VStr (a ++ b))
  | PLen, [VStr a] => PVal (VNum NMI (Z.of_nat (String.length a)))
  | PSEq, [VStr a; VStr b] => PVal (VBool (String.eqb a b))
  | PSNe, [VStr a; VStr b] => PVal (VBool (negb (String.eqb a b)))
  (* List(T): first / rest of the empty list and l.i outside 1..#l are only guarded by
     assertions that the shipped library drops (sal_list.as:284-296): not defined           *)
  | PLCons (BMI | BInt), [VNum n z; VLNum n2 zs] => PVal (VLNum n2 (z :: zs))
  | PLCons BBool, [VBool x; VLBool xs] => PVal (VLBool (x :: xs))
  | PLCons BStr, [VStr x; VLStr xs] => PVal (VLStr (x :: xs))
  | PLFirst _, [VLNum n (z :: _)] => PVal (VNum n z)
  | PLFirst _, [VLBool (x :: _)] => PVal (VBool x)
  | PLFirst _, [VLStr (x :: _)] => PVal (VStr x)
  | PLFirst _, [(VLNum _ [] | VLBool [] | VLStr [])] => PUndef
  | PLRest _, [VLNum n (_ :: zs)] => PVal (VLNum n zs)
  | PLRest _, [VLBool (_ :: xs)] => PVal (VLBool xs)
  | PLRest _, [VLStr (_ :: xs)] => PVal (VLStr xs)
  | PLRest _, [(VLNum _ [] | VLBool [] | VLStr [])] => PUndef
  | PLLen _, [VLNum _ zs] => PVal (VNum NMI (Z.of_nat (List.length zs)))
  | PLLen _, [VLBool xs] => PVal (VNum NMI (Z.of_nat (List.length xs)))
  | PLLen _, [VLStr xs] => PVal (VNum NMI (Z.of_nat (List.length xs)))
  | PLEmptyQ _, [VLNum _ zs] => PVal (VBool (match zs with [] => true | _ => false end))
  | PLEmptyQ _, [VLBool xs] => PVal (VBool (match xs with [] => true | _ => false end))
  | PLEmptyQ _, [VLStr xs] => PVal (VBool (match xs with [] => true | _ => false end))
  | PLRev _, [VLNum n zs] => PVal (VLNum n (rev zs))
  | PLRev _, [VLBool xs] => PVal (VLBool (rev xs))
  | PLRev _, [VLStr xs] => PVal (VLStr (rev xs))
  | PLEq _, [VLNum _ a; VLNum _ b] => PVal (VBool (list_eqb Z.eqb a b))
  | PLEq _, [VLBool a; VLBool b] => PVal (VBool (list_eqb Bool.eqb a b))
  | PLEq _, [VLStr a; VLStr b] => PVal (VBool (list_eqb String.eqb a b))
  | PLNe _, [VLNum _ a; VLNum _ b] => PVal (VBool (negb (list_eqb Z.eqb a b)))
  | PLNe _, [VLBool a; VLBool b] => PVal (VBool (negb (list_eqb Bool.eqb a b)))
  | PLNe _, [VLStr a; VLStr b] => PVal (VBool (negb (list_eqb String.eqb a b)))
  | PLNth _, [VLNum n zs; VNum _ i] =>
      if (1 <=? i) then match nth_error zs (Z.to_nat (i - 1)) with Some z => PVal (VNum n z) | None => PUndef end
      else PUndef
  | PLNth _, [VLBool xs; VNum _ i] =>
      if (1 <=? i) then match nth_error xs (Z.to_nat (i - 1)) with Some x => PVal (VBool x) | None => PUndef end
      else PUndef
  | PLNth _, [VLStr xs; VNum _ i] =>
      if (1 <=? i) then match nth_error xs (Z.to_nat (i - 1)) with Some x => PVal (VStr x) | None => PUndef end
      else PUndef
  (* BoxCat(T): see Print.dom_decls for the text.  bump: BoxA adds 1, BoxB doubles.
     twice is the category default bump(bump x): it reaches the DOMAIN's bump through %.
     scale: BoxA takes the default box(unbox x * k); BoxB's own definition rep x * k + 1
     over-rides it.  All arithmetic is T's (MachineInteger wraps).                        *)
  | PBox d n, [VNum _ z] => PVal (VBox d n z)
  | PUnbox _ _, [VBox _ n z] => PVal (VNum n z)
  | PBump _ _, [VBox d n z] => PVal (VBox d n (box_bump d n z))
  | PTwice _ _, [VBox d n z] => PVal (VBox d n (box_bump d n (box_bump d n z)))
  | PScale _ _, [VBox d n z; VNum _ k] =>
      PVal (VBox d n (match d with DA => norm n (z * k) | DB => norm n (norm n (z * k) + 1) end))
  (* Array(T): new(n, x) for n >= 0; a.i for 0 <= i < #a (the shipped library does not check:
     outside that range the result is not defined)                                          *)
  | PANew b, [VNum _ k; x] =>
      if (k <? 0)%Z then PUndef
      else match enc_arr b (repeat x (Z.to_nat k)) with Some a => PVal a | None => PStuck end
  | PALen _, [VANum _ zs] => PVal (VNum NMI (Z.of_nat (List.length zs)))
  | PALen _, [VABool xs] => PVal (VNum NMI (Z.of_nat (List.length xs)))
  | PALen _, [VAStr xs] => PVal (VNum NMI (Z.of_nat (List.length xs)))
  | PAGet _, [VANum n zs; VNum _ i] =>
      if (0 <=? i) then match nth_error zs (Z.to_nat i) with Some z => PVal (VNum n z) | None => PUndef end
      else PUndef
  | PAGet _, [VABool xs; VNum _ i] =>
      if (0 <=? i) then match nth_error xs (Z.to_nat i) with Some x => PVal (VBool x) | None => PUndef end
      else PUndef
  | PAGet _, [VAStr xs; VNum _ i] =>
      if (0 <=? i) then match nth_error xs (Z.to_nat i) with Some x => PVal (VStr x) | None => PUndef end
      else PUndef
  (* Sized: limit is 10 by default, 50 in SzA.  twice is by default 2 * limit with limit looked
     up in the domain (%): 100 in SzA, 20 in SzB; SzC defines its own twice as limit + 1 = 11. *)
  | PSzLimit d, [] => PVal (VNum NMI (sz_limit d))
  | PSzTwice d, [] => PVal (VNum NMI (match d with SzC => wrap64 (sz_limit d + 1) | _ => wrap64 (2 * sz_limit d) end))
  | _, _ => PStuck
  end.

(* ---- machine state and outcomes ---- *)
Record state : Type := mkSt {
  sg : list value;        (* globals, in declaration order *)
  sl : list value;        (* current frame *)
  so : list string        (* output chunks, most recent first *)
}.

Inductive res (A : Type) : Type :=
| RVal (s : state) (a : A)
| RBrk (s : state)                      (* break *)
| RIter (s : state)                     (* iterate *)
| RRet (s : state) (v : value)          (* return v *)
| RExit (s : state) (ov : option value) (* `c => ..` fired: leave the enclosing braces *)
| RThrow (s : state) (k : nat)          (* exception in flight: 0 = the run-time error raised by
                                           error / never, S k = user exception Ex<k> *)
| RUndef
| RFuel
| RStuck.
Arguments RVal {A}. Arguments RBrk {A}. Arguments RIter {A}. Arguments RRet {A}.
Arguments RExit {A}. Arguments RThrow {A}. Arguments RUndef {A}. Arguments RFuel {A}. Arguments RStuck {A}.

Definition bind {A B : Type} (r : res A) (k : state -> A -> res B) : res B :=
  match r with
  | RVal s a => k s a
  | RBrk s => RBrk s
  | RIter s => RIter s
  | RRet s v => RRet s v
  | RExit s ov => RExit s ov
  | RThrow s k => RThrow s k
  | RUndef => RUndef
  | RFuel => RFuel
  | RStuck => RStuck
  end.

Definition with_frame (s : state) (fr : list value) : state := mkSt (sg s) fr (so s).
Definition pop_frame (s : state) : state := mkSt (sg s) (removelast (sl s)) (so s).
Definition emit (s : state) (t : string) : state := mkSt (sg s) (sl s) (t :: so s).

Definition nl : string := String (ascii_of_nat 10) EmptyString.

(* a braces block in a non-value context: a fired `c => s` ends the block normally *)
Definition end_block (r : res unit) : res unit :=
  match r with
  | RExit s None => RVal s tt
  | RExit s (Some _) => RStuck
  | _ => r
  end.

(* handler for exception number k (0 = run-time error: no user handler matches it) *)
Fixpoint find_handler (k : nat) (hs : list (nat * list stmt)) : option (list stmt) :=
  match hs with
  | [] => None
  | (j, h) :: r => if Nat.eqb k (S j) then Some h else find_handler k r
  end.

Section Eval.
  Variable F : list fundef.      (* all function definitions of the file *)

  Fixpoint eval_expr (f : nat) (s : state) (e : expr) {struct f} : res value :=
    match f with
    | O => RFuel
    | S f' =>
      match e with
      | ELit l => RVal s (value_of_lit l)
      | EGlob k => match nth_error (sg s) k with Some v => RVal s v | None => RStuck end
      | ELoc k => match nth_error (sl s) k with Some v => RVal s v | None => RStuck end
      | EPrim p args =>
          bind (eval_args f' s args) (fun s' vs =>
            match prim_eval p vs with
            | PVal v => RVal s' v
            | PUndef => RUndef
            | PStuck => RStuck
            end)
      | ECall name args =>
          bind (eval_args f' s args) (fun s' vs => eval_call f' s' name vs)
      | EIf c a b =>
          bind (eval_expr f' s c) (fun s' v =>
            match v with
            | VBool true => eval_expr f' s' a
            | VBool false => eval_expr f' s' b
            | _ => RStuck
            end)
      | EAnd a b =>
          bind (eval_expr f' s a) (fun s' v =>
            match v with
            | VBool true => eval_expr f' s' b
            | VBool false => RVal s' (VBool false)
            | _ => RStuck
            end)
      | EOr a b =>
          bind (eval_expr f' s a) (fun s' v =>
            match v with
            | VBool true => RVal s' (VBool true)
            | VBool false => eval_expr f' s' b
            | _ => RStuck
            end)
      | ESeq ss e' =>
          match eval_block f' s ss with
          | RVal s' _ => eval_expr f' s' e'
          | RExit s' (Some v) => RVal s' v
          | RExit s' None => RStuck
          | RBrk s' => RBrk s'
          | RIter s' => RIter s'
          | RRet s' v => RRet s' v
          | RThrow s' k => RThrow s' k
          | RUndef => RUndef
          | RFuel => RFuel
          | RStuck => RStuck
          end
      | EArrLit b es =>
          bind (eval_args f' s es) (fun s' vs =>
            match enc_arr b vs with Some v => RVal s' v | None => RStuck end)
      | ERec _ es =>
          bind (eval_args f' s es) (fun s' vs =>
            match map_opt to_bval vs with Some bs => RVal s' (VRec bs) | None => RStuck end)
      | EField i e' =>
          bind (eval_expr f' s e') (fun s' v =>
            match v with
            | VRec bs => match nth_error bs i with Some b => RVal s' (of_bval b) | None => RStuck end
            | _ => RStuck
            end)
      | EClo name ps _ caps =>
          bind (eval_args f' s caps) (fun s' vs =>
            match map_opt to_bval vs, resolve F name (map (type_of F) vs ++ map ty_of_bty ps) with
            | Some bs, Some (j, _) => RVal s' (VClo j bs)
            | _, _ => RStuck
            end)
      | EApp fn args =>
          bind (eval_expr f' s fn) (fun s1 vf =>
            bind (eval_args f' s1 args) (fun s2 vs =>
              match vf with
              | VClo j env =>
                  match nth_error F j with
                  | Some fd => eval_fun f' s2 fd (map of_bval env ++ vs)
                  | None => RStuck
                  end
              | _ => RStuck
              end))
      | EUni fs i e' =>
          bind (eval_expr f' s e') (fun s' v =>
            match to_bval v with
            | Some bv => RVal s' (VUni (firstn i fs) bv (skipn (S i) fs))
            | None => RStuck
            end)
      | ECase i e' =>
          bind (eval_expr f' s e') (fun s' v =>
            match v with
            | VUni pre _ _ => RVal s' (VBool (Nat.eqb (List.length pre) i))
            | _ => RStuck
            end)
      (* u.f<i> on a value of another branch: the guide does not say (langtdef.tex:512-514 only
         "extracts the value"): not defined                                                 *)
      | EUGet i e' =>
          bind (eval_expr f' s e') (fun s' v =>
            match v with
            | VUni pre bv _ => if Nat.eqb (List.length pre) i then RVal s' (of_bval bv) else RUndef
            | _ => RStuck
            end)
      | EListLit b es =>
          bind (eval_args f' s es) (fun s' vs =>
            match enc_list b vs with Some v => RVal s' v | None => RStuck end)
      | EMac m e' =>
          bind (eval_expr f' s e') (fun s1 v1 =>
            bind (eval_expr f' s1 e') (fun s2 v2 =>
              match prim_eval (mac_prim m) [v1; v2] with
              | PVal v => RVal s2 v
              | PUndef => RUndef
              | PStuck => RStuck
              end))
      end
    end

  with eval_args (f : nat) (s : state) (es : list expr) {struct f} : res (list value) :=
    match f with
    | O => RFuel
    | S f' =>
      match es with
      | [] => RVal s []
      | e :: r =>
          bind (eval_expr f' s e) (fun s1 v =>
            bind (eval_args f' s1 r) (fun s2 vs => RVal s2 (v :: vs)))
      end
    end

  (* application (langfuns.tex:34-77): a fresh frame holding the actual arguments, then the
     locals in order, then the body sequence; `return e` (langfuns.tex:144) or a fired
     `c => e` of the body sequence gives the value                                          *)
  with eval_call (f : nat) (s : state) (name : nat) (vs : list value) {struct f} : res value :=
    match f with
    | O => RFuel
    | S f' =>
      match resolve F name (map (type_of F) vs) with
      | None => RStuck
      | Some (_, fd) => eval_fun f' s fd vs
      end
    end

  (* run the definition fd on the actual arguments vs *)
  with eval_fun (f : nat) (s : state) (fd : fundef) (vs : list value) {struct f} : res value :=
    match f with
    | O => RFuel
    | S f' =>
          let back (s' : state) := with_frame s' (sl s) in
          match eval_locals f' (with_frame s vs) (fd_locals fd) with
          | RVal s1 _ =>
              match eval_block f' s1 (fd_body fd) with
              | RVal s2 _ =>
                  match eval_expr f' s2 (fd_result fd) with
                  | RVal s3 v => RVal (back s3) v
                  | RRet s3 v => RVal (back s3) v
                  | RThrow s3 k => RThrow (back s3) k
                  | RUndef => RUndef
                  | RFuel => RFuel
                  | _ => RStuck
                  end
              | RRet s2 v => RVal (back s2) v
              | RExit s2 (Some v) => RVal (back s2) v
              | RThrow s2 k => RThrow (back s2) k
              | RUndef => RUndef
              | RFuel => RFuel
              | _ => RStuck
              end
          | RRet s1 v => RVal (back s1) v
          | RThrow s1 k => RThrow (back s1) k
          | RUndef => RUndef
          | RFuel => RFuel
          | _ => RStuck
          end
    end

  with eval_locals (f : nat) (s : state) (ls : list (ty * expr)) {struct f} : res unit :=
    match f with
    | O => RFuel
    | S f' =>
      match ls with
      | [] => RVal s tt
      | (_, e) :: r =>
          bind (eval_expr f' s e) (fun s1 v =>
            eval_locals f' (with_frame s1 (sl s1 ++ [v])) r)
      end
    end

  with eval_block (f : nat) (s : state) (ss : list stmt) {struct f} : res unit :=
    match f with
    | O => RFuel
    | S f' =>
      match ss with
      | [] => RVal s tt
      | st :: r => bind (eval_stmt f' s st) (fun s1 _ => eval_block f' s1 r)
      end
    end

  with eval_stmt (f : nat) (s : state) (st : stmt) {struct f} : res unit :=
    match f with
    | O => RFuel
    | S f' =>
      match st with
      | SAssG k e =>
          bind (eval_expr f' s e) (fun s1 v =>
            match set_nth (sg s1) k v with
            | Some g' => RVal (mkSt g' (sl s1) (so s1)) tt
            | None => RStuck
            end)
      | SAssL k e =>
          bind (eval_expr f' s e) (fun s1 v =>
            match set_nth (sl s1) k v with
            | Some l' => RVal (mkSt (sg s1) l' (so s1)) tt
            | None => RStuck
            end)
      | SSetG k i e =>
          bind (eval_expr f' s e) (fun s1 v =>
            match nth_error (sg s1) k, to_bval v with
            | Some (VRec bs), Some b =>
                match set_nth bs i b with
                | Some bs' => match set_nth (sg s1) k (VRec bs') with
                              | Some g' => RVal (mkSt g' (sl s1) (so s1)) tt
                              | None => RStuck
                              end
                | None => RStuck
                end
            | _, _ => RStuck
            end)
      | SSetL k i e =>
          bind (eval_expr f' s e) (fun s1 v =>
            match nth_error (sl s1) k, to_bval v with
            | Some (VRec bs), Some b =>
                match set_nth bs i b with
                | Some bs' => match set_nth (sl s1) k (VRec bs') with
                              | Some l' => RVal (mkSt (sg s1) l' (so s1)) tt
                              | None => RStuck
                              end
                | None => RStuck
                end
            | _, _ => RStuck
            end)
      | SSetIG k i e =>
          bind (eval_expr f' s i) (fun s1 vi =>
            bind (eval_expr f' s1 e) (fun s2 v =>
              match nth_error (sg s2) k, vi with
              | Some a, VNum _ z =>
                  match arr_set a z v with
                  | Some (Some a') => match set_nth (sg s2) k a' with
                                      | Some g' => RVal (mkSt g' (sl s2) (so s2)) tt
                                      | None => RStuck
                                      end
                  | Some None => RUndef
                  | None => RStuck
                  end
              | _, _ => RStuck
              end))
      | SSetIL k i e =>
          bind (eval_expr f' s i) (fun s1 vi =>
            bind (eval_expr f' s1 e) (fun s2 v =>
              match nth_error (sl s2) k, vi with
              | Some a, VNum _ z =>
                  match arr_set a z v with
                  | Some (Some a') => match set_nth (sl s2) k a' with
                                      | Some l' => RVal (mkSt (sg s2) l' (so s2)) tt
                                      | None => RStuck
                                      end
                  | Some None => RUndef
                  | None => RStuck
                  end
              | _, _ => RStuck
              end))
      | SPrint es =>
          bind (eval_args f' s es) (fun s1 vs =>
            RVal (emit s1 (String.concat "" (map show vs) ++ nl)) tt)
      | SIf c a b =>
          bind (eval_expr f' s c) (fun s1 v =>
            match v with
            | VBool true => end_block (eval_block f' s1 a)
            | VBool false => end_block (eval_block f' s1 b)
            | _ => RStuck
            end)
      | SWhile c body => eval_while f' s c body
      | SFor lo hi body =>
          bind (eval_expr f' s lo) (fun s1 vlo =>
            bind (eval_expr f' s1 hi) (fun s2 vhi =>
              match vlo, vhi with
              | VNum NMI a, VNum NMI b => eval_for f' s2 a b body
              | _, _ => RStuck
              end))
      | SForIn _ l body =>
          bind (eval_expr f' s l) (fun s1 vl =>
            match dec_list vl with
            | Some vs => eval_forin f' s1 vs body
            | None => RStuck
            end)
      | SBreak => RBrk s
      | SIterate => RIter s
      | SReturn e => bind (eval_expr f' s e) (fun s1 v => RRet s1 v)
      | SExit c st' =>
          bind (eval_expr f' s c) (fun s1 v =>
            match v with
            | VBool true => bind (eval_stmt f' s1 st') (fun s2 _ => RExit s2 None)
            | VBool false => RVal s1 tt
            | _ => RStuck
            end)
      | SExitV c e =>
          bind (eval_expr f' s c) (fun s1 v =>
            match v with
            | VBool true => bind (eval_expr f' s1 e) (fun s2 v' => RExit s2 (Some v'))
            | VBool false => RVal s1 tt
            | _ => RStuck
            end)
      | SCall name args =>
          bind (eval_args f' s args) (fun s1 vs =>
            bind (eval_call f' s1 name vs) (fun s2 _ => RVal s2 tt))
      (* error s: the message goes to stderr (sal_string.as:341-345), then the program is
         terminated through the run-time error exception; uncaught, it ends the program
         with a failure status                                                            *)
      | SError e => bind (eval_expr f' s e) (fun s1 _ => RThrow s1 O)
      | SNever => RThrow s O
      | SThrow k => RThrow s (S k)
      (* try/catch (langtry.tex:94-142): the handler whose `E has Ex<k>Type` test holds first
         is run; the final `true => throw E` passes every other exception on                *)
      | STry body hs =>
          match end_block (eval_block f' s body) with
          | RThrow s1 k =>
              match find_handler k hs with
              | Some h => end_block (eval_block f' s1 h)
              | None => RThrow s1 k
              end
          | r => r
          end
      end
    end

  (* while c repeat body (langloop.tex:66-72, 513-561): the condition is evaluated at the
     beginning of each iteration; break ends the loop; iterate (464-465, 502-508) branches
     to the end of the body, i.e. goes on with the next test                               *)
  with eval_while (f : nat) (s : state) (c : expr) (body : list stmt) {struct f} : res unit :=
    match f with
    | O => RFuel
    | S f' =>
      bind (eval_expr f' s c) (fun s1 v =>
        match v with
        | VBool false => RVal s1 tt
        | VBool true =>
            match end_block (eval_block f' s1 body) with
            | RVal s2 _ => eval_while f' s2 c body
            | RIter s2 => eval_while f' s2 c body
            | RBrk s2 => RVal s2 tt
            | r => r
            end
        | _ => RStuck
        end)
    end

  (* for i in a..b (sal_segment.as:124-156: step 1, `while a <= b repeat { yield a; a := a + 1 }`;
     langloop.tex:206: the variable is a new constant local to the loop; iterate steps the
     iterator, langloop.tex:502-508).  The segment is formed once, before the first iteration.
     The counter is the library's MachineInteger counter: a + 1 wraps.                      *)
  with eval_for (f : nat) (s : state) (a b : Z) (body : list stmt) {struct f} : res unit :=
    match f with
    | O => RFuel
    | S f' =>
      if a <=? b then
        match end_block (eval_block f' (with_frame s (sl s ++ [VNum NMI a])) body) with
        | RVal s2 _ => eval_for f' (pop_frame s2) (wrap64 (a + 1)) b body
        | RIter s2 => eval_for f' (pop_frame s2) (wrap64 (a + 1)) b body
        | RBrk s2 => RVal (pop_frame s2) tt
        | RThrow s2 k => RThrow (pop_frame s2) k
        | r => r
        end
      else RVal s tt
    end

  (* for x in l (langloop.tex:256-260: implicit `generator l`; sal_list.as generator yields the
     elements in order); the list value is formed once, lists are immutable in the subset   *)
  with eval_forin (f : nat) (s : state) (vs : list value) (body : list stmt) {struct f} : res unit :=
    match f with
    | O => RFuel
    | S f' =>
      match vs with
      | [] => RVal s tt
      | v :: rest =>
        match end_block (eval_block f' (with_frame s (sl s ++ [v])) body) with
        | RVal s2 _ => eval_forin f' (pop_frame s2) rest body
        | RIter s2 => eval_forin f' (pop_frame s2) rest body
        | RBrk s2 => RVal (pop_frame s2) tt
        | RThrow s2 k => RThrow (pop_frame s2) k
        | r => r
        end
      end
    end.

  (* ---- whole programs ---- *)
  Inductive status : Type := StOk | StFail.
  Inductive result : Type :=
  | Done (out : string) (st : status)
  | OutOfFuel
  | Undef
  | Stuck.

  Definition output_of (s : state) : string := String.concat "" (rev (so s)).

  Fixpoint eval_items (f : nat) (s : state) (p : prog) {struct p} : result :=
    match p with
    | [] => Done (output_of s) StOk
    | IConst _ e :: r | IVar _ e :: r =>
        match eval_expr f (with_frame s []) e with
        | RVal s1 v => eval_items f (mkSt (sg s1 ++ [v]) [] (so s1)) r
        | RThrow s1 _ => Done (output_of s1) StFail    (* unhandled exception *)
        | RFuel => OutOfFuel
        | RUndef => Undef
        | _ => Stuck
        end
    | IFun _ :: r => eval_items f s r
    | IStmt st :: r =>
        match eval_stmt f (with_frame s []) st with
        | RVal s1 _ => eval_items f (with_frame s1 []) r
        | RThrow s1 _ => Done (output_of s1) StFail
        | RFuel => OutOfFuel
        | RUndef => Undef
        | _ => Stuck
        end
    end.
End Eval.

Definition eval (f : nat) (p : prog) : result :=
  eval_items (funs_of p) f (mkSt [] [] []) p.
