(* MiniAldor: model-level shrinking.  [cands p] lists the programs obtained from p by ONE
   reduction step (delete a statement, delete a trailing-independent form, replace a node
   by one of its operands or by a default literal, drop an else branch, shorten a literal).
   The tool (`mini shrink`) walks a path of candidate indices from a generated program and
   says whether the program reached is still accepted by [typecheck] with a [Done] result;
   the decision whether the compiler still misbehaves on it is taken outside.
   Definitions only.                                                                     *)
Require Import List ZArith String Bool Arith.
Require Import AV.Mini.Syntax AV.Mini.Types AV.Mini.Eval AV.Mini.Gen.
Import ListNotations.
Local Open Scope list_scope.

Definition default_lits : list expr :=
  [ELit (LNum NMI 0); ELit (LNum NInt 0); ELit (LBool false); ELit (LBool true); ELit (LStr EmptyString);
   EListLit BMI []; EListLit BInt []; EListLit BBool []; EListLit BStr [];
   EPrim (PBox DA NMI) [ELit (LNum NMI 0)]; EPrim (PBox DA NInt) [ELit (LNum NInt 0)];
   EPrim (PBox DB NMI) [ELit (LNum NMI 0)]; EPrim (PBox DB NInt) [ELit (LNum NInt 0)]].

Section ListShrink.
  Context {A : Type} (sh : A -> list A).
  (* every way of shrinking exactly one element *)
  Fixpoint shrink_one (l : list A) : list (list A) :=
    match l with
    | [] => []
    | a :: r => map (fun a' => a' :: r) (sh a) ++ map (fun r' => a :: r') (shrink_one r)
    end.
  (* every way of deleting exactly one element *)
  Fixpoint delete_one (l : list A) : list (list A) :=
    match l with
    | [] => []
    | a :: r => r :: map (fun r' => a :: r') (delete_one r)
    end.
End ListShrink.

Definition is_lit (e : expr) : bool := match e with ELit _ => true | _ => false end.

Fixpoint sh_e (e : expr) {struct e} : list expr :=
  match e with
  | ELit (LNum n z) => if (Z.ltb 7 z) then [ELit (LNum n 0); ELit (LNum n 1); ELit (LNum n 7)]
                       else if (Z.ltb 1 z) then [ELit (LNum n 0); ELit (LNum n 1)]
                       else if Z.eqb z 1 then [ELit (LNum n 0)] else []
  | ELit (LBool _) => []
  | ELit (LStr s) => match s with
                     | EmptyString => []
                     | String c r => [ELit (LStr EmptyString)]
                     end
  | EGlob _ | ELoc _ => default_lits
  | EPrim p args =>
      args ++ default_lits ++ map (EPrim p) (shrink_one sh_e args)
  | ECall n args =>
      args ++ default_lits ++ map (ECall n) (shrink_one sh_e args)
  | EIf c a b =>
      [a; b] ++ map (fun c' => EIf c' a b) (sh_e c) ++ map (fun a' => EIf c a' b) (sh_e a)
      ++ map (fun b' => EIf c a b') (sh_e b)
  | EAnd a b => [a; b] ++ map (fun a' => EAnd a' b) (sh_e a) ++ map (fun b' => EAnd a b') (sh_e b)
  | EOr a b => [a; b] ++ map (fun a' => EOr a' b) (sh_e a) ++ map (fun b' => EOr a b') (sh_e b)
  | ESeq ss e' =>
      [e'] ++ map (fun ss' => ESeq ss' e') (delete_one ss)
      ++ map (fun ss' => ESeq ss' e') (shrink_one sh_s ss)
      ++ map (fun e'' => ESeq ss e'') (sh_e e')
  | EMac m e' => [e'] ++ map (EMac m) (sh_e e')
  | EListLit b es => map (EListLit b) (delete_one es) ++ map (EListLit b) (shrink_one sh_e es)
  | ERec fs es => map (ERec fs) (shrink_one sh_e es)
  | EArrLit b es => map (EArrLit b) (shrink_one sh_e es)
  | EField i e' => default_lits ++ map (EField i) (sh_e e')
  | EClo n ps r es => map (EClo n ps r) (shrink_one sh_e es)
  | EApp fn es => default_lits ++ map (fun x => EApp x es) (sh_e fn) ++ map (EApp fn) (shrink_one sh_e es)
  | EUni fs i e' => map (EUni fs i) (sh_e e')
  | ECase i e' => [ELit (LBool false); ELit (LBool true)] ++ map (ECase i) (sh_e e')
  | EUGet i e' => default_lits ++ map (EUGet i) (sh_e e')
  end
with sh_s (s : stmt) {struct s} : list stmt :=
  match s with
  | SAssG k e => map (SAssG k) (sh_e e)
  | SAssL k e => map (SAssL k) (sh_e e)
  | SSetG k i e => map (SSetG k i) (sh_e e)
  | SSetL k i e => map (SSetL k i) (sh_e e)
  | SSetIG k i e => map (fun x => SSetIG k x e) (sh_e i) ++ map (SSetIG k i) (sh_e e)
  | SSetIL k i e => map (fun x => SSetIL k x e) (sh_e i) ++ map (SSetIL k i) (sh_e e)
  | SPrint es => map SPrint (delete_one es) ++ map SPrint (shrink_one sh_e es)
  | SIf c a b =>
      map (fun c' => SIf c' a b) (sh_e c)
      ++ (match b with [] => [] | _ => [SIf c a []] end)
      ++ map (fun a' => SIf c a' b) (delete_one a) ++ map (fun b' => SIf c a b') (delete_one b)
      ++ map (fun a' => SIf c a' b) (shrink_one sh_s a) ++ map (fun b' => SIf c a b') (shrink_one sh_s b)
  | SWhile c body =>
      (* the first statement of a generated while body is the counter decrement: keep it *)
      map (fun b' => SWhile c b') (match body with [] => [] | d :: r => map (cons d) (delete_one r) end)
      ++ map (fun b' => SWhile c b') (match body with [] => [] | d :: r => map (cons d) (shrink_one sh_s r) end)
  | SFor lo hi body =>
      map (fun x => SFor x hi body) (sh_e lo) ++ map (fun x => SFor lo x body) (sh_e hi)
      ++ map (fun b' => SFor lo hi b') (delete_one body)
      ++ map (fun b' => SFor lo hi b') (shrink_one sh_s body)
  | SForIn b l body =>
      map (fun x => SForIn b x body) (sh_e l)
      ++ map (fun b' => SForIn b l b') (delete_one body)
      ++ map (fun b' => SForIn b l b') (shrink_one sh_s body)
  | SBreak | SIterate => []
  | SReturn e => map SReturn (sh_e e)
  | SExit c s' => [s'] ++ map (fun c' => SExit c' s') (sh_e c) ++ map (fun x => SExit c x) (sh_s s')
  | SExitV c e => map (fun c' => SExitV c' e) (sh_e c) ++ map (fun x => SExitV c x) (sh_e e)
  | SCall n args => map (SCall n) (shrink_one sh_e args)
  | SError e => map SError (sh_e e)
  | SNever | SThrow _ => []
  | STry body hs =>
      map (fun b' => STry b' hs) (delete_one body) ++ map (fun hs' => STry body hs') (delete_one hs)
      ++ map (fun b' => STry b' hs) (shrink_one sh_s body)
      ++ map (fun hs' => STry body hs')
             (shrink_one (fun h : nat * list stmt =>
                            map (fun b => (fst h, b)) (delete_one (snd h) ++ shrink_one sh_s (snd h))) hs)
  end.

Definition sh_fun (fd : fundef) : list fundef :=
  let mk ls b r := mkFun (fd_name fd) (fd_params fd) (fd_ret fd) ls b r (fd_pure fd) (fd_nglob fd) in
  map (fun b => mk (fd_locals fd) b (fd_result fd)) (delete_one (fd_body fd))
  ++ map (fun b => mk (fd_locals fd) b (fd_result fd)) (shrink_one sh_s (fd_body fd))
  ++ map (fun r => mk (fd_locals fd) (fd_body fd) r) (sh_e (fd_result fd))
  ++ map (fun ls => mk ls (fd_body fd) (fd_result fd))
         (shrink_one (fun le : ty * expr => map (fun e => (fst le, e)) (sh_e (snd le))) (fd_locals fd)).

Definition sh_item (it : item) : list item :=
  match it with
  | IConst t e => map (IConst t) (sh_e e)
  | IVar t e => map (IVar t) (sh_e e)
  | IFun fd => map IFun (sh_fun fd)
  | IStmt s => map IStmt (sh_s s)
  end.

(* whole forms that can be deleted without renumbering: statements, and function definitions
   (later definitions keep their fd_nglob; calls to a deleted function make the candidate
   ill-typed and it is discarded)                                                          *)
Fixpoint delete_forms (p : prog) : list prog :=
  match p with
  | [] => []
  | it :: r =>
      match it with
      | IStmt _ | IFun _ => [r]
      | _ => []
      end ++ map (fun r' => it :: r') (delete_forms r)
  end.

(* deleting the LAST global declaration needs no renumbering either *)
Fixpoint has_decl (p : prog) : bool :=
  match p with
  | [] => false
  | IConst _ _ :: _ | IVar _ _ :: _ => true
  | _ :: r => has_decl r
  end.
Fixpoint delete_last_decl (p : prog) : list prog :=
  match p with
  | [] => []
  | it :: r =>
      match it with
      | IConst _ _ | IVar _ _ => if has_decl r then map (cons it) (delete_last_decl r) else [r]
      | _ => map (cons it) (delete_last_decl r)
      end
  end.

Definition cands (p : prog) : list prog :=
  delete_forms p ++ delete_last_decl p ++ shrink_one sh_item p.

Fixpoint walk (p : prog) (path : list nat) : option prog :=
  match path with
  | [] => Some p
  | i :: r => match nth_error (cands p) i with
              | Some q => walk q r
              | None => None
              end
  end.
