Require Import ExtrOcamlBasic.
Require Import AV.Mini.Tool.
Extraction "Mini/extracted/mini.ml" tool_gen tool_shrink tool_raw tool_corpus_names tool_corpus tool_mutants tool_forms tool_forms_failed_at.
