Require Import ExtrOcamlBasic.
Require Import AV.Mini.Tool.
Extraction "Mini/extracted/mini.ml" tool_gen tool_shrink.
