(* MiniAldor: the fault catalogue of C06 as functions on abstract programs.
     muts k p          : every single-fault mutant of kind k, with the index of the top-level
                         form that holds the fault
     mutate k p site   : the site-th of them (p itself when there is no such site)
     eligible k p site : the site exists AND the planted fault is a violation of the typing
                         rules of Types.v (the checker is run on the mutant)
   Every mutation replaces or adds only literals and names, so no side condition of the
   subset (evaluation-order independence, purity) can be what makes the mutant ill-typed:
   a mutant is rejected because a name has no meaning, a call has no / two meanings, a
   constant is assigned, or a result has the wrong type.
   Definitions only (facts in MutFacts.v).                                              *)
Require Import List ZArith String Bool Arith.
Require Import AV.Mini.Syntax AV.Mini.Types AV.Mini.Shrink.
Import ListNotations.
Local Open Scope list_scope.

Inductive kind : Type :=
| KArgType      (* an argument of a call to a user function replaced by a literal of another type *)
| KArity        (* an argument dropped from / added to a call to a user function *)
| KUndefName    (* a function or variable name replaced by a name that is defined nowhere *)
| KAmbiguous    (* a second definition with the same name and parameter types (other result type)
                   plus a use in a context that cannot choose between them *)
| KConstAssign  (* an assignment to a global constant *)
| KRetType.     (* the result expression of a function replaced by a literal of another type *)

Definition all_kinds : list kind := [KArgType; KArity; KUndefName; KAmbiguous; KConstAssign; KRetType].

Definition kind_name (k : kind) : string :=
  match k with
  | KArgType => "wrong-argument-type"
  | KArity => "wrong-arity"
  | KUndefName => "undefined-name"
  | KAmbiguous => "ambiguous-overload"
  | KConstAssign => "assign-to-constant"
  | KRetType => "wrong-return-type"
  end%string.

Definition lit_of (t : ty) : expr :=
  match t with
  | TMI => ELit (LNum NMI 7)
  | TInt => ELit (LNum NInt 7)
  | TBool => ELit (LBool true)
  | TStr => ELit (LStr "s"%string)
  | TList b => EListLit b []
  | TBox d n => EPrim (PBox d n) [ELit (LNum n 7)]
  | TArr b => EArrLit b []
  | TFun _ _ | TBad => ELit (LBool true)    (* never asked for: all_tys holds base types only *)
  | TUni fs => EUni fs 0 (match fs with
                          | BInt :: _ => ELit (LNum NInt 7) | BBool :: _ => ELit (LBool true)
                          | BStr :: _ => ELit (LStr "s"%string) | _ => ELit (LNum NMI 7)
                          end)
  | TRec fs => ERec fs (map (fun b => match b with
                                      | BMI => ELit (LNum NMI 7) | BInt => ELit (LNum NInt 7)
                                      | BBool => ELit (LBool true) | BStr => ELit (LStr "s"%string)
                                      end) fs)
  end.
Definition all_tys : list ty := [TMI; TInt; TBool; TStr].
Definition typed_lits : list expr := map lit_of all_tys.

Definition unused_name : nat := 4999.

(* Replacement literals for argument position i of a call to `name`: only types that NO
   definition of that name accepts at that position, so that the call itself loses every
   meaning whatever the other arguments are (a mutant that merely switches to another
   overload could become well-typed again further up through a library overload the model
   does not list, e.g. `mod: (Integer, MachineInteger) -> MachineInteger`).                *)
Definition pos_free (F : list fundef) (name i : nat) (t : ty) : bool :=
  forallb (fun fd => negb (Nat.eqb (fd_name fd) name)
                     || match nth_error (fd_params fd) i with
                        | Some u => negb (ty_eqb u t)
                        | None => true
                        end)%bool F.
Definition arity_free (F : list fundef) (name n : nat) : bool :=
  forallb (fun fd => negb (Nat.eqb (fd_name fd) name) || negb (Nat.eqb (List.length (fd_params fd)) n))%bool F.

Fixpoint replace_at (F : list fundef) (name i : nat) (l : list expr) : list (list expr) :=
  match l with
  | [] => []
  | a :: r =>
      map (fun t => lit_of t :: r) (filter (pos_free F name i) all_tys)
      ++ map (fun r' => a :: r') (replace_at F name (S i) r)
  end.

(* local mutations of a call f(args) *)
Definition mut_call (k : kind) (F : list fundef) (name : nat) (args : list expr) : list (nat * list expr) :=
  match k with
  | KArgType => map (fun a => (name, a)) (replace_at F name 0 args)
  | KArity =>
      (match args with
       | [] => []
       | _ => if arity_free F name (List.length args - 1) then [(name, removelast args)] else []
       end)
      ++ (if arity_free F name (S (List.length args))
          then map (fun l => (name, args ++ [l])) [lit_of TMI; lit_of TBool] else [])
  | KUndefName => [(unused_name, args)]
  | _ => []
  end.

(* apply a local mutation at exactly one node of an expression / statement *)
Fixpoint mu_e (k : kind) (F : list fundef) (e : expr) {struct e} : list expr :=
  match e with
  | ELit _ => []
  | EGlob _ => match k with KUndefName => [EGlob unused_name] | _ => [] end
  | ELoc _ => []
  | EPrim p args => map (EPrim p) (shrink_one (mu_e k F) args)
  | ECall n args =>
      map (fun na => ECall (fst na) (snd na)) (mut_call k F n args)
      ++ map (ECall n) (shrink_one (mu_e k F) args)
  | EIf c a b =>
      map (fun c' => EIf c' a b) (mu_e k F c) ++ map (fun a' => EIf c a' b) (mu_e k F a)
      ++ map (fun b' => EIf c a b') (mu_e k F b)
  | EAnd a b => map (fun a' => EAnd a' b) (mu_e k F a) ++ map (fun b' => EAnd a b') (mu_e k F b)
  | EOr a b => map (fun a' => EOr a' b) (mu_e k F a) ++ map (fun b' => EOr a b') (mu_e k F b)
  | ESeq ss e' => map (fun ss' => ESeq ss' e') (shrink_one (mu_s k F) ss) ++ map (fun x => ESeq ss x) (mu_e k F e')
  | EMac m e' => map (EMac m) (mu_e k F e')
  | EListLit b es => map (EListLit b) (shrink_one (mu_e k F) es)
  | ERec fs es => map (ERec fs) (shrink_one (mu_e k F) es)
  | EArrLit b es => map (EArrLit b) (shrink_one (mu_e k F) es)
  | EField i e' => map (EField i) (mu_e k F e')
  | EClo n ps r es => map (EClo n ps r) (shrink_one (mu_e k F) es)
  | EApp fn es => map (fun x => EApp x es) (mu_e k F fn) ++ map (EApp fn) (shrink_one (mu_e k F) es)
  | EUni fs i e' => map (EUni fs i) (mu_e k F e')
  | ECase i e' => map (ECase i) (mu_e k F e')
  | EUGet i e' => map (EUGet i) (mu_e k F e')
  end
with mu_s (k : kind) (F : list fundef) (s : stmt) {struct s} : list stmt :=
  match s with
  | SAssG g e => map (SAssG g) (mu_e k F e)   (* `g9999 := e` would DECLARE g9999 (langenvs.tex:323-326) *)
  | SAssL l e => map (SAssL l) (mu_e k F e)
  | SSetG g i e => map (SSetG g i) (mu_e k F e)
  | SSetL l i e => map (SSetL l i) (mu_e k F e)
  | SSetIG g i e => map (fun x => SSetIG g x e) (mu_e k F i) ++ map (SSetIG g i) (mu_e k F e)
  | SSetIL l i e => map (fun x => SSetIL l x e) (mu_e k F i) ++ map (SSetIL l i) (mu_e k F e)
  | SPrint es => map SPrint (shrink_one (mu_e k F) es)
  | SIf c a b =>
      map (fun c' => SIf c' a b) (mu_e k F c)
      ++ map (fun a' => SIf c a' b) (shrink_one (mu_s k F) a) ++ map (fun b' => SIf c a b') (shrink_one (mu_s k F) b)
  | SWhile c body =>
      map (fun c' => SWhile c' body) (mu_e k F c) ++ map (fun b' => SWhile c b') (shrink_one (mu_s k F) body)
  | SFor lo hi body =>
      map (fun x => SFor x hi body) (mu_e k F lo) ++ map (fun x => SFor lo x body) (mu_e k F hi)
      ++ map (fun b' => SFor lo hi b') (shrink_one (mu_s k F) body)
  | SForIn b l body =>
      map (fun x => SForIn b x body) (mu_e k F l) ++ map (fun b' => SForIn b l b') (shrink_one (mu_s k F) body)
  | SBreak | SIterate => []
  | SReturn e => map SReturn (mu_e k F e)
  | SExit c s' => map (fun c' => SExit c' s') (mu_e k F c) ++ map (fun x => SExit c x) (mu_s k F s')
  | SExitV c e => map (fun c' => SExitV c' e) (mu_e k F c) ++ map (fun x => SExitV c x) (mu_e k F e)
  | SCall n args =>
      map (fun na => SCall (fst na) (snd na)) (mut_call k F n args)
      ++ map (SCall n) (shrink_one (mu_e k F) args)
  | SError e => map SError (mu_e k F e)
  | SNever | SThrow _ => []
  | STry body hs =>
      map (fun b' => STry b' hs) (shrink_one (mu_s k F) body)
      ++ map (fun hs' => STry body hs')
             (shrink_one (fun h : nat * list stmt => map (fun b => (fst h, b)) (shrink_one (mu_s k F) (snd h))) hs)
  end.

Definition with_body (fd : fundef) (ls : list (ty * expr)) (b : list stmt) (r : expr) : fundef :=
  mkFun (fd_name fd) (fd_params fd) (fd_ret fd) ls b r (fd_pure fd) (fd_nglob fd).

Definition mu_fun (k : kind) (F : list fundef) (fd : fundef) : list fundef :=
  match k with
  | KRetType =>
      map (fun t => with_body fd (fd_locals fd) (fd_body fd) (lit_of t))
          (filter (fun t => negb (ty_eqb t (fd_ret fd))) all_tys)
  | KAmbiguous | KConstAssign => []
  | _ =>
      map (fun b => with_body fd (fd_locals fd) b (fd_result fd)) (shrink_one (mu_s k F) (fd_body fd))
      ++ map (fun r => with_body fd (fd_locals fd) (fd_body fd) r) (mu_e k F (fd_result fd))
      ++ map (fun ls => with_body fd ls (fd_body fd) (fd_result fd))
             (shrink_one (fun le : ty * expr => map (fun e => (fst le, e)) (mu_e k F (snd le))) (fd_locals fd))
  end.

Definition mu_item (k : kind) (F : list fundef) (it : item) : list item :=
  match k with
  | KAmbiguous | KConstAssign => []
  | _ =>
      match it with
      | IConst t e => map (IConst t) (mu_e k F e)
      | IVar t e => map (IVar t) (mu_e k F e)
      | IFun fd => map IFun (mu_fun k F fd)
      | IStmt s => map IStmt (mu_s k F s)
      end
  end.

(* (index of the mutated form, mutant) for in-place mutations *)
Fixpoint mu_items (k : kind) (F : list fundef) (i : nat) (p : prog) : list (nat * prog) :=
  match p with
  | [] => []
  | it :: r =>
      map (fun it' => (i, it' :: r)) (mu_item k F it)
      ++ map (fun ir => (fst ir, it :: snd ir)) (mu_items k F (S i) r)
  end.

(* a second definition of fd's name with the same parameters and another result type, placed
   right after fd, and at the end of the file a use whose context (`stdout << .`) accepts
   both result types                                                                       *)
Definition other_ty (t : ty) : ty := match t with TStr => TMI | _ => TStr end.
Definition twin (fd : fundef) : fundef :=
  mkFun (fd_name fd) (fd_params fd) (other_ty (fd_ret fd)) [] [] (lit_of (other_ty (fd_ret fd)))
        true (fd_nglob fd).

Fixpoint ambig_items (i : nat) (p : prog) : list (nat * prog) :=
  match p with
  | [] => []
  | it :: r =>
      match it with
      | IFun fd =>
          (* only when the original result type has `<<` too: a Box value is not printable, so
             `stdout << f(..)` would single out the String twin and be legal Aldor            *)
          match fd_ret fd with
          | TBox _ _ | TRec _ | TUni _ | TFun _ _ | TBad => []
          | _ => [(S i, it :: IFun (twin fd) :: r
                        ++ [IStmt (SPrint [ECall (fd_name fd) (map lit_of (fd_params fd))])])]
          end
      | _ => []
      end
      ++ map (fun ir => (fst ir, it :: snd ir)) (ambig_items (S i) r)
  end.

(* g<k> := literal, appended at the end of the file, for every global constant k *)
Fixpoint const_assigns (G : list (ty * bool)) (k : nat) (p : prog) : list (nat * prog) :=
  match G with
  | [] => []
  | (t, m) :: r =>
      (if m then [] else [(List.length p, p ++ [IStmt (SAssG k (lit_of t))])])
      ++ const_assigns r (S k) p
  end.

Definition muts (k : kind) (p : prog) : list (nat * prog) :=
  match k with
  | KAmbiguous => ambig_items 0 p
  | KConstAssign => const_assigns (globals_of p) 0 p
  | _ => mu_items k (funs_of p) 0 p
  end.

Definition mutate (k : kind) (p : prog) (site : nat) : prog :=
  match nth_error (muts k p) site with
  | Some (_, q) => q
  | None => p
  end.

Definition fault_form (k : kind) (p : prog) (site : nat) : nat :=
  match nth_error (muts k p) site with
  | Some (i, _) => i
  | None => 0
  end.

(* The checker of Types.v also enforces "defined before use" (a call or a variable reference
   must follow the definition in file order): that is a restriction of the defined subset
   (the oracle would otherwise have to model uninitialised constants), NOT an Aldor typing
   rule -- file scope makes every definition of the file visible (langenvs.tex:83-107).  A
   mutant must be ill-typed for a reason Aldor shares, so eligibility also runs a lax
   checker in which every global and every function of the file is visible everywhere.    *)
Definition lax_top (G : list (ty * bool)) (F : list fundef) : ctx :=
  top_ctx G F (List.length G) (List.length F).
Definition lax_fun_ctx (G : list (ty * bool)) (F : list fundef) (fd : fundef) : ctx :=
  mkCtx G (List.length G) F (List.length F) (map (fun t => (t, false)) (fd_params fd))
        (Some (fd_ret fd)) false None (fd_pure fd).
Definition check_fun_lax (G : list (ty * bool)) (F : list fundef) (fd : fundef) : bool :=
  match check_locals (lax_fun_ctx G F fd) (fd_locals fd) with
  | Some cx => (check_block (with_seq cx (Some (fd_ret fd))) (fd_body fd)
                && opt_ty_eqb (infer cx (fd_result fd)) (fd_ret fd)
                && store_ok (fd_ret fd) (fd_result fd))%bool
  | None => false
  end.
Fixpoint check_items_lax (G : list (ty * bool)) (F : list fundef) (p : prog) : bool :=
  match p with
  | [] => true
  | IConst t e :: r =>
      (opt_ty_eqb (infer (lax_top G F) e) t && (negb (is_rec t) || sharable (lax_top G F) e)
       && check_items_lax G F r)%bool
  | IVar t e :: r =>
      (opt_ty_eqb (infer (lax_top G F) e) t && store_ok t e && check_items_lax G F r)%bool
  | IFun fd :: r => (check_fun_lax G F fd && check_items_lax G F r)%bool
  | IStmt s :: r => (negb (is_exit s) && check_stmt (lax_top G F) s && check_items_lax G F r)%bool
  end.
Definition typecheck_lax (p : prog) : bool := check_items_lax (globals_of p) (funs_of p) p.

Definition eligible (k : kind) (p : prog) (site : nat) : bool :=
  (Nat.ltb site (List.length (muts k p))
   && negb (typecheck (mutate k p site)) && negb (typecheck_lax (mutate k p site)))%bool.

(* the eligible sites of kind k *)
Definition eligible_sites (k : kind) (p : prog) : list nat :=
  filter (eligible k p) (seq 0 (List.length (muts k p))).
