(* Driver of the MiniAldor tool (tools/MINI_TOOL.md).  No arithmetic and no semantics here:
   only conversion between OCaml strings and the extracted Coq strings, JSON escaping,
   and command dispatch.  Commands come from argv (one command) or, without arguments,
   one per line from stdin; one JSON object per line goes to stdout.                    *)
open Mini

let ascii_of_char (c : char) : ascii =
  let n = Char.code c in
  let b i = (n lsr i) land 1 = 1 in
  Ascii (b 0, b 1, b 2, b 3, b 4, b 5, b 6, b 7)

let char_of_ascii (a : ascii) : char =
  match a with
  | Ascii (b0, b1, b2, b3, b4, b5, b6, b7) ->
    let v b i = if b then 1 lsl i else 0 in
    Char.chr (v b0 0 lor v b1 1 lor v b2 2 lor v b3 3 lor v b4 4 lor v b5 5 lor v b6 6 lor v b7 7)

let to_coq (s : Stdlib.String.t) : Mini.string =
  let r = ref EmptyString in
  for i = Stdlib.String.length s - 1 downto 0 do
    r := String (ascii_of_char s.[i], !r)
  done;
  !r

let of_coq (s : Mini.string) : Stdlib.String.t =
  let b = Buffer.create 256 in
  let rec go = function
    | EmptyString -> ()
    | String (a, r) -> Buffer.add_char b (char_of_ascii a); go r in
  go s; Buffer.contents b

let json_str (s : Stdlib.String.t) : Stdlib.String.t =
  let b = Buffer.create (Stdlib.String.length s + 16) in
  Buffer.add_char b '"';
  Stdlib.String.iter (fun c ->
    match c with
    | '"' -> Buffer.add_string b "\\\""
    | '\\' -> Buffer.add_string b "\\\\"
    | '\n' -> Buffer.add_string b "\\n"
    | '\r' -> Buffer.add_string b "\\r"
    | '\t' -> Buffer.add_string b "\\t"
    | c when Char.code c < 32 || Char.code c > 126 -> Buffer.add_string b (Printf.sprintf "\\u%04x" (Char.code c))
    | c -> Buffer.add_char b c) s;
  Buffer.add_char b '"';
  Buffer.contents b

let js s = json_str (of_coq s)
let jlist l = "[" ^ Stdlib.String.concat "," (List.map js l) ^ "]"
(* decimal strings produced by the model are copied verbatim as JSON numbers *)
let jnum s = of_coq s

let prog_fields (po : prog_out) : Stdlib.String.t =
  Printf.sprintf
    "\"typed\":%s,\"features\":%s,\"literals\":%s,\"nodes\":%s,\"src\":%s,\"result\":%s,\"expect_out\":%s,\"expect_status\":%s"
    (of_coq po.po_typed) (jlist po.po_features) (jlist po.po_literals) (jnum po.po_nodes)
    (js po.po_src) (js po.po_run.ro_result) (js po.po_run.ro_out) (js po.po_run.ro_status)

let shrink_cmd seed size path =
  match tool_shrink (to_coq seed) (to_coq size) (to_coq path) with
  | Some (n, po) ->
    Printf.sprintf "{\"seed\":%s,\"size\":%s,\"path\":%s,\"ncands\":%s,%s}"
      (jnum (to_coq seed)) (jnum (to_coq size)) (json_str path) (jnum n) (prog_fields po)
  | None -> Printf.sprintf "{\"seed\":%s,\"size\":%s,\"path\":%s,\"error\":\"no such candidate\"}"
      (jnum (to_coq seed)) (jnum (to_coq size)) (json_str path)

let mutants_cmd seed size maxper =
  let ((po, counts), ms) = tool_mutants (to_coq seed) (to_coq size) (to_coq maxper) in
  Printf.sprintf "{\"seed\":%s,\"size\":%s,\"sites\":{%s},\"mutants\":[%s],%s}"
    (jnum (to_coq seed)) (jnum (to_coq size))
    (Stdlib.String.concat "," (List.map (fun (k, (c, e)) ->
         Printf.sprintf "%s:{\"candidates\":%s,\"eligible\":%s}" (js k) (jnum c) (jnum e)) counts))
    (Stdlib.String.concat "," (List.map (fun m ->
         Printf.sprintf "{\"kind\":%s,\"site\":%s,\"fault_form\":%s,\"line_lo\":%s,\"line_hi\":%s,\"bad_form\":%s,\"src\":%s}"
           (js m.mo_kind) (jnum m.mo_site) (jnum m.mo_form) (jnum m.mo_lo) (jnum m.mo_hi) (js m.mo_bad) (js m.mo_src)) ms))
    (prog_fields po)

let command (ws : Stdlib.String.t list) : Stdlib.String.t =
  match ws with
  | ["gen"; seed; size] ->
    let (tries, po) = tool_gen (to_coq seed) (to_coq size) in
    Printf.sprintf "{\"seed\":%s,\"size\":%s,\"tries\":%s,%s}"
      (jnum (to_coq seed)) (jnum (to_coq size)) (jnum tries) (prog_fields po)
  | ["mutants"; seed; size] -> mutants_cmd seed size "5"
  | ["mutants"; seed; size; maxper] -> mutants_cmd seed size maxper
  | ["forms"; seed; size] ->
    let ((hd, forms), po) = tool_forms (to_coq seed) (to_coq size) in
    let fa = of_coq (tool_forms_failed_at (to_coq seed) (to_coq size)) in
    Printf.sprintf "{\"seed\":%s,\"size\":%s,\"failed_at\":%s,\"header\":%s,\"forms\":[%s],%s}"
      (jnum (to_coq seed)) (jnum (to_coq size)) (if fa = "" then "null" else fa) (js hd)
      (Stdlib.String.concat "," (List.map (fun (src, out) ->
           Printf.sprintf "{\"src\":%s,\"expect_out\":%s}" (js src) (js out)) forms))
      (prog_fields po)
  | ["corpus"] -> "{\"names\":" ^ jlist tool_corpus_names ^ "}"
  | ["corpus"; name] ->
    (match tool_corpus (to_coq name) with
     | Some po -> Printf.sprintf "{\"corpus\":%s,%s}" (json_str name) (prog_fields po)
     | None -> "{\"error\":\"no such corpus entry\"}")
  | ["raw"; seed; size] ->
    let ((bad, items), po) = tool_raw (to_coq seed) (to_coq size) in
    Printf.sprintf "{\"seed\":%s,\"size\":%s,\"bad_items\":[%s],\"items\":%s,%s}" (jnum (to_coq seed)) (jnum (to_coq size))
      (Stdlib.String.concat "," (List.map of_coq bad)) (jlist items) (prog_fields po)
  | ["shrink"; seed; size] | ["shrink"; seed; size; "-"] | ["shrink"; seed; size; ""] ->
    shrink_cmd seed size ""
  | ["shrink"; seed; size; path] -> shrink_cmd seed size path
  | _ -> "{\"error\":" ^ json_str ("unknown command: " ^ Stdlib.String.concat " " ws) ^ "}"

let () =
  let args = List.tl (Array.to_list Sys.argv) in
  if args <> [] then print_endline (command args)
  else
    try
      while true do
        let line = input_line stdin in
        let ws = List.filter (fun w -> w <> "") (Stdlib.String.split_on_char ' ' (Stdlib.String.trim line)) in
        if ws <> [] then (print_endline (command ws); flush stdout)
      done
    with End_of_file -> ()
