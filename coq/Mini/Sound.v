(* MiniAldor: type soundness of the reference evaluator.
     typecheck p = true -> forall f, eval f p <> Stuck
   Proof: a fuel-indexed invariant (every outcome of a well-typed phrase in a well-typed
   state is well-typed, never Stuck), by induction on the fuel only.                     *)
Require Import List ZArith String Bool Arith Lia.
Require Import AV.Mini.Syntax AV.Mini.Types AV.Mini.Eval.
Import ListNotations.

(* ---------- small facts ---------- *)
Lemma bty_eqb_eq : forall a b, bty_eqb a b = true -> a = b.
Proof. destruct a, b; simpl; intros; congruence. Qed.

Lemma btys_eqb_eq : forall a b, btys_eqb a b = true -> a = b.
Proof.
  induction a as [| x a IH]; destruct b as [| y b]; simpl; intros H; try discriminate; auto.
  apply andb_prop in H as [H1 H2]. apply bty_eqb_eq in H1. apply IH in H2. congruence.
Qed.

Lemma btys_eqb_refl : forall a, btys_eqb a a = true.
Proof. induction a as [| x a IH]; simpl; auto. rewrite IH. destruct x; reflexivity. Qed.

Lemma ty_eqb_eq : forall a b, ty_eqb a b = true -> a = b.
Proof.
  destruct a as [| | | | x | d n | xa | us | ps r | | fs], b as [| | | | y | d' n' | ya | us' | ps' r' | | fs']; simpl; intros H; try congruence.
  - apply bty_eqb_eq in H. congruence.
  - apply andb_prop in H as [H1 H2]. destruct d, d'; try discriminate; destruct n, n'; try discriminate; reflexivity.
  - apply bty_eqb_eq in H. congruence.
  - apply btys_eqb_eq in H. congruence.
  - apply andb_prop in H as [H1 H2]. apply btys_eqb_eq in H1. apply bty_eqb_eq in H2. congruence.
  - apply btys_eqb_eq in H. congruence.
Qed.

Lemma ty_eqb_refl : forall a, ty_eqb a a = true.
Proof.
  destruct a as [| | | | x | d n | xa | us | ps r | | fs]; simpl; try reflexivity.
  - destruct x; reflexivity.
  - destruct d, n; reflexivity.
  - destruct xa; reflexivity.
  - apply btys_eqb_refl.
  - rewrite btys_eqb_refl. destruct r; reflexivity.
  - apply btys_eqb_refl.
Qed.

Lemma tys_eqb_eq : forall a b, tys_eqb a b = true -> a = b.
Proof.
  induction a as [| x a IH]; destruct b as [| y b]; simpl; intros H; try discriminate; auto.
  apply andb_prop in H as [H1 H2]. apply ty_eqb_eq in H1. apply IH in H2. congruence.
Qed.

Lemma opt_ty_eqb_eq : forall o t, opt_ty_eqb o t = true -> o = Some t.
Proof. destruct o; simpl; intros; [apply ty_eqb_eq in H; congruence | discriminate]. Qed.

Lemma map_opt_cons : forall A B (f : A -> option B) a r l,
    map_opt f (a :: r) = Some l ->
    exists b bs, f a = Some b /\ map_opt f r = Some bs /\ l = b :: bs.
Proof.
  intros A B f a r l H. simpl in H. destruct (f a) eqn:Ha; [| discriminate].
  destruct (map_opt f r) eqn:Hr; [| discriminate]. inversion H; subst. eauto.
Qed.

Lemma cands_from_nth : forall fs k name tys j fd,
    In (j, fd) (cands_from k fs name tys) ->
    k <= j /\ nth_error fs (j - k) = Some fd /\ fd_name fd = name /\ fd_params fd = tys.
Proof.
  induction fs as [| g fs IH]; simpl; intros k name tys j fd H; [contradiction |].
  destruct (Nat.eqb (fd_name g) name && tys_eqb (fd_params g) tys)%bool eqn:Hc.
  - destruct H as [H | H].
    + inversion H; subst. apply andb_prop in Hc as [H1 H2].
      apply Nat.eqb_eq in H1. apply tys_eqb_eq in H2.
      replace (j - j) with 0 by lia. simpl. auto.
    + apply IH in H as (H1 & H2 & H3 & H4). split; [lia |].
      replace (j - k) with (S (j - S k)) by lia. simpl. auto.
  - apply IH in H as (H1 & H2 & H3 & H4). split; [lia |].
    replace (j - k) with (S (j - S k)) by lia. simpl. auto.
Qed.

Lemma resolve_nth : forall fs name tys j fd,
    resolve fs name tys = Some (j, fd) ->
    nth_error fs j = Some fd /\ fd_params fd = tys.
Proof.
  unfold resolve; intros fs name tys j fd H.
  destruct (cands_from 0 fs name tys) as [| x [| y l]] eqn:Hc; try discriminate.
  inversion H; subst.
  assert (Hin : In (j, fd) (cands_from 0 fs name tys)) by (rewrite Hc; left; reflexivity).
  apply cands_from_nth in Hin as (_ & H2 & _ & H4). rewrite Nat.sub_0_r in H2. auto.
Qed.

Section Sound.
  Variable G : list (ty * bool).
  Variable F : list fundef.
  Hypothesis Hfuns : forall j fd, nth_error F j = Some fd -> check_fun G F j fd = true.

(* function values have a function type or the junk type, nothing else *)
Lemma clo_ty_cases : forall j env, clo_ty F j env = TBad \/ exists ps r, clo_ty F j env = TFun ps r.
Proof.
  intros j env. unfold clo_ty. destruct (nth_error F j) as [fd |]; [| left; reflexivity].
  destruct (btys_of_tys (fd_params fd)); [| left; reflexivity].
  destruct (bty_of_ty (fd_ret fd)); [| left; reflexivity].
  match goal with |- context [if ?c then _ else _] => destruct c end; [right; eauto | left; reflexivity].
Qed.

Ltac clo_absurd :=
  match goal with
  | H : context [clo_ty F ?j ?env] |- _ =>
      let E := fresh "E" in
      destruct (clo_ty_cases j env) as [E | [? [? E]]]; rewrite E in H; simpl in H; discriminate
  end.

Lemma bty_of_ty_inv : forall t b, bty_of_ty t = Some b -> t = ty_of_bty b.
Proof. intros t b0 H. destruct t; simpl in H; try discriminate; injection H as <-; reflexivity. Qed.

Lemma bty_of_ty_of : forall b, bty_of_ty (ty_of_bty b) = Some b.
Proof. destruct b; reflexivity. Qed.

Lemma base_tys : forall tys,
    forallb (fun t => match bty_of_ty t with Some _ => true | None => false end) tys = true ->
    exists bl, tys = map ty_of_bty bl.
Proof.
  induction tys as [| t tys IH]; simpl; intros H.
  - exists []. reflexivity.
  - apply andb_prop in H as [H1 H2]. destruct (bty_of_ty t) as [b |] eqn:Hb; [| discriminate].
    destruct (IH H2) as (bl & ->). exists (b :: bl). simpl. f_equal. apply bty_of_ty_inv. assumption.
Qed.

Lemma btys_of_tys_map : forall bl, btys_of_tys (map ty_of_bty bl) = Some bl.
Proof. induction bl as [| b bl IH]; simpl; auto. rewrite bty_of_ty_of, IH. reflexivity. Qed.

Lemma btys_of_tys_inv : forall ts bl, btys_of_tys ts = Some bl -> ts = map ty_of_bty bl.
Proof.
  induction ts as [| t ts IH]; simpl; intros bl H.
  - injection H as <-. reflexivity.
  - destruct (bty_of_ty t) as [b |] eqn:Hb; [| discriminate].
    destruct (btys_of_tys ts) as [bs |]; [| discriminate]. injection H as <-.
    simpl. f_equal; [apply bty_of_ty_inv; assumption | apply IH; reflexivity].
Qed.

(* ---------- typing of values and states ---------- *)
Definition vals_typed (vs : list value) (ds : list (ty * bool)) : Prop :=
  Forall2 (fun v d => type_of F v = fst d) vs ds.

Definition same_types (a b : list value) : Prop :=
  Forall2 (fun v v' => type_of F v = type_of F v') a b.

Lemma same_types_refl : forall a, same_types a a.
Proof. induction a; constructor; auto. Qed.

Lemma same_types_trans : forall a b c, same_types a b -> same_types b c -> same_types a c.
Proof.
  intros a b c H; revert c; induction H; intros c Hc; inversion Hc; subst; constructor.
  - congruence.
  - apply IHForall2; assumption.
Qed.

Lemma vals_typed_same : forall a b ds, vals_typed a ds -> same_types a b -> vals_typed b ds.
Proof.
  intros a b ds H; revert b; induction H; intros b' Hs; inversion Hs; subst; constructor.
  - congruence.
  - apply IHForall2; assumption.
Qed.

Lemma same_types_nth : forall a b k v,
    same_types a b -> nth_error a k = Some v ->
    exists v', nth_error b k = Some v' /\ type_of F v' = type_of F v.
Proof.
  intros a b k v H; revert k; induction H; intros k Hk; destruct k; simpl in *; try discriminate.
  - inversion Hk; subst. eauto.
  - apply IHForall2; assumption.
Qed.

Lemma same_types_app : forall a b c d, same_types a b -> same_types c d -> same_types (a ++ c) (b ++ d).
Proof. intros; apply Forall2_app; assumption. Qed.

Lemma same_types_length : forall a b, same_types a b -> List.length a = List.length b.
Proof. intros a b H; induction H; simpl; auto. Qed.

Lemma removelast_app1 : forall A (l : list A) x, removelast (l ++ [x]) = l.
Proof. intros. rewrite removelast_app by discriminate. simpl. apply app_nil_r. Qed.

Lemma same_types_snoc_inv : forall a x b,
    same_types (a ++ [x]) b -> same_types a (removelast b).
Proof.
  intros a x b H. apply Forall2_app_inv_l in H as (b1 & b2 & H1 & H2 & Hb). subst.
  inversion H2 as [| ? y ? l' ? Hl]; subst. inversion Hl; subst.
  rewrite removelast_app1. assumption.
Qed.

Lemma set_nth_same : forall l k v v0,
    nth_error l k = Some v0 -> type_of F v = type_of F v0 ->
    exists l', set_nth l k v = Some l' /\ same_types l l'.
Proof.
  induction l as [| x l IH]; intros k v v0 Hn Ht; destruct k; simpl in *; try discriminate.
  - inversion Hn; subst. eexists; split; [reflexivity |]. constructor; [congruence | apply same_types_refl].
  - destruct (IH k v v0 Hn Ht) as (l' & H1 & H2). rewrite H1. eexists; split; [reflexivity |].
    constructor; [reflexivity | assumption].
Qed.

Lemma vals_typed_nth : forall vs ds k t m,
    vals_typed vs ds -> nth_error ds k = Some (t, m) ->
    exists v, nth_error vs k = Some v /\ type_of F v = t.
Proof.
  intros vs ds k t m H; revert k; induction H; intros k Hk; destruct k; simpl in *; try discriminate.
  - inversion Hk; subst. eexists; split; [reflexivity | rewrite H; reflexivity].
  - apply IHForall2; assumption.
Qed.

Definition pres (s s' : state) : Prop := same_types (sg s) (sg s') /\ same_types (sl s) (sl s').
Definition gpres (s s' : state) : Prop := same_types (sg s) (sg s').

Lemma pres_refl : forall s, pres s s.
Proof. intros; split; apply same_types_refl. Qed.
Lemma pres_trans : forall a b c, pres a b -> pres b c -> pres a c.
Proof. intros a b c [H1 H2] [H3 H4]; split; eapply same_types_trans; eauto. Qed.
Lemma pres_gpres : forall a b, pres a b -> gpres a b.
Proof. intros a b [H _]; exact H. Qed.
Lemma gpres_trans : forall a b c, gpres a b -> gpres b c -> gpres a c.
Proof. unfold gpres; intros; eapply same_types_trans; eauto. Qed.

(* ---------- prim soundness ---------- *)


Lemma bool_value : forall v, type_of F v = TBool -> exists b, v = VBool b.
Proof. destruct v as [[] ? | b | ? | [] ? | ? | ? | [] [] ? | [] ? | ? | ? | ? ? ? | ? ? | ?]; simpl; intros; try discriminate; try clo_absurd. eauto. Qed.

Lemma mi_value : forall v, type_of F v = TMI -> exists z, v = VNum NMI z.
Proof. destruct v as [[] ? | b | ? | [] ? | ? | ? | [] [] ? | [] ? | ? | ? | ? ? ? | ? ? | ?]; simpl; intros; try discriminate; try clo_absurd. eauto. Qed.


(* record fields *)
Lemma to_bval_typed : forall v b, type_of F v = ty_of_bty b ->
    exists bv, to_bval v = Some bv /\ btype_of bv = b.
Proof.
  intros v b H.
  destruct v as [[] ?|?|?|[] ?|?|?|[] [] ?|[] ?|?|?|? ? ?|? ?|?]; destruct b; simpl in *; try discriminate; try clo_absurd;
    eexists; split; reflexivity.
Qed.

Lemma to_bvals_typed : forall vs fs, map (type_of F) vs = map ty_of_bty fs ->
    exists bs, map_opt to_bval vs = Some bs /\ map btype_of bs = fs.
Proof.
  induction vs as [| v vs IH]; destruct fs as [| b fs]; simpl; intros H; try discriminate.
  - eauto.
  - injection H as H1 H2. destruct (to_bval_typed v b H1) as (bv & -> & Hb).
    destruct (IH fs H2) as (bs & -> & Hbs). exists (bv :: bs). simpl. split; congruence.
Qed.

Lemma of_bval_typed : forall b, type_of F (of_bval b) = ty_of_bty (btype_of b).
Proof. destruct b as [[] ?|?|?]; reflexivity. Qed.

Lemma of_bvals_typed : forall env, map (type_of F) (map of_bval env) = map ty_of_bty (map btype_of env).
Proof. induction env as [| b env IH]; simpl; auto. rewrite of_bval_typed, IH. reflexivity. Qed.

Lemma clo_value : forall v ps r, type_of F v = TFun ps r -> exists j env, v = VClo j env.
Proof.
  intros v ps r H.
  destruct v as [[] ?|?|?|[] ?|?|?|[] [] ?|[] ?|?|?|? ? ?|j env|?]; simpl in H; try discriminate. eauto.
Qed.

Lemma set_nth_btypes : forall bs i b b0,
    nth_error (map btype_of bs) i = Some b0 -> btype_of b = b0 ->
    exists bs', set_nth bs i b = Some bs' /\ map btype_of bs' = map btype_of bs.
Proof.
  induction bs as [| x bs IH]; intros i b b0 Hn Hb; destruct i; simpl in *; try discriminate.
  - injection Hn as Hn. eexists; split; [reflexivity |]. simpl. congruence.
  - destruct (IH i b b0 Hn Hb) as (bs' & -> & H). eexists; split; [reflexivity |]. simpl. congruence.
Qed.

Lemma rec_value : forall v fs, type_of F v = TRec fs -> exists bs, v = VRec bs /\ map btype_of bs = fs.
Proof.
  intros v us H.
  destruct v as [[] ?|?|?|[] ?|?|?|[] [] ?|[] ?|?|?|? ? ?|? ?|bs]; simpl in H; try discriminate; try clo_absurd.
  injection H as H. eauto.
Qed.

(* union values *)
Lemma uni_value : forall v fs, type_of F v = TUni fs ->
    exists pre bv post, v = VUni pre bv post /\ fs = pre ++ btype_of bv :: post.
Proof.
  intros v us H.
  destruct v as [[] ?|?|?|[] ?|?|?|[] [] ?|[] ?|?|?|pre bv post|? ?|?]; simpl in H; try discriminate; try clo_absurd.
  injection H as H. eauto.
Qed.

Lemma firstn_skipn_nth : forall (A : Type) (l : list A) i x,
    nth_error l i = Some x -> firstn i l ++ x :: skipn (S i) l = l.
Proof.
  induction l as [| a l IH]; intros i x H; destruct i; simpl in *; try discriminate.
  - congruence.
  - f_equal. apply IH. assumption.
Qed.

(* list values and their elements *)
Lemma dec_list_typed : forall v b, type_of F v = TList b \/ type_of F v = TArr b ->
    exists vs, dec_list v = Some vs /\ Forall (fun x => type_of F x = ty_of_bty b) vs.
Proof.
  intros v b0 [H | H];
    destruct v as [[] ?|?|?|[] zs|bs|ss|[] [] ?|[] zs|bs|ss|? ? ?|? ?|?]; simpl in H; try discriminate; try clo_absurd; inversion H; subst;
    eexists; (split; [reflexivity |]); apply Forall_forall; intros x Hx;
    apply in_map_iff in Hx as (y & <- & _); reflexivity.
Qed.

Lemma enc_list_typed : forall b vs, Forall (fun x => type_of F x = ty_of_bty b) vs ->
    exists v, enc_list b vs = Some v /\ type_of F v = TList b.
Proof.
  intros b vs H.
  assert (Hn : forall n l, Forall (fun x => type_of F x = ty_of_nty n) l ->
                           exists zs, map_opt (fun v => match v with VNum _ z => Some z | _ => None end) l = Some zs).
  { intros n l Hf. induction Hf as [| x l Hx Hl IH]; simpl; [eauto |].
    destruct x as [n0 z|?|?|? ?|?|?|? ? ?|? ?|?|?|? ? ?|? ?|?]; simpl in Hx; try (destruct n; discriminate); try (destruct n; clo_absurd).
    destruct IH as (zs & ->). eauto. }
  destruct b; simpl in *.
  - destruct (Hn NMI vs H) as (zs & ->). simpl. eauto.
  - destruct (Hn NInt vs H) as (zs & ->). simpl. eauto.
  - assert (exists bs, map_opt (fun v => match v with VBool x => Some x | _ => None end) vs = Some bs) as (bs & ->).
    { induction H as [| x l Hx Hl IH]; simpl; [eauto |].
      destruct x as [[] ?|?|?|[] ?|?|?|[] [] ?|[] ?|?|?|? ? ?|? ?|?]; simpl in Hx; try discriminate; try clo_absurd. destruct IH as (bs & ->). eauto. }
    simpl. eauto.
  - assert (exists ss, map_opt (fun v => match v with VStr x => Some x | _ => None end) vs = Some ss) as (ss & ->).
    { induction H as [| x l Hx Hl IH]; simpl; [eauto |].
      destruct x as [[] ?|?|?|[] ?|?|?|[] [] ?|[] ?|?|?|? ? ?|? ?|?]; simpl in Hx; try discriminate; try clo_absurd. destruct IH as (ss & ->). eauto. }
    simpl. eauto.
Qed.

Lemma enc_arr_typed : forall b vs, Forall (fun x => type_of F x = ty_of_bty b) vs ->
    exists v, enc_arr b vs = Some v /\ type_of F v = TArr b.
Proof.
  intros b vs H.
  assert (Hn : forall n l, Forall (fun x => type_of F x = ty_of_nty n) l ->
                           exists zs, map_opt (fun v => match v with VNum _ z => Some z | _ => None end) l = Some zs).
  { intros n l Hf. induction Hf as [| x l Hx Hl IH]; simpl; [eauto |].
    destruct x as [n0 z|?|?|? ?|?|?|? ? ?|? ?|?|?|? ? ?|? ?|?]; simpl in Hx; try (destruct n; discriminate); try (destruct n; clo_absurd).
    destruct IH as (zs & ->). eauto. }
  destruct b; simpl in *.
  - destruct (Hn NMI vs H) as (zs & ->). simpl. eauto.
  - destruct (Hn NInt vs H) as (zs & ->). simpl. eauto.
  - assert (exists bs, map_opt (fun v => match v with VBool x => Some x | _ => None end) vs = Some bs) as (bs & ->).
    { induction H as [| x l Hx Hl IH]; simpl; [eauto |].
      destruct x as [[] ?|?|?|[] ?|?|?|[] [] ?|[] ?|?|?|? ? ?|? ?|?]; simpl in Hx; try discriminate; try clo_absurd. destruct IH as (bs & ->). eauto. }
    simpl. eauto.
  - assert (exists ss, map_opt (fun v => match v with VStr x => Some x | _ => None end) vs = Some ss) as (ss & ->).
    { induction H as [| x l Hx Hl IH]; simpl; [eauto |].
      destruct x as [[] ?|?|?|[] ?|?|?|[] [] ?|[] ?|?|?|? ? ?|? ?|?]; simpl in Hx; try discriminate; try clo_absurd. destruct IH as (ss & ->). eauto. }
    simpl. eauto.
Qed.

Lemma prim_sound : forall p vs,
    map (type_of F) vs = fst (prim_sig p) ->
    match prim_eval p vs with
    | PVal v => type_of F v = snd (prim_sig p)
    | PUndef => True
    | PStuck => False
    end.
Proof.
  intros p vs H.
  destruct p;
    try match goal with
        | |- context [prim_eval (PANew ?b0) _] =>
            simpl in H; destruct vs as [| v1 [| v2 [| ? ?]]]; try discriminate; simpl in H;
            injection H as H1 H2; apply mi_value in H1 as [z ->]; simpl;
            destruct (z <? 0)%Z; [exact I |];
            destruct (enc_arr_typed b0 (repeat v2 (Z.to_nat z))) as (a & -> & Ha);
            [apply Forall_forall; intros x Hx; apply repeat_spec in Hx; subst; assumption | exact Ha]
        end;
    try destruct d; try destruct n; try destruct b; simpl in H;
    repeat (destruct vs as [| ?v vs]; simpl in H; try discriminate);
    repeat match goal with
           | v : value |- _ => destruct v as [[] ?|?|?|[] ?|?|?|[] [] ?|[] ?|?|?|? ? ?|? ?|?]; simpl in H; try discriminate; try clo_absurd
           end;
    simpl;
    repeat match goal with
           | |- context [match ?l with [] => _ | _ :: _ => _ end] => destruct l
           | |- context [if ?c then _ else _] => destruct c
           | |- context [match nth_error ?l ?k with Some _ => _ | None => _ end] => destruct (nth_error l k)
           end; simpl; auto.
Qed.

Lemma arr_set_typed : forall a z v b, type_of F a = TArr b -> type_of F v = ty_of_bty b ->
    arr_set a z v = Some None \/ exists a', arr_set a z v = Some (Some a') /\ type_of F a' = TArr b.
Proof.
  intros a z v b Ha Hv. unfold arr_set. destruct (z <? 0)%Z; [left; reflexivity |].
  destruct a as [[] ?|?|?|[] ?|?|?|[] [] ?|[] zs|bs|ss|? ? ?|? ?|?]; simpl in Ha; try discriminate; try clo_absurd;
    injection Ha as Ha; subst b;
    destruct v as [[] ?|?|?|[] ?|?|?|[] [] ?|[] ?|?|?|? ? ?|? ?|?]; simpl in Hv; try discriminate; try clo_absurd;
    match goal with
    | |- context [set_nth ?l ?k ?x] => destruct (set_nth l k x); simpl; [right; eexists; split; reflexivity | left; reflexivity]
    end.
Qed.


  Definition ctx_ok (cx : ctx) : Prop := cG cx = G /\ cF cx = F.

  Definition g_ok (ng : nat) (g : list value) : Prop :=
    forall k t m, k < ng -> nth_error G k = Some (t, m) ->
                  exists v, nth_error g k = Some v /\ type_of F v = t.

  Definition st_ok (cx : ctx) (s : state) : Prop :=
    g_ok (cNG cx) (sg s) /\ vals_typed (sl s) (cL cx).

  Lemma g_ok_same : forall ng g g', g_ok ng g -> same_types g g' -> g_ok ng g'.
  Proof.
    intros ng g g' H Hs k t m Hk Hn. destruct (H k t m Hk Hn) as (v & Hv & Ht).
    destruct (same_types_nth _ _ _ _ Hs Hv) as (v' & Hv' & Ht'). exists v'; split; congruence.
  Qed.

  Lemma g_ok_le : forall ng ng' g, g_ok ng g -> ng' <= ng -> g_ok ng' g.
  Proof. intros ng ng' g H Hle k t m Hk Hn. apply (H k t m); [lia | assumption]. Qed.

  Lemma st_ok_pres : forall cx s s', st_ok cx s -> pres s s' -> st_ok cx s'.
  Proof.
    intros cx s s' [H1 H2] [P1 P2]; split.
    - eapply g_ok_same; eauto.
    - eapply vals_typed_same; eauto.
  Qed.

  (* outcome of a phrase typed in cx, started in s.  ex = false: the phrase is an expression
     (never yields an exit); ex = true: a statement or block                                *)
  Definition out_ok {A : Type} (cx : ctx) (s : state) (ex : bool) (P : state -> A -> Prop) (r : res A) : Prop :=
    match r with
    | RVal s' a => P s' a
    | RBrk s' | RIter s' => cLoop cx = true /\ pres s s'
    | RRet s' v => cRet cx = Some (type_of F v) /\ gpres s s'
    | RExit s' ov =>
        ex = true /\ pres s s' /\
        match ov with None => cSeq cx = None | Some v => cSeq cx = Some (type_of F v) end
    | RThrow s' _ => pres s s'
    | RUndef | RFuel => True
    | RStuck => False
    end.

  Definition val_ok (t : ty) (s s' : state) (v : value) : Prop := type_of F v = t /\ pres s s'.
  Definition vals_ok (ts : list ty) (s s' : state) (vs : list value) : Prop :=
    map (type_of F) vs = ts /\ pres s s'.
  Definition unit_ok (s s' : state) (_ : unit) : Prop := pres s s'.

  (* outcome of the local initialisers (the frame grows, so jumps only keep the globals) *)
  Definition locals_ok (cx cx' : ctx) (s : state) (r : res unit) : Prop :=
    match r with
    | RVal s' _ => st_ok cx' s' /\ gpres s s'
    | RBrk s' | RIter s' => cLoop cx = true
    | RRet s' v => cRet cx = Some (type_of F v) /\ gpres s s'
    | RExit _ _ => False
    | RThrow s' _ => gpres s s'
    | RUndef | RFuel => True
    | RStuck => False
    end.

  Definition sound_at (n : nat) : Prop :=
    (forall cx s e t, ctx_ok cx -> st_ok cx s -> infer cx e = Some t ->
                      out_ok cx s false (val_ok t s) (eval_expr F n s e)) /\
    (forall cx s es ts, ctx_ok cx -> st_ok cx s -> map_opt (infer cx) es = Some ts ->
                        out_ok cx s false (vals_ok ts s) (eval_args F n s es)) /\
    (forall cx s name vs t, ctx_ok cx -> g_ok (cNG cx) (sg s) ->
                            check_call cx name (map (type_of F) vs) = Some t ->
                            match eval_call F n s name vs with
                            | RVal s' v => type_of F v = t /\ gpres s s' /\ sl s' = sl s
                            | RThrow s' _ => gpres s s' /\ sl s' = sl s
                            | RUndef | RFuel => True
                            | _ => False
                            end) /\
    (forall s j fd vs, nth_error F j = Some fd -> g_ok (fd_nglob fd) (sg s) ->
                       map (type_of F) vs = fd_params fd ->
                       match eval_fun F n s fd vs with
                       | RVal s' v => type_of F v = fd_ret fd /\ gpres s s' /\ sl s' = sl s
                       | RThrow s' _ => gpres s s' /\ sl s' = sl s
                       | RUndef | RFuel => True
                       | _ => False
                       end) /\
    (forall cx cx' s ls, ctx_ok cx -> st_ok cx s -> check_locals cx ls = Some cx' ->
                         locals_ok cx cx' s (eval_locals F n s ls)) /\
    (forall cx s ss, ctx_ok cx -> st_ok cx s -> check_block cx ss = true ->
                     out_ok cx s true (unit_ok s) (eval_block F n s ss)) /\
    (forall cx s st, ctx_ok cx -> st_ok cx s -> check_stmt cx st = true ->
                     out_ok cx s (is_exit st) (unit_ok s) (eval_stmt F n s st)) /\
    (forall cx s c body, ctx_ok cx -> st_ok cx s -> infer cx c = Some TBool ->
                         check_block (in_loop cx) body = true ->
                         out_ok cx s false (unit_ok s) (eval_while F n s c body)) /\
    (forall cx s a b body, ctx_ok cx -> st_ok cx s ->
                           check_block (in_loop (push_local cx (TMI, false))) body = true ->
                           out_ok cx s false (unit_ok s) (eval_for F n s a b body)) /\
    (forall cx s b vs body, ctx_ok cx -> st_ok cx s ->
                            Forall (fun v => type_of F v = ty_of_bty b) vs ->
                            check_block (in_loop (push_local cx (ty_of_bty b, false))) body = true ->
                            out_ok cx s false (unit_ok s) (eval_forin F n s vs body)).

  (* ---------- generic propagation ---------- *)
  Lemma out_ok_bind : forall A B cx s ex ex' (P : state -> A -> Prop) (Q : state -> B -> Prop)
                             (r : res A) (k : state -> A -> res B),
      out_ok cx s ex P r -> (ex = true -> ex' = true) ->
      (forall s' a, P s' a -> out_ok cx s ex' Q (k s' a)) ->
      out_ok cx s ex' Q (bind r k).
  Proof.
    intros A B cx s ex ex' P Q r k Hr Hex Hk. destruct r; simpl in *; auto.
    destruct Hr as (H1 & H2 & H3). auto.
  Qed.

  (* an outcome that is fine relative to an intermediate state is fine relative to the start *)
  Lemma out_ok_shift : forall A cx s s1 ex (P P' : state -> A -> Prop) (r : res A),
      pres s s1 -> out_ok cx s1 ex P r ->
      (forall s' a, P s' a -> P' s' a) ->
      out_ok cx s ex P' r.
  Proof.
    intros A cx s s1 ex P P' r Hp Hr HP. destruct r; simpl in *; auto.
    - destruct Hr; split; auto. eapply pres_trans; eauto.
    - destruct Hr; split; auto. eapply pres_trans; eauto.
    - destruct Hr; split; auto. eapply gpres_trans; [apply pres_gpres; exact Hp | assumption].
    - destruct Hr as (H1 & H2 & H3); split; [assumption | split; [eapply pres_trans; eauto | assumption]].
    - eapply pres_trans; eauto.
  Qed.

  Lemma ctx_ok_with_seq : forall cx o, ctx_ok cx -> ctx_ok (with_seq cx o).
  Proof. intros cx o [H1 H2]; split; assumption. Qed.
  Lemma ctx_ok_in_loop : forall cx, ctx_ok cx -> ctx_ok (in_loop cx).
  Proof. intros cx [H1 H2]; split; assumption. Qed.
  Lemma ctx_ok_push : forall cx d, ctx_ok cx -> ctx_ok (push_local cx d).
  Proof. intros cx d [H1 H2]; split; assumption. Qed.
  Hint Resolve ctx_ok_with_seq ctx_ok_in_loop ctx_ok_push pres_refl : core.

  Lemma st_ok_with_seq : forall cx o s, st_ok cx s -> st_ok (with_seq cx o) s.
  Proof. intros cx o s H; exact H. Qed.
  Lemma st_ok_in_loop : forall cx s, st_ok cx s -> st_ok (in_loop cx) s.
  Proof. intros cx s H; exact H. Qed.

  (* ---------- expressions ---------- *)
  Lemma sound_expr : forall n, sound_at n ->
      forall cx s e t, ctx_ok cx -> st_ok cx s -> infer cx e = Some t ->
                       out_ok cx s false (val_ok t s) (eval_expr F (S n) s e).
  Proof.
    intros n (IHe & IHa & IHc & IHfn & IHl & IHb & IHs & IHw & IHf & IHfi) cx s e t Hcx Hst Hinf.
    destruct e; simpl in Hinf |- *.
    - (* ELit *)
      split; [| apply pres_refl].
      destruct l as [[] z | b | str]; simpl in *.
      + destruct ((0 <=? z)%Z && (z <? two63)%Z)%bool; inversion Hinf; reflexivity.
      + destruct (0 <=? z)%Z; inversion Hinf; reflexivity.
      + inversion Hinf; reflexivity.
      + destruct (str_ok str); inversion Hinf; reflexivity.
    - (* EGlob *)
      destruct (Nat.ltb k (cNG cx)) eqn:Hk; [| discriminate].
      apply Nat.ltb_lt in Hk.
      destruct Hcx as [HG HF]. rewrite HG in Hinf.
      destruct (nth_error G k) as [[t0 m] |] eqn:Hn; [| discriminate]. inversion Hinf; subst.
      destruct Hst as [Hg _]. destruct (Hg k t m Hk Hn) as (v & Hv & Ht).
      rewrite Hv. simpl. split; [assumption | apply pres_refl].
    - (* ELoc *)
      destruct (nth_error (cL cx) k) as [[t0 m] |] eqn:Hn; [| discriminate]. inversion Hinf; subst.
      destruct Hst as [_ Hl]. destruct (vals_typed_nth _ _ _ _ _ Hl Hn) as (v & Hv & Ht).
      rewrite Hv. simpl. split; [assumption | apply pres_refl].
    - (* EPrim *)
      destruct (map_opt (infer cx) args) as [tys |] eqn:Hargs; [| discriminate].
      destruct (tys_eqb tys (fst (prim_sig p)) && ordered_args cx args)%bool eqn:Hc; [| discriminate].
      inversion Hinf; subst. apply andb_prop in Hc as [Hc _]. apply tys_eqb_eq in Hc.
      eapply out_ok_bind; [eapply IHa; eauto | auto |].
      intros s' vs [Hvs Hp]. pose proof (prim_sound p vs) as Hps. rewrite Hvs, Hc in Hps.
      specialize (Hps eq_refl). destruct (prim_eval p vs); simpl; auto. split; auto.
    - (* ECall *)
      destruct (map_opt (infer cx) args) as [tys |] eqn:Hargs; [| discriminate].
      destruct (ordered_args cx args && args_sharable cx args tys)%bool; [| discriminate].
      eapply out_ok_bind; [eapply IHa; eauto | auto |].
      intros s' vs [Hvs Hp]. subst tys.
      assert (Hst' : st_ok cx s') by (eapply st_ok_pres; eauto).
      pose proof (IHc cx s' name vs t Hcx (proj1 Hst') Hinf) as Hcall.
      destruct (eval_call F n s' name vs); simpl; try contradiction; auto.
      + destruct Hcall as (H1 & H2 & H3). split; [assumption |].
        destruct Hp as [Hp1 Hp2]. split; [eapply same_types_trans; eauto | rewrite H3; assumption].
      + destruct Hcall as (H2 & H3).
        destruct Hp as [Hp1 Hp2]. split; [eapply same_types_trans; eauto | rewrite H3; assumption].
    - (* EIf *)
      destruct (infer cx e1) as [[] |] eqn:H1; try discriminate.
      destruct (infer cx e2) as [t2 |] eqn:H2; [| discriminate].
      destruct (infer cx e3) as [t3 |] eqn:H3; [| discriminate].
      destruct (ty_eqb t2 t3) eqn:Heq; [| discriminate]. inversion Hinf; subst.
      apply ty_eqb_eq in Heq; subst.
      eapply out_ok_bind; [eapply IHe; eauto | auto |].
      intros s' v [Hv Hp]. apply bool_value in Hv as [b ->].
      assert (Hst' : st_ok cx s') by (eapply st_ok_pres; eauto).
      destruct b.
      + eapply out_ok_shift; [exact Hp | eapply IHe; eauto |].
        intros s2 a [Ha Hp2]; split; [assumption | eapply pres_trans; eauto].
      + eapply out_ok_shift; [exact Hp | eapply IHe; eauto |].
        intros s2 a [Ha Hp2]; split; [assumption | eapply pres_trans; eauto].
    - (* EAnd *)
      destruct (infer cx e1) as [[] |] eqn:H1; try discriminate.
      destruct (infer cx e2) as [[] |] eqn:H2; try discriminate. inversion Hinf; subst.
      eapply out_ok_bind; [eapply IHe; eauto | auto |].
      intros s' v [Hv Hp]. apply bool_value in Hv as [b ->].
      assert (Hst' : st_ok cx s') by (eapply st_ok_pres; eauto).
      destruct b.
      + eapply out_ok_shift; [exact Hp | eapply IHe; eauto |].
        intros s2 a [Ha Hp2]; split; [assumption | eapply pres_trans; eauto].
      + simpl. split; [reflexivity | assumption].
    - (* EOr *)
      destruct (infer cx e1) as [[] |] eqn:H1; try discriminate.
      destruct (infer cx e2) as [[] |] eqn:H2; try discriminate. inversion Hinf; subst.
      eapply out_ok_bind; [eapply IHe; eauto | auto |].
      intros s' v [Hv Hp]. apply bool_value in Hv as [b ->].
      assert (Hst' : st_ok cx s') by (eapply st_ok_pres; eauto).
      destruct b.
      + simpl. split; [reflexivity | assumption].
      + eapply out_ok_shift; [exact Hp | eapply IHe; eauto |].
        intros s2 a [Ha Hp2]; split; [assumption | eapply pres_trans; eauto].
    - (* ESeq *)
      destruct (infer cx e) as [t0 |] eqn:He; [| discriminate].
      destruct (forallb (check_stmt (with_seq cx (Some t0))) ss) eqn:Hss; [| discriminate].
      inversion Hinf; subst.
      pose proof (IHb (with_seq cx (Some t)) s ss (ctx_ok_with_seq _ _ Hcx) Hst Hss) as Hb.
      destruct (eval_block F n s ss) as [s1 [] | s1 | s1 | s1 v | s1 ov | s1 kx | | |]; simpl in Hb |- *; auto.
      + assert (Hst' : st_ok cx s1) by (eapply st_ok_pres; eauto).
        eapply out_ok_shift; [exact Hb | eapply IHe; eauto |].
        intros s2 a [Ha Hp2]; split; [assumption | eapply pres_trans; eauto].
      + destruct Hb as (_ & Hp & Hov). destruct ov as [v |]; simpl in Hov.
        * inversion Hov; subst. simpl. split; auto.
        * discriminate.
    - (* EMac *)
      destruct (infer cx e) as [t0 |] eqn:He; [| discriminate].
      destruct (ty_eqb t0 (ty_of_nty (mac_nty m)) && negb (eff (cF cx) e))%bool eqn:Hc; [| discriminate].
      inversion Hinf; subst. apply andb_prop in Hc as [Hc _]. apply ty_eqb_eq in Hc.
      eapply out_ok_bind; [eapply IHe; eauto | auto |].
      intros s1 v1 [Hv1 Hp1].
      assert (Hst1 : st_ok cx s1) by (eapply st_ok_pres; eauto).
      eapply out_ok_bind; [eapply out_ok_shift; [exact Hp1 | eapply IHe; eauto | intros ? ? H; exact H] | auto |].
      intros s2 v2 [Hv2 Hp2].
      pose proof (prim_sound (mac_prim m) [v1; v2]) as Hps.
      assert (Hts : map (type_of F) [v1; v2] = fst (prim_sig (mac_prim m))).
      { simpl. rewrite Hv1, Hv2, Hc. destruct m; reflexivity. }
      specialize (Hps Hts). destruct (prim_eval (mac_prim m) [v1; v2]); simpl; auto.
      split; [| eapply pres_trans; eauto].
      rewrite Hps, Hc. destruct m; reflexivity.
    - (* EListLit *)
      destruct (map_opt (infer cx) es) as [tys |] eqn:Hargs; [| discriminate].
      destruct (forallb (fun t0 => ty_eqb t0 (ty_of_bty b)) tys && ordered_args cx es)%bool eqn:Hc; [| discriminate].
      inversion Hinf; subst. apply andb_prop in Hc as [Hc _].
      eapply out_ok_bind; [eapply IHa; eauto | auto |].
      intros s' vs [Hvs Hp].
      assert (Hall : Forall (fun x => type_of F x = ty_of_bty b) vs).
      { subst tys. rewrite forallb_forall in Hc. apply Forall_forall. intros x Hx.
        apply ty_eqb_eq. apply Hc. apply in_map. exact Hx. }
      destruct (enc_list_typed b vs Hall) as (v & -> & Hv). simpl. split; assumption.
    - (* EArrLit *)
      destruct (map_opt (infer cx) es) as [tys |] eqn:Hargs; [| discriminate].
      destruct (forallb (fun t0 => ty_eqb t0 (ty_of_bty b)) tys && ordered_args cx es)%bool eqn:Hc; [| discriminate].
      inversion Hinf; subst. apply andb_prop in Hc as [Hc _].
      eapply out_ok_bind; [eapply IHa; eauto | auto |].
      intros s' vs [Hvs Hp].
      assert (Hall : Forall (fun x => type_of F x = ty_of_bty b) vs).
      { subst tys. rewrite forallb_forall in Hc. apply Forall_forall. intros x Hx.
        apply ty_eqb_eq. apply Hc. apply in_map. exact Hx. }
      destruct (enc_arr_typed b vs Hall) as (v & -> & Hv). simpl. split; assumption.
    - (* ERec *)
      destruct (map_opt (infer cx) es) as [tys |] eqn:Hargs; [| discriminate].
      destruct (tys_eqb tys (map ty_of_bty fs) && ordered_args cx es)%bool eqn:Hc; [| discriminate].
      inversion Hinf; subst. apply andb_prop in Hc as [Hc _]. apply tys_eqb_eq in Hc.
      eapply out_ok_bind; [eapply IHa; eauto | auto |].
      intros s' vs [Hvs Hp]. rewrite Hc in Hvs.
      destruct (to_bvals_typed vs fs Hvs) as (bs & -> & Hbs). simpl.
      split; [simpl; rewrite Hbs; reflexivity | assumption].
    - (* EField *)
      destruct (infer cx e) as [t0 |] eqn:He; [| discriminate].
      destruct t0 as [| | | | | | | | | | fs]; try discriminate.
      destruct (nth_error fs i) as [b |] eqn:Hf; [| discriminate]. inversion Hinf; subst.
      eapply out_ok_bind; [eapply IHe; eauto | auto |].
      intros s' v [Hv Hp]. apply rec_value in Hv as (bs & -> & Hbs).
      rewrite <- Hbs in Hf. rewrite nth_error_map in Hf.
      destruct (nth_error bs i) as [bv |] eqn:Hb; [| discriminate]. simpl in Hf. injection Hf as Hf.
      simpl. split; [| assumption]. rewrite of_bval_typed. congruence.
    - (* EUni *)
      destruct (nth_error fs i) as [b |] eqn:Hf; [| discriminate].
      destruct (opt_ty_eqb (infer cx e) (ty_of_bty b)) eqn:He; [| discriminate].
      apply opt_ty_eqb_eq in He. inversion Hinf; subst.
      eapply out_ok_bind; [eapply IHe; eauto | auto |].
      intros s' v [Hv Hp]. destruct (to_bval_typed v b Hv) as (bv & -> & Hb). simpl.
      split; [simpl; rewrite Hb; f_equal; apply firstn_skipn_nth; assumption | assumption].
    - (* ECase *)
      destruct (infer cx e) as [t0 |] eqn:He; [| discriminate].
      destruct t0 as [| | | | | | | fs | | |]; try discriminate.
      destruct (Nat.ltb i (List.length fs)); [| discriminate]. inversion Hinf; subst.
      eapply out_ok_bind; [eapply IHe; eauto | auto |].
      intros s' v [Hv Hp]. apply uni_value in Hv as (pre & bv & post & -> & _). simpl. split; [reflexivity | assumption].
    - (* EClo *)
      destruct (map_opt (infer cx) caps) as [tys |] eqn:Hargs; [| discriminate].
      destruct (forallb (stable cx) caps && negb (cLoop cx)
                && forallb (fun t0 => match bty_of_ty t0 with Some _ => true | None => false end) tys)%bool eqn:Hc;
        [| discriminate].
      apply andb_prop in Hc as [_ Hbase]. destruct (base_tys tys Hbase) as (bl & ->).
      destruct Hcx as [HG HF]. rewrite HF in Hinf.
      destruct (resolve F name (map ty_of_bty bl ++ map ty_of_bty ps)) as [[j fd] |] eqn:Hres; [| discriminate].
      destruct (Nat.ltb j (cNF cx) && Nat.eqb (fd_nglob fd) 0)%bool eqn:Hc2; [| discriminate].
      apply andb_prop in Hc2 as [_ Hng]. apply Nat.eqb_eq in Hng.
      destruct (bty_of_ty (fd_ret fd)) as [r' |] eqn:Hr; [| discriminate].
      destruct (bty_eqb r r') eqn:Hrr; [| discriminate]. apply bty_eqb_eq in Hrr. subst r'.
      inversion Hinf; subst t.
      eapply out_ok_bind; [eapply IHa; [split; eauto | eauto | eauto] | auto |].
      intros s' vs [Hvs Hp].
      destruct (to_bvals_typed vs bl Hvs) as (bs & -> & Hbs). rewrite Hvs, Hres. simpl.
      split; [| assumption].
      apply resolve_nth in Hres as [Hnth Hparams]. simpl. unfold clo_ty. rewrite Hnth.
      rewrite <- map_app in Hparams. rewrite Hparams, btys_of_tys_map, Hr, Hng.
      assert (Hlen : List.length bs = List.length bl) by (rewrite <- Hbs; symmetry; apply map_length).
      rewrite Hlen, firstn_app, firstn_all, Nat.sub_diag. simpl. rewrite app_nil_r, Hbs, btys_eqb_refl.
      rewrite skipn_app, skipn_all, Nat.sub_diag. simpl.
      rewrite app_length. replace (Nat.leb (List.length bl) (List.length bl + List.length ps)) with true
        by (symmetry; apply Nat.leb_le; lia). reflexivity.
    - (* EApp *)
      destruct (infer cx e) as [tf |] eqn:Hf; [| discriminate].
      destruct tf as [| | | | | | | | ps r | |]; try discriminate.
      destruct (map_opt (infer cx) args) as [tys |] eqn:Hargs; [| discriminate].
      destruct (tys_eqb tys (map ty_of_bty ps) && ordered_args cx (e :: args) && negb (cPure cx))%bool eqn:Hc;
        [| discriminate].
      inversion Hinf; subst t. apply andb_prop in Hc as [Hc _]. apply andb_prop in Hc as [Hc _].
      apply tys_eqb_eq in Hc. subst tys.
      eapply out_ok_bind; [eapply IHe; eauto | auto |].
      intros s1 vf [Hvf Hp1].
      assert (Hst1 : st_ok cx s1) by (eapply st_ok_pres; eauto).
      eapply out_ok_bind; [eapply out_ok_shift; [exact Hp1 | eapply IHa; eauto | intros ? ? H; exact H] | auto |].
      intros s2 vs [Hvs Hp2].
      destruct (clo_value vf ps r Hvf) as (j & env & ->). simpl in Hvf. unfold clo_ty in Hvf.
      destruct (nth_error F j) as [fd |] eqn:Hnth; [| discriminate].
      destruct (btys_of_tys (fd_params fd)) as [bs |] eqn:Hbs; [| discriminate].
      destruct (bty_of_ty (fd_ret fd)) as [r0 |] eqn:Hr; [| discriminate].
      destruct (Nat.eqb (fd_nglob fd) 0 && btys_eqb (firstn (List.length env) bs) (map btype_of env)
                && Nat.leb (List.length env) (List.length bs))%bool eqn:Hc2; [| discriminate].
      injection Hvf as Hps Hr0. subst r0.
      apply andb_prop in Hc2 as [Hc2 _]. apply andb_prop in Hc2 as [Hng Henv].
      apply Nat.eqb_eq in Hng. apply btys_eqb_eq in Henv.
      assert (Hpar : map (type_of F) (map of_bval env ++ vs) = fd_params fd).
      { rewrite map_app, of_bvals_typed, Hvs, <- Henv, <- Hps, <- map_app, firstn_skipn.
        symmetry. apply btys_of_tys_inv. assumption. }
      assert (Hg0 : g_ok (fd_nglob fd) (sg s2)) by (rewrite Hng; intros k t0 m Hk; inversion Hk).
      pose proof (IHfn s2 j fd (map of_bval env ++ vs) Hnth Hg0 Hpar) as Hcall.
      destruct (eval_fun F n s2 fd (map of_bval env ++ vs)); simpl; try contradiction; auto.
      + destruct Hcall as (H1 & H2 & H3). split; [rewrite H1; apply bty_of_ty_inv; assumption |].
        destruct Hp1 as [A1 B1]. destruct Hp2 as [A2 B2]. split.
        * eapply same_types_trans; [exact A1 |]. eapply same_types_trans; eauto.
        * rewrite H3. eapply same_types_trans; eauto.
      + destruct Hcall as (H2 & H3).
        destruct Hp1 as [A1 B1]. destruct Hp2 as [A2 B2]. split.
        * eapply same_types_trans; [exact A1 |]. eapply same_types_trans; eauto.
        * rewrite H3. eapply same_types_trans; eauto.
    - (* EUGet *)
      destruct (infer cx e) as [t0 |] eqn:He; [| discriminate].
      destruct t0 as [| | | | | | | fs | | |]; try discriminate.
      destruct (nth_error fs i) as [b |] eqn:Hf; [| discriminate]. inversion Hinf; subst.
      eapply out_ok_bind; [eapply IHe; eauto | auto |].
      intros s' v [Hv Hp]. apply uni_value in Hv as (pre & bv & post & -> & Hfs). simpl.
      destruct (Nat.eqb (List.length pre) i) eqn:Hi; [| exact I].
      apply Nat.eqb_eq in Hi. subst i fs. rewrite nth_error_app2 in Hf by lia.
      rewrite Nat.sub_diag in Hf. simpl in Hf. injection Hf as Hf.
      simpl. split; [| assumption]. rewrite of_bval_typed. congruence.
  Qed.

  Lemma sound_args : forall n, sound_at n ->
      forall cx s es ts, ctx_ok cx -> st_ok cx s -> map_opt (infer cx) es = Some ts ->
                         out_ok cx s false (vals_ok ts s) (eval_args F (S n) s es).
  Proof.
    intros n (IHe & IHa & _) cx s es ts Hcx Hst Hm.
    destruct es as [| e es]; simpl.
    - simpl in Hm. inversion Hm; subst. split; [reflexivity | apply pres_refl].
    - apply map_opt_cons in Hm as (t & ts' & He & Hes & Hts). subst.
      eapply out_ok_bind; [eapply IHe; eauto | auto |].
      intros s1 v [Hv Hp1].
      assert (Hst1 : st_ok cx s1) by (eapply st_ok_pres; eauto).
      eapply out_ok_bind; [eapply out_ok_shift; [exact Hp1 | eapply IHa; eauto | intros ? ? H; exact H] | auto |].
      intros s2 vs [Hvs Hp2]. simpl. split.
      + simpl. congruence.
      + eapply pres_trans; eauto.
  Qed.

  (* ---------- calls ---------- *)
  Lemma vals_typed_params : forall vs ps,
      map (type_of F) vs = ps -> vals_typed vs (map (fun t => (t, false)) ps).
  Proof.
    induction vs as [| v vs IH]; intros ps H; destruct ps; simpl in *; try discriminate; constructor.
    - simpl. congruence.
    - apply IH. congruence.
  Qed.

  Lemma sound_call : forall n, sound_at n ->
      forall cx s name vs t, ctx_ok cx -> g_ok (cNG cx) (sg s) ->
                             check_call cx name (map (type_of F) vs) = Some t ->
                             match eval_call F (S n) s name vs with
                             | RVal s' v => type_of F v = t /\ gpres s s' /\ sl s' = sl s
                             | RThrow s' _ => gpres s s' /\ sl s' = sl s
                             | RUndef | RFuel => True
                             | _ => False
                             end.
  Proof.
    intros n (IHe & IHa & IHc & IHfn & IHl & IHb & IHs & IHw & IHf & IHfi) cx s name vs t Hcx Hg Hcall.
    unfold check_call in Hcall. destruct Hcx as [HG HF]. rewrite HF in Hcall.
    simpl. destruct (resolve F name (map (type_of F) vs)) as [[j fd] |] eqn:Hres; [| discriminate].
    destruct (Nat.ltb j (cNF cx) && Nat.leb (fd_nglob fd) (cNG cx) && (negb (cPure cx) || fd_pure fd))%bool eqn:Hc;
      [| discriminate].
    inversion Hcall; subst t.
    apply andb_prop in Hc as [Hc _]. apply andb_prop in Hc as [_ Hng]. apply Nat.leb_le in Hng.
    apply resolve_nth in Hres as [Hnth Hparams].
    apply (IHfn s j fd vs Hnth); [eapply g_ok_le; eauto | symmetry; assumption].
  Qed.

  Lemma sound_fun : forall n, sound_at n ->
      forall s j fd vs, nth_error F j = Some fd -> g_ok (fd_nglob fd) (sg s) ->
                        map (type_of F) vs = fd_params fd ->
                        match eval_fun F (S n) s fd vs with
                        | RVal s' v => type_of F v = fd_ret fd /\ gpres s s' /\ sl s' = sl s
                        | RThrow s' _ => gpres s s' /\ sl s' = sl s
                        | RUndef | RFuel => True
                        | _ => False
                        end.
  Proof.
    intros n (IHe & IHa & IHc & IHfn & IHl & IHb & IHs & IHw & IHf & IHfi) s j fd vs Hnth Hg Hparams.
    simpl.
    pose proof (Hfuns j fd Hnth) as Hcf. unfold check_fun in Hcf.
    destruct (check_locals (fun_ctx G F j fd) (fd_locals fd)) as [cx1 |] eqn:Hlocs; [| discriminate].
    apply andb_prop in Hcf as [Hcf _].
    apply andb_prop in Hcf as [Hbody Hresult]. apply opt_ty_eqb_eq in Hresult.
    set (cx0 := fun_ctx G F j fd) in *.
    assert (Hcx0 : ctx_ok cx0) by (split; reflexivity).
    set (s0 := with_frame s vs).
    assert (Hst0 : st_ok cx0 s0).
    { split; simpl.
      - exact Hg.
      - apply vals_typed_params. assumption. }
    pose proof (IHl cx0 cx1 s0 (fd_locals fd) Hcx0 Hst0 Hlocs) as Hl.
    (* facts about cx1: same G, F, ret, loop, seq as cx0 *)
    assert (Hcx1 : ctx_ok cx1 /\ cRet cx1 = Some (fd_ret fd) /\ cLoop cx1 = false /\ cSeq cx1 = None).
    { clear Hl Hbody Hresult.
      assert (Hgen : forall ls c c', check_locals c ls = Some c' ->
                                     ctx_ok c /\ cRet c = Some (fd_ret fd) /\ cLoop c = false /\ cSeq c = None ->
                                     ctx_ok c' /\ cRet c' = Some (fd_ret fd) /\ cLoop c' = false /\ cSeq c' = None).
      { induction ls as [| [t0 e0] ls IH]; simpl; intros c c' Hcl Hc0.
        - inversion Hcl; subst; assumption.
        - destruct (opt_ty_eqb (infer c e0) t0 && store_ok t0 e0)%bool; [| discriminate].
          eapply IH; [exact Hcl |]. destruct Hc0 as ((A & B) & C & D & E). repeat split; assumption. }
      eapply Hgen; [exact Hlocs |]. repeat split; reflexivity. }
    destruct Hcx1 as (Hcx1 & Hret1 & Hloop1 & Hseq1).
    destruct (eval_locals F n s0 (fd_locals fd)) as [s1 [] | s1 | s1 | s1 v | s1 ov | s1 kx | | |] eqn:El; simpl in Hl; auto.
    - (* locals done *)
      destruct Hl as [Hst1 Hg1].
      pose proof (IHb (with_seq cx1 (Some (fd_ret fd))) s1 (fd_body fd)
                      (ctx_ok_with_seq _ _ Hcx1) Hst1 Hbody) as Hb.
      destruct (eval_block F n s1 (fd_body fd)) as [s2 [] | s2 | s2 | s2 v | s2 ov | s2 kx | | |] eqn:Eb; simpl in Hb; auto.
      + (* body fell through: result expression *)
        assert (Hst2 : st_ok cx1 s2) by (eapply st_ok_pres; eauto).
        pose proof (IHe cx1 s2 (fd_result fd) (fd_ret fd) Hcx1 Hst2 Hresult) as Hr.
        destruct (eval_expr F n s2 (fd_result fd)) as [s3 v | s3 | s3 | s3 v | s3 ov | s3 kx | | |]; simpl in Hr; auto.
        * destruct Hr as [Hv Hp3]. simpl. repeat split; auto.
          unfold gpres in *. simpl.
          eapply same_types_trans; [exact Hg1 |]. eapply same_types_trans; [apply (proj1 Hb) | apply (proj1 Hp3)].
        * destruct Hr as [Hr _]. congruence.
        * destruct Hr as [Hr _]. congruence.
        * destruct Hr as [Hr Hg3]. rewrite Hret1 in Hr. inversion Hr. simpl. repeat split; auto.
          unfold gpres in *. simpl.
          eapply same_types_trans; [exact Hg1 |]. eapply same_types_trans; [apply (proj1 Hb) | exact Hg3].
        * destruct Hr as [Hr _]. discriminate.
        * simpl. split; [| reflexivity]. unfold gpres in *. simpl.
          eapply same_types_trans; [exact Hg1 |]. eapply same_types_trans; [apply (proj1 Hb) | apply (proj1 Hr)].
      + destruct Hb as [Hb _]. simpl in Hb. congruence.
      + destruct Hb as [Hb _]. simpl in Hb. congruence.
      + destruct Hb as [Hr Hg2]. simpl in Hr. rewrite Hret1 in Hr. inversion Hr. simpl. repeat split; auto.
        unfold gpres in *. simpl. eapply same_types_trans; eauto.
      + destruct Hb as (_ & Hp2 & Hov). destruct ov as [v |]; simpl in Hov.
        * inversion Hov. simpl. repeat split; auto.
          unfold gpres in *. simpl. eapply same_types_trans; [exact Hg1 | apply (proj1 Hp2)].
        * discriminate.
      + simpl. split; [| reflexivity]. unfold gpres in *. simpl.
        eapply same_types_trans; [exact Hg1 | apply (proj1 Hb)].
    - simpl in Hl. discriminate.
    - simpl in Hl. discriminate.
    - destruct Hl as [Hr Hg1]. simpl in Hr. inversion Hr. simpl. repeat split; auto.
  Qed.

  Lemma sound_locals : forall n, sound_at n ->
      forall cx cx' s ls, ctx_ok cx -> st_ok cx s -> check_locals cx ls = Some cx' ->
                          locals_ok cx cx' s (eval_locals F (S n) s ls).
  Proof.
    intros n (IHe & IHa & IHc & IHfn & IHl & _) cx cx' s ls Hcx Hst Hcl.
    destruct ls as [| [t e] ls]; simpl in *.
    - inversion Hcl; subst. split; [assumption | apply same_types_refl].
    - destruct (opt_ty_eqb (infer cx e) t && store_ok t e)%bool eqn:He; [| discriminate].
      apply andb_prop in He as [He _]. apply opt_ty_eqb_eq in He.
      pose proof (IHe cx s e t Hcx Hst He) as H1.
      destruct (eval_expr F n s e) as [s1 v | s1 | s1 | s1 v | s1 ov | s1 kx | | |]; simpl in H1 |- *; auto.
      + destruct H1 as [Hv Hp1].
        assert (Hst1 : st_ok cx s1) by (eapply st_ok_pres; eauto).
        set (s1' := with_frame s1 (sl s1 ++ [v])).
        assert (Hst1' : st_ok (push_local cx (t, true)) s1').
        { destruct Hst1 as [A B]. split; simpl; [assumption |].
          apply Forall2_app; [assumption |]. constructor; [simpl; assumption | constructor]. }
        pose proof (IHl (push_local cx (t, true)) cx' s1' ls (ctx_ok_push _ _ Hcx) Hst1' Hcl) as Hl.
        destruct (eval_locals F n s1' ls) as [s2 [] | s2 | s2 | s2 v2 | s2 ov | s2 kx | | |]; simpl in Hl |- *; auto.
        * destruct Hl as [A B]. split; [assumption |]. unfold gpres in *. simpl in B.
          eapply same_types_trans; [apply (proj1 Hp1) | exact B].
        * destruct Hl as [A B]. split; [assumption |]. unfold gpres in *. simpl in B.
          eapply same_types_trans; [apply (proj1 Hp1) | exact B].
        * unfold gpres in *. simpl in Hl. eapply same_types_trans; [apply (proj1 Hp1) | exact Hl].
      + destruct H1; assumption.
      + destruct H1; assumption.
      + destruct H1 as (H1 & _). discriminate.
      + apply pres_gpres; assumption.
  Qed.

  (* ---------- statements ---------- *)
  Lemma out_ok_weaken : forall A cx s ex (P : state -> A -> Prop) r,
      out_ok cx s ex P r -> out_ok cx s true P r.
  Proof. intros A cx s ex P r H. destruct r; simpl in *; auto. destruct H as (_ & H2 & H3). auto. Qed.

  Lemma sound_block : forall n, sound_at n ->
      forall cx s ss, ctx_ok cx -> st_ok cx s -> check_block cx ss = true ->
                      out_ok cx s true (unit_ok s) (eval_block F (S n) s ss).
  Proof.
    intros n (IHe & IHa & IHc & IHfn & IHl & IHb & IHs & IHw & IHf & IHfi) cx s ss Hcx Hst Hck.
    destruct ss as [| st r]; simpl.
    - apply pres_refl.
    - unfold check_block in Hck. simpl in Hck. apply andb_prop in Hck as [H1 H2].
      eapply out_ok_bind; [eapply out_ok_weaken; eapply IHs; eauto | auto |].
      intros s1 [] Hp1. unfold unit_ok in Hp1.
      assert (Hst1 : st_ok cx s1) by (eapply st_ok_pres; eauto).
      eapply out_ok_shift; [exact Hp1 | eapply IHb; eauto |].
      intros s2 [] Hp2. unfold unit_ok in *. eapply pres_trans; eauto.
  Qed.

  (* a braces block in a non-value context, seen from the enclosing statement *)
  Lemma end_block_ok : forall cx s r,
      out_ok (with_seq cx None) s true (unit_ok s) r ->
      out_ok cx s false (unit_ok s) (end_block r).
  Proof.
    intros cx s r H. destruct r as [s1 [] | s1 | s1 | s1 v | s1 ov | s1 kx | | |]; simpl in *; auto.
    destruct H as (_ & Hp & Hov). destruct ov; simpl in *; [discriminate | exact Hp].
  Qed.

  Lemma sound_stmt : forall n, sound_at n ->
      forall cx s st, ctx_ok cx -> st_ok cx s -> check_stmt cx st = true ->
                      out_ok cx s (is_exit st) (unit_ok s) (eval_stmt F (S n) s st).
  Proof.
    intros n (IHe & IHa & IHc & IHfn & IHl & IHb & IHs & IHw & IHf & IHfi) cx s st Hcx Hst Hck.
    destruct st; simpl in Hck |- *.
    - (* SAssG *)
      apply andb_prop in Hck as [Hck H3]. apply andb_prop in Hck as [_ H2].
      apply Nat.ltb_lt in H2.
      destruct (nth_error (cG cx) k) as [[t m] |] eqn:Hn; [| discriminate].
      destruct m; [| discriminate]. apply andb_prop in H3 as [H3 _]. apply opt_ty_eqb_eq in H3.
      eapply out_ok_bind; [eapply IHe; eauto | auto |].
      intros s1 v [Hv Hp1].
      assert (Hst1 : st_ok cx s1) by (eapply st_ok_pres; eauto).
      destruct Hcx as [HG HF]. rewrite HG in Hn.
      destruct (proj1 Hst1 k t true H2 Hn) as (v0 & Hv0 & Ht0).
      destruct (set_nth_same (sg s1) k v v0 Hv0) as (g' & Hset & Hsame); [congruence |].
      rewrite Hset. simpl. unfold unit_ok. destruct Hp1 as [A B]. split; simpl.
      + eapply same_types_trans; eauto.
      + assumption.
    - (* SAssL *)
      destruct (nth_error (cL cx) k) as [[t m] |] eqn:Hn; [| discriminate].
      destruct m; [| discriminate]. apply andb_prop in Hck as [Hck _]. apply opt_ty_eqb_eq in Hck.
      eapply out_ok_bind; [eapply IHe; eauto | auto |].
      intros s1 v [Hv Hp1].
      assert (Hst1 : st_ok cx s1) by (eapply st_ok_pres; eauto).
      destruct (vals_typed_nth _ _ _ _ _ (proj2 Hst1) Hn) as (v0 & Hv0 & Ht0).
      destruct (set_nth_same (sl s1) k v v0 Hv0) as (l' & Hset & Hsame); [congruence |].
      rewrite Hset. simpl. unfold unit_ok. destruct Hp1 as [A B]. split; simpl.
      + assumption.
      + eapply same_types_trans; eauto.
    - (* SSetG *)
      apply andb_prop in Hck as [Hck H3]. apply andb_prop in Hck as [_ H2].
      apply Nat.ltb_lt in H2.
      destruct (nth_error (cG cx) k) as [[t m] |] eqn:Hn; [| discriminate].
      destruct t as [| | | | | | | | | | fs]; try discriminate. destruct m; [| discriminate].
      destruct (nth_error fs i) as [b |] eqn:Hf; [| discriminate]. apply opt_ty_eqb_eq in H3.
      eapply out_ok_bind; [eapply IHe; eauto | auto |].
      intros s1 v [Hv Hp1].
      assert (Hst1 : st_ok cx s1) by (eapply st_ok_pres; eauto).
      destruct Hcx as [HG HF]. rewrite HG in Hn.
      destruct (proj1 Hst1 k (TRec fs) true H2 Hn) as (v0 & Hv0 & Ht0).
      apply rec_value in Ht0 as (bs & -> & Hbs).
      destruct (to_bval_typed v b Hv) as (bv & Hbv & Hbt).
      rewrite Hv0, Hbv. rewrite <- Hbs in Hf.
      destruct (set_nth_btypes bs i bv b Hf Hbt) as (bs' & Hs1 & Hs2). rewrite Hs1.
      destruct (set_nth_same (sg s1) k (VRec bs') (VRec bs) Hv0) as (g' & Hset & Hsame); [simpl; congruence |].
      rewrite Hset. simpl. unfold unit_ok. destruct Hp1 as [A B]. split; simpl.
      + eapply same_types_trans; eauto.
      + assumption.
    - (* SSetL *)
      apply andb_prop in Hck as [_ Hck].
      destruct (nth_error (cL cx) k) as [[t m] |] eqn:Hn; [| discriminate].
      destruct t as [| | | | | | | | | | fs]; try discriminate. destruct m; [| discriminate].
      destruct (nth_error fs i) as [b |] eqn:Hf; [| discriminate]. apply opt_ty_eqb_eq in Hck.
      eapply out_ok_bind; [eapply IHe; eauto | auto |].
      intros s1 v [Hv Hp1].
      assert (Hst1 : st_ok cx s1) by (eapply st_ok_pres; eauto).
      destruct (vals_typed_nth _ _ _ _ _ (proj2 Hst1) Hn) as (v0 & Hv0 & Ht0).
      apply rec_value in Ht0 as (bs & -> & Hbs).
      destruct (to_bval_typed v b Hv) as (bv & Hbv & Hbt).
      rewrite Hv0, Hbv. rewrite <- Hbs in Hf.
      destruct (set_nth_btypes bs i bv b Hf Hbt) as (bs' & Hs1 & Hs2). rewrite Hs1.
      destruct (set_nth_same (sl s1) k (VRec bs') (VRec bs) Hv0) as (l' & Hset & Hsame); [simpl; congruence |].
      rewrite Hset. simpl. unfold unit_ok. destruct Hp1 as [A B]. split; simpl.
      + assumption.
      + eapply same_types_trans; eauto.
    - (* SSetIG *)
      apply andb_prop in Hck as [Hck H6]. apply andb_prop in Hck as [Hck H5].
      apply andb_prop in Hck as [_ H4]. apply Nat.ltb_lt in H4. apply opt_ty_eqb_eq in H5.
      destruct (nth_error (cG cx) k) as [[t m] |] eqn:Hn; [| discriminate].
      destruct t as [| | | | | | b | | | |]; try discriminate. destruct m; [| discriminate].
      apply opt_ty_eqb_eq in H6.
      eapply out_ok_bind; [eapply IHe; eauto | auto |].
      intros s1 vi [Hvi Hp1]. apply mi_value in Hvi as [z ->].
      assert (Hst1 : st_ok cx s1) by (eapply st_ok_pres; eauto).
      eapply out_ok_bind; [eapply out_ok_shift; [exact Hp1 | eapply IHe; eauto | intros ? ? H; exact H] | auto |].
      intros s2 v [Hv Hp2].
      assert (Hst2 : st_ok cx s2) by (eapply st_ok_pres; eauto).
      destruct Hcx as [HG HF]. rewrite HG in Hn.
      destruct (proj1 Hst2 k (TArr b) true H4 Hn) as (a & Ha & Hta). rewrite Ha.
      destruct (arr_set_typed a z v b Hta Hv) as [-> | (a' & -> & Hta')]; [exact I |].
      destruct (set_nth_same (sg s2) k a' a Ha) as (g' & Hset & Hsame); [congruence |].
      rewrite Hset. simpl. unfold unit_ok. destruct Hp1 as [A B]. destruct Hp2 as [A2 B2]. split; simpl.
      + eapply same_types_trans; [exact A |]. eapply same_types_trans; eauto.
      + eapply same_types_trans; eauto.
    - (* SSetIL *)
      apply andb_prop in Hck as [Hck H6]. apply andb_prop in Hck as [_ H5]. apply opt_ty_eqb_eq in H5.
      destruct (nth_error (cL cx) k) as [[t m] |] eqn:Hn; [| discriminate].
      destruct t as [| | | | | | b | | | |]; try discriminate. destruct m; [| discriminate].
      apply opt_ty_eqb_eq in H6.
      eapply out_ok_bind; [eapply IHe; eauto | auto |].
      intros s1 vi [Hvi Hp1]. apply mi_value in Hvi as [z ->].
      assert (Hst1 : st_ok cx s1) by (eapply st_ok_pres; eauto).
      eapply out_ok_bind; [eapply out_ok_shift; [exact Hp1 | eapply IHe; eauto | intros ? ? H; exact H] | auto |].
      intros s2 v [Hv Hp2].
      assert (Hst2 : st_ok cx s2) by (eapply st_ok_pres; eauto).
      destruct (vals_typed_nth _ _ _ _ _ (proj2 Hst2) Hn) as (a & Ha & Hta). rewrite Ha.
      destruct (arr_set_typed a z v b Hta Hv) as [-> | (a' & -> & Hta')]; [exact I |].
      destruct (set_nth_same (sl s2) k a' a Ha) as (l' & Hset & Hsame); [congruence |].
      rewrite Hset. simpl. unfold unit_ok. destruct Hp1 as [A B]. destruct Hp2 as [A2 B2]. split; simpl.
      + eapply same_types_trans; eauto.
      + eapply same_types_trans; [exact B |]. eapply same_types_trans; eauto.
    - (* SPrint *)
      apply andb_prop in Hck as [Hck _]. apply andb_prop in Hck as [_ H2].
      destruct (map_opt (infer cx) es) as [ts |] eqn:Hes; [| discriminate].
      eapply out_ok_bind; [eapply IHa; eauto | auto |].
      intros s1 vs [_ Hp1]. simpl. exact Hp1.
    - (* SIf *)
      apply andb_prop in Hck as [Hck H3]. apply andb_prop in Hck as [H1 H2].
      apply opt_ty_eqb_eq in H1.
      eapply out_ok_bind; [eapply IHe; eauto | auto |].
      intros s1 v [Hv Hp1]. apply bool_value in Hv as [bv ->].
      assert (Hst1 : st_ok cx s1) by (eapply st_ok_pres; eauto).
      destruct bv.
      + eapply out_ok_shift; [exact Hp1 | apply end_block_ok; eapply IHb; eauto |].
        intros s2 [] Hp2. unfold unit_ok in *. eapply pres_trans; eauto.
      + eapply out_ok_shift; [exact Hp1 | apply end_block_ok; eapply IHb; eauto |].
        intros s2 [] Hp2. unfold unit_ok in *. eapply pres_trans; eauto.
    - (* SWhile *)
      apply andb_prop in Hck as [H1 H2]. apply opt_ty_eqb_eq in H1.
      eapply IHw; eauto.
    - (* SFor *)
      apply andb_prop in Hck as [Hck H4]. apply andb_prop in Hck as [Hck _].
      apply andb_prop in Hck as [H1 H2].
      apply opt_ty_eqb_eq in H1. apply opt_ty_eqb_eq in H2.
      eapply out_ok_bind; [eapply IHe; eauto | auto |].
      intros s1 v1 [Hv1 Hp1]. apply mi_value in Hv1 as [z1 ->].
      assert (Hst1 : st_ok cx s1) by (eapply st_ok_pres; eauto).
      eapply out_ok_bind; [eapply out_ok_shift; [exact Hp1 | eapply IHe; eauto | intros ? ? H; exact H] | auto |].
      intros s2 v2 [Hv2 Hp2]. apply mi_value in Hv2 as [z2 ->].
      assert (Hst2 : st_ok cx s2) by (eapply st_ok_pres; eauto).
      eapply out_ok_shift; [eapply pres_trans; eauto | eapply IHf; eauto |].
      intros s3 [] Hp3. unfold unit_ok in *. eapply pres_trans; [eapply pres_trans; eauto | exact Hp3].
    - (* SForIn *)
      apply andb_prop in Hck as [H1 H2].
      assert (H1' : exists tl, infer cx l = Some tl /\ (tl = TList b \/ tl = TArr b)).
      { apply orb_prop in H1 as [H1 | H1]; apply opt_ty_eqb_eq in H1; eauto. }
      destruct H1' as (tl & H1' & Htl).
      eapply out_ok_bind; [eapply IHe; eauto | auto |].
      intros s1 vl [Hvl Hp1].
      assert (Hvl' : type_of F vl = TList b \/ type_of F vl = TArr b) by (destruct Htl; subst; auto).
      destruct (dec_list_typed vl b Hvl') as (vs & -> & Hall).
      assert (Hst1 : st_ok cx s1) by (eapply st_ok_pres; eauto).
      eapply out_ok_shift; [exact Hp1 | eapply IHfi; eauto |].
      intros s3 [] Hp3. unfold unit_ok in *. eapply pres_trans; eauto.
    - (* SBreak *) split; [assumption | apply pres_refl].
    - (* SIterate *) split; [assumption | apply pres_refl].
    - (* SReturn *)
      destruct (cRet cx) as [t |] eqn:Hr; [| discriminate].
      apply andb_prop in Hck as [Hck _]. apply opt_ty_eqb_eq in Hck.
      eapply out_ok_bind; [eapply IHe; eauto | auto |].
      intros s1 v [Hv Hp1]. simpl. split; [congruence | apply pres_gpres; assumption].
    - (* SExit *)
      apply andb_prop in Hck as [Hck H4]. apply andb_prop in Hck as [Hck H3].
      apply andb_prop in Hck as [H1 H2]. apply opt_ty_eqb_eq in H2.
      apply negb_true_iff in H3.
      destruct (cSeq cx) eqn:Hseq; [discriminate |].
      eapply out_ok_bind; [eapply IHe; eauto | intros; reflexivity |].
      intros s1 v [Hv Hp1]. apply bool_value in Hv as [bv ->].
      assert (Hst1 : st_ok cx s1) by (eapply st_ok_pres; eauto).
      destruct bv; [| exact Hp1].
      pose proof (IHs cx s1 st Hcx Hst1 H4) as Hs. rewrite H3 in Hs.
      eapply out_ok_bind; [eapply out_ok_shift; [exact Hp1 | exact Hs | intros ? ? H; exact H] | intros; reflexivity |].
      intros s2 [] Hp2. simpl. split; [reflexivity | split; [eapply pres_trans; eauto | assumption]].
    - (* SExitV *)
      destruct (cSeq cx) as [t |] eqn:Hseq; [| discriminate].
      apply andb_prop in Hck as [Hck _].
      apply andb_prop in Hck as [H1 H2]. apply opt_ty_eqb_eq in H1. apply opt_ty_eqb_eq in H2.
      eapply out_ok_bind; [eapply IHe; eauto | intros; reflexivity |].
      intros s1 v [Hv Hp1]. apply bool_value in Hv as [bv ->].
      assert (Hst1 : st_ok cx s1) by (eapply st_ok_pres; eauto).
      destruct bv; [| exact Hp1].
      eapply out_ok_bind; [eapply out_ok_shift; [exact Hp1 | eapply IHe; eauto | intros ? ? H; exact H] | intros; reflexivity |].
      intros s2 v2 [Hv2 Hp2]. simpl. split; [reflexivity | split; [eapply pres_trans; eauto | congruence]].
    - (* SCall *)
      destruct (map_opt (infer cx) args) as [tys |] eqn:Hargs; [| discriminate].
      apply andb_prop in Hck as [_ Hck].
      destruct (check_call cx name tys) as [t |] eqn:Hcc; [| discriminate].
      eapply out_ok_bind; [eapply IHa; eauto | auto |].
      intros s1 vs [Hvs Hp]. subst tys.
      assert (Hst1 : st_ok cx s1) by (eapply st_ok_pres; eauto).
      pose proof (IHc cx s1 name vs t Hcx (proj1 Hst1) Hcc) as Hcall.
      destruct (eval_call F n s1 name vs); simpl; try contradiction; auto.
      + destruct Hcall as (H1 & H2 & H3). unfold unit_ok.
        destruct Hp as [Hp1 Hp2]. split; [eapply same_types_trans; eauto | rewrite H3; assumption].
      + destruct Hcall as (H2 & H3).
        destruct Hp as [Hp1 Hp2]. split; [eapply same_types_trans; eauto | rewrite H3; assumption].
    - (* SError *)
      apply andb_prop in Hck as [_ H2]. apply opt_ty_eqb_eq in H2.
      eapply out_ok_bind; [eapply IHe; eauto | auto |].
      intros s1 v [_ Hp1]. simpl. exact Hp1.
    - (* SNever *) apply pres_refl.
    - (* SThrow *) apply pres_refl.
    - (* STry *)
      apply andb_prop in Hck as [Hck H3]. apply andb_prop in Hck as [_ H2].
      pose proof (end_block_ok cx s _ (IHb (with_seq cx None) s body (ctx_ok_with_seq _ _ Hcx) Hst H2)) as Hb.
      destruct (end_block (eval_block F n s body)) as [s1 [] | s1 | s1 | s1 v | s1 ov | s1 kx | | |];
        simpl in Hb |- *; auto.
      destruct (find_handler kx hs) as [h |] eqn:Hf; [| exact Hb].
      assert (Hh : check_block (with_seq cx None) h = true).
      { clear - Hf H3. induction hs as [| [j h0] hs IH]; simpl in *; [discriminate |].
        apply andb_prop in H3 as [Ha Hb]. apply andb_prop in Ha as [_ Ha].
        destruct (Nat.eqb kx (S j)); [inversion Hf; subst; exact Ha | apply IH; assumption]. }
      assert (Hst1 : st_ok cx s1) by (eapply st_ok_pres; eauto).
      eapply out_ok_shift; [exact Hb | apply end_block_ok; eapply IHb; eauto |].
      intros s2 [] Hp2. unfold unit_ok in *. eapply pres_trans; eauto.
  Qed.

  Lemma sound_while : forall n, sound_at n ->
      forall cx s c body, ctx_ok cx -> st_ok cx s -> infer cx c = Some TBool ->
                          check_block (in_loop cx) body = true ->
                          out_ok cx s false (unit_ok s) (eval_while F (S n) s c body).
  Proof.
    intros n (IHe & IHa & IHc & IHfn & IHl & IHb & IHs & IHw & IHf & IHfi) cx s c body Hcx Hst Hc Hb.
    simpl.
    eapply out_ok_bind; [eapply IHe; eauto | auto |].
    intros s1 v [Hv Hp1]. apply bool_value in Hv as [bv ->].
    assert (Hst1 : st_ok cx s1) by (eapply st_ok_pres; eauto).
    destruct bv; [| exact Hp1].
    pose proof (IHb (in_loop cx) s1 body (ctx_ok_in_loop _ Hcx) Hst1 Hb) as Hbody.
    assert (Hnext : forall s2, pres s1 s2 -> out_ok cx s false (unit_ok s) (eval_while F n s2 c body)).
    { intros s2 Hp2.
      assert (Hst2 : st_ok cx s2) by (eapply st_ok_pres; eauto).
      eapply out_ok_shift; [eapply pres_trans; eauto | eapply IHw; eauto |].
      intros s3 [] Hp3. unfold unit_ok in *. eapply pres_trans; [eapply pres_trans; eauto | exact Hp3]. }
    destruct (eval_block F n s1 body) as [s2 [] | s2 | s2 | s2 v | s2 ov | s2 kx | | |]; simpl in Hbody |- *; auto.
    - destruct Hbody as [_ Hp2]. unfold unit_ok. eapply pres_trans; eauto.
    - destruct Hbody as [_ Hp2]. apply Hnext; assumption.
    - destruct Hbody as [Hr Hg]. split; [exact Hr |].
      eapply gpres_trans; [apply pres_gpres; exact Hp1 | exact Hg].
    - destruct Hbody as (_ & Hp2 & Hov). destruct ov; simpl in *; [discriminate |].
      apply Hnext; assumption.
    - eapply pres_trans; eauto.
  Qed.

  Lemma sound_for : forall n, sound_at n ->
      forall cx s a b body, ctx_ok cx -> st_ok cx s ->
                            check_block (in_loop (push_local cx (TMI, false))) body = true ->
                            out_ok cx s false (unit_ok s) (eval_for F (S n) s a b body).
  Proof.
    intros n (IHe & IHa & IHc & IHfn & IHl & IHb & IHs & IHw & IHf & IHfi) cx s a b body Hcx Hst Hb.
    simpl. destruct (a <=? b)%Z; [| apply pres_refl].
    set (cx' := in_loop (push_local cx (TMI, false))) in *.
    set (s0 := with_frame s (sl s ++ [VNum NMI a])).
    assert (Hcx' : ctx_ok cx') by (apply ctx_ok_in_loop; apply ctx_ok_push; assumption).
    assert (Hst0 : st_ok cx' s0).
    { destruct Hst as [A B]. split; simpl; [assumption |].
      apply Forall2_app; [assumption |]. constructor; [reflexivity | constructor]. }
    pose proof (IHb cx' s0 body Hcx' Hst0 Hb) as Hbody.
    assert (Hpop : forall s2, pres s0 s2 -> pres s (pop_frame s2)).
    { intros s2 [A B]. split; simpl; [exact A |].
      simpl in B. apply same_types_snoc_inv in B. exact B. }
    assert (Hnext : forall s2, pres s0 s2 ->
                               out_ok cx s false (unit_ok s) (eval_for F n (pop_frame s2) (wrap64 (a + 1)) b body)).
    { intros s2 Hp2. pose proof (Hpop s2 Hp2) as Hp.
      assert (Hst2 : st_ok cx (pop_frame s2)) by (eapply st_ok_pres; eauto).
      eapply out_ok_shift; [exact Hp | eapply IHf; eauto |].
      intros s3 [] Hp3. unfold unit_ok in *. eapply pres_trans; eauto. }
    destruct (eval_block F n s0 body) as [s2 [] | s2 | s2 | s2 v | s2 ov | s2 kx | | |]; simpl in Hbody |- *; auto.
    - destruct Hbody as [_ Hp2]. unfold unit_ok. apply Hpop; assumption.
    - destruct Hbody as [_ Hp2]. apply Hnext; assumption.
    - destruct Hbody as (_ & Hp2 & Hov). destruct ov; simpl in *; [discriminate |].
      apply Hnext; assumption.
  Qed.

  Lemma sound_forin : forall n, sound_at n ->
      forall cx s b vs body, ctx_ok cx -> st_ok cx s ->
                             Forall (fun v => type_of F v = ty_of_bty b) vs ->
                             check_block (in_loop (push_local cx (ty_of_bty b, false))) body = true ->
                             out_ok cx s false (unit_ok s) (eval_forin F (S n) s vs body).
  Proof.
    intros n (IHe & IHa & IHc & IHfn & IHl & IHb & IHs & IHw & IHf & IHfi) cx s b vs body Hcx Hst Hall Hb.
    simpl. destruct vs as [| v rest]; [apply pres_refl |].
    inversion Hall as [| ? ? Hv Hrest]; subst.
    set (cx' := in_loop (push_local cx (ty_of_bty b, false))) in *.
    set (s0 := with_frame s (sl s ++ [v])).
    assert (Hcx' : ctx_ok cx') by (apply ctx_ok_in_loop; apply ctx_ok_push; assumption).
    assert (Hst0 : st_ok cx' s0).
    { destruct Hst as [A B]. split; simpl; [assumption |].
      apply Forall2_app; [assumption |]. constructor; [exact Hv | constructor]. }
    pose proof (IHb cx' s0 body Hcx' Hst0 Hb) as Hbody.
    assert (Hpop : forall s2, pres s0 s2 -> pres s (pop_frame s2)).
    { intros s2 [A B]. split; simpl; [exact A |].
      simpl in B. apply same_types_snoc_inv in B. exact B. }
    assert (Hnext : forall s2, pres s0 s2 ->
                               out_ok cx s false (unit_ok s) (eval_forin F n (pop_frame s2) rest body)).
    { intros s2 Hp2. pose proof (Hpop s2 Hp2) as Hp.
      assert (Hst2 : st_ok cx (pop_frame s2)) by (eapply st_ok_pres; eauto).
      eapply out_ok_shift; [exact Hp | eapply IHfi; eauto |].
      intros s3 [] Hp3. unfold unit_ok in *. eapply pres_trans; eauto. }
    destruct (eval_block F n s0 body) as [s2 [] | s2 | s2 | s2 v2 | s2 ov | s2 kx | | |]; simpl in Hbody |- *; auto.
    - destruct Hbody as [_ Hp2]. unfold unit_ok. apply Hpop; assumption.
    - destruct Hbody as [_ Hp2]. apply Hnext; assumption.
    - destruct Hbody as (_ & Hp2 & Hov). destruct ov; simpl in *; [discriminate |].
      apply Hnext; assumption.
  Qed.

  Lemma sound_all : forall n, sound_at n.
  Proof.
    induction n as [| n IH].
    - unfold sound_at; repeat split; intros; simpl; auto.
    - unfold sound_at. repeat split.
      + apply sound_expr; assumption.
      + apply sound_args; assumption.
      + apply sound_call; assumption.
      + apply sound_fun; assumption.
      + apply sound_locals; assumption.
      + apply sound_block; assumption.
      + apply sound_stmt; assumption.
      + apply sound_while; assumption.
      + apply sound_for; assumption.
      + apply sound_forin; assumption.
  Qed.
End Sound.

(* ---------- whole programs ---------- *)
Lemma check_items_funs : forall G F p ng nf,
    check_items G F ng nf p = true ->
    forall j fd, nth_error (funs_of p) j = Some fd -> check_fun G F (nf + j) fd = true.
Proof.
  intros G F p; induction p as [| it p IH]; intros ng nf Hck j fd Hn; simpl in *.
  - destruct j; discriminate.
  - destruct it; simpl in *.
    + apply andb_prop in Hck as [_ H2]. eapply IH; eauto.
    + apply andb_prop in Hck as [_ H2]. eapply IH; eauto.
    + apply andb_prop in Hck as [Hck H3]. apply andb_prop in Hck as [_ H2].
      destruct j; simpl in Hn.
      * inversion Hn; subst. rewrite Nat.add_0_r. assumption.
      * replace (nf + S j) with (S nf + j) by lia. eapply IH; eauto.
    + apply andb_prop in Hck as [_ H2]. eapply IH; eauto.
Qed.

Lemma sound_items : forall G F,
    (forall j fd, nth_error F j = Some fd -> check_fun G F j fd = true) ->
    forall f p Gd s nf,
      G = Gd ++ globals_of p ->
      List.length (sg s) = List.length Gd ->
      g_ok G F (List.length Gd) (sg s) ->
      check_items G F (List.length Gd) nf p = true ->
      eval_items F f s p <> Stuck.
Proof.
  intros G F Hf f p. pose proof (sound_all G F Hf f) as (IHe & _ & _ & _ & _ & _ & IHs & _ & _ & _).
  induction p as [| it p IH]; intros Gd s nf HG Hlen Hg Hck; simpl in *.
  - discriminate.
  - assert (Hdecl : forall t m e r,
               G = Gd ++ (t, m) :: globals_of r ->
               opt_ty_eqb (infer (top_ctx G F (List.length Gd) nf) e) t = true ->
               check_items G F (S (List.length Gd)) nf r = true ->
               (forall Gd' s' nf', G = Gd' ++ globals_of r -> List.length (sg s') = List.length Gd' ->
                                   g_ok G F (List.length Gd') (sg s') ->
                                   check_items G F (List.length Gd') nf' r = true ->
                                   eval_items F f s' r <> Stuck) ->
               match eval_expr F f (with_frame s []) e with
               | RVal s1 v => eval_items F f (mkSt (sg s1 ++ [v]) [] (so s1)) r
               | RThrow s1 _ => Done (output_of s1) StFail
               | RFuel => OutOfFuel
               | RUndef => Undef
               | _ => Stuck
               end <> Stuck).
    { intros t m e r HG' H1 H2 IHr. apply opt_ty_eqb_eq in H1.
      set (cx := top_ctx G F (List.length Gd) nf) in *.
      assert (Hcx : ctx_ok G F cx) by (split; reflexivity).
      assert (Hst : st_ok G F cx (with_frame s [])) by (split; simpl; [assumption | constructor]).
      pose proof (IHe cx (with_frame s []) e t Hcx Hst H1) as Ho.
      destruct (eval_expr F f (with_frame s []) e) as [s1 v | s1 | s1 | s1 v | s1 ov | s1 kx | | |]; simpl in Ho;
        try discriminate; try contradiction; try (simpl; discriminate).
      - destruct Ho as [Hv [Hp _]]. simpl in Hp.
        apply (IHr (Gd ++ [(t, m)]) (mkSt (sg s1 ++ [v]) [] (so s1)) nf).
        + rewrite <- app_assoc. simpl. assumption.
        + simpl. rewrite !app_length. simpl. apply (same_types_length F) in Hp. lia.
        + simpl. rewrite app_length. simpl.
          pose proof (same_types_length F _ _ Hp) as Hl.
          intros k t' m' Hk Hn.
          destruct (Nat.eq_dec k (List.length Gd)) as [-> | Hne].
          * rewrite HG' in Hn. rewrite nth_error_app2 in Hn by lia.
            rewrite Nat.sub_diag in Hn. simpl in Hn. injection Hn as Ht' Hm'.
            exists v. split; [| congruence].
            rewrite nth_error_app2 by lia. replace (List.length Gd - List.length (sg s1)) with 0 by lia.
            reflexivity.
          * assert (Hk' : k < List.length Gd) by lia.
            destruct (g_ok_same G F _ _ _ Hg Hp k t' m' Hk' Hn) as (v' & Hv' & Ht').
            exists v'. split; [| assumption]. rewrite nth_error_app1; [assumption |].
            apply nth_error_Some. congruence.
        + rewrite app_length. simpl. replace (List.length Gd + 1) with (S (List.length Gd)) by lia. assumption.
      - destruct Ho as [Ho _]. simpl in Ho. discriminate.
      - destruct Ho as [Ho _]. simpl in Ho. discriminate.
      - destruct Ho as [Ho _]. simpl in Ho. discriminate.
      - destruct Ho as [Ho _]. discriminate. }
    destruct it; simpl in *.
    + apply andb_prop in Hck as [Hck H2]. apply andb_prop in Hck as [H1 _]. eapply Hdecl; eauto.
    + apply andb_prop in Hck as [Hck H2]. apply andb_prop in Hck as [H1 _]. eapply Hdecl; eauto.
    + apply andb_prop in Hck as [Hck H3]. eapply IH; eauto.
    + apply andb_prop in Hck as [Hck H3]. apply andb_prop in Hck as [H1 H2].
      apply negb_true_iff in H1.
      set (cx := top_ctx G F (List.length Gd) nf) in *.
      assert (Hcx : ctx_ok G F cx) by (split; reflexivity).
      assert (Hst : st_ok G F cx (with_frame s [])) by (split; simpl; [assumption | constructor]).
      pose proof (IHs cx (with_frame s []) s0 Hcx Hst H2) as Ho. rewrite H1 in Ho.
      destruct (eval_stmt F f (with_frame s []) s0) as [s1 [] | s1 | s1 | s1 v | s1 ov | s1 kx | | |]; simpl in Ho;
        try discriminate; try contradiction; try (simpl; discriminate).
      * destruct Ho as [Hp _]. simpl in Hp.
        apply (IH Gd (with_frame s1 []) nf); simpl; auto.
        -- apply (same_types_length F) in Hp. lia.
        -- eapply g_ok_same; eauto.
      * destruct Ho as [Ho _]. simpl in Ho. discriminate.
      * destruct Ho as [Ho _]. simpl in Ho. discriminate.
      * destruct Ho as [Ho _]. simpl in Ho. discriminate.
      * destruct Ho as [Ho _]. discriminate.
Qed.

Theorem typecheck_sound_lemma : forall p, typecheck p = true -> forall f, eval f p <> Stuck.
Proof.
  intros p Ht f. unfold typecheck in Ht. unfold eval.
  apply (sound_items (globals_of p) (funs_of p)) with (Gd := []) (nf := 0).
  - intros j fd Hn. apply (check_items_funs _ _ p 0 0 Ht j fd Hn).
  - reflexivity.
  - reflexivity.
  - intros k t m Hk. inversion Hk.
  - exact Ht.
Qed.
