(* MiniAldor: fuel monotonicity of the reference evaluator. *)
Require Import List ZArith String Bool Arith Lia.
Require Import AV.Mini.Syntax AV.Mini.Types AV.Mini.Eval.
Import ListNotations.

Section Mono.
  Variable F : list fundef.

  (* r' is r, unless r ran out of fuel *)
  Definition le_res {A : Type} (r r' : res A) : Prop := r = RFuel \/ r = r'.

  Lemma le_res_refl : forall A (r : res A), le_res r r.
  Proof. intros; right; reflexivity. Qed.

  Lemma bind_mono : forall A B (r r' : res A) (k k' : state -> A -> res B),
      le_res r r' -> (forall s a, le_res (k s a) (k' s a)) -> le_res (bind r k) (bind r' k').
  Proof.
    intros A B r r' k k' [Hr | Hr] Hk; subst.
    - left; reflexivity.
    - destruct r'; simpl; try (right; reflexivity). apply Hk.
  Qed.

  Lemma end_block_mono : forall (r r' : res unit), le_res r r' -> le_res (end_block r) (end_block r').
  Proof. intros r r' [H | H]; subst; [left | right]; reflexivity. Qed.

  Definition mono_at (n n' : nat) : Prop :=
    (forall s e, le_res (eval_expr F n s e) (eval_expr F n' s e)) /\
    (forall s es, le_res (eval_args F n s es) (eval_args F n' s es)) /\
    (forall s name vs, le_res (eval_call F n s name vs) (eval_call F n' s name vs)) /\
    (forall s fd vs, le_res (eval_fun F n s fd vs) (eval_fun F n' s fd vs)) /\
    (forall s ls, le_res (eval_locals F n s ls) (eval_locals F n' s ls)) /\
    (forall s ss, le_res (eval_block F n s ss) (eval_block F n' s ss)) /\
    (forall s st, le_res (eval_stmt F n s st) (eval_stmt F n' s st)) /\
    (forall s c b, le_res (eval_while F n s c b) (eval_while F n' s c b)) /\
    (forall s a b body, le_res (eval_for F n s a b body) (eval_for F n' s a b body)) /\
    (forall s vs body, le_res (eval_forin F n s vs body) (eval_forin F n' s vs body)).

  Ltac mono :=
    match goal with
    | |- le_res ?a ?a => right; reflexivity
    | |- le_res RFuel _ => left; reflexivity
    | |- le_res (bind _ _) (bind _ _) => apply bind_mono; [ mono | intros; mono ]
    | |- le_res (end_block _) (end_block _) => apply end_block_mono; mono
    | H : forall s e, le_res (eval_expr F ?n s e) (eval_expr F ?n' s e)
      |- le_res (eval_expr F ?n _ _) (eval_expr F ?n' _ _) => apply H
    | H : forall s es, le_res (eval_args F ?n s es) (eval_args F ?n' s es)
      |- le_res (eval_args F ?n _ _) (eval_args F ?n' _ _) => apply H
    | H : forall s name vs, le_res (eval_call F ?n s name vs) (eval_call F ?n' s name vs)
      |- le_res (eval_call F ?n _ _ _) (eval_call F ?n' _ _ _) => apply H
    | H : forall s fd vs, le_res (eval_fun F ?n s fd vs) (eval_fun F ?n' s fd vs)
      |- le_res (eval_fun F ?n _ _ _) (eval_fun F ?n' _ _ _) => apply H
    | H : forall s ls, le_res (eval_locals F ?n s ls) (eval_locals F ?n' s ls)
      |- le_res (eval_locals F ?n _ _) (eval_locals F ?n' _ _) => apply H
    | H : forall s ss, le_res (eval_block F ?n s ss) (eval_block F ?n' s ss)
      |- le_res (eval_block F ?n _ _) (eval_block F ?n' _ _) => apply H
    | H : forall s st, le_res (eval_stmt F ?n s st) (eval_stmt F ?n' s st)
      |- le_res (eval_stmt F ?n _ _) (eval_stmt F ?n' _ _) => apply H
    | H : forall s c b, le_res (eval_while F ?n s c b) (eval_while F ?n' s c b)
      |- le_res (eval_while F ?n _ _ _) (eval_while F ?n' _ _ _) => apply H
    | H : forall s a b body, le_res (eval_for F ?n s a b body) (eval_for F ?n' s a b body)
      |- le_res (eval_for F ?n _ _ _ _) (eval_for F ?n' _ _ _ _) => apply H
    | H : forall s vs body, le_res (eval_forin F ?n s vs body) (eval_forin F ?n' s vs body)
      |- le_res (eval_forin F ?n _ _ _) (eval_forin F ?n' _ _ _) => apply H
    | |- le_res (match ?x with _ => _ end) (match ?y with _ => _ end) =>
        first
          [ constr_eq x y; destruct x; mono
          | let H := fresh "Hm" in
            assert (H : le_res x y) by mono;
            destruct H as [H | H]; rewrite H;
            [ left; reflexivity | destruct y; mono ] ]
    | |- le_res (if ?x then _ else _) (if ?x then _ else _) => destruct x; mono
    end.

  Lemma mono_all : forall n n', n <= n' -> mono_at n n'.
  Proof.
    induction n as [| n IH]; intros n' Hle.
    - unfold mono_at; repeat split; intros; left; reflexivity.
    - destruct n' as [| n']; [lia |].
      assert (Hle' : n <= n') by lia.
      destruct (IH n' Hle') as (He & Ha & Hc & Hfn & Hl & Hb & Hs & Hw & Hf & Hfi).
      unfold mono_at; repeat split; intros.
      + destruct e; simpl; mono.
      + destruct es; simpl; mono.
      + simpl. mono.
      + simpl. mono.
      + destruct ls as [| [t e] ls]; simpl; mono.
      + destruct ss; simpl; mono.
      + destruct st; simpl; mono.
      + simpl. mono.
      + simpl. mono.
      + destruct vs; simpl; mono.
  Qed.

  Lemma eval_items_mono : forall n n' p s out st,
      n <= n' -> eval_items F n s p = Done out st -> eval_items F n' s p = Done out st.
  Proof.
    intros n n' p; induction p as [| it p IH]; intros s out st Hle H; simpl in *.
    - exact H.
    - destruct (mono_all n n' Hle) as (He & _ & _ & _ & _ & _ & Hs & _ & _ & _).
      destruct it.
      + destruct (He (with_frame s []) e) as [Hf | Hf]; rewrite Hf in H; [discriminate |].
        destruct (eval_expr F n' (with_frame s []) e); try discriminate; [eapply IH; eauto | exact H].
      + destruct (He (with_frame s []) e) as [Hf | Hf]; rewrite Hf in H; [discriminate |].
        destruct (eval_expr F n' (with_frame s []) e); try discriminate; [eapply IH; eauto | exact H].
      + eapply IH; eauto.
      + destruct (Hs (with_frame s []) s0) as [Hf | Hf]; rewrite Hf in H; [discriminate |].
        destruct (eval_stmt F n' (with_frame s []) s0); try discriminate; [eapply IH; eauto | exact H].
  Qed.
End Mono.

Theorem eval_fuel_mono_lemma : forall f f' p out st,
    eval f p = Done out st -> f <= f' -> eval f' p = Done out st.
Proof.
  intros f f' p out st H Hle. unfold eval in *. eapply eval_items_mono; eauto.
Qed.
