(* MiniAldor: renderer to concrete Aldor source (braced style).  A Gallina string function;
   definitions only.  Every operand is parenthesised, so operator precedence plays no role
   (langsyn.tex:499-512: `({a;b;c}) + d` is the accepted way to use a sequence as operand). *)
Require Import List ZArith String Bool Arith Ascii.
Require Import AV.Mini.Syntax AV.Mini.Types AV.Mini.Eval.
Import ListNotations.
Local Open Scope string_scope.

Definition nat_str (n : nat) : string := dec_of_Z (Z.of_nat n).

Definition ty_str (t : ty) : string :=
  match t with
  | TMI => "MachineInteger"
  | TInt => "Integer"
  | TBool => "Boolean"
  | TStr => "String"
  end.

(* string literals: underscore-quote stands for a quote, underscore-underscore for an
   underscore (langexpr.tex:147-157) *)
Fixpoint esc_str (s : string) : string :=
  match s with
  | EmptyString => ""
  | String c r =>
      let n := nat_of_ascii c in
      if Nat.eqb n 34 then String "_" (String c (esc_str r))
      else if Nat.eqb n 95 then String "_" (String c (esc_str r))
      else String c (esc_str r)
  end.

Definition quote : string := String (ascii_of_nat 34) EmptyString.

Definition lit_str (l : lit) : string :=
  match l with
  | LNum n z => "(" ++ dec_of_Z z ++ "@" ++ ty_str (ty_of_nty n) ++ ")"
  | LBool true => "true"
  | LBool false => "false"
  | LStr s => quote ++ esc_str s ++ quote
  end.

Fixpoint ind (n : nat) : string :=
  match n with O => "" | S k => "    " ++ ind k end.

Fixpoint sep_by (sep : string) (l : list string) : string :=
  match l with
  | [] => ""
  | [x] => x
  | x :: r => x ++ sep ++ sep_by sep r
  end.

Definition bin (a op b : string) : string := "(" ++ a ++ " " ++ op ++ " " ++ b ++ ")".

Definition prim_str (p : prim) (a : list string) : string :=
  match p, a with
  | (PAdd _ | PCat), [x; y] => bin x "+" y
  | PSub _, [x; y] => bin x "-" y
  | PMul _, [x; y] => bin x "*" y
  | PNeg _, [x] => "(- " ++ x ++ ")"
  | PQuo _, [x; y] => bin x "quo" y
  | PRem _, [x; y] => bin x "rem" y
  | PMod _, [x; y] => bin x "mod" y
  | PAbs _, [x] => "abs(" ++ x ++ ")"
  | PMin _, [x; y] => "min(" ++ x ++ ", " ++ y ++ ")"
  | PMax _, [x; y] => "max(" ++ x ++ ", " ++ y ++ ")"
  | (PEq _ | PBEq | PSEq), [x; y] => bin x "=" y
  | (PNe _ | PBNe | PSNe), [x; y] => bin x "~=" y
  | PLt _, [x; y] => bin x "<" y
  | PLe _, [x; y] => bin x "<=" y
  | PGt _, [x; y] => bin x ">" y
  | PGe _, [x; y] => bin x ">=" y
  | PToInt, [x] => "(" ++ x ++ "::Integer)"
  | PToMI, [x] => "machine(" ++ x ++ ")"
  | PNot, [x] => "(~ " ++ x ++ ")"
  | PBAnd, [x; y] => bin x "/\" y
  | PBOr, [x; y] => bin x "\/" y
  | PLen, [x] => "(# " ++ x ++ ")"
  | _, _ => "?prim(" ++ sep_by ", " a ++ ")"
  end.

(* frame slot k of a frame whose first np slots are parameters *)
Definition loc_str (np k : nat) : string :=
  if Nat.ltb k np then "p" ++ nat_str k else "l" ++ nat_str k.

Definition glob_str (k : nat) : string := "g" ++ nat_str k.
Definition fun_str (n : nat) : string := "f" ++ nat_str n.

(* statements as full lines: indentation, text, `;`, newline *)
Definition lines (f : stmt -> string) (i : nat) (ss : list stmt) : string :=
  String.concat "" (map (fun s => ind i ++ f s ++ ";" ++ nl) ss).

(* np: number of parameters; d: current frame depth (next loop variable); i: indentation *)
Fixpoint pe (np d i : nat) (e : expr) {struct e} : string :=
  match e with
  | ELit l => lit_str l
  | EGlob k => glob_str k
  | ELoc k => loc_str np k
  | EPrim p args => prim_str p (map (pe np d i) args)
  | ECall n args => fun_str n ++ "(" ++ sep_by ", " (map (pe np d i) args) ++ ")"
  | EIf c a b => "(if " ++ pe np d i c ++ " then " ++ pe np d i a ++ " else " ++ pe np d i b ++ ")"
  | EAnd a b => bin (pe np d i a) "and" (pe np d i b)
  | EOr a b => bin (pe np d i a) "or" (pe np d i b)
  | ESeq ss e' =>
      "({" ++ nl ++ lines (ps1 np d (S i)) (S i) ss
           ++ ind (S i) ++ pe np d (S i) e' ++ nl ++ ind i ++ "})"
  end
(* the statement text without indentation / terminator *)
with ps1 (np d i : nat) (s : stmt) {struct s} : string :=
  match s with
  | SAssG k e => glob_str k ++ " := " ++ pe np d i e
  | SAssL k e => loc_str np k ++ " := " ++ pe np d i e
  | SPrint es => "stdout << " ++ String.concat "" (map (fun e => pe np d i e ++ " << ") es) ++ "newline"
  | SIf c a b =>
      "if " ++ pe np d i c ++ " then {" ++ nl ++ lines (ps1 np d (S i)) (S i) a ++ ind i ++ "}"
      ++ match b with
         | [] => ""
         | _ => " else {" ++ nl ++ lines (ps1 np d (S i)) (S i) b ++ ind i ++ "}"
         end
  | SWhile c body =>
      "while " ++ pe np d i c ++ " repeat {" ++ nl
      ++ lines (ps1 np d (S i)) (S i) body ++ ind i ++ "}"
  | SFor lo hi body =>
      "for " ++ loc_str np d ++ ": MachineInteger in " ++ pe np d i lo ++ ".." ++ pe np d i hi
      ++ " repeat {" ++ nl ++ lines (ps1 np (S d) (S i)) (S i) body ++ ind i ++ "}"
  | SBreak => "break"
  | SIterate => "iterate"
  | SReturn e => "return " ++ pe np d i e
  | SExit c s' => pe np d i c ++ " => " ++ ps1 np d i s'
  | SExitV c e => pe np d i c ++ " => " ++ pe np d i e
  | SCall n args => fun_str n ++ "(" ++ sep_by ", " (map (pe np d i) args) ++ ")"
  end.

(* globals assigned anywhere in a function body: they need `free g<k>` (langenvs.tex:836-857) *)
Fixpoint assg_e (e : expr) : list nat :=
  match e with
  | ELit _ | EGlob _ | ELoc _ => []
  | EPrim _ args | ECall _ args => flat_map assg_e args
  | EIf c a b => assg_e c ++ assg_e a ++ assg_e b
  | EAnd a b | EOr a b => assg_e a ++ assg_e b
  | ESeq ss e' => flat_map assg_s ss ++ assg_e e'
  end
with assg_s (s : stmt) : list nat :=
  match s with
  | SAssG k e => k :: assg_e e
  | SAssL _ e | SReturn e => assg_e e
  | SPrint es | SCall _ es => flat_map assg_e es
  | SIf c a b => assg_e c ++ flat_map assg_s a ++ flat_map assg_s b
  | SWhile c body => assg_e c ++ flat_map assg_s body
  | SFor lo hi body => assg_e lo ++ assg_e hi ++ flat_map assg_s body
  | SBreak | SIterate => []
  | SExit c s' => assg_e c ++ assg_s s'
  | SExitV c e => assg_e c ++ assg_e e
  end.

Definition fun_assigned (fd : fundef) : list nat :=
  nodup Nat.eq_dec
    (flat_map (fun le => assg_e (snd le)) (fd_locals fd)
     ++ flat_map assg_s (fd_body fd) ++ assg_e (fd_result fd)).

Fixpoint params_str (k : nat) (ts : list ty) : list string :=
  match ts with
  | [] => []
  | t :: r => ("p" ++ nat_str k ++ ": " ++ ty_str t) :: params_str (S k) r
  end.

Fixpoint locals_str (np k : nat) (ls : list (ty * expr)) : string :=
  match ls with
  | [] => ""
  | (t, e) :: r =>
      ind 1 ++ loc_str np k ++ ": " ++ ty_str t ++ " := " ++ pe np k 1 e ++ ";" ++ nl
      ++ locals_str np (S k) r
  end.

Definition fun_src (fd : fundef) : string :=
  let np := List.length (fd_params fd) in
  let d := (np + List.length (fd_locals fd))%nat in
  fun_str (fd_name fd) ++ "(" ++ sep_by ", " (params_str 0 (fd_params fd)) ++ "): "
  ++ ty_str (fd_ret fd) ++ " == {" ++ nl
  ++ String.concat "" (map (fun k => ind 1 ++ "free " ++ glob_str k ++ ";" ++ nl) (fun_assigned fd))
  ++ locals_str np np (fd_locals fd)
  ++ lines (ps1 np d 1) 1 (fd_body fd)
  ++ ind 1 ++ pe np d 1 (fd_result fd) ++ nl ++ "}" ++ nl.

(* source text of one top-level form; k = index of the global it declares (if any) *)
Definition item_src (k : nat) (it : item) : string :=
  match it with
  | IConst t e => glob_str k ++ ": " ++ ty_str t ++ " == " ++ pe 0 0 0 e ++ ";" ++ nl
  | IVar t e => glob_str k ++ ": " ++ ty_str t ++ " := " ++ pe 0 0 0 e ++ ";" ++ nl
  | IFun fd => fun_src fd
  | IStmt s => ps1 0 0 0 s ++ ";" ++ nl
  end.

Fixpoint items_src (k : nat) (p : prog) : list string :=
  match p with
  | [] => []
  | it :: r =>
      item_src k it :: items_src (match it with IConst _ _ | IVar _ _ => S k | _ => k end) r
  end.

Definition header : string :=
  "#include " ++ quote ++ "aldor" ++ quote ++ nl ++
  "#include " ++ quote ++ "aldorio" ++ quote ++ nl ++
  "import from MachineInteger, Integer;" ++ nl.

Definition render (p : prog) : string := header ++ String.concat "" (items_src 0 p).
