(* MiniAldor: renderer to concrete Aldor source (braced style).  A Gallina string function;
   definitions only.  Every operand is parenthesised, so operator precedence plays no role
   (langsyn.tex:499-512: `({a;b;c}) + d` is the accepted way to use a sequence as operand). *)
Require Import List ZArith String Bool Arith Ascii.
Require Import AV.Mini.Syntax AV.Mini.Types AV.Mini.Eval.
Import ListNotations.
Local Open Scope string_scope.

Definition nat_str (n : nat) : string := dec_of_Z (Z.of_nat n).

(* rendering style, drawn per seed:
     st_qual : literals as `(5@MachineInteger)` (true) or through a typed identity function
               declared in the header, `mi(5)` / `bi(5)` (false)
     st_mac  : the integer type names are written through the macros
               `MI ==> MachineInteger; BI ==> Integer;` (langmacs.tex:25-26)               *)
Record style : Type := mkStyle { st_qual : bool; st_mac : bool }.

Definition bty_str (q : style) (b : bty) : string :=
  match b with
  | BMI => if st_mac q then "MI" else "MachineInteger"
  | BInt => if st_mac q then "BI" else "Integer"
  | BBool => "Boolean"
  | BStr => "String"
  end.

Fixpoint sep_by (sep : string) (l : list string) : string :=
  match l with
  | [] => ""
  | [x] => x
  | x :: r => x ++ sep ++ sep_by sep r
  end.

Definition ty_str (q : style) (t : ty) : string :=
  match t with
  | TMI => bty_str q BMI
  | TInt => bty_str q BInt
  | TBool => "Boolean"
  | TStr => "String"
  | TList b => "List(" ++ bty_str q b ++ ")"
  | TArr b => "Array(" ++ bty_str q b ++ ")"
  | TBox d n => (match d with DA => "BoxA(" | DB => "BoxB(" end)
                ++ bty_str q (match n with NMI => BMI | NInt => BInt end) ++ ")"
  | TUni fs =>
      "Union(" ++ (fix go (k : nat) (l : list bty) : string :=
                      match l with
                      | [] => ""
                      | [b] => "f" ++ dec_of_Z (Z.of_nat k) ++ ": " ++ bty_str q b
                      | b :: r => "f" ++ dec_of_Z (Z.of_nat k) ++ ": " ++ bty_str q b ++ ", " ++ go (S k) r
                      end) 0%nat fs ++ ")"
  | TFun ps r => "(" ++ sep_by ", " (map (bty_str q) ps) ++ ") -> " ++ bty_str q r
  | TBad => "?bad"
  | TRec fs =>
      "Record(" ++ (fix go (k : nat) (l : list bty) : string :=
                      match l with
                      | [] => ""
                      | [b] => "f" ++ dec_of_Z (Z.of_nat k) ++ ": " ++ bty_str q b
                      | b :: r => "f" ++ dec_of_Z (Z.of_nat k) ++ ": " ++ bty_str q b ++ ", " ++ go (S k) r
                      end) 0%nat fs ++ ")"
  end.

(* string literals: underscore-quote stands for a quote, underscore-underscore for an
   underscore (langexpr.tex:147-157) *)
Fixpoint esc_str (s : string) : string :=
  match s with
  | EmptyString => ""
  | String c r =>
      let n := nat_of_ascii c in
      if Nat.eqb n 34 then String "_" (String c (esc_str r))
      else if Nat.eqb n 95 then String "_" (String c (esc_str r))
      else String c (esc_str r)
  end.

Definition quote : string := String (ascii_of_nat 34) EmptyString.

(* q = true: qualified literal `(5@MachineInteger)` (langfuns/langtype: `E @ T`);
   q = false: the literal is the argument of a typed identity function declared in the
   header, `mi(5)` / `bi(5)`, so its type comes from the parameter type              *)
Definition lit_str (q : style) (l : lit) : string :=
  match l with
  | LNum n z => if st_qual q then "(" ++ dec_of_Z z ++ "@" ++ ty_str q (ty_of_nty n) ++ ")"
                else (match n with NMI => "mi(" | NInt => "bi(" end) ++ dec_of_Z z ++ ")"
  | LBool true => "true"
  | LBool false => "false"
  | LStr s => quote ++ esc_str s ++ quote
  end.

Fixpoint ind (n : nat) : string :=
  match n with O => "" | S k => "    " ++ ind k end.



Definition bin (a op b : string) : string := "(" ++ a ++ " " ++ op ++ " " ++ b ++ ")".

Definition sdom_str (d : sdom) : string := match d with SzA => "SzA" | SzB => "SzB" | SzC => "SzC" end.

Definition prim_str (q : style) (p : prim) (a : list string) : string :=
  match p, a with
  | (PAdd _ | PCat), [x; y] => bin x "+" y
  | PSub _, [x; y] => bin x "-" y
  | PMul _, [x; y] => bin x "*" y
  | PNeg _, [x] => "(- " ++ x ++ ")"
  | PQuo _, [x; y] => bin x "quo" y
  | PRem _, [x; y] => bin x "rem" y
  | PMod _, [x; y] => bin x "mod" y
  | PAbs _, [x] => "abs(" ++ x ++ ")"
  | PMin _, [x; y] => "min(" ++ x ++ ", " ++ y ++ ")"
  | PMax _, [x; y] => "max(" ++ x ++ ", " ++ y ++ ")"
  | (PEq _ | PBEq | PSEq | PLEq _), [x; y] => bin x "=" y
  | (PNe _ | PBNe | PSNe | PLNe _), [x; y] => bin x "~=" y
  | PLt _, [x; y] => bin x "<" y
  | PLe _, [x; y] => bin x "<=" y
  | PGt _, [x; y] => bin x ">" y
  | PGe _, [x; y] => bin x ">=" y
  | PToInt, [x] => "(" ++ x ++ "::" ++ ty_str q TInt ++ ")"
  | PToMI, [x] => "machine(" ++ x ++ ")"
  | PNot, [x] => "(~ " ++ x ++ ")"
  | PBAnd, [x; y] => bin x "/\" y
  | PBOr, [x; y] => bin x "\/" y
  | (PLen | PLLen _ | PALen _), [x] => "(# " ++ x ++ ")"
  | PANew b, [x; y] => "(new(" ++ x ++ ", " ++ y ++ ")@Array(" ++ bty_str q b ++ "))"
  | PAGet _, [x; y] => "(" ++ x ++ ".(" ++ y ++ "))"
  | PSzLimit d, [] => "(limit$" ++ sdom_str d ++ ")"
  | PSzTwice d, [] => "(twice()$" ++ sdom_str d ++ ")"
  | PLCons _, [x; y] => "cons(" ++ x ++ ", " ++ y ++ ")"
  | PLFirst _, [x] => "first(" ++ x ++ ")"
  | PLRest _, [x] => "rest(" ++ x ++ ")"
  | PLEmptyQ _, [x] => "empty?(" ++ x ++ ")"
  | PLRev _, [x] => "reverse(" ++ x ++ ")"
  | PLNth _, [x; y] => "(" ++ x ++ ".(" ++ y ++ "))"
  | PBox d n, [x] => "(box(" ++ x ++ ")@" ++ ty_str q (TBox d n) ++ ")"
  | PUnbox _ _, [x] => "unbox(" ++ x ++ ")"
  | PBump _ _, [x] => "bump(" ++ x ++ ")"
  | PTwice _ _, [x] => "twice(" ++ x ++ ")"
  | PScale _ _, [x; y] => "scale(" ++ x ++ ", " ++ y ++ ")"
  | _, _ => "?prim(" ++ sep_by ", " a ++ ")"
  end.

(* frame slot k of a frame whose first np slots are parameters *)
Definition loc_str (np k : nat) : string :=
  if Nat.ltb k np then "p" ++ nat_str k else "l" ++ nat_str k.

Definition glob_str (k : nat) : string := "g" ++ nat_str k.
Definition exn_str (k : nat) : string := "Ex" ++ nat_str k.
Definition fun_str (n : nat) : string := "f" ++ nat_str n.

(* statements as full lines: indentation, text, `;`, newline *)
Definition lines (f : stmt -> string) (i : nat) (ss : list stmt) : string :=
  String.concat "" (map (fun s => ind i ++ f s ++ ";" ++ nl) ss).

(* np: number of parameters; d: current frame depth (next loop variable); i: indentation *)
Fixpoint pe (q : style) (np d i : nat) (e : expr) {struct e} : string :=
  match e with
  | ELit l => lit_str q l
  | EGlob k => glob_str k
  | ELoc k => loc_str np k
  | EPrim p args => prim_str q p (map (pe q np d i) args)
  | ECall n args => fun_str n ++ "(" ++ sep_by ", " (map (pe q np d i) args) ++ ")"
  | EIf c a b => "(if " ++ pe q np d i c ++ " then " ++ pe q np d i a ++ " else " ++ pe q np d i b ++ ")"
  | EAnd a b => bin (pe q np d i a) "and" (pe q np d i b)
  | EOr a b => bin (pe q np d i a) "or" (pe q np d i b)
  | ESeq ss e' =>
      "({" ++ nl ++ lines (ps1 q false np d (S i)) (S i) ss
           ++ ind (S i) ++ pe q np d (S i) e' ++ nl ++ ind i ++ "})"
  | EMac m e' => (match m with MDbl _ => "DBL(" | MSqr _ => "SQR(" end) ++ pe q np d i e' ++ ")"
  | EArrLit b es =>
      match es with
      | [] => "(empty@Array(" ++ bty_str q b ++ "))"
      | _ => "([" ++ sep_by ", " (map (pe q np d i) es) ++ "]@Array(" ++ bty_str q b ++ "))"
      end
  | ERec fs es => "([" ++ sep_by ", " (map (pe q np d i) es) ++ "]@" ++ ty_str q (TRec fs) ++ ")"
  | EField k e' | EUGet k e' => "(" ++ pe q np d i e' ++ ".f" ++ nat_str k ++ ")"
  | EUni fs k e' => "([f" ++ nat_str k ++ " == " ++ pe q np d i e' ++ "]@" ++ ty_str q (TUni fs) ++ ")"
  | ECase k e' => "(" ++ pe q np d i e' ++ " case f" ++ nat_str k ++ ")"
  | EClo n ps r caps =>
      let names := map (fun k => "a" ++ nat_str k) (seq 0 (List.length ps)) in
      (* the function expression is qualified with its unnamed function type: otherwise an
         assignment `g := (a0: T): R +-> ..` to a variable declared `g: (T) -> R` is taken as a
         second variable of the type `(a0: T) -> R` ("Variables cannot have different types in
         the same scope")                                                                   *)
      "(((" ++ sep_by ", " (map (fun nb => fst nb ++ ": " ++ bty_str q (snd nb)) (combine names ps)) ++ "): "
      ++ bty_str q r ++ " +-> " ++ fun_str n ++ "(" ++ sep_by ", " (map (pe q np d i) caps ++ names) ++ "))@("
      ++ ty_str q (TFun ps r) ++ "))"
  | EApp fn args => "((" ++ pe q np d i fn ++ ")(" ++ sep_by ", " (map (pe q np d i) args) ++ "))"
  | EListLit b es =>
      match es with
      | [] => "(empty@List(" ++ bty_str q b ++ "))"
      | _ => "([" ++ sep_by ", " (map (pe q np d i) es) ++ "]@List(" ++ bty_str q b ++ "))"
      end
  end
(* the statement text without indentation / terminator *)
with ps1 (q : style) (tb : bool) (np d i : nat) (s : stmt) {struct s} : string :=
  match s with
  | SAssG k e => glob_str k ++ " := " ++ pe q np d i e
  | SAssL k e => loc_str np k ++ " := " ++ pe q np d i e
  | SSetG k j e => glob_str k ++ ".f" ++ nat_str j ++ " := " ++ pe q np d i e
  | SSetL k j e => loc_str np k ++ ".f" ++ nat_str j ++ " := " ++ pe q np d i e
  | SSetIG k j e => glob_str k ++ ".(" ++ pe q np d i j ++ ") := " ++ pe q np d i e
  | SSetIL k j e => loc_str np k ++ ".(" ++ pe q np d i j ++ ") := " ++ pe q np d i e
  | SPrint es => "stdout << " ++ String.concat "" (map (fun e => pe q np d i e ++ " << ") es) ++ "newline"
  | SIf c a b =>
      "if " ++ pe q np d i c ++ " then {" ++ nl ++ lines (ps1 q false np d (S i)) (S i) a ++ ind i ++ "}"
      ++ match b with
         | [] => ""
         | _ => " else {" ++ nl ++ lines (ps1 q false np d (S i)) (S i) b ++ ind i ++ "}"
         end
  | SWhile c body =>
      "while " ++ pe q np d i c ++ " repeat {" ++ nl
      ++ lines (ps1 q false np d (S i)) (S i) body ++ ind i ++ "}"
  | SFor lo hi body =>
      "for " ++ loc_str np d ++ ": " ++ ty_str q TMI ++ " in " ++ pe q np d i lo ++ ".." ++ pe q np d i hi
      ++ " repeat {" ++ nl ++ lines (ps1 q false np (S d) (S i)) (S i) body ++ ind i ++ "}"
  | SForIn b l body =>
      "for " ++ loc_str np d ++ ": " ++ bty_str q b ++ " in " ++ pe q np d i l
      ++ " repeat {" ++ nl ++ lines (ps1 q false np (S d) (S i)) (S i) body ++ ind i ++ "}"
  | SBreak => "break"
  | SIterate => "iterate"
  | SReturn e => "return " ++ pe q np d i e
  | SExit c s' =>
      (* directly inside a try block (a Boolean-valued sequence, see STry) the exit must
         yield a Boolean too: `c => { s; true }`                                         *)
      if tb then pe q np d i c ++ " => { " ++ ps1 q false np d i s' ++ "; true }"
      else pe q np d i c ++ " => " ++ ps1 q false np d i s'
  | SExitV c e => pe q np d i c ++ " => " ++ pe q np d i e
  | SCall n args => fun_str n ++ "(" ++ sep_by ", " (map (pe q np d i) args) ++ ")"
  | SError e => "error " ++ pe q np d i e
  | SNever => "never"
  | SThrow k => "throw " ++ exn_str k
  | STry body hs =>
      (* "Branches have the type of the protected expression" (langtry.tex:140-142): the
         protected block and every handler end with the Boolean `true`, whose value the
         statement context drops                                                          *)
      "try {" ++ nl ++ lines (ps1 q true np d (S i)) (S i) body ++ ind (S i) ++ "true" ++ nl
      ++ ind i ++ "} catch E in {" ++ nl
      ++ String.concat ""
           (map (fun h => ind (S i) ++ "E has " ++ exn_str (fst h) ++ "Type => {" ++ nl
                          ++ lines (ps1 q true np d (S (S i))) (S (S i)) (snd h)
                          ++ ind (S (S i)) ++ "true" ++ nl ++ ind (S i) ++ "};" ++ nl) hs)
      ++ ind (S i) ++ "true => throw E;" ++ nl ++ ind (S i) ++ "never;" ++ nl ++ ind i ++ "}"
  end.

(* globals assigned anywhere in a function body: they need `free g<k>` (langenvs.tex:836-857) *)
Fixpoint assg_e (e : expr) : list nat :=
  match e with
  | ELit _ | EGlob _ | ELoc _ => []
  | EPrim _ args | ECall _ args => flat_map assg_e args
  | EIf c a b => assg_e c ++ assg_e a ++ assg_e b
  | EAnd a b | EOr a b => assg_e a ++ assg_e b
  | ESeq ss e' => flat_map assg_s ss ++ assg_e e'
  | EMac _ e' | EField _ e' | EUni _ _ e' | ECase _ e' | EUGet _ e' => assg_e e'
  | EListLit _ es | ERec _ es | EArrLit _ es | EClo _ _ _ es => flat_map assg_e es
  | EApp fn es => assg_e fn ++ flat_map assg_e es
  end
with assg_s (s : stmt) : list nat :=
  match s with
  | SAssG k e => k :: assg_e e
  | SAssL _ e | SReturn e | SSetG _ _ e | SSetL _ _ e => assg_e e
  | SSetIG _ j e | SSetIL _ j e => assg_e j ++ assg_e e
  | SPrint es | SCall _ es => flat_map assg_e es
  | SIf c a b => assg_e c ++ flat_map assg_s a ++ flat_map assg_s b
  | SWhile c body => assg_e c ++ flat_map assg_s body
  | SFor lo hi body => assg_e lo ++ assg_e hi ++ flat_map assg_s body
  | SForIn _ l body => assg_e l ++ flat_map assg_s body
  | SBreak | SIterate | SNever | SThrow _ => []
  | SExit c s' => assg_e c ++ assg_s s'
  | SExitV c e => assg_e c ++ assg_e e
  | SError e => assg_e e
  | STry body hs => flat_map assg_s body ++ flat_map (fun h => flat_map assg_s (snd h)) hs
  end.

(* does the program mention exceptions (then the header declares Ex0 .. Ex2) *)
Fixpoint exn_e (e : expr) : bool :=
  match e with
  | ELit _ | EGlob _ | ELoc _ => false
  | EPrim _ args | ECall _ args => existsb exn_e args
  | EIf c a b => (exn_e c || exn_e a || exn_e b)%bool
  | EAnd a b | EOr a b => (exn_e a || exn_e b)%bool
  | ESeq ss e' => (existsb exn_s ss || exn_e e')%bool
  | EMac _ e' | EField _ e' | EUni _ _ e' | ECase _ e' | EUGet _ e' => exn_e e'
  | EListLit _ es | ERec _ es | EArrLit _ es | EClo _ _ _ es => existsb exn_e es
  | EApp fn es => (exn_e fn || existsb exn_e es)%bool
  end
with exn_s (s : stmt) : bool :=
  match s with
  | SAssG _ e | SAssL _ e | SReturn e | SError e | SSetG _ _ e | SSetL _ _ e => exn_e e
  | SSetIG _ j e | SSetIL _ j e => (exn_e j || exn_e e)%bool
  | SPrint es | SCall _ es => existsb exn_e es
  | SIf c a b => (exn_e c || existsb exn_s a || existsb exn_s b)%bool
  | SWhile c body => (exn_e c || existsb exn_s body)%bool
  | SFor lo hi body => (exn_e lo || exn_e hi || existsb exn_s body)%bool
  | SForIn _ l body => (exn_e l || existsb exn_s body)%bool
  | SBreak | SIterate | SNever => false
  | SExit c s' => (exn_e c || exn_s s')%bool
  | SExitV c e => (exn_e c || exn_e e)%bool
  | SThrow _ | STry _ _ => true
  end.
Definition exn_item (it : item) : bool :=
  match it with
  | IConst _ e | IVar _ e => exn_e e
  | IFun fd => (existsb (fun le => exn_e (snd le)) (fd_locals fd) || existsb exn_s (fd_body fd)
                || exn_e (fd_result fd))%bool
  | IStmt s => exn_s s
  end.

(* does the program use the Sized domains (then the header defines them) *)
Fixpoint sz_e (e : expr) : bool :=
  match e with
  | ELit _ | EGlob _ | ELoc _ => false
  | EPrim p args => (match p with PSzLimit _ | PSzTwice _ => true | _ => false end || existsb sz_e args)%bool
  | ECall _ args | EListLit _ args | ERec _ args | EArrLit _ args | EClo _ _ _ args => existsb sz_e args
  | EApp fn args => (sz_e fn || existsb sz_e args)%bool
  | EIf c a b => (sz_e c || sz_e a || sz_e b)%bool
  | EAnd a b | EOr a b => (sz_e a || sz_e b)%bool
  | ESeq ss e' => (existsb sz_s ss || sz_e e')%bool
  | EMac _ e' | EField _ e' | EUni _ _ e' | ECase _ e' | EUGet _ e' => sz_e e'
  end
with sz_s (s : stmt) : bool :=
  match s with
  | SAssG _ e | SAssL _ e | SReturn e | SError e | SSetG _ _ e | SSetL _ _ e => sz_e e
  | SSetIG _ j e | SSetIL _ j e => (sz_e j || sz_e e)%bool
  | SPrint es | SCall _ es => existsb sz_e es
  | SIf c a b => (sz_e c || existsb sz_s a || existsb sz_s b)%bool
  | SWhile c body => (sz_e c || existsb sz_s body)%bool
  | SFor lo hi body => (sz_e lo || sz_e hi || existsb sz_s body)%bool
  | SForIn _ l body => (sz_e l || existsb sz_s body)%bool
  | SBreak | SIterate | SNever | SThrow _ => false
  | SExit c s' => (sz_e c || sz_s s')%bool
  | SExitV c e => (sz_e c || sz_e e)%bool
  | STry body hs => (existsb sz_s body || existsb (fun h => existsb sz_s (snd h)) hs)%bool
  end.
Definition sz_item (it : item) : bool :=
  match it with
  | IConst _ e | IVar _ e => sz_e e
  | IFun fd => (existsb (fun le => sz_e (snd le)) (fd_locals fd) || existsb sz_s (fd_body fd) || sz_e (fd_result fd))%bool
  | IStmt s => sz_s s
  end.

(* a category with a constant export that has a default value and a default function using
   it; SzA over-rides the constant, SzB nothing, SzC the function (langtype.tex:1488-1528) *)
Definition sized_decls (q : style) : string :=
  "define Sized: Category == with {" ++ nl ++
  "    limit: " ++ bty_str q BMI ++ ";" ++ nl ++
  "    twice: () -> " ++ bty_str q BMI ++ ";" ++ nl ++
  "    default {" ++ nl ++
  "        limit: " ++ bty_str q BMI ++ " == 10;" ++ nl ++
  "        twice(): " ++ bty_str q BMI ++ " == 2 * limit;" ++ nl ++
  "    }" ++ nl ++ "}" ++ nl ++
  "SzA: Sized == add { limit: " ++ bty_str q BMI ++ " == 50; }" ++ nl ++
  "SzB: Sized == add { }" ++ nl ++
  "SzC: Sized == add { twice(): " ++ bty_str q BMI ++ " == limit + 1; }" ++ nl.

(* does the program use the Box domains (then the header defines and imports them) *)
Definition is_box_ty (t : ty) : bool := match t with TBox _ _ => true | _ => false end.
Definition is_box_prim (p : prim) : bool :=
  match p with PBox _ _ | PUnbox _ _ | PBump _ _ | PTwice _ _ | PScale _ _ => true | _ => false end.
Fixpoint box_e (e : expr) : bool :=
  match e with
  | ELit _ | EGlob _ | ELoc _ => false
  | EPrim p args => (is_box_prim p || existsb box_e args)%bool
  | ECall _ args | EListLit _ args | ERec _ args | EArrLit _ args | EClo _ _ _ args => existsb box_e args
  | EApp fn args => (box_e fn || existsb box_e args)%bool
  | EIf c a b => (box_e c || box_e a || box_e b)%bool
  | EAnd a b | EOr a b => (box_e a || box_e b)%bool
  | ESeq ss e' => (existsb box_s ss || box_e e')%bool
  | EMac _ e' | EField _ e' | EUni _ _ e' | ECase _ e' | EUGet _ e' => box_e e'
  end
with box_s (s : stmt) : bool :=
  match s with
  | SAssG _ e | SAssL _ e | SReturn e | SError e | SSetG _ _ e | SSetL _ _ e => box_e e
  | SSetIG _ j e | SSetIL _ j e => (box_e j || box_e e)%bool
  | SPrint es | SCall _ es => existsb box_e es
  | SIf c a b => (box_e c || existsb box_s a || existsb box_s b)%bool
  | SWhile c body => (box_e c || existsb box_s body)%bool
  | SFor lo hi body => (box_e lo || box_e hi || existsb box_s body)%bool
  | SForIn _ l body => (box_e l || existsb box_s body)%bool
  | SBreak | SIterate | SNever | SThrow _ => false
  | SExit c s' => (box_e c || box_s s')%bool
  | SExitV c e => (box_e c || box_e e)%bool
  | STry body hs => (existsb box_s body || existsb (fun h => existsb box_s (snd h)) hs)%bool
  end.
Definition box_item (it : item) : bool :=
  match it with
  | IConst t e | IVar t e => (is_box_ty t || box_e e)%bool
  | IFun fd => (existsb is_box_ty (fd_ret fd :: fd_params fd)
                || existsb (fun le => (is_box_ty (fst le) || box_e (snd le))%bool) (fd_locals fd)
                || existsb box_s (fd_body fd) || box_e (fd_result fd))%bool
  | IStmt s => box_s s
  end.

(* the record types a program mentions: each is imported in the header (a declaration
   `x: T` imports T, langenvs.tex:734-737, but a constructor `[..]@Record(..)` alone does not) *)
Local Open Scope list_scope.
Definition rec_of_ty (t : ty) : list (list bty) := match t with TRec fs => [fs] | _ => [] end.
Fixpoint recs_e (e : expr) : list (list bty) :=
  match e with
  | ELit _ | EGlob _ | ELoc _ => []
  | EPrim _ args | ECall _ args | EListLit _ args | EArrLit _ args | EClo _ _ _ args => flat_map recs_e args
  | EApp fn args => recs_e fn ++ flat_map recs_e args
  | ERec fs args => fs :: flat_map recs_e args
  | EIf c a b => recs_e c ++ recs_e a ++ recs_e b
  | EAnd a b | EOr a b => recs_e a ++ recs_e b
  | ESeq ss e' => flat_map recs_s ss ++ recs_e e'
  | EMac _ e' | EField _ e' | ECase _ e' | EUGet _ e' => recs_e e'
  | EUni _ _ e' => recs_e e'
  end
with recs_s (s : stmt) : list (list bty) :=
  match s with
  | SAssG _ e | SAssL _ e | SReturn e | SError e | SSetG _ _ e | SSetL _ _ e => recs_e e
  | SSetIG _ j e | SSetIL _ j e => recs_e j ++ recs_e e
  | SPrint es | SCall _ es => flat_map recs_e es
  | SIf c a b => recs_e c ++ flat_map recs_s a ++ flat_map recs_s b
  | SWhile c body => recs_e c ++ flat_map recs_s body
  | SFor lo hi body => recs_e lo ++ recs_e hi ++ flat_map recs_s body
  | SForIn _ l body => recs_e l ++ flat_map recs_s body
  | SBreak | SIterate | SNever | SThrow _ => []
  | SExit c s' => recs_e c ++ recs_s s'
  | SExitV c e => recs_e c ++ recs_e e
  | STry body hs => flat_map recs_s body ++ flat_map (fun h => flat_map recs_s (snd h)) hs
  end.
Definition recs_item (it : item) : list (list bty) :=
  match it with
  | IConst t e | IVar t e => rec_of_ty t ++ recs_e e
  | IFun fd => flat_map rec_of_ty (fd_ret fd :: fd_params fd)
               ++ flat_map (fun le => rec_of_ty (fst le) ++ recs_e (snd le)) (fd_locals fd)
               ++ flat_map recs_s (fd_body fd) ++ recs_e (fd_result fd)
  | IStmt s => recs_s s
  end.
Fixpoint dedup_recs (l : list (list bty)) : list (list bty) :=
  match l with
  | [] => []
  | x :: r => if existsb (btys_eqb x) r then dedup_recs r else x :: dedup_recs r
  end.

Local Open Scope string_scope.

(* the union types a program mentions (imported in the header like the record types) *)
Local Open Scope list_scope.
Definition uni_of_ty (t : ty) : list (list bty) := match t with TUni fs => [fs] | _ => [] end.
Fixpoint unis_e (e : expr) : list (list bty) :=
  match e with
  | ELit _ | EGlob _ | ELoc _ => []
  | EPrim _ args | ECall _ args | EListLit _ args | EArrLit _ args | ERec _ args | EClo _ _ _ args => flat_map unis_e args
  | EApp fn args => unis_e fn ++ flat_map unis_e args
  | EUni fs _ e' => fs :: unis_e e'
  | EIf c a b => unis_e c ++ unis_e a ++ unis_e b
  | EAnd a b | EOr a b => unis_e a ++ unis_e b
  | ESeq ss e' => flat_map unis_s ss ++ unis_e e'
  | EMac _ e' | EField _ e' | ECase _ e' | EUGet _ e' => unis_e e'
  end
with unis_s (s : stmt) : list (list bty) :=
  match s with
  | SAssG _ e | SAssL _ e | SReturn e | SError e | SSetG _ _ e | SSetL _ _ e => unis_e e
  | SSetIG _ j e | SSetIL _ j e => unis_e j ++ unis_e e
  | SPrint es | SCall _ es => flat_map unis_e es
  | SIf c a b => unis_e c ++ flat_map unis_s a ++ flat_map unis_s b
  | SWhile c body => unis_e c ++ flat_map unis_s body
  | SFor lo hi body => unis_e lo ++ unis_e hi ++ flat_map unis_s body
  | SForIn _ l body => unis_e l ++ flat_map unis_s body
  | SBreak | SIterate | SNever | SThrow _ => []
  | SExit c s' => unis_e c ++ unis_s s'
  | SExitV c e => unis_e c ++ unis_e e
  | STry body hs => flat_map unis_s body ++ flat_map (fun h => flat_map unis_s (snd h)) hs
  end.
Definition unis_item (it : item) : list (list bty) :=
  match it with
  | IConst t e | IVar t e => uni_of_ty t ++ unis_e e
  | IFun fd => flat_map uni_of_ty (fd_ret fd :: fd_params fd)
               ++ flat_map (fun le => uni_of_ty (fst le) ++ unis_e (snd le)) (fd_locals fd)
               ++ flat_map unis_s (fd_body fd) ++ unis_e (fd_result fd)
  | IStmt s => unis_s s
  end.
Local Open Scope string_scope.

(* does the program use arrays (then the header imports the four Array domains) *)
Definition is_arr_ty (t : ty) : bool := match t with TArr _ => true | _ => false end.
Fixpoint arr_e (e : expr) : bool :=
  match e with
  | ELit _ | EGlob _ | ELoc _ => false
  | EPrim p args => (match p with PANew _ | PALen _ | PAGet _ => true | _ => false end || existsb arr_e args)%bool
  | ECall _ args | EListLit _ args | ERec _ args | EClo _ _ _ args => existsb arr_e args
  | EApp fn args => (arr_e fn || existsb arr_e args)%bool
  | EArrLit _ _ => true
  | EIf c a b => (arr_e c || arr_e a || arr_e b)%bool
  | EAnd a b | EOr a b => (arr_e a || arr_e b)%bool
  | ESeq ss e' => (existsb arr_s ss || arr_e e')%bool
  | EMac _ e' | EField _ e' | EUni _ _ e' | ECase _ e' | EUGet _ e' => arr_e e'
  end
with arr_s (s : stmt) : bool :=
  match s with
  | SAssG _ e | SAssL _ e | SReturn e | SError e | SSetG _ _ e | SSetL _ _ e => arr_e e
  | SSetIG _ _ _ | SSetIL _ _ _ => true
  | SPrint es | SCall _ es => existsb arr_e es
  | SIf c a b => (arr_e c || existsb arr_s a || existsb arr_s b)%bool
  | SWhile c body => (arr_e c || existsb arr_s body)%bool
  | SFor lo hi body => (arr_e lo || arr_e hi || existsb arr_s body)%bool
  | SForIn _ l body => (arr_e l || existsb arr_s body)%bool
  | SBreak | SIterate | SNever | SThrow _ => false
  | SExit c s' => (arr_e c || arr_s s')%bool
  | SExitV c e => (arr_e c || arr_e e)%bool
  | STry body hs => (existsb arr_s body || existsb (fun h => existsb arr_s (snd h)) hs)%bool
  end.
Definition arr_item (it : item) : bool :=
  match it with
  | IConst t e | IVar t e => (is_arr_ty t || arr_e e)%bool
  | IFun fd => (existsb is_arr_ty (fd_ret fd :: fd_params fd)
                || existsb (fun le => (is_arr_ty (fst le) || arr_e (snd le))%bool) (fd_locals fd)
                || existsb arr_s (fd_body fd) || arr_e (fd_result fd))%bool
  | IStmt s => arr_s s
  end.

(* does the program use lists (then the header imports the four List domains) *)
Definition is_list_ty (t : ty) : bool := match t with TList _ => true | _ => false end.
Definition is_list_prim (p : prim) : bool :=
  match p with
  | PLCons _ | PLFirst _ | PLRest _ | PLLen _ | PLEmptyQ _ | PLRev _ | PLEq _ | PLNe _ | PLNth _ => true
  | _ => false
  end.
Fixpoint lst_e (e : expr) : bool :=
  match e with
  | ELit _ | EGlob _ | ELoc _ => false
  | EPrim p args => (is_list_prim p || existsb lst_e args)%bool
  | ECall _ args | ERec _ args | EArrLit _ args | EClo _ _ _ args => existsb lst_e args
  | EApp fn args => (lst_e fn || existsb lst_e args)%bool
  | EIf c a b => (lst_e c || lst_e a || lst_e b)%bool
  | EAnd a b | EOr a b => (lst_e a || lst_e b)%bool
  | ESeq ss e' => (existsb lst_s ss || lst_e e')%bool
  | EMac _ e' | EField _ e' | EUni _ _ e' | ECase _ e' | EUGet _ e' => lst_e e'
  | EListLit _ _ => true
  end
with lst_s (s : stmt) : bool :=
  match s with
  | SAssG _ e | SAssL _ e | SReturn e | SError e | SSetG _ _ e | SSetL _ _ e => lst_e e
  | SSetIG _ j e | SSetIL _ j e => (lst_e j || lst_e e)%bool
  | SPrint es | SCall _ es => existsb lst_e es
  | SIf c a b => (lst_e c || existsb lst_s a || existsb lst_s b)%bool
  | SWhile c body => (lst_e c || existsb lst_s body)%bool
  | SFor lo hi body => (lst_e lo || lst_e hi || existsb lst_s body)%bool
  | SForIn _ _ _ => true
  | SBreak | SIterate | SNever | SThrow _ => false
  | SExit c s' => (lst_e c || lst_s s')%bool
  | SExitV c e => (lst_e c || lst_e e)%bool
  | STry body hs => (existsb lst_s body || existsb (fun h => existsb lst_s (snd h)) hs)%bool
  end.
Definition lst_item (it : item) : bool :=
  match it with
  | IConst t e | IVar t e => (is_list_ty t || lst_e e)%bool
  | IFun fd => (existsb is_list_ty (fd_ret fd :: fd_params fd) || existsb (fun le => (is_list_ty (fst le) || lst_e (snd le))%bool) (fd_locals fd)
                || existsb lst_s (fd_body fd) || lst_e (fd_result fd))%bool
  | IStmt s => lst_s s
  end.

Definition fun_assigned (fd : fundef) : list nat :=
  nodup Nat.eq_dec
    (flat_map (fun le => assg_e (snd le)) (fd_locals fd)
     ++ flat_map assg_s (fd_body fd) ++ assg_e (fd_result fd)).

Fixpoint params_str (q : style) (k : nat) (ts : list ty) : list string :=
  match ts with
  | [] => []
  | t :: r => ("p" ++ nat_str k ++ ": " ++ ty_str q t) :: params_str q (S k) r
  end.

Fixpoint locals_str (q : style) (np k : nat) (ls : list (ty * expr)) : string :=
  match ls with
  | [] => ""
  | (t, e) :: r =>
      ind 1 ++ loc_str np k ++ ": " ++ ty_str q t ++ " := " ++ pe q np k 1 e ++ ";" ++ nl
      ++ locals_str q np (S k) r
  end.

Definition fun_src (q : style) (fd : fundef) : string :=
  let np := List.length (fd_params fd) in
  let d := (np + List.length (fd_locals fd))%nat in
  fun_str (fd_name fd) ++ "(" ++ sep_by ", " (params_str q 0 (fd_params fd)) ++ "): "
  ++ ty_str q (fd_ret fd) ++ " == {" ++ nl
  ++ String.concat "" (map (fun k => ind 1 ++ "free " ++ glob_str k ++ ";" ++ nl) (fun_assigned fd))
  ++ locals_str q np np (fd_locals fd)
  ++ lines (ps1 q false np d 1) 1 (fd_body fd)
  ++ ind 1 ++ pe q np d 1 (fd_result fd) ++ nl ++ "}" ++ nl.

(* source text of one top-level form; k = index of the global it declares (if any) *)
Definition item_src (q : style) (k : nat) (it : item) : string :=
  match it with
  | IConst t e => glob_str k ++ ": " ++ ty_str q t ++ " == " ++ pe q 0 0 0 e ++ ";" ++ nl
  | IVar t e => glob_str k ++ ": " ++ ty_str q t ++ " := " ++ pe q 0 0 0 e ++ ";" ++ nl
  | IFun fd => fun_src q fd
  | IStmt s => ps1 q false 0 0 0 s ++ ";" ++ nl
  end.

Fixpoint items_src (q : style) (k : nat) (p : prog) : list string :=
  match p with
  | [] => []
  | it :: r =>
      item_src q k it :: items_src q (match it with IConst _ _ | IVar _ _ => S k | _ => k end) r
  end.

Definition exn_decls : string :=
  String.concat ""
    (map (fun k => "define " ++ exn_str k ++ "Type: Category == with;" ++ nl
                   ++ exn_str k ++ ": " ++ exn_str k ++ "Type == add;" ++ nl) (seq 0 n_exn)).

(* a category with defaults, parametrised by T: IntegerType, and two parametrised domains
   of that category (langtype.tex:1019-1046 Rep/rep/per, 1488-1528 defaults, 1632-1663
   parametrised categories and domains)                                                 *)
Definition dom_decls (q : style) : string :=
  "define BoxCat(T: IntegerType): Category == with {" ++ nl ++
  "    box: T -> %;" ++ nl ++ "    unbox: % -> T;" ++ nl ++ "    bump: % -> %;" ++ nl ++
  "    twice: % -> %;" ++ nl ++ "    scale: (%, T) -> %;" ++ nl ++
  "    default {" ++ nl ++
  "        twice(x: %): % == bump(bump(x));" ++ nl ++
  "        scale(x: %, k: T): % == box(unbox(x) * k);" ++ nl ++
  "    }" ++ nl ++ "}" ++ nl ++
  "BoxA(T: IntegerType): BoxCat(T) == add {" ++ nl ++
  "    Rep == T;" ++ nl ++ "    import from Rep;" ++ nl ++
  "    box(v: T): % == per v;" ++ nl ++ "    unbox(x: %): T == rep x;" ++ nl ++
  "    bump(x: %): % == per(rep x + 1);" ++ nl ++ "}" ++ nl ++
  "BoxB(T: IntegerType): BoxCat(T) == add {" ++ nl ++
  "    Rep == T;" ++ nl ++ "    import from Rep;" ++ nl ++
  "    box(v: T): % == per v;" ++ nl ++ "    unbox(x: %): T == rep x;" ++ nl ++
  "    bump(x: %): % == per(rep x + rep x);" ++ nl ++
  "    scale(x: %, k: T): % == per(rep x * k + 1);" ++ nl ++ "}" ++ nl ++
  "import from BoxA(" ++ bty_str q BMI ++ "), BoxA(" ++ bty_str q BInt ++ "), BoxB("
  ++ bty_str q BMI ++ "), BoxB(" ++ bty_str q BInt ++ ");" ++ nl.

Definition header (q : style) : string :=
  "#include " ++ quote ++ "aldor" ++ quote ++ nl ++
  "#include " ++ quote ++ "aldorio" ++ quote ++ nl ++
  "import from MachineInteger, Integer;" ++ nl ++
  (if st_mac q then "MI ==> MachineInteger;" ++ nl ++ "macro BI == Integer;" ++ nl else "") ++
  "DBL(x) ==> ((x) + (x));" ++ nl ++ "macro SQR(x) == ((x) * (x));" ++ nl ++
  (if st_qual q then "" else
     "mi(x: " ++ ty_str q TMI ++ "): " ++ ty_str q TMI ++ " == x;" ++ nl ++
     "bi(x: " ++ ty_str q TInt ++ "): " ++ ty_str q TInt ++ " == x;" ++ nl).

(* header of a given program: the exception declarations only when it uses exceptions *)
Definition header_of (q : style) (p : prog) : string :=
  header q
  ++ (if existsb lst_item p
      then "import from List(" ++ bty_str q BMI ++ "), List(" ++ bty_str q BInt ++ "), List(Boolean), List(String);" ++ nl
      else "")
  ++ (if existsb arr_item p
      then "import from Array(" ++ bty_str q BMI ++ "), Array(" ++ bty_str q BInt ++ "), Array(Boolean), Array(String);" ++ nl
      else "")
  ++ String.concat "" (map (fun fs => "import from " ++ ty_str q (TRec fs) ++ ";" ++ nl)
                           (dedup_recs (flat_map recs_item p)))
  ++ String.concat "" (map (fun fs => "import from " ++ ty_str q (TUni fs) ++ ";" ++ nl)
                           (dedup_recs (flat_map unis_item p)))
  ++ (if existsb exn_item p then exn_decls else "")
  ++ (if existsb box_item p then dom_decls q else "")
  ++ (if existsb sz_item p then sized_decls q else "").

Definition render (q : style) (p : prog) : string := header_of q p ++ String.concat "" (items_src q 0 p).
