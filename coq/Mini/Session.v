(* MiniAldor: a program as a sequence of top-level forms, each with the output it produces
   (for the interactive-loop check C13: feeding the forms one after another must print the
   same text, form by form, as the batch run).  Definitions only.                         *)
Require Import List ZArith String Bool Arith.
Require Import AV.Mini.Syntax AV.Mini.Types AV.Mini.Eval.
Import ListNotations.

(* evaluate one top-level form, exactly as Eval.eval_items does *)
Inductive step_res : Type :=
| StepOk (s : state)       (* the form completed *)
| StepEnd (s : state)      (* the form ended the program by an unhandled exception / error *)
| StepBad.                 (* out of fuel, undefined, stuck: no expected output *)

Definition step_item (F : list fundef) (f : nat) (s : state) (it : item) : step_res :=
  match it with
  | IConst _ e | IVar _ e =>
      match eval_expr F f (with_frame s []) e with
      | RVal s1 v => StepOk (mkSt (sg s1 ++ [v]) [] (so s1))
      | RThrow s1 _ => StepEnd s1
      | _ => StepBad
      end
  | IFun _ => StepOk s
  | IStmt st =>
      match eval_stmt F f (with_frame s []) st with
      | RVal s1 _ => StepOk (with_frame s1 [])
      | RThrow s1 _ => StepEnd s1
      | _ => StepBad
      end
  end.

(* the text printed between two states of one run (output chunks are consed on) *)
Definition delta (s s' : state) : string :=
  String.concat "" (rev (firstn (List.length (so s') - List.length (so s)) (so s'))).

(* outputs of the forms that are executed: all of them, or those up to and including the
   form that ends the program                                                             *)
Fixpoint eval_forms (F : list fundef) (f : nat) (s : state) (p : prog) : option (list string) :=
  match p with
  | [] => Some []
  | it :: r =>
      match step_item F f s it with
      | StepOk s' => match eval_forms F f s' r with
                     | Some outs => Some (delta s s' :: outs)
                     | None => None
                     end
      | StepEnd s' => Some [delta s s']
      | StepBad => None
      end
  end.

Definition forms_outputs (f : nat) (p : prog) : option (list string) :=
  eval_forms (funs_of p) f (mkSt [] [] []) p.
