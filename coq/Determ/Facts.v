From Coq Require Import ZArith List Permutation Lia Sorted.
Require Import AV.Determ.Model.
Import ListNotations.
Local Open Scope Z_scope.

Section TableFacts.
  Variable item : Type.

  Lemma insert_at_perm (bs : list (list item)) i x : (i < length bs)%nat ->
    Permutation (concat (insert_at item bs i x)) (x :: concat bs).
  Proof.
    revert i. induction bs as [|b r IH]; intros i Hi; [cbn in Hi; lia|].
    destruct i as [|j]; cbn.
    - reflexivity.
    - cbn in Hi. rewrite (IH j) by lia.
      apply Permutation_sym, Permutation_middle.
  Qed.

  Lemma insert_at_length (bs : list (list item)) i x : length (insert_at item bs i x) = length bs.
  Proof. revert i. induction bs as [|b r IH]; intros [|j]; cbn; auto. Qed.

  Variable addr : item -> Z.
  Variable nb : Z.
  Hypothesis Hnb : 0 < nb.

  Lemma bucket_in_range x : (Z.to_nat (bucket_of item addr nb x) < Z.to_nat nb)%nat.
  Proof. unfold bucket_of. pose proof (Z.mod_pos_bound (addr x) nb Hnb). lia. Qed.

  Lemma fold_insert_perm items : forall bs, length bs = Z.to_nat nb ->
    Permutation (concat (fold_left (insert item addr nb) items bs)) (rev items ++ concat bs)
    /\ length (fold_left (insert item addr nb) items bs) = Z.to_nat nb.
  Proof.
    induction items as [|x r IH]; intros bs Hl; cbn [fold_left].
    - split; [reflexivity|exact Hl].
    - assert (Hl' : length (insert item addr nb bs x) = Z.to_nat nb).
      { unfold insert. rewrite insert_at_length. exact Hl. }
      destruct (IH _ Hl') as [HP HL]. split; [|exact HL].
      rewrite HP. unfold insert at 1. rewrite insert_at_perm by (rewrite Hl; apply bucket_in_range).
      cbn [rev]. rewrite <- app_assoc. reflexivity.
  Qed.

  (* iteration visits exactly the inserted items (each once), in SOME order *)
  Lemma iter_perm items : Permutation (iter item addr nb items) items.
  Proof.
    unfold iter, build.
    destruct (fold_insert_perm items (repeat [] (Z.to_nat nb))) as [HP _]; [apply repeat_length|].
    rewrite HP.
    assert (E : forall n : nat, concat (repeat (@nil item) n) = []).
    { intros n. induction n as [|n IHn]; cbn; [reflexivity|exact IHn]. }
    rewrite E, app_nil_r. apply Permutation_sym, Permutation_rev.
  Qed.
End TableFacts.

Section SortFacts.
  Variable item : Type.
  Variable key : item -> Z.

  Lemma ins_perm x l : Permutation (ins item key x l) (x :: l).
  Proof.
    induction l as [|y r IH]; cbn; [reflexivity|].
    destruct (key x <=? key y); [reflexivity|]. rewrite IH. apply perm_swap.
  Qed.

  Lemma sort_perm l : Permutation (sort_by item key l) l.
  Proof. induction l as [|x r IH]; cbn; [reflexivity|]. rewrite ins_perm, IH. reflexivity. Qed.

  Definition sorted (l : list item) : Prop := StronglySorted (fun a b => key a <= key b) l.

  Lemma ins_sorted x l : sorted l -> sorted (ins item key x l).
  Proof.
    induction 1 as [|y r Hs IH Hall]; cbn.
    - constructor; constructor.
    - destruct (key x <=? key y) eqn:E.
      + constructor; [constructor; assumption|]. constructor; [lia|].
        eapply Forall_impl; [|exact Hall]. cbn. intros; lia.
      + constructor; [exact IH|]. 
        assert (HP := ins_perm x r). apply (Permutation_Forall (Permutation_sym HP)).
        constructor; [lia|exact Hall].
  Qed.

  Lemma sort_sorted l : sorted (sort_by item key l).
  Proof. induction l as [|x r IH]; cbn; [constructor|]. apply ins_sorted, IH. Qed.

  (* two sorted lists with the same elements and pairwise distinct keys are equal *)
  Lemma sorted_unique l1 : forall l2, sorted l1 -> sorted l2 -> Permutation l1 l2 ->
    NoDup (map key l1) -> l1 = l2.
  Proof.
    induction l1 as [|x r IH]; intros l2 H1 H2 HP Hnd.
    - apply Permutation_nil in HP. congruence.
    - destruct l2 as [|y s]; [apply Permutation_sym, Permutation_nil in HP; discriminate|].
      inversion H1 as [|? ? Hs1 Ha1]; subst. inversion H2 as [|? ? Hs2 Ha2]; subst.
      assert (Hxy : x = y).
      { assert (Hin1 : In x (y :: s)) by (eapply Permutation_in; [exact HP|left; reflexivity]).
        assert (Hin2 : In y (x :: r)) by (eapply Permutation_in; [apply Permutation_sym, HP|left; reflexivity]).
        destruct Hin1 as [->|Hin1]; [reflexivity|]. destruct Hin2 as [->|Hin2]; [reflexivity|].
        rewrite Forall_forall in Ha1, Ha2. pose proof (Ha1 _ Hin2). pose proof (Ha2 _ Hin1).
        assert (Hk : key x = key y) by lia.
        exfalso. cbn in Hnd. inversion Hnd as [|? ? Hni _]; subst. apply Hni.
        rewrite Hk. apply in_map, Hin2. }
      subst y. f_equal. apply IH; try assumption.
      + eapply Permutation_cons_inv; exact HP.
      + cbn in Hnd. inversion Hnd; assumption.
  Qed.
End SortFacts.

(* The safe shape: iterate the pointer-keyed table, then order by a content key that is
   unique per entry.  The result does not depend on where objects live. *)
Theorem sorted_emit_addr_indep (item : Type) (key : item -> Z) (addr1 addr2 : item -> Z) (nb1 nb2 : Z)
  (items : list item) : 0 < nb1 -> 0 < nb2 -> NoDup (map key items) ->
  sort_by item key (iter item addr1 nb1 items) = sort_by item key (iter item addr2 nb2 items).
Proof.
  intros H1 H2 Hnd.
  apply (sorted_unique item key); try apply sort_sorted.
  - rewrite !sort_perm, !iter_perm by assumption. reflexivity.
  - eapply Permutation_NoDup; [|exact Hnd]. apply Permutation_map, Permutation_sym.
    rewrite sort_perm, iter_perm by assumption. reflexivity.
Qed.

(* Iteration ORDER itself is address dependent: the unsafe shape. *)
Theorem iter_order_addr_dependent :
  exists (addr1 addr2 : Z -> Z) (items : list Z),
    iter Z addr1 2 items <> iter Z addr2 2 items.
Proof.
  exists (fun x => x), (fun x => x + 1), [0; 1]. vm_compute. discriminate.
Qed.
