(* C08 supporting model: what a pointer-keyed table makes address-dependent, and which
   shape of code removes the dependence.  `addr` is the explicit source of
   nondeterminism (ASLR, allocation history, collection schedule). *)
From Coq Require Import ZArith List Permutation.
Import ListNotations.
Local Open Scope Z_scope.

Section Table.
  Variable item : Type.
  Variable addr : item -> Z.          (* where the object happens to live *)
  Variable nb : Z.                    (* number of buckets *)

  (* tblNew(NULL,...) hashes the pointer itself: bucket = addr mod nb, insert at head *)
  Definition bucket_of (x : item) : Z := addr x mod nb.

  Fixpoint insert_at (bs : list (list item)) (i : nat) (x : item) : list (list item) :=
    match bs, i with
    | [], _ => []
    | b :: r, O => (x :: b) :: r
    | b :: r, S j => b :: insert_at r j x
    end.

  Definition insert (bs : list (list item)) (x : item) : list (list item) :=
    insert_at bs (Z.to_nat (bucket_of x)) x.

  Definition build (items : list item) : list (list item) :=
    fold_left insert items (repeat [] (Z.to_nat nb)).

  (* table iteration: bucket by bucket *)
  Definition iter (items : list item) : list item := concat (build items).
End Table.

(* ordering the iteration result by a content key *)
Section Sort.
  Variable item : Type.
  Variable key : item -> Z.
  Fixpoint ins (x : item) (l : list item) : list item :=
    match l with
    | [] => [x]
    | y :: r => if key x <=? key y then x :: l else y :: ins x r
    end.
  Definition sort_by (l : list item) : list item := fold_right ins [] l.
End Sort.
