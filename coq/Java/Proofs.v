(* Java/Proofs.v - the Java table REGENERATED from the current sources (coq/Gen/JavaBuiltins.v)
   meets the specification row by row. *)
Require Import ZArith List String Bool Lia ZifyBool.
Require Import AV.Builtins.CInt AV.Builtins.Spec AV.Builtins.Facts AV.Java.Model AV.Java.Facts AV.Gen.JavaBuiltins.
Import ListNotations.
Local Open Scope Z_scope.
Ltac Zify.zify_post_hook ::= Z.to_euclidean_division_equations.

(* all operand types finite: exhaustive evaluation over every operand tuple *)
Ltac jsolve_finite :=
  apply jfinite_row_meets; [vm_compute; reflexivity | vm_compute; reflexivity | vm_compute; reflexivity].

Ltac jsolve_val :=
  first
    [ reflexivity
    | solve [unfold wrap in *; lia]
    | solve [bit_norm; unfold wrap in *; case_cmp; cbn [Z.b2z negb andb orb]; lia]
    | solve [rewrite ?wrap_S32_id by (unfold wrap in *; lia); rewrite ?wrap_S64_id by (unfold wrap in *; lia); reflexivity]
    | solve [rewrite Z.lxor_m1_r; reflexivity]                 (* x ^ -1 is the bitwise complement *)
    | solve [rewrite Z.mod_small by lia; reflexivity]
    | solve [rewrite Z.mod_small by lia; rewrite land_bit32_zero by (unfold int32; lia);
             rewrite negb_involutive; reflexivity]
    | solve [rewrite Z.mod_small by lia;
             match goal with
             | |- wrap S32 (Z.shiftl ?a ?b) = _ =>
                 pose proof (shiftl_int32_bound a b ltac:(unfold int32; lia) ltac:(lia));
                 generalize dependent (Z.shiftl a b); intros; unfold wrap in *; lia
             end] ].

(* symbolic proof over Z for rows with machine-integer operands *)
Ltac jsolve_sym :=
  split; [vm_compute; reflexivity|];
  let args := fresh "args" in let Ht := fresh "Ht" in let Hd := fresh "Hd" in let Hf := fresh "Hf" in
  intros args Ht Hd Hf; cbn [jargs jbody] in *; inv_typed Ht;
  destruct Hf as (Hf1 & Hf2 & Hf3); cbn [sop_sig fst snd] in Hf1; inv_fits Hf1; jhyps; jcev; closed_cmp;
  cbn [andb orb negb];
  match goal with
  | |- (if ?c then _ else _) = _ => replace c with true by (symmetry; unfold wrap in *; lia)
  end;
  f_equal; jsolve_val.

Ltac jsolve_meets := first [ solve [timeout 120 jsolve_finite] | solve [timeout 120 jsolve_sym] ].

Ltac jrow_failed :=
  lazymatch goal with
  | |- In (jname ?e) _ \/ _ => let n := eval cbv in (jname e) in fail 1000 "ROW-FAILED" n
  end.

Ltac jsolve_row :=
  first [ left; solve [in_list]
        | right; solve [apply jrow_ok_unsupported; vm_compute; reflexivity]
        | right; solve [eapply jrow_ok_some; [vm_compute; reflexivity | jsolve_meets]]
        | jrow_failed ].

Lemma java_meets_spec_l : java_meets_spec known_bad_java java_tbl.
Proof.
  apply java_meets_spec_filter.
  lazymatch goal with
  | |- Forall ?P (filter specd_j ?t) =>
      let l := eval vm_compute in (filter specd_j t) in change (Forall P l)
  end.
  repeat (apply Forall_cons; [jsolve_row|]). apply Forall_nil.
Qed.

Lemma java_covers_l : java_covers java_tbl java_bval_names.
Proof. apply java_covers_of_b. vm_compute. reflexivity. Qed.

(* gj0BInt writes every big-integer constant with its exact value (the regenerated thresholds keep the
   BigInteger.valueOf form inside the Java int) *)
Lemma java_bint_literal_exact_l : forall small v, denote_blit (emit_bint java_bint_params small v) = Some v.
Proof. apply emit_bint_exact. vm_compute. reflexivity. Qed.
