(* Java/Facts.v - statements, lemmas and proof tactics for property C12 (hand-written). *)
Require Import ZArith List String Bool Lia ZifyBool.
Require Import AV.Builtins.CInt AV.Builtins.Spec AV.Builtins.Facts AV.Java.Model.
Import ListNotations.
Local Open Scope Z_scope.

Ltac Zify.zify_post_hook ::= Z.to_euclidean_division_equations.

(* ------------------------------------------------------------------ statements *)

Definition ojty_eqb (a : option jty) (b : jty) : bool :=
  match a with Some x => jty_eqb x b | None => false end.

(* the row is about operation o with the signature the specification expects, and the Java
   expression has the Java type the back end uses for the result's FOAM type *)
Definition jrow_sig_ok (o : sop) (e : jrow) : bool :=
  ftys_eqb (jargs e) (fst (sop_sig o)) && fty_eqb (jret e) (snd (sop_sig o))
  && ojty_eqb (jty_of_fty (jret e)) (jty_of (jbody e)).

(* THE per-row obligation: on every well-typed operand tuple in the domain that the 32-bit
   word represents faithfully, the emitted Java expression is defined and yields the
   mathematical value *)
Definition jrow_meets (o : sop) (e : jrow) : Prop :=
  jrow_sig_ok o e = true /\
  forall args, typed (jargs e) args -> in_dom o args = true -> fits_java o args ->
               jsem args (jbody e) = Some (spec o args).

Definition jrow_ok (e : jrow) : Prop :=
  match sop_of (jname e) with
  | None => True
  | Some o => jrow_meets o e
  end.

Definition java_meets_spec (bad : list string) (tbl : list jrow) : Prop :=
  Forall (fun e => In (jname e) bad \/ jrow_ok e) tbl.

(* a row listed as a known finding really is one: some operand tuple inside the side
   condition on which the Java expression gives another value (decidable witness search
   is done by the check; here: the stated witness) *)
Definition jrow_refuted (e : jrow) (o : sop) (args : list Z) : Prop :=
  sop_of (jname e) = Some o /\ forallb2_typed (fst (sop_sig o)) args = true /\ in_dom o args = true
  /\ jsem args (jbody e) <> Some (spec o args)
with_defs.
