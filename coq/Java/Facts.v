(* Java/Facts.v - statements, lemmas and proof tactics for property C12 (hand-written). *)
Require Import ZArith List String Bool Lia ZifyBool.
Require Import AV.Builtins.CInt AV.Builtins.Spec AV.Builtins.Facts AV.Java.Model.
Import ListNotations.
Local Open Scope Z_scope.

Ltac Zify.zify_post_hook ::= Z.to_euclidean_division_equations.

(* ------------------------------------------------------------------ statements *)

Definition ojty_eqb (a : option jty) (b : jty) : bool :=
  match a with Some x => jty_eqb x b | None => false end.

(* the row is about operation o with the signature the specification expects, and the Java
   expression has the Java type the back end uses for the result's FOAM type *)
Definition jrow_sig_ok (o : sop) (e : jrow) : bool :=
  ftys_eqb (jargs e) (fst (sop_sig o)) && fty_eqb (jret e) (snd (sop_sig o))
  && ojty_eqb (jty_of_fty (jret e)) (jty_of (jbody e)).

(* THE per-row obligation: on every well-typed operand tuple in the domain that the 32-bit
   word represents faithfully, the emitted Java expression is defined and yields the
   mathematical value *)
Definition jrow_meets (o : sop) (e : jrow) : Prop :=
  jrow_sig_ok o e = true /\
  forall args, typed (jargs e) args -> in_dom o args = true -> fits_java o args ->
               jsem args (jbody e) = Some (spec o args).

(* the back end says itself that it does not support the builtin: GJ_NotImpl in the table
   (a compile-time refusal) or a foamj.Math method that only throws (a loud run-time failure);
   never a wrong value *)
Definition junsupported (e : jexp) : bool :=
  match e with JNotImpl | JThrows _ => true | _ => false end.

Definition jrow_ok (e : jrow) : Prop :=
  match sop_of (jname e) with
  | None => True                      (* not in the specified class *)
  | Some o => junsupported (jbody e) = true \/ jrow_meets o e
  end.

Definition java_meets_spec (bad : list string) (tbl : list jrow) : Prop :=
  Forall (fun e => In (jname e) bad \/ jrow_ok e) tbl.

(* ------------------------------------------------------------------ the side condition, decidable *)

Fixpoint fits_tysb (tys : list fty) (l : list Z) : bool :=
  match tys, l with
  | [], [] => true
  | t :: tys', z :: l' => fits_tyb t z && fits_tysb tys' l'
  | _, _ => false
  end.

Definition fits_extrab (o : sop) (l : list Z) : bool :=
  let a := a0 l in let b := a1 l in
  match o with
  | SIntPlusMod => int32b (a + b)
  | SIntMinusMod => int32b (a - b)
  | SIntTimesMod => int32b (a * b)
  | SIntShiftUp | SIntShiftDn | SIntBit => (0 <=? b) && (b <? 32)
  | CharNum => (0 <=? a) && (a <? 256)
  | _ => true
  end.

Definition fits_javab (o : sop) (l : list Z) : bool :=
  fits_tysb (fst (sop_sig o)) l && fits_tyb (snd (sop_sig o)) (spec o l) && fits_extrab o l.

Lemma int32b_of z : int32 z -> int32b z = true.
Proof. unfold int32, int32b. lia. Qed.

Lemma fits_tyb_of t z : fits_ty t z -> fits_tyb t z = true.
Proof. destruct t; cbn [fits_ty fits_tyb]; try reflexivity; try apply int32b_of; lia. Qed.

Lemma fits_tysb_of tys l : Forall2 fits_ty tys l -> fits_tysb tys l = true.
Proof.
  induction 1 as [|t z tys l H _ IH]; cbn [fits_tysb]; [reflexivity|].
  rewrite (fits_tyb_of _ _ H), IH. reflexivity.
Qed.

Lemma fits_extrab_of o l : fits_extra o l -> fits_extrab o l = true.
Proof.
  destruct o; cbn [fits_extra fits_extrab]; try reflexivity; try apply int32b_of; lia.
Qed.

Lemma fits_javab_of o l : fits_java o l -> fits_javab o l = true.
Proof.
  intros (H1 & H2 & H3). unfold fits_javab.
  rewrite (fits_tysb_of _ _ H1), (fits_tyb_of _ _ H2), (fits_extrab_of _ _ H3). reflexivity.
Qed.

(* ------------------------------------------------------------------ finite domains *)

(* exhaustive check of one row over ALL well-typed operand tuples (Bool 2, Char/Byte 256,
   HInt 65536 values per operand) *)
Definition jcheck_finite (o : sop) (e : jrow) : bool :=
  forallb (fun args => implb (in_dom o args && fits_javab o args)
                             (opt_is (jsem args (jbody e)) (spec o args)))
          (all_args (jargs e)).

Lemma jfinite_row_meets o e :
  jrow_sig_ok o e = true -> forallb finite_ty (jargs e) = true -> jcheck_finite o e = true ->
  jrow_meets o e.
Proof.
  intros Hs Hf Hc. split; [assumption|].
  intros args Ht Hd Hj. unfold jcheck_finite in Hc. rewrite forallb_forall in Hc.
  specialize (Hc args (all_args_complete _ _ Hf Ht)).
  rewrite Hd, (fits_javab_of _ _ Hj) in Hc. cbn in Hc. apply opt_is_eq. assumption.
Qed.

(* ------------------------------------------------------------------ 32-bit lemmas *)

Lemma wrap_S32_id z : -2147483648 <= z <= 2147483647 -> wrap S32 z = z.
Proof. intro H. unfold wrap. lia. Qed.

Lemma mul_int32_bound a b : int32 a -> int32 b ->
  -4611686018427387904 <= a * b <= 4611686018427387904.
Proof. unfold int32. intros Ha Hb. nia. Qed.

Lemma shiftl_int32_bound a b : int32 a -> 0 <= b < 32 ->
  -4611686018427387904 <= Z.shiftl a b <= 4611686018427387904.
Proof.
  unfold int32. intros Ha Hb. rewrite Z.shiftl_mul_pow2 by lia.
  assert (H1 : 0 < 2 ^ b) by (apply Z.pow_pos_nonneg; lia).
  assert (H2 : 2 ^ b <= 2 ^ 31) by (apply Z.pow_le_mono_r; lia).
  change (2 ^ 31) with 2147483648 in H2. nia.
Qed.

Lemma testbit_int32_high a m : int32 a -> 31 <= m -> Z.testbit a m = (a <? 0).
Proof.
  unfold int32. intros Ha Hm. destruct (Z.ltb_spec a 0) as [Hn|Hp].
  - apply Z.bits_above_log2_neg; [lia|].
    destruct (Z.eq_dec a (-1)) as [->|Hne]; [cbn; lia|].
    assert (Z.log2 (Z.pred (- a)) < 31); [|lia].
    apply Z.log2_lt_pow2; lia.
  - destruct (Z.eq_dec a 0) as [->|Hne]; [apply Z.bits_0|].
    apply Z.bits_above_log2; [lia|].
    assert (Z.log2 a < 31); [|lia]. apply Z.log2_lt_pow2; lia.
Qed.

(* bit i of a 32-bit two's complement value, written  n & (1 << i)  in Java *)
Lemma land_bit32_zero a i : int32 a -> 0 <= i < 32 ->
  (Z.land a (wrap S32 (Z.shiftl 1 i)) =? 0) = negb (Z.testbit a i).
Proof.
  intros Ha Hi.
  assert (Hs : Z.shiftl 1 i = 2 ^ i) by (rewrite Z.shiftl_1_l; reflexivity).
  rewrite Hs.
  destruct (Z.eq_dec i 31) as [->|Hne].
  - change (wrap S32 (2 ^ 31)) with (-2147483648).
    rewrite (testbit_int32_high a 31 Ha) by lia.
    destruct (Z.ltb_spec a 0) as [Hn|Hp]; cbn [negb].
    + apply Z.eqb_neq. intro H0.
      assert (Hb : Z.testbit (Z.land a (-2147483648)) 31 = false) by (rewrite H0; apply Z.bits_0).
      rewrite Z.land_spec in Hb. rewrite (testbit_int32_high a 31 Ha) in Hb by lia.
      replace (a <? 0) with true in Hb by (symmetry; apply Z.ltb_lt; lia).
      cbn in Hb. discriminate.
    + apply Z.eqb_eq. apply Z.bits_inj'. intros m Hm. rewrite Z.land_spec, Z.bits_0.
      destruct (Z.ltb_spec m 31) as [Hlt|Hge].
      * replace (Z.testbit (-2147483648) m) with false; [apply andb_false_r|].
        symmetry. change (-2147483648) with (- 2 ^ 31).
        rewrite Z.bits_opp by lia. rewrite <- Z.sub_1_r.
        replace (Z.testbit (2 ^ 31 - 1) m) with true; [reflexivity|].
        symmetry. change (2 ^ 31 - 1) with (Z.ones 31). apply Z.ones_spec_low. lia.
      * rewrite (testbit_int32_high a m Ha) by lia.
        replace (a <? 0) with false by (symmetry; apply Z.ltb_ge; lia). reflexivity.
  - assert (Hr : wrap S32 (2 ^ i) = 2 ^ i).
    { apply wrap_S32_id. split; [assert (0 < 2 ^ i) by (apply Z.pow_pos_nonneg; lia); lia|].
      assert (2 ^ i < 2 ^ 31) by (apply Z.pow_lt_mono_r; lia). change (2 ^ 31) with 2147483648 in *. lia. }
    rewrite Hr.
    destruct (Z.testbit a i) eqn:Hb; cbn [negb].
    + apply Z.eqb_neq. intro H0.
      assert (Hc : Z.testbit (Z.land a (2 ^ i)) i = false) by (rewrite H0; apply Z.bits_0).
      rewrite Z.land_spec, Hb, Z.pow2_bits_true in Hc by lia. discriminate.
    + apply Z.eqb_eq. apply Z.bits_inj'. intros m Hm. rewrite Z.land_spec, Z.bits_0.
      rewrite Z.pow2_bits_eqb by lia.
      destruct (Z.eqb_spec i m) as [<-|Hd]; [rewrite Hb; reflexivity|apply andb_false_r].
Qed.

(* ------------------------------------------------------------------ tactics *)

Lemma jrow_ok_none e : sop_of (jname e) = None -> jrow_ok e.
Proof. unfold jrow_ok. intros ->. exact I. Qed.

Lemma jrow_ok_some e o : sop_of (jname e) = Some o -> jrow_meets o e -> jrow_ok e.
Proof. unfold jrow_ok. intros ->. intro H. right. exact H. Qed.

Lemma jrow_ok_unsupported e : junsupported (jbody e) = true -> jrow_ok e.
Proof. unfold jrow_ok. intro H. destruct (sop_of (jname e)); [left; exact H|exact I]. Qed.

Ltac inv_fits H :=
  repeat match type of H with
  | Forall2 _ [] _ => clear H
  | Forall2 fits_ty (_ :: _) (_ :: _) =>
      let Hz := fresh "Hf" in let Hl := fresh "Hl" in
      inversion H as [|? ? ? ? Hz Hl]; subst; clear H; rename Hl into H; cbn [fits_ty] in Hz
  end.

(* unfold the Java evaluator on a concrete expression, leaving Z and bool operations *)
Ltac jcev :=
  cbv [jsem jdefd jev jty_of jwrap jpromote jjoin jbits jis_cmp jis_shift jis_bitop jis_num jty_eqb
       jcmp_ev in_jrange jmin jmax nth List.length Nat.ltb Nat.leb
       spec in_dom a0 a1 a2 red div_ok smin smax].

Ltac jhyps :=
  cbv [fits_extra sop_sig snd fst fits_ty spec a0 a1 a2 red nth int32 in_dom div_ok smin smax] in *.

Definition specd_j (e : jrow) : bool :=
  match sop_of (jname e) with Some _ => true | None => false end.

Lemma java_meets_spec_filter bad tbl :
  Forall (fun e => In (jname e) bad \/ jrow_ok e) (filter specd_j tbl) -> java_meets_spec bad tbl.
Proof.
  intro H. unfold java_meets_spec. rewrite Forall_forall in *. intros e He.
  destruct (specd_j e) eqn:Hs.
  - apply H. apply filter_In. split; assumption.
  - right. apply jrow_ok_none. unfold specd_j in Hs. destruct (sop_of (jname e)); [discriminate|reflexivity].
Qed.

(* ------------------------------------------------------------------ coverage *)

(* every builtin of foamBValInfoTable has a row in the Java table or is beyond its end
   (gj0BCallBValInfo then answers GJ_NotImpl); a specified builtin has a row that embeds *)
Fixpoint jlookup (n : string) (t : list jrow) : option jrow :=
  match t with
  | [] => None
  | r :: t' => if String.eqb (jname r) n then Some r else jlookup n t'
  end.

Definition is_opaque (e : jexp) : bool := match e with JOpaque _ => true | _ => false end.

(* a specified builtin has a row, and the row embeds (it may say `unsupported') *)
Definition jcovered (tbl : list jrow) (n : string) : bool :=
  match sop_of n with
  | Some _ => match jlookup n tbl with
              | Some r => negb (is_opaque (jbody r))
              | None => false
              end
  | None => true
  end.

(* the specified builtins the Java route does not support, by its own account *)
Definition junsupported_names (tbl : list jrow) : list string :=
  map jname (filter (fun r => specd_j r && junsupported (jbody r)) tbl).

Definition java_covers (tbl : list jrow) (names : list string) : Prop :=
  Forall (fun n => jcovered tbl n = true) names.

Lemma java_covers_of_b tbl names : forallb (jcovered tbl) names = true -> java_covers tbl names.
Proof. unfold java_covers. rewrite Forall_forall, forallb_forall. auto. Qed.

(* ------------------------------------------------------------------ using the table theorem *)

Lemma jrow_meets_use e o args :
  jrow_ok e -> sop_of (jname e) = Some o -> junsupported (jbody e) = false ->
  typed (fst (sop_sig o)) args -> in_dom o args = true -> fits_java o args ->
  jsem args (jbody e) = Some (spec o args).
Proof.
  unfold jrow_ok. intros H Ho Hu Ht Hd Hf. rewrite Ho in H.
  destruct H as [H|[Hs H]]; [congruence|].
  apply H; try assumption.
  unfold jrow_sig_ok in Hs. apply andb_true_iff in Hs as [Hs _]. apply andb_true_iff in Hs as [Hs _].
  apply ftys_eqb_eq in Hs. rewrite Hs. assumption.
Qed.

Lemma java_row_spec bad t e o args :
  java_meets_spec bad t -> In e t -> ~ In (jname e) bad -> sop_of (jname e) = Some o ->
  junsupported (jbody e) = false ->
  typed (fst (sop_sig o)) args -> in_dom o args = true -> fits_java o args ->
  jsem args (jbody e) = Some (spec o args).
Proof.
  intros H He Hb Ho Hu Ht Hd Hf. unfold java_meets_spec in H. rewrite Forall_forall in H.
  destruct (H e He) as [K|K]; [contradiction|].
  eapply jrow_meets_use; eassumption.
Qed.

(* Java and the interpreter: both give the mathematical value, hence the same value *)
Lemma java_interp_agree_gen badj badi jt fi n o ej ei args :
  java_meets_spec badj jt -> meets_spec badi fi ->
  sop_of n = Some o ->
  In ej jt -> jname ej = n -> ~ In n badj -> junsupported (jbody ej) = false ->
  In ei fi -> rname ei = n -> ~ In n badi ->
  typed (fst (sop_sig o)) args -> in_dom o args = true -> fits_java o args ->
  jsem args (jbody ej) = sem args (rexp ei).
Proof.
  intros Hj Hi Ho Hej Hnj Hbj Hu Hei Hni Hbi Ht Hd Hf. subst n.
  transitivity (Some (spec o args)); [|symmetry].
  - eapply java_row_spec; eauto.
  - unfold meets_spec in Hi. rewrite Forall_forall in Hi.
    destruct (Hi ei Hei) as [K|K]; [rewrite Hni in K; contradiction|].
    eapply row_meets_use; [exact K|rewrite Hni; exact Ho|assumption|assumption].
Qed.

(* ------------------------------------------------------------------ big-integer literals *)

Lemma bitlen_bound v m : v <> 0 -> bitlen v <= m -> 0 <= m -> Z.abs v < 2 ^ m.
Proof.
  intros Hv Hl Hm. unfold bitlen in Hl. destruct (Z.eqb_spec v 0) as [->|_]; [congruence|].
  assert (Ha : 0 < Z.abs v) by lia.
  destruct (Z.log2_spec (Z.abs v) Ha) as [_ Hu].
  eapply Z.lt_le_trans; [exact Hu|]. apply Z.pow_le_mono_r; lia.
Qed.

Definition bint_params_ok (p : bint_params) : bool :=
  bp_shape_ok p && (0 <=? bp_maxlen p) && (bp_maxlen p <=? 31) && ((bp_fmt_bits p =? 32) || (bp_fmt_bits p =? 64)).

(* every big-integer constant, immediate or not, is written as a Java expression with exactly its value *)
Lemma emit_bint_exact p : bint_params_ok p = true ->
  forall small v, denote_blit (emit_bint p small v) = Some v.
Proof.
  unfold bint_params_ok. intros Hp small v.
  apply andb_true_iff in Hp as [Hp Hf]. apply andb_true_iff in Hp as [Hp Hm]. apply andb_true_iff in Hp as [_ H0].
  apply Z.leb_le in Hm. apply Z.leb_le in H0.
  unfold emit_bint. destruct (Z.eqb_spec v 0) as [->|Hv]; [reflexivity|].
  destruct (small && (bitlen v <=? bp_maxlen p)) eqn:E; [|reflexivity].
  apply andb_true_iff in E as [_ El]. apply Z.leb_le in El.
  destruct (Z.eqb_spec v 1) as [->|H1]; [reflexivity|].
  pose proof (bitlen_bound v (bp_maxlen p) Hv El H0) as Hb.
  assert (Hp31 : 2 ^ bp_maxlen p <= 2 ^ 31) by (apply Z.pow_le_mono_r; lia).
  change (2 ^ 31) with 2147483648 in Hp31.
  assert (Hr : -2147483648 < v < 2147483648) by lia.
  assert (Hw : fmt_int (bp_fmt_bits p) v = v).
  { unfold fmt_int. apply orb_true_iff in Hf as [Hf|Hf]; apply Z.eqb_eq in Hf; rewrite Hf; cbn [Z.eqb Pos.eqb];
      unfold wrap; lia. }
  cbn [denote_blit]. rewrite Hw. unfold int32b.
  replace ((-2147483648 <=? v) && (v <=? 2147483647)) with true by lia. reflexivity.
Qed.
