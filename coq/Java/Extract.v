(* Extraction of the Java builtin model applied to the regenerated table (used by props/c12.py). *)
Require Import ExtrOcamlBasic.
Require Import AV.Java.Tool.
Extraction "Java/extracted/javab.ml" tool_eval tool_rows tool_sig tool_bint.
