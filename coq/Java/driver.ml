(* Driver for the Java builtin model of property C12.  One query per line on stdin:
     eval <Builtin> <operand>...      rows      sig <Builtin>
   one JSON object per line on stdout.  No arithmetic and no semantics here: conversion between
   OCaml strings and the extracted Coq strings, and printing. *)
open Javab

let ascii_of_char (c : char) : ascii =
  let n = Char.code c in
  let b i = (n lsr i) land 1 = 1 in
  Ascii (b 0, b 1, b 2, b 3, b 4, b 5, b 6, b 7)

let char_of_ascii (Ascii (b0, b1, b2, b3, b4, b5, b6, b7)) =
  let v b i = if b then 1 lsl i else 0 in
  Char.chr (v b0 0 lor v b1 1 lor v b2 2 lor v b3 3 lor v b4 4 lor v b5 5 lor v b6 6 lor v b7 7)

let to_coq (s : Stdlib.String.t) : Javab.string =
  let r = ref EmptyString in
  for i = Stdlib.String.length s - 1 downto 0 do r := String (ascii_of_char s.[i], !r) done;
  !r

let of_coq (s : Javab.string) : Stdlib.String.t =
  let b = Buffer.create 32 in
  let rec go = function EmptyString -> () | String (a, r) -> Buffer.add_char b (char_of_ascii a); go r in
  go s; Buffer.contents b

let js s = "\"" ^ Stdlib.String.escaped (of_coq s) ^ "\""

let fty_s = function
  | FBool -> "FBool" | FChar -> "FChar" | FByte -> "FByte" | FHInt -> "FHInt" | FSInt -> "FSInt"
  | FWord -> "FWord" | FBInt -> "FBInt" | FSFlo -> "FSFlo" | FDFlo -> "FDFlo" | _ -> "FOther"

let answer ws =
  match ws with
  | "eval" :: name :: args ->
    let a = tool_eval (to_coq name) (List.map to_coq args) in
    Printf.sprintf "{\"name\":\"%s\",\"kind\":%s,\"java\":%s,\"spec\":%s,\"typed\":%b,\"dom\":%b,\"fits\":%b,\"known_bad\":%b}"
      name (js a.an_kind) (js a.an_java) (js a.an_spec) a.an_typed a.an_dom a.an_fits a.an_known_bad
  | ["bint"; small; v] ->
    let (form, value) = tool_bint (small = "1") (to_coq v) in
    Printf.sprintf "{\"v\":\"%s\",\"form\":%s,\"value\":%s}" v (js form) (js value)
  | ["rows"] ->
    "{" ^ Stdlib.String.concat "," (List.map (fun (n, k) -> js n ^ ":" ^ js k) tool_rows) ^ "}"
  | ["sig"; name] ->
    let (args, r) = tool_sig (to_coq name) in
    Printf.sprintf "{\"args\":[%s],\"ret\":\"%s\"}"
      (Stdlib.String.concat "," (List.map (fun t -> "\"" ^ fty_s t ^ "\"") args)) (fty_s r)
  | _ -> "{\"error\":\"bad query\"}"

let () =
  try
    while true do
      let line = input_line stdin in
      let ws = List.filter (fun w -> w <> "") (Stdlib.String.split_on_char ' ' (Stdlib.String.trim line)) in
      if ws <> [] then (print_endline (answer ws); flush stdout)
    done
  with End_of_file -> ()
