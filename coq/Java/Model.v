(* Java/Model.v - the Java expressions the Java back end emits for FOAM builtins
   (java/genjava.c:gjBValInfoTable + lib/java/src/foamj/Math.java), with their meaning in
   Java (JLS 15: binary numeric promotion, int/long two's complement wrap-around, shift
   counts masked to 5/6 bits, / and % truncating, narrowing casts).  Definitions only.

   `jexp` is the deep embedding produced by tools/javabuiltins_gen.py.  Values are integers;
   boolean = {0,1}; char = [0,65536); byte/short/int/long signed. *)
Require Import ZArith List String Bool.
Require Import AV.Builtins.CInt AV.Builtins.Spec.
Import ListNotations.
Local Open Scope Z_scope.

Inductive jty := JBool | JByte | JShort | JChar | JInt | JLong.

Inductive junop := JNeg | JNot | JBitNot.
Inductive jbinop := JAdd | JSub | JMul | JDiv | JRem | JShl | JShr | JAnd | JOr | JXor
                  | JLAnd | JLOr | JEq | JNe | JLt | JLe | JGt | JGe.

Inductive jexp :=
| JArg (i : nat) (t : jty)             (* operand i, a Java value of type t *)
| JLit (z : Z) (t : jty)               (* integer literal *)
| JBoolLit (b : bool)
| JCharLit (c : Z)
| JConst (cls field : string)          (* Integer.MAX_VALUE ... *)
| JCast (t : jty) (e : jexp)
| JUn (o : junop) (e : jexp)
| JBin (o : jbinop) (a b : jexp)
| JCall (cls meth : string) (args : list jexp)
| JNotImpl                             (* GJ_NotImpl: the back end refuses the builtin *)
| JThrows (meth : string)              (* foamj.Math method whose body is `throw new RuntimeException()` *)
| JOpaque (why : string).              (* the translator could not embed the row *)

Record jrow := mkjrow { jname : string; jargs : list fty; jret : fty; jbody : jexp }.

Definition jty_eqb (a b : jty) : bool :=
  match a, b with
  | JBool, JBool | JByte, JByte | JShort, JShort | JChar, JChar | JInt, JInt | JLong, JLong => true
  | _, _ => false
  end.

(* range of a Java type *)
Definition jmin (t : jty) : Z :=
  match t with JBool | JChar => 0 | JByte => -128 | JShort => -32768 | JInt => -2147483648
             | JLong => -9223372036854775808 end.
Definition jmax (t : jty) : Z :=
  match t with JBool => 1 | JChar => 65535 | JByte => 127 | JShort => 32767 | JInt => 2147483647
             | JLong => 9223372036854775807 end.
Definition in_jrange (t : jty) (z : Z) : bool := (jmin t <=? z) && (z <=? jmax t).

(* narrowing / identity conversion to t (JLS 5.1.3: keep the low bits) *)
Definition jwrap (t : jty) (z : Z) : Z :=
  match t with
  | JBool => z
  | JByte => wrap S8 z
  | JShort => wrap S16 z
  | JChar => z mod 65536
  | JInt => wrap S32 z
  | JLong => wrap S64 z
  end.

(* unary / binary numeric promotion (JLS 5.6) *)
Definition jpromote (t : jty) : jty := match t with JLong => JLong | _ => JInt end.
Definition jjoin (a b : jty) : jty := match a, b with JLong, _ | _, JLong => JLong | _, _ => JInt end.
Definition jbits (t : jty) : Z := match t with JLong => 64 | _ => 32 end.

Local Open Scope string_scope.

(* static final fields the table refers to *)
Definition jconst_info (cls field : string) : option (Z * jty) :=
  if String.eqb cls "Integer" then
    if String.eqb field "MAX_VALUE" then Some (2147483647, JInt)
    else if String.eqb field "MIN_VALUE" then Some (-2147483648, JInt) else None
  else if String.eqb cls "Short" then
    if String.eqb field "MAX_VALUE" then Some (32767, JShort)
    else if String.eqb field "MIN_VALUE" then Some (-32768, JShort) else None
  else if String.eqb cls "Byte" then
    if String.eqb field "MAX_VALUE" then Some (127, JByte)
    else if String.eqb field "MIN_VALUE" then Some (-128, JByte) else None
  else if String.eqb cls "Character" then
    if String.eqb field "MAX_VALUE" then Some (65535, JChar)
    else if String.eqb field "MIN_VALUE" then Some (0, JChar) else None
  else None.

(* java.lang.Character methods, on ASCII (the property speaks of the 128 ASCII characters;
   outside ASCII Java follows Unicode and the model says `undefined') *)
Inductive jfn := JIsDigit | JIsLetter | JToLower | JToUpper.

Definition jfn_of (cls meth : string) : option jfn :=
  if String.eqb cls "Character" then
    if String.eqb meth "isDigit" then Some JIsDigit
    else if String.eqb meth "isLetter" then Some JIsLetter
    else if String.eqb meth "toLowerCase" then Some JToLower
    else if String.eqb meth "toUpperCase" then Some JToUpper
    else None
  else None.

Local Close Scope string_scope.

Definition jfn_ty (f : jfn) : jty := match f with JIsDigit | JIsLetter => JBool | _ => JChar end.

Definition jfn_ev (f : jfn) (c : Z) : Z :=
  match f with
  | JIsDigit => Z.b2z (is_digit c)
  | JIsLetter => Z.b2z (is_upper c || is_lower c)
  | JToLower => if is_upper c then c + 32 else c
  | JToUpper => if is_lower c then c - 32 else c
  end.

Definition jis_cmp (o : jbinop) : bool :=
  match o with JEq | JNe | JLt | JLe | JGt | JGe | JLAnd | JLOr => true | _ => false end.
Definition jis_shift (o : jbinop) : bool := match o with JShl | JShr => true | _ => false end.
Definition jis_bitop (o : jbinop) : bool := match o with JAnd | JOr | JXor => true | _ => false end.

(* static type *)
Fixpoint jty_of (e : jexp) : jty :=
  match e with
  | JArg _ t => t
  | JLit _ t => t
  | JBoolLit _ => JBool
  | JCharLit _ => JChar
  | JConst c f => match jconst_info c f with Some (_, t) => t | None => JInt end
  | JCast t _ => t
  | JUn JNot _ => JBool
  | JUn _ a => jpromote (jty_of a)
  | JBin o a b =>
      if jis_cmp o then JBool
      else if jis_shift o then jpromote (jty_of a)
      else if jis_bitop o && jty_eqb (jty_of a) JBool && jty_eqb (jty_of b) JBool then JBool
      else jjoin (jty_of a) (jty_of b)
  | JCall c m _ => match jfn_of c m with Some f => jfn_ty f | None => JInt end
  | _ => JInt
  end.

Definition jcmp_ev (o : jbinop) (x y : Z) : Z :=
  match o with
  | JEq => Z.b2z (x =? y) | JNe => Z.b2z (negb (x =? y))
  | JLt => Z.b2z (x <? y) | JLe => Z.b2z (x <=? y)
  | JGt => Z.b2z (y <? x) | JGe => Z.b2z (y <=? x)
  | JLAnd => Z.b2z (negb (x =? 0) && negb (y =? 0))
  | JLOr => Z.b2z (negb (x =? 0) || negb (y =? 0))
  | _ => 0
  end.

(* value (total; meaningful where jdefd holds) *)
Fixpoint jev (args : list Z) (e : jexp) : Z :=
  match e with
  | JArg i _ => nth i args 0
  | JLit z _ => z
  | JBoolLit b => Z.b2z b
  | JCharLit c => c
  | JConst c f => match jconst_info c f with Some (z, _) => z | None => 0 end
  | JCast t a => jwrap t (jev args a)
  | JUn JNot a => Z.b2z (jev args a =? 0)
  | JUn JNeg a => jwrap (jpromote (jty_of a)) (- jev args a)
  | JUn JBitNot a => Z.lnot (jev args a)
  | JBin o a b =>
      let x := jev args a in let y := jev args b in
      if jis_cmp o then jcmp_ev o x y
      else if jis_shift o then
        let t := jpromote (jty_of a) in
        match o with
        | JShl => jwrap t (Z.shiftl x (y mod jbits t))      (* count & 31 / & 63 *)
        | _ => Z.shiftr x (y mod jbits t)                    (* >> : arithmetic *)
        end
      else
        let t := jjoin (jty_of a) (jty_of b) in
        match o with
        | JAdd => jwrap t (x + y)
        | JSub => jwrap t (x - y)
        | JMul => jwrap t (x * y)
        | JDiv => jwrap t (Z.quot x y)                       (* MIN / -1 = MIN: no trap in Java *)
        | JRem => Z.rem x y
        | JAnd => Z.land x y                                 (* on booleans {0,1}: the logical operation *)
        | JOr => Z.lor x y
        | JXor => Z.lxor x y
        | _ => 0
        end
  | JCall c m [a] =>
      match jfn_of c m with Some f => jfn_ev f (jev args a) | None => 0 end
  | _ => 0
  end.

Definition jis_num (t : jty) : bool := match t with JBool => false | _ => true end.

(* definedness: well-typed, operands in the range of their Java type, no ArithmeticException,
   only the methods the model knows, called on ASCII *)
Fixpoint jdefd (args : list Z) (e : jexp) : bool :=
  match e with
  | JArg i t => in_jrange t (nth i args 0) && Nat.ltb i (List.length args)
  | JLit z t => in_jrange t z
  | JBoolLit _ => true
  | JCharLit c => in_jrange JChar c
  | JConst c f => match jconst_info c f with Some _ => true | None => false end
  | JCast t a => jis_num t && jis_num (jty_of a) && jdefd args a
  | JUn JNot a => jty_eqb (jty_of a) JBool && jdefd args a
  | JUn _ a => jis_num (jty_of a) && jdefd args a
  | JBin o a b =>
      jdefd args a && jdefd args b &&
      match o with
      | JLAnd | JLOr => jty_eqb (jty_of a) JBool && jty_eqb (jty_of b) JBool
      | JEq | JNe => jty_eqb (jty_of a) JBool && jty_eqb (jty_of b) JBool
                     || jis_num (jty_of a) && jis_num (jty_of b)
      | JAnd | JOr | JXor => jty_eqb (jty_of a) JBool && jty_eqb (jty_of b) JBool
                             || jis_num (jty_of a) && jis_num (jty_of b)
      | JDiv | JRem => jis_num (jty_of a) && jis_num (jty_of b) && negb (jev args b =? 0)
      | _ => jis_num (jty_of a) && jis_num (jty_of b)
      end
  | JCall c m [a] =>
      match jfn_of c m with
      | Some _ => jty_eqb (jty_of a) JChar && jdefd args a && (0 <=? jev args a) && (jev args a <? 128)
      | None => false
      end
  | _ => false
  end.

Definition jsem (args : list Z) (e : jexp) : option Z :=
  if jdefd args e then Some (jev args e) else None.

(* ---------------------------------------------------------------- the side condition *)

(* FOAM type -> Java type of the back end (genjava.c:gj0TypeFrFmt: SInt is `int`) *)
Definition jty_of_fty (t : fty) : option jty :=
  match t with
  | FBool => Some JBool | FChar => Some JChar | FByte => Some JByte | FHInt => Some JShort
  | FSInt => Some JInt | _ => None
  end.

Definition int32 (z : Z) : Prop := -2147483648 <= z <= 2147483647.
Definition int32b (z : Z) : bool := (-2147483648 <=? z) && (z <=? 2147483647).

(* a value of a FOAM type that the 64-bit routes and the Java route represent by the same
   number: machine integers inside 32 bits; characters inside ASCII; bytes below 128 (Java's
   byte is signed) *)
Definition fits_ty (t : fty) (z : Z) : Prop :=
  match t with
  | FSInt => int32 z
  | FChar | FByte => 0 <= z < 128
  | _ => True
  end.

Definition fits_tyb (t : fty) (z : Z) : bool :=
  match t with
  | FSInt => int32b z
  | FChar | FByte => (0 <=? z) && (z <? 128)
  | _ => true
  end.

(* intermediate results of the definition that must stay inside 32 bits as well, and the
   narrower domains of a 32-bit word *)
Definition fits_extra (o : sop) (l : list Z) : Prop :=
  let a := a0 l in let b := a1 l in
  match o with
  | SIntPlusMod => int32 (a + b)
  | SIntMinusMod => int32 (a - b)
  | SIntTimesMod => int32 (a * b)
  | SIntShiftUp | SIntShiftDn | SIntBit => 0 <= b < 32     (* a 32-bit word has 32 bit positions *)
  | CharNum => 0 <= a < 256                                 (* Java's char is 16 bits wide *)
  | _ => True
  end.

(* THE side condition of the C12 theorem: operands, result and the named intermediates are
   values the 32-bit Java word represents as the 64-bit word of the other routes does *)
Definition fits_java (o : sop) (l : list Z) : Prop :=
  Forall2 fits_ty (fst (sop_sig o)) l /\ fits_ty (snd (sop_sig o)) (spec o l) /\ fits_extra o l.

(* ---------------------------------------------------------------- big-integer literals (genjava.c:gj0BInt) *)

(* what gj0BInt emits for an immediate or boxed big integer constant *)
Inductive blit :=
| BZero                         (* BigInteger.ZERO *)
| BOne                          (* BigInteger.ONE *)
| BValueOf (lit : Z)            (* BigInteger.valueOf(<int literal>), the literal as jcLiteralInteger prints it *)
| BNewString (z : Z).           (* new BigInteger("<decimal digits of z>") *)

(* read from the sources: largest bintLength for which the valueOf form is used; width of the C conversion
   jcLiteralInteger prints with (32 for "%d", 64 for "%ld"); whether gj0BInt still has the shape modelled here *)
Record bint_params := mkbp { bp_maxlen : Z; bp_fmt_bits : Z; bp_shape_ok : bool }.

(* bintLength: number of bits of |v| *)
Definition bitlen (v : Z) : Z := if v =? 0 then 0 else Z.log2 (Z.abs v) + 1.

Definition fmt_int (bits : Z) (v : Z) : Z :=
  if bits =? 32 then wrap S32 v else if bits =? 64 then wrap S64 v else 0.

(* `small' = the constant is an immediate BInt (bintIsSmall); the theorem quantifies over it *)
Definition emit_bint (p : bint_params) (small : bool) (v : Z) : blit :=
  if v =? 0 then BZero
  else if small && (bitlen v <=? bp_maxlen p) then
    if v =? 1 then BOne else BValueOf (fmt_int (bp_fmt_bits p) v)
  else BNewString v.

(* value of the emitted Java expression; a decimal literal outside int is rejected by javac *)
Definition denote_blit (b : blit) : option Z :=
  match b with
  | BZero => Some 0
  | BOne => Some 1
  | BValueOf z => if int32b z then Some z else None
  | BNewString z => Some z
  end.
