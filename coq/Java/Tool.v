(* Java/Tool.v - what the C12 check asks the model (definitions only): the value of a table
   row on concrete operands, next to the specification and the side conditions.  Numbers
   cross the boundary as decimal strings (parsed / printed here, in Gallina). *)
Require Import ZArith List String Bool DecimalString Decimal.
Require Import AV.Builtins.CInt AV.Builtins.Spec AV.Builtins.Facts AV.Java.Model AV.Java.Facts AV.Gen.JavaBuiltins.
Import ListNotations.
Local Open Scope Z_scope.

Definition z_of_string (s : string) : option Z :=
  match NilZero.int_of_string s with Some i => Some (Z.of_int i) | None => None end.

Definition string_of_z (z : Z) : string := NilZero.string_of_int (Z.to_int z).

Fixpoint zs_of_strings (l : list string) : option (list Z) :=
  match l with
  | [] => Some []
  | s :: t => match z_of_string s, zs_of_strings t with
              | Some z, Some r => Some (z :: r)
              | _, _ => None
              end
  end.

Local Open Scope string_scope.

Fixpoint typedb (tys : list fty) (l : list Z) : bool :=
  match tys, l with
  | [], [] => true
  | t :: tys', z :: l' => in_ty_b t z && typedb tys' l'
  | _, _ => false
  end.

Record answer := mkanswer {
  an_kind : string;        (* "row" | "unsupported" | "opaque" | "norow" | "nospec" | "badargs" *)
  an_java : string;        (* value of the Java expression, "undef" when jsem = None *)
  an_spec : string;        (* the mathematical value *)
  an_typed : bool; an_dom : bool; an_fits : bool;
  an_known_bad : bool }.

Definition tool_eval (name : string) (args : list string) : answer :=
  let bad := existsb (String.eqb name) known_bad_java in
  match jlookup name java_tbl, sop_of name, zs_of_strings args with
  | _, _, None => mkanswer "badargs" "" "" false false false bad
  | None, _, _ => mkanswer "norow" "" "" false false false bad
  | Some r, None, Some l =>
      mkanswer (if junsupported (jbody r) then "unsupported" else if is_opaque (jbody r) then "opaque" else "nospec")
               (match jsem l (jbody r) with Some z => string_of_z z | None => "undef" end) "" false false false bad
  | Some r, Some o, Some l =>
      mkanswer (if junsupported (jbody r) then "unsupported" else if is_opaque (jbody r) then "opaque" else "row")
               (match jsem l (jbody r) with Some z => string_of_z z | None => "undef" end)
               (if in_dom o l then string_of_z (spec o l) else "")       (* outside the domain the definition says nothing *)
               (typedb (fst (sop_sig o)) l) (in_dom o l) (if in_dom o l then fits_javab o l else false) bad
  end.

(* names of the rows by class, for the evidence *)
Definition tool_rows : list (string * string) :=
  map (fun r => (jname r,
                 if junsupported (jbody r) then "unsupported"
                 else if is_opaque (jbody r) then "opaque"
                 else match sop_of (jname r) with Some _ => "specified" | None => "embedded-no-spec" end)) java_tbl.

Definition tool_sig (name : string) : list fty * fty :=
  match sop_of name with Some o => sop_sig o | None => ([], FOther) end.

(* what the model says the Java route makes of the Integer constant v: "zero" | "one" | "valueOf <literal>" | "string <digits>",
   and the value it denotes ("javac-error" when the literal is not a Java int) *)
Definition tool_bint (small : bool) (s : string) : string * string :=
  match z_of_string s with
  | None => ("badarg", "")
  | Some v =>
      let b := emit_bint java_bint_params small v in
      (match b with
       | BZero => "zero" | BOne => "one"
       | BValueOf z => "valueOf " ++ string_of_z z
       | BNewString z => "string " ++ string_of_z z
       end,
       match denote_blit b with Some z => string_of_z z | None => "javac-error" end)
  end.
