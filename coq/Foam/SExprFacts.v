(* SExprFacts.v -- the FOAM text form reads back what was written *)
Require Import ZArith List Lia Bool.
Require Import AV.Foam.Buf AV.Foam.Syntax AV.Foam.SExpr.
Import ListNotations.
Local Open Scope Z_scope.
Local Open Scope bool_scope.

(* ---- induction principle for s-expressions *)
Section SInd.
  Variable Q : sexp -> Prop.
  Hypothesis HA : forall a, Q (SA a).
  Hypothesis HL : forall l, Forall Q l -> Q (SL l).
  Fixpoint sexp_ind2 (s : sexp) : Q s :=
    match s with
    | SA a => HA a
    | SL l => HL l ((fix go (l : list sexp) : Forall Q l :=
                       match l with [] => Forall_nil _ | x :: r => Forall_cons x (sexp_ind2 x) (go r) end) l)
    end.
End SInd.

Fixpoint sdepth (s : sexp) : nat :=
  match s with SA _ => 1%nat | SL l => S (list_max (map sdepth l)) end.

Lemma flatten_nonempty x : (1 <= length (flatten x))%nat.
Proof. destruct x; cbn; [lia|]. lia. Qed.

Lemma flatten_head x r : exists t r', flatten x ++ r = t :: r' /\ t <> TR.
Proof.
  destruct x as [a|l]; cbn; eexists; eexists; split; try reflexivity; discriminate.
Qed.

Lemma items_flatten PF N l : forall g acc rest,
  Forall (fun x => forall r, (length (flatten x) + length r <= N)%nat -> PF (flatten x ++ r) = Some (x, r)) l ->
  (length (flat_map flatten l) + S (length rest) <= N)%nat ->
  (length l < g)%nat ->
  items PF g (flat_map flatten l ++ TR :: rest) acc = Some (SL (rev acc ++ l), rest).
Proof.
  induction l as [|x l IH]; intros g acc rest H HN Hg.
  - destruct g; [lia|]. cbn. now rewrite app_nil_r.
  - inversion H as [|? ? Hx Hl]; subst. destruct g as [|g]; [cbn in Hg; lia|].
    cbn [flat_map items]. rewrite <- app_assoc.
    cbn [flat_map] in HN. rewrite app_length in HN.
    destruct (flatten_head x (flat_map flatten l ++ TR :: rest)) as (t & r' & E & Ht).
    rewrite E. destruct t; try contradiction; rewrite <- E;
      (rewrite Hx by (rewrite app_length; cbn [length]; lia));
      (rewrite IH by (try assumption; try (cbn in Hg; lia); lia));
      cbn [rev]; rewrite <- app_assoc; reflexivity.
Qed.

Lemma flat_map_len l : (length l <= length (flat_map flatten l))%nat.
Proof.
  induction l as [|x l IH]; [cbn; lia|]. cbn [flat_map]. rewrite app_length.
  pose proof (flatten_nonempty x). cbn [length]. lia.
Qed.

(* the s-expression reader inverts the printer's token stream *)
Theorem parse_flatten s : forall fuel rest,
  (length (flatten s) + length rest < fuel)%nat -> parse fuel (flatten s ++ rest) = Some (s, rest).
Proof.
  induction s as [a|l IH] using sexp_ind2; intros fuel rest Hf.
  - destruct fuel; [cbn in Hf; lia|]. reflexivity.
  - destruct fuel as [|f]; [lia|].
    cbn [flatten app parse]. rewrite <- app_assoc. cbn [app].
    cbn [flatten length] in Hf. rewrite app_length in Hf. cbn [length] in Hf.
    rewrite (items_flatten (parse f) (length (flat_map flatten l) + S (length rest))); [reflexivity | | lia | ].
    + apply Forall_forall. intros x Hin r Hr. rewrite Forall_forall in IH. apply IH; [exact Hin|lia].
    + pose proof (flat_map_len l). lia.
Qed.

Lemma sdepth_le_length s : (sdepth s <= length (flatten s))%nat.
Proof.
  induction s as [a|l IH] using sexp_ind2; [cbn; lia|].
  cbn [sdepth flatten length]. rewrite app_length. cbn [length].
  assert (list_max (map sdepth l) <= length (flat_map flatten l))%nat.
  { induction IH as [|x l Hx _ IH2]; [cbn; lia|]. cbn [map list_max fold_right flat_map].
    fold (list_max (map sdepth l)). rewrite app_length. lia. }
  lia.
Qed.

Section WithParams.
Variable P : foam_params.
Variable T : text_params.
Hypothesis HT : text_params_ok P T = true.

Lemma last_index_skip names : forall i s cur,
  Forall (fun n => n <> s) names -> last_index i names s cur = cur.
Proof.
  induction names as [|n names IH]; intros i s cur H; [reflexivity|].
  inversion H; subst. cbn [last_index].
  destruct (bytes_eqb n s) eqn:E; [apply bytes_eqb_eq in E; contradiction|]. now apply IH.
Qed.

(* names_back, read as a statement about every position *)
Lemma names_back_nth names start l : forall i k,
  names_back P T names start i l = true -> (k < length l)%nat ->
  lookup_name P T (nth k l []) = Some (start + i + Z.of_nat k).
Proof.
  induction l as [|n l IH]; intros i k H Hk; [cbn in Hk; lia|].
  cbn [names_back] in H. apply andb_true_iff in H. destruct H as [H1 H2].
  destruct k as [|k].
  - cbn [nth]. destruct (lookup_name P T n); [|discriminate]. apply Z.eqb_eq in H1. subst. f_equal. lia.
  - cbn [nth]. rewrite (IH (i + 1) k H2) by (cbn in Hk; lia). f_equal. lia.
Qed.

Lemma ok_facts :
  names_back P T (tp_tag_names T) (fp_foam_start P) 0 (tp_tag_names T) = true /\
  names_back P T (tp_bval_names T) (fp_bval_start P) 0 (tp_bval_names T) = true /\
  names_back P T (tp_proto_names T) (fp_proto_start P) 0 (tp_proto_names T) = true /\
  names_back P T (tp_ddecl_names T) 0 0 (tp_ddecl_names T) = true /\
  Z.of_nat (length (tp_tag_names T)) = fp_limit P - fp_foam_start P /\ fp_foam_start P = 0.
Proof.
  unfold text_params_ok in HT. rewrite !andb_true_iff in HT. rewrite !Z.eqb_eq in HT. tauto.
Qed.

Lemma lookup_name_of names start z :
  names_back P T names start 0 names = true ->
  0 <= z - start < Z.of_nat (length names) ->
  lookup_name P T (name_of names start z) = Some z.
Proof.
  intros H Hz. unfold name_of. rewrite (names_back_nth names start names 0 _ H) by lia.
  f_equal. lia.
Qed.

Definition in64 (z : Z) : bool := (-9223372036854775808 <=? z) && (z <? 9223372036854775808).

Lemma wrap64s_in64 z : in64 z = true -> wrap64s z = z.
Proof.
  unfold in64. rewrite andb_true_iff, Z.leb_le, Z.ltb_lt. intros H. unfold wrap64s.
  destruct (Z_lt_le_dec z 0).
  - replace (z mod 18446744073709551616) with (z + 18446744073709551616).
    + destruct (Z.ltb_spec (z + 18446744073709551616) 9223372036854775808); lia.
    + symmetry. rewrite <- (Z.mod_add z 1) by lia. apply Z.mod_small. lia.
  - rewrite Z.mod_small by lia. destruct (Z.ltb_spec z 9223372036854775808); lia.
Qed.

Definition plain (c : letter) : bool := match c with LC | Lf | Ld => false | _ => true end.

(* one field: what the writer prints is read back as the normalised argument *)
Lemma field_back isd c a :
  wf_tfield P T c a = true ->
  exists x, field_atom P T isd c a = Some x /\
            of_field P T c (SA x) =
            Some (match c, a with Lw, Int z => Int (if isd then -1 else z) | _, _ => a end).
Proof.
  intros Hw. destruct ok_facts as (Ht & Hb & Hp & Hd & Hlen & H0).
  destruct c; destruct a; try discriminate Hw; cbn [wf_tfield field_atom of_field] in *;
    try (eexists; split; [reflexivity|]; cbn [of_field]; rewrite ?wrap64s_in64 by exact Hw; reflexivity).
  - (* t *) rewrite andb_true_iff, Z.leb_le, Z.ltb_lt in Hw.
    destruct (Z.ltb_spec z (fp_limit P)); [|lia].
    eexists; split; [reflexivity|]. cbn [of_field].
    rewrite lookup_name_of by (assumption || lia). reflexivity.
  - (* o *) rewrite andb_true_iff, Z.leb_le, Z.ltb_lt in Hw.
    eexists; split; [reflexivity|]. cbn [of_field]. rewrite lookup_name_of by (assumption || lia). reflexivity.
  - (* p *) rewrite andb_true_iff, Z.leb_le, Z.ltb_lt in Hw.
    eexists; split; [reflexivity|]. cbn [of_field]. rewrite lookup_name_of by (assumption || lia). reflexivity.
  - (* D *) rewrite andb_true_iff, Z.leb_le, Z.ltb_lt in Hw.
    eexists; split; [reflexivity|]. cbn [of_field]. rewrite lookup_name_of by (assumption || lia). reflexivity.
  - (* w *) eexists; split; [reflexivity|]. cbn [of_field].
    destruct isd; [reflexivity|]. now rewrite wrap64s_in64.
Qed.

Lemma to_sexp_is_list c n : exists l, fst (to_sexp P T c n) = SL l.
Proof.
  destruct n as [tag args]. cbn [to_sexp]. destruct (info_of P tag); [|eexists; reflexivity].
  destruct (to_args _ _ _ _ _ _ _ _) as [l c2]. eexists; reflexivity.
Qed.

Definition node_back (m : node) : Prop :=
  forall c, wf_text P T m = true -> of_sexp P T (fst (to_sexp P T c m)) = Some (tcanon P m).

Lemma args_back row isd args : forall si c extra,
  Forall (arg_Q node_back) args ->
  wf_targs P T (wf_text P T) row si args = true ->
  of_args P T (of_sexp P T) row (fst (to_args P T (to_sexp P T) row isd si args c) ++ extra) (length args) si =
  Some (tc_args (tcanon P) row isd si args).
Proof.
  induction args as [|a args IH]; intros si c extra HQ Hwf; [cbn; destruct extra; reflexivity|].
  inversion HQ as [|? ? Ha Hr]; subst.
  cbn [length to_args of_args tc_args wf_targs] in *.
  destruct (letter_at row si) eqn:EL;
  try (match type of EL with _ = ?ch =>
      apply andb_true_iff in Hwf; destruct Hwf as [Hw1 Hw2];
      destruct (field_back isd ch a Hw1) as (x & Hx1 & Hx2);
      destruct (to_args P T (to_sexp P T) row isd (S si) args c) as [l2 c2] eqn:EA;
      cbn [fst app]; rewrite Hx1; cbn [app of_args]; rewrite EL, Hx2;
      specialize (IH (S si) c extra Hr Hw2); rewrite EA in IH; cbn [fst] in IH; rewrite IH;
      destruct a; try discriminate Hw1; reflexivity end).
  - (* f *) apply andb_true_iff in Hwf. destruct Hwf as [Hw1 Hw2].
    destruct args; [|discriminate]. destruct (field_back isd Lf a Hw1) as (x & Hx1 & Hx2).
    rewrite Hx1. cbn [fst app of_args]. rewrite EL, Hx2. destruct a; try discriminate Hw1.
    cbn. destruct extra; reflexivity.
  - (* d *) apply andb_true_iff in Hwf. destruct Hwf as [Hw1 Hw2].
    destruct args; [|discriminate]. destruct (field_back isd Ld a Hw1) as (x & Hx1 & Hx2).
    rewrite Hx1. cbn [fst app of_args]. rewrite EL, Hx2. destruct a; try discriminate Hw1.
    cbn. destruct extra; reflexivity.
  - (* C *) destruct a; try discriminate Hwf.
    apply andb_true_iff in Hwf. destruct Hwf as [Hw1 Hw2]. cbn [arg_Q] in Ha.
    specialize (Ha c Hw1). destruct (to_sexp_is_list c n) as (l0 & El).
    destruct (to_sexp P T c n) as [s1 c1] eqn:ES. cbn [fst] in *. subst s1.
    destruct (to_args P T (to_sexp P T) row isd (S si) args c1) as [l2 c2] eqn:EA.
    cbn [fst app of_args]. rewrite EL, Ha.
    specialize (IH (S si) c1 extra Hr Hw2). rewrite EA in IH. cbn [fst] in IH. rewrite IH. reflexivity.
  - (* ! *) apply andb_true_iff in Hwf. destruct Hwf as [Hw1 _]. destruct a; discriminate Hw1.
Qed.

Lemma to_args_length row isd args : forall si c,
  wf_targs P T (wf_text P T) row si args = true ->
  length (fst (to_args P T (to_sexp P T) row isd si args c)) = length args.
Proof.
  induction args as [|a args IH]; intros si c Hwf; [reflexivity|].
  cbn [to_args wf_targs length] in *.
  destruct (letter_at row si) eqn:EL;
  try (apply andb_true_iff in Hwf; destruct Hwf as [Hw1 Hw2];
       specialize (IH (S si) c Hw2);
       destruct (to_args P T (to_sexp P T) row isd (S si) args c) as [l2 c2]; cbn [fst length] in *; lia).
  - apply andb_true_iff in Hwf. destruct Hwf as [Hw1 Hw2]. destruct args; [|discriminate].
    destruct (field_back isd Lf a Hw1) as (x & Hx1 & _). rewrite Hx1. reflexivity.
  - apply andb_true_iff in Hwf. destruct Hwf as [Hw1 Hw2]. destruct args; [|discriminate].
    destruct (field_back isd Ld a Hw1) as (x & Hx1 & _). rewrite Hx1. reflexivity.
  - destruct a; try discriminate Hwf. apply andb_true_iff in Hwf. destruct Hwf as [Hw1 Hw2].
    destruct (to_sexp P T c n) as [s1 c1]. specialize (IH (S si) c1 Hw2).
    destruct (to_args P T (to_sexp P T) row isd (S si) args c1) as [l2 c2]. cbn [fst length] in *. lia.
Qed.

Lemma idstr_fixed_argc c tag args row :
  info_of P tag = Some row -> r_argc row = -1 -> idstr P T c (Node tag args) = None.
Proof.
  intros EI Hn. unfold text_params_ok in HT. rewrite !andb_true_iff in HT. destruct HT as (_ & HF).
  cbn [forallb] in HF. rewrite !andb_true_iff in HF.
  assert (Hno : forall t, (match info_of P t with Some r => negb (r_argc r =? -1) | None => false end = true /\
                           negb ((t =? t_Decl P) || (t =? t_GDecl P)) = true) -> tag <> t).
  { intros t [Ht _] ->. rewrite EI in Ht. rewrite Hn in Ht. discriminate Ht. }
  destruct HF as (H1 & H2 & H3 & H4 & H5 & H6 & _).
  unfold idstr.
  destruct (Z.eqb_spec tag (t_Par T)) as [E|_]; [exfalso; now apply (Hno _ H1)|].
  destruct (Z.eqb_spec tag (t_Loc T)) as [E|_]; [exfalso; now apply (Hno _ H2)|].
  destruct (Z.eqb_spec tag (t_Glo T)) as [E|_]; [exfalso; now apply (Hno _ H3)|].
  destruct (Z.eqb_spec tag (t_Const T)) as [E|_]; [exfalso; now apply (Hno _ H4)|].
  destruct (Z.eqb_spec tag (t_Lex P)) as [E|_]; [exfalso; now apply (Hno _ H5)|].
  destruct (Z.eqb_spec tag (t_EElt T)) as [E|_]; [exfalso; now apply (Hno _ H6)|].
  reflexivity.
Qed.

Lemma node_back_all n : node_back n.
Proof.
  induction n as [tag args IH] using node_ind2. intros c Hwf.
  destruct ok_facts as (Ht & _ & _ & _ & Hlen & H0).
  cbn [wf_text] in Hwf. destruct (info_of P tag) as [row|] eqn:EI; [|discriminate].
  rewrite !andb_true_iff in Hwf. destruct Hwf as ((((Hlo & Hhi) & Hargc) & _) & Hargs).
  apply Z.leb_le in Hlo. apply Z.ltb_lt in Hhi.
  cbn [to_sexp tcanon]. rewrite EI.
  pose proof (args_back row (is_decl P tag) args 0%nat (enter P T c (Node tag args))
                (match idstr P T (enter P T c (Node tag args)) (Node tag args) with
                 | Some s => [SA (ASym s)] | None => [] end) IH Hargs) as HA.
  pose proof (to_args_length row (is_decl P tag) args 0%nat (enter P T c (Node tag args)) Hargs) as HL.
  destruct (to_args P T (to_sexp P T) row (is_decl P tag) 0 args (enter P T c (Node tag args))) as [l c2].
  cbn [fst of_sexp] in *.
  rewrite lookup_name_of by (assumption || lia). rewrite EI.
  destruct (Z.eqb_spec (r_argc row) (-1)) as [Hn|Hn].
  - rewrite (idstr_fixed_argc _ tag args row EI Hn) in *. rewrite app_nil_r in *.
    rewrite HL, HA. reflexivity.
  - apply Z.eqb_eq in Hargc. rewrite <- Hargc, Nat2Z.id, HA. reflexivity.
Qed.

(* C05 sexpr_roundtrip: reading the text of a tree gives the tree back (with the 'w' field of
   declarations at -1, as the writer prints it), whatever follows and whatever the fex* context *)
Theorem sexpr_roundtrip c n rest :
  wf_text P T n = true -> rd P T (wr P T c n ++ rest) = Some (tcanon P n, rest).
Proof.
  intros Hwf. unfold rd, wr.
  rewrite parse_flatten.
  - now rewrite node_back_all.
  - rewrite app_length. lia.
Qed.

End WithParams.
