(* CodecFacts2.v -- top-level round trip (fuel discharged), foamSIntReduce facts,
   idempotence of the normal form. *)
Require Import ZArith List Lia Bool.
Require Import AV.Foam.Buf AV.Foam.Syntax AV.Foam.Codec AV.Foam.CodecFacts.
Import ListNotations.
Local Open Scope Z_scope.
Local Open Scope bool_scope.

Section WithParams.
Variable P : foam_params.
Hypothesis HP : foam_params_ok P = true.

(* ---- nesting depth <= encoded length: every level writes its tag byte *)
Definition depth_ok (m : node) : Prop :=
  forall st, wf_node P st m = true -> (depth m <= length (fst (enc_node P st m)))%nat.

Lemma args_depth row fm ub is_prog args : forall si st,
  Forall (arg_Q depth_ok) args ->
  wf_args P (wf_node P) (enc_node P) row fm ub si args st = true ->
  (list_max (map (sub_depth depth) args) <=
   length (fst (enc_args P (enc_node P) row fm is_prog si args st)))%nat.
Proof.
  induction args as [|a args IH]; intros si st HQ Hwf; [cbn; lia|].
  inversion HQ as [|? ? Ha Hargs]; subst.
  cbn [map list_max fold_right enc_args wf_args] in *.
  fold (list_max (map (sub_depth depth) args)).
  destruct (letter_at row si) eqn:EL;
  try (match type of EL with _ = ?c =>
      apply andb_true_iff in Hwf; destruct Hwf as [Hw1 Hw2];
      assert (Hd : sub_depth depth a = 0%nat)
        by (destruct a; try reflexivity; discriminate Hw1);
      destruct (enc_field P c fm st a) as [b1 st1] eqn:EF; cbn [fst snd] in *;
      specialize (IH (S si) st1 Hargs Hw2);
      destruct (enc_args P (enc_node P) row fm is_prog (S si) args st1) as [b2 st2];
      cbn [fst snd] in *; rewrite app_length, Hd; cbn [Nat.max]; lia end).
  - (* X *)
    destruct a; try discriminate Hwf. cbn [sub_depth Nat.max].
    specialize (IH (S si) st Hargs Hwf).
    destruct (enc_args P (enc_node P) row fm is_prog (S si) args st) as [b2 st2].
    cbn [fst] in *. rewrite app_length. lia.
  - (* f *)
    apply andb_true_iff in Hwf. destruct Hwf as [Hw1 Hw2].
    destruct args; [|discriminate]. destruct a; try discriminate Hw1. cbn. lia.
  - (* d *)
    apply andb_true_iff in Hwf. destruct Hwf as [Hw1 Hw2].
    destruct args; [|discriminate]. destruct a; try discriminate Hw1. cbn. lia.
  - (* C *)
    destruct a; try discriminate Hwf.
    apply andb_true_iff in Hwf. destruct Hwf as [Hw1 Hw2].
    cbn [arg_Q sub_depth] in *. specialize (Ha st Hw1).
    destruct (enc_node P st n) as [b1 st1]. cbn [fst snd] in *.
    specialize (IH (S si) st1 Hargs Hw2).
    destruct (enc_args P (enc_node P) row fm is_prog (S si) args st1) as [b2 st2].
    cbn [fst] in *. rewrite app_length. lia.
Qed.

Lemma depth_le_enc n : depth_ok n.
Proof.
  induction n as [tag args IH] using node_ind2. intros st Hwf.
  cbn [wf_node] in Hwf. destruct (info_of P tag) as [row|] eqn:EI; [|discriminate].
  rewrite !andb_true_iff in Hwf. destruct Hwf as (_ & H6).
  cbn [enc_node depth]. rewrite EI.
  pose proof (args_depth row (tag_format P (Node tag args)) (tag =? t_Char P) (tag =? t_Prog P) args 0%nat st IH H6) as Hd.
  destruct (enc_args P (enc_node P) row _ _ 0 args st) as [b st']. cbn [fst] in *.
  rewrite !app_length. cbn [length put_byte]. lia.
Qed.

(* C05 dec_enc: whatever follows in the buffer, any node, any size *)
Theorem dec_enc st n rest :
  wf P st n = true ->
  dec P st (fst (enc P st n) ++ rest) = Some (canon P n, rest, snd (enc P st n)).
Proof.
  intros Hwf. unfold dec, enc, canon, wf in *.
  apply (dec_enc_node P HP); [| exact Hwf | rewrite app_length; lia].
  pose proof (depth_le_enc (reduce_all P n) st Hwf). rewrite app_length. lia.
Qed.

(* ---- foamSIntReduce *)
Lemma wrap64s_id x : is_int64 x -> wrap64s x = x.
Proof.
  unfold is_int64, wrap64s. intros H.
  destruct (Z_lt_le_dec x 0).
  - replace (x mod 18446744073709551616) with (x + 18446744073709551616).
    + destruct (Z.ltb_spec (x + 18446744073709551616) 9223372036854775808); lia.
    + symmetry. rewrite <- (Z.mod_add x 1) by lia. apply Z.mod_small. lia.
  - rewrite Z.mod_small by lia. destruct (Z.ltb_spec x 9223372036854775808); lia.
Qed.

Lemma lor_shift a b : 0 <= a -> 0 <= b < 2147483648 -> Z.lor (a * 2147483648) b = a * 2147483648 + b.
Proof.
  intros Ha Hb.
  assert (HL : Z.land (a * 2147483648) b = 0).
  2:{ rewrite <- Z.lxor_lor by exact HL. symmetry. apply Z.add_nocarry_lxor. exact HL. }
  change 2147483648 with (2 ^ 31). rewrite <- Z.shiftl_mul_pow2 by lia.
  apply Z.bits_inj'. intros n Hn. rewrite Z.land_spec, Z.bits_0.
  destruct (Z_lt_le_dec n 31).
  - rewrite Z.shiftl_spec_low by lia. reflexivity.
  - replace b with (b mod 2 ^ 31) by (apply Z.mod_small; change (2 ^ 31) with 2147483648; lia).
    rewrite Z.mod_pow2_bits_high by lia. apply andb_false_r.
Qed.

Definition shl31 (x : Z) : Z := wrap64s (x * 2 ^ 31).
Definition recon (x : Z) (lower : list Z) : Z := fold_left (fun a p => Z.lor (shl31 a) p) lower x.

Lemma eval_mkSInt v : eval_sint P (mkSInt P v) = Some v.
Proof. cbn. now rewrite Z.eqb_refl. Qed.

Lemma eval_rebuild lower : forall acc x,
  eval_sint P acc = Some x -> eval_sint P (sint_rebuild P acc lower) = Some (recon x lower).
Proof.
  pose proof (params_distinct P HP) as (_ & Hso & _).
  induction lower as [|p lower IH]; intros acc x Hacc; [exact Hacc|].
  cbn [sint_rebuild recon fold_left]. apply IH.
  unfold mkBCall2 at 1. cbn [eval_sint]. rewrite Z.eqb_refl.
  unfold mkBCall2. cbn [eval_sint]. rewrite Z.eqb_refl, Hacc.
  rewrite !eval_mkSInt. rewrite Z.eqb_refl.
  destruct (Z.eqb_spec (bv_SIntOr P) (bv_SIntShiftUp P)); [congruence|].
  rewrite Z.eqb_refl. reflexivity.
Qed.

(* the arithmetic core: the chunks put back together give the number *)
Lemma recon_value N :
  0 <= N < 9223372036854775808 ->
  let p0 := N mod 2147483648 in
  let p1 := (N / 2147483648) mod 2147483648 in
  let p2 := (N / 4611686018427387904) mod 2147483648 in
  (if negb (p2 =? 0) then recon p2 [p1; p0]
   else if negb (p1 =? 0) then recon p1 [p0] else p0) = N.
Proof.
  intros HN. cbn zeta.
  assert (H2 : (N / 4611686018427387904) mod 2147483648 = N / 4611686018427387904).
  { apply Z.mod_small. split; [apply Z.div_pos; lia|]. apply Z.div_lt_upper_bound; lia. }
  rewrite H2.
  pose proof (Z.mod_pos_bound N 2147483648 ltac:(lia)) as B0.
  pose proof (Z.mod_pos_bound (N / 2147483648) 2147483648 ltac:(lia)) as B1.
  assert (B2 : 0 <= N / 4611686018427387904 < 2).
  { split; [apply Z.div_pos; lia|]. apply Z.div_lt_upper_bound; lia. }
  assert (E : N = N mod 2147483648 + 2147483648 * ((N / 2147483648) mod 2147483648)
                  + 4611686018427387904 * (N / 4611686018427387904)).
  { pose proof (Z.div_mod N 2147483648 ltac:(lia)) as D1.
    pose proof (Z.div_mod (N / 2147483648) 2147483648 ltac:(lia)) as D2.
    rewrite Z.div_div in D2 by lia. change (2147483648 * 2147483648) with 4611686018427387904 in D2.
    lia. }
  set (p0 := N mod 2147483648) in *. set (p1 := (N / 2147483648) mod 2147483648) in *.
  set (p2 := N / 4611686018427387904) in *.
  unfold recon, shl31. change (2 ^ 31) with 2147483648. cbn [fold_left].
  destruct (Z.eqb_spec p2 0) as [Z2|NZ2]; cbn [negb].
  - destruct (Z.eqb_spec p1 0) as [Z1|NZ1]; cbn [negb]; [lia|].
    rewrite wrap64s_id by (unfold is_int64; lia). rewrite lor_shift by lia. lia.
  - rewrite (wrap64s_id (p2 * 2147483648)) by (unfold is_int64; lia).
    rewrite lor_shift by lia.
    rewrite wrap64s_id by (unfold is_int64; nia).
    rewrite lor_shift by lia. lia.
Qed.

Lemma recon_min :
  let N := -9223372036854775808 in
  let p0 := N mod 2147483648 in
  let p1 := (N / 2147483648) mod 2147483648 in
  let p2 := (N / 4611686018427387904) mod 2147483648 in
  (if negb (p2 =? 0) then recon p2 [p1; p0]
   else if negb (p1 =? 0) then recon p1 [p0] else p0) = N.
Proof. vm_compute. reflexivity. Qed.

Lemma eval_body number :
  let p0 := number mod 2147483648 in
  let p1 := (number / 2147483648) mod 2147483648 in
  let p2 := (number / 4611686018427387904) mod 2147483648 in
  eval_sint P (if negb (p2 =? 0) then sint_rebuild P (mkSInt P p2) [p1; p0]
               else if negb (p1 =? 0) then sint_rebuild P (mkSInt P p1) [p0]
               else mkSInt P p0) =
  Some (if negb (p2 =? 0) then recon p2 [p1; p0]
        else if negb (p1 =? 0) then recon p1 [p0] else p0).
Proof.
  cbn zeta.
  destruct (negb (_ =? 0)); [apply eval_rebuild, eval_mkSInt|].
  destruct (negb (_ =? 0)); [apply eval_rebuild, eval_mkSInt|apply eval_mkSInt].
Qed.

(* C05 sintreduce_value: the portable re-expression denotes the same 64-bit
   value, for every value including SIntMin *)
Theorem sintreduce_value v : is_int64 v -> eval_sint P (sint_reduce P v) = Some v.
Proof.
  intros Hv. unfold sint_reduce.
  destruct (int32b v) eqn:E32; [apply eval_mkSInt|].
  assert (Hbig : ~ is_int32 v) by (rewrite <- int32b_spec; congruence).
  unfold is_int32 in Hbig. unfold is_int64 in Hv.
  destruct (Z.ltb_spec v 0) as [Hneg|Hpos].
  - (* negative *)
    unfold mkBCall1. cbn [eval_sint]. rewrite !Z.eqb_refl. cbn [andb].
    rewrite eval_body.
    destruct (Z.eq_dec v (-9223372036854775808)) as [->|Hne].
    + change (wrap64s (- -9223372036854775808)) with (-9223372036854775808).
      rewrite recon_min. reflexivity.
    + rewrite (wrap64s_id (- v)) by (unfold is_int64; lia).
      rewrite recon_value by lia.
      rewrite Z.opp_involutive, wrap64s_id by (unfold is_int64; lia). reflexivity.
  - rewrite eval_body, recon_value by lia. reflexivity.
Qed.

End WithParams.
