(* LibHdrFacts.v -- proofs about LibHdr.v *)
Require Import ZArith List Lia Bool.
Require Import AV.Foam.Buf AV.Foam.LibHdr.
Import ListNotations.
Local Open Scope Z_scope.
Local Open Scope bool_scope.

Definition wf_sect (s : sect) : Prop :=
  0 <= s_name s < 256 /\ 0 <= s_off s < 4294967296 /\ 0 <= s_len s < 4294967296.

Lemma get_put_sect s r : wf_sect s -> get_sect (put_sect s ++ r) = Some (s, r).
Proof.
  intros (Hn & Ho & Hl). unfold get_sect, put_sect.
  rewrite <- !app_assoc. rewrite get_put_byte.
  rewrite get_put_sint, get_put_sint.
  rewrite !Z.mod_small by lia. now destruct s.
Qed.

Lemma get_put_sects ss r :
  Forall wf_sect ss -> get_sects (length ss) (put_sects ss ++ r) = Some (ss, r).
Proof.
  induction 1 as [|s ss Hs _ IH]; [reflexivity|].
  cbn [length put_sects get_sects]. rewrite <- app_assoc, get_put_sect by assumption.
  now rewrite IH.
Qed.

Lemma hdr_roundtrip P h rest :
  wf_hdr P h -> parse_hdr P (write_hdr h ++ rest) = Some (h, rest).
Proof.
  intros (Hm & Hma & Hmi & Hn & Hlen & Hs).
  unfold parse_hdr, write_hdr. rewrite <- !app_assoc.
  rewrite get_put_hint, get_put_sint, get_put_sint, get_put_hint.
  rewrite <- Hlen, get_put_sects by exact Hs.
  rewrite !Z.mod_small by lia. now destruct h.
Qed.

Lemma put_sects_length ss : length (put_sects ss) = (9 * length ss)%nat.
Proof. induction ss as [|s ss IH]; [reflexivity|]. cbn [put_sects]. rewrite app_length, IH. cbn. lia. Qed.

Lemma write_hdr_length h : length (write_hdr h) = (12 + 9 * length (h_sects h))%nat.
Proof. unfold write_hdr. rewrite !app_length, put_sects_length. cbn. lia. Qed.

(* ---- index_from *)
Lemma index_from_absent i ss n cur :
  Forall (fun s => s_name s <> n) ss -> index_from i ss n cur = cur.
Proof.
  intros H; revert i cur; induction H as [|s ss Hs _ IH]; intros i cur; [reflexivity|].
  cbn [index_from]. destruct (Z.eqb_spec (s_name s) n); [contradiction|]. apply IH.
Qed.

Lemma index_from_last i a s b n cur :
  s_name s = n -> Forall (fun s => s_name s <> n) b ->
  index_from i (a ++ s :: b) n cur = i + Z.of_nat (length a).
Proof.
  intros Hs Hb; revert i cur; induction a as [|x a IH]; intros i cur.
  - cbn [app index_from length]. rewrite Hs, Z.eqb_refl, index_from_absent by exact Hb. cbn. lia.
  - cbn [app index_from length]. rewrite IH. lia.
Qed.

(* ---- mk_sects *)
Lemma mk_sects_length u off : length (mk_sects u off) = length u.
Proof. revert off; induction u as [|[n c] u IH]; intros off; [reflexivity|]. cbn. now rewrite IH. Qed.

Lemma mk_sects_names u off : map s_name (mk_sects u off) = map fst u.
Proof. revert off; induction u as [|[n c] u IH]; intros off; [reflexivity|]. cbn. now rewrite IH. Qed.

Lemma mk_sects_app a b off :
  mk_sects (a ++ b) off = mk_sects a off ++ mk_sects b (off + Z.of_nat (length (body a))).
Proof.
  revert off; induction a as [|[n c] a IH]; intros off.
  - cbn. now rewrite Z.add_0_r.
  - cbn [app mk_sects]. rewrite IH. unfold body. cbn [map snd concat].
    rewrite app_length, Nat2Z.inj_add, Z.add_assoc. reflexivity.
Qed.

Lemma body_app a b : body (a ++ b) = body a ++ body b.
Proof. unfold body. now rewrite map_app, concat_app. Qed.

Lemma mk_sects_chain u prev off :
  s_off prev + s_len prev = off -> chk_chain prev (mk_sects u off) = true.
Proof.
  revert prev off; induction u as [|[n c] u IH]; intros prev off H; [reflexivity|].
  cbn [mk_sects chk_chain s_off]. rewrite H, Z.eqb_refl. cbn [andb]. apply IH. reflexivity.
Qed.

Lemma mk_sects_wf u off :
  0 <= off -> off + Z.of_nat (length (body u)) < 4294967296 ->
  Forall (fun n => 0 <= n < 256) (map fst u) ->
  Forall wf_sect (mk_sects u off).
Proof.
  revert off; induction u as [|[n c] u IH]; intros off H0 H1 Hn; [constructor|].
  cbn [mk_sects]. unfold body in H1. cbn [map snd concat] in H1.
  rewrite app_length, Nat2Z.inj_add in H1. inversion Hn; subst.
  constructor.
  - unfold wf_sect; cbn. cbn in *. lia.
  - apply IH; [lia | unfold body; lia | assumption].
Qed.

Lemma mk_sects_last u n c off d :
  let ss := mk_sects (u ++ [(n, c)]) off in
  nth (length u) ss d = mkSect n (off + Z.of_nat (length (body u))) (Z.of_nat (length c)).
Proof.
  cbn zeta. rewrite mk_sects_app. rewrite app_nth2 by (rewrite mk_sects_length; lia).
  rewrite mk_sects_length, Nat.sub_diag. reflexivity.
Qed.

Lemma mk_sects_nth pre n c post off d :
  nth (length pre) (mk_sects (pre ++ (n, c) :: post) off) d =
  mkSect n (off + Z.of_nat (length (body pre))) (Z.of_nat (length c)).
Proof.
  rewrite mk_sects_app. rewrite app_nth2 by (rewrite mk_sects_length; lia).
  rewrite mk_sects_length, Nat.sub_diag. reflexivity.
Qed.

Section WithParams.
Variable P : lib_params.
Hypothesis HP : lib_params_ok P = true.

Lemma params_facts :
  lp_sect_size P = 9 /\ lp_hdr_size P = 12 + lp_name_limit P * 9 /\
  1 <= lp_name_limit P < 256 /\ lp_name_limit P <= lp_hdr_limit P /\
  0 <= lp_magic P < 65536 /\
  0 <= lp_major P < 4294967296 /\ 0 <= lp_minor P < 4294967296.
Proof.
  unfold lib_params_ok in HP. rewrite !andb_true_iff in HP.
  rewrite !Z.eqb_eq, !Z.leb_le, !Z.ltb_lt in HP. lia.
Qed.

Lemma mk_hdr_sects_length u :
  Z.of_nat (length u) <= lp_name_limit P ->
  length (h_sects (mk_hdr P u)) = Z.to_nat (lp_name_limit P).
Proof.
  intros H. cbn [mk_hdr h_sects]. rewrite app_length, mk_sects_length, repeat_length. lia.
Qed.

Lemma mk_hdr_wf u : wf_lunit P u -> wf_hdr P (mk_hdr P u).
Proof.
  intros (H1 & H2 & Hnd & Hr & Hsz). pose proof params_facts as F.
  unfold wf_hdr. cbn [mk_hdr h_magic h_major h_minor h_num].
  repeat split; try lia.
  - apply mk_hdr_sects_length; lia.
  - cbn [mk_hdr h_sects]. apply Forall_app; split.
    + apply mk_sects_wf; try lia.
      eapply Forall_impl; [|exact Hr]. cbn. intros; lia.
    + apply Forall_forall. intros s Hs. apply repeat_spec in Hs. subst s.
      unfold dflt_sect; cbn. lia.
Qed.

Lemma write_hdr_mk_length u :
  Z.of_nat (length u) <= lp_name_limit P ->
  Z.of_nat (length (write_hdr (mk_hdr P u))) = lp_hdr_size P.
Proof.
  intros H. rewrite write_hdr_length, mk_hdr_sects_length by assumption.
  pose proof params_facts. lia.
Qed.

(* the name loop succeeds on the header the writer builds *)
Lemma chk_names_mk u pre ss :
  wf_lunit P u -> mk_sects u (lp_hdr_size P) = pre ++ ss ->
  chk_names P (mk_hdr P u) (Z.of_nat (length pre)) ss = ChkOk.
Proof.
  intros Hwf. destruct Hwf as (H1 & H2 & Hnd & Hr & Hsz).
  revert pre; induction ss as [|s ss IH]; intros pre Heq; [reflexivity|].
  cbn [chk_names].
  assert (Hnames : map fst u = map s_name pre ++ s_name s :: map s_name ss).
  { rewrite <- mk_sects_names with (off := lp_hdr_size P), Heq, map_app. reflexivity. }
  assert (Hin : In (s_name s) (map fst u)) by (rewrite Hnames; apply in_or_app; right; left; reflexivity).
  rewrite Forall_forall in Hr. specialize (Hr _ Hin).
  destruct (Z.leb_spec (lp_name_limit P) (s_name s)); [lia|].
  assert (Hidx : index_of P (mk_hdr P u) (s_name s) = Z.of_nat (length pre)).
  { unfold index_of. cbn [mk_hdr h_sects]. rewrite Heq, <- app_assoc. cbn [app].
    rewrite index_from_last; [lia | reflexivity |].
    apply Forall_app; split.
    - rewrite Hnames in Hnd. apply NoDup_remove_2 in Hnd.
      apply Forall_forall. intros x Hx Hc. apply Hnd. apply in_or_app. right.
      rewrite <- Hc. apply in_map. exact Hx.
    - apply Forall_forall. intros x Hx. apply repeat_spec in Hx. subst x.
      unfold dflt_sect; cbn. lia. }
  rewrite Hidx, Z.eqb_refl. cbn [negb].
  replace (Z.of_nat (length pre) + 1) with (Z.of_nat (length (pre ++ [s])))
    by (rewrite app_length; cbn; lia).
  apply IH. rewrite <- app_assoc. exact Heq.
Qed.

Lemma firstn_used u :
  Z.of_nat (length u) <= lp_name_limit P ->
  firstn (Z.to_nat (h_num (mk_hdr P u))) (h_sects (mk_hdr P u)) = mk_sects u (lp_hdr_size P).
Proof.
  intros H. cbn [mk_hdr h_num h_sects]. rewrite Nat2Z.id.
  rewrite firstn_app, mk_sects_length, Nat.sub_diag, firstn_O, app_nil_r.
  apply firstn_all2. rewrite mk_sects_length. lia.
Qed.

(* sections_contiguous, part 1: the writer's header passes libChkHeader
   (magic, version, count, names, Index, first offset = header size, and each
   next offset = previous offset + previous length) *)
Lemma chk_header_mk u : wf_lunit P u -> chk_header P (mk_hdr P u) = ChkOk.
Proof.
  intros Hwf. pose proof Hwf as (H1 & H2 & Hnd & Hr & Hsz). pose proof params_facts as F.
  unfold chk_header.
  rewrite firstn_used by lia.
  pose proof (chk_names_mk u [] (mk_sects u (lp_hdr_size P)) Hwf eq_refl) as Hn.
  cbn [length] in Hn. change (Z.of_nat 0) with 0 in Hn. rewrite Hn. clear Hn.
  replace (h_magic (mk_hdr P u)) with (lp_magic P) by reflexivity.
  replace (h_major (mk_hdr P u)) with (lp_major P) by reflexivity.
  replace (h_minor (mk_hdr P u)) with (lp_minor P) by reflexivity.
  replace (h_num (mk_hdr P u)) with (Z.of_nat (length u)) by reflexivity.
  rewrite Z.eqb_refl. cbn [negb].
  rewrite Z.ltb_irrefl, Z.eqb_refl, Z.ltb_irrefl. cbn [orb andb].
  destruct (Z.leb_spec (Z.of_nat (length u)) (lp_name_limit P)); [|lia]. cbn [negb].
  destruct u as [|[n c] u]; [cbn in H1; lia|].
  cbn [mk_hdr h_sects mk_sects app nth s_off tl]. rewrite Z.eqb_refl. cbn [negb].
  rewrite mk_sects_chain by reflexivity. reflexivity.
Qed.

(* sections_contiguous, part 2: the last section ends exactly at the end of the file *)
Lemma last_section_end u :
  wf_lunit P u ->
  let h := mk_hdr P u in
  let sl := nth (Z.to_nat (h_num h - 1)) (h_sects h) (dflt_sect P) in
  s_off sl + s_len sl = Z.of_nat (length (write_lib P u)).
Proof.
  intros Hwf. pose proof Hwf as (H1 & H2 & Hnd & Hr & Hsz). cbn zeta.
  unfold write_lib. rewrite app_length, Nat2Z.inj_add, write_hdr_mk_length by lia.
  destruct (@exists_last _ u) as (u' & [n c] & ->); [destruct u; cbn in H1; [lia|discriminate]|].
  cbn [mk_hdr h_num h_sects].
  replace (Z.to_nat (Z.of_nat (length (u' ++ [(n, c)])) - 1)) with (length u')
    by (rewrite app_length; cbn; lia).
  rewrite app_nth1 by (rewrite mk_sects_length, app_length; cbn; lia).
  rewrite mk_sects_last. cbn [s_off s_len].
  rewrite body_app, app_length, Nat2Z.inj_add. unfold body at 3. cbn. rewrite app_nil_r. lia.
Qed.

(* the reader on a file that starts with the writer's header *)
Lemma read_lib_prefix u rest :
  wf_lunit P u ->
  read_lib P (write_hdr (mk_hdr P u) ++ rest) =
  if Z.of_nat (length rest) <? Z.of_nat (length (body u)) then Refused SectBeyondFile
  else Loaded (mk_hdr P u).
Proof.
  intros Hwf. pose proof Hwf as (H1 & H2 & Hnd & Hr & Hsz). pose proof params_facts as F.
  unfold read_lib. rewrite app_length, Nat2Z.inj_add, write_hdr_mk_length by lia.
  destruct (Z.ltb_spec (lp_hdr_size P + Z.of_nat (length rest)) (lp_hdr_size P)); [lia|].
  rewrite hdr_roundtrip by (apply mk_hdr_wf; assumption).
  rewrite chk_header_mk by assumption.
  assert (0 < h_num (mk_hdr P u)) by (cbn; lia).
  destruct (Z.ltb_spec 0 (h_num (mk_hdr P u))); [|lia].
  pose proof (last_section_end u Hwf) as E. cbn zeta in E. rewrite E.
  unfold write_lib. rewrite app_length, Nat2Z.inj_add, write_hdr_mk_length by lia.
  destruct (Z.ltb_spec (lp_hdr_size P + Z.of_nat (length rest))
                       (lp_hdr_size P + Z.of_nat (length (body u))));
  destruct (Z.ltb_spec (Z.of_nat (length rest)) (Z.of_nat (length (body u)))); try lia; reflexivity.
Qed.

Theorem intact_loaded_hdr u :
  wf_lunit P u -> read_lib P (write_lib P u) = Loaded (mk_hdr P u).
Proof.
  intros Hwf. unfold write_lib. rewrite read_lib_prefix by assumption.
  now rewrite Z.ltb_irrefl.
Qed.

(* every section the writer put is handed back byte for byte by libGetSection *)
Theorem intact_sections u pre n c post :
  wf_lunit P u -> u = pre ++ (n, c) :: post ->
  get_section P (mk_hdr P u) (write_lib P u) n = Content c.
Proof.
  intros Hwf ->. pose proof Hwf as (H1 & H2 & Hnd & Hr & Hsz). pose proof params_facts as F.
  unfold get_section.
  assert (Hidx : index_of P (mk_hdr P (pre ++ (n, c) :: post)) n = Z.of_nat (length pre)).
  { unfold index_of. cbn [mk_hdr h_sects]. rewrite mk_sects_app. cbn [mk_sects].
    rewrite <- app_assoc. cbn [app].
    rewrite index_from_last; [rewrite mk_sects_length; lia | reflexivity |].
    apply Forall_app; split.
    - rewrite map_app in Hnd. cbn [map fst] in Hnd. apply NoDup_remove_2 in Hnd.
      apply Forall_forall. intros x Hx Hc. apply Hnd. apply in_or_app. right.
      rewrite <- Hc. rewrite <- mk_sects_names with (off := lp_hdr_size P + Z.of_nat (length (body pre)) + Z.of_nat (length c)).
      apply in_map. exact Hx.
    - apply Forall_forall. intros x Hx. apply repeat_spec in Hx. subst x.
      unfold dflt_sect; cbn.
      rewrite Forall_forall in Hr. specialize (Hr n).
      assert (In n (map fst (pre ++ (n, c) :: post))) by (rewrite map_app; apply in_or_app; right; left; reflexivity).
      specialize (Hr H). lia. }
  rewrite Hidx, Nat2Z.id. cbn [mk_hdr h_sects].
  rewrite app_nth1 by (rewrite mk_sects_length, app_length; cbn; lia).
  rewrite mk_sects_nth. cbn [s_off s_len].
  destruct (Z.eqb_spec (lp_hdr_size P + Z.of_nat (length (body pre))) 0); [lia|].
  unfold write_lib.
  replace (Z.to_nat (lp_hdr_size P + Z.of_nat (length (body pre))))
    with (length (write_hdr (mk_hdr P (pre ++ (n, c) :: post))) + length (body pre))%nat.
  2:{ pose proof (write_hdr_mk_length (pre ++ (n, c) :: post) ltac:(lia)). lia. }
  rewrite skipn_app.
  rewrite skipn_all2 by lia. cbn [app].
  replace (length (write_hdr (mk_hdr P (pre ++ (n, c) :: post))) + length (body pre) -
           length (write_hdr (mk_hdr P (pre ++ (n, c) :: post))))%nat with (length (body pre)) by lia.
  rewrite body_app. rewrite skipn_app, skipn_all, Nat.sub_diag, skipn_O. cbn [app].
  unfold body at 1. cbn [map snd concat]. fold (body post).
  now rewrite get_block_app.
Qed.

(* C17: every proper prefix of a written library file is refused *)
Theorem truncation_refused u k :
  wf_lunit P u -> (k < length (write_lib P u))%nat ->
  exists m, read_lib P (firstn k (write_lib P u)) = Refused m.
Proof.
  intros Hwf Hk. pose proof Hwf as (H1 & H2 & Hnd & Hr & Hsz). pose proof params_facts as F.
  pose proof (write_hdr_mk_length u ltac:(lia)) as HL.
  destruct (Nat.lt_ge_cases k (length (write_hdr (mk_hdr P u)))) as [Hs|Hs].
  - exists ShortHeader. unfold read_lib.
    rewrite firstn_length_le by lia.
    destruct (Z.ltb_spec (Z.of_nat k) (lp_hdr_size P)); [reflexivity|lia].
  - exists SectBeyondFile. unfold write_lib in *. rewrite firstn_app.
    rewrite firstn_all2 by lia. rewrite read_lib_prefix by assumption.
    rewrite app_length in Hk.
    rewrite firstn_length_le by lia.
    destruct (Z.ltb_spec (Z.of_nat (k - length (write_hdr (mk_hdr P u))))
                         (Z.of_nat (length (body u)))); [reflexivity|lia].
Qed.

(* C17: the reader is a total function with exactly these outcomes: a refusal with a
   diagnostic, or a header that passes every check of libChkHeader. *)
Theorem reader_total file :
  (exists m, read_lib P file = Refused m) \/
  (exists h, read_lib P file = Loaded h /\ chk_header P h = ChkOk).
Proof.
  unfold read_lib.
  destruct (Z.of_nat (length file) <? lp_hdr_size P); [left; eauto|].
  destruct (parse_hdr P file) as [[h r]|]; [|left; eauto].
  destruct (chk_header P h) eqn:E; [|left; eauto].
  destruct (0 <? h_num h).
  - destruct (Z.of_nat (length file) <? _); [left; eauto | right; eauto].
  - right; eauto.
Qed.

End WithParams.
