(* SExprFacts2.v -- re-saving a loaded .fm reproduces it: wr c (tcanon n) = wr c n *)
Require Import ZArith List Lia Bool.
Require Import AV.Foam.Buf AV.Foam.Syntax AV.Foam.SExpr AV.Foam.SExprFacts.
Import ListNotations.
Local Open Scope Z_scope.
Local Open Scope bool_scope.

Section WithParams.
Variable P : foam_params.
Variable T : text_params.
Hypothesis HT : text_params_ok P T = true.

Definition tc1 (isd : bool) (c : letter) (a : arg) : arg :=
  match c, a with Lw, Int z => Int (if isd then -1 else z) | _, _ => map_sub (tcanon P) a end.

Lemma tc_args_cons row isd si a l :
  tc_args (tcanon P) row isd si (a :: l) = tc1 isd (letter_at row si) a :: tc_args (tcanon P) row isd (S si) l.
Proof. reflexivity. Qed.

Lemma tc_args_nth row isd l : forall si k,
  nth_error (tc_args (tcanon P) row isd si l) k =
  option_map (tc1 isd (letter_at row (si + k))) (nth_error l k).
Proof.
  induction l as [|a l IH]; intros si k; [destruct k; reflexivity|].
  rewrite tc_args_cons. destruct k as [|k]; cbn [nth_error option_map].
  - now rewrite Nat.add_0_r.
  - rewrite IH. now rewrite Nat.add_succ_r.
Qed.

Lemma tc_args_length row isd l : forall si, length (tc_args (tcanon P) row isd si l) = length l.
Proof. induction l as [|a l IH]; intros si; [reflexivity|]. rewrite tc_args_cons. cbn [length]. now rewrite IH. Qed.

Lemma tc1_of_sub isd c m : tc1 isd c (Sub m) = Sub (tcanon P m).
Proof. destruct c; reflexivity. Qed.

Lemma decl_id_tc1 isd c a : decl_id (tc1 isd c a) = decl_id a.
Proof.
  destruct a; try (destruct c; reflexivity).
  rewrite tc1_of_sub. destruct n as [t l]. cbn [tcanon]. destruct (info_of P t) as [row|]; [|reflexivity].
  destruct l as [|a0 [|a1 r]]; try reflexivity. rewrite !tc_args_cons. cbn [decl_id].
  destruct a1; destruct (letter_at row 1); reflexivity.
Qed.

Lemma map_decl_id_tc row isd l : forall si, map decl_id (tc_args (tcanon P) row isd si l) = map decl_id l.
Proof.
  induction l as [|a l IH]; intros si; [reflexivity|]. rewrite tc_args_cons. cbn [map].
  now rewrite decl_id_tc1, IH.
Qed.

Lemma ddecl_ids_tc d : ddecl_ids (tcanon P d) = ddecl_ids d.
Proof.
  destruct d as [t l]. cbn [tcanon]. destruct (info_of P t) as [row|]; [|reflexivity].
  unfold ddecl_ids. destruct l as [|a l]; [reflexivity|]. rewrite tc_args_cons. cbn [tl].
  apply map_decl_id_tc.
Qed.

Lemma fmts_tc d : map ddecl_ids (subs_of (tcanon P d)) = map ddecl_ids (subs_of d).
Proof.
  destruct d as [t l]. cbn [tcanon]. destruct (info_of P t) as [row|]; [|reflexivity].
  unfold subs_of. generalize 0%nat as si. induction l as [|a l IH]; intros si; [reflexivity|].
  rewrite tc_args_cons. cbn [flat_map]. rewrite !map_app, IH. f_equal.
  destruct a; try (destruct (letter_at row si); reflexivity).
  rewrite tc1_of_sub. cbn [map]. now rewrite ddecl_ids_tc.
Qed.

Lemma sub_at_tc tag row isd args k :
  sub_at k (Node tag (tc_args (tcanon P) row isd 0 args)) = option_map (tcanon P) (sub_at k (Node tag args)).
Proof.
  unfold sub_at. rewrite tc_args_nth. destruct (nth_error args k) as [a|]; [|reflexivity].
  cbn [option_map]. destruct a; destruct (letter_at row (0 + k)); reflexivity.
Qed.

Lemma denv_ints_tc d : (match d with Node tg _ => is_decl P tg end) = false ->
  denv_ints (tcanon P d) = denv_ints d.
Proof.
  destruct d as [t l]. intros Hd. cbn [tcanon]. destruct (info_of P t) as [row|]; [|reflexivity].
  rewrite Hd. unfold denv_ints. generalize 0%nat as si.
  induction l as [|a l IH]; intros si; [reflexivity|]. rewrite tc_args_cons. cbn [map]. rewrite IH. f_equal.
  destruct a; destruct (letter_at row si); reflexivity.
Qed.

Lemma int_arg_tc row args k :
  int_arg (tc_args (tcanon P) row false 0 args) k = int_arg args k.
Proof.
  unfold int_arg.
  assert (H : forall si l k, (match nth k (tc_args (tcanon P) row false si l) (Int 0) with Int z => c_int z | _ => 0 end)
                           = (match nth k l (Int 0) with Int z => c_int z | _ => 0 end)).
  { intros si l; revert si. induction l as [|a l IH]; intros si k0; [destruct k0; reflexivity|].
    rewrite tc_args_cons. destruct k0; cbn [nth]; [|apply IH].
    destruct a; destruct (letter_at row si); reflexivity. }
  apply H.
Qed.

Lemma is_decl_six tag :
  In tag [t_Par T; t_Loc T; t_Glo T; t_Const T; t_Lex P; t_EElt T] -> is_decl P tag = false.
Proof.
  intros Hin. unfold text_params_ok in HT. rewrite !andb_true_iff in HT. destruct HT as (_ & HF).
  rewrite forallb_forall in HF. specialize (HF tag Hin). apply andb_true_iff in HF.
  destruct HF as [_ HF]. apply negb_true_iff in HF. apply orb_false_iff in HF. exact (proj1 HF).
Qed.

Lemma idstr_tc c tag row args :
  idstr P T c (Node tag (tc_args (tcanon P) row (is_decl P tag) 0 args)) = idstr P T c (Node tag args).
Proof.
  unfold idstr.
  destruct (Z.eqb_spec tag (t_Par T)) as [E|_].
  { rewrite (is_decl_six tag) by (subst; cbn; tauto). now rewrite int_arg_tc. }
  destruct (Z.eqb_spec tag (t_Loc T)) as [E|_].
  { rewrite (is_decl_six tag) by (subst; cbn; tauto). now rewrite int_arg_tc. }
  destruct (Z.eqb_spec tag (t_Glo T)) as [E|_].
  { rewrite (is_decl_six tag) by (subst; cbn; tauto). now rewrite int_arg_tc. }
  destruct (Z.eqb_spec tag (t_Const T)) as [E|_].
  { rewrite (is_decl_six tag) by (subst; cbn; tauto). now rewrite int_arg_tc. }
  destruct (Z.eqb_spec tag (t_Lex P)) as [E|_].
  { rewrite (is_decl_six tag) by (subst; cbn; tauto). now rewrite !int_arg_tc. }
  destruct (Z.eqb_spec tag (t_EElt T)) as [E|_].
  { rewrite (is_decl_six tag) by (subst; cbn; tauto). now rewrite !int_arg_tc. }
  reflexivity.
Qed.

Lemma enter_tc c tag row args :
  (if tag =? t_Prog P then match sub_at 11 (Node tag args) with Some (Node tg _) => negb (is_decl P tg) | None => true end
   else true) = true ->
  enter P T c (Node tag (tc_args (tcanon P) row (is_decl P tag) 0 args)) = enter P T c (Node tag args).
Proof.
  intros Hlv. unfold enter.
  destruct (tag =? t_Unit T).
  - rewrite sub_at_tc. destruct (sub_at 0 (Node tag args)) as [dfmt|]; [|reflexivity].
    cbn [option_map]. now rewrite fmts_tc.
  - destruct (tag =? t_Prog P); [|reflexivity].
    rewrite !sub_at_tc.
    assert (H8 : match option_map (tcanon P) (sub_at 8 (Node tag args)) with Some d => ddecl_ids d | None => [] end
                 = match sub_at 8 (Node tag args) with Some d => ddecl_ids d | None => [] end)
      by (destruct (sub_at 8 (Node tag args)); [apply ddecl_ids_tc | reflexivity]).
    assert (H9 : match option_map (tcanon P) (sub_at 9 (Node tag args)) with Some d => ddecl_ids d | None => [] end
                 = match sub_at 9 (Node tag args) with Some d => ddecl_ids d | None => [] end)
      by (destruct (sub_at 9 (Node tag args)); [apply ddecl_ids_tc | reflexivity]).
    rewrite H8, H9.
    destruct (sub_at 11 (Node tag args)) as [denv|]; [|reflexivity].
    cbn [option_map]. rewrite denv_ints_tc; [reflexivity|].
    destruct denv as [tg ?]. now apply negb_true_iff in Hlv.
Qed.

Lemma field_atom_tc1 isd c a : field_atom P T isd c (tc1 isd c a) = field_atom P T isd c a.
Proof. destruct c, a; try reflexivity. cbn. destruct isd; reflexivity. Qed.

Definition resave_ok (m : node) : Prop :=
  forall c, wf_text P T m = true -> to_sexp P T c (tcanon P m) = to_sexp P T c m.

Lemma to_args_tc row isd args : forall si c,
  Forall (arg_Q resave_ok) args ->
  wf_targs P T (wf_text P T) row si args = true ->
  to_args P T (to_sexp P T) row isd si (tc_args (tcanon P) row isd si args) c =
  to_args P T (to_sexp P T) row isd si args c.
Proof.
  induction args as [|a args IH]; intros si c HQ Hwf; [reflexivity|].
  inversion HQ as [|? ? Ha Hr]; subst. rewrite tc_args_cons.
  cbn [to_args wf_targs] in *.
  destruct (letter_at row si) eqn:EL;
  try (apply andb_true_iff in Hwf; destruct Hwf as [Hw1 Hw2];
       rewrite field_atom_tc1, ?IH by assumption; reflexivity).
  - (* C *) destruct a; try discriminate Hwf. apply andb_true_iff in Hwf. destruct Hwf as [Hw1 Hw2].
    rewrite tc1_of_sub. cbn [arg_Q] in Ha. rewrite (Ha c Hw1).
    destruct (to_sexp P T c n) as [s1 c1]. now rewrite IH.
Qed.

Lemma resave_all n : resave_ok n.
Proof.
  induction n as [tag args IH] using node_ind2. intros c Hwf.
  cbn [wf_text] in Hwf. destruct (info_of P tag) as [row|] eqn:EI; [|discriminate].
  rewrite !andb_true_iff in Hwf. destruct Hwf as (((_ & _) & Hlv) & Hargs).
  cbn [tcanon]. rewrite EI. cbn [to_sexp]. rewrite EI.
  rewrite (enter_tc c tag row args Hlv), idstr_tc.
  rewrite to_args_tc by assumption. reflexivity.
Qed.

(* C05: what was read from a .fm is written back token for token *)
Theorem resave_text c n : wf_text P T n = true -> wr P T c (tcanon P n) = wr P T c n.
Proof. intros Hwf. unfold wr. now rewrite resave_all. Qed.

End WithParams.
