(* Buf.v -- byte-level codecs of buffer.c / cport.h as they are in /repo.

   NOTE on byte order: cport.h defines BYTE0(b) = b & 0xFF (the LEAST significant
   byte) and bufPutHInt/bufPutSInt emit BYTE0 first, UNBYTE2(b0,b1) = b0 | b1<<8.
   The portable format is therefore little-endian; that is what is modelled.

   A byte is a Z; every producer below emits values in [0,256).  Consumers do
   not re-normalise: the driver only ever feeds values 0..255 (UByte storage).

   bufGet1/bufGetn assert(pos + n <= argc): reading past the end is a fault in
   C; here it is [None]. *)
Require Import ZArith List Lia Bool.
Import ListNotations.
Local Open Scope Z_scope.
Local Open Scope bool_scope.

Definition bytes := list Z.

Definition is_bytes (bs : bytes) : Prop := Forall (fun b => 0 <= b < 256) bs.

(* ---- writers: bufPutByte (UByte c), bufPutHInt (UShort h), bufPutSInt (ULong i).
   The conversions to UByte/UShort and the BYTEk masks are the [mod]s; for a
   negative z floor-division/modulo yields the two's-complement bytes. *)
Definition put_byte (z : Z) : bytes := [z mod 256].
Definition put_hint (z : Z) : bytes := [z mod 256; (z / 256) mod 256].
Definition put_sint (z : Z) : bytes :=
  [z mod 256; (z / 256) mod 256; (z / 65536) mod 256; (z / 16777216) mod 256].

(* ---- readers: bufGetByte, bufGetHInt (UNBYTE2), bufGetSInt (UNBYTE4, ULong) *)
Definition get_byte (bs : bytes) : option (Z * bytes) :=
  match bs with b :: r => Some (b, r) | [] => None end.
Definition get_hint (bs : bytes) : option (Z * bytes) :=
  match bs with b0 :: b1 :: r => Some (b0 + 256 * b1, r) | _ => None end.
Definition get_sint (bs : bytes) : option (Z * bytes) :=
  match bs with
  | b0 :: b1 :: b2 :: b3 :: r => Some (b0 + 256 * b1 + 65536 * b2 + 16777216 * b3, r)
  | _ => None
  end.

(* (int) of an unsigned 32-bit quantity, and (int) of an arbitrary long *)
Definition sext32 (u : Z) : Z := if u <? 2147483648 then u else u - 4294967296.
Definition c_int (z : Z) : Z := sext32 (z mod 4294967296).
(* (char) of a byte on x86-64/gcc: signed char *)
Definition sext8 (u : Z) : Z := if u <? 128 then u else u - 256.

Definition is_int32 (z : Z) : Prop := -2147483648 <= z < 2147483648.
Definition int32b (z : Z) : bool := (-2147483648 <=? z) && (z <? 2147483648).

(* ---- characters: bufWrChars = the bytes; bufRdChars = strAlloc(cc) +
   strncpy(s, bufGetn(buf,cc), cc): copying stops at the first NUL. *)
Fixpoint cut_nul (s : bytes) : bytes :=
  match s with
  | [] => []
  | c :: r => if c =? 0 then [] else c :: cut_nul r
  end.

(* bufGetn(buf, n): n bytes, None when fewer are left (assert in C).
   Structural on the byte list so that neither a huge count nor the length of
   the remaining input is ever computed. *)
Fixpoint take (bs : bytes) (n : Z) : option (bytes * bytes) :=
  if n <=? 0 then Some ([], bs)
  else match bs with
       | [] => None
       | b :: r => match take r (n - 1) with
                   | Some (a, r') => Some (b :: a, r')
                   | None => None
                   end
       end.

Definition get_block (n : Z) (bs : bytes) : option (bytes * bytes) :=
  if n <? 0 then None else take bs n.

Definition get_chars (n : Z) (bs : bytes) : option (bytes * bytes) :=
  match get_block n bs with
  | Some (s, r) => Some (cut_nul s, r)
  | None => None
  end.

(* a C string: bytes 1..255, no NUL *)
Definition is_cstring (s : bytes) : Prop := Forall (fun b => 1 <= b < 256) s.
Definition cstringb (s : bytes) : bool := forallb (fun b => (1 <=? b) && (b <? 256)) s.

(* ---- big integers: bintToPlacevS on a 64-bit host (BIntS is 32 bits,
   U16sPerUNotAsLong = 2): the magnitude as base-65536 digits, least
   significant first, without leading zero digit; zero is the single digit 0. *)
Fixpoint digits16 (fuel : nat) (z : Z) : list Z :=
  match fuel with
  | O => []
  | S f => if z <=? 0 then [] else Z.land z 65535 :: digits16 f (Z.shiftr z 16)
  end.
(* (mask and shift rather than mod and div: the same values -- lemma digit_step --
   but linear instead of quadratic in the extracted code) *)

(* enough fuel: one per bit *)
Definition places (z : Z) : list Z :=
  if z =? 0 then [0] else digits16 (S (Z.to_nat (Z.log2 (Z.abs z)))) (Z.abs z).

Fixpoint undigits16 (ds : list Z) : Z :=
  match ds with [] => 0 | d :: r => d + 65536 * undigits16 r end.

Fixpoint put_hints (ds : list Z) : bytes :=
  match ds with [] => [] | d :: r => put_hint d ++ put_hints r end.

(* n half-ints; structural on the input (no count-sized or length-sized work) *)
Fixpoint get_hints (bs : bytes) (n : Z) : option (list Z * bytes) :=
  if n <=? 0 then Some ([], bs)
  else match bs with
       | b0 :: b1 :: r =>
         match get_hints r (n - 1) with
         | Some (ds, r') => Some ((b0 + 256 * b1) :: ds, r')
         | None => None
         end
       | _ => None
       end.

(* ------------------------------------------------------------------ lemmas *)

Lemma put_byte_bytes z : is_bytes (put_byte z).
Proof. repeat constructor; apply Z.mod_pos_bound; lia. Qed.
Lemma put_hint_bytes z : is_bytes (put_hint z).
Proof. repeat constructor; apply Z.mod_pos_bound; lia. Qed.
Lemma put_sint_bytes z : is_bytes (put_sint z).
Proof. repeat constructor; apply Z.mod_pos_bound; lia. Qed.

Lemma get_put_byte z r : get_byte (put_byte z ++ r) = Some (z mod 256, r).
Proof. reflexivity. Qed.

Lemma hint_recompose z : z mod 256 + 256 * ((z / 256) mod 256) = z mod 65536.
Proof.
  replace 65536 with (256 * 256) by lia.
  rewrite Z.rem_mul_r by lia. reflexivity.
Qed.

Lemma get_put_hint z r : get_hint (put_hint z ++ r) = Some (z mod 65536, r).
Proof. cbn [put_hint app get_hint]. now rewrite hint_recompose. Qed.

Lemma sint_recompose z :
  z mod 256 + 256 * ((z / 256) mod 256) + 65536 * ((z / 65536) mod 256)
  + 16777216 * ((z / 16777216) mod 256) = z mod 4294967296.
Proof.
  pose proof (hint_recompose z) as H1.
  pose proof (hint_recompose (z / 65536)) as H2.
  replace (z / 65536 / 256) with (z / 16777216) in H2
    by (rewrite Z.div_div by lia; reflexivity).
  replace 4294967296 with (65536 * 65536) by lia.
  rewrite Z.rem_mul_r by lia. lia.
Qed.

Lemma get_put_sint z r : get_sint (put_sint z ++ r) = Some (z mod 4294967296, r).
Proof. cbn [put_sint app get_sint]. now rewrite sint_recompose. Qed.

Lemma c_int_id z : is_int32 z -> c_int z = z.
Proof.
  unfold is_int32, c_int, sext32. intros H.
  destruct (Z_lt_le_dec z 0).
  - replace (z mod 4294967296) with (z + 4294967296).
    + destruct (Z.ltb_spec (z + 4294967296) 2147483648); lia.
    + symmetry. rewrite <- (Z.mod_add z 1 4294967296) by lia.
      apply Z.mod_small. lia.
  - rewrite Z.mod_small by lia. destruct (Z.ltb_spec z 2147483648); lia.
Qed.

Lemma c_int_range z : is_int32 (c_int z).
Proof.
  unfold is_int32, c_int, sext32.
  pose proof (Z.mod_pos_bound z 4294967296 ltac:(lia)).
  destruct (Z.ltb_spec (z mod 4294967296) 2147483648); lia.
Qed.

Lemma int32b_spec z : int32b z = true <-> is_int32 z.
Proof. unfold int32b, is_int32. rewrite andb_true_iff, Z.leb_le, Z.ltb_lt. tauto. Qed.

Lemma sext8_id z : -128 <= z < 128 -> sext8 (z mod 256) = z.
Proof.
  intros H. unfold sext8. destruct (Z_lt_le_dec z 0).
  - replace (z mod 256) with (z + 256).
    + destruct (Z.ltb_spec (z + 256) 128); lia.
    + symmetry. rewrite <- (Z.mod_add z 1 256) by lia. apply Z.mod_small. lia.
  - rewrite Z.mod_small by lia. destruct (Z.ltb_spec z 128); lia.
Qed.

Lemma cut_nul_cstring s : is_cstring s -> cut_nul s = s.
Proof.
  induction 1 as [|c r Hc _ IH]; [reflexivity|].
  cbn [cut_nul]. destruct (Z.eqb_spec c 0); [lia|]. now rewrite IH.
Qed.

Lemma cstringb_spec s : cstringb s = true <-> is_cstring s.
Proof.
  unfold cstringb, is_cstring. rewrite forallb_forall, Forall_forall.
  split; intros H x Hx; specialize (H x Hx).
  - rewrite andb_true_iff, Z.leb_le, Z.ltb_lt in H. lia.
  - rewrite andb_true_iff, Z.leb_le, Z.ltb_lt. lia.
Qed.

Lemma take_app s r : take (s ++ r) (Z.of_nat (length s)) = Some (s, r).
Proof.
  induction s as [|c s IH].
  - cbn. destruct r; reflexivity.
  - cbn [length app take]. destruct (Z.leb_spec (Z.of_nat (S (length s))) 0); [lia|].
    replace (Z.of_nat (S (length s)) - 1) with (Z.of_nat (length s)) by lia.
    now rewrite IH.
Qed.

Lemma get_block_app s r :
  get_block (Z.of_nat (length s)) (s ++ r) = Some (s, r).
Proof.
  unfold get_block. destruct (Z.ltb_spec (Z.of_nat (length s)) 0); [lia|]. apply take_app.
Qed.

Lemma get_chars_app s r :
  is_cstring s -> get_chars (Z.of_nat (length s)) (s ++ r) = Some (s, r).
Proof.
  intros Hs. unfold get_chars. rewrite get_block_app. now rewrite cut_nul_cstring.
Qed.

Lemma take_length bs n a r : take bs n = Some (a, r) -> (length r <= length bs)%nat.
Proof.
  revert n a r; induction bs as [|b bs IH]; intros n a r; cbn [take].
  - destruct (n <=? 0); [intros [= <- <-]; lia | discriminate].
  - destruct (n <=? 0); [intros [= <- <-]; lia |].
    destruct (take bs (n - 1)) as [[a' r']|] eqn:E; [|discriminate].
    intros [= <- <-]. apply IH in E. cbn. lia.
Qed.

Lemma get_put_hints ds r :
  Forall (fun d => 0 <= d < 65536) ds ->
  get_hints (put_hints ds ++ r) (Z.of_nat (length ds)) = Some (ds, r).
Proof.
  induction 1 as [|d ds Hd _ IH].
  - cbn. destruct r as [|? [|? ?]]; reflexivity.
  - cbn [length put_hints put_hint app get_hints].
    destruct (Z.leb_spec (Z.of_nat (S (length ds))) 0); [lia|].
    replace (Z.of_nat (S (length ds)) - 1) with (Z.of_nat (length ds)) by lia.
    rewrite IH. rewrite hint_recompose. now rewrite Z.mod_small by lia.
Qed.

Lemma digit_step z : Z.land z 65535 = z mod 65536 /\ Z.shiftr z 16 = z / 65536.
Proof.
  split.
  - change 65535 with (Z.ones 16). rewrite Z.land_ones by lia. reflexivity.
  - rewrite Z.shiftr_div_pow2 by lia. reflexivity.
Qed.

Lemma digits16_range f z : Forall (fun d => 0 <= d < 65536) (digits16 f z).
Proof.
  revert z; induction f as [|f IH]; intros z; cbn [digits16]; [constructor|].
  destruct (z <=? 0); constructor; [|apply IH].
  rewrite (proj1 (digit_step z)). apply Z.mod_pos_bound; lia.
Qed.

Lemma undigits_digits16 f z :
  0 <= z -> z < 2 ^ Z.of_nat f -> undigits16 (digits16 f z) = z.
Proof.
  revert z; induction f as [|f IH]; intros z Hz Hlt.
  - cbn in *. lia.
  - cbn [digits16]. destruct (Z.leb_spec z 0); [cbn; lia|].
    destruct (digit_step z) as [-> ->].
    cbn [undigits16]. rewrite IH.
    + pose proof (Z.div_mod z 65536 ltac:(lia)). lia.
    + apply Z.div_pos; lia.
    + rewrite Nat2Z.inj_succ, Z.pow_succ_r in Hlt by lia.
      apply Z.div_lt_upper_bound; [lia|].
      assert (0 < 2 ^ Z.of_nat f) by (apply Z.pow_pos_nonneg; lia). lia.
Qed.

Lemma places_range z : Forall (fun d => 0 <= d < 65536) (places z).
Proof.
  unfold places. destruct (z =? 0); [repeat constructor; lia | apply digits16_range].
Qed.

Lemma undigits_places z : undigits16 (places z) = Z.abs z.
Proof.
  unfold places. destruct (Z.eqb_spec z 0) as [->|Hz]; [reflexivity|].
  apply undigits_digits16; [lia|].
  rewrite Nat2Z.inj_succ, Z2Nat.id by (apply Z.log2_nonneg).
  apply Z.log2_lt_pow2; lia.
Qed.

Lemma places_nonempty z : places z <> [].
Proof.
  unfold places. destruct (Z.eqb_spec z 0) as [->|Hz]; [discriminate|].
  cbn [digits16]. destruct (Z.leb_spec (Z.abs z) 0); [lia | discriminate].
Qed.
