(* CodecFacts3.v -- the normal form of save+load is idempotent *)
Require Import ZArith List Lia Bool.
Require Import AV.Foam.Buf AV.Foam.Syntax AV.Foam.Codec AV.Foam.CodecFacts.
Import ListNotations.
Local Open Scope Z_scope.
Local Open Scope bool_scope.

Section WithParams.
Variable P : foam_params.
Hypothesis HP : foam_params_ok P = true.

Lemma big_sint_map F tag args :
  big_sint_of P tag (map (map_sub F) args) = big_sint_of P tag args.
Proof.
  unfold big_sint_of. destruct (tag =? t_SInt P); [|reflexivity].
  destruct args as [|[] [|? ?]]; reflexivity.
Qed.

Lemma red_mkSInt p : int32b p = true -> reduce_all P (mkSInt P p) = mkSInt P p.
Proof.
  intros H. unfold mkSInt. cbn [reduce_all]. unfold big_sint_of. rewrite Z.eqb_refl.
  unfold sint_reduce. now rewrite H.
Qed.

Lemma red_mkBCall2 op a b :
  reduce_all P (mkBCall2 P op a b) = mkBCall2 P op (reduce_all P a) (reduce_all P b).
Proof.
  pose proof (params_distinct P HP) as (Hsb & _).
  unfold mkBCall2. cbn [reduce_all]. unfold big_sint_of.
  destruct (Z.eqb_spec (t_BCall P) (t_SInt P)); [congruence|]. reflexivity.
Qed.

Lemma red_mkBCall1 op a :
  reduce_all P (mkBCall1 P op a) = mkBCall1 P op (reduce_all P a).
Proof.
  pose proof (params_distinct P HP) as (Hsb & _).
  unfold mkBCall1. cbn [reduce_all]. unfold big_sint_of.
  destruct (Z.eqb_spec (t_BCall P) (t_SInt P)); [congruence|]. reflexivity.
Qed.

Lemma red_rebuild lower : forall acc,
  reduce_all P acc = acc -> Forall (fun p => int32b p = true) lower ->
  reduce_all P (sint_rebuild P acc lower) = sint_rebuild P acc lower.
Proof.
  induction lower as [|p lower IH]; intros acc Hacc Hl; [exact Hacc|].
  inversion Hl; subst. cbn [sint_rebuild]. apply IH; [|assumption].
  rewrite !red_mkBCall2, Hacc, !red_mkSInt by (assumption || reflexivity). reflexivity.
Qed.

Lemma part_small x : int32b (x mod 2147483648) = true.
Proof.
  apply int32b_spec. pose proof (Z.mod_pos_bound x 2147483648 ltac:(lia)).
  unfold is_int32. lia.
Qed.

Lemma red_sint_reduce v : reduce_all P (sint_reduce P v) = sint_reduce P v.
Proof.
  unfold sint_reduce. destruct (int32b v) eqn:E; [now apply red_mkSInt|].
  set (number := if v <? 0 then wrap64s (- v) else v).
  assert (Hbody : forall body,
    body = (if negb ((number / 4611686018427387904) mod 2147483648 =? 0)
            then sint_rebuild P (mkSInt P ((number / 4611686018427387904) mod 2147483648))
                   [(number / 2147483648) mod 2147483648; number mod 2147483648]
            else if negb ((number / 2147483648) mod 2147483648 =? 0)
            then sint_rebuild P (mkSInt P ((number / 2147483648) mod 2147483648)) [number mod 2147483648]
            else mkSInt P (number mod 2147483648)) ->
    reduce_all P body = body).
  { intros body ->.
    destruct (negb (_ =? 0)).
    - apply red_rebuild; [apply red_mkSInt, part_small|].
      repeat constructor; apply part_small.
    - destruct (negb (_ =? 0)).
      + apply red_rebuild; [apply red_mkSInt, part_small|]. repeat constructor; apply part_small.
      + apply red_mkSInt, part_small. }
  destruct (v <? 0).
  - rewrite red_mkBCall1. now rewrite (Hbody _ eq_refl).
  - now apply Hbody.
Qed.

Lemma reduce_all_idem n : reduce_all P (reduce_all P n) = reduce_all P n.
Proof.
  induction n as [tag args IH] using node_ind2.
  cbn [reduce_all]. destruct (big_sint_of P tag args) eqn:E.
  - apply red_sint_reduce.
  - cbn [reduce_all]. rewrite big_sint_map, E. f_equal.
    rewrite map_map. apply map_ext_in. intros a Hin.
    rewrite Forall_forall in IH. specialize (IH a Hin).
    destruct a; cbn [map_sub arg_Q] in *; try reflexivity. now rewrite IH.
Qed.

(* ---- zero_x *)
Lemma zx_args_idem row args : forall si,
  Forall (arg_Q (fun m => zero_x P (zero_x P m) = zero_x P m)) args ->
  zx_args (zero_x P) row si (zx_args (zero_x P) row si args) = zx_args (zero_x P) row si args.
Proof.
  induction args as [|a args IH]; intros si H; [reflexivity|].
  inversion H as [|? ? Ha Hr]; subst. cbn [zx_args]. rewrite IH by assumption. f_equal.
  destruct (letter_at row si); try reflexivity;
    destruct a; cbn [map_sub arg_Q] in *; try reflexivity; now rewrite Ha.
Qed.

Lemma zero_x_idem n : zero_x P (zero_x P n) = zero_x P n.
Proof.
  induction n as [tag args IH] using node_ind2.
  cbn [zero_x]. destruct (info_of P tag) as [row|] eqn:EI.
  - cbn [zero_x]. rewrite EI. f_equal. now apply zx_args_idem.
  - cbn [zero_x]. now rewrite EI.
Qed.

(* rows other than Prog have no X *)
Lemma rows_ok_nth rows : forall tag0 k row,
  rows_ok P tag0 rows = true -> nth_error rows k = Some row -> row_ok P (tag0 + Z.of_nat k) row = true.
Proof.
  induction rows as [|r rows IH]; intros tag0 k row Hok Hn; [destruct k; discriminate|].
  cbn [rows_ok] in Hok. apply andb_true_iff in Hok. destruct Hok as [H1 H2].
  destruct k as [|k].
  - cbn in Hn. injection Hn as <-. now rewrite Z.add_0_r.
  - cbn [nth_error] in Hn. replace (tag0 + Z.of_nat (S k)) with (tag0 + 1 + Z.of_nat k) by lia.
    now apply IH.
Qed.

Lemma info_row_ok tag row : info_of P tag = Some row -> row_ok P tag row = true.
Proof.
  unfold info_of. destruct (Z.ltb_spec tag 0) as [Hlt|Hge]; [discriminate|]. intros Hnth.
  unfold foam_params_ok in HP. rewrite !andb_true_iff in HP.
  assert (Hr : rows_ok P 0 (fp_table P) = true) by intuition.
  pose proof (rows_ok_nth _ 0 _ _ Hr Hnth) as H2. now rewrite Z.add_0_l, Z2Nat.id in H2 by lia.
Qed.

Lemma no_x tag row si :
  info_of P tag = Some row -> tag <> t_Prog P -> letter_at row si <> LX.
Proof.
  intros HI Ht. pose proof (info_row_ok _ _ HI) as Hok.
  unfold row_ok in Hok. rewrite !andb_true_iff in Hok.
  destruct Hok as ((((Htl & Hhd) & _) & _) & _).
  assert (Hall : forall c, In c (r_letters row) -> c <> LX).
  { intros c Hin. destruct (r_letters row) as [|c0 tl0] eqn:EL; [contradiction|].
    destruct Hin as [<-|Hin].
    - intros ->. apply Z.eqb_eq in Hhd. contradiction.
    - cbn [tl] in Htl. rewrite forallb_forall in Htl. specialize (Htl c Hin).
      intros ->. discriminate Htl. }
  unfold letter_at. destruct (nth_error (r_letters row) si) eqn:En.
  - apply Hall. eapply nth_error_In. exact En.
  - destruct (r_star row); [|discriminate].
    destruct (r_letters row) as [|c0 tl0] eqn:EL; [cbn; discriminate|].
    apply Hall. rewrite <- EL. apply (@exists_last _) in EL || idtac.
    clear - EL. rewrite EL.
    assert (Hne : c0 :: tl0 <> []) by discriminate.
    destruct (exists_last Hne) as (l' & x & ->). rewrite last_last. apply in_or_app. right. now left.
Qed.

Lemma zx_args_nox F row args : forall si,
  (forall k, letter_at row k <> LX) -> zx_args F row si args = map (map_sub F) args.
Proof.
  induction args as [|a args IH]; intros si H; [reflexivity|].
  cbn [zx_args map]. rewrite IH by assumption. f_equal.
  specialize (H si). destruct (letter_at row si); try reflexivity. contradiction.
Qed.

Lemma zero_x_fix_node tag args :
  tag <> t_Prog P -> Forall (arg_Q (fun m => zero_x P m = m)) args ->
  zero_x P (Node tag args) = Node tag args.
Proof.
  intros Ht Hf. cbn [zero_x]. destruct (info_of P tag) as [row|] eqn:EI; [|reflexivity].
  rewrite zx_args_nox by (intros k; now apply (no_x tag)). f_equal.
  rewrite <- (map_id args) at 2. apply map_ext_in. intros a Hin.
  rewrite Forall_forall in Hf. specialize (Hf a Hin).
  destruct a; cbn [map_sub arg_Q] in *; try reflexivity. now rewrite Hf.
Qed.

Lemma zx_mkSInt v : zero_x P (mkSInt P v) = mkSInt P v.
Proof.
  pose proof (params_distinct P HP) as (_ & _ & Hsp & _).
  apply zero_x_fix_node; [assumption|]. repeat constructor.
Qed.

Lemma zx_rebuild lower : forall acc,
  zero_x P acc = acc -> zero_x P (sint_rebuild P acc lower) = sint_rebuild P acc lower.
Proof.
  pose proof (params_distinct P HP) as (_ & _ & _ & Hbp).
  induction lower as [|p lower IH]; intros acc Hacc; [exact Hacc|].
  cbn [sint_rebuild]. apply IH. unfold mkBCall2.
  apply zero_x_fix_node; [assumption|].
  repeat constructor; cbn [arg_Q]; [|apply zx_mkSInt].
  apply zero_x_fix_node; [assumption|]. repeat constructor; cbn [arg_Q]; [exact Hacc|apply zx_mkSInt].
Qed.

Lemma zx_sint_reduce v : zero_x P (sint_reduce P v) = sint_reduce P v.
Proof.
  pose proof (params_distinct P HP) as (_ & _ & _ & Hbp).
  unfold sint_reduce. destruct (int32b v); [apply zx_mkSInt|].
  set (body := if negb (_ =? 0) then _ else _).
  assert (Hb : zero_x P body = body).
  { unfold body. destruct (negb (_ =? 0)); [apply zx_rebuild, zx_mkSInt|].
    destruct (negb (_ =? 0)); [apply zx_rebuild, zx_mkSInt|apply zx_mkSInt]. }
  destruct (v <? 0); [|exact Hb].
  unfold mkBCall1. apply zero_x_fix_node; [assumption|]. repeat constructor. exact Hb.
Qed.

Lemma big_sint_zx tag row args :
  info_of P tag = Some row ->
  big_sint_of P tag (zx_args (zero_x P) row 0 args) = big_sint_of P tag args.
Proof.
  intros EI. pose proof (params_distinct P HP) as (_ & _ & Hsp & _).
  unfold big_sint_of. destruct (Z.eqb_spec tag (t_SInt P)) as [->|]; [|reflexivity].
  rewrite zx_args_nox by (intros k; now apply (no_x (t_SInt P))).
  destruct args as [|[] [|? ?]]; reflexivity.
Qed.

Lemma zx_red_args row args : forall si,
  Forall (arg_Q (fun m => reduce_all P (zero_x P m) = zero_x P (reduce_all P m))) args ->
  map (map_sub (reduce_all P)) (zx_args (zero_x P) row si args) =
  zx_args (zero_x P) row si (map (map_sub (reduce_all P)) args).
Proof.
  induction args as [|a args IH]; intros si H; [reflexivity|].
  inversion H as [|? ? Ha Hr]; subst. cbn [zx_args map]. rewrite IH by assumption. f_equal.
  destruct (letter_at row si); try reflexivity;
    destruct a; cbn [map_sub arg_Q] in *; try reflexivity; now rewrite Ha.
Qed.

Lemma red_zx_commute n : reduce_all P (zero_x P n) = zero_x P (reduce_all P n).
Proof.
  induction n as [tag args IH] using node_ind2.
  cbn [zero_x]. destruct (info_of P tag) as [row|] eqn:EI.
  - cbn [reduce_all]. rewrite big_sint_zx by exact EI.
    destruct (big_sint_of P tag args) eqn:E.
    + now rewrite zx_sint_reduce.
    + cbn [zero_x]. rewrite EI. f_equal. now apply zx_red_args.
  - cbn [reduce_all]. destruct (big_sint_of P tag args) eqn:E.
    + now rewrite zx_sint_reduce.
    + cbn [zero_x]. now rewrite EI.
Qed.

(* C05 canon_idempotent *)
Theorem canon_idempotent n : canon P (canon P n) = canon P n.
Proof.
  unfold canon. rewrite red_zx_commute, reduce_all_idem, zero_x_idem. reflexivity.
Qed.

End WithParams.
