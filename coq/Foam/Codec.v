(* Codec.v -- foamToBuffer / foamFrBuffer / foamTagFormat (foam.c) over generic
   nodes and a generated foamInfoTable.

   enc : latch -> node -> bytes * latch        (foamToBuffer; the static labelFmt is the latch)
   dec : latch -> bytes -> option (node * bytes * latch)   (foamFrBuffer)
   [None] = the C code would run into an assert / bugBadCase / wild read.

   Deviation from the text of the C code, stated once:
   * the Prog size field ('X') is back-patched in C after the node is written
     (bufSetPosition(offPos); PUT_INT(int0, tmpPos - offPos)); here the final
     value 4 + |bytes of the remaining arguments| is emitted directly.
     [foam_params_ok] demands that 'X' occurs only as first letter of Prog.
   * the argument loop of the decoder refuses an n-ary count larger than
     [lim] (total input length + IMMED_FORMS) up front: with formats 0/1 every argument
     takes at least one byte, with an immediate format the count is <= 3, so C
     would run off the buffer (assert in bufGetn/bufGet1) -- also [None].
   * foamTagFormat reads .data of EVERY argument of Rec/DEnv/DFluid, also of
     code arguments (pointer bits); [arg_int] of a non-integer argument is 0
     here and [wf_node] excludes such nodes (the compiler never builds them). *)
Require Import ZArith List Lia Bool.
Require Import AV.Foam.Buf AV.Foam.Syntax.
Import ListNotations.
Local Open Scope Z_scope.
Local Open Scope bool_scope.

Section WithParams.
Variable P : foam_params.

(* FOAM_FORMAT_FOR *)
Definition fmt_for (n : Z) : Z := if n <=? fp_max_byte P then 1 else 0.

(* FOAM_PUT_INT / FOAM_GET_INT; the receiving variables are all [int] *)
Definition put_int (fm z : Z) : bytes :=
  if fm =? 0 then put_sint z else if fm =? 1 then put_byte z else [].
Definition get_int (fm : Z) (bs : bytes) : option (Z * bytes) :=
  if fm =? 0 then match get_sint bs with Some (u, r) => Some (sext32 u, r) | None => None end
  else if fm =? 1 then get_byte bs
  else Some (fm - fp_std_forms P, bs).

Definition arg_int (a : arg) : Z := match a with Int z => c_int z | _ => 0 end.
Definition arg_strlen (a : arg) : Z := match a with Str s => Z.of_nat (length s) | _ => 0 end.
Definition nth_arg (args : list arg) (k : nat) : arg := nth k args (Int 0).
Definition slen_of (z : Z) : Z := Z.of_nat (length (places z)).
(* bint->placec after xintStore: BIntS digits *)
Definition placec_of (z : Z) : Z := (slen_of z + fp_u16_per_digit P - 1) / fp_u16_per_digit P.

Definition is_nary (tag : Z) : bool :=
  match info_of P tag with Some r => r_argc r =? -1 | None => false end.

Definition multint_x (tag : Z) : option (nat * option nat) :=
  if tag =? t_Lex P then Some (1%nat, None)
  else if tag =? t_RElt P then Some (2%nat, None)
  else if tag =? t_RRElt P then Some (0%nat, None)
  else if tag =? t_EElt P then Some (2%nat, Some 3%nat)
  else if tag =? t_IRElt P then Some (2%nat, None)
  else if tag =? t_TRElt P then Some (3%nat, None)
  else None.   (* bugBadCase *)

(* foamTagFormat *)
Definition tag_format (n : node) : Z :=
  match n with
  | Node tag args =>
    let argc := Z.of_nat (length args) in
    if tag <? fp_index_start P then
      if tag <? fp_origin P then 0
      else if tag =? t_Unimp P then fmt_for (arg_strlen (nth_arg args 0))
      else if (tag =? t_Decl P) || (tag =? t_GDecl P) then
        let si := arg_strlen (nth_arg args 1) in
        let di := arg_int (nth_arg args 3) in
        fmt_for (if si <? di then di else si)
      else if tag =? t_BInt P then
        (* "The count written is in 16-bit places": placec * (sizeof(BIntS)/sizeof(U16)) *)
        fmt_for (match nth_arg args 0 with BIntA z => placec_of z * fp_u16_per_digit P | _ => 0 end)
      else fmt_for 0
    else if (tag =? t_Rec P) || (tag =? t_DEnv P) || (tag =? t_DFluid P) then
      if (fmt_for argc =? 1) && forallb (fun a => fmt_for (arg_int a) =? 1) args then 1 else 0
    else if (tag <? fp_index_limit P) || is_nary tag then
      let si := if is_nary tag then argc else arg_int (nth_arg args 0) in
      let f0 := if si <? fp_immed_forms P then fp_std_forms P + si else fmt_for si in
      (* "A Prog's format index is written in the same format as its count":
         foam->foamProg.format is argv[3].data, a long *)
      let pf := fmt_for (match nth_arg args 3 with Int z => z | _ => 0 end) in
      if (tag =? t_Prog P) && (pf <? f0) then pf else f0
    else
      match multint_x tag with
      | None => 0
      | Some (x1, x2) =>
        let i0 := arg_int (nth_arg args 0) in
        let i1 := arg_int (nth_arg args x1) in
        let i2 := match x2 with None => 0 | Some k => arg_int (nth_arg args k) end in
        if (fp_max_byte P <? i0) || (fp_max_byte P <? i1) || (fp_max_byte P <? i2) then 0 else 1
      end
  end.

(* one non-code, non-X argument *)
Definition enc_field (c : letter) (fm st : Z) (a : arg) : bytes * Z :=
  match c, a with
  | Lt, Int z => (put_byte (z - fp_foam_start P), st)
  | Lo, Int z => (if fp_bval_bytes P =? 1 then put_byte (z - fp_bval_start P)
                  else put_hint (z - fp_bval_start P), st)
  | Lp, Int z => (put_byte (z - fp_proto_start P), st)
  | LD, Int z => (put_byte z, st)
  | Lb, Int z => (put_byte z, st)
  | Lh, Int z => (put_hint z, st)
  | Lw, Int z => (put_sint z, st)
  | LF, Int z => (put_sint z, fmt_for (c_int z))
  | LL, Int z => (put_int st z, st)
  | Li, Int z => (put_int fm z, st)
  | Ls, Str s => (put_int fm (Z.of_nat (length s)) ++ s, st)
  | Lf, SFloA b => (b, st)
  | Ld, DFloA b => (b, st)
  | Ln, BIntA z => (put_byte (if z <? 0 then 1 else 0) ++ put_int fm (slen_of z) ++ put_hints (places z), st)
  | _, _ => ([], st)
  end.

Section EncArgs.
  Variable E : Z -> node -> bytes * Z.
  Variable row : info_row.
  Variable fm : Z.
  Variable is_prog : bool.
  Fixpoint enc_args (si : nat) (args : list arg) (st : Z) : bytes * Z :=
    match args with
    | [] => ([], st)
    | a :: r =>
      match letter_at row si with
      | LC => match a with
              | Sub m => let '(b1, st1) := E st m in
                         let '(b2, st2) := enc_args (S si) r st1 in (b1 ++ b2, st2)
              | _ => ([], st)
              end
      | LX => let '(b2, st2) := enc_args (S si) r st in
              ((if is_prog then put_sint (4 + Z.of_nat (length b2)) else put_sint 0) ++ b2, st2)
      | Lf => enc_field Lf fm st a          (* si = argc: leaves the loop *)
      | Ld => enc_field Ld fm st a
      | c => let '(b1, st1) := enc_field c fm st a in
             let '(b2, st2) := enc_args (S si) r st1 in (b1 ++ b2, st2)
      end
    end.
End EncArgs.

Fixpoint enc_node (st : Z) (n : node) : bytes * Z :=
  match n with
  | Node tag args =>
    match info_of P tag with
    | None => ([], st)
    | Some row =>
      let fm := tag_format n in
      let '(b, st') := enc_args enc_node row fm (tag =? t_Prog P) O args st in
      (put_byte (tag + fm * fp_span P) ++
       (if r_argc row =? -1 then put_int fm (Z.of_nat (length args)) else []) ++ b, st')
    end
  end.

(* foamToBuffer: "if (foamTag(foam) == FOAM_SInt) foam = foamSIntReduce(foam)" on
   entry to every node; the reduced tree only has 32-bit SInt leaves
   (CodecFacts.reduce_all_idem), so this equals reducing every SInt node first. *)
Definition enc (st : Z) (n : node) : bytes * Z := enc_node st (reduce_all P n).

(* ---- decoder *)
(* [ub]: the node is a Char -- "A character is an unsigned byte (FiChar)": data = n; every other
   byte field is data = (char) n *)
Definition dec_field (ub : bool) (c : letter) (fm st : Z) (bs : bytes) : option (arg * bytes * Z) :=
  match c with
  | Lt => match get_byte bs with Some (b, r) => Some (Int (fp_foam_start P + b), r, st) | None => None end
  | Lo => match (if fp_bval_bytes P =? 1 then get_byte bs else get_hint bs) with
          | Some (b, r) => Some (Int (fp_bval_start P + b), r, st) | None => None end
  | Lp => match get_byte bs with Some (b, r) => Some (Int (fp_proto_start P + b), r, st) | None => None end
  | LD => match get_byte bs with Some (b, r) => Some (Int b, r, st) | None => None end
  | Lb => match get_byte bs with Some (b, r) => Some (Int (if ub then b else sext8 b), r, st) | None => None end
  | Lh => match get_hint bs with Some (h, r) => Some (Int h, r, st) | None => None end
  | Lw => match get_sint bs with Some (u, r) => Some (Int (sext32 u), r, st) | None => None end
  | LX => match get_int 0 bs with Some (_, r) => Some (Int 0, r, st) | None => None end
  | LF => match get_int 0 bs with Some (n, r) => Some (Int n, r, fmt_for n) | None => None end
  | LL => match get_int st bs with Some (n, r) => Some (Int n, r, st) | None => None end
  | Li => match get_int fm bs with Some (n, r) => Some (Int n, r, st) | None => None end
  | Ls => match get_int fm bs with
          | Some (slen, r) => match get_chars slen r with
                              | Some (s, r') => Some (Str s, r', st) | None => None end
          | None => None end
  | Lf => match get_block 6 bs with Some (b, r) => Some (SFloA b, r, st) | None => None end
  | Ld => match get_block 10 bs with Some (b, r) => Some (DFloA b, r, st) | None => None end
  | Ln => match get_byte bs with
          | Some (neg, r) =>
            match get_int fm r with
            | Some (slen, r1) =>
              if slen <=? 0 then None
              else match get_hints r1 slen with
                   | Some (ds, r2) =>
                     Some (BIntA (if neg =? 0 then undigits16 ds else - undigits16 ds), r2, st)
                   | None => None end
            | None => None end
          | None => None end
  | LC => None
  | Lbang => None
  end.

Section DecArgs.
  Variable D : Z -> bytes -> option (node * bytes * Z).
  Variable row : info_row.
  Variable fm : Z.
  Variable ub : bool.
  Fixpoint dec_args (cnt : nat) (si : nat) (st : Z) (bs : bytes) : option (list arg * bytes * Z) :=
    match cnt with
    | O => Some ([], bs, st)
    | S c =>
      match letter_at row si with
      | LC => match D st bs with
              | Some (m, r, st1) =>
                match dec_args c (S si) st1 r with
                | Some (l, r', st') => Some (Sub m :: l, r', st') | None => None end
              | None => None end
      | Lf => match dec_field ub Lf fm st bs with Some (a, r, st1) => Some ([a], r, st1) | None => None end
      | Ld => match dec_field ub Ld fm st bs with Some (a, r, st1) => Some ([a], r, st1) | None => None end
      | ch => match dec_field ub ch fm st bs with
              | Some (a, r, st1) =>
                match dec_args c (S si) st1 r with
                | Some (l, r', st') => Some (a :: l, r', st') | None => None end
              | None => None end
      end
    end.
End DecArgs.

Section DecNode.
  Variable lim : Z.
  Fixpoint dec_node (fuel : nat) (st : Z) (bs : bytes) : option (node * bytes * Z) :=
    match fuel with
    | O => None
    | S f =>
      match get_byte bs with
      | None => None
      | Some (t, r0) =>
        let fm := if t <? fp_origin P then 0 else (t - fp_origin P) / fp_span P in
        let tag := t - fm * fp_span P in
        match info_of P tag with
        | None => None
        | Some row =>
          let nary := r_argc row =? -1 in
          match (if nary then get_int fm r0 else Some (r_argc row, r0)) with
          | None => None
          | Some (argc, r1) =>
            if (argc <? 0) || (nary && (lim <? argc)) then None
            else match dec_args (dec_node f) row fm (tag =? t_Char P) (Z.to_nat argc) O st r1 with
                 | None => None
                 | Some (args, r2, st') => Some (Node tag args, r2, st')
                 end
          end
        end
      end
    end.
End DecNode.

Definition dec (st : Z) (bs : bytes) : option (node * bytes * Z) :=
  dec_node (Z.of_nat (length bs) + fp_immed_forms P) (S (length bs)) st bs.

(* ---- well-formedness = every value fits the representation foamTagFormat picks *)
Definition inrange (z lo hi : Z) : bool := (lo <=? z) && (z <? hi).

Definition fits (fm z : Z) : bool :=
  if fm =? 0 then int32b z
  else if fm =? 1 then inrange z 0 256
  else z =? fm - fp_std_forms P.

Definition wf_field (ub : bool) (c : letter) (fm st : Z) (a : arg) : bool :=
  match c, a with
  | Lt, Int z => inrange (z - fp_foam_start P) 0 256
  | Lo, Int z => inrange (z - fp_bval_start P) 0 (if fp_bval_bytes P =? 1 then 256 else 65536)
  | Lp, Int z => inrange (z - fp_proto_start P) 0 256
  | LD, Int z => inrange z 0 256
  | Lb, Int z => if ub then inrange z 0 256 else inrange z (-128) 128
  | Lh, Int z => inrange z 0 65536
  | Lw, Int z => int32b z
  | LF, Int z => int32b z
  | LL, Int z => ((st =? 0) || (st =? 1)) && fits st z
  | Li, Int z => fits fm z
  | Ls, Str s => cstringb s && fits fm (Z.of_nat (length s))
  | Lf, SFloA b => Z.of_nat (length b) =? 6
  | Ld, DFloA b => Z.of_nat (length b) =? 10
  | Ln, BIntA z => fits fm (slen_of z)
  | _, _ => false
  end.

Definition is_Int (a : arg) : bool := match a with Int _ => true | _ => false end.

(* shapes foamTagFormat relies on: Rec/DEnv/DFluid read .data of every argument;
   a Prog's format field is argv[3] *)
Definition node_shape_ok (tag : Z) (args : list arg) : bool :=
  (if (tag =? t_Rec P) || (tag =? t_DEnv P) || (tag =? t_DFluid P) then forallb is_Int args else true) &&
  (if tag =? t_Prog P then 4 <=? Z.of_nat (length args) else true).

Section WfArgs.
  Variable W : Z -> node -> bool.
  Variable E : Z -> node -> bytes * Z.
  Variable row : info_row.
  Variable fm : Z.
  Variable ub : bool.
  Fixpoint wf_args (si : nat) (args : list arg) (st : Z) : bool :=
    match args with
    | [] => true
    | a :: r =>
      match letter_at row si with
      | LC => match a with
              | Sub m => W st m && wf_args (S si) r (snd (E st m))
              | _ => false
              end
      | LX => match a with Int _ => wf_args (S si) r st | _ => false end   (* .data, 0 in trees *)
      | Lf => wf_field ub Lf fm st a && match r with [] => true | _ => false end
      | Ld => wf_field ub Ld fm st a && match r with [] => true | _ => false end
      | c => wf_field ub c fm st a && wf_args (S si) r (snd (enc_field c fm st a))
      end
    end.
End WfArgs.

Fixpoint wf_node (st : Z) (n : node) : bool :=
  match n with
  | Node tag args =>
    match info_of P tag with
    | None => false
    | Some row =>
      let fm := tag_format n in
      let argc := Z.of_nat (length args) in
      inrange tag 0 (fp_limit P) &&
      inrange fm 0 (fp_std_forms P + fp_immed_forms P) &&
      (if r_argc row =? -1 then fits fm argc && (argc <? 2147483648) else argc =? r_argc row) &&
      node_shape_ok tag args &&
      (if (fp_index_limit P <=? tag) && negb (r_argc row =? -1)
       then match multint_x tag with Some _ => true | None => false end else true) &&
      wf_args wf_node enc_node row fm (tag =? t_Char P) O args st
    end
  end.

(* a saved tree: well-formed after the SInt re-expression *)
Definition wf (st : Z) (n : node) : bool := wf_node st (reduce_all P n).

(* ---- conditions on the generated table/constants that the proofs use;
   checked by vm_compute on the CURRENT table in Props/Properties_C05.v *)
Definition row_ok (tag : Z) (r : info_row) : bool :=
  (* X only as the first letter of Prog, never repeated *)
  (forallb (fun c => negb (letter_eqb c LX)) (tl (r_letters r))) &&
  (match r_letters r with LX :: _ => tag =? t_Prog P | _ => true end) &&
  (* '*' needs a letter before it; a fixed argc needs that many letters *)
  (if r_star r then negb (Nat.eqb (length (r_letters r)) 0)
   else true) &&
  (if r_argc r =? -1 then r_star r
   else (0 <=? r_argc r) && (r_star r || (r_argc r <=? Z.of_nat (length (r_letters r))))) &&
  (* f / d only as the single argument of a unary tag *)
  (if existsb (fun c => letter_eqb c Lf || letter_eqb c Ld) (r_letters r)
   then (r_argc r =? 1) && Nat.eqb (length (r_letters r)) 1 && negb (r_star r) else true).

Fixpoint rows_ok (tag : Z) (rows : list info_row) : bool :=
  match rows with
  | [] => true
  | r :: rest => row_ok tag r && rows_ok (tag + 1) rest
  end.

Definition foam_params_ok : bool :=
  rows_ok 0 (fp_table P) &&
  (Z.of_nat (length (fp_table P)) =? fp_limit P) &&
  (0 <=? fp_origin P) && (0 <? fp_span P) &&
  (fp_limit P =? fp_origin P + fp_span P) &&
  (fp_origin P + (fp_std_forms P + fp_immed_forms P) * fp_span P <=? 256) &&
  (fp_std_forms P =? 2) && (0 <=? fp_immed_forms P) &&
  (fp_max_byte P =? 255) &&
  (fp_origin P <=? fp_index_start P) &&
  ((fp_bval_bytes P =? 1) || (fp_bval_bytes P =? 2)) &&
  (1 <=? fp_u16_per_digit P) &&
  (* what foamSIntReduce / eval_sint and the X handling rely on *)
  negb (t_SInt P =? t_BCall P) && negb (bv_SIntShiftUp P =? bv_SIntOr P) &&
  negb (t_SInt P =? t_Prog P) && negb (t_BCall P =? t_Prog P) &&
  (* foamTagFormat never looks at the X field: Prog is n-ary, outside the vector class and
     not one of Rec/DEnv/DFluid, and its X is not the repeated letter *)
  is_nary (t_Prog P) && (fp_index_start P <=? t_Prog P) &&
  negb ((t_Prog P =? t_Rec P) || (t_Prog P =? t_DEnv P) || (t_Prog P =? t_DFluid P)) &&
  (match info_of P (t_Prog P) with
   | Some r => match r_letters r with [LX] => false | _ => true end
   | None => false end).

End WithParams.
