(* SExpr.v -- the FOAM text form (.fm): foam.c foamToSExpr0 / foamFrSExpr over generic nodes,
   at the level of s-expression tokens.

   wr : ctx -> node -> list token      (foamToSExpr0 + the token stream sxiWrite prints)
   rd : list token -> option (node * list token)   (sxiRead + foamFrSExpr)

   Modelled: tag / builtin / protocol / DDecl names from the regenerated tables and the single
   name space foamInit builds (symCoInfo(sym)->foamTagVal: the LAST table that defines a name
   wins); the per-letter conversions; "isDecl && 'w' -> -1" (a Decl's symeIndex is always written
   as -1; a GDecl's rtype is kept); 't' written as a number when it is not a tag; integer
   fields of any width (foamIntegerFrBInt keeps the low 64 bits, two's complement); the
   identifier symbol appended to Par/Loc/Glo/Const/Lex/EElt from the static fex* context that
   Unit and Prog nodes set (threaded as [ctx], like the label latch); the reader taking
   argc elements and ignoring the rest of a list.
   Not modelled: line breaking / indentation of sxiWrite, comments, the float spelling
   (a float atom carries the portable image; C19), source positions.  Out-of-range indexing
   of the fex* vectors (undefined in C) yields "no identifier" here. *)
Require Import ZArith List Lia Bool.
Require Import AV.Foam.Buf AV.Foam.Syntax.
Import ListNotations.
Local Open Scope Z_scope.
Local Open Scope bool_scope.

Inductive atom :=
| AInt (z : Z) | AStr (s : bytes) | ASym (s : bytes) | ASFlo (b : bytes) | ADFlo (b : bytes).

Inductive sexp := SA (a : atom) | SL (l : list sexp).

Inductive token := TL | TR | TA (a : atom).

Record text_params := mkTextParams {
  tp_tag_names : list bytes;      (* foamInfoTable[].str *)
  tp_bval_names : list bytes;     (* foamBValInfoTable[].str *)
  tp_proto_names : list bytes;    (* foamProtoInfoTable[].str *)
  tp_ddecl_names : list bytes;    (* foamDDeclInfoTable[].str *)
  t_Unit : Z; t_Par : Z; t_Loc : Z; t_Glo : Z; t_Const : Z; t_EElt : Z;
  tp_globals_slot : Z; tp_consts_slot : Z     (* globalsSlot, constsSlot *)
}.

Fixpoint bytes_eqb (a b : bytes) : bool :=
  match a, b with
  | [], [] => true
  | x :: a', y :: b' => (x =? y) && bytes_eqb a' b'
  | _, _ => false
  end.

Lemma bytes_eqb_eq a b : bytes_eqb a b = true <-> a = b.
Proof.
  revert b; induction a as [|x a IH]; intros [|y b]; cbn; try (split; congruence).
  rewrite andb_true_iff, Z.eqb_eq, IH. split; [intros [-> ->]; reflexivity | intros [= -> ->]; auto].
Qed.

(* index of the last entry equal to s *)
Fixpoint last_index (i : Z) (names : list bytes) (s : bytes) (cur : option Z) : option Z :=
  match names with
  | [] => cur
  | n :: r => last_index (i + 1) r s (if bytes_eqb n s then Some i else cur)
  end.

Section WithParams.
Variable P : foam_params.
Variable T : text_params.

(* symCoInfo(sym)->foamTagVal after foamInit: tags, then builtins, protocols, DDecl usages;
   a later assignment overwrites an earlier one *)
Definition lookup_name (s : bytes) : option Z :=
  last_index 0 (tp_ddecl_names T) s
    (last_index (fp_proto_start P) (tp_proto_names T) s
       (last_index (fp_bval_start P) (tp_bval_names T) s
          (last_index (fp_foam_start P) (tp_tag_names T) s None))).

Definition name_of (names : list bytes) (start z : Z) : bytes :=
  nth (Z.to_nat (z - start)) names [].

(* every name reads back as the number it was written for *)
Fixpoint names_back (names : list bytes) (start : Z) (i : Z) (l : list bytes) : bool :=
  match l with
  | [] => true
  | n :: r => (match lookup_name n with Some v => v =? start + i | None => false end)
              && names_back names start (i + 1) r
  end.

Definition text_params_ok : bool :=
  names_back (tp_tag_names T) (fp_foam_start P) 0 (tp_tag_names T) &&
  names_back (tp_bval_names T) (fp_bval_start P) 0 (tp_bval_names T) &&
  names_back (tp_proto_names T) (fp_proto_start P) 0 (tp_proto_names T) &&
  names_back (tp_ddecl_names T) 0 0 (tp_ddecl_names T) &&
  (Z.of_nat (length (tp_tag_names T)) =? fp_limit P - fp_foam_start P) &&
  (fp_foam_start P =? 0) &&
  (* the tags that get an identifier appended have a fixed argument count and are not declarations *)
  forallb (fun t => match info_of P t with Some r => negb (r_argc r =? -1) | None => false end
                    && negb ((t =? t_Decl P) || (t =? t_GDecl P)))
          [t_Par T; t_Loc T; t_Glo T; t_Const T; t_Lex P; t_EElt T].

(* ---- the fex* context *)
Record ctx := mkCtx {
  c_fmts : list (list bytes);   (* per format (DDecl of the unit's DFmt): the ids of its decls *)
  c_glos : list bytes; c_consts : list bytes;
  c_pars : list bytes; c_locs : list bytes;
  c_lexv : list Z;              (* the Prog's DEnv *)
  c_lexc : Z
}.
Definition ctx0 : ctx := mkCtx [] [] [] [] [] [] 0.

Definition sub_at (k : nat) (n : node) : option node :=
  match n with Node _ args => match nth_error args k with Some (Sub m) => Some m | _ => None end end.
Definition decl_id (a : arg) : bytes :=
  match a with Sub (Node _ (_ :: Str s :: _)) => s | _ => [] end.
Definition ddecl_ids (n : node) : list bytes :=
  match n with Node _ args => map decl_id (tl args) end.
Definition denv_ints (n : node) : list Z :=
  match n with Node _ args => map (fun a => match a with Int z => z | _ => 0 end) args end.
Definition subs_of (n : node) : list node :=
  match n with Node _ args =>
    flat_map (fun a => match a with Sub m => [m] | _ => [] end) args end.

Definition enter (c : ctx) (n : node) : ctx :=
  match n with
  | Node tag args =>
    if tag =? t_Unit T then
      match sub_at 0 n with
      | Some dfmt =>
        let fmts := map ddecl_ids (subs_of dfmt) in
        mkCtx fmts (nth (Z.to_nat (tp_globals_slot T)) fmts []) (nth (Z.to_nat (tp_consts_slot T)) fmts [])
              (c_pars c) (c_locs c) (c_lexv c) (c_lexc c)
      | None => c
      end
    else if tag =? t_Prog P then
      let pars := match sub_at 8 n with Some d => ddecl_ids d | None => [] end in
      let locs := match sub_at 9 n with Some d => ddecl_ids d | None => [] end in
      match c_fmts c, sub_at 11 n with
      | _ :: _, Some denv =>
        let lexv := denv_ints denv in
        mkCtx (c_fmts c) (c_glos c) (c_consts c) pars locs lexv
              (Z.of_nat (length (nth (Z.to_nat (nth 0 lexv 0)) (c_fmts c) [])))
      | _, _ => mkCtx (c_fmts c) (c_glos c) (c_consts c) pars locs (c_lexv c) (c_lexc c)
      end
    else c
  end.

Definition nth_id (l : list bytes) (j : Z) : option bytes :=
  if (j <? 0) || (Z.of_nat (length l) <=? j) then None else Some (nth (Z.to_nat j) l []).
Definition int_arg (args : list arg) (k : nat) : Z :=
  match nth k args (Int 0) with Int z => c_int z | _ => 0 end.

(* "Code for determining identifiers" *)
Definition idstr (c : ctx) (n : node) : option bytes :=
  match n with
  | Node tag args =>
    let r :=
      if tag =? t_Par T then nth_id (c_pars c) (int_arg args 0)
      else if tag =? t_Loc T then nth_id (c_locs c) (int_arg args 0)
      else if tag =? t_Glo T then nth_id (c_glos c) (int_arg args 0)
      else if tag =? t_Const T then nth_id (c_consts c) (int_arg args 0)
      else if tag =? t_Lex P then
        let i := int_arg args 0 in let j := int_arg args 1 in
        match c_fmts c with
        | [] => None
        | _ =>
          if (0 <=? i) && (i <? c_lexc c) then
            let i' := c_int (nth (Z.to_nat i) (c_lexv c) 0) in
            let f := if i' <? 0 then [] else nth (Z.to_nat i') (c_fmts c) [] in
            (* j < foamArgc(fmt) = 1 + number of decls *)
            if (0 <=? j) && (j <? Z.of_nat (length f) + 1) then nth_id f j else None
          else None
        end
      else if tag =? t_EElt T then
        match c_fmts c with
        | [] => None
        | _ => let i := int_arg args 0 in let j := int_arg args 3 in
               if i <? 0 then None else nth_id (nth (Z.to_nat i) (c_fmts c) []) j
        end
      else None in
    match r with Some [] => None | x => x end     (* "if (idstr && !*idstr) idstr = 0" *)
  end.

(* ---- foamToSExpr0 *)
(* "The 'w' field of a Decl is a syme index, meaningless outside this run; the 'w' field of a GDecl
   is its return type and must be kept": isDecl = (tag == FOAM_Decl) *)
Definition is_decl (tag : Z) : bool := tag =? t_Decl P.

Definition field_atom (isd : bool) (c : letter) (a : arg) : option atom :=
  match c, a with
  | (LX | LF | LL | Lb | Lh | Li), Int z => Some (AInt z)
  | Lw, Int z => Some (AInt (if isd then -1 else z))
  | Lt, Int z => Some (if z <? fp_limit P then ASym (name_of (tp_tag_names T) (fp_foam_start P) z) else AInt z)
  | Lo, Int z => Some (ASym (name_of (tp_bval_names T) (fp_bval_start P) z))
  | Lp, Int z => Some (ASym (name_of (tp_proto_names T) (fp_proto_start P) z))
  | LD, Int z => Some (ASym (name_of (tp_ddecl_names T) 0 z))
  | Ls, Str s => Some (AStr s)
  | Lf, SFloA b => Some (ASFlo b)
  | Ld, DFloA b => Some (ADFlo b)
  | Ln, BIntA z => Some (AInt z)
  | _, _ => None      (* bugBadCase / wrong kind: excluded by wf_text *)
  end.

Section ToArgs.
  Variable TS : ctx -> node -> sexp * ctx.
  Variable row : info_row.
  Variable isd : bool.
  Fixpoint to_args (si : nat) (args : list arg) (c : ctx) : list sexp * ctx :=
    match args with
    | [] => ([], c)
    | a :: r =>
      match letter_at row si with
      | LC => match a with
              | Sub m => let '(s1, c1) := TS c m in
                         let '(l2, c2) := to_args (S si) r c1 in (s1 :: l2, c2)
              | _ => ([], c)
              end
      | Lf => (match field_atom isd Lf a with Some x => [SA x] | None => [] end, c)   (* si = argc *)
      | Ld => (match field_atom isd Ld a with Some x => [SA x] | None => [] end, c)
      | ch => let '(l2, c2) := to_args (S si) r c in
              ((match field_atom isd ch a with Some x => SA x | None => SL [] end) :: l2, c2)
      end
    end.
End ToArgs.

Fixpoint to_sexp (c : ctx) (n : node) : sexp * ctx :=
  match n with
  | Node tag args =>
    let c1 := enter c n in
    match info_of P tag with
    | None => (SL [], c1)
    | Some row =>
      let '(l, c2) := to_args to_sexp row (is_decl tag) O args c1 in
      (SL (SA (ASym (name_of (tp_tag_names T) (fp_foam_start P) tag)) :: l ++
           match idstr c1 n with Some s => [SA (ASym s)] | None => [] end), c2)
    end
  end.

(* ---- tokens *)
Fixpoint flatten (s : sexp) : list token :=
  match s with
  | SA a => [TA a]
  | SL l => TL :: flat_map flatten l ++ [TR]
  end.

Definition wr (c : ctx) (n : node) : list token := flatten (fst (to_sexp c n)).

(* sxiRead restricted to what the writer emits: atoms and proper lists *)
Section Items.
  Variable PF : list token -> option (sexp * list token).
  Fixpoint items (g : nat) (ts : list token) (acc : list sexp) : option (sexp * list token) :=
    match g with
    | O => None
    | S g' =>
      match ts with
      | TR :: r' => Some (SL (rev acc), r')
      | [] => None
      | _ => match PF ts with
             | Some (x, r') => items g' r' (x :: acc)
             | None => None
             end
      end
    end.
End Items.

Fixpoint parse (fuel : nat) (ts : list token) : option (sexp * list token) :=
  match fuel with
  | O => None
  | S f =>
    match ts with
    | TA a :: r => Some (SA a, r)
    | TL :: r => items (parse f) f r []     (* fuel exceeds the number of tokens left, hence the number of items *)
    | _ => None
    end
  end.

(* ---- foamFrSExpr *)
Definition of_field (c : letter) (x : sexp) : option arg :=
  match c, x with
  | (LX | LF | LL | Lb | Lh | Lw | Li), SA (AInt z) => Some (Int (wrap64s z))   (* foamIntegerFrBInt *)
  | (Lt | Lo | Lp | LD), SA (ASym s) =>
    match lookup_name s with Some v => Some (Int v) | None => None end
  | Ls, SA (AStr s) => Some (Str s)
  | Lf, SA (ASFlo b) => Some (SFloA b)
  | Ld, SA (ADFlo b) => Some (DFloA b)
  | Ln, SA (AInt z) => Some (BIntA z)
  | _, _ => None        (* croak *)
  end.

Section OfArgs.
  Variable F : sexp -> option node.
  Variable row : info_row.
  Fixpoint of_args (l : list sexp) (cnt : nat) (si : nat) : option (list arg) :=
    match cnt with
    | O => Some []                  (* whatever else the list holds is ignored *)
    | S k =>
      match l with
      | [] => None                  (* croak LoadNotList *)
      | x :: r =>
        match (match letter_at row si with
               | LC => match x with
                       | SL _ => match F x with Some m => Some (Sub m) | None => None end
                       | _ => None end
               | Lbang => None
               | ch => of_field ch x
               end) with
        | None => None
        | Some a => match of_args r k (S si) with Some l' => Some (a :: l') | None => None end
        end
      end
    end.
End OfArgs.

Fixpoint of_sexp (s : sexp) : option node :=
  match s with
  | SL (SA (ASym name) :: rest) =>
    match lookup_name name with
    | None => None
    | Some tag =>
      match info_of P tag with
      | None => None
      | Some row =>
        let argc := if r_argc row =? -1 then length rest else Z.to_nat (r_argc row) in
        match of_args of_sexp row rest argc O with
        | Some args => Some (Node tag args)
        | None => None
        end
      end
    end
  | _ => None
  end.

Definition rd (ts : list token) : option (node * list token) :=
  match parse (S (length ts)) ts with
  | Some (s, r) => match of_sexp s with Some n => Some (n, r) | None => None end
  | None => None
  end.

(* ---- what writing + reading normalises: the 'w' field (syme index) of a Decl becomes -1 *)
Section TCanon.
  Variable F : node -> node.
  Variable row : info_row.
  Variable isd : bool.
  Fixpoint tc_args (si : nat) (l : list arg) : list arg :=
    match l with
    | [] => []
    | a :: r => (match letter_at row si, a with
                 | Lw, Int z => Int (if isd then -1 else z)
                 | _, _ => map_sub F a
                 end) :: tc_args (S si) r
    end.
End TCanon.

Fixpoint tcanon (n : node) : node :=
  match n with
  | Node tag args =>
    match info_of P tag with
    | None => n
    | Some row => Node tag (tc_args tcanon row (is_decl tag) O args)
    end
  end.

(* ---- well-formed for the text form *)
Definition wf_tfield (c : letter) (a : arg) : bool :=
  match c, a with
  | (LX | LF | LL | Lb | Lh | Lw | Li), Int z =>
    (-9223372036854775808 <=? z) && (z <? 9223372036854775808)
  | Lt, Int z => (0 <=? z - fp_foam_start P) && (z <? fp_limit P)
  | Lo, Int z => (0 <=? z - fp_bval_start P) && (z - fp_bval_start P <? Z.of_nat (length (tp_bval_names T)))
  | Lp, Int z => (0 <=? z - fp_proto_start P) && (z - fp_proto_start P <? Z.of_nat (length (tp_proto_names T)))
  | LD, Int z => (0 <=? z) && (z <? Z.of_nat (length (tp_ddecl_names T)))
  | Ls, Str _ => true
  | Lf, SFloA _ => true
  | Ld, DFloA _ => true
  | Ln, BIntA _ => true
  | _, _ => false
  end.

Section WfArgs.
  Variable W : node -> bool.
  Variable row : info_row.
  Fixpoint wf_targs (si : nat) (args : list arg) : bool :=
    match args with
    | [] => true
    | a :: r =>
      match letter_at row si with
      | LC => match a with Sub m => W m && wf_targs (S si) r | _ => false end
      | Lf => wf_tfield Lf a && match r with [] => true | _ => false end
      | Ld => wf_tfield Ld a && match r with [] => true | _ => false end
      | c => wf_tfield c a && wf_targs (S si) r
      end
    end.
End WfArgs.

Fixpoint wf_text (n : node) : bool :=
  match n with
  | Node tag args =>
    match info_of P tag with
    | None => false
    | Some row =>
      (0 <=? tag - fp_foam_start P) && (tag <? fp_limit P) &&
      (if r_argc row =? -1 then true else Z.of_nat (length args) =? r_argc row) &&
      (* the levels of a Prog are a DEnv, not a declaration *)
      (if tag =? t_Prog P then match sub_at 11 n with Some (Node tg _) => negb (is_decl tg) | None => true end else true) &&
      wf_targs wf_text row O args
    end
  end.

End WithParams.
