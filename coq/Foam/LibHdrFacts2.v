(* LibHdrFacts2.v -- single-byte substitutions and the header reader.

   Full statement aimed at (single_byte_header_dichotomy):
     for every written library file w = write_lib u, every offset k < length w and every
     byte b different from the one at k, read_lib (subst_nth k b w) is
       - Refused _                                   (magic, version below, count above the
                                                      limit or reaching an unused entry, any
                                                      name >= limit, any offset, any length but
                                                      the last one's decrease), or
         (also: a section name changed to a name another entry carries -> DupSect), or
       - Loaded h' with h' = the written header      (k in the body; version increased; count
                                                      decreased; an unused entry's offset/length), or
       - Loaded h' with one used section renamed to an unused name, or the last section shortened.
   Proved below (hence _partial): the body case and the magic-number case, for every u, k, b.
   The remaining header fields are checked on every run by enumeration against the extracted
   [read_lib] AND the compiler (props/c17.py: every offset of header and section table x 4 values). *)
Require Import ZArith List Lia Bool.
Require Import AV.Foam.Buf AV.Foam.LibHdr AV.Foam.LibHdrFacts.
Import ListNotations.
Local Open Scope Z_scope.
Local Open Scope bool_scope.

Lemma subst_nth_length k b l : length (subst_nth k b l) = length l.
Proof.
  revert k; induction l as [|x l IH]; intros k; [destruct k; reflexivity|].
  destruct k; cbn [subst_nth length]; [reflexivity|]. now rewrite IH.
Qed.

Lemma subst_nth_app_r k b a c :
  (length a <= k)%nat -> subst_nth k b (a ++ c) = a ++ subst_nth (k - length a) b c.
Proof.
  revert k; induction a as [|x a IH]; intros k H.
  - cbn. now rewrite Nat.sub_0_r.
  - destruct k; [cbn in H; lia|]. cbn [app subst_nth length]. rewrite IH by (cbn in H; lia).
    reflexivity.
Qed.

Lemma lo_mod x y : 0 <= x < 256 -> (x + 256 * y) mod 256 = x.
Proof.
  intros H. replace (x + 256 * y) with (x + y * 256) by ring.
  rewrite Z.mod_add by lia. apply Z.mod_small. lia.
Qed.

Lemma hi_div x y : 0 <= x < 256 -> (x + 256 * y) / 256 = y.
Proof.
  intros H. replace (x + 256 * y) with (x + y * 256) by ring.
  rewrite Z.div_add by lia. rewrite Z.div_small by lia. lia.
Qed.

Section WithParams.
Variable P : lib_params.
Hypothesis HP : lib_params_ok P = true.

(* damage in the body never reaches the header reader: whatever is wrong there has to be
   caught by the section decoders *)
Theorem body_damage_loaded u k b :
  wf_lunit P u -> (Z.to_nat (lp_hdr_size P) <= k)%nat ->
  read_lib P (subst_nth k b (write_lib P u)) = Loaded (mk_hdr P u).
Proof.
  intros Hwf Hk. pose proof Hwf as (H1 & H2 & _).
  pose proof (write_hdr_mk_length P HP u ltac:(lia)) as HL.
  unfold write_lib. rewrite subst_nth_app_r by lia.
  rewrite (read_lib_prefix P HP) by assumption.
  rewrite subst_nth_length. now rewrite Z.ltb_irrefl.
Qed.

(* a changed byte of the magic number is always refused *)
Theorem magic_damage_refused u k b :
  wf_lunit P u -> (k < 2)%nat -> 0 <= b < 256 ->
  b <> nth k (write_lib P u) 0 ->
  read_lib P (subst_nth k b (write_lib P u)) = Refused BadMagic.
Proof.
  intros Hwf Hk Hb Hne. pose proof Hwf as (H1 & H2 & _).
  pose proof (params_facts P HP) as F.
  pose proof (mk_hdr_wf P HP u Hwf) as Hh.
  set (lo := lp_magic P mod 256). set (hi := (lp_magic P / 256) mod 256).
  assert (Hlo : 0 <= lo < 256) by (apply Z.mod_pos_bound; lia).
  assert (Hhi : 0 <= hi < 256) by (apply Z.mod_pos_bound; lia).
  assert (Hmg : lp_magic P = lo + 256 * hi).
  { unfold lo, hi. rewrite (Z.mod_small (lp_magic P / 256)).
    - pose proof (Z.div_mod (lp_magic P) 256 ltac:(lia)). lia.
    - split; [apply Z.div_pos; lia | apply Z.div_lt_upper_bound; lia]. }
  set (m' := match k with O => b + 256 * hi | _ => lo + 256 * b end).
  set (h' := mkHdr m' (lp_major P) (lp_minor P) (Z.of_nat (length u)) (h_sects (mk_hdr P u))).
  assert (Hm' : 0 <= m' < 65536 /\ m' <> lp_magic P).
  { unfold m'. unfold write_lib, write_hdr, mk_hdr, put_hint in Hne. cbn [h_magic app] in Hne.
    fold lo hi in Hne.
    destruct k as [|[|k]]; [| |lia]; cbn [nth] in Hne; split; lia. }
  assert (Hfile : subst_nth k b (write_lib P u) = write_hdr h' ++ body u).
  { unfold write_lib, write_hdr, h', mk_hdr, put_hint. cbn [h_magic h_major h_minor h_num h_sects].
    fold lo hi. unfold m'.
    destruct k as [|[|k]]; [| |lia]; cbn [app subst_nth].
    - rewrite lo_mod, hi_div by lia. rewrite (Z.mod_small hi) by lia. reflexivity.
    - rewrite lo_mod, hi_div by lia. rewrite (Z.mod_small b) by lia. reflexivity. }
  rewrite Hfile. unfold read_lib.
  assert (Hlen : Z.of_nat (length (write_hdr h')) = lp_hdr_size P).
  { rewrite write_hdr_length. unfold h'. cbn [h_sects].
    rewrite (mk_hdr_sects_length P u) by lia. lia. }
  rewrite app_length, Nat2Z.inj_add, Hlen.
  destruct (Z.ltb_spec (lp_hdr_size P + Z.of_nat (length (body u))) (lp_hdr_size P)); [lia|].
  rewrite hdr_roundtrip.
  - unfold chk_header, h'. cbn [h_magic].
    destruct (Z.eqb_spec m' (lp_magic P)); [lia|]. reflexivity.
  - destruct Hh as (A & B & C0 & D & E & G). unfold wf_hdr, h'.
    cbn [h_magic h_major h_minor h_num h_sects] in *. repeat split; try lia; assumption.
Qed.

End WithParams.
