(* CodecFacts4.v -- re-saving a loaded unit gives the same bytes:
   enc (canon n) = enc n  (foamToBuffer never looks at the X field, and the SInt
   re-expression is already in place). *)
Require Import ZArith List Lia Bool.
Require Import AV.Foam.Buf AV.Foam.Syntax AV.Foam.Codec AV.Foam.CodecFacts AV.Foam.CodecFacts3.
Import ListNotations.
Local Open Scope Z_scope.
Local Open Scope bool_scope.

Section WithParams.
Variable P : foam_params.
Hypothesis HP : foam_params_ok P = true.

Lemma prog_facts :
  is_nary P (t_Prog P) = true /\ fp_index_start P <= t_Prog P /\
  t_Prog P <> t_Rec P /\ t_Prog P <> t_DEnv P /\ t_Prog P <> t_DFluid P /\
  exists r, info_of P (t_Prog P) = Some r /\ r_letters r <> [LX].
Proof.
  unfold foam_params_ok in HP. rewrite !andb_true_iff in HP.
  destruct HP as ((((_ & Hn) & Hi) & Hc) & Hr).
  rewrite negb_true_iff, !orb_false_iff, !Z.eqb_neq in Hc. apply Z.leb_le in Hi.
  repeat split; try tauto; try assumption.
  destruct (info_of P (t_Prog P)) as [r|]; [|discriminate].
  exists r. split; [reflexivity|]. intros E. rewrite E in Hr. discriminate.
Qed.

(* the views foamTagFormat takes of an argument *)
Definition int_view (a : arg) : Z := match a with Int z => z | _ => 0 end.
Definition bint_view (a : arg) : Z := match a with BIntA z => placec_of P z * fp_u16_per_digit P | _ => 0 end.

Lemma views_map_sub F a :
  arg_int (map_sub F a) = arg_int a /\ arg_strlen (map_sub F a) = arg_strlen a /\
  int_view (map_sub F a) = int_view a /\ bint_view (map_sub F a) = bint_view a /\
  is_Int (map_sub F a) = is_Int a.
Proof. destruct a; cbn; repeat split; reflexivity. Qed.

Lemma nth_arg_map F args k : nth_arg (map (map_sub F) args) k = map_sub F (nth_arg args k).
Proof. unfold nth_arg. change (Int 0) with (map_sub F (Int 0)) at 1. apply map_nth. Qed.

Lemma tag_format_map_sub F tag args :
  tag_format P (Node tag (map (map_sub F) args)) = tag_format P (Node tag args).
Proof.
  assert (Hf : forallb (fun a => fmt_for P (arg_int a) =? 1) (map (map_sub F) args) =
               forallb (fun a => fmt_for P (arg_int a) =? 1) args).
  { induction args as [|a args IH]; [reflexivity|]. cbn [map forallb].
    rewrite IH. now rewrite (proj1 (views_map_sub F a)). }
  unfold tag_format. rewrite map_length, Hf.
  destruct (multint_x P tag) as [[x1 [x2|]]|];
    rewrite !nth_arg_map;
    repeat match goal with |- context [arg_int (map_sub F ?a)] =>
      rewrite (proj1 (views_map_sub F a)) end;
    repeat match goal with |- context [arg_strlen (map_sub F ?a)] =>
      rewrite (proj1 (proj2 (views_map_sub F a))) end;
    change (match map_sub F (nth_arg args 0) with BIntA z => placec_of P z * fp_u16_per_digit P | _ => 0 end)
      with (bint_view (map_sub F (nth_arg args 0)));
    change (match map_sub F (nth_arg args 3) with Int z => z | _ => 0 end)
      with (int_view (map_sub F (nth_arg args 3)));
    rewrite (proj1 (proj2 (proj2 (proj2 (views_map_sub F (nth_arg args 0))))));
    rewrite (proj1 (proj2 (proj2 (views_map_sub F (nth_arg args 3)))));
    reflexivity.
Qed.

(* letters of a row with X in front: X nowhere else *)
Lemma x_only_first tag row si :
  info_of P tag = Some row -> (1 <= si)%nat -> r_letters row <> [LX] -> letter_at row si <> LX.
Proof.
  intros HI Hsi Hne. pose proof (info_row_ok P HP _ _ HI) as Hok.
  unfold row_ok in Hok. rewrite !andb_true_iff in Hok.
  destruct Hok as ((((Htl & _) & _) & _) & _).
  rewrite forallb_forall in Htl.
  assert (Hall : forall c, In c (tl (r_letters row)) -> c <> LX).
  { intros c Hin ->. specialize (Htl LX Hin). discriminate. }
  unfold letter_at. destruct (r_letters row) as [|c0 tl0] eqn:EL.
  - destruct si; cbn; destruct (r_star row); discriminate.
  - destruct si as [|si]; [lia|]. cbn [nth_error].
    destruct (nth_error tl0 si) eqn:En.
    + apply Hall. cbn [tl]. eapply nth_error_In. exact En.
    + destruct (r_star row); [|discriminate].
      destruct tl0 as [|c1 tl1]; [cbn [last]; intros ->; apply Hne; reflexivity|].
      apply Hall. cbn [tl].
      assert (Hne2 : c1 :: tl1 <> []) by discriminate.
      destruct (exists_last Hne2) as (l' & x & E). rewrite E.
      replace (c0 :: l' ++ [x]) with ((c0 :: l') ++ [x]) by reflexivity.
      rewrite last_last. apply in_or_app. right. now left.
Qed.

Lemma zx_args_tail F row args : forall si,
  (forall k, (si <= k)%nat -> letter_at row k <> LX) ->
  zx_args F row si args = map (map_sub F) args.
Proof.
  induction args as [|a args IH]; intros si H; [reflexivity|].
  cbn [zx_args map]. rewrite IH by (intros k Hk; apply H; lia). f_equal.
  specialize (H si (le_n _)). destruct (letter_at row si); try reflexivity. contradiction.
Qed.

Lemma tag_format_zx tag row args :
  info_of P tag = Some row ->
  tag_format P (Node tag (zx_args (zero_x P) row 0 args)) = tag_format P (Node tag args).
Proof.
  intros EI. destruct (Z.eq_dec tag (t_Prog P)) as [->|Hne].
  - (* Prog: only argument 0 can be touched, and it is not looked at *)
    destruct prog_facts as (Hn & Hi & Hr1 & Hr2 & Hr3 & r & Er & Hl).
    rewrite EI in Er. injection Er as <-.
    destruct args as [|a0 args]; [reflexivity|].
    cbn [zx_args]. rewrite (zx_args_tail _ row args 1)
      by (intros k Hk; apply (x_only_first (t_Prog P)); assumption).
    set (a0' := match letter_at row 0 with LX => Int 0 | _ => map_sub (zero_x P) a0 end).
    pose proof (tag_format_map_sub (zero_x P) (t_Prog P) (a0 :: args)) as HM.
    cbn [map] in HM. rewrite <- HM.
    unfold tag_format. cbn [length]. rewrite !map_length.
    destruct (Z.ltb_spec (t_Prog P) (fp_index_start P)); [lia|].
    destruct (Z.eqb_spec (t_Prog P) (t_Rec P)); [contradiction|].
    destruct (Z.eqb_spec (t_Prog P) (t_DEnv P)); [contradiction|].
    destruct (Z.eqb_spec (t_Prog P) (t_DFluid P)); [contradiction|].
    cbn [orb]. rewrite Hn, orb_true_r.
    unfold nth_arg. cbn [nth]. reflexivity.
  - rewrite zx_args_nox by (intros k; now apply (no_x P HP tag)).
    apply tag_format_map_sub.
Qed.

Lemma zx_args_length_eq F row args : forall si, length (zx_args F row si args) = length args.
Proof. induction args as [|a args IH]; intros si; [reflexivity|]. cbn [zx_args length]. now rewrite IH. Qed.

Lemma enc_field_sub c fm st m F :
  enc_field P c fm st (Sub (F m)) = enc_field P c fm st (Sub m).
Proof. destruct c; reflexivity. Qed.

Lemma enc_args_zx row fm is_prog args : forall si st,
  Forall (arg_Q (fun m => forall st, enc_node P st (zero_x P m) = enc_node P st m)) args ->
  enc_args P (enc_node P) row fm is_prog si (zx_args (zero_x P) row si args) st =
  enc_args P (enc_node P) row fm is_prog si args st.
Proof.
  induction args as [|a args IH]; intros si st H; [reflexivity|].
  inversion H as [|? ? Ha Hr]; subst. cbn [zx_args enc_args].
  assert (HF : forall c, enc_field P c fm st (map_sub (zero_x P) a) = enc_field P c fm st a)
    by (intros c; destruct a; try reflexivity; apply enc_field_sub).
  destruct (letter_at row si) eqn:EL;
    try (rewrite HF; destruct (enc_field P _ fm st a) as [b1 st1]; rewrite ?IH by assumption; reflexivity).
  - (* X *) rewrite IH by assumption. reflexivity.
  - (* C *) destruct a; cbn [map_sub arg_Q] in *; try reflexivity.
    rewrite Ha. destruct (enc_node P st n) as [b1 st1]. rewrite IH by assumption. reflexivity.
Qed.

Lemma enc_node_zx n : forall st, enc_node P st (zero_x P n) = enc_node P st n.
Proof.
  induction n as [tag args IH] using node_ind2. intros st.
  cbn [zero_x]. destruct (info_of P tag) as [row|] eqn:EI; [|reflexivity].
  cbn [enc_node]. rewrite EI.
  rewrite tag_format_zx by exact EI.
  rewrite enc_args_zx by exact IH.
  rewrite (zx_args_length_eq (zero_x P) row args 0).
  reflexivity.
Qed.

(* re-saving what was loaded: same bytes, same latch *)
Theorem resave_identical st n : enc P st (canon P n) = enc P st n.
Proof.
  unfold enc, canon.
  rewrite (red_zx_commute P HP), (reduce_all_idem P HP). apply enc_node_zx.
Qed.

End WithParams.
