(* LibSectFacts.v -- round trips of the LIB_Id and LIB_Name section contents *)
Require Import ZArith List Lia Bool.
Require Import AV.Foam.Buf AV.Foam.LibSect.
Import ListNotations.
Local Open Scope Z_scope.
Local Open Scope bool_scope.

Lemma cut_nul_terminated s r : is_cstring s -> cut_nul (s ++ 0 :: r) = s.
Proof.
  induction 1 as [|c s Hc _ IH]; [reflexivity|]. cbn [app cut_nul].
  destruct (Z.eqb_spec c 0); [lia|]. now rewrite IH.
Qed.

(* LIB_Id *)
Theorem fileid_roundtrip s rest :
  is_cstring s -> Z.of_nat (length s) + 1 < 4294967296 ->
  dec_fileid (enc_fileid s ++ rest) = Some (s, rest).
Proof.
  intros Hs Hl. unfold dec_fileid, enc_fileid. rewrite <- app_assoc, get_put_sint.
  rewrite Z.mod_small by lia. unfold get_chars.
  replace (Z.of_nat (length s) + 1) with (Z.of_nat (length (s ++ [0]))) by (rewrite app_length; cbn; lia).
  replace ((s ++ [0]) ++ rest) with ((s ++ [0]) ++ rest) by reflexivity.
  rewrite <- app_assoc. rewrite app_assoc. rewrite get_block_app.
  replace (s ++ [0]) with (s ++ 0 :: []) by reflexivity. now rewrite cut_nul_terminated.
Qed.

(* LIB_Name, raw layout *)
Lemma dec_pairs_enc symec ps : forall fuel rest,
  0 <= symec < 65536 ->
  Forall (fun ip => 0 <= fst ip < symec /\ 0 <= snd ip < 65536) ps ->
  (length ps < fuel)%nat ->
  dec_pairs fuel symec (enc_pairs ps ++ put_hint symec ++ rest) = Some (ps, rest).
Proof.
  induction ps as [|[i p] ps IH]; intros fuel rest Hs Hp Hf.
  - destruct fuel; [cbn in Hf; lia|]. cbn [enc_pairs app dec_pairs]. rewrite get_put_hint.
    rewrite Z.mod_small by lia. destruct (Z.leb_spec symec symec); [reflexivity|lia].
  - inversion Hp as [|? ? [Hi Hpp] Hr]; subst. cbn [fst snd] in *.
    destruct fuel; [cbn in Hf; lia|]. cbn [enc_pairs dec_pairs]. rewrite <- !app_assoc.
    rewrite get_put_hint, Z.mod_small by lia.
    destruct (Z.leb_spec symec i); [lia|]. rewrite get_put_hint, Z.mod_small by lia.
    rewrite IH by (assumption || (cbn in Hf; lia)). reflexivity.
Qed.

Lemma get_cstr_enc s r : is_cstring s -> get_cstr (s ++ 0 :: r) = Some (s, r).
Proof.
  induction 1 as [|c s Hc _ IH]; [reflexivity|]. cbn [app get_cstr].
  destruct (Z.eqb_spec c 0); [lia|]. now rewrite IH.
Qed.

Lemma dec_strs_enc ss rest : Forall is_cstring ss -> dec_strs (length ss) (enc_strs ss ++ rest) = Some (ss, rest).
Proof.
  induction 1 as [|s ss Hs _ IH]; [reflexivity|]. cbn [length enc_strs dec_strs].
  rewrite <- app_assoc. cbn [app]. rewrite get_cstr_enc by assumption. now rewrite IH.
Qed.

Theorem names_raw_roundtrip n rest :
  wf_names n -> dec_names (enc_names n ++ rest) = Some (n, rest).
Proof.
  intros (Hs & Ht & Hp & Hl & Hc). unfold dec_names, enc_names. rewrite <- !app_assoc.
  rewrite get_put_hint, get_put_hint, !Z.mod_small by lia.
  rewrite dec_pairs_enc; [| lia | exact Hp |].
  2:{ rewrite !app_length. cbn [length put_hint].
      assert (length (n_pairs n) <= length (enc_pairs (n_pairs n)))%nat.
      { clear. induction (n_pairs n) as [|[i p] l IH]; [cbn; lia|]. cbn [enc_pairs length]. rewrite !app_length. cbn [length put_hint]. lia. }
      lia. }
  rewrite <- Hl, dec_strs_enc by exact Hc. now destruct n.
Qed.

(* LIB_Name, the meaning *)
Lemma find_index_spec s l : forall i p, find_index s l i = Some p ->
  i <= p < i + Z.of_nat (length l) /\ nth (Z.to_nat (p - i)) l [] = s.
Proof.
  induction l as [|x l IH]; intros i p H; [discriminate|]. cbn [find_index] in H.
  match type of H with (if ?e then _ else _) = _ => destruct e eqn:E end.
  - injection H as <-. split; [cbn [length]; lia|]. rewrite Z.sub_diag. cbn [Z.to_nat nth].
    (* the local equality test decides equality *)
    revert E. clear. revert s. induction x as [|a x IHx]; intros [|b s] E; try discriminate; [reflexivity|].
    apply andb_true_iff in E. destruct E as [E1 E2]. apply Z.eqb_eq in E1. subst. f_equal. now apply IHx.
  - destruct (IH (i + 1) p H) as [Hr Hn]. split; [cbn [length]; lia|].
    replace (Z.to_nat (p - i)) with (S (Z.to_nat (p - (i + 1)))) by lia. exact Hn.
Qed.

Lemma dedupe_indices l : forall seen, Forall (fun ip => Z.of_nat (length seen) <= fst ip) (fst (dedupe seen l)).
Proof.
  induction l as [|s r IH]; intros seen; [constructor|]. cbn [dedupe].
  specialize (IH (seen ++ [s])). destruct (dedupe (seen ++ [s]) r) as [ps ss]. cbn [fst] in *.
  assert (Hmono : Forall (fun ip => Z.of_nat (length seen) <= fst ip) ps).
  { eapply Forall_impl; [|exact IH]. intros ip H. rewrite app_length in H. cbn [length] in H. lia. }
  destruct (find_index s seen 0); cbn [fst]; [constructor; [cbn; lia|exact Hmono] | exact Hmono].
Qed.

Lemma rebuild_dedupe l : forall seen,
  rebuild (length l) seen (fst (dedupe seen l)) (snd (dedupe seen l)) = Some (seen ++ l).
Proof.
  induction l as [|s r IH]; intros seen; [cbn; now rewrite app_nil_r|].
  cbn [length dedupe]. pose proof (dedupe_indices r (seen ++ [s])) as Hidx.
  specialize (IH (seen ++ [s])). destruct (dedupe (seen ++ [s]) r) as [ps ss]. cbn [fst snd] in *.
  destruct (find_index s seen 0) as [p|] eqn:Ef; cbn [fst snd rebuild].
  - rewrite Z.eqb_refl. destruct (find_index_spec s seen 0 p Ef) as [Hr Hn].
    rewrite Z.sub_0_r in Hn. rewrite Hn, IH, <- app_assoc. reflexivity.
  - destruct ps as [|[j q] ps'].
    + rewrite IH, <- app_assoc. reflexivity.
    + inversion Hidx as [|? ? Hj _]; subst. cbn [fst] in Hj. rewrite app_length in Hj. cbn [length] in Hj.
      destruct (Z.eqb_spec j (Z.of_nat (length seen))); [lia|].
      rewrite IH, <- app_assoc. reflexivity.
Qed.

(* the names the reader rebuilds are the names the writer was given *)
Theorem names_meaning topc names : names_of (names_to_raw topc names) = Some names.
Proof.
  unfold names_of, names_to_raw. pose proof (rebuild_dedupe names []) as H.
  destruct (dedupe [] names) as [ps ss]. cbn [fst snd n_symec n_pairs n_strs] in *.
  now rewrite Nat2Z.id.
Qed.

Lemma dedupe_counts l : forall seen,
  (length (fst (dedupe seen l)) + length (snd (dedupe seen l)) = length l)%nat /\
  Forall (fun ip => 0 <= fst ip < Z.of_nat (length seen + length l) /\ 0 <= snd ip < Z.of_nat (length seen + length l)) (fst (dedupe seen l)) /\
  (Forall is_cstring l -> Forall is_cstring (snd (dedupe seen l))).
Proof.
  induction l as [|s r IH]; intros seen; [cbn; repeat split; constructor|].
  cbn [dedupe length]. specialize (IH (seen ++ [s])). destruct (dedupe (seen ++ [s]) r) as [ps ss]. cbn [fst snd] in *.
  destruct IH as (Hc & Hr & Hs). rewrite app_length in Hr. cbn [length] in Hr.
  assert (Hr' : Forall (fun ip => 0 <= fst ip < Z.of_nat (length seen + S (length r)) /\
                                  0 <= snd ip < Z.of_nat (length seen + S (length r))) ps).
  { eapply Forall_impl; [|exact Hr]. intros ip H. cbv beta in *. lia. }
  destruct (find_index s seen 0) as [p|] eqn:Ef; cbn [fst snd length].
  - split; [lia|]. split.
    + constructor; [|exact Hr']. cbn [fst snd]. destruct (find_index_spec s seen 0 p Ef) as [Hp _]. lia.
    + intros Hl. inversion Hl; subst. now apply Hs.
  - split; [lia|]. split; [exact Hr'|]. intros Hl. inversion Hl; subst. constructor; [assumption|now apply Hs].
Qed.

(* the whole LIB_Name section: written from a list of names, read back to that list *)
Theorem names_section_roundtrip topc names rest :
  Forall is_cstring names -> Z.of_nat (length names) < 65536 -> 0 <= topc < 65536 ->
  exists raw, dec_names (enc_names (names_to_raw topc names) ++ rest) = Some (raw, rest) /\
              names_of raw = Some names /\ n_topc raw = topc.
Proof.
  intros Hc Hl Ht. exists (names_to_raw topc names). split; [|split; [apply names_meaning|]].
  - apply names_raw_roundtrip. unfold names_to_raw, wf_names.
    destruct (dedupe_counts names []) as (Hcnt & Hr & Hs).
    destruct (dedupe [] names) as [ps ss]. cbn [fst snd n_symec n_topc n_pairs n_strs length Nat.add] in *.
    repeat split; try lia.
    + eapply Forall_impl; [|exact Hr]. intros ip H. cbv beta in *. lia.
    + now apply Hs.
  - unfold names_to_raw. destruct (dedupe [] names). reflexivity.
Qed.

(* LIB_Kind *)
Theorem kinds_roundtrip ks rest :
  Forall (fun k => 0 <= k < 256) ks ->
  dec_kinds (Z.of_nat (length ks)) (enc_kinds ks ++ rest) = Some (ks, rest).
Proof.
  intros H. unfold dec_kinds.
  assert (E : enc_kinds ks = ks).
  { unfold enc_kinds. induction H as [|k l Hk _ IH]; [reflexivity|]. cbn [flat_map put_byte app].
    rewrite Z.mod_small by lia. now rewrite IH. }
  rewrite E. apply get_block_app.
Qed.

(* LIB_Lazy *)
Lemma dec_lazys_enc symec rs : forall fuel rest,
  0 <= symec < 65536 ->
  Forall (fun r => 0 <= fst (fst r) < symec /\ 0 <= snd (fst r) < 65536 /\ 0 <= snd r < 4294967296) rs ->
  (length rs < fuel)%nat ->
  dec_lazys fuel symec (enc_lazys rs ++ put_hint symec ++ rest) = Some (rs, rest).
Proof.
  induction rs as [|[[i n] h] rs IH]; intros fuel rest Hs Hr Hf.
  - destruct fuel; [cbn in Hf; lia|]. cbn [enc_lazys app dec_lazys]. rewrite get_put_hint, Z.mod_small by lia.
    destruct (Z.leb_spec symec symec); [reflexivity|lia].
  - inversion Hr as [|? ? (Hi & Hn & Hh) Hr']; subst. cbn [fst snd] in *.
    destruct fuel; [cbn in Hf; lia|]. cbn [enc_lazys dec_lazys]. rewrite <- !app_assoc.
    rewrite get_put_hint, Z.mod_small by lia. destruct (Z.leb_spec symec i); [lia|].
    rewrite get_put_hint, Z.mod_small by lia. rewrite get_put_sint, Z.mod_small by lia.
    rewrite IH by (assumption || (cbn in Hf; lia)). reflexivity.
Qed.

Lemma enc_lazys_len rs : (length rs <= length (enc_lazys rs))%nat.
Proof. induction rs as [|[[i n] h] l IH]; [cbn; lia|]. cbn [enc_lazys length]. rewrite !app_length. cbn [length put_hint]. lia. Qed.

Theorem lazy_section_roundtrip symec rs :
  0 <= symec < 65536 ->
  Forall (fun r => 0 <= fst (fst r) < symec /\ 0 <= snd (fst r) < 65536 /\ 0 <= snd r < 4294967296) rs ->
  dec_lazy_sect symec (enc_lazy_sect symec rs) = Some (rs, []).
Proof.
  intros Hs Hr. unfold dec_lazy_sect, enc_lazy_sect.
  rewrite <- (app_nil_r (put_hint symec)) at 2. rewrite dec_lazys_enc; [reflexivity|assumption|assumption|].
  rewrite app_length. pose proof (enc_lazys_len rs). cbn [length put_hint]. lia.
Qed.

(* LIB_File *)
Lemma dec_files_enc symec rs : forall fuel rest,
  0 <= symec < 65536 ->
  Forall (fun r => 0 <= fst (fst r) < symec /\ 0 <= snd (fst r) < 256 /\ is_cstring (snd r)) rs ->
  (length rs < fuel)%nat ->
  dec_files fuel symec (enc_files rs ++ put_hint symec ++ rest) = Some (rs, rest).
Proof.
  induction rs as [|[[i k] s] rs IH]; intros fuel rest Hs Hr Hf.
  - destruct fuel; [cbn in Hf; lia|]. cbn [enc_files app dec_files]. rewrite get_put_hint, Z.mod_small by lia.
    destruct (Z.leb_spec symec symec); [reflexivity|lia].
  - inversion Hr as [|? ? (Hi & Hk & Hc) Hr']; subst. cbn [fst snd] in *.
    destruct fuel; [cbn in Hf; lia|]. cbn [enc_files dec_files]. rewrite <- !app_assoc.
    rewrite get_put_hint, Z.mod_small by lia. destruct (Z.leb_spec symec i); [lia|].
    rewrite get_put_byte, Z.mod_small by lia. cbn [app]. rewrite get_cstr_enc by assumption.
    rewrite IH by (assumption || (cbn in Hf; lia)). reflexivity.
Qed.

Lemma enc_files_len rs : (length rs <= length (enc_files rs))%nat.
Proof. induction rs as [|[[i k] s] l IH]; [cbn; lia|]. cbn [enc_files length]. rewrite !app_length. cbn [length put_hint put_byte]. lia. Qed.

Theorem file_section_roundtrip symec rs :
  0 <= symec < 65536 ->
  Forall (fun r => 0 <= fst (fst r) < symec /\ 0 <= snd (fst r) < 256 /\ is_cstring (snd r)) rs ->
  dec_file_sect symec (enc_file_sect symec rs) = Some (rs, []).
Proof.
  intros Hs Hr. unfold dec_file_sect, enc_file_sect.
  rewrite <- (app_nil_r (put_hint symec)) at 2. rewrite dec_files_enc; [reflexivity|assumption|assumption|].
  rewrite app_length. pose proof (enc_files_len rs). cbn [length put_hint]. lia.
Qed.
