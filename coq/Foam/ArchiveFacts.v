(* ArchiveFacts.v -- facts about the archive member reader.

   Proved for every byte string: [read_ar_members_inside] -- every member archive.c records
   starts strictly inside the file, after the 8-byte magic and a 60-byte header (so libExtract
   never seeks outside the file, and LibHdr.truncation_refused is what decides about the bytes
   it finds there).

   The statements about archives as ar(1) writes them (ar_intact_found, ar_truncation_refused,
   ar_boundary_cut_accepted) are in ArchiveFacts2.v. *)
Require Import ZArith List Lia Bool.
Require Import AV.Foam.Buf AV.Foam.Archive.
Import ListNotations.
Local Open Scope Z_scope.
Local Open Scope bool_scope.

Lemma digits_val_nonneg base s : forall acc seen,
  0 <= base -> 0 <= acc -> 0 <= fst (fst (digits_val base s acc seen)).
Proof.
  induction s as [|c r IH]; intros acc seen Hb Ha; [exact Ha|].
  cbn [digits_val]. unfold digit_val.
  destruct ((48 <=? c) && (c <? 48 + (if base <? 10 then base else 10))) eqn:E; [|exact Ha].
  apply andb_true_iff in E. destruct E as [E1 _]. apply Z.leb_le in E1.
  apply IH; [exact Hb|]. nia.
Qed.

Lemma strtol_ok_nonneg base buf v : 0 <= base -> strtol_ok base buf = Some v -> 0 <= v.
Proof.
  intros Hb. unfold strtol_ok.
  set (t := skip_spaces (cstr buf)).
  destruct (match t with
            | c :: r => if c =? 45 then (true, r) else if c =? 43 then (false, r) else (false, t)
            | [] => (false, t)
            end) as [neg u].
  pose proof (digits_val_nonneg base u 0 false Hb ltac:(lia)) as Hd.
  destruct (digits_val base u 0 false) as [[v0 rest] seen]. cbn [fst] in Hd.
  assert (Hres : 0 <= (if neg then (- v0) mod 18446744073709551616 else v0)).
  { destruct neg; [apply Z.mod_pos_bound; lia | exact Hd]. }
  destruct (if seen then rest else cstr buf) as [|c r]; [intros [= <-]; exact Hres|].
  destruct (c =? 32); [|discriminate]. intros [= <-]. exact Hres.
Qed.

Lemma read_number_nonneg file pos len base : 0 <= base -> 0 <= fst (read_number file pos len base).
Proof.
  intros Hb. unfold read_number. destruct (fread file pos len) as [got full].
  destruct (negb full); [cbn; lia|]. destruct (cstr got); [cbn; lia|].
  destruct (strtol_ok base got) eqn:E; [|cbn; lia]. cbn [fst]. eapply strtol_ok_nonneg; eauto.
Qed.

Lemma rd_item0_spec file hdr :
  let it := rd_item0 file hdr in
  (i_pos it = 0 \/ (i_pos it = hdr + 60 /\ hdr + 60 < Z.of_nat (length file))) /\ i_pos it <= i_next it.
Proof.
  unfold rd_item0.
  destruct (fread file hdr 16) as [nm okn].
  destruct (read_number file (hdr + 16) 12 10) as [? d1].
  destruct (read_number file (hdr + 28) 6 10) as [? d2].
  destruct (read_number file (hdr + 34) 6 10) as [? d3].
  destruct (read_number file (hdr + 40) 8 8) as [? d4].
  pose proof (read_number_nonneg file (hdr + 48) 10 10 ltac:(lia)) as Hsz.
  destruct (read_number file (hdr + 48) 10 10) as [sz d5]. cbn [fst] in Hsz.
  destruct (fread file (hdr + 58) 2) as [? okm].
  cbn [i_pos i_next]. split.
  - destruct (Z.leb_spec (Z.of_nat (length file)) (hdr + 60)); [left; reflexivity | right; lia].
  - unfold ar_align. pose proof (Z.mod_pos_bound sz 2 ltac:(lia)).
    destruct (sz mod 2 =? 0); lia.
Qed.

Lemma walk_inside fuel file : forall next force st,
  8 <= next ->
  (forall m, In m (st_members st) -> 68 <= snd m < Z.of_nat (length file)) ->
  forall m, In m (st_members (walk fuel file next force st)) -> 68 <= snd m < Z.of_nat (length file).
Proof.
  induction fuel as [|f IH]; intros next force st Hn Hst m Hin; [exact (Hst m Hin)|].
  cbn [walk] in Hin.
  destruct (negb force && ((next =? 0) || (Z.of_nat (length file) <=? next))); [exact (Hst m Hin)|].
  destruct (rd_item0_spec file next) as [Hp Hle].
  set (it := rd_item0 file next) in *.
  assert (Hstep : i_pos it <> 0 -> 8 <= i_next it /\ 68 <= i_pos it < Z.of_nat (length file))
    by (intros Hnz; destruct Hp as [Hp|[Hp Hlt]]; [contradiction | lia]).
  assert (Hadd : forall nm ms, i_pos it <> 0 ->
            (forall m0, In m0 ms -> 68 <= snd m0 < Z.of_nat (length file)) ->
            forall m0, In m0 (if ends_with_ao nm then ms ++ [(nm, i_pos it)] else ms) ->
                       68 <= snd m0 < Z.of_nat (length file)).
  { intros nm ms Hnz Hms m0 Hm0. destruct (ends_with_ao nm); [|exact (Hms m0 Hm0)].
    apply in_app_or in Hm0. destruct Hm0 as [Hm0|[<-|[]]]; [exact (Hms m0 Hm0)|].
    cbn [snd]. exact (proj2 (Hstep Hnz)). }
  destruct (term_name (i_raw it)) as [|c0 nm0] eqn:EN.
  - destruct (i_raw it) as [|r0 [|r1 rr]] eqn:ER.
    + cbn [tl] in Hin. destruct (Z.eqb_spec (i_pos it) 0); [exact (Hst m Hin)|].
      eapply IH; [| |exact Hin]; [exact (proj1 (Hstep n))|]. cbn [st_members]. now apply Hadd.
    + cbn [tl] in Hin. destruct (Z.eqb_spec (i_pos it) 0); [exact (Hst m Hin)|].
      eapply IH; [| |exact Hin]; [exact (proj1 (Hstep n))|]. cbn [st_members]. now apply Hadd.
    + destruct (Z.eq_dec r1 47) as [->|Hne].
      * destruct (Z.eqb_spec (i_pos it) 0); [exact (Hst m Hin)|].
        eapply IH; [| |exact Hin]; [exact (proj1 (Hstep n))|]. cbn [st_members]. exact Hst.
      * assert (Hin' : In m (st_members
                  (if i_pos it =? 0 then mkSt (st_names st) (st_members st) (st_diag st ++ i_diag it)
                   else walk f file (i_next it) false
                          (mkSt (st_names st)
                             (if ends_with_ao (table_name (skipn (Z.to_nat (scan_idx (tl (r0 :: r1 :: rr)))) (st_names st)))
                              then st_members st ++ [(table_name (skipn (Z.to_nat (scan_idx (tl (r0 :: r1 :: rr)))) (st_names st)), i_pos it)]
                              else st_members st) (st_diag st ++ i_diag it))))).
        { destruct r1 as [|p|p]; try exact Hin.
          repeat (match goal with H : context [match ?q with _ => _ end] |- _ => is_var q; destruct q end; try exact Hin; try congruence). }
        destruct (Z.eqb_spec (i_pos it) 0); [exact (Hst m Hin')|].
        eapply IH; [| |exact Hin']; [exact (proj1 (Hstep n))|]. cbn [st_members]. now apply Hadd.
  - destruct (Z.eqb_spec (i_pos it) 0); [exact (Hst m Hin)|].
    eapply IH; [| |exact Hin]; [exact (proj1 (Hstep n))|]. cbn [st_members]. now apply Hadd.
Qed.

(* C17/C05: whatever the bytes, every member the archive reader records starts inside the file *)
Theorem read_ar_members_inside file ms dg :
  read_ar file = Members ms dg -> Forall (fun m => 68 <= snd m < Z.of_nat (length file)) ms.
Proof.
  unfold read_ar. destruct (bytes_eqb (firstn 8 file) ar_magic); [|discriminate].
  remember (walk (S (length file)) file ar_hdrsz false (mkSt [] [] [])) as w eqn:Ew.
  intros H. assert (Hms : ms = st_members w) by congruence. subst ms w.
  apply Forall_forall. intros m Hin.
  eapply walk_inside; [| |exact Hin]; [unfold ar_hdrsz; lia | intros ? []].
Qed.
