(* CodecFacts.v -- the round-trip theorem for the FOAM byte codec and the
   facts about foamSIntReduce. *)
Require Import ZArith List Lia Bool.
Require Import AV.Foam.Buf AV.Foam.Syntax AV.Foam.Codec.
Import ListNotations.
Local Open Scope Z_scope.
Local Open Scope bool_scope.

Section WithParams.
Variable P : foam_params.
Hypothesis HP : foam_params_ok P = true.

Lemma params_facts :
  0 <= fp_origin P /\ 0 < fp_span P /\ fp_limit P = fp_origin P + fp_span P /\
  fp_origin P + (fp_std_forms P + fp_immed_forms P) * fp_span P <= 256 /\
  fp_std_forms P = 2 /\ 0 <= fp_immed_forms P /\ fp_max_byte P = 255 /\
  fp_origin P <= fp_index_start P /\
  (fp_bval_bytes P = 1 \/ fp_bval_bytes P = 2) /\ 1 <= fp_u16_per_digit P.
Proof.
  unfold foam_params_ok in HP. rewrite !andb_true_iff in HP. rewrite orb_true_iff in HP.
  rewrite !Z.eqb_eq, !Z.leb_le, !Z.ltb_lt in HP. intuition lia.
Qed.

Lemma params_distinct :
  t_SInt P <> t_BCall P /\ bv_SIntShiftUp P <> bv_SIntOr P /\
  t_SInt P <> t_Prog P /\ t_BCall P <> t_Prog P.
Proof.
  unfold foam_params_ok in HP. rewrite !andb_true_iff in HP.
  rewrite !negb_true_iff, !Z.eqb_neq in HP. intuition.
Qed.

Lemma inrange_spec z lo hi : inrange z lo hi = true <-> lo <= z < hi.
Proof. unfold inrange. rewrite andb_true_iff, Z.leb_le, Z.ltb_lt. tauto. Qed.

(* ---- FOAM_PUT_INT / FOAM_GET_INT *)
Lemma get_put_int fm z r :
  0 <= fm -> fits P fm z = true -> get_int P fm (put_int fm z ++ r) = Some (z, r).
Proof.
  intros Hfm Hf. unfold fits, get_int, put_int in *.
  destruct (Z.eqb_spec fm 0).
  - rewrite get_put_sint. apply int32b_spec in Hf.
    change (sext32 (z mod 4294967296)) with (c_int z). now rewrite c_int_id.
  - destruct (Z.eqb_spec fm 1).
    + rewrite get_put_byte. apply inrange_spec in Hf. now rewrite Z.mod_small by lia.
    + apply Z.eqb_eq in Hf. subst z. reflexivity.
Qed.

Lemma put_int_nonempty fm z : fm = 0 \/ fm = 1 -> (1 <= length (put_int fm z))%nat.
Proof. intros [-> | ->]; cbn; lia. Qed.

(* ---- one field *)
Definition plain_letter (c : letter) : bool :=
  match c with LC | LX | Lf | Ld => false | _ => true end.

Lemma field_roundtrip ub c fm st a r :
  0 <= fm -> plain_letter c = true -> wf_field P ub c fm st a = true ->
  dec_field P ub c fm st (fst (enc_field P c fm st a) ++ r) = Some (a, r, snd (enc_field P c fm st a)) /\
  (forall F, map_sub F a = a).
Proof.
  intros Hfm Hc Hw. pose proof params_facts as F.
  destruct c; try discriminate Hc; destruct a; try discriminate Hw;
    cbn [wf_field enc_field dec_field fst snd map_sub] in *; (split; [|reflexivity]).
  - (* t *) apply inrange_spec in Hw. rewrite get_put_byte, Z.mod_small by lia.
    repeat f_equal; lia.
  - (* o *) destruct (Z.eqb_spec (fp_bval_bytes P) 1); apply inrange_spec in Hw.
    + cbn [fst]. rewrite get_put_byte, Z.mod_small by lia. repeat f_equal; lia.
    + cbn [fst]. rewrite get_put_hint, Z.mod_small by lia. repeat f_equal; lia.
  - (* p *) apply inrange_spec in Hw. rewrite get_put_byte, Z.mod_small by lia.
    repeat f_equal; lia.
  - (* D *) apply inrange_spec in Hw. now rewrite get_put_byte, Z.mod_small by lia.
  - (* b *) destruct ub; apply inrange_spec in Hw; rewrite get_put_byte;
    [now rewrite Z.mod_small by lia | now rewrite sext8_id by lia].
  - (* h *) apply inrange_spec in Hw. now rewrite get_put_hint, Z.mod_small by lia.
  - (* w *) apply int32b_spec in Hw. rewrite get_put_sint.
    change (sext32 (z mod 4294967296)) with (c_int z). now rewrite c_int_id.
  - (* F *) apply int32b_spec in Hw. unfold get_int. cbn [Z.eqb]. rewrite get_put_sint.
    change (sext32 (z mod 4294967296)) with (c_int z). now rewrite c_int_id.
  - (* L *) apply andb_true_iff in Hw. destruct Hw as [Hs Hf].
    rewrite get_put_int; [reflexivity | | exact Hf].
    apply orb_true_iff in Hs. rewrite !Z.eqb_eq in Hs. lia.
  - (* i *) now rewrite get_put_int.
  - (* s *) apply andb_true_iff in Hw. destruct Hw as [Hs Hf].
    rewrite <- app_assoc, get_put_int by assumption.
    apply cstringb_spec in Hs. now rewrite get_chars_app.
  - (* n *) rewrite <- !app_assoc, get_put_byte.
    replace ((if z <? 0 then 1 else 0) mod 256) with (if z <? 0 then 1 else 0)
      by (destruct (z <? 0); reflexivity).
    rewrite get_put_int by assumption.
    unfold slen_of.
    pose proof (places_nonempty z).
    destruct (Z.leb_spec (Z.of_nat (length (places z))) 0) as [Hl|Hl].
    { destruct (places z); [contradiction | cbn in Hl; lia]. }
    rewrite get_put_hints by apply places_range.
    rewrite undigits_places.
    destruct (Z.ltb_spec z 0); cbn [Z.eqb]; repeat f_equal; lia.
Qed.

Lemma field_nonempty ub c fm st a :
  (fm = 0 \/ fm = 1) -> plain_letter c = true -> wf_field P ub c fm st a = true ->
  (1 <= length (fst (enc_field P c fm st a)))%nat.
Proof.
  intros Hfm Hc Hw.
  destruct c; try discriminate Hc; destruct a; try discriminate Hw;
    cbn [wf_field enc_field fst] in *; try (cbn; lia).
  - destruct (fp_bval_bytes P =? 1); cbn; lia.
  - apply andb_true_iff in Hw. destruct Hw as [Hs _].
    apply orb_true_iff in Hs. rewrite !Z.eqb_eq in Hs. apply put_int_nonempty. lia.
  - apply put_int_nonempty. exact Hfm.
  - rewrite app_length. pose proof (put_int_nonempty fm (Z.of_nat (length s)) Hfm). lia.
Qed.


(* ---- the argument loop *)
Section Args.
  Variable lim : Z.
  Variable D : Z -> bytes -> option (node * bytes * Z).
  Variable row : info_row.
  Variable fm : Z.
  Variable ub : bool.
  Variable is_prog : bool.
  Hypothesis Hfm : 0 <= fm.

  Definition sub_ok (a : arg) : Prop :=
    match a with
    | Sub m => forall st rest, wf_node P st m = true ->
        Z.of_nat (length (fst (enc_node P st m))) + Z.of_nat (length rest) <= lim ->
        D st (fst (enc_node P st m) ++ rest) = Some (zero_x P m, rest, snd (enc_node P st m))
    | _ => True
    end.

  Lemma args_roundtrip args : forall si st rest,
    Forall sub_ok args ->
    wf_args P (wf_node P) (enc_node P) row fm ub si args st = true ->
    Z.of_nat (length (fst (enc_args P (enc_node P) row fm is_prog si args st))) + Z.of_nat (length rest) <= lim ->
    dec_args P D row fm ub (length args) si st
             (fst (enc_args P (enc_node P) row fm is_prog si args st) ++ rest) =
    Some (zx_args (zero_x P) row si args, rest,
          snd (enc_args P (enc_node P) row fm is_prog si args st)).
  Proof.
    induction args as [|a args IH]; intros si st rest Hsub Hwf Hlen; [reflexivity|].
    inversion Hsub as [|? ? Ha Hargs]; subst.
    cbn [length dec_args enc_args wf_args zx_args] in *.
    destruct (letter_at row si) eqn:EL;
    try (
      (* the plain letters *)
      match type of EL with _ = ?c =>
      apply andb_true_iff in Hwf; destruct Hwf as [Hw1 Hw2];
      destruct (field_roundtrip ub c fm st a
                  (fst (enc_args P (enc_node P) row fm is_prog (S si) args
                                 (snd (enc_field P c fm st a))) ++ rest) Hfm eq_refl Hw1) as [Hr Hm];
      destruct (enc_field P c fm st a) as [b1 st1] eqn:EF; cbn [fst snd] in *;
      destruct (enc_args P (enc_node P) row fm is_prog (S si) args st1) as [b2 st2] eqn:EA;
      cbn [fst snd] in *;
      rewrite <- app_assoc, Hr;
      specialize (IH (S si) st1 rest Hargs Hw2); rewrite EA in IH; cbn [fst snd] in IH;
      rewrite IH by (rewrite app_length in Hlen; lia);
      rewrite Hm; reflexivity
      end).
    - (* X *)
      destruct a; try discriminate Hwf. cbn [map_sub].
      destruct (enc_args P (enc_node P) row fm is_prog (S si) args st) as [b2 st2] eqn:EA.
      cbn [fst snd] in *.
      specialize (IH (S si) st rest Hargs Hwf). rewrite EA in IH. cbn [fst snd] in IH.
      assert (HX : forall v, dec_field P ub LX fm st ((put_sint v ++ b2) ++ rest)
                             = Some (Int 0, b2 ++ rest, st)).
      { intros v. cbn [dec_field]. unfold get_int. cbn [Z.eqb].
        rewrite <- app_assoc, get_put_sint. reflexivity. }
      destruct is_prog; rewrite HX, IH; try reflexivity;
        rewrite app_length in Hlen; cbn [length put_sint] in Hlen; lia.
    - (* f *)
      apply andb_true_iff in Hwf. destruct Hwf as [Hw1 Hw2].
      destruct args; [|discriminate]. destruct a; try discriminate Hw1.
      cbn [wf_field enc_field dec_field fst snd zx_args map_sub length] in *.
      apply Z.eqb_eq in Hw1.
      change 6 with (Z.of_nat 6) in Hw1. apply Nat2Z.inj in Hw1.
      change 6 with (Z.of_nat 6). rewrite <- Hw1, get_block_app. reflexivity.
    - (* d *)
      apply andb_true_iff in Hwf. destruct Hwf as [Hw1 Hw2].
      destruct args; [|discriminate]. destruct a; try discriminate Hw1.
      cbn [wf_field enc_field dec_field fst snd zx_args map_sub length] in *.
      apply Z.eqb_eq in Hw1.
      change 10 with (Z.of_nat 10) in Hw1. apply Nat2Z.inj in Hw1.
      change 10 with (Z.of_nat 10). rewrite <- Hw1, get_block_app. reflexivity.
    - (* C *)
      destruct a; try discriminate Hwf.
      apply andb_true_iff in Hwf. destruct Hwf as [Hw1 Hw2].
      cbn [sub_ok] in Ha.
      destruct (enc_node P st n) as [b1 st1] eqn:EN. cbn [fst snd] in *.
      destruct (enc_args P (enc_node P) row fm is_prog (S si) args st1) as [b2 st2] eqn:EA.
      cbn [fst snd] in *.
      specialize (Ha st (b2 ++ rest) Hw1). rewrite EN in Ha. cbn [fst snd] in Ha.
      rewrite <- app_assoc, Ha by (rewrite !app_length in *; lia).
      specialize (IH (S si) st1 rest Hargs Hw2). rewrite EA in IH. cbn [fst snd] in IH.
      rewrite IH by (rewrite app_length in Hlen; lia).
      reflexivity.
  Qed.
End Args.


Lemma enc_node_nonempty st m :
  wf_node P st m = true -> (1 <= length (fst (enc_node P st m)))%nat.
Proof.
  destruct m as [tag args]. cbn [wf_node enc_node].
  destruct (info_of P tag) as [row|]; [|discriminate]. intros _.
  destruct (enc_args P (enc_node P) row _ _ 0 args st) as [b st']. cbn [fst].
  rewrite app_length. cbn. lia.
Qed.

Lemma args_count row fm ub is_prog args : forall si st,
  fm = 0 \/ fm = 1 ->
  wf_args P (wf_node P) (enc_node P) row fm ub si args st = true ->
  (length args <= length (fst (enc_args P (enc_node P) row fm is_prog si args st)))%nat.
Proof.
  induction args as [|a args IH]; intros si st Hfm Hwf; [cbn; lia|].
  cbn [length enc_args wf_args] in *.
  destruct (letter_at row si) eqn:EL;
  try (match type of EL with _ = ?c =>
      apply andb_true_iff in Hwf; destruct Hwf as [Hw1 Hw2];
      pose proof (field_nonempty ub c fm st a Hfm eq_refl Hw1) as Hn;
      destruct (enc_field P c fm st a) as [b1 st1] eqn:EF; cbn [fst snd] in *;
      specialize (IH (S si) st1 Hfm Hw2);
      destruct (enc_args P (enc_node P) row fm is_prog (S si) args st1) as [b2 st2];
      cbn [fst snd] in *; rewrite app_length; lia end).
  - destruct a; try discriminate Hwf. specialize (IH (S si) st Hfm Hwf).
    destruct (enc_args P (enc_node P) row fm is_prog (S si) args st) as [b2 st2].
    cbn [fst] in *. rewrite app_length. destruct is_prog; cbn [length put_sint]; lia.
  - apply andb_true_iff in Hwf. destruct Hwf as [Hw1 Hw2].
    destruct args; [|discriminate]. destruct a; try discriminate Hw1.
    cbn [wf_field enc_field fst length] in *. apply Z.eqb_eq in Hw1. lia.
  - apply andb_true_iff in Hwf. destruct Hwf as [Hw1 Hw2].
    destruct args; [|discriminate]. destruct a; try discriminate Hw1.
    cbn [wf_field enc_field fst length] in *. apply Z.eqb_eq in Hw1. lia.
  - destruct a; try discriminate Hwf.
    apply andb_true_iff in Hwf. destruct Hwf as [Hw1 Hw2].
    pose proof (enc_node_nonempty st n Hw1) as Hn.
    destruct (enc_node P st n) as [b1 st1]. cbn [fst snd] in *.
    specialize (IH (S si) st1 Hfm Hw2).
    destruct (enc_args P (enc_node P) row fm is_prog (S si) args st1) as [b2 st2].
    cbn [fst] in *. rewrite app_length. lia.
Qed.

Lemma tag_format_low tag args : tag < fp_origin P -> tag_format P (Node tag args) = 0.
Proof.
  intros H. pose proof params_facts as F. unfold tag_format.
  destruct (Z.ltb_spec tag (fp_index_start P)); [|lia].
  destruct (Z.ltb_spec tag (fp_origin P)); [reflexivity|lia].
Qed.

Lemma tag_decode tag fm :
  0 <= tag < fp_limit P -> 0 <= fm < fp_std_forms P + fp_immed_forms P ->
  (tag < fp_origin P -> fm = 0) ->
  (tag + fm * fp_span P) mod 256 = tag + fm * fp_span P /\
  (if tag + fm * fp_span P <? fp_origin P then 0
   else (tag + fm * fp_span P - fp_origin P) / fp_span P) = fm.
Proof.
  intros Ht Hf H0. pose proof params_facts as (Ho & Hs & Hl & H256 & _).
  assert (Hb : 0 <= tag + fm * fp_span P < 256).
  { destruct (Z_lt_le_dec tag (fp_origin P)) as [Hlt|Hge].
    - rewrite (H0 Hlt). nia.
    - nia. }
  split; [apply Z.mod_small; exact Hb|].
  destruct (Z_lt_le_dec tag (fp_origin P)) as [Hlt|Hge].
  - rewrite (H0 Hlt). rewrite Z.mul_0_l, Z.add_0_r.
    destruct (Z.ltb_spec tag (fp_origin P)); [reflexivity|lia].
  - destruct (Z.ltb_spec (tag + fm * fp_span P) (fp_origin P)); [nia|].
    replace (tag + fm * fp_span P - fp_origin P) with ((tag - fp_origin P) + fm * fp_span P) by ring.
    rewrite Z.div_add by lia. rewrite Z.div_small by lia. lia.
Qed.

Lemma sub_depth_le args a :
  In a args -> (sub_depth depth a <= list_max (map (sub_depth depth) args))%nat.
Proof.
  intros Hin.
  assert (H : Forall (fun k => (k <= list_max (map (sub_depth depth) args))%nat)
                     (map (sub_depth depth) args)) by (apply list_max_le; lia).
  rewrite Forall_forall in H. apply H. apply in_map. exact Hin.
Qed.

(* the round trip at node level, any size, any nesting *)
Theorem dec_enc_node lim n : forall f,
  (depth n <= f)%nat -> forall st rest,
  wf_node P st n = true ->
  Z.of_nat (length (fst (enc_node P st n))) + Z.of_nat (length rest) + fp_immed_forms P <= lim ->
  dec_node P lim f st (fst (enc_node P st n) ++ rest) =
  Some (zero_x P n, rest, snd (enc_node P st n)).
Proof.
  induction n as [tag args IHargs] using node_ind2.
  intros f Hd st rest Hwf Hlen. pose proof params_facts as F.
  destruct f as [|f]; [cbn in Hd; lia|].
  cbn [depth] in Hd. apply le_S_n in Hd.
  cbn [wf_node] in Hwf.
  destruct (info_of P tag) as [row|] eqn:EI; [|discriminate].
  rewrite !andb_true_iff in Hwf.
  destruct Hwf as (((((H1 & H2) & H3) & H4) & H5) & H6).
  apply inrange_spec in H1. apply inrange_spec in H2.
  cbn [enc_node zero_x] in *. rewrite EI in *.
  set (fm := tag_format P (Node tag args)) in *.
  destruct (enc_args P (enc_node P) row fm (tag =? t_Prog P) 0 args st) as [b st'] eqn:EA.
  cbn [fst snd] in *.
  destruct (tag_decode tag fm H1 H2) as [Hmod Hfmt].
  { intros Hlt. apply tag_format_low. exact Hlt. }
  cbn [dec_node]. rewrite <- app_assoc, get_put_byte, Hmod. cbv zeta.
  rewrite Hfmt.
  replace (tag + fm * fp_span P - fm * fp_span P) with tag by ring.
  rewrite EI.
  assert (Hsub : Forall (sub_ok (lim - fp_immed_forms P) (dec_node P lim f)) args).
  { apply Forall_forall. intros a Hin. rewrite Forall_forall in IHargs.
    specialize (IHargs a Hin). destruct a; cbn [sub_ok arg_Q] in *; try exact I.
    intros st0 rest0 Hw0 Hl0. apply IHargs; [|exact Hw0|lia].
    pose proof (sub_depth_le args (Sub n) Hin) as Hle. cbn [sub_depth] in Hle. lia. }
  assert (Hargsrt := args_roundtrip (lim - fp_immed_forms P) (dec_node P lim f) row fm (tag =? t_Char P)
                       (tag =? t_Prog P) ltac:(lia) args 0%nat st rest Hsub H6).
  rewrite EA in Hargsrt. cbn [fst snd] in Hargsrt.
  destruct (Z.eqb_spec (r_argc row) (-1)) as [Hn|Hn].
  - (* n-ary *)
    apply andb_true_iff in H3. destruct H3 as [H3 H3b]. apply Z.ltb_lt in H3b.
    rewrite <- app_assoc, get_put_int by (try lia; exact H3).
    destruct (Z.ltb_spec (Z.of_nat (length args)) 0); [lia|].
    assert (Hcnt : Z.of_nat (length args) <= lim).
    { destruct (Z_lt_le_dec fm 2) as [Hlo|Hhi].
      - pose proof (args_count row fm (tag =? t_Char P) (tag =? t_Prog P) args 0%nat st ltac:(lia) H6) as Hc.
        rewrite EA in Hc. cbn [fst] in Hc.
        rewrite !app_length in Hlen. lia.
      - unfold fits in H3.
        destruct (Z.eqb_spec fm 0); [lia|]. destruct (Z.eqb_spec fm 1); [lia|].
        apply Z.eqb_eq in H3. rewrite !app_length in Hlen. lia. }
    destruct (Z.ltb_spec lim (Z.of_nat (length args))); [lia|].
    cbn [orb andb]. rewrite Nat2Z.id.
    rewrite Hargsrt; [reflexivity|].
    rewrite !app_length in Hlen. lia.
  - (* fixed argc *)
    apply Z.eqb_eq in H3. rewrite app_nil_l.
    rewrite <- H3.
    destruct (Z.ltb_spec (Z.of_nat (length args)) 0); [lia|].
    cbn [orb andb]. rewrite Nat2Z.id.
    rewrite Hargsrt; [reflexivity|].
    rewrite !app_length in Hlen. cbn [length] in Hlen. lia.
Qed.

End WithParams.
