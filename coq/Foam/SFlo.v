(* SFlo.v -- the spelling of SFlo / DFlo atoms in FOAM text, on top of C19's model of the text
   route of a float constant (XFloat/TextModel.v: util.c DFloatSprint decision incl. the sign of
   zero, sexpr.c's exponent-marker overwrite) -- required, not copied.

   foamToSExpr0 case 'f'/'d': sxiFrSFloat / sxiFrDFloat keep the value as a double (an SFlo is
   widened, exactly) with marker 's' resp. 'e'; sxiWrUnscanToken prints DFloatSprint's text and
   overwrites its first letter with the marker (appends marker and "0" when there is none).
   A float atom is identified here by the IEEE bit pattern of that double.

   libc's printf("%#.*g") and the number scanner are oracles (Section variables), exactly as in
   C19's TextFacts.ReadBack; the theorem takes C19's two named hypotheses (g17_roundtrip,
   reader_reads_zero_text) plus two about the marker, and is about FINITE values only: what a folded
   infinity or NaN is written as ("enf", "-san") is the listed C19 finding, excluded by hypothesis. *)
Require Import ZArith Bool String Ascii.
Require Import AV.XFloat.TextShape AV.Gen.XFloatParams AV.XFloat.TextModel AV.XFloat.TextFacts.
Local Open Scope Z_scope.

Section FloAtom.
  Variable printf_g : string -> Z -> Z -> string.   (* sprintf(buf, fmt, prec, d) *)
  Variable strtod   : string -> option Z.            (* a correctly rounding reader of C-style text *)
  Variable sx_scan  : string -> option Z.            (* sexpr.c's scanner on a float token *)

  Definition marker_of (single : bool) : ascii := if single then "s"%char else "e"%char.

  (* the characters sxiWrite prints for the atom *)
  Definition pr_flo (single : bool) (bits : Z) : string :=
    sx_mark (marker_of single) (render printf_g (dfloatSprint sprint_default bits)).

  (* first letter of a text, if any *)
  Fixpoint first_alpha (s : string) : option ascii :=
    match s with
    | EmptyString => None
    | String c t => if is_alpha c then Some c else first_alpha t
    end.

  (* NAMED, about libc: "%#.*g" of a finite non-zero double has no letter but possibly its 'e' *)
  Definition printf_exponent_letter : Prop :=
    forall bits, 0 <= bits < 2 ^ 64 -> finite64 bits = true -> is_zero64 bits = false ->
      first_alpha (printf_g "%#.*g"%string 17 bits) = None \/
      first_alpha (printf_g "%#.*g"%string 17 bits) = Some "e"%char.
  (* NAMED, about sexpr.c's scanner: a number whose exponent letter is the marker s / e (or that got
     marker and "0" appended) is read as strtod reads the text it was made from *)
  Definition scanner_reads_marker : Prop :=
    forall mk t z, (mk = "s"%char \/ mk = "e"%char) ->
      (first_alpha t = None \/ first_alpha t = Some "e"%char) ->
      strtod t = Some z -> sx_scan (sx_mark mk t) = Some z.

  Lemma zero_text_no_letter :
    first_alpha "0.0000000000000000"%string = None /\ first_alpha "-0.0000000000000000"%string = None.
  Proof. vm_compute. split; reflexivity. Qed.

  (* every finite float atom reads back as the double it was written for, single or double marker *)
  Theorem flo_atom_roundtrip :
    g17_roundtrip printf_g strtod -> reader_reads_zero_text strtod ->
    printf_exponent_letter -> scanner_reads_marker ->
    forall single bits, 0 <= bits < 2 ^ 64 -> finite64 bits = true ->
      sx_scan (pr_flo single bits) = Some bits.
  Proof.
    intros H17 Hz Hlet Hsc single bits Hb Hf. unfold pr_flo.
    assert (Hmk : marker_of single = "s"%char \/ marker_of single = "e"%char) by (destruct single; auto).
    destruct (is_zero64 bits) eqn:E.
    - destruct (sprint_zero_keeps_sign_all bits Hb E) as [(t & Ht & Hs & _) _].
      rewrite Ht. cbn [render]. apply Hsc; [exact Hmk | | apply Hz; exact Hs].
      (* the zero texts have no letter *)
      destruct (zero_patterns bits Hb E) as [-> | ->]; vm_compute in Ht; injection Ht as <-; left; vm_compute; reflexivity.
    - rewrite sprint_nonzero_all by assumption. cbn [render].
      change (sm_fmt sprint_default) with "%#.*g"%string. change (sm_prec sprint_default) with 17.
      apply Hsc; [exact Hmk | apply Hlet; assumption | apply H17; assumption].
  Qed.
End FloAtom.

(* the atom text is decided by DFloatSprint's text and the marker only (used by the check: the
   extracted [atom_of_text] applied to libc's printf text must be what sxiWrite printed) *)
Definition atom_of_text (single : bool) (is_zero neg : bool) (printf_text : string) : string :=
  sx_mark (marker_of single)
    (match dfloatSprint sprint_default (if is_zero then (if neg then 2 ^ 63 else 0) else 1) with
     | SText s => s
     | SPrintf _ _ _ => printf_text
     end).
