(* Current.v -- the generic theorems instantiated at the table and constants
   generated from the CURRENT foam.c / foam.h / lib.c / lib.h (coq/Gen/FoamInfo.v).
   The side conditions on the table are decided here by computation. *)
Require Import ZArith List Lia Bool.
Require Import AV.Foam.Buf AV.Foam.Syntax AV.Foam.Codec AV.Foam.CodecFacts AV.Foam.CodecFacts2
               AV.Foam.CodecFacts3 AV.Foam.CodecFacts4 AV.Foam.SExpr AV.Foam.SExprFacts AV.Foam.SExprFacts2
               AV.Foam.SLex AV.Foam.Archive AV.Foam.ArchiveFacts AV.Foam.ArchiveFacts2 AV.Foam.LibSect AV.Foam.LibSectFacts AV.Foam.LibHdr AV.Foam.LibHdrFacts AV.Foam.LibHdrFacts2
               AV.Gen.FoamInfo.
Import ListNotations.
Local Open Scope Z_scope.

Lemma FP_ok : foam_params_ok FP = true.
Proof. vm_compute. reflexivity. Qed.

Lemma LP_ok : lib_params_ok LP = true.
Proof. vm_compute. reflexivity. Qed.

(* ---- non-trivial witnesses for the hypotheses *)
(* a Prog (label format latched to 4-byte by F = 300) whose body holds a builtin
   call on a 41-bit and on the minimal 64-bit SInt, a Decl, a negative 71-bit
   big integer and a two-index Lex with a >1-byte index *)
Definition ex_node : node :=
  Node (t_Prog FP)
    [Int 0; Int 300; Int 5; Int 4; Int 0; Int 0; Int 0; Int 0;
     Sub (Node (t_BCall FP) [Int (bv_SIntOr FP);
                             Sub (Node (t_SInt FP) [Int 1099511627781]);
                             Sub (Node (t_SInt FP) [Int (-9223372036854775808)])]);
     Sub (Node (t_Decl FP) [Int 5; Str [104; 105]; Int (-1); Int 4]);
     Sub (Node (t_BInt FP) [BIntA (-1180591620717411303424)]);
     Sub (Node (t_Lex FP) [Int 1; Int 300])].

Example ex_node_wf : wf FP 0 ex_node = true.
Proof. vm_compute. reflexivity. Qed.

Example ex_node_not_canonical : canon FP ex_node <> ex_node.
Proof. vm_compute. discriminate. Qed.

Example ex_node_roundtrip :
  dec FP 0 (fst (enc FP 0 ex_node) ++ [7; 7]) = Some (canon FP ex_node, [7; 7], 0).
Proof. vm_compute. reflexivity. Qed.

Example ex_sint_min : eval_sint FP (sint_reduce FP (-9223372036854775808)) = Some (-9223372036854775808).
Proof. vm_compute. reflexivity. Qed.

Definition ex_lunit : lunit := [(5, [1; 2; 3]); (1, [9; 9]); (15, [])].

Example ex_lunit_wf : wf_lunit LP ex_lunit.
Proof.
  unfold wf_lunit, ex_lunit. cbn.
  repeat split; try lia.
  - repeat constructor; cbn; intuition lia.
  - repeat constructor; lia.
Qed.

Example ex_hdr_wf : wf_hdr LP (mk_hdr LP ex_lunit).
Proof. apply (mk_hdr_wf LP LP_ok). exact ex_lunit_wf. Qed.

(* ---- C05 *)
Definition dec_enc_current := dec_enc FP FP_ok.
Definition sintreduce_value_current := sintreduce_value FP FP_ok.
Definition canon_idempotent_current := canon_idempotent FP FP_ok.
Definition resave_identical_current := resave_identical FP FP_ok.
Definition hdr_roundtrip_current := hdr_roundtrip LP.

Lemma sections_contiguous_current u :
  wf_lunit LP u ->
  chk_header LP (mk_hdr LP u) = ChkOk /\
  (let h := mk_hdr LP u in
   let sl := nth (Z.to_nat (h_num h - 1)) (h_sects h) (dflt_sect LP) in
   s_off sl + s_len sl = Z.of_nat (length (write_lib LP u))) /\
  (forall pre n c post, u = pre ++ (n, c) :: post ->
     get_section LP (mk_hdr LP u) (write_lib LP u) n = Content c).
Proof.
  intros Hwf. split; [apply (chk_header_mk LP LP_ok); exact Hwf|].
  split; [apply (last_section_end LP LP_ok); exact Hwf|].
  intros pre n c post E. eapply (intact_sections LP LP_ok); eauto.
Qed.

(* ---- C17 *)
Definition reader_total_current := reader_total LP.
Definition intact_loaded_current := intact_loaded_hdr LP LP_ok.
Definition truncation_refused_current := truncation_refused LP LP_ok.

Lemma single_byte_header_dichotomy_partial_current u k b :
  wf_lunit LP u ->
  ((Z.to_nat (lp_hdr_size LP) <= k)%nat ->
     read_lib LP (subst_nth k b (write_lib LP u)) = Loaded (mk_hdr LP u)) /\
  ((k < 2)%nat -> 0 <= b < 256 -> b <> nth k (write_lib LP u) 0 ->
     read_lib LP (subst_nth k b (write_lib LP u)) = Refused BadMagic).
Proof.
  intros Hwf. split.
  - intros Hk. now apply (body_damage_loaded LP LP_ok).
  - intros Hk Hb Hne. now apply (magic_damage_refused LP LP_ok).
Qed.

Example ex_magic_damage :
  read_lib LP (subst_nth 1 0 (write_lib LP ex_lunit)) = Refused BadMagic.
Proof. vm_compute. reflexivity. Qed.

(* ---- the FOAM text form *)
Lemma TP_ok : text_params_ok FP TP = true.
Proof. vm_compute. reflexivity. Qed.

Definition sexpr_roundtrip_current := sexpr_roundtrip FP TP TP_ok.
Definition resave_text_current := resave_text FP TP TP_ok.

(* a Prog with wide integers, a GDecl with return type 7 (kept), a Decl with syme index 7 (written
   as -1), a big integer and the minimal SInt *)
Definition ex_text : node :=
  Node (t_Prog FP)
    [Int 8589934592; Int 300; Int 5; Int 4; Int (-1099511627776); Int 0; Int 0; Int 0;
     Sub (Node (t_GDecl FP) [Int 5; Str [34; 92; 120]; Int 7; Int 4; Int 1; Int 0]);
     Sub (Node (t_Decl FP) [Int 5; Str [104; 105]; Int 7; Int 4]);
     Sub (Node (t_BInt FP) [BIntA (-1180591620717411303424)]);
     Sub (Node (t_SInt FP) [Int (-9223372036854775808)])].

Example ex_text_wf : wf_text FP TP ex_text = true.
Proof. vm_compute. reflexivity. Qed.
Example ex_text_not_canonical : tcanon FP ex_text <> ex_text.
Proof. vm_compute. discriminate. Qed.
Example ex_text_roundtrip : rd FP TP (wr FP TP ctx0 ex_text ++ [TR]) = Some (tcanon FP ex_text, [TR]).
Proof. vm_compute. reflexivity. Qed.
Example ex_int_atom : pr_int (-9223372036854775808) = [45; 57; 50; 50; 51; 51; 55; 50; 48; 51; 54; 56; 53; 52; 55; 55; 53; 56; 48; 56].
Proof. vm_compute. reflexivity. Qed.

(* ---- ar archives: a concrete two-member archive as ar(1) writes it ("x.ao/" padded, decimal
   fields, "`\n"), one member of odd length (padding byte), one member that is not an object file *)
Definition ex_ar_hdr (name : bytes) (size : bytes) : bytes :=
  (name ++ [47] ++ repeat 32 (15 - length name)) ++ ([48] ++ repeat 32 11) ++ ([48] ++ repeat 32 5) ++
  ([48] ++ repeat 32 5) ++ ([54; 52; 52] ++ repeat 32 5) ++ (size ++ repeat 32 (10 - length size)) ++ [96; 10].
Definition ex_ar : bytes :=
  ar_magic ++ ex_ar_hdr [120; 46; 97; 111] [51] ++ [1; 2; 3; 10]           (* x.ao, 3 bytes + pad *)
           ++ ex_ar_hdr [114; 46; 116; 120; 116] [50] ++ [7; 7]               (* r.txt, 2 bytes *)
           ++ ex_ar_hdr [76; 105; 98; 46; 97; 111] [52] ++ [9; 9; 9; 9].      (* Lib.ao, 4 bytes *)

Example ex_ar_intact_found :
  read_ar ex_ar = Members [([120; 46; 97; 111], 68); ([76; 105; 98; 46; 97; 111], 194)] [].
Proof. vm_compute. reflexivity. Qed.
Example ex_ar_lookup_ignores_case : find_member [([120; 46; 97; 111], 68); ([76; 105; 98; 46; 97; 111], 194)] [108; 105; 98; 46; 97; 111] = Some 194.
Proof. vm_compute. reflexivity. Qed.
(* cut inside the third header: the first member is still found, the walk reports ArTruncated *)
Example ex_ar_truncated_header :
  read_ar (firstn 150 ex_ar) = Members [([120; 46; 97; 111], 68)]
    [ArTruncated; ArBadNumber; ArTruncated; ArBadNumber; ArTruncated; ArBadNumber; ArTruncated; ArBadNumber; ArTruncated; ArBadNumber; ArTruncated; ArTruncated].
Proof. vm_compute. reflexivity. Qed.
(* cut inside the data of the last member: recorded, and reported as truncated *)
Example ex_ar_truncated_data :
  read_ar (firstn 196 ex_ar) = Members [([120; 46; 97; 111], 68); ([76; 105; 98; 46; 97; 111], 194)] [ArTruncated].
Proof. vm_compute. reflexivity. Qed.
(* cut exactly at the boundary before the third member: a valid two-member archive, no diagnostic *)
Example ex_ar_boundary_cut :
  read_ar (firstn 134 ex_ar) = Members [([120; 46; 97; 111], 68)] [].
Proof. vm_compute. reflexivity. Qed.
(* the example archive is what the writer of the theorems produces *)
Definition ex_ar_members : list (bytes * bytes) :=
  [([120; 46; 97; 111], [1; 2; 3]); ([114; 46; 116; 120; 116], [7; 7]); ([76; 105; 98; 46; 97; 111], [9; 9; 9; 9])].
Example ex_ar_is_written : write_ar ex_ar_members = ex_ar.
Proof. vm_compute. reflexivity. Qed.
Example ex_ar_members_valid : Forall valid_member ex_ar_members.
Proof. repeat constructor; cbn; try lia; intuition lia. Qed.

Definition ar_intact_found_current := ar_intact_found.
Definition ar_truncation_refused_current := ar_truncation_refused.
Definition ar_boundary_cut_accepted_current := ar_boundary_cut_accepted.
Definition ar_members_inside_current := read_ar_members_inside.

(* ---- contents of the LIB_Id and LIB_Name sections *)
Definition ex_names : list bytes := [[70; 111; 111]; [102]; [70; 111; 111]; [103]; [102]].     (* Foo f Foo g f *)
Example ex_names_raw :
  names_to_raw 2 ex_names = mkNames 5 2 [(2, 0); (4, 1)] [[70; 111; 111]; [102]; [103]].
Proof. vm_compute. reflexivity. Qed.
Example ex_names_bytes :
  enc_names (names_to_raw 2 ex_names) = [5; 0; 2; 0; 2; 0; 0; 0; 4; 0; 1; 0; 5; 0; 70; 111; 111; 0; 102; 0; 103; 0].
Proof. vm_compute. reflexivity. Qed.
Example ex_names_cstrings : Forall is_cstring ex_names.
Proof. repeat constructor; lia. Qed.
