(* Current.v -- the generic theorems instantiated at the table and constants
   generated from the CURRENT foam.c / foam.h / lib.c / lib.h (coq/Gen/FoamInfo.v).
   The side conditions on the table are decided here by computation. *)
Require Import ZArith List Lia Bool.
Require Import AV.Foam.Buf AV.Foam.Syntax AV.Foam.Codec AV.Foam.CodecFacts AV.Foam.CodecFacts2
               AV.Foam.CodecFacts3 AV.Foam.CodecFacts4 AV.Foam.LibHdr AV.Foam.LibHdrFacts AV.Foam.LibHdrFacts2
               AV.Gen.FoamInfo.
Import ListNotations.
Local Open Scope Z_scope.

Lemma FP_ok : foam_params_ok FP = true.
Proof. vm_compute. reflexivity. Qed.

Lemma LP_ok : lib_params_ok LP = true.
Proof. vm_compute. reflexivity. Qed.

(* ---- non-trivial witnesses for the hypotheses *)
(* a Prog (label format latched to 4-byte by F = 300) whose body holds a builtin
   call on a 41-bit and on the minimal 64-bit SInt, a Decl, a negative 71-bit
   big integer and a two-index Lex with a >1-byte index *)
Definition ex_node : node :=
  Node (t_Prog FP)
    [Int 0; Int 300; Int 5; Int 4; Int 0; Int 0; Int 0; Int 0;
     Sub (Node (t_BCall FP) [Int (bv_SIntOr FP);
                             Sub (Node (t_SInt FP) [Int 1099511627781]);
                             Sub (Node (t_SInt FP) [Int (-9223372036854775808)])]);
     Sub (Node (t_Decl FP) [Int 5; Str [104; 105]; Int (-1); Int 4]);
     Sub (Node (t_BInt FP) [BIntA (-1180591620717411303424)]);
     Sub (Node (t_Lex FP) [Int 1; Int 300])].

Example ex_node_wf : wf FP 0 ex_node = true.
Proof. vm_compute. reflexivity. Qed.

Example ex_node_not_canonical : canon FP ex_node <> ex_node.
Proof. vm_compute. discriminate. Qed.

Example ex_node_roundtrip :
  dec FP 0 (fst (enc FP 0 ex_node) ++ [7; 7]) = Some (canon FP ex_node, [7; 7], 0).
Proof. vm_compute. reflexivity. Qed.

Example ex_sint_min : eval_sint FP (sint_reduce FP (-9223372036854775808)) = Some (-9223372036854775808).
Proof. vm_compute. reflexivity. Qed.

Definition ex_lunit : lunit := [(5, [1; 2; 3]); (1, [9; 9]); (15, [])].

Example ex_lunit_wf : wf_lunit LP ex_lunit.
Proof.
  unfold wf_lunit, ex_lunit. cbn.
  repeat split; try lia.
  - repeat constructor; cbn; intuition lia.
  - repeat constructor; lia.
Qed.

Example ex_hdr_wf : wf_hdr LP (mk_hdr LP ex_lunit).
Proof. apply (mk_hdr_wf LP LP_ok). exact ex_lunit_wf. Qed.

(* ---- C05 *)
Definition dec_enc_current := dec_enc FP FP_ok.
Definition sintreduce_value_current := sintreduce_value FP FP_ok.
Definition canon_idempotent_current := canon_idempotent FP FP_ok.
Definition resave_identical_current := resave_identical FP FP_ok.
Definition hdr_roundtrip_current := hdr_roundtrip LP.

Lemma sections_contiguous_current u :
  wf_lunit LP u ->
  chk_header LP (mk_hdr LP u) = ChkOk /\
  (let h := mk_hdr LP u in
   let sl := nth (Z.to_nat (h_num h - 1)) (h_sects h) (dflt_sect LP) in
   s_off sl + s_len sl = Z.of_nat (length (write_lib LP u))) /\
  (forall pre n c post, u = pre ++ (n, c) :: post ->
     get_section LP (mk_hdr LP u) (write_lib LP u) n = Content c).
Proof.
  intros Hwf. split; [apply (chk_header_mk LP LP_ok); exact Hwf|].
  split; [apply (last_section_end LP LP_ok); exact Hwf|].
  intros pre n c post E. eapply (intact_sections LP LP_ok); eauto.
Qed.

(* ---- C17 *)
Definition reader_total_current := reader_total LP.
Definition intact_loaded_current := intact_loaded_hdr LP LP_ok.
Definition truncation_refused_current := truncation_refused LP LP_ok.

Lemma single_byte_header_dichotomy_partial_current u k b :
  wf_lunit LP u ->
  ((Z.to_nat (lp_hdr_size LP) <= k)%nat ->
     read_lib LP (subst_nth k b (write_lib LP u)) = Loaded (mk_hdr LP u)) /\
  ((k < 2)%nat -> 0 <= b < 256 -> b <> nth k (write_lib LP u) 0 ->
     read_lib LP (subst_nth k b (write_lib LP u)) = Refused BadMagic).
Proof.
  intros Hwf. split.
  - intros Hk. now apply (body_damage_loaded LP LP_ok).
  - intros Hk Hb Hne. now apply (magic_damage_refused LP LP_ok).
Qed.

Example ex_magic_damage :
  read_lib LP (subst_nth 1 0 (write_lib LP ex_lunit)) = Refused BadMagic.
Proof. vm_compute. reflexivity. Qed.
