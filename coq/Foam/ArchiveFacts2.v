(* ArchiveFacts2.v -- archives as ar(1) writes them (short member names), and what archive.c's
   reader makes of them and of their prefixes:
     ar_intact_found          every member is found at the offset of its data, no diagnostic
     ar_truncation_refused    a cut strictly inside a member's header or data raises a diagnostic
     ar_boundary_cut_accepted a cut exactly at a member boundary IS a valid archive of the first
                              members and is accepted without any diagnostic (the format carries
                              no member count: this explains the finding al:cut-at-member-boundary) *)
Require Import ZArith List Lia Bool.
Require Import AV.Foam.Buf AV.Foam.SLex AV.Foam.Archive AV.Foam.ArchiveFacts.
Import ListNotations.
Local Open Scope Z_scope.
Local Open Scope bool_scope.

(* ---- the writer *)
Definition pad_to (n : nat) (s : bytes) : bytes := s ++ repeat 32 (n - length s).
Definition ar_hdr (name : bytes) (size : Z) : bytes :=
  pad_to 16 (name ++ [47]) ++ pad_to 12 [48] ++ pad_to 6 [48] ++ pad_to 6 [48] ++
  pad_to 8 [54; 52; 52] ++ pad_to 10 (pr_nat size) ++ [96; 10].
Definition padded (n : Z) : Z := if n mod 2 =? 0 then n else n + 1.
Definition member_bytes (m : bytes * bytes) : bytes :=
  ar_hdr (fst m) (Z.of_nat (length (snd m))) ++ snd m ++
  (if Z.of_nat (length (snd m)) mod 2 =? 0 then [] else [10]).
Definition write_ar (ms : list (bytes * bytes)) : bytes := ar_magic ++ flat_map member_bytes ms.

Definition valid_member (m : bytes * bytes) : Prop :=
  (1 <= length (fst m) <= 15)%nat /\
  Forall (fun c => c <> 0 /\ c <> 32 /\ c <> 47) (fst m) /\
  1 <= Z.of_nat (length (snd m)) < 10000000000.

Fixpoint found (h : Z) (ms : list (bytes * bytes)) : list (bytes * Z) :=
  match ms with
  | [] => []
  | m :: r => (if ends_with_ao (fst m) then [(fst m, h + 60)] else []) ++
              found (h + 60 + padded (Z.of_nat (length (snd m)))) r
  end.

Fixpoint total (ms : list (bytes * bytes)) : Z :=
  match ms with [] => 0 | m :: r => 60 + padded (Z.of_nat (length (snd m))) + total r end.

(* ---- fread *)
Lemma fread_at a b c pos len :
  pos = Z.of_nat (length a) -> len = Z.of_nat (length b) -> fread (a ++ b ++ c) pos len = (b, true).
Proof.
  intros -> ->. unfold fread. rewrite !Nat2Z.id.
  rewrite skipn_app, skipn_all, Nat.sub_diag, skipn_O. cbn [app].
  rewrite firstn_app, firstn_all, Nat.sub_diag, firstn_O, app_nil_r. now rewrite Z.eqb_refl.
Qed.

Lemma fread_short file pos len :
  0 <= pos -> 0 < len -> Z.of_nat (length file) < pos + len -> snd (fread file pos len) = false.
Proof.
  intros Hp Hl Hs. unfold fread. cbn [snd].
  apply Z.eqb_neq. rewrite firstn_length, skipn_length. lia.
Qed.

(* ---- decimal fields *)
Lemma digits10_len fuel : forall n z acc,
  (1 <= n)%nat -> 0 <= z < 10 ^ Z.of_nat n ->
  exists ds, digits10 fuel z acc = ds ++ acc /\ (length ds <= n)%nat.
Proof.
  induction fuel as [|f IH]; intros n z acc Hn Hz; [exists []; split; [reflexivity|cbn; lia]|].
  cbn [digits10]. destruct (Z.ltb_spec z 10) as [Hs|Hb].
  - exists [48 + z]. split; [reflexivity|cbn; lia].
  - destruct n as [|[|n]]; [lia| cbn in Hz; lia |].
    assert (Hq : 0 <= z / 10 < 10 ^ Z.of_nat (S n)).
    { split; [apply Z.div_pos; lia|]. apply Z.div_lt_upper_bound; [lia|].
      rewrite (Nat2Z.inj_succ (S n)), Z.pow_succ_r in Hz by lia. lia. }
    destruct (IH (S n) (z / 10) ((48 + z mod 10) :: acc) ltac:(lia) Hq) as (ds & E & Hl).
    exists (ds ++ [48 + z mod 10]). split; [rewrite E, <- app_assoc; reflexivity|].
    rewrite app_length. cbn [length]. lia.
Qed.

Lemma pr_nat_len z : 0 <= z < 10000000000 -> (length (pr_nat z) <= 10)%nat.
Proof.
  intros Hz. unfold pr_nat.
  destruct (digits10_len (S (Z.to_nat (Z.log2 z))) 10 z [] ltac:(lia) ltac:(cbn; lia)) as (ds & E & Hl).
  rewrite E, app_nil_r. exact Hl.
Qed.

Lemma digits_val_digits ds : forall acc r seen v,
  ds <> [] -> (forall d, In d ds -> 48 <= d <= 57) -> rd_digits ds acc = Some v ->
  digits_val 10 (ds ++ r) acc seen = digits_val 10 r v true.
Proof.
  induction ds as [|d ds IH]; intros acc r seen v Hne Hd Hv; [contradiction|].
  cbn [app digits_val]. unfold digit_val. cbn [Z.ltb].
  pose proof (Hd d ltac:(now left)) as Hdd.
  assert (E : (48 <=? d) && (d <? 48 + 10) = true) by (apply andb_true_iff; split; [apply Z.leb_le|apply Z.ltb_lt]; lia).
  change (if 10 <? 10 then 10 else 10) with 10. rewrite E.
  cbn [rd_digits] in Hv.
  assert (E2 : (48 <=? d) && (d <=? 57) = true) by (apply andb_true_iff; split; apply Z.leb_le; lia).
  rewrite E2 in Hv.
  destruct ds as [|d2 ds].
  - cbn [rd_digits] in Hv. injection Hv as <-. reflexivity.
  - apply IH; [discriminate | intros x Hx; apply Hd; now right | exact Hv].
Qed.

Lemma cstr_id s : Forall (fun c => c <> 0) s -> cstr s = s.
Proof.
  induction 1 as [|c s Hc _ IH]; [reflexivity|]. cbn [cstr].
  destruct (Z.eqb_spec c 0); [contradiction|]. now rewrite IH.
Qed.

Lemma repeat_spaces_digits k acc : digits_val 10 (repeat 32 k) acc true = (acc, repeat 32 k, true).
Proof. destruct k; reflexivity. Qed.

(* the size field reads back *)
Lemma size_field z :
  0 <= z < 10000000000 ->
  length (pad_to 10 (pr_nat z)) = 10%nat /\
  cstr (pad_to 10 (pr_nat z)) <> [] /\
  strtol_ok 10 (pad_to 10 (pr_nat z)) = Some z.
Proof.
  intros Hz. pose proof (pr_nat_len z Hz) as Hl.
  destruct (pr_nat_spec z ltac:(lia)) as (Hne & Hrd & Hdig).
  unfold pad_to. split; [rewrite app_length, repeat_length; lia|].
  assert (Hnz : Forall (fun c => c <> 0) (pr_nat z ++ repeat 32 (10 - length (pr_nat z)))).
  { apply Forall_app; split; apply Forall_forall; intros c Hc.
    - specialize (Hdig c Hc). lia.
    - apply repeat_spec in Hc. lia. }
  rewrite (cstr_id _ Hnz). split; [destruct (pr_nat z); [contradiction|discriminate]|].
  unfold strtol_ok. rewrite (cstr_id _ Hnz).
  destruct (pr_nat z) as [|d ds] eqn:E; [contradiction|].
  pose proof (Hdig d ltac:(now left)) as Hd.
  cbn [app skip_spaces]. unfold is_space.
  destruct (Z.eqb_spec d 32); [lia|]. destruct (Z.leb_spec 9 d); destruct (Z.leb_spec d 13); try lia. cbn [andb orb].
  destruct (Z.eqb_spec d 45); [lia|]. destruct (Z.eqb_spec d 43); [lia|].
  change (d :: ds ++ repeat 32 (10 - length (d :: ds))) with ((d :: ds) ++ repeat 32 (10 - length (d :: ds))).
  rewrite (digits_val_digits (d :: ds) 0 _ false z) by (discriminate || assumption).
  rewrite repeat_spaces_digits.
  destruct (repeat 32 (10 - length (d :: ds))) as [|c r] eqn:ER; [reflexivity|].
  assert (c = 32) by (apply (repeat_spec (10 - length (d :: ds)) 32); rewrite ER; now left).
  subst c. reflexivity.
Qed.

Lemma read_number_at a b c pos len base v :
  pos = Z.of_nat (length a) -> len = Z.of_nat (length b) ->
  cstr b <> [] -> strtol_ok base b = Some v ->
  read_number (a ++ b ++ c) pos len base = (v, []).
Proof.
  intros Hp Hl Hc Hs. unfold read_number. rewrite (fread_at a b c pos len Hp Hl). cbn [negb].
  destruct (cstr b); [contradiction|]. now rewrite Hs.
Qed.

Lemma term_name_valid name rest :
  Forall (fun c => c <> 0 /\ c <> 32 /\ c <> 47) name -> term_name (name ++ 47 :: rest) = name.
Proof.
  induction 1 as [|c s Hc _ IH]; [reflexivity|]. cbn [app].
  unfold term_name in *. destruct Hc as (H0 & H32 & H47).
  destruct (Z.eqb_spec c 0); [contradiction|]. destruct (Z.eqb_spec c 32); [contradiction|].
  destruct (Z.eqb_spec c 47); [contradiction|]. cbn [orb]. now rewrite IH.
Qed.

(* ---- one complete header *)
Lemma hdr_length name size :
  (length name <= 15)%nat -> 0 <= size < 10000000000 -> length (ar_hdr name size) = 60%nat.
Proof.
  intros Hn Hs. unfold ar_hdr. rewrite !app_length.
  rewrite (proj1 (size_field size Hs)). unfold pad_to. rewrite !app_length, !repeat_length.
  cbn [length]. lia.
Qed.

Ltac side :=
  first [ reflexivity
        | (vm_compute; discriminate)
        | (rewrite ?app_length; repeat match goal with H : length _ = _ |- _ => rewrite H end;
           repeat match goal with x := Z.of_nat (length _) |- _ => subst x end;
           repeat match goal with x := pad_to _ _ |- _ => subst x end;
           cbn [length pad_to repeat app Nat.sub]; lia) ].

Lemma rd_item0_full pre name size rest :
  (1 <= length name <= 15)%nat -> 0 <= size < 10000000000 ->
  let F := pre ++ ar_hdr name size ++ rest in
  let h := Z.of_nat (length pre) in
  let n := Z.of_nat (length F) in
  rd_item0 F h =
  mkItem (pad_to 16 (name ++ [47])) (if n <=? h + 60 then 0 else h + 60)
         ((if n <=? h + 60 then 0 else h + 60) + padded size)
         (if n <? h + 60 + size then [ArTruncated] else []).
Proof.
  intros Hn Hs F h n.
  destruct (size_field size Hs) as (L6 & C6 & S6).
  set (f1 := pad_to 16 (name ++ [47])). set (f2 := pad_to 12 [48]). set (f3 := pad_to 6 [48]).
  set (f5 := pad_to 8 [54; 52; 52]). set (f6 := pad_to 10 (pr_nat size)). set (f7 := [96; 10]).
  assert (L1 : length f1 = 16%nat) by (unfold f1, pad_to; rewrite !app_length, repeat_length; cbn [length]; lia).
  assert (EF : F = pre ++ f1 ++ f2 ++ f3 ++ f3 ++ f5 ++ f6 ++ f7 ++ rest).
  { unfold F, ar_hdr. fold f1 f2 f3 f5 f6 f7. now rewrite <- !app_assoc. }
  unfold rd_item0. fold n.
  (* name *)
  rewrite EF at 1. rewrite (fread_at pre f1 _ h 16) by (reflexivity || (rewrite L1; reflexivity)).
  (* date *)
  replace F with ((pre ++ f1) ++ f2 ++ (f3 ++ f3 ++ f5 ++ f6 ++ f7 ++ rest)) at 1 by (rewrite EF, <- !app_assoc; reflexivity).
  rewrite (read_number_at (pre ++ f1) f2 _ (h + 16) 12 10 0)
    by side.
  (* uid *)
  replace F with ((pre ++ f1 ++ f2) ++ f3 ++ (f3 ++ f5 ++ f6 ++ f7 ++ rest)) at 1 by (rewrite EF, <- !app_assoc; reflexivity).
  rewrite (read_number_at (pre ++ f1 ++ f2) f3 _ (h + 28) 6 10 0)
    by side.
  (* gid *)
  replace F with ((pre ++ f1 ++ f2 ++ f3) ++ f3 ++ (f5 ++ f6 ++ f7 ++ rest)) at 1 by (rewrite EF, <- !app_assoc; reflexivity).
  rewrite (read_number_at (pre ++ f1 ++ f2 ++ f3) f3 _ (h + 34) 6 10 0)
    by side.
  (* mode *)
  replace F with ((pre ++ f1 ++ f2 ++ f3 ++ f3) ++ f5 ++ (f6 ++ f7 ++ rest)) at 1 by (rewrite EF, <- !app_assoc; reflexivity).
  rewrite (read_number_at (pre ++ f1 ++ f2 ++ f3 ++ f3) f5 _ (h + 40) 8 8 420)
    by side.
  (* size *)
  replace F with ((pre ++ f1 ++ f2 ++ f3 ++ f3 ++ f5) ++ f6 ++ (f7 ++ rest)) at 1 by (rewrite EF, <- !app_assoc; reflexivity).
  rewrite (read_number_at (pre ++ f1 ++ f2 ++ f3 ++ f3 ++ f5) f6 _ (h + 48) 10 10 size)
    by first [ exact C6 | exact S6 | (unfold f6; rewrite L6; reflexivity) | side ].
  (* terminator *)
  replace F with ((pre ++ f1 ++ f2 ++ f3 ++ f3 ++ f5 ++ f6) ++ f7 ++ rest) at 1 by (rewrite EF, <- !app_assoc; reflexivity).
  assert (L6' : length f6 = 10%nat) by exact L6.
  rewrite (fread_at (pre ++ f1 ++ f2 ++ f3 ++ f3 ++ f5 ++ f6) f7 rest (h + 58) 2) by side.
  cbn [app]. unfold padded, ar_align.
  destruct (Z.eqb_spec (size mod 2) 0) as [E|E]; [reflexivity|].
  pose proof (Z.mod_pos_bound size 2 ltac:(lia)).
  replace (size + (2 - size mod 2)) with (size + 1) by lia. reflexivity.
Qed.

(* ---- lengths *)
Lemma member_length m : valid_member m ->
  Z.of_nat (length (member_bytes m)) = 60 + padded (Z.of_nat (length (snd m))).
Proof.
  intros (Hn & _ & Hd). unfold member_bytes. rewrite !app_length, hdr_length by lia.
  unfold padded. destruct (Z.of_nat (length (snd m)) mod 2 =? 0); cbn [length]; lia.
Qed.

Lemma members_length ms : Forall valid_member ms -> Z.of_nat (length (flat_map member_bytes ms)) = total ms.
Proof.
  induction 1 as [|m ms Hm _ IH]; [reflexivity|].
  cbn [flat_map total]. rewrite app_length, Nat2Z.inj_add, member_length, IH by assumption. lia.
Qed.

Lemma total_nonneg ms : 0 <= total ms.
Proof.
  induction ms as [|m ms IH]; [cbn; lia|]. cbn [total]. unfold padded.
  destruct (_ =? 0); lia.
Qed.

(* ---- the walk *)
Lemma walk_diag_mono fuel F : forall next force st, exists d, st_diag (walk fuel F next force st) = st_diag st ++ d.
Proof.
  induction fuel as [|f IH]; intros next force st; [exists []; now rewrite app_nil_r|].
  cbn [walk].
  destruct (negb force && ((next =? 0) || (Z.of_nat (length F) <=? next))); [exists []; now rewrite app_nil_r|].
  set (it := rd_item0 F next).
  assert (Hk : forall fc nms mbs, exists d,
             st_diag (walk f F (i_next it) fc (mkSt nms mbs (st_diag st ++ i_diag it))) = st_diag st ++ d).
  { intros fc nms mbs. destruct (IH (i_next it) fc (mkSt nms mbs (st_diag st ++ i_diag it))) as (d & E).
    exists (i_diag it ++ d). rewrite E. cbn [st_diag]. now rewrite app_assoc. }
  assert (H1 : exists d, st_diag (mkSt (st_names st) (st_members st) (st_diag st ++ i_diag it)) = st_diag st ++ d)
    by (eexists; reflexivity).
  destruct (term_name (i_raw it)) as [|c0 nm0].
  - destruct (i_raw it) as [|r0 [|r1 rr]].
    + cbn [tl]. destruct (i_pos it =? 0); [exact H1|apply Hk].
    + cbn [tl]. destruct (i_pos it =? 0); [exact H1|apply Hk].
    + destruct (Z.eq_dec r1 47) as [->|Hne].
      * destruct (i_pos it =? 0); [exact H1|apply Hk].
      * assert (Hgoal : exists d, st_diag
                  (if i_pos it =? 0 then mkSt (st_names st) (st_members st) (st_diag st ++ i_diag it)
                   else walk f F (i_next it) false
                          (mkSt (st_names st)
                             (if ends_with_ao (table_name (skipn (Z.to_nat (scan_idx (tl (r0 :: r1 :: rr)))) (st_names st)))
                              then st_members st ++ [(table_name (skipn (Z.to_nat (scan_idx (tl (r0 :: r1 :: rr)))) (st_names st)), i_pos it)]
                              else st_members st) (st_diag st ++ i_diag it))) = st_diag st ++ d)
          by (destruct (i_pos it =? 0); [exact H1|apply Hk]).
        destruct r1 as [|p|p]; try exact Hgoal.
        repeat (match goal with |- context [match ?q with _ => _ end] => is_var q; destruct q end; try exact Hgoal; try congruence).
  - destruct (i_pos it =? 0); [exact H1|apply Hk].
Qed.

Lemma walk_first_diag f F h st :
  h <> 0 -> h < Z.of_nat (length F) -> i_diag (rd_item0 F h) <> [] ->
  st_diag (walk (S f) F h false st) <> [].
Proof.
  intros Hh Hlt Hd.
  (* one more header is visited; whatever happens next, its diagnostics stay *)
  assert (Hpre : exists d, st_diag (walk (S f) F h false st) = (st_diag st ++ i_diag (rd_item0 F h)) ++ d).
  { cbn [walk negb andb]. destruct (Z.eqb_spec h 0); [contradiction|].
    destruct (Z.leb_spec (Z.of_nat (length F)) h); [lia|]. cbn [orb].
    set (it := rd_item0 F h).
    assert (Hk : forall fc nms mbs, exists d,
               st_diag (walk f F (i_next it) fc (mkSt nms mbs (st_diag st ++ i_diag it))) = (st_diag st ++ i_diag it) ++ d)
      by (intros; apply (walk_diag_mono f F (i_next it) fc (mkSt nms mbs (st_diag st ++ i_diag it)))).
    assert (H1 : exists d, st_diag (mkSt (st_names st) (st_members st) (st_diag st ++ i_diag it)) = (st_diag st ++ i_diag it) ++ d)
      by (exists []; now rewrite app_nil_r).
    destruct (term_name (i_raw it)) as [|c0 nm0].
    - destruct (i_raw it) as [|r0 [|r1 rr]].
      + cbn [tl]. destruct (i_pos it =? 0); [exact H1|apply Hk].
      + cbn [tl]. destruct (i_pos it =? 0); [exact H1|apply Hk].
      + destruct (Z.eq_dec r1 47) as [->|Hne].
        * destruct (i_pos it =? 0); [exact H1|apply Hk].
        * assert (Hgoal : exists d, st_diag
                    (if i_pos it =? 0 then mkSt (st_names st) (st_members st) (st_diag st ++ i_diag it)
                     else walk f F (i_next it) false
                            (mkSt (st_names st)
                               (if ends_with_ao (table_name (skipn (Z.to_nat (scan_idx (tl (r0 :: r1 :: rr)))) (st_names st)))
                                then st_members st ++ [(table_name (skipn (Z.to_nat (scan_idx (tl (r0 :: r1 :: rr)))) (st_names st)), i_pos it)]
                                else st_members st) (st_diag st ++ i_diag it))) = (st_diag st ++ i_diag it) ++ d)
            by (destruct (i_pos it =? 0); [exact H1|apply Hk]).
          destruct r1 as [|p|p]; try exact Hgoal.
          repeat (match goal with |- context [match ?q with _ => _ end] => is_var q; destruct q end; try exact Hgoal; try congruence).
    - destruct (i_pos it =? 0); [exact H1|apply Hk]. }
  destruct Hpre as (d & E). rewrite E. intros Hnil.
  apply app_eq_nil in Hnil. destruct Hnil as [Hnil _]. apply app_eq_nil in Hnil. tauto.
Qed.

Lemma pad_name name : (length name <= 15)%nat ->
  pad_to 16 (name ++ [47]) = name ++ 47 :: repeat 32 (15 - length name).
Proof.
  intros H. unfold pad_to. rewrite <- app_assoc. cbn [app]. do 2 f_equal. rewrite app_length. cbn [length]. f_equal. lia.
Qed.

(* one complete member is stepped over and recorded *)
Lemma walk_step f pre m rest st :
  valid_member m -> 8 <= Z.of_nat (length pre) ->
  let F := pre ++ member_bytes m ++ rest in
  let h := Z.of_nat (length pre) in
  walk (S f) F h false st =
  walk f F (h + 60 + padded (Z.of_nat (length (snd m)))) false
       (mkSt (st_names st)
             (st_members st ++ (if ends_with_ao (fst m) then [(fst m, h + 60)] else []))
             (st_diag st)).
Proof.
  intros Hv Hh F h. pose proof Hv as (Hn & Hc & Hd). destruct m as [name data]. cbn [fst snd] in *.
  assert (EF : F = pre ++ ar_hdr name (Z.of_nat (length data)) ++
                   (data ++ (if Z.of_nat (length data) mod 2 =? 0 then [] else [10]) ++ rest)).
  { unfold F, member_bytes. cbn [fst snd]. now rewrite <- !app_assoc. }
  assert (HlenF : h + 60 + Z.of_nat (length data) <= Z.of_nat (length F)).
  { rewrite EF, !app_length, hdr_length by lia. unfold h. lia. }
  cbn [walk negb andb]. fold h.
  destruct (Z.eqb_spec h 0); [lia|]. destruct (Z.leb_spec (Z.of_nat (length F)) h); [lia|]. cbn [orb].
  pose proof (rd_item0_full pre name (Z.of_nat (length data))
                (data ++ (if Z.of_nat (length data) mod 2 =? 0 then [] else [10]) ++ rest) ltac:(lia) ltac:(lia)) as HI.
  cbn zeta in HI. rewrite <- EF in HI. fold h in HI. rewrite HI. clear HI.
  destruct (Z.leb_spec (Z.of_nat (length F)) (h + 60)); [lia|].
  destruct (Z.ltb_spec (Z.of_nat (length F)) (h + 60 + Z.of_nat (length data))); [lia|].
  cbn [i_raw i_pos i_next i_diag]. rewrite pad_name by lia.
  rewrite term_name_valid by exact Hc.
  destruct name as [|c0 nm0]; [cbn in Hn; lia|].
  destruct (Z.eqb_spec (h + 60) 0); [lia|].
  rewrite app_nil_r.
  destruct (ends_with_ao (c0 :: nm0)); [reflexivity|]. now rewrite app_nil_r.
Qed.

Lemma walk_complete ms : forall pre st fuel rest,
  Forall valid_member ms -> 8 <= Z.of_nat (length pre) -> (length ms <= fuel)%nat ->
  let F := pre ++ flat_map member_bytes ms ++ rest in
  let h := Z.of_nat (length pre) in
  walk fuel F h false st =
  walk (fuel - length ms) F (h + total ms) false
       (mkSt (st_names st) (st_members st ++ found h ms) (st_diag st)).
Proof.
  induction ms as [|m ms IH]; intros pre st fuel rest Hv Hh Hf F h.
  - cbn [length total found]. rewrite Nat.sub_0_r, Z.add_0_r, app_nil_r. now destruct st.
  - inversion Hv as [|? ? Hm Hms]; subst. destruct fuel as [|f]; [cbn in Hf; lia|].
    assert (EF : F = pre ++ member_bytes m ++ (flat_map member_bytes ms ++ rest))
      by (unfold F; cbn [flat_map]; now rewrite <- !app_assoc).
    rewrite EF. rewrite (walk_step f pre m _ st Hm Hh). cbn zeta. fold h.
    assert (EF2 : pre ++ member_bytes m ++ flat_map member_bytes ms ++ rest
                  = (pre ++ member_bytes m) ++ flat_map member_bytes ms ++ rest) by now rewrite <- app_assoc.
    rewrite EF2.
    assert (Hl : Z.of_nat (length (pre ++ member_bytes m)) = h + 60 + padded (Z.of_nat (length (snd m))))
      by (rewrite app_length, Nat2Z.inj_add, member_length by assumption; unfold h; lia).
    pose proof (IH (pre ++ member_bytes m)
                  (mkSt (st_names st) (st_members st ++ (if ends_with_ao (fst m) then [(fst m, h + 60)] else [])) (st_diag st))
                  f rest Hms) as IH'.
    cbn zeta in IH'. rewrite Hl in IH'.
    rewrite IH'; [| unfold padded; destruct (_ =? 0); lia | cbn in Hf; lia].
    cbn [length total found st_names st_members st_diag Nat.sub].
    rewrite <- app_assoc. f_equal. lia.
    now rewrite <- app_assoc.
Qed.

Lemma magic_ok rest : bytes_eqb (firstn 8 (ar_magic ++ rest)) ar_magic = true.
Proof. reflexivity. Qed.

Lemma walk_at_end fuel F st : walk fuel F (Z.of_nat (length F)) false st = st.
Proof.
  destruct fuel; [reflexivity|]. cbn [walk negb andb].
  destruct (Z.leb_spec (Z.of_nat (length F)) (Z.of_nat (length F))); [|lia].
  now rewrite orb_true_r.
Qed.

(* C17 ar_intact_found *)
Theorem ar_intact_found ms :
  Forall valid_member ms -> read_ar (write_ar ms) = Members (found 8 ms) [].
Proof.
  intros Hv. unfold read_ar, write_ar. rewrite magic_ok.
  pose proof (walk_complete ms ar_magic (mkSt [] [] []) (S (length (ar_magic ++ flat_map member_bytes ms))) [] Hv
                ltac:(cbn; lia)) as HW.
  cbn zeta in HW. rewrite app_nil_r in HW. change ar_hdrsz with (Z.of_nat (length ar_magic)). rewrite HW.
  2:{ rewrite app_length.
      assert (length ms <= length (flat_map member_bytes ms))%nat.
      { clear - Hv. induction Hv as [|m ms Hm _ IH]; [cbn; lia|]. cbn [flat_map length]. rewrite app_length.
        pose proof (member_length m Hm). unfold padded in *. destruct (_ =? 0); lia. }
      lia. }
  replace (Z.of_nat (length ar_magic) + total ms) with (Z.of_nat (length (ar_magic ++ flat_map member_bytes ms)))
    by (rewrite app_length, Nat2Z.inj_add, members_length by assumption; reflexivity).
  rewrite walk_at_end. reflexivity.
Qed.

Lemma write_ar_prefix_length ms : Forall valid_member ms ->
  length (ar_magic ++ flat_map member_bytes ms) = Z.to_nat (8 + total ms).
Proof.
  intros Hv. pose proof (members_length ms Hv). pose proof (total_nonneg ms).
  rewrite app_length. change (length ar_magic) with 8%nat. lia.
Qed.

(* C17: a cut exactly at a member boundary is itself a valid archive of the first members: it is
   accepted without any diagnostic.  (The format has no member count; nothing in the file says that
   more members were to follow.  This is the content of finding al:cut-at-member-boundary.) *)
Theorem ar_boundary_cut_accepted ms1 ms2 :
  Forall valid_member (ms1 ++ ms2) ->
  firstn (Z.to_nat (8 + total ms1)) (write_ar (ms1 ++ ms2)) = write_ar ms1 /\
  read_ar (firstn (Z.to_nat (8 + total ms1)) (write_ar (ms1 ++ ms2))) = Members (found 8 ms1) [].
Proof.
  intros Hv. apply Forall_app in Hv. destruct Hv as [Hv1 Hv2].
  assert (E : firstn (Z.to_nat (8 + total ms1)) (write_ar (ms1 ++ ms2)) = write_ar ms1).
  { unfold write_ar. rewrite flat_map_app, app_assoc, <- write_ar_prefix_length by assumption.
    rewrite firstn_app, Nat.sub_diag, firstn_O, app_nil_r. apply firstn_all. }
  split; [exact E|]. rewrite E. now apply ar_intact_found.
Qed.

Lemma rd_item0_short F h : 0 <= h -> Z.of_nat (length F) < h + 60 -> i_diag (rd_item0 F h) <> [].
Proof.
  intros Hh Hs. unfold rd_item0.
  destruct (fread F h 16) as [nm okn].
  destruct (read_number F (h + 16) 12 10) as [? d1]. destruct (read_number F (h + 28) 6 10) as [? d2].
  destruct (read_number F (h + 34) 6 10) as [? d3]. destruct (read_number F (h + 40) 8 8) as [? d4].
  destruct (read_number F (h + 48) 10 10) as [sz d5].
  pose proof (fread_short F (h + 58) 2 ltac:(lia) ltac:(lia) ltac:(lia)) as Hm.
  destruct (fread F (h + 58) 2) as [? okm]. cbn [snd] in Hm. subst okm. cbn [i_diag].
  intros Hnil. do 6 (apply app_eq_nil in Hnil; destruct Hnil as [_ Hnil]).
  apply app_eq_nil in Hnil. destruct Hnil as [Hnil _]. discriminate.
Qed.

(* C17 ar_truncation_refused: a cut strictly inside a member -- anywhere in its 60-byte header or
   in its data -- raises a diagnostic (ALDOR_E_ArTruncated / ArBadNumber: the compilation fails) *)
Theorem ar_truncation_refused ms1 m ms2 j :
  Forall valid_member (ms1 ++ m :: ms2) ->
  0 < j < 60 + Z.of_nat (length (snd m)) ->
  exists fm dg,
    read_ar (firstn (Z.to_nat (8 + total ms1 + j)) (write_ar (ms1 ++ m :: ms2))) = Members fm dg /\ dg <> [].
Proof.
  intros Hv Hj. apply Forall_app in Hv. destruct Hv as [Hv1 Hv2].
  inversion Hv2 as [|? ? Hm Hv3]; subst.
  pose proof (member_length m Hm) as Lm. pose proof (total_nonneg ms1) as Ht.
  pose proof (write_ar_prefix_length ms1 Hv1) as Lp.
  set (F := (ar_magic ++ flat_map member_bytes ms1) ++ firstn (Z.to_nat j) (member_bytes m)).
  assert (EF : firstn (Z.to_nat (8 + total ms1 + j)) (write_ar (ms1 ++ m :: ms2)) = F).
  { unfold write_ar. rewrite flat_map_app. cbn [flat_map]. rewrite app_assoc.
    rewrite firstn_app, Lp.
    rewrite firstn_all2 by (rewrite Lp; lia).
    replace (Z.to_nat (8 + total ms1 + j) - Z.to_nat (8 + total ms1))%nat with (Z.to_nat j) by lia.
    unfold F. f_equal. rewrite firstn_app.
    replace (Z.to_nat j - length (member_bytes m))%nat with 0%nat
      by (unfold padded in Lm; destruct (_ =? 0); lia).
    now rewrite firstn_O, app_nil_r. }
  rewrite EF.
  assert (LF : Z.of_nat (length F) = 8 + total ms1 + j).
  { unfold F. rewrite app_length, Lp, firstn_length_le; [lia|].
    unfold padded in Lm; destruct (_ =? 0); lia. }
  unfold read_ar.
  assert (HM : bytes_eqb (firstn 8 F) ar_magic = true) by (unfold F; rewrite <- app_assoc; apply magic_ok).
  rewrite HM.
  pose proof (walk_complete ms1 ar_magic (mkSt [] [] []) (S (length F)) (firstn (Z.to_nat j) (member_bytes m)) Hv1
                ltac:(cbn; lia)) as HW.
  cbn zeta in HW. rewrite app_assoc in HW. fold F in HW.
  change ar_hdrsz with (Z.of_nat (length ar_magic)). rewrite HW.
  2:{ assert (length ms1 <= length (flat_map member_bytes ms1))%nat.
      { clear - Hv1. induction Hv1 as [|x l Hx _ IH]; [cbn; lia|]. cbn [flat_map length]. rewrite app_length.
        pose proof (member_length x Hx). unfold padded in *. destruct (_ =? 0); lia. }
      unfold F. rewrite !app_length. lia. }
  change (Z.of_nat (length ar_magic)) with 8.
  assert (Hfuel : exists f, (S (length F) - length ms1)%nat = S f).
  { assert (length ms1 <= length (flat_map member_bytes ms1))%nat.
    { clear - Hv1. induction Hv1 as [|x l Hx _ IH]; [cbn; lia|]. cbn [flat_map length]. rewrite app_length.
      pose proof (member_length x Hx). unfold padded in *. destruct (_ =? 0); lia. }
    exists (length F - length ms1)%nat. unfold F. rewrite !app_length. lia. }
  destruct Hfuel as (f & ->).
  eexists. eexists. split; [reflexivity|].
  apply walk_first_diag; [lia | lia |].
  destruct (Z_lt_le_dec j 60) as [Hhd|Hdt].
  - apply rd_item0_short; lia.
  - (* the header is complete, the data is not *)
    destruct m as [name data]. cbn [fst snd] in *. pose proof Hm as (Hn & Hc & Hd). cbn [fst snd] in *.
    assert (EF2 : F = (ar_magic ++ flat_map member_bytes ms1) ++ ar_hdr name (Z.of_nat (length data)) ++
                      firstn (Z.to_nat (j - 60)) data).
    { unfold F, member_bytes. cbn [fst snd]. f_equal.
      rewrite firstn_app, hdr_length by lia.
      rewrite firstn_all2 by (rewrite hdr_length; lia). f_equal.
      replace (Z.to_nat j - 60)%nat with (Z.to_nat (j - 60)) by lia.
      rewrite firstn_app.
      replace (Z.to_nat (j - 60) - length data)%nat with 0%nat by lia.
      now rewrite firstn_O, app_nil_r. }
    pose proof (rd_item0_full (ar_magic ++ flat_map member_bytes ms1) name (Z.of_nat (length data))
                  (firstn (Z.to_nat (j - 60)) data) ltac:(lia) ltac:(lia)) as HI.
    cbn zeta in HI. rewrite <- EF2 in HI.
    replace (Z.of_nat (length (ar_magic ++ flat_map member_bytes ms1))) with (8 + total ms1) in HI by lia.
    rewrite HI. cbn [i_diag]. rewrite LF.
    destruct (Z.ltb_spec (8 + total ms1 + j) (8 + total ms1 + 60 + Z.of_nat (length data))); [discriminate|lia].
Qed.
