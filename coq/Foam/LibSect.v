(* LibSect.v -- contents of two sections of the .ao container (the container itself -- header, section
   table, offsets, lengths, order, contiguity, libGetSection -- is LibHdr.v):

   LIB_Id   (libPutFileId / libGetFileId): bufWrString / bufRdString -- a 4-byte count (length + 1)
            and the characters with their NUL.
   LIB_Name (libPutSymeNames / lib0GetSymeNames): HInt symec, HInt topc, then one pair
            (HInt i, HInt pos) for every syme i whose symbol already occurred at pos < i, the
            terminator HInt symec, then the NUL-terminated name of every first occurrence in order.
            lib0GetSymeNames materialises only the first topc names; [names_of] rebuilds all of them
            the same way (copy from pos, or take the next string).

   Symbols are interned: two symes have the same Symbol iff their names are equal, which is how
   the writer's table lookup is modelled ([find_index]). *)
Require Import ZArith List Lia Bool.
Require Import AV.Foam.Buf.
Import ListNotations.
Local Open Scope Z_scope.
Local Open Scope bool_scope.

(* ---- LIB_Id *)
Definition enc_fileid (s : bytes) : bytes := put_sint (Z.of_nat (length s) + 1) ++ s ++ [0].
Definition dec_fileid (bs : bytes) : option (bytes * bytes) :=
  match get_sint bs with
  | Some (cc, r) => match get_chars cc r with       (* strAlloc(cc); bufGetChars: strncpy stops at the NUL *)
                    | Some (s, r') => Some (s, r')
                    | None => None end
  | None => None
  end.

(* ---- LIB_Name, the raw layout *)
Record names_raw := mkNames { n_symec : Z; n_topc : Z; n_pairs : list (Z * Z); n_strs : list bytes }.

Fixpoint enc_pairs (ps : list (Z * Z)) : bytes :=
  match ps with [] => [] | (i, p) :: r => put_hint i ++ put_hint p ++ enc_pairs r end.
Fixpoint enc_strs (ss : list bytes) : bytes :=
  match ss with [] => [] | s :: r => s ++ 0 :: enc_strs r end.
Definition enc_names (n : names_raw) : bytes :=
  put_hint (n_symec n) ++ put_hint (n_topc n) ++ enc_pairs (n_pairs n) ++ put_hint (n_symec n) ++ enc_strs (n_strs n).

(* pairs until an index >= symec (the terminator); structural on the input *)
Fixpoint dec_pairs (fuel : nat) (symec : Z) (bs : bytes) : option (list (Z * Z) * bytes) :=
  match fuel with
  | O => None
  | S f =>
    match get_hint bs with
    | None => None
    | Some (i, r) =>
      if symec <=? i then Some ([], r)
      else match get_hint r with
           | None => None
           | Some (p, r') => match dec_pairs f symec r' with
                             | Some (ps, r'') => Some ((i, p) :: ps, r'')
                             | None => None end
           end
    end
  end.

(* bufGetString: up to and including the NUL *)
Fixpoint get_cstr (bs : bytes) : option (bytes * bytes) :=
  match bs with
  | [] => None
  | c :: r => if c =? 0 then Some ([], r)
              else match get_cstr r with Some (s, r') => Some (c :: s, r') | None => None end
  end.
Fixpoint dec_strs (n : nat) (bs : bytes) : option (list bytes * bytes) :=
  match n with
  | O => Some ([], bs)
  | S k => match get_cstr bs with
           | Some (s, r) => match dec_strs k r with Some (ss, r') => Some (s :: ss, r') | None => None end
           | None => None end
  end.

Definition dec_names (bs : bytes) : option (names_raw * bytes) :=
  match get_hint bs with None => None | Some (symec, r1) =>
  match get_hint r1 with None => None | Some (topc, r2) =>
  match dec_pairs (S (length r2)) symec r2 with None => None | Some (ps, r3) =>
  match dec_strs (Z.to_nat symec - length ps) r3 with None => None | Some (ss, r4) =>
  Some (mkNames symec topc ps ss, r4) end end end end.

Definition wf_names (n : names_raw) : Prop :=
  0 <= n_symec n < 65536 /\ 0 <= n_topc n < 65536 /\
  Forall (fun ip => 0 <= fst ip < n_symec n /\ 0 <= snd ip < 65536) (n_pairs n) /\
  length (n_strs n) = (Z.to_nat (n_symec n) - length (n_pairs n))%nat /\
  Forall is_cstring (n_strs n).

(* ---- LIB_Name, the meaning: the list of syme names *)
Fixpoint find_index (s : bytes) (l : list bytes) (i : Z) : option Z :=
  match l with
  | [] => None
  | x :: r => if (fix eqb (a b : bytes) : bool :=
                    match a, b with
                    | [], [] => true
                    | x :: a', y :: b' => (x =? y) && eqb a' b'
                    | _, _ => false end) x s then Some i else find_index s r (i + 1)
  end.

(* the writer's two passes, as one: pairs for repeated symbols, strings for first occurrences *)
Fixpoint dedupe (seen : list bytes) (l : list bytes) : list (Z * Z) * list bytes :=
  match l with
  | [] => ([], [])
  | s :: r =>
    let '(ps, ss) := dedupe (seen ++ [s]) r in
    match find_index s seen 0 with
    | Some p => ((Z.of_nat (length seen), p) :: ps, ss)
    | None => (ps, s :: ss)
    end
  end.

Definition names_to_raw (topc : Z) (names : list bytes) : names_raw :=
  let '(ps, ss) := dedupe [] names in mkNames (Z.of_nat (length names)) topc ps ss.

(* the reader's rebuild: syme i is a copy of syme pos, or takes the next string *)
Fixpoint rebuild (n : nat) (acc : list bytes) (ps : list (Z * Z)) (ss : list bytes) : option (list bytes) :=
  match n with
  | O => Some acc
  | S k =>
    match ps with
    | (j, p) :: ps' =>
      if j =? Z.of_nat (length acc) then rebuild k (acc ++ [nth (Z.to_nat p) acc []]) ps' ss
      else match ss with s :: ss' => rebuild k (acc ++ [s]) ps ss' | [] => None end
    | [] => match ss with s :: ss' => rebuild k (acc ++ [s]) ps ss' | [] => None end
    end
  end.

Definition names_of (n : names_raw) : option (list bytes) :=
  rebuild (Z.to_nat (n_symec n)) [] (n_pairs n) (n_strs n).

(* ---- LIB_Kind (libPutSymeKinds): one byte per syme *)
Definition enc_kinds (ks : list Z) : bytes := flat_map put_byte ks.
Definition dec_kinds (symec : Z) (bs : bytes) : option (list Z * bytes) := get_block symec bs.

(* ---- LIB_Lazy (libPutSymeLazys): (HInt i, HInt n, SInt hash)* HInt symec
        LIB_File (libPutSymeFiles): (HInt i, Byte kind, name NUL)*  HInt symec
   the records of the symes that are lazy imports / library files, in index order, closed by symec *)
Fixpoint enc_lazys (rs : list (Z * Z * Z)) : bytes :=
  match rs with [] => [] | (i, n, h) :: r => put_hint i ++ put_hint n ++ put_sint h ++ enc_lazys r end.
Definition enc_lazy_sect (symec : Z) (rs : list (Z * Z * Z)) : bytes := enc_lazys rs ++ put_hint symec.

Fixpoint dec_lazys (fuel : nat) (symec : Z) (bs : bytes) : option (list (Z * Z * Z) * bytes) :=
  match fuel with
  | O => None
  | S f =>
    match get_hint bs with
    | None => None
    | Some (i, r) =>
      if symec <=? i then Some ([], r)
      else match get_hint r with None => None | Some (n, r1) =>
           match get_sint r1 with None => None | Some (h, r2) =>
           match dec_lazys f symec r2 with Some (rs, r3) => Some ((i, n, h) :: rs, r3) | None => None end end end
    end
  end.
Definition dec_lazy_sect (symec : Z) (bs : bytes) := dec_lazys (S (length bs)) symec bs.

Fixpoint enc_files (rs : list (Z * Z * bytes)) : bytes :=
  match rs with [] => [] | (i, k, s) :: r => put_hint i ++ put_byte k ++ s ++ 0 :: enc_files r end.
Definition enc_file_sect (symec : Z) (rs : list (Z * Z * bytes)) : bytes := enc_files rs ++ put_hint symec.

Fixpoint dec_files (fuel : nat) (symec : Z) (bs : bytes) : option (list (Z * Z * bytes) * bytes) :=
  match fuel with
  | O => None
  | S f =>
    match get_hint bs with
    | None => None
    | Some (i, r) =>
      if symec <=? i then Some ([], r)
      else match get_byte r with None => None | Some (k, r1) =>
           match get_cstr r1 with None => None | Some (s, r2) =>
           match dec_files f symec r2 with Some (rs, r3) => Some ((i, k, s) :: rs, r3) | None => None end end end
    end
  end.
Definition dec_file_sect (symec : Z) (bs : bytes) := dec_files (S (length bs)) symec bs.
