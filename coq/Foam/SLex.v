(* SLex.v -- the spelling of integer and string atoms in FOAM text (sexpr.c sxiWrUnscanToken:
   "%ld" / bintToString for integers of any width; '"' with '\' before '"' and '\' for strings)
   and their reading back (decimal digits; '\' takes the next character literally). *)
Require Import ZArith List Lia Bool.
Require Import AV.Foam.Buf.
Import ListNotations.
Local Open Scope Z_scope.
Local Open Scope bool_scope.

(* ---- integers *)
Fixpoint digits10 (fuel : nat) (z : Z) (acc : bytes) : bytes :=
  match fuel with
  | O => acc
  | S f => if z <? 10 then (48 + z) :: acc else digits10 f (z / 10) ((48 + z mod 10) :: acc)
  end.

Definition pr_nat (z : Z) : bytes := digits10 (S (Z.to_nat (Z.log2 z))) z [].
Definition pr_int (z : Z) : bytes := if z <? 0 then 45 :: pr_nat (- z) else pr_nat z.

Fixpoint rd_digits (s : bytes) (acc : Z) : option Z :=
  match s with
  | [] => Some acc
  | d :: r => if (48 <=? d) && (d <=? 57) then rd_digits r (10 * acc + (d - 48)) else None
  end.

Definition rd_int (s : bytes) : option Z :=
  match s with
  | [] => None
  | 45 :: (_ :: _) as r => match r with _ :: _ => match rd_digits (tl s) 0 with Some v => Some (- v) | None => None end | [] => None end
  | _ => rd_digits s 0
  end.

Lemma rd_digits_app a b acc :
  rd_digits (a ++ b) acc = match rd_digits a acc with Some v => rd_digits b v | None => None end.
Proof.
  revert acc; induction a as [|d a IH]; intros acc; [reflexivity|].
  cbn [app rd_digits]. destruct ((48 <=? d) && (d <=? 57)); [apply IH|reflexivity].
Qed.

Lemma digits10_spec fuel : forall z acc,
  (1 <= fuel)%nat -> 0 <= z -> z < 10 ^ Z.of_nat fuel ->
  exists ds, digits10 fuel z acc = ds ++ acc /\ ds <> [] /\ forall a0, rd_digits ds a0 = Some (a0 * 10 ^ Z.of_nat (length ds) + z).
Proof.
  induction fuel as [|f IH]; intros z acc Hf Hz Hlt; [lia|].
  cbn [digits10]. destruct (Z.ltb_spec z 10) as [Hs|Hb].
  - exists [48 + z]. split; [reflexivity|]. split; [discriminate|]. intros a0. cbn [rd_digits length].
    destruct (Z.leb_spec 48 (48 + z)); [|lia]. destruct (Z.leb_spec (48 + z) 57); [|lia]. cbn [andb].
    f_equal. change (Z.of_nat 1) with 1. lia.
  - assert (Hq : 0 <= z / 10) by (apply Z.div_pos; lia).
    assert (Hq2 : z / 10 < 10 ^ Z.of_nat f).
    { rewrite Nat2Z.inj_succ, Z.pow_succ_r in Hlt by lia. apply Z.div_lt_upper_bound; lia. }
    assert (Hf1 : (1 <= f)%nat) by (destruct f; [cbn in Hlt; lia | lia]).
    destruct (IH (z / 10) ((48 + z mod 10) :: acc) Hf1 Hq Hq2) as (ds & E & Hne & Hrd).
    exists (ds ++ [48 + z mod 10]). split; [rewrite E, <- app_assoc; reflexivity|].
    split; [destruct ds; discriminate|]. intros a0.
    rewrite rd_digits_app, Hrd. cbn [rd_digits].
    pose proof (Z.mod_pos_bound z 10 ltac:(lia)).
    destruct (Z.leb_spec 48 (48 + z mod 10)); [|lia]. destruct (Z.leb_spec (48 + z mod 10) 57); [|lia].
    cbn [andb]. f_equal. rewrite app_length. cbn [length]. rewrite Nat.add_1_r, Nat2Z.inj_succ, Z.pow_succ_r by lia.
    pose proof (Z.div_mod z 10 ltac:(lia)). lia.
Qed.

Lemma pow10_log2 z : 0 < z -> z < 10 ^ Z.of_nat (S (Z.to_nat (Z.log2 z))).
Proof.
  intros Hz. rewrite Nat2Z.inj_succ, Z2Nat.id by apply Z.log2_nonneg.
  pose proof (Z.log2_spec z Hz) as [_ H2].
  eapply Z.lt_le_trans; [exact H2|].
  apply Z.pow_le_mono_l. split; [lia|lia].
Qed.

Lemma pr_nat_spec z : 0 <= z -> pr_nat z <> [] /\ rd_digits (pr_nat z) 0 = Some z /\ (forall d, In d (pr_nat z) -> 48 <= d <= 57).
Proof.
  intros Hz. unfold pr_nat.
  destruct (Z.eq_dec z 0) as [->|Hnz].
  - cbn. split; [discriminate|]. split; [reflexivity|]. intros d0 [<-|[]]; lia.
  - destruct (digits10_spec (S (Z.to_nat (Z.log2 z))) z [] ltac:(lia) Hz (pow10_log2 z ltac:(lia))) as (ds & E & Hne & Hrd).
    rewrite E, app_nil_r. split; [exact Hne|]. split; [rewrite Hrd; f_equal; lia|].
    intros d Hd.
    (* every emitted byte is a digit: read-back succeeds only on digits *)
    assert (Hall : forall l a0 v, rd_digits l a0 = Some v -> forall d, In d l -> 48 <= d <= 57).
    { clear. induction l as [|x l IHl]; intros a0 v Hv d0 Hin; [contradiction|].
      cbn [rd_digits] in Hv. destruct (Z.leb_spec 48 x); destruct (Z.leb_spec x 57); cbn [andb] in Hv; try discriminate.
      destruct Hin as [<-|Hin]; [lia|]. eapply IHl; eauto. }
    eapply (Hall ds 0); [apply Hrd|exact Hd].
Qed.

(* integers of any width read back as written *)
Theorem rd_pr_int z : rd_int (pr_int z) = Some z.
Proof.
  unfold pr_int. destruct (Z.ltb_spec z 0) as [Hn|Hp].
  - destruct (pr_nat_spec (- z) ltac:(lia)) as (Hne & Hrd & _).
    unfold rd_int. destruct (pr_nat (- z)) as [|d r] eqn:E; [contradiction|].
    cbn [tl]. rewrite Hrd. f_equal. lia.
  - destruct (pr_nat_spec z Hp) as (Hne & Hrd & Hdig).
    unfold rd_int. destruct (pr_nat z) as [|d r] eqn:E; [contradiction|].
    assert (48 <= d <= 57) by (apply Hdig; now left).
    destruct (Z.eq_dec d 45); [lia|].
    destruct d as [|p|p]; try lia. destruct p; try exact Hrd;
      repeat (match goal with |- context [match ?p with _ => _ end] => destruct p end; try exact Hrd; try lia).
Qed.

(* ---- strings *)
Fixpoint esc (s : bytes) : bytes :=
  match s with
  | [] => []
  | c :: r => if (c =? 34) || (c =? 92) then 92 :: c :: esc r else c :: esc r
  end.

Definition pr_str (s : bytes) : bytes := 34 :: esc s ++ [34].

(* after the opening quote *)
Fixpoint rd_str_body (s : bytes) : option (bytes * bytes) :=
  match s with
  | [] => None
  | 34 :: r => Some ([], r)
  | 92 :: c :: r => match rd_str_body r with Some (x, r') => Some (c :: x, r') | None => None end
  | c :: r => match rd_str_body r with Some (x, r') => Some (c :: x, r') | None => None end
  end.

Definition rd_str (s : bytes) : option (bytes * bytes) :=
  match s with 34 :: r => rd_str_body r | _ => None end.

(* strings with any bytes (quotes and backslashes included) read back as written *)
Theorem rd_pr_str s rest : rd_str (pr_str s ++ rest) = Some (s, rest).
Proof.
  unfold pr_str, rd_str. cbn [app]. rewrite <- app_assoc. cbn [app].
  induction s as [|c s IH]; [reflexivity|].
  cbn [esc]. destruct (Z.eqb_spec c 34) as [->|H34]; cbn [orb].
  - cbn [app rd_str_body]. now rewrite IH.
  - destruct (Z.eqb_spec c 92) as [->|H92].
    + cbn [app rd_str_body]. now rewrite IH.
    + cbn [app]. destruct c as [|p|p]; try (cbn [rd_str_body]; now rewrite IH).
      cbn [rd_str_body].
      repeat (match goal with |- context [match ?q with _ => _ end] => is_var q; destruct q end;
              try (now rewrite IH); try congruence).
Qed.
