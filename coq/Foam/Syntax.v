(* Syntax.v -- generic FOAM trees over a (generated) foamInfoTable.

   A node is [Node tag args]; the kind of each argument is given by the tag's
   argf string in the table (foam.c: "Meanings of the bytes in the argf field").
   SFloA / DFloA carry the PORTABLE representation (the 6 resp. 10 bytes of
   XSFloat / XDFloat as bufWrSFloat emits them); the conversion between the
   native float and that representation is the subject of C19, not of this model. *)
Require Import ZArith List Lia Bool.
Require Import AV.Foam.Buf.
Import ListNotations.
Local Open Scope Z_scope.
Local Open Scope bool_scope.

Inductive letter :=
| Lt | Lo | Lp | LD | Lb | Lh | Lw | LX | LF | LL | Li | Ls | Lf | Ld | Ln | LC | Lbang.

Definition letter_eqb (a b : letter) : bool :=
  match a, b with
  | Lt, Lt | Lo, Lo | Lp, Lp | LD, LD | Lb, Lb | Lh, Lh | Lw, Lw | LX, LX | LF, LF
  | LL, LL | Li, Li | Ls, Ls | Lf, Lf | Ld, Ld | Ln, Ln | LC, LC | Lbang, Lbang => true
  | _, _ => false
  end.

Inductive node := Node (tag : Z) (args : list arg)
with arg :=
| Int (z : Z)          (* AInt data *)
| Str (s : bytes)      (* C string *)
| BIntA (z : Z)        (* big integer *)
| SFloA (b : bytes)    (* portable single float, 6 bytes *)
| DFloA (b : bytes)    (* portable double float, 10 bytes *)
| Sub (n : node).

(* one row of foamInfoTable: argc (-1 = FOAM_NARY), the letters of argf before
   a trailing '*', and whether argf ends in '*' (= repeat the last letter) *)
Record info_row := mkRow { r_argc : Z; r_letters : list letter; r_star : bool }.

Record foam_params := mkFoamParams {
  fp_table : list info_row;      (* indexed by tag - FOAM_START *)
  fp_limit : Z;                  (* FOAM_LIMIT *)
  fp_origin : Z;                 (* FFO_ORIGIN *)
  fp_span : Z;                   (* FFO_SPAN *)
  fp_std_forms : Z;              (* STD_FORMS *)
  fp_immed_forms : Z;            (* IMMED_FORMS *)
  fp_index_start : Z;            (* FOAM_INDEX_START *)
  fp_index_limit : Z;            (* FOAM_INDEX_LIMIT *)
  fp_foam_start : Z; fp_bval_start : Z; fp_proto_start : Z;
  fp_bval_bytes : Z;             (* 1 if SMALL_BVAL_TAGS, else 2 *)
  fp_max_byte : Z;               (* MAX_BYTE *)
  fp_u16_per_digit : Z;          (* sizeof(BIntS)/2: U16sPerUNotAsLong *)
  t_Char : Z; t_SInt : Z; t_Unimp : Z; t_Decl : Z; t_GDecl : Z; t_BInt : Z;
  t_Rec : Z; t_DEnv : Z; t_DFluid : Z;
  t_Lex : Z; t_RElt : Z; t_RRElt : Z; t_EElt : Z; t_IRElt : Z; t_TRElt : Z;
  t_Prog : Z; t_BCall : Z;
  bv_SIntShiftUp : Z; bv_SIntOr : Z; bv_SIntNegate : Z
}.

Section WithParams.
Variable P : foam_params.

Definition info_of (tag : Z) : option info_row :=
  if tag <? 0 then None else nth_error (fp_table P) (Z.to_nat tag).

(* argf[fi] with the "if (af == '*') af = argf[--fi]" rule; [Lbang] stands for
   anything that ends in bugBadCase (including running off the end of argf) *)
Definition letter_at (r : info_row) (si : nat) : letter :=
  match nth_error (r_letters r) si with
  | Some c => c
  | None => if r_star r then last (r_letters r) Lbang else Lbang
  end.

(* ---- induction principle for the nested type *)
Section Ind.
  Variable Q : node -> Prop.
  Definition arg_Q (a : arg) : Prop := match a with Sub m => Q m | _ => True end.
  Hypothesis HNode : forall tag args, Forall arg_Q args -> Q (Node tag args).
  Fixpoint node_ind2 (n : node) : Q n :=
    match n with
    | Node tag args =>
      HNode tag args
        ((fix go (l : list arg) : Forall arg_Q l :=
            match l with
            | [] => Forall_nil _
            | a :: r => Forall_cons a
                          (match a return arg_Q a with
                           | Sub m => node_ind2 m
                           | _ => I
                           end) (go r)
            end) args)
    end.
End Ind.

(* helpers for the nested recursion (the function parameter stays outside the
   fix so that the guard checker sees through it) *)
Section SubMap.
  Variable F : node -> node.
  Definition map_sub (a : arg) : arg := match a with Sub m => Sub (F m) | _ => a end.
End SubMap.

Definition sub_depth (d : node -> nat) (a : arg) : nat := match a with Sub m => d m | _ => O end.

(* nesting depth: the decoder's fuel *)
Fixpoint depth (n : node) : nat :=
  match n with
  | Node _ args => S (list_max (map (sub_depth depth) args))
  end.

(* ---- foamSIntReduce.  long is 64 bits: wrap-around written explicitly. *)
Definition wrap64s (z : Z) : Z :=
  let u := z mod 18446744073709551616 in
  if u <? 9223372036854775808 then u else u - 18446744073709551616.
Definition is_int64 (z : Z) : Prop := -9223372036854775808 <= z < 9223372036854775808.

Definition mkSInt (v : Z) : node := Node (t_SInt P) [Int v].
Definition mkBCall2 (op : Z) (a b : node) : node := Node (t_BCall P) [Int op; Sub a; Sub b].
Definition mkBCall1 (op : Z) (a : node) : node := Node (t_BCall P) [Int op; Sub a].

(* "Reconstruct ..." loop: parts below the most significant one, high to low *)
Fixpoint sint_rebuild (acc : node) (lower : list Z) : node :=
  match lower with
  | [] => acc
  | p :: r => sint_rebuild
                (mkBCall2 (bv_SIntOr P) (mkBCall2 (bv_SIntShiftUp P) acc (mkSInt 31)) (mkSInt p)) r
  end.

Definition sint_reduce (v : Z) : node :=
  if int32b v then mkSInt v
  else
    let negative := v <? 0 in
    let number := if negative then wrap64s (- v) else v in      (* "Kill the sign" *)
    (* number & 0x7fffffff, number >>= 31 (arithmetic shift of a signed long) *)
    let p0 := number mod 2147483648 in
    let p1 := (number / 2147483648) mod 2147483648 in
    let p2 := (number / 4611686018427387904) mod 2147483648 in
    let body :=
      if negb (p2 =? 0) then sint_rebuild (mkSInt p2) [p1; p0]
      else if negb (p1 =? 0) then sint_rebuild (mkSInt p1) [p0]
      else mkSInt p0 in
    if negative then mkBCall1 (bv_SIntNegate P) body else body.

(* value of the expressions foamSIntReduce builds, with the 64-bit meaning of
   the three builtins (fiSIntShiftUp = a << b, fiSIntOr = a | b, fiSIntNegate = -a on long) *)
Fixpoint eval_sint (n : node) : option Z :=
  match n with
  | Node tag [Int v] => if tag =? t_SInt P then Some v else None
  | Node tag [Int op; Sub a] =>
    if (tag =? t_BCall P) && (op =? bv_SIntNegate P) then
      match eval_sint a with Some x => Some (wrap64s (- x)) | None => None end
    else None
  | Node tag [Int op; Sub a; Sub b] =>
    if tag =? t_BCall P then
      match eval_sint a, eval_sint b with
      | Some x, Some y =>
        if op =? bv_SIntShiftUp P then Some (wrap64s (x * 2 ^ y))
        else if op =? bv_SIntOr P then Some (Z.lor x y)
        else None
      | _, _ => None
      end
    else None
  | _ => None
  end.

(* ---- what saving and loading normalises:
   (1) every SInt node is passed through foamSIntReduce (foamToBuffer),
   (2) the X field (byte length of a Prog) reads back as 0 (foamFrBuffer). *)
Definition big_sint_of (tag : Z) (args : list arg) : option Z :=
  if tag =? t_SInt P then match args with [Int v] => Some v | _ => None end else None.

Fixpoint reduce_all (n : node) : node :=
  match n with
  | Node tag args =>
    match big_sint_of tag args with
    | Some v => sint_reduce v
    | None => Node tag (map (map_sub reduce_all) args)
    end
  end.

Section ZeroX.
  Variable F : node -> node.
  Variable row : info_row.
  Fixpoint zx_args (si : nat) (l : list arg) : list arg :=
    match l with
    | [] => []
    | a :: r => (match letter_at row si with LX => Int 0 | _ => map_sub F a end) :: zx_args (S si) r
    end.
End ZeroX.

Fixpoint zero_x (n : node) : node :=
  match n with
  | Node tag args =>
    match info_of tag with
    | None => n
    | Some row => Node tag (zx_args zero_x row O args)
    end
  end.

Definition canon (n : node) : node := zero_x (reduce_all n).

End WithParams.
