(* LibHdr.v -- the .ao header and section table of lib.c (libPutHeader,
   libGetHeader, libChkHeader, libAddSection, libGetSection, libHasSection)
   as they are in /repo NOW (after the repair: a failed header check is fatal,
   a short read of the header or of a section is fatal, the last section must
   end within the file).

   The reader is a total function on arbitrary byte strings; the file length is
   [length file].  Outcomes:
     Refused m  : diagnostic + exit status 1 (libError + exitFailure, libFatal, comsgFatal)
     Loaded h   : the header is accepted; sections are then fetched on demand
                  by [get_section]. *)
Require Import ZArith List Lia Bool.
Require Import AV.Foam.Buf.
Import ListNotations.
Local Open Scope Z_scope.
Local Open Scope bool_scope.

(* constants translated from lib.c / lib.h (coq/Gen/FoamInfo.v) *)
Record lib_params := mkLibParams {
  lp_magic : Z;        (* libHdrMagic *)
  lp_major : Z;        (* libMajorVersion *)
  lp_minor : Z;        (* libMinorVersion *)
  lp_name_limit : Z;   (* LIB_NAME_LIMIT = LIB_INDEX_LIMIT *)
  lp_hdr_limit : Z;    (* LIB_HDR_LIMIT *)
  lp_sect_size : Z;    (* libSectSize = BYTE_BYTES + 2*SINT_BYTES *)
  lp_hdr_size : Z      (* libHdrSize = 2*HINT_BYTES + 2*SINT_BYTES + LIB_INDEX_LIMIT*libSectSize *)
}.

(* what the hand-written layout below relies on *)
Definition lib_params_ok (P : lib_params) : bool :=
  (lp_sect_size P =? 9) && (lp_hdr_size P =? 12 + lp_name_limit P * 9) &&
  (1 <=? lp_name_limit P) && (lp_name_limit P <? 256) &&
  (lp_name_limit P <=? lp_hdr_limit P) &&
  (0 <=? lp_magic P) && (lp_magic P <? 65536) &&
  (0 <=? lp_major P) && (lp_major P <? 4294967296) &&
  (0 <=? lp_minor P) && (lp_minor P <? 4294967296).

Record sect := mkSect { s_name : Z; s_off : Z; s_len : Z }.
Record hdr := mkHdr { h_magic : Z; h_major : Z; h_minor : Z; h_num : Z; h_sects : list sect }.

(* ---- libPutHeader *)
Definition put_sect (s : sect) : bytes :=
  put_byte (s_name s) ++ put_sint (s_off s) ++ put_sint (s_len s).
Fixpoint put_sects (ss : list sect) : bytes :=
  match ss with [] => [] | s :: r => put_sect s ++ put_sects r end.
Definition write_hdr (h : hdr) : bytes :=
  put_hint (h_magic h) ++ put_sint (h_major h) ++ put_sint (h_minor h) ++
  put_hint (h_num h) ++ put_sects (h_sects h).

(* ---- libGetHeader, parsing part *)
Definition get_sect (bs : bytes) : option (sect * bytes) :=
  match get_byte bs with None => None | Some (n, r1) =>
  match get_sint r1 with None => None | Some (o, r2) =>
  match get_sint r2 with None => None | Some (l, r3) => Some (mkSect n o l, r3) end end end.
Fixpoint get_sects (n : nat) (bs : bytes) : option (list sect * bytes) :=
  match n with
  | O => Some ([], bs)
  | S m => match get_sect bs with None => None | Some (s, r) =>
           match get_sects m r with None => None | Some (ss, r') => Some (s :: ss, r') end end
  end.
Definition parse_hdr (P : lib_params) (bs : bytes) : option (hdr * bytes) :=
  match get_hint bs with None => None | Some (mg, r1) =>
  match get_sint r1 with None => None | Some (ma, r2) =>
  match get_sint r2 with None => None | Some (mi, r3) =>
  match get_hint r3 with None => None | Some (nu, r4) =>
  match get_sects (Z.to_nat (lp_name_limit P)) r4 with None => None | Some (ss, r5) =>
  Some (mkHdr mg ma mi nu ss, r5) end end end end end.

(* hdr.Index[n]: initialised to LIB_INDEX_LIMIT by libNewHeader, then
   "for i: n = Name[i]; if (n < LIB_NAME_LIMIT) Index[n] = i" -- the last wins.
   Only queried for n < LIB_NAME_LIMIT. *)
Fixpoint index_from (i : Z) (ss : list sect) (n : Z) (cur : Z) : Z :=
  match ss with
  | [] => cur
  | s :: r => index_from (i + 1) r n (if s_name s =? n then i else cur)
  end.
Definition index_of (P : lib_params) (h : hdr) (n : Z) : Z :=
  index_from 0 (h_sects h) n (lp_name_limit P).

Inductive refusal :=
| ShortHeader      (* fread of the header came up short: libFatal LibBadSectHdr *)
| BadMagic | BadVersion | BadNumSect | BadSectName | BadSectHdr
| DupSect          (* two table entries carry one name: Index[Name[i]] != i, libError LibSectDup *)
| SectBeyondFile   (* the last section ends after the end of the file *)
| ShortSection.    (* fread of a section came up short: libFatal LibSectOffset *)

Inductive chk_result := ChkOk | ChkRefuse (m : refusal).

(* "Check the section names" loop of libChkHeader *)
Fixpoint chk_names (P : lib_params) (h : hdr) (i : Z) (ss : list sect) : chk_result :=
  match ss with
  | [] => ChkOk
  | s :: r =>
    if lp_name_limit P <=? s_name s then ChkRefuse BadSectName
    else if negb (index_of P h (s_name s) =? i) then ChkRefuse DupSect
    else chk_names P h (i + 1) r
  end.

(* "Check remaining section headers" *)
Fixpoint chk_chain (prev : sect) (ss : list sect) : bool :=
  match ss with
  | [] => true
  | s :: r => (s_off s =? s_off prev + s_len prev) && chk_chain s r
  end.

Definition dflt_sect (P : lib_params) := mkSect (lp_name_limit P) 0 0.

Definition chk_header (P : lib_params) (h : hdr) : chk_result :=
  if negb (h_magic h =? lp_magic P) then ChkRefuse BadMagic
  else if (h_major h <? lp_major P) ||
          ((h_major h =? lp_major P) && (h_minor h <? lp_minor P)) then ChkRefuse BadVersion
  else if negb (h_num h <=? lp_name_limit P) then ChkRefuse BadNumSect
  else let used := firstn (Z.to_nat (h_num h)) (h_sects h) in
  match chk_names P h 0 used with
  | ChkOk =>
    (* checked even when numSect = 0 *)
    let s0 := nth 0 (h_sects h) (dflt_sect P) in
    if negb (s_off s0 =? lp_hdr_size P) then ChkRefuse BadSectHdr
    else if negb (chk_chain s0 (tl used)) then ChkRefuse BadSectHdr
    else ChkOk
  | r => r
  end.

Inductive outcome := Refused (m : refusal) | Loaded (h : hdr).

Definition read_lib (P : lib_params) (file : bytes) : outcome :=
  if Z.of_nat (length file) <? lp_hdr_size P then Refused ShortHeader
  else match parse_hdr P file with
  | None => Refused ShortHeader
  | Some (h, _) =>
    match chk_header P h with
    | ChkRefuse m => Refused m
    | ChkOk =>
      if 0 <? h_num h then
        let sl := nth (Z.to_nat (h_num h - 1)) (h_sects h) (dflt_sect P) in
        if Z.of_nat (length file) <? s_off sl + s_len sl then Refused SectBeyondFile
        else Loaded h
      else Loaded h
    end
  end.

(* libHasSection + libGetSection on a loaded header *)
Inductive section := Absent | Short | Content (bs : bytes).
Definition get_section (P : lib_params) (h : hdr) (file : bytes) (n : Z) : section :=
  let s := nth (Z.to_nat (index_of P h n)) (h_sects h) (mkSect (lp_name_limit P) 0 0) in
  if s_off s =? 0 then Absent
  else match get_block (s_len s) (skipn (Z.to_nat (s_off s)) file) with
       | None => Short
       | Some (c, _) => Content c
       end.

(* ---- the writer: libAddSection / libPutSection in sequence, then libPutHeader *)
Definition lunit := list (Z * bytes).    (* (section name, contents) in file order *)

Fixpoint mk_sects (u : lunit) (off : Z) : list sect :=
  match u with
  | [] => []
  | (n, c) :: r => mkSect n off (Z.of_nat (length c)) :: mk_sects r (off + Z.of_nat (length c))
  end.

Definition mk_hdr (P : lib_params) (u : lunit) : hdr :=
  mkHdr (lp_magic P) (lp_major P) (lp_minor P) (Z.of_nat (length u))
        (mk_sects u (lp_hdr_size P) ++
         repeat (dflt_sect P) (Z.to_nat (lp_name_limit P) - length u)).

Definition body (u : lunit) : bytes := concat (map snd u).

Definition write_lib (P : lib_params) (u : lunit) : bytes := write_hdr (mk_hdr P u) ++ body u.

Definition wf_lunit (P : lib_params) (u : lunit) : Prop :=
  (1 <= length u)%nat /\ Z.of_nat (length u) <= lp_name_limit P /\
  NoDup (map fst u) /\ Forall (fun n => 0 <= n < lp_name_limit P) (map fst u) /\
  lp_hdr_size P + Z.of_nat (length (body u)) < 4294967296.

Definition wf_hdr (P : lib_params) (h : hdr) : Prop :=
  0 <= h_magic h < 65536 /\ 0 <= h_major h < 4294967296 /\ 0 <= h_minor h < 4294967296 /\
  0 <= h_num h < 65536 /\ length (h_sects h) = Z.to_nat (lp_name_limit P) /\
  Forall (fun s => 0 <= s_name s < 256 /\ 0 <= s_off s < 4294967296 /\ 0 <= s_len s < 4294967296)
         (h_sects h).

(* single-byte substitution *)
Fixpoint subst_nth (k : nat) (b : Z) (bs : bytes) : bytes :=
  match bs, k with
  | [], _ => []
  | _ :: r, O => b :: r
  | x :: r, S k' => x :: subst_nth k' b r
  end.
