(* driver.ml -- line-oriented front end of the extracted FOAM / library-header model.
   One operation per input line, one result line per operation.  Only format
   conversion happens here (hex <-> Coq Z / byte lists / trees); every decision
   and every number in the output is computed by the extracted Coq functions.

   numbers: hexadecimal with optional leading '-'      trees: ( tag arg* )
   args: i<num> Int | s<hex bytes> Str | b<num> BIntA | f<hex> SFloA | d<hex> DFloA | ( ... ) Sub *)
open Foam
type ostring = Stdlib.String.t      (* Foam.string (Coq's) shadows OCaml's after the open *)

(* ---- Z <-> hex, structurally *)
let rec pos_of_bits = function        (* most significant first, leading 1 dropped *)
  | [] -> XH
  | _ -> assert false
let pos_of_bitlist (bits : bool list) : positive option =
  (* bits most significant first *)
  let rec strip = function false :: r -> strip r | l -> l in
  match strip bits with
  | [] -> None
  | _ :: rest -> Some (List.fold_left (fun acc b -> if b then XI acc else XO acc) XH rest)
let hexval c = match c with
  | '0'..'9' -> Char.code c - 48 | 'a'..'f' -> Char.code c - 87 | 'A'..'F' -> Char.code c - 55
  | _ -> failwith "hex"
let z_of_hex (s : ostring) : z =
  let neg = String.length s > 0 && s.[0] = '-' in
  let s = if neg then String.sub s 1 (String.length s - 1) else s in
  let bits = ref [] in
  String.iter (fun c -> let v = hexval c in
    bits := (v land 1 <> 0) :: (v land 2 <> 0) :: (v land 4 <> 0) :: (v land 8 <> 0) :: !bits) s;
  match pos_of_bitlist (List.rev !bits) with
  | None -> Z0
  | Some p -> if neg then Zneg p else Zpos p
let hex_of_pos (p : positive) : ostring =
  let rec bits p acc = match p with   (* least significant first into acc reversed *)
    | XH -> true :: acc | XO q -> bits q (false :: acc) | XI q -> bits q (true :: acc) in
  (* build lsb-first list *)
  let rec lsb p = match p with XH -> [true] | XO q -> false :: lsb q | XI q -> true :: lsb q in
  ignore bits;
  let l = lsb p in
  let buf = Buffer.create 16 in
  let rec go l acc = match l with
    | [] -> acc
    | _ ->
      let take n l = let rec t n l a = if n = 0 then (List.rev a, l) else match l with [] -> (List.rev a, []) | x :: r -> t (n-1) r (x :: a) in t n l [] in
      let (nib, rest) = take 4 l in
      let v = List.fold_right (fun b a -> a * 2 + (if b then 1 else 0)) nib 0 in
      go rest ("0123456789abcdef".[v] :: acc) in
  List.iter (Buffer.add_char buf) (go l []);
  Buffer.contents buf
let hex_of_z = function Z0 -> "0" | Zpos p -> hex_of_pos p | Zneg p -> "-" ^ hex_of_pos p

let byte_tbl : z array = Array.init 256 (fun i -> z_of_hex (Printf.sprintf "%x" i))
let bytes_of_hex (s : ostring) : z list =
  let n = String.length s / 2 in
  let rec go i acc = if i < 0 then acc
    else go (i - 1) (byte_tbl.(hexval s.[2*i] * 16 + hexval s.[2*i+1]) :: acc) in
  go (n - 1) []
let int_of_small_z (x : z) : int =    (* only for bytes: formatting *)
  let rec p = function XH -> 1 | XO q -> 2 * p q | XI q -> 2 * p q + 1 in
  match x with Z0 -> 0 | Zpos q -> p q | Zneg q -> - (p q)
let hex_of_bytes (l : z list) : ostring =
  let b = Buffer.create 1024 in
  List.iter (fun x -> let v = int_of_small_z x in
                      if v < 0 || v > 255 then Buffer.add_string b "??" else Buffer.add_string b (Printf.sprintf "%02x" v)) l;
  if Buffer.length b = 0 then "-" else Buffer.contents b
let bytes_arg s = if s = "-" || s = "" then [] else bytes_of_hex s

(* ---- trees *)
let rec print_node b (Node (tag, args)) =
  Buffer.add_string b "( "; Buffer.add_string b (hex_of_z tag);
  List.iter (fun a -> Buffer.add_char b ' '; print_arg b a) args;
  Buffer.add_string b " )"
and print_arg b = function
  | Int x -> Buffer.add_char b 'i'; Buffer.add_string b (hex_of_z x)
  | Str s -> Buffer.add_char b 's'; Buffer.add_string b (hex_of_bytes s)
  | BIntA x -> Buffer.add_char b 'b'; Buffer.add_string b (hex_of_z x)
  | SFloA s -> Buffer.add_char b 'f'; Buffer.add_string b (hex_of_bytes s)
  | DFloA s -> Buffer.add_char b 'd'; Buffer.add_string b (hex_of_bytes s)
  | Sub n -> print_node b n
let node_to_string n = let b = Buffer.create 256 in print_node b n; Buffer.contents b

let parse_node (toks : ostring list) : node * ostring list =
  let rec node = function
    | "(" :: tag :: rest ->
      let rec args acc = function
        | ")" :: r -> (List.rev acc, r)
        | "(" :: _ as l -> let (n, r) = node l in args (Sub n :: acc) r
        | t :: r ->
          let body = String.sub t 1 (String.length t - 1) in
          let a = match t.[0] with
            | 'i' -> Int (z_of_hex body) | 's' -> Str (bytes_arg body) | 'b' -> BIntA (z_of_hex body)
            | 'f' -> SFloA (bytes_arg body) | 'd' -> DFloA (bytes_arg body) | _ -> failwith "arg" in
          args (a :: acc) r
        | [] -> failwith "eof" in
      let (a, r) = args [] rest in (Node (z_of_hex tag, a), r)
    | _ -> failwith "node" in
  node toks

(* ---- s-expression tokens: ( ) i<num> s<hex> y<hex> f<hex> d<hex> *)
let print_tokens (ts : token list) : ostring =
  let b = Buffer.create 1024 in
  List.iter (fun t ->
      if Buffer.length b > 0 then Buffer.add_char b ' ';
      match t with
      | TL -> Buffer.add_char b '(' | TR -> Buffer.add_char b ')'
      | TA (AInt x) -> Buffer.add_char b 'i'; Buffer.add_string b (hex_of_z x)
      | TA (AStr s) -> Buffer.add_char b 's'; Buffer.add_string b (hex_of_bytes s)
      | TA (ASym s) -> Buffer.add_char b 'y'; Buffer.add_string b (hex_of_bytes s)
      | TA (ASFlo s) -> Buffer.add_char b 'f'; Buffer.add_string b (hex_of_bytes s)
      | TA (ADFlo s) -> Buffer.add_char b 'd'; Buffer.add_string b (hex_of_bytes s)) ts;
  Buffer.contents b
let parse_tokens (toks : ostring list) : token list =
  List.map (fun t ->
      if t = "(" then TL else if t = ")" then TR else
        let body = String.sub t 1 (String.length t - 1) in
        match t.[0] with
        | 'i' -> TA (AInt (z_of_hex body)) | 's' -> TA (AStr (bytes_arg body)) | 'y' -> TA (ASym (bytes_arg body))
        | 'f' -> TA (ASFlo (bytes_arg body)) | 'd' -> TA (ADFlo (bytes_arg body)) | _ -> failwith "token") toks

let bit b = if b then "1" else "0"
let refusal_name = function
  | ShortHeader -> "ShortHeader" | BadMagic -> "BadMagic" | BadVersion -> "BadVersion"
  | BadNumSect -> "BadNumSect" | BadSectName -> "BadSectName" | BadSectHdr -> "BadSectHdr"
  | SectBeyondFile -> "SectBeyondFile" | ShortSection -> "ShortSection" | DupSect -> "DupSect"

let rec nat_of_int n = if n <= 0 then O else S (nat_of_int (n - 1))

let handle (line : ostring) : ostring =
  match String.split_on_char ' ' (String.trim line) with
  | ["params"] -> Printf.sprintf "%s %s" (bit (foam_params_ok fP)) (bit (lib_params_ok lP))
  | ["dec"; st; hex] ->
    (* decode a byte string; re-encode what was decoded *)
    (match dec fP (z_of_hex st) (bytes_arg hex) with
     | None -> "NONE"
     | Some ((n, rest), st') ->
       let (b, st2) = enc fP (z_of_hex st) n in
       let c = canon fP n in
       Printf.sprintf "OK %s %s %s %s %s %s" (hex_of_bytes rest) (hex_of_z st') (bit (wf fP (z_of_hex st) n))
         (hex_of_bytes b) (hex_of_z st2) (bit (c = n)))
  | ["dect"; st; hex] ->
    (match dec fP (z_of_hex st) (bytes_arg hex) with
     | None -> "NONE"
     | Some ((n, rest), st') -> Printf.sprintf "OK %s %s | %s" (hex_of_bytes rest) (hex_of_z st') (node_to_string n))
  | "tree" :: st :: toks ->
    (* encode a given tree, decode the result, canonical form, idempotence of canon *)
    let (n, _) = parse_node toks in
    let st = z_of_hex st in
    let w = wf fP st n in
    let (b, st') = enc fP st n in
    let d = (match dec fP st b with
        | None -> "NONE"
        | Some ((m, rest), st2) -> Printf.sprintf "%s %s %s" (hex_of_bytes rest) (hex_of_z st2) (node_to_string m)) in
    let c = canon fP n in
    let (b2, _) = enc fP st c in
    Printf.sprintf "%s %s %s | %s | %s | %s %s" (bit w) (hex_of_bytes b) (hex_of_z st') d (node_to_string c)
      (bit (canon fP c = c)) (bit (b2 = b))
  | "wr" :: toks ->
    (* tree -> text tokens; read them back; re-save *)
    let (n, _) = parse_node toks in
    let ts = wr fP tP ctx0 n in
    let back = (match rd fP tP ts with
        | Some (m, []) -> Printf.sprintf "%s %s" (bit (m = tcanon fP n)) (bit (wr fP tP ctx0 m = ts))
        | Some (_, _ :: _) -> "REST" | None -> "NONE") in
    Printf.sprintf "%s %s | %s" (bit (wf_text fP tP n)) back (print_tokens ts)
  | "rdwr" :: toks ->
    (* text tokens -> tree -> text tokens *)
    (match rd fP tP (parse_tokens toks) with
     | None -> "NONE"
     | Some (n, rest) ->
       Printf.sprintf "%s %s | %s | %s" (bit (rest = [])) (bit (wf_text fP tP n)) (node_to_string n)
         (print_tokens (wr fP tP ctx0 n)))
  | ["ar"; hex] ->
    (* members of an ar archive: name:position ... | diagnostics *)
    (match read_ar (bytes_arg hex) with
     | NotArch -> "NOTARCH"
     | Members (ms, dg) ->
       Printf.sprintf "MEMBERS %s | %s"
         (String.concat " " (List.map (fun (n, p) -> hex_of_bytes n ^ ":" ^ hex_of_z p) ms))
         (String.concat " " (List.map (function ArTruncated -> "T" | ArBadNumber -> "N") dg)))
  | ["lexf"; single; zero; neg; texthex] ->
    (* float atom: DFloatSprint's decision + sexpr.c's marker, given libc's printf text *)
    let to_coq (s : ostring) : Foam.string =
      let r = ref EmptyString in
      for i = String.length s - 1 downto 0 do
        let c = Char.code s.[i] in
        let b k = (c lsr k) land 1 = 1 in
        r := String (Ascii (b 0, b 1, b 2, b 3, b 4, b 5, b 6, b 7), !r)
      done; !r in
    let rec of_coq (s : Foam.string) (b : Buffer.t) =
      match s with
      | EmptyString -> ()
      | String (Ascii (b0, b1, b2, b3, b4, b5, b6, b7), t) ->
        let v x k = if x then 1 lsl k else 0 in
        Buffer.add_char b (Char.chr (v b0 0 + v b1 1 + v b2 2 + v b3 3 + v b4 4 + v b5 5 + v b6 6 + v b7 7));
        of_coq t b in
    let txt = Bytes.to_string (Bytes.of_seq (List.to_seq (List.map (fun z -> Char.chr (int_of_small_z z)) (bytes_arg texthex)))) in
    let out = atom_of_text (single = "1") (zero = "1") (neg = "1") (to_coq txt) in
    let b = Buffer.create 32 in of_coq out b;
    let r = Buffer.contents b in
    let h = Buffer.create 64 in String.iter (fun c -> Buffer.add_string h (Printf.sprintf "%02x" (Char.code c))) r;
    Buffer.contents h
  | ["fileid"; hex] ->
    (match dec_fileid (bytes_arg hex) with
     | Some (s, rest) -> Printf.sprintf "OK %s %s %s" (hex_of_bytes s) (hex_of_bytes rest) (hex_of_bytes (enc_fileid s))
     | None -> "NONE")
  | ["names"; hex] ->
    (* LIB_Name section: raw layout, re-encoding, the rebuilt name list, and dedupe(names) re-encoded *)
    (match dec_names (bytes_arg hex) with
     | None -> "NONE"
     | Some (n, rest) ->
       (match names_of n with
        | None -> "NONAMES"
        | Some l ->
          Printf.sprintf "OK %s %s %s %s | %s | %s" (hex_of_z n.n_symec) (hex_of_z n.n_topc) (hex_of_bytes rest)
            (hex_of_bytes (enc_names n))
            (String.concat " " (List.map hex_of_bytes l))
            (hex_of_bytes (enc_names (names_to_raw n.n_topc l)))))
  | ["sect"; which; symec; hex] ->
    (* kind / lazy / file section: records, rest, re-encoding *)
    let n = z_of_hex symec in
    let bs = bytes_arg hex in
    (match which with
     | "kind" -> (match dec_kinds n bs with
         | Some (ks, rest) -> Printf.sprintf "OK %s | %s | %s" (hex_of_bytes rest) (hex_of_bytes ks) (hex_of_bytes (enc_kinds ks))
         | None -> "NONE")
     | "lazy" -> (match dec_lazy_sect n bs with
         | Some (rs, rest) ->
           Printf.sprintf "OK %s | %s | %s" (hex_of_bytes rest)
             (String.concat " " (List.map (fun ((i, k), h) -> hex_of_z i ^ ":" ^ hex_of_z k ^ ":" ^ hex_of_z h) rs))
             (hex_of_bytes (enc_lazy_sect n rs))
         | None -> "NONE")
     | "file" -> (match dec_file_sect n bs with
         | Some (rs, rest) ->
           Printf.sprintf "OK %s | %s | %s" (hex_of_bytes rest)
             (String.concat " " (List.map (fun ((i, k), s) -> hex_of_z i ^ ":" ^ hex_of_z k ^ ":" ^ hex_of_bytes s) rs))
             (hex_of_bytes (enc_file_sect n rs))
         | None -> "NONE")
     | _ -> "ERR")
  | ["tparams"] -> bit (text_params_ok fP tP)
  | ["lex"; t] ->
    (* spelling of one integer / string atom, and its reading back *)
    let body = String.sub t 1 (String.length t - 1) in
    (match t.[0] with
     | 'i' -> let z = z_of_hex body in let s = pr_int z in
       Printf.sprintf "%s %s" (hex_of_bytes s) (match rd_int s with Some v -> bit (v = z) | None -> "N")
     | 's' -> let x = bytes_arg body in let s = pr_str x in
       Printf.sprintf "%s %s" (hex_of_bytes s) (match rd_str s with Some (v, []) -> bit (v = x) | _ -> "N")
     | _ -> "ERR")
  | ["sred"; v] ->
    let t = sint_reduce fP (z_of_hex v) in
    Printf.sprintf "%s | %s" (match eval_sint fP t with None -> "NONE" | Some x -> hex_of_z x) (node_to_string t)
  | ["lib"; hex] ->
    let file = bytes_arg hex in
    (match read_lib lP file with
     | Refused m -> "REFUSED " ^ refusal_name m
     | Loaded h ->
       let b = Buffer.create 256 in
       Buffer.add_string b (Printf.sprintf "LOADED %s %s %s %s |" (hex_of_z h.h_magic) (hex_of_z h.h_major) (hex_of_z h.h_minor) (hex_of_z h.h_num));
       List.iter (fun s -> Buffer.add_string b (Printf.sprintf " %s:%s:%s" (hex_of_z s.s_name) (hex_of_z s.s_off) (hex_of_z s.s_len))) h.h_sects;
       Buffer.add_string b " |";
       let lim = int_of_small_z lP.lp_name_limit in
       for n = 0 to lim - 1 do
         (match get_section lP h file byte_tbl.(n) with
          | Absent -> Buffer.add_string b " A"
          | Short -> Buffer.add_string b " S"
          | Content c -> Buffer.add_string b (" C" ^ hex_of_bytes c))
       done;
       Buffer.add_string b (" | " ^ hex_of_bytes (write_hdr h));
       Buffer.contents b)
  | ["libo"; hex] ->
    (* outcome only (fault enumeration) *)
    (match read_lib lP (bytes_arg hex) with
     | Refused m -> "REFUSED " ^ refusal_name m
     | Loaded h -> "LOADED")
  | [""] -> ""
  | _ -> "ERR bad operation"

let () =
  try
    while true do
      let line = input_line stdin in
      (try print_string (handle line) with
       | Stack_overflow -> print_string "ERR stack overflow"
       | e -> print_string ("ERR " ^ Printexc.to_string e));
      print_newline ()
    done
  with End_of_file -> ()
