(* Extract.v -- OCaml extraction of the executable model (Z stays Coq's binary Z). *)
Require Import ExtrOcamlBasic.
Require Import AV.Foam.Buf AV.Foam.Syntax AV.Foam.Codec AV.Foam.LibHdr AV.Foam.SExpr AV.Foam.SLex AV.Foam.SFlo AV.Foam.Archive AV.Foam.LibSect AV.Gen.FoamInfo.
Extraction "Foam/extracted/foam.ml"
  dec enc enc_node wf wf_node canon reduce_all zero_x sint_reduce eval_sint tag_format
  read_lib parse_hdr write_hdr chk_header get_section index_of subst_nth
  foam_params_ok lib_params_ok FP LP places
  wr rd wf_text tcanon ctx0 text_params_ok TP pr_int pr_str rd_int rd_str read_ar find_member atom_of_text
  enc_fileid dec_fileid enc_names dec_names names_of names_to_raw
  enc_kinds dec_kinds enc_lazy_sect dec_lazy_sect enc_file_sect dec_file_sect.
