(* Archive.v -- archive.c: finding the members of an ar(1) archive (.al), as a total function of
   the file's bytes: arRdFormat (only the "!<arch>\n" format is modelled), arRdTable / arFirst /
   arNext / arSeek, arRdItemArch / arRdItemArch0 / arReadNameTable, arReadText / arReadNumber
   (strtol), arItemIsIntermed and arFindEntry.

   Result: the members recorded (name, position of the data) in file order, and the diagnostics
   raised on the way (ArTruncated, ArBadNumber: comsgError, so the compilation ends with a non-zero
   status).  [fuel] bounds the number of headers visited; every header visited moves the position
   forward by at least 60 bytes, so the length of the file is enough.

   Quirks kept: a header that is cut short still yields an item (with empty / zero fields) before
   the walk stops; a member whose data extent leaves the file raises ArTruncated (and is still
   recorded when its data starts inside the file); an indirect
   name "/N" indexes the name table without a bounds check (here: empty name beyond the table);
   the name comparison in arFindEntry ignores letter case (strAEqual). *)
Require Import ZArith List Lia Bool.
Require Import AV.Foam.Buf.
Import ListNotations.
Local Open Scope Z_scope.
Local Open Scope bool_scope.

Definition ar_magic : bytes := [33; 60; 97; 114; 99; 104; 62; 10].   (* !<arch>\n *)
Definition ar_hdrsz : Z := 8.
Definition ar_align : Z := 2.

Fixpoint bytes_eqb (a b : bytes) : bool :=
  match a, b with
  | [], [] => true
  | x :: a', y :: b' => (x =? y) && bytes_eqb a' b'
  | _, _ => false
  end.

(* fread(buffer, 1, len, f) at position pos: the bytes obtained and whether all len came *)
Definition fread (file : bytes) (pos len : Z) : bytes * bool :=
  let avail := skipn (Z.to_nat pos) file in
  let got := firstn (Z.to_nat len) avail in
  (got, Z.of_nat (length got) =? len).

(* C string view of a buffer: up to the first NUL *)
Fixpoint cstr (s : bytes) : bytes :=
  match s with [] => [] | c :: r => if c =? 0 then [] else c :: cstr r end.

Definition is_space (c : Z) : bool := (c =? 32) || ((9 <=? c) && (c <=? 13)).
Fixpoint skip_spaces (s : bytes) : bytes :=
  match s with c :: r => if is_space c then skip_spaces r else s | [] => [] end.
Definition digit_val (base c : Z) : option Z :=
  if (48 <=? c) && (c <? 48 + (if base <? 10 then base else 10)) then Some (c - 48) else None.
Fixpoint digits_val (base : Z) (s : bytes) (acc : Z) (seen : bool) : Z * bytes * bool :=
  match s with
  | c :: r => match digit_val base c with
              | Some d => digits_val base r (base * acc + d) true
              | None => (acc, s, seen)
              end
  | [] => (acc, [], seen)
  end.

(* strtol(buf, &endp, base) followed by "if (!*endp || *endp == ' ') ok": value as an Offset *)
Definition strtol_ok (base : Z) (buf : bytes) : option Z :=
  let s := cstr buf in
  let t := skip_spaces s in
  let '(neg, u) := match t with
                   | c :: r => if c =? 45 then (true, r) else if c =? 43 then (false, r) else (false, t)
                   | [] => (false, t)
                   end in
  let '(v, rest, seen) := digits_val base u 0 false in
  let endp := if seen then rest else s in          (* no digits: endp = the start of the string *)
  match endp with
  | [] => Some (if neg then (- v) mod 18446744073709551616 else v)
  | c :: _ => if c =? 32 then Some (if neg then (- v) mod 18446744073709551616 else v) else None
  end.

Inductive ar_diag := ArTruncated | ArBadNumber.

(* arReadNumber: value and diagnostics *)
Definition read_number (file : bytes) (pos len base : Z) : Z * list ar_diag :=
  let '(got, full) := fread file pos len in
  if negb full then (0, [ArTruncated; ArBadNumber])            (* arReadText fails, buffer "" *)
  else match cstr got with
       | [] => (0, [ArBadNumber])                                (* "Must have something in the buffer" *)
       | _ => match strtol_ok base got with
              | Some v => (v, [])
              | None => (0, [ArBadNumber])
              end
       end.

Definition term_name (s : bytes) : bytes :=
  (fix go (s : bytes) : bytes :=
     match s with
     | [] => []
     | c :: r => if (c =? 0) || (c =? 32) || (c =? 47) then [] else c :: go r
     end) s.

Record ar_item := mkItem {
  i_raw : bytes;       (* the 16 name bytes as read ("" when the read was short) *)
  i_pos : Z;           (* arPosition after arRdItemArch0 (0 = past the end) *)
  i_next : Z;          (* ar->__next *)
  i_diag : list ar_diag
}.

(* arRdItemArch0 with the header at [hdr] (= ar->__next on entry) *)
Definition rd_item0 (file : bytes) (hdr : Z) : ar_item :=
  let size := Z.of_nat (length file) in
  let '(nm, okn) := fread file hdr 16 in
  let d0 := if okn then [] else [ArTruncated] in
  let raw := if okn then nm else [] in
  let '(_, d1) := read_number file (hdr + 16) 12 10 in
  let '(_, d2) := read_number file (hdr + 28) 6 10 in
  let '(_, d3) := read_number file (hdr + 34) 6 10 in
  let '(_, d4) := read_number file (hdr + 40) 8 8 in
  let '(sz, d5) := read_number file (hdr + 48) 10 10 in
  let '(_, okm) := fread file (hdr + 58) 2 in
  let d6 := if okm then [] else [ArTruncated] in
  let pos0 := hdr + 60 in                                   (* 60 is a multiple of the alignment *)
  (* "The data of the member must lie inside the file": arPosition + size > arSize -> ArTruncated
     (size before padding: a missing final padding byte is fine) *)
  let d7 := if size <? pos0 + sz then [ArTruncated] else [] in
  let pos := if size <=? pos0 then 0 else pos0 in           (* arSeek *)
  let sz' := if sz mod ar_align =? 0 then sz else sz + (ar_align - sz mod ar_align) in
  mkItem raw pos (pos + sz') (d0 ++ d1 ++ d2 ++ d3 ++ d4 ++ d5 ++ d6 ++ d7).

(* the part of the name table an indirect name points at *)
Fixpoint table_name (s : bytes) : bytes :=
  match s with
  | [] => []
  | c :: r => if (c =? 10) || (c =? 47) || (c =? 0) then [] else c :: table_name r
  end.

(* sscanf(&name[1], "%8lu ", &idx): leading white space, then up to 8 digits; 0 when none *)
Definition scan_idx (s : bytes) : Z :=
  let t := firstn 8 (skip_spaces (cstr s)) in
  let '(v, _, _) := digits_val 10 t 0 false in v.

Definition ends_with_ao (name : bytes) : bool :=
  (* ftypeEqual(fnameType(name), "ao"): the text after the last '.' *)
  match rev name with
  | 111 :: 97 :: 46 :: _ :: _ => true      (* "x.ao" *)
  | _ => false
  end.

Record ar_state := mkSt { st_names : bytes; st_members : list (bytes * Z); st_diag : list ar_diag }.

(* arRdTable: walk the headers *)
(* [force]: arRdItemArch "goes round again" after a name table without the arNext test *)
Fixpoint walk (fuel : nat) (file : bytes) (next : Z) (force : bool) (st : ar_state) : ar_state :=
  match fuel with
  | O => st
  | S f =>
    let size := Z.of_nat (length file) in
    if negb force && ((next =? 0) || (size <=? next)) then st           (* arNext: __next && arSeek *)
    else
      let it := rd_item0 file next in
      let nm := term_name (i_raw it) in
      let st1 := mkSt (st_names st) (st_members st) (st_diag st ++ i_diag it) in
      match nm with
      | _ :: _ =>
        if i_pos it =? 0 then st1                        (* arEndp *)
        else walk f file (i_next it) false
                  (mkSt (st_names st1) (if ends_with_ao nm then st_members st1 ++ [(nm, i_pos it)] else st_members st1)
                        (st_diag st1))
      | [] =>
        match i_raw it with
        | _ :: 47 :: _ =>
          (* "//": the name table is the data of this item; go round again at the next header,
             without the arNext test *)
          if i_pos it =? 0 then st1
          else
            let tbl := fst (fread file (i_pos it) (i_next it - i_pos it)) in
            (* "Just go round again": the next header is read where the table ended, without the
               arNext test (at the end of the file this reads a phantom header and reports it) *)
            walk f file (i_next it) true (mkSt tbl (st_members st1) (st_diag st1))
        | raw =>
          (* "/N" (or "/" = the symbol table): indirect name *)
          let idx := scan_idx (tl raw) in
          let nm2 := table_name (skipn (Z.to_nat idx) (st_names st)) in
          if i_pos it =? 0 then st1
          else walk f file (i_next it) false
                    (mkSt (st_names st1) (if ends_with_ao nm2 then st_members st1 ++ [(nm2, i_pos it)] else st_members st1)
                          (st_diag st1))
        end
      end
  end.

Inductive ar_result := NotArch | Members (ms : list (bytes * Z)) (diag : list ar_diag).

Definition read_ar (file : bytes) : ar_result :=
  if bytes_eqb (firstn 8 file) ar_magic
  then let st := walk (S (length file)) file ar_hdrsz false (mkSt [] [] []) in Members (st_members st) (st_diag st)
  else NotArch.

(* arFindEntry: first member whose name equals the key, letter case ignored *)
Definition lower (c : Z) : Z := if (65 <=? c) && (c <=? 90) then c + 32 else c.
Definition find_member (ms : list (bytes * Z)) (key : bytes) : option Z :=
  match find (fun m => bytes_eqb (map lower (fst m)) (map lower key)) ms with
  | Some m => Some (snd m)
  | None => None
  end.

(* every recorded member starts inside the file *)
Definition members_inside (file : bytes) (ms : list (bytes * Z)) : Prop :=
  Forall (fun m => 0 < snd m < Z.of_nat (length file)) ms.
