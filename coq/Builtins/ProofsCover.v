(* Coverage and same-operation class over the GENERATED tables. *)
Require Import ZArith List String Bool Lia ZifyBool.
Require Import AV.Builtins.CInt AV.Builtins.Spec AV.Builtins.Facts AV.Gen.Builtins.
Import ListNotations.
Local Open Scope Z_scope.
Ltac Zify.zify_post_hook ::= Z.to_euclidean_division_equations.

Lemma coverage_complete_l : coverage bval_sig bval_enum.
Proof. apply coverage_of_b. vm_compute. reflexivity. Qed.

Lemma specified_present_l :
  Forall (fun p => present (bval_sig ++ bval_comp_sig) fint_tbl genc_tbl (fst p) (snd p)) sop_table.
Proof.
  apply (Forall_of_forallb (fun p => present_b (bval_sig ++ bval_comp_sig) fint_tbl genc_tbl (fst p) (snd p))).
  - intros [n o] H. apply present_of_b. exact H.
  - vm_compute. reflexivity.
Qed.

Definition sameop_ok (n : string) : Prop :=
  In n known_bad_cfold \/ In n known_bad_fint \/ In n known_bad_genc \/
  sameop_check cfold_tbl fint_tbl genc_tbl n = true.

Ltac sameop_failed :=
  lazymatch goal with
  | |- sameop_ok ?n => fail 1000 "ROW-FAILED" n
  end.

Ltac solve_sameop :=
  first [ right; right; right; vm_compute; reflexivity
        | left; solve [in_list] | right; left; solve [in_list] | right; right; left; solve [in_list]
        | sameop_failed ].

Lemma sameop_agree_l : Forall sameop_ok sameop_names.
Proof. unfold sameop_names. walk solve_sameop. Qed.
