(* Proof over the GENERATED C-back-end table (genc.c:ccBValInfoTable + foam_c.h + leaf functions). *)
Require Import ZArith List String Bool Lia ZifyBool.
Require Import AV.Builtins.CInt AV.Builtins.Spec AV.Builtins.Facts AV.Gen.Builtins.
Import ListNotations.
Local Open Scope Z_scope.
Ltac Zify.zify_post_hook ::= Z.to_euclidean_division_equations.

Lemma genc_meets_spec_l : meets_spec known_bad_genc genc_tbl.
Proof. walk_filtered meets_spec_filter solve_rt_row. Qed.
