(* Proof over the GENERATED interpreter table (fint.c:fintEvalBCall); the tactic
   walks whatever rows the current source yields. *)
Require Import ZArith List String Bool Lia ZifyBool.
Require Import AV.Builtins.CInt AV.Builtins.Spec AV.Builtins.Facts AV.Gen.Builtins.
Import ListNotations.
Local Open Scope Z_scope.
Ltac Zify.zify_post_hook ::= Z.to_euclidean_division_equations.

Lemma fint_meets_spec_l : meets_spec known_bad_fint fint_tbl.
Proof. walk_filtered meets_spec_filter solve_rt_row. Qed.
