(* Facts.v — lemmas and proof tactics for property C04 (hand-written). *)
Require Import ZArith List String Bool Lia ZifyBool.
Require Import AV.Builtins.CInt AV.Builtins.Spec.
Import ListNotations.
Local Open Scope Z_scope.

Ltac Zify.zify_post_hook ::= Z.to_euclidean_division_equations.

(* ------------------------------------------------------------------ statements *)

Fixpoint ftys_eqb (a b : list fty) : bool :=
  match a, b with
  | [], [] => true
  | x :: a', y :: b' => fty_eqb x y && ftys_eqb a' b'
  | _, _ => false
  end.

Lemma ftys_eqb_eq a b : ftys_eqb a b = true -> a = b.
Proof.
  revert b; induction a as [|x a IH]; intros [|y b] H; cbn in H; try discriminate; auto.
  apply andb_true_iff in H as [H1 H2]. apply fty_eqb_eq in H1. f_equal; auto.
Qed.

(* the row is about operation o with the signature the specification expects,
   and the evaluator says it produces the result type of the signature *)
Definition row_sig_ok (o : sop) (e : row) : bool :=
  ftys_eqb (rargs e) (fst (sop_sig o)) && fty_eqb (rret e) (snd (sop_sig o))
  && fty_eqb (rres e) (rret e).

(* THE per-row obligation: on every well-typed operand tuple in the domain the
   embedded C expression is defined and yields the mathematical value *)
Definition row_meets (o : sop) (e : row) : Prop :=
  row_sig_ok o e = true /\
  forall args, typed (rargs e) args -> in_dom o args = true ->
               sem args (rexp e) = Some (spec o args).

Definition row_ok (e : row) : Prop :=
  match sop_of (rname e) with
  | None => True                      (* not in the specified class: see coverage_complete *)
  | Some o => row_meets o e
  end.

(* tables of the two run times: every row of a specified builtin meets the spec,
   except rows named in known_findings.json *)
Definition meets_spec (bad : list string) (tbl : list row) : Prop :=
  Forall (fun e => In (rname e) bad \/ row_ok e) tbl.

(* table of the folder: a row either declines (the call is left in place and
   evaluated later by one of the run times) or meets the spec *)
Definition folds_to_spec (bad : list string) (tbl : list row) : Prop :=
  Forall (fun e => In (rname e) bad \/ rexp e = Declined \/ row_ok e) tbl.

(* folder rows of the trapping operations: outside the domain the row declines
   (a guard `if (...) break;`), so the compiler itself never divides by zero or
   LONG_MIN by -1 while folding *)
Definition row_guarded (o : sop) (e : row) : Prop :=
  forall args, typed (rargs e) args -> in_dom o args = false -> declines args (rexp e) = true.

Definition fold_fault_free (bad : list string) (tbl : list row) : Prop :=
  Forall (fun e => In (rname e) bad \/
                   match sop_of (rname e) with
                   | Some o => may_fault o = true -> row_guarded o e
                   | None => True
                   end) tbl.

(* ------------------------------------------------------------------ finite domains *)

Fixpoint zrange (lo : Z) (n : nat) : list Z :=
  match n with O => [] | S k => lo :: zrange (lo + 1) k end.

Lemma zrange_in n : forall lo z, lo <= z < lo + Z.of_nat n -> In z (zrange lo n).
Proof.
  induction n as [|n IH]; intros lo z H; cbn [zrange].
  - lia.
  - destruct (Z.eq_dec z lo) as [->|Hne]; [left; reflexivity|right].
    apply IH. lia.
Qed.

Definition finite_ty (t : fty) : bool :=
  match t with FBool | FChar | FByte | FHInt => true | _ => false end.

Definition enum_ty (t : fty) : list Z :=
  match t with
  | FBool => [0; 1]
  | FChar | FByte => zrange 0 (Z.to_nat 256)
  | FHInt => zrange (-32768) (Z.to_nat 65536)
  | _ => []
  end.

Lemma enum_complete t z : finite_ty t = true -> in_ty t z -> In z (enum_ty t).
Proof.
  destruct t; cbn [finite_ty in_ty enum_ty]; intros Hf H; try discriminate.
  - destruct H as [->| ->]; cbn; auto.
  - apply zrange_in. lia.
  - apply zrange_in. lia.
  - apply zrange_in. lia.
Qed.

Fixpoint all_args (tys : list fty) : list (list Z) :=
  match tys with
  | [] => [[]]
  | t :: r => flat_map (fun z => map (cons z) (all_args r)) (enum_ty t)
  end.

Lemma all_args_complete tys args :
  forallb finite_ty tys = true -> typed tys args -> In args (all_args tys).
Proof.
  intros Hf Ht. induction Ht as [|t z tys args Hz Ht IH]; cbn [all_args].
  - left; reflexivity.
  - cbn in Hf. apply andb_true_iff in Hf as [Hf1 Hf2].
    apply in_flat_map. exists z. split.
    + apply enum_complete; assumption.
    + apply in_map. apply IH. assumption.
Qed.

Definition opt_is (x : option Z) (y : Z) : bool :=
  match x with Some v => v =? y | None => false end.

Lemma opt_is_eq x y : opt_is x y = true -> x = Some y.
Proof. destruct x as [v|]; cbn; intro H; [apply Z.eqb_eq in H; congruence|discriminate]. Qed.

(* exhaustive check of one row over ALL well-typed operand tuples
   (Bool: 2, Char/Byte: 256, HInt: 65536 values per operand) *)
Definition check_finite (o : sop) (e : row) : bool :=
  forallb (fun args => implb (in_dom o args) (opt_is (sem args (rexp e)) (spec o args)))
          (all_args (rargs e)).

Lemma finite_row_meets o e :
  row_sig_ok o e = true -> forallb finite_ty (rargs e) = true -> check_finite o e = true ->
  row_meets o e.
Proof.
  intros Hs Hf Hc. split; [assumption|].
  intros args Ht Hd. unfold check_finite in Hc. rewrite forallb_forall in Hc.
  specialize (Hc args (all_args_complete _ _ Hf Ht)). rewrite Hd in Hc. cbn in Hc.
  apply opt_is_eq. assumption.
Qed.

(* ------------------------------------------------------------------ integer lemmas *)

Lemma wrap_S64_id z : -9223372036854775808 <= z < 9223372036854775808 -> wrap S64 z = z.
Proof. intro H. unfold wrap. lia. Qed.

Lemma land_1_mod2 a : Z.land a 1 = a mod 2.
Proof. change 1 with (Z.ones 1). rewrite Z.land_ones by lia. reflexivity. Qed.

Lemma even_mod2 a : Z.even a = (a mod 2 =? 0).
Proof. rewrite Zmod_even. destruct (Z.even a); reflexivity. Qed.

Lemma odd_mod2 a : Z.odd a = negb (a mod 2 =? 0).
Proof. rewrite Zmod_odd. destruct (Z.odd a); reflexivity. Qed.

Lemma rem2_zero a : (Z.rem a 2 =? 0) = (a mod 2 =? 0).
Proof.
  destruct (Z.eqb_spec (Z.rem a 2) 0) as [H|H]; destruct (Z.eqb_spec (a mod 2) 0) as [K|K];
    try reflexivity; exfalso; lia.
Qed.

(* bit i of a 64-bit two's complement value, written  n & (1L << i)  *)
Lemma testbit_high a m : -9223372036854775808 <= a < 9223372036854775808 -> 63 <= m ->
  Z.testbit a m = (a <? 0).
Proof.
  intros Ha Hm. destruct (Z.ltb_spec a 0) as [Hn|Hp].
  - apply Z.bits_above_log2_neg; [lia|].
    destruct (Z.eq_dec a (-1)) as [->|Hne]; [cbn; lia|].
    assert (Z.log2 (Z.pred (- a)) < 63); [|lia].
    apply Z.log2_lt_pow2; lia.
  - destruct (Z.eq_dec a 0) as [->|Hne]; [apply Z.bits_0|].
    apply Z.bits_above_log2; [lia|].
    assert (Z.log2 a < 63); [|lia]. apply Z.log2_lt_pow2; lia.
Qed.

Lemma land_bit_zero a i : -9223372036854775808 <= a < 9223372036854775808 -> 0 <= i < 64 ->
  (Z.land a (wrap S64 (Z.shiftl 1 i)) =? 0) = negb (Z.testbit a i).
Proof.
  intros Ha Hi.
  assert (Hs : Z.shiftl 1 i = 2 ^ i) by (rewrite Z.shiftl_1_l; reflexivity).
  rewrite Hs.
  destruct (Z.eq_dec i 63) as [->|Hne].
  - change (wrap S64 (2 ^ 63)) with (-9223372036854775808).
    rewrite (testbit_high a 63 Ha) by lia.
    destruct (Z.ltb_spec a 0) as [Hn|Hp]; cbn [negb].
    + apply Z.eqb_neq. intro H0.
      assert (Hb : Z.testbit (Z.land a (-9223372036854775808)) 63 = false) by (rewrite H0; apply Z.bits_0).
      rewrite Z.land_spec in Hb. rewrite (testbit_high a 63 Ha) in Hb by lia.
      replace (a <? 0) with true in Hb by (symmetry; apply Z.ltb_lt; lia).
      cbn in Hb. discriminate.
    + apply Z.eqb_eq. apply Z.bits_inj'. intros m Hm. rewrite Z.land_spec, Z.bits_0.
      destruct (Z.ltb_spec m 63) as [Hlt|Hge].
      * replace (Z.testbit (-9223372036854775808) m) with false; [apply andb_false_r|].
        symmetry. change (-9223372036854775808) with (- 2 ^ 63).
        rewrite Z.bits_opp by lia. rewrite <- Z.sub_1_r.
        replace (Z.testbit (2 ^ 63 - 1) m) with true; [reflexivity|].
        symmetry. change (2 ^ 63 - 1) with (Z.ones 63). apply Z.ones_spec_low. lia.
      * rewrite (testbit_high a m Ha) by lia.
        replace (a <? 0) with false by (symmetry; apply Z.ltb_ge; lia). reflexivity.
  - assert (Hr : wrap S64 (2 ^ i) = 2 ^ i).
    { apply wrap_S64_id. split; [assert (0 < 2 ^ i) by (apply Z.pow_pos_nonneg; lia); lia|].
      change 9223372036854775808 with (2 ^ 63). apply Z.pow_lt_mono_r; lia. }
    rewrite Hr.
    destruct (Z.testbit a i) eqn:Hb; cbn [negb].
    + apply Z.eqb_neq. intro H0.
      assert (Hc : Z.testbit (Z.land a (2 ^ i)) i = false) by (rewrite H0; apply Z.bits_0).
      rewrite Z.land_spec, Hb, Z.pow2_bits_true in Hc by lia. discriminate.
    + apply Z.eqb_eq. apply Z.bits_inj'. intros m Hm. rewrite Z.land_spec, Z.bits_0.
      rewrite Z.pow2_bits_eqb by lia.
      destruct (Z.eqb_spec i m) as [<-|Hd]; [rewrite Hb; reflexivity|apply andb_false_r].
Qed.

(* when the remainder-based definition of the modular operations is the
   textbook one *)
Lemma plusmod_is_mod a b n : 0 <= a < n -> 0 <= b < n -> a + b < 9223372036854775808 ->
  spec SIntPlusMod [a; b; n] = (a + b) mod n.
Proof.
  intros Ha Hb Hs. change (spec SIntPlusMod [a; b; n]) with (Z.rem (wrap S64 (a + b)) n).
  rewrite wrap_S64_id by lia. rewrite Z.rem_mod_nonneg by lia. reflexivity.
Qed.

Lemma timesmod_is_mod a b n : 0 <= a < n -> 0 <= b < n -> a * b < 9223372036854775808 ->
  spec SIntTimesMod [a; b; n] = (a * b) mod n.
Proof.
  intros Ha Hb Hs. change (spec SIntTimesMod [a; b; n]) with (Z.rem (wrap S64 (a * b)) n).
  assert (0 <= a * b) by (apply Z.mul_nonneg_nonneg; lia).
  rewrite wrap_S64_id by lia. rewrite Z.rem_mod_nonneg by lia. reflexivity.
Qed.

Lemma mod_is_mod a n : 0 <= a -> 0 < n -> spec SIntMod [a; n] = a mod n.
Proof. intros Ha Hn. change (spec SIntMod [a; n]) with (Z.rem a n). apply Z.rem_mod_nonneg; lia. Qed.

(* ranges of the results of bit operations, quotient and remainder *)
Definition srange (z : Z) : Prop := -9223372036854775808 <= z < 9223372036854775808.

Lemma nonneg_small_of_bits z : (forall m, 63 <= m -> Z.testbit z m = false) -> 0 <= z < 2 ^ 63.
Proof.
  intro H. assert (Hn : 0 <= z).
  { destruct (Z.neg_nonneg_cases z) as [Hneg|]; [|assumption].
    destruct (proj1 (Z.bits_iff_neg_ex z) Hneg) as [k Hk].
    specialize (Hk (Z.max (k + 1) 63)). rewrite H in Hk by lia. 
    assert (false = true); [apply Hk; lia|discriminate]. }
  split; [assumption|].
  destruct (Z.eq_dec z 0) as [->|Hz]; [reflexivity|].
  apply Z.log2_lt_pow2; [lia|].
  destruct (Z.lt_ge_cases (Z.log2 z) 63) as [|Hge]; [assumption|].
  pose proof (Z.bit_log2 z ltac:(lia)) as Hb. rewrite H in Hb by lia. discriminate.
Qed.

Lemma srange_of_bits z : (forall m, 63 <= m -> Z.testbit z m = Z.testbit z 63) -> srange z.
Proof.
  intro H. unfold srange. change 9223372036854775808 with (2 ^ 63).
  destruct (Z.testbit z 63) eqn:Hb.
  - assert (K : 0 <= Z.lnot z < 2 ^ 63).
    { apply nonneg_small_of_bits. intros m Hm. rewrite Z.lnot_spec by lia. rewrite H by lia. reflexivity. }
    unfold Z.lnot in K. lia.
  - pose proof (nonneg_small_of_bits z H). lia.
Qed.

Lemma srange_bits z m : srange z -> 63 <= m -> Z.testbit z m = Z.testbit z 63.
Proof. intros Hz Hm. rewrite (testbit_high z m Hz Hm), (testbit_high z 63 Hz); [reflexivity|lia]. Qed.

Lemma land_srange a b : srange a -> srange b -> srange (Z.land a b).
Proof. intros Ha Hb. apply srange_of_bits. intros m Hm. rewrite !Z.land_spec, (srange_bits a m), (srange_bits b m); auto. Qed.
Lemma lor_srange a b : srange a -> srange b -> srange (Z.lor a b).
Proof. intros Ha Hb. apply srange_of_bits. intros m Hm. rewrite !Z.lor_spec, (srange_bits a m), (srange_bits b m); auto. Qed.
Lemma lxor_srange a b : srange a -> srange b -> srange (Z.lxor a b).
Proof. intros Ha Hb. apply srange_of_bits. intros m Hm. rewrite !Z.lxor_spec, (srange_bits a m), (srange_bits b m); auto. Qed.

Lemma shiftr_srange a n : srange a -> 0 <= n -> srange (Z.shiftr a n).
Proof.
  intros Ha Hn. apply srange_of_bits. intros m Hm.
  rewrite !Z.shiftr_spec by lia. rewrite (srange_bits a (m + n)), (srange_bits a (63 + n)); auto; lia.
Qed.

Lemma rem_srange x y : srange x -> y <> 0 -> srange (Z.rem x y).
Proof.
  intros Hx Hy. unfold srange in *.
  pose proof (Z.rem_abs x y Hy) as Ha.
  pose proof (Z.rem_sign_mul x y Hy) as Hs.
  assert (Hle : Z.abs (Z.rem x y) <= Z.abs x).
  { rewrite <- Ha. destruct (Z.eq_dec x 0) as [->|Hx0]; [rewrite Z.rem_0_l by lia; lia|].
    rewrite Z.rem_mod_nonneg by lia.
    destruct (Z.lt_ge_cases (Z.abs x) (Z.abs y)); [rewrite Z.mod_small by lia; lia|].
    pose proof (Z.mod_pos_bound (Z.abs x) (Z.abs y) ltac:(lia)). lia. }
  destruct (Z.eq_dec x (-9223372036854775808)) as [->|Hne]; [|lia].
  lia.
Qed.

Lemma quot_srange x y : srange x -> y <> 0 -> ~ (x = -9223372036854775808 /\ y = -1) -> srange (Z.quot x y).
Proof.
  intros Hx Hy Hn. unfold srange in *.
  destruct (Z.eq_dec y 1) as [->|H1]; [rewrite Z.quot_1_r; lia|].
  destruct (Z.eq_dec y (-1)) as [->|H2].
  { replace (-1) with (- (1)) by reflexivity. rewrite Z.quot_opp_r by lia. rewrite Z.quot_1_r. lia. }
  pose proof (Z.quot_abs x y Hy) as Ha.
  assert (Z.abs x ÷ Z.abs y <= Z.abs x / 2).
  { rewrite Z.quot_div_nonneg by lia. apply Z.div_le_compat_l; lia. }
  assert (Z.abs x / 2 <= 4611686018427387904) by (apply Z.div_le_upper_bound; lia).
  lia.
Qed.

Lemma wrap_srange z : srange (wrap S64 z).
Proof. unfold srange, wrap. lia. Qed.

(* ------------------------------------------------------------------ row tactics *)

Lemma row_ok_none e : sop_of (rname e) = None -> row_ok e.
Proof. unfold row_ok. intros ->. exact I. Qed.

Lemma row_ok_some e o : sop_of (rname e) = Some o -> row_meets o e -> row_ok e.
Proof. unfold row_ok. intros ->. exact (fun H => H). Qed.

Ltac inv_typed H :=
  repeat match type of H with
  | typed _ _ => unfold typed in H
  | Forall2 _ [] _ => inversion H; subst; clear H
  | Forall2 _ (_ :: _) _ =>
      let z := fresh "z" in let l := fresh "l" in let Hz := fresh "Hz" in let Hl := fresh "Hl" in
      inversion H as [|? z ? l Hz Hl]; subst; clear H; rename Hl into H; cbn [in_ty] in Hz
  end.

(* unfold the evaluator on a concrete expression, leaving Z and bool operations *)
(* string-keyed lookups (limits.h constants, libc functions) on literal names *)
Ltac closed_str :=
  repeat match goal with
  | |- context [glob_info ?s] => let v := eval vm_compute in (glob_info s) in change (glob_info s) with v
  | |- context [libfn_of ?s] => let v := eval vm_compute in (libfn_of s) in change (libfn_of s) with v
  end.

Ltac cev1 :=
  cbv [sem defd declines ev ty_of conv cty_eqb promote join is_int is_cmp is_shift cmp_ev arith_ev
       in_range tmin tmax width is_signed nth List.length Nat.ltb Nat.leb libfn_ev
       spec in_dom a0 a1 a2 a3 wbase red div_ok smin smax].

Ltac cev := cev1; closed_str; cev1.

Ltac cev_in H :=
  cbv [in_dom a0 a1 a2 a3 red div_ok smin smax nth] in H.

Ltac is_zlit a := lazymatch a with Zpos _ => idtac | Zneg _ => idtac | Z0 => idtac end.

(* comparisons of two numerals *)
Ltac closed_cmp :=
  repeat match goal with
  | |- context [?a <=? ?b] => is_zlit a; is_zlit b;
      let v := eval vm_compute in (a <=? b) in change (a <=? b) with v
  | |- context [?a <? ?b] => is_zlit a; is_zlit b;
      let v := eval vm_compute in (a <? b) in change (a <? b) with v
  | |- context [?a =? ?b] => is_zlit a; is_zlit b;
      let v := eval vm_compute in (a =? b) in change (a =? b) with v
  | |- context [wrap ?t ?a] => is_zlit a;
      let v := eval vm_compute in (wrap t a) in change (wrap t a) with v
  end.

Ltac case_cmp :=
  repeat match goal with
  | |- context [?x =? ?y] => destruct (Z.eqb_spec x y)
  | |- context [?x <? ?y] => destruct (Z.ltb_spec x y)
  | |- context [?x <=? ?y] => destruct (Z.leb_spec x y)
  end.

Ltac bit_norm :=
  repeat first
    [ rewrite land_1_mod2 | rewrite even_mod2 | rewrite odd_mod2 | rewrite rem2_zero ].

Ltac srange_solve := first [ apply wrap_srange | unfold srange, wrap; lia ].

(* drop the reduction around results that are in range anyway *)
Ltac range_rw :=
  repeat match goal with
  | |- context [wrap S64 (Z.land ?a ?b)] =>
      rewrite (wrap_S64_id (Z.land a b)) by (apply land_srange; srange_solve)
  | |- context [wrap S64 (Z.lor ?a ?b)] =>
      rewrite (wrap_S64_id (Z.lor a b)) by (apply lor_srange; srange_solve)
  | |- context [wrap S64 (Z.lxor ?a ?b)] =>
      rewrite (wrap_S64_id (Z.lxor a b)) by (apply lxor_srange; srange_solve)
  | |- context [wrap S64 (Z.rem ?a ?b)] =>
      rewrite (wrap_S64_id (Z.rem a b)) by (apply rem_srange; [srange_solve | unfold wrap in *; lia])
  | |- context [wrap S64 (Z.quot ?a ?b)] =>
      rewrite (wrap_S64_id (Z.quot a b)) by (apply quot_srange; [srange_solve | unfold wrap in *; lia | unfold wrap in *; lia])
  end.

(* ------------------------------------------------------------------ double-word arithmetic *)

Lemma land_lo32 x : Z.land x 4294967295 = x mod 4294967296.
Proof. change 4294967295 with (Z.ones 32). rewrite Z.land_ones by lia. reflexivity. Qed.
Lemma shr32 x : Z.shiftr x 32 = x / 4294967296.
Proof. rewrite Z.shiftr_div_pow2 by lia. reflexivity. Qed.
Lemma shl32 x : Z.shiftl x 32 = x * 4294967296.
Proof. rewrite Z.shiftl_mul_pow2 by lia. reflexivity. Qed.
Lemma wrap_U64_id z : 0 <= z < 18446744073709551616 -> wrap U64 z = z.
Proof. intro H. unfold wrap. apply Z.mod_small. lia. Qed.

Ltac drop_wraps :=
  repeat match goal with
  | |- context [wrap U64 ?x] => rewrite (wrap_U64_id x) by lia
  end.

(* schoolbook product of two words from their 32-bit halves (dword.c:xxTimesDouble):
   name the halves and the four partial products, bound them, state the product identity;
   what is left is linear arithmetic with div/mod by constants and carry comparisons *)
Ltac solve_dword a b :=
  rewrite ?land_lo32, ?shr32, ?shl32;
  pose proof (Z.mod_pos_bound a 4294967296 ltac:(lia));
  pose proof (Z.mod_pos_bound b 4294967296 ltac:(lia));
  assert (0 <= a / 4294967296 < 4294967296) by (split; [apply Z.div_pos; lia | apply Z.div_lt_upper_bound; lia]);
  assert (0 <= b / 4294967296 < 4294967296) by (split; [apply Z.div_pos; lia | apply Z.div_lt_upper_bound; lia]);
  let Ea := fresh "Ea" in let Eb := fresh "Eb" in
  pose proof (Z.div_mod a 4294967296 ltac:(lia)) as Ea;
  pose proof (Z.div_mod b 4294967296 ltac:(lia)) as Eb;
  let Al := fresh "Al" in let Ah := fresh "Ah" in let Bl := fresh "Bl" in let Bh := fresh "Bh" in
  set (Al := a mod 4294967296) in *; set (Ah := a / 4294967296) in *;
  set (Bl := b mod 4294967296) in *; set (Bh := b / 4294967296) in *;
  assert (0 <= Al * Bl <= 4294967295 * 4294967295) by nia;
  assert (0 <= Al * Bh <= 4294967295 * 4294967295) by nia;
  assert (0 <= Ah * Bl <= 4294967295 * 4294967295) by nia;
  assert (0 <= Ah * Bh <= 4294967295 * 4294967295) by nia;
  let Hp := fresh "Hp" in
  assert (Hp : a * b = Ah * Bh * 18446744073709551616 + (Al * Bh + Ah * Bl) * 4294967296 + Al * Bl) by nia;
  rewrite Hp; clear Hp Ea Eb;
  let p1 := fresh "p1" in let p2 := fresh "p2" in let p3 := fresh "p3" in let p4 := fresh "p4" in
  repeat (drop_wraps;
          try set (p1 := Ah * Bh) in *; try set (p2 := Al * Bh) in *;
          try set (p3 := Ah * Bl) in *; try set (p4 := Al * Bl) in * );
  clearbody p1 p2 p3 p4;
  unfold wrap; lia.

Ltac solve_dword_goal :=
  lazymatch goal with
  | |- _ = (?a * ?b) / _ => solve_dword a b
  | |- _ = (?a * ?b) mod _ => solve_dword a b
  | |- _ = (?a * ?b + _ + _) / _ => solve_dword a b
  | |- _ = (?a * ?b + _ + _) mod _ => solve_dword a b
  end.

Ltac solve_val :=
  first
    [ reflexivity
    | solve [timeout 300 solve_dword_goal]
    | solve [range_rw; reflexivity]
    | solve [range_rw; rewrite land_bit_zero by lia;
             match goal with |- context [Z.testbit ?a ?b] => destruct (Z.testbit a b) end; reflexivity]
    | solve [unfold wrap; lia]
    | solve [bit_norm; unfold wrap; case_cmp; cbn [Z.b2z negb andb orb]; lia]
    | solve [unfold wrap, Z.lnot; case_cmp; cbn [Z.b2z negb andb orb]; lia]
    | solve [rewrite !wrap_S64_id by lia; reflexivity] ].

Ltac solve_sym :=
  split; [vm_compute; reflexivity|];
  let args := fresh "args" in let Ht := fresh "Ht" in let Hd := fresh "Hd" in
  intros args Ht Hd; cbn [rargs rexp] in *; inv_typed Ht; cev_in Hd; cev; closed_cmp;
  cbn [andb orb negb];
  match goal with
  | |- (if ?c then _ else _) = _ => replace c with true by (symmetry; unfold wrap in *; lia)
  end;
  f_equal; solve_val.

Ltac vm_decide := lazymatch goal with |- ?x = true => vm_cast_no_check (eq_refl true) end.

(* symbolic proof over Z first (any operand types); if that does not close and
   all operand types are finite, the exhaustive check *)
Ltac solve_meets :=
  first
    [ solve [timeout 400 solve_sym]
    | apply finite_row_meets; [vm_compute; reflexivity | vm_compute; reflexivity | vm_compute; reflexivity] ].

Ltac in_list := cbn [In]; repeat first [left; reflexivity | right]; fail.

Ltac solve_row_ok :=
  first
    [ apply row_ok_none; vm_compute; reflexivity
    | eapply row_ok_some; [vm_compute; reflexivity | solve_meets] ].

Ltac row_failed :=
  lazymatch goal with
  | |- In (rname ?e) _ \/ _ =>
      let n := eval cbv in (rname e) in fail 1000 "ROW-FAILED" n
  end.

(* one row of a run-time table / of the folder table *)
Ltac solve_rt_row := first [ left; solve [in_list] | right; solve [solve_row_ok] | row_failed ].
Ltac solve_fold_row :=
  first [ left; solve [in_list] | right; left; reflexivity | right; right; solve [solve_row_ok] | row_failed ].

Ltac walk solve_one := repeat (apply Forall_cons; [solve_one|]); apply Forall_nil.

(* rows of builtins outside the specified class satisfy row_ok by definition:
   only the others have to be walked *)
Definition specd (e : row) : bool :=
  match sop_of (rname e) with Some _ => true | None => false end.

Lemma meets_spec_filter bad tbl :
  Forall (fun e => In (rname e) bad \/ row_ok e) (filter specd tbl) -> meets_spec bad tbl.
Proof.
  intro H. unfold meets_spec. rewrite Forall_forall in *. intros e He.
  destruct (specd e) eqn:Hs.
  - apply H. apply filter_In. split; assumption.
  - right. apply row_ok_none. unfold specd in Hs. destruct (sop_of (rname e)); [discriminate|reflexivity].
Qed.

Lemma folds_to_spec_filter bad tbl :
  Forall (fun e => In (rname e) bad \/ rexp e = Declined \/ row_ok e) (filter specd tbl) ->
  folds_to_spec bad tbl.
Proof.
  intro H. unfold folds_to_spec. rewrite Forall_forall in *. intros e He.
  destruct (specd e) eqn:Hs.
  - apply H. apply filter_In. split; assumption.
  - right. right. apply row_ok_none. unfold specd in Hs. destruct (sop_of (rname e)); [discriminate|reflexivity].
Qed.

Lemma fold_fault_free_filter bad tbl :
  Forall (fun e => In (rname e) bad \/
                   match sop_of (rname e) with
                   | Some o => may_fault o = true -> row_guarded o e
                   | None => True
                   end) (filter specd tbl) -> fold_fault_free bad tbl.
Proof.
  intro H. unfold fold_fault_free. rewrite Forall_forall in *. intros e He.
  destruct (specd e) eqn:Hs.
  - apply H. apply filter_In. split; assumption.
  - right. unfold specd in Hs. destruct (sop_of (rname e)); [discriminate|exact I].
Qed.

Ltac solve_guarded :=
  let args := fresh "args" in let Ht := fresh "Ht" in let Hd := fresh "Hd" in
  intros args Ht Hd; cbn [rargs rexp] in *; inv_typed Ht; cev_in Hd;
  cev; closed_cmp; cbn [andb orb negb]; unfold wrap in *; lia.

Ltac solve_fault_row :=
  first
    [ left; solve [in_list]
    | right;
      lazymatch goal with
      | |- match sop_of ?n with _ => _ end =>
          let s := eval vm_compute in (sop_of n) in
          change (sop_of n) with s; cbv beta iota;
          first [ let H := fresh in intro H; vm_compute in H; discriminate H
                | let H := fresh in intro H; clear H; first [ reflexivity | solve [solve_guarded] ] ]
      end
    | row_failed ].

Ltac walk_filtered lem solve_one :=
  apply lem;
  lazymatch goal with
  | |- Forall ?P (filter specd ?t) =>
      let l := eval vm_compute in (filter specd t) in
      change (Forall P l); walk solve_one
  end.

(* ------------------------------------------------------------------ same-operation class *)

(* the outermost conversion stores the value into the evaluator's own result
   slot (AInt node data, union field, C temporary of the FOAM type) *)
Definition core (e : cexp) : cexp :=
  match strip e with
  | Cast t a => a
  | x => x
  end.

Fixpoint has_opaque (e : cexp) : bool :=
  match e with
  | Opaque _ => true
  | Cast _ a | Un _ a => has_opaque a
  | Bin _ a b | ACons a b | Guard a b => has_opaque a || has_opaque b
  | Cond a b c => has_opaque a || has_opaque b || has_opaque c
  | Call _ a => has_opaque a
  | _ => false
  end.

Definition is_declined (e : cexp) : bool := match e with Declined => true | _ => false end.

(* the folder row under a (possible) guard *)
Definition unguard (e : cexp) : cexp := match e with Guard _ a => a | _ => e end.

(* float-friendly normal form, for the same-operation comparison only.  The constants 0 and 1
   convert exactly between every arithmetic type, so a (cast of a) literal 0 / 1 / 0.0 / 1.0 is one
   constant whatever its spelling;  `x ? 0 : 1`  is  `x == 0`  for a float x (NaN included: both 0);
   `cmp ? 1 : 0` is `cmp`;  comparing a float with the int 0 is comparing it with 0.0 *)
Definition is_float (t : cty) : bool := match t with F32 | F64 => true | _ => false end.

Fixpoint lit01 (e : cexp) : option Z :=
  match e with
  | Lit z _ => if (z =? 0) || (z =? 1) then Some z else None
  | FLit s _ => if String.eqb s "0.0" then Some 0%Z else if String.eqb s "1.0" then Some 1%Z else None
  | Cast _ a => lit01 a
  | _ => None
  end.

Definition FZ : cexp := FLit "0.0" F64.
Definition FONE : cexp := FLit "1.0" F64.

Definition cmp_headed (e : cexp) : bool :=
  match e with Bin o _ _ => is_cmp o | Un LNot _ => true | _ => false end.

Fixpoint fnorm (e : cexp) : cexp :=
  match lit01 e with
  | Some z => if z =? 0 then FZ else FONE
  | None =>
      match e with
      | Cond c a b =>
          match lit01 a, lit01 b with
          | Some 0%Z, Some 1%Z => if is_float (ty_of c) then Bin Eq (fnorm c) FZ else e
          | Some 1%Z, Some 0%Z => if cmp_headed c then fnorm c else e
          | _, _ => e
          end
      | Bin o a b =>
          if is_cmp o && is_float (ty_of a) then Bin o (fnorm a) (fnorm b) else e
      | _ => e
      end
  end.

Definition same_core (a b : cexp) : bool := cexp_eqb (fnorm (core a)) (fnorm (core b)).

(* rows of builtin n: the row named n, or its components "n#k" when it has several results *)
Definition is_row_of (n : string) (r : row) : bool :=
  String.eqb (rname r) n || String.prefix (n ++ "#") (rname r).

Definition rows_of (n : string) (t : list row) : list row := filter (is_row_of n) t.

(* the interpreter has translated row(s) for the builtin; every row of the same name in the
   generated-C table and every folding row of the folder has the same core, and the
   generated-C table has no further row of the builtin *)
Definition sameop_check (cf fi gc : list row) (n : string) : bool :=
  let fr := rows_of n fi in
  negb (Nat.eqb (List.length fr) 0)
  && forallb (fun r =>
        negb (has_opaque (rexp r))
        && Nat.eqb (List.length (lookup_all (rname r) fi)) 1
        && negb (Nat.eqb (List.length (lookup_all (rname r) gc)) 0)
        && forallb (fun g => same_core (rexp g) (rexp r)) (lookup_all (rname r) gc)
        && forallb (fun c => is_declined (rexp c) || same_core (unguard (rexp c)) (rexp r))
                   (lookup_all (rname r) cf)) fr
  && forallb (fun g => existsb (fun r => String.eqb (rname r) (rname g)) fr) (rows_of n gc).

(* ------------------------------------------------------------------ coverage *)

Definition memb (n : string) (l : list string) : bool := existsb (String.eqb n) l.

Lemma memb_In n l : memb n l = true <-> In n l.
Proof.
  unfold memb. rewrite existsb_exists. split.
  - intros [x [Hx He]]. apply String.eqb_eq in He. subst. assumption.
  - intro H. exists n. split; [assumption|apply String.eqb_refl].
Qed.

Definition exactly_one (A B C : Prop) : Prop :=
  (A /\ ~ B /\ ~ C) \/ (~ A /\ B /\ ~ C) \/ (~ A /\ ~ B /\ C).

(* the three classes: specified and proved / same operation / excluded by name *)
Definition comp0 (n : string) : string := (n ++ "#0")%string.
(* specified directly, or a multi-result builtin whose components "n#k" are specified *)
Definition spec_class_b (n : string) : bool :=
  match sop_of n, sop_of (comp0 n) with None, None => false | _, _ => true end.
Definition in_spec_class (n : string) : Prop := sop_of n <> None \/ sop_of (comp0 n) <> None.
Definition in_sameop_class (n : string) : Prop := In n sameop_names.
Definition in_excluded_class (n : string) : Prop := assoc n excluded <> None.

Definition one_class (n : string) : bool :=
  match spec_class_b n, memb n sameop_names, assoc n excluded with
  | true, false, None => true
  | false, true, None => true
  | false, false, Some _ => true
  | _, _, _ => false
  end.

Lemma spec_class_b_spec n : spec_class_b n = true <-> in_spec_class n.
Proof.
  unfold spec_class_b, in_spec_class. destruct (sop_of n); destruct (sop_of (comp0 n)); split; intro H;
    try reflexivity; try discriminate; try (left; congruence); try (right; congruence).
  destruct H as [H|H]; congruence.
Qed.

Lemma one_class_spec n : one_class n = true ->
  exactly_one (in_spec_class n) (in_sameop_class n) (in_excluded_class n).
Proof.
  unfold one_class, exactly_one, in_sameop_class, in_excluded_class.
  pose proof (spec_class_b_spec n) as Hs.
  destruct (spec_class_b n); destruct (memb n sameop_names) eqn:Hm; destruct (assoc n excluded);
    intro H; try discriminate.
  - left. repeat split; try congruence; [apply Hs; reflexivity|]. intro K. apply memb_In in K. congruence.
  - right. left. repeat split; try congruence; [intro K; apply Hs in K; discriminate|]. apply memb_In. assumption.
  - right. right. repeat split; try congruence; [intro K; apply Hs in K; discriminate|].
    intro K. apply memb_In in K. congruence.
Qed.

Lemma Forall_of_forallb {A} (f : A -> bool) (P : A -> Prop) l :
  (forall x, f x = true -> P x) -> forallb f l = true -> Forall P l.
Proof.
  intros H Hf. rewrite forallb_forall in Hf. apply Forall_forall. intros x Hx. apply H, Hf, Hx.
Qed.

Definition coverage (sig : list sigrow) (enum : list string) : Prop :=
  Forall (fun s => exactly_one (in_spec_class (sname s)) (in_sameop_class (sname s))
                               (in_excluded_class (sname s))) sig
  /\ Forall (fun n => In n (map sname sig)) enum          (* every enumerator of foam.h has a table row *)
  /\ List.length enum = List.length sig.

Definition coverage_b (sig : list sigrow) (enum : list string) : bool :=
  forallb (fun s => one_class (sname s)) sig
  && forallb (fun n => memb n (map sname sig)) enum
  && Nat.eqb (List.length enum) (List.length sig).

Lemma coverage_of_b sig enum : coverage_b sig enum = true -> coverage sig enum.
Proof.
  unfold coverage_b, coverage. intro H.
  apply andb_true_iff in H as [H H3]. apply andb_true_iff in H as [H1 H2].
  repeat split.
  - eapply Forall_of_forallb; [|exact H1]. intros s Hs. apply one_class_spec. exact Hs.
  - eapply Forall_of_forallb; [|exact H2]. intros n Hn. apply memb_In. exact Hn.
  - apply Nat.eqb_eq. exact H3.
Qed.

Fixpoint sig_lookup (n : string) (l : list sigrow) : option sigrow :=
  match l with
  | [] => None
  | s :: t => if String.eqb (sname s) n then Some s else sig_lookup n t
  end.

(* a specified builtin is really there: it has the expected signature in
   foamBValInfoTable and a row in both run-time tables (so the per-table
   theorems do not hold vacuously for it) *)
Definition present (sig : list sigrow) (fi gc : list row) (n : string) (o : sop) : Prop :=
  (exists s, sig_lookup n sig = Some s /\ sargs s = fst (sop_sig o) /\ sret s = snd (sop_sig o))
  /\ lookup n fi <> None /\ lookup n gc <> None.

Definition present_b (sig : list sigrow) (fi gc : list row) (n : string) (o : sop) : bool :=
  match sig_lookup n sig with
  | Some s => ftys_eqb (sargs s) (fst (sop_sig o)) && fty_eqb (sret s) (snd (sop_sig o))
  | None => false
  end
  && match lookup n fi with Some _ => true | None => false end
  && match lookup n gc with Some _ => true | None => false end.

Lemma present_of_b sig fi gc n o : present_b sig fi gc n o = true -> present sig fi gc n o.
Proof.
  unfold present_b, present. intro H.
  apply andb_true_iff in H as [H H3]. apply andb_true_iff in H as [H1 H2].
  destruct (sig_lookup n sig) as [s|]; [|discriminate].
  apply andb_true_iff in H1 as [Ha Hr]. apply ftys_eqb_eq in Ha. apply fty_eqb_eq in Hr.
  repeat split.
  - exists s. auto.
  - destruct (lookup n fi); [congruence|discriminate].
  - destruct (lookup n gc); [congruence|discriminate].
Qed.

(* ------------------------------------------------------------------ consequences *)

Lemma lookup_all_In n t r : In r (lookup_all n t) -> In r t /\ rname r = n.
Proof.
  induction t as [|x t IH]; cbn; [tauto|].
  destruct (String.eqb (rname x) n) eqn:E.
  - intros [->|H]; [split; [left; reflexivity|apply String.eqb_eq; assumption]|].
    destruct (IH H). split; [right|]; assumption.
  - intro H. destruct (IH H). split; [right|]; assumption.
Qed.

Lemma row_meets_use e o args :
  row_ok e -> sop_of (rname e) = Some o -> typed (fst (sop_sig o)) args -> in_dom o args = true ->
  sem args (rexp e) = Some (spec o args).
Proof.
  unfold row_ok. intros H Ho Ht Hd. rewrite Ho in H. destruct H as [Hs H].
  apply H; [|assumption].
  unfold row_sig_ok in Hs. apply andb_true_iff in Hs as [Hs _]. apply andb_true_iff in Hs as [Hs _].
  apply ftys_eqb_eq in Hs. rewrite Hs. assumption.
Qed.

Section Agree.
  Variables (badc badi badg : list string) (cf fi gc : list row).
  Hypothesis Hc : folds_to_spec badc cf.
  Hypothesis Hi : meets_spec badi fi.
  Hypothesis Hg : meets_spec badg gc.

  (* the lemma C02's Fold proof uses: a folding row of the folder computes the
     specified value *)
  Lemma cfold_row_spec e o args :
    In e cf -> ~ In (rname e) badc -> rexp e <> Declined -> sop_of (rname e) = Some o ->
    typed (fst (sop_sig o)) args -> in_dom o args = true ->
    sem args (rexp e) = Some (spec o args).
  Proof.
    intros He Hb Hn Ho Ht Hd. unfold folds_to_spec in Hc. rewrite Forall_forall in Hc.
    destruct (Hc e He) as [K|[K|K]]; [contradiction|contradiction|].
    eapply row_meets_use; eassumption.
  Qed.

  Lemma rt_row_spec bad t e o args :
    meets_spec bad t -> In e t -> ~ In (rname e) bad -> sop_of (rname e) = Some o ->
    typed (fst (sop_sig o)) args -> in_dom o args = true ->
    sem args (rexp e) = Some (spec o args).
  Proof.
    intros H He Hb Ho Ht Hd. unfold meets_spec in H. rewrite Forall_forall in H.
    destruct (H e He) as [K|K]; [contradiction|].
    eapply row_meets_use; eassumption.
  Qed.

  (* folder, interpreter and generated C agree with each other and with the
     mathematical definition, on every builtin of the specified class, for ALL
     well-typed operands in the domain *)
  Lemma three_agree_gen n o ec ei eg args :
    sop_of n = Some o ->
    In ec cf -> rname ec = n -> rexp ec <> Declined -> ~ In n badc ->
    In ei fi -> rname ei = n -> ~ In n badi ->
    In eg gc -> rname eg = n -> ~ In n badg ->
    typed (fst (sop_sig o)) args -> in_dom o args = true ->
    sem args (rexp ec) = Some (spec o args) /\
    sem args (rexp ei) = Some (spec o args) /\
    sem args (rexp eg) = Some (spec o args).
  Proof.
    intros Ho Hec Hnc Hdc Hbc Hei Hni Hbi Heg Hng Hbg Ht Hd. subst n.
    split; [|split].
    - apply cfold_row_spec; auto.
    - apply (rt_row_spec badi fi); auto; rewrite Hni; assumption.
    - apply (rt_row_spec badg gc); auto; rewrite Hng; assumption.
  Qed.

  Lemma interp_c_agree_gen n o ei eg args :
    sop_of n = Some o ->
    In ei fi -> rname ei = n -> ~ In n badi ->
    In eg gc -> rname eg = n -> ~ In n badg ->
    typed (fst (sop_sig o)) args -> in_dom o args = true ->
    sem args (rexp ei) = sem args (rexp eg).
  Proof.
    intros Ho Hei Hni Hbi Heg Hng Hbg Ht Hd.
    transitivity (Some (spec o args)); [|symmetry].
    - apply (rt_row_spec badi fi); auto; rewrite Hni; assumption.
    - apply (rt_row_spec badg gc); auto; rewrite Hng; assumption.
  Qed.
End Agree.
