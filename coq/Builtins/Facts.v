(* Facts.v — lemmas and proof tactics for property C04 (hand-written). *)
Require Import ZArith List String Bool Lia ZifyBool.
Require Import AV.Builtins.CInt AV.Builtins.Spec.
Import ListNotations.
Local Open Scope Z_scope.

Ltac Zify.zify_post_hook ::= Z.to_euclidean_division_equations.

(* ------------------------------------------------------------------ statements *)

Fixpoint ftys_eqb (a b : list fty) : bool :=
  match a, b with
  | [], [] => true
  | x :: a', y :: b' => fty_eqb x y && ftys_eqb a' b'
  | _, _ => false
  end.

Lemma ftys_eqb_eq a b : ftys_eqb a b = true -> a = b.
Proof.
  revert b; induction a as [|x a IH]; intros [|y b] H; cbn in H; try discriminate; auto.
  apply andb_true_iff in H as [H1 H2]. apply fty_eqb_eq in H1. f_equal; auto.
Qed.

(* the row is about operation o with the signature the specification expects,
   and the evaluator says it produces the result type of the signature *)
Definition row_sig_ok (o : sop) (e : row) : bool :=
  ftys_eqb (rargs e) (fst (sop_sig o)) && fty_eqb (rret e) (snd (sop_sig o))
  && fty_eqb (rres e) (rret e).

(* THE per-row obligation: on every well-typed operand tuple in the domain the
   embedded C expression is defined and yields the mathematical value *)
Definition row_meets (o : sop) (e : row) : Prop :=
  row_sig_ok o e = true /\
  forall args, typed (rargs e) args -> in_dom o args = true ->
               sem args (rexp e) = Some (spec o args).

Definition row_ok (e : row) : Prop :=
  match sop_of (rname e) with
  | None => True                      (* not in the specified class: see coverage_complete *)
  | Some o => row_meets o e
  end.

(* tables of the two run times: every row of a specified builtin meets the spec,
   except rows named in known_findings.json *)
Definition meets_spec (bad : list string) (tbl : list row) : Prop :=
  Forall (fun e => In (rname e) bad \/ row_ok e) tbl.

(* table of the folder: a row either declines (the call is left in place and
   evaluated later by one of the run times) or meets the spec *)
Definition folds_to_spec (bad : list string) (tbl : list row) : Prop :=
  Forall (fun e => In (rname e) bad \/ rexp e = Declined \/ row_ok e) tbl.

(* ------------------------------------------------------------------ finite domains *)

Fixpoint zrange (lo : Z) (n : nat) : list Z :=
  match n with O => [] | S k => lo :: zrange (lo + 1) k end.

Lemma zrange_in n : forall lo z, lo <= z < lo + Z.of_nat n -> In z (zrange lo n).
Proof.
  induction n as [|n IH]; intros lo z H; cbn [zrange].
  - lia.
  - destruct (Z.eq_dec z lo) as [->|Hne]; [left; reflexivity|right].
    apply IH. lia.
Qed.

Definition finite_ty (t : fty) : bool :=
  match t with FBool | FChar | FByte | FHInt => true | _ => false end.

Definition enum_ty (t : fty) : list Z :=
  match t with
  | FBool => [0; 1]
  | FChar | FByte => zrange 0 (Z.to_nat 256)
  | FHInt => zrange (-32768) (Z.to_nat 65536)
  | _ => []
  end.

Lemma enum_complete t z : finite_ty t = true -> in_ty t z -> In z (enum_ty t).
Proof.
  destruct t; cbn [finite_ty in_ty enum_ty]; intros Hf H; try discriminate.
  - destruct H as [->| ->]; cbn; auto.
  - apply zrange_in. lia.
  - apply zrange_in. lia.
  - apply zrange_in. lia.
Qed.

Fixpoint all_args (tys : list fty) : list (list Z) :=
  match tys with
  | [] => [[]]
  | t :: r => flat_map (fun z => map (cons z) (all_args r)) (enum_ty t)
  end.

Lemma all_args_complete tys args :
  forallb finite_ty tys = true -> typed tys args -> In args (all_args tys).
Proof.
  intros Hf Ht. induction Ht as [|t z tys args Hz Ht IH]; cbn [all_args].
  - left; reflexivity.
  - cbn in Hf. apply andb_true_iff in Hf as [Hf1 Hf2].
    apply in_flat_map. exists z. split.
    + apply enum_complete; assumption.
    + apply in_map. apply IH. assumption.
Qed.

Definition opt_is (x : option Z) (y : Z) : bool :=
  match x with Some v => v =? y | None => false end.

Lemma opt_is_eq x y : opt_is x y = true -> x = Some y.
Proof. destruct x as [v|]; cbn; intro H; [apply Z.eqb_eq in H; congruence|discriminate]. Qed.

(* exhaustive check of one row over ALL well-typed operand tuples
   (Bool: 2, Char/Byte: 256, HInt: 65536 values per operand) *)
Definition check_finite (o : sop) (e : row) : bool :=
  forallb (fun args => implb (in_dom o args) (opt_is (sem args (rexp e)) (spec o args)))
          (all_args (rargs e)).

Lemma finite_row_meets o e :
  row_sig_ok o e = true -> forallb finite_ty (rargs e) = true -> check_finite o e = true ->
  row_meets o e.
Proof.
  intros Hs Hf Hc. split; [assumption|].
  intros args Ht Hd. unfold check_finite in Hc. rewrite forallb_forall in Hc.
  specialize (Hc args (all_args_complete _ _ Hf Ht)). rewrite Hd in Hc. cbn in Hc.
  apply opt_is_eq. assumption.
Qed.

(* ------------------------------------------------------------------ integer lemmas *)

Lemma wrap_S64_id z : -9223372036854775808 <= z < 9223372036854775808 -> wrap S64 z = z.
Proof. intro H. unfold wrap. lia. Qed.

Lemma land_1_mod2 a : Z.land a 1 = a mod 2.
Proof. change 1 with (Z.ones 1). rewrite Z.land_ones by lia. reflexivity. Qed.

Lemma even_mod2 a : Z.even a = (a mod 2 =? 0).
Proof. rewrite Zmod_even. destruct (Z.even a); reflexivity. Qed.

Lemma odd_mod2 a : Z.odd a = negb (a mod 2 =? 0).
Proof. rewrite Zmod_odd. destruct (Z.odd a); reflexivity. Qed.

Lemma rem2_zero a : (Z.rem a 2 =? 0) = (a mod 2 =? 0).
Proof.
  destruct (Z.eqb_spec (Z.rem a 2) 0) as [H|H]; destruct (Z.eqb_spec (a mod 2) 0) as [K|K];
    try reflexivity; exfalso; lia.
Qed.

(* bit i of a 64-bit two's complement value, written  n & (1L << i)  *)
Lemma testbit_high a m : -9223372036854775808 <= a < 9223372036854775808 -> 63 <= m ->
  Z.testbit a m = (a <? 0).
Proof.
  intros Ha Hm. destruct (Z.ltb_spec a 0) as [Hn|Hp].
  - apply Z.bits_above_log2_neg; [lia|].
    destruct (Z.eq_dec a (-1)) as [->|Hne]; [cbn; lia|].
    assert (Z.log2 (Z.pred (- a)) < 63); [|lia].
    apply Z.log2_lt_pow2; lia.
  - destruct (Z.eq_dec a 0) as [->|Hne]; [apply Z.bits_0|].
    apply Z.bits_above_log2; [lia|].
    assert (Z.log2 a < 63); [|lia]. apply Z.log2_lt_pow2; lia.
Qed.

Lemma land_bit_zero a i : -9223372036854775808 <= a < 9223372036854775808 -> 0 <= i < 64 ->
  (Z.land a (wrap S64 (Z.shiftl 1 i)) =? 0) = negb (Z.testbit a i).
Proof.
  intros Ha Hi.
  assert (Hs : Z.shiftl 1 i = 2 ^ i) by (rewrite Z.shiftl_1_l; reflexivity).
  rewrite Hs.
  destruct (Z.eq_dec i 63) as [->|Hne].
  - change (wrap S64 (2 ^ 63)) with (-9223372036854775808).
    rewrite (testbit_high a 63 Ha) by lia.
    destruct (Z.ltb_spec a 0) as [Hn|Hp]; cbn [negb].
    + apply Z.eqb_neq. intro H0.
      assert (Hb : Z.testbit (Z.land a (-9223372036854775808)) 63 = false) by (rewrite H0; apply Z.bits_0).
      rewrite Z.land_spec in Hb. rewrite (testbit_high a 63 Ha) in Hb by lia.
      replace (a <? 0) with true in Hb by (symmetry; apply Z.ltb_lt; lia).
      cbn in Hb. discriminate.
    + apply Z.eqb_eq. apply Z.bits_inj'. intros m Hm. rewrite Z.land_spec, Z.bits_0.
      destruct (Z.ltb_spec m 63) as [Hlt|Hge].
      * replace (Z.testbit (-9223372036854775808) m) with false; [apply andb_false_r|].
        symmetry. change (-9223372036854775808) with (- 2 ^ 63).
        rewrite Z.bits_opp by lia. rewrite <- Z.sub_1_r.
        replace (Z.testbit (2 ^ 63 - 1) m) with true; [reflexivity|].
        symmetry. change (2 ^ 63 - 1) with (Z.ones 63). apply Z.ones_spec_low. lia.
      * rewrite (testbit_high a m Ha) by lia.
        replace (a <? 0) with false by (symmetry; apply Z.ltb_ge; lia). reflexivity.
  - assert (Hr : wrap S64 (2 ^ i) = 2 ^ i).
    { apply wrap_S64_id. split; [assert (0 < 2 ^ i) by (apply Z.pow_pos_nonneg; lia); lia|].
      change 9223372036854775808 with (2 ^ 63). apply Z.pow_lt_mono_r; lia. }
    rewrite Hr.
    destruct (Z.testbit a i) eqn:Hb; cbn [negb].
    + apply Z.eqb_neq. intro H0.
      assert (Hc : Z.testbit (Z.land a (2 ^ i)) i = false) by (rewrite H0; apply Z.bits_0).
      rewrite Z.land_spec, Hb, Z.pow2_bits_true in Hc by lia. discriminate.
    + apply Z.eqb_eq. apply Z.bits_inj'. intros m Hm. rewrite Z.land_spec, Z.bits_0.
      rewrite Z.pow2_bits_eqb by lia.
      destruct (Z.eqb_spec i m) as [<-|Hd]; [rewrite Hb; reflexivity|apply andb_false_r].
Qed.

(* when the remainder-based definition of the modular operations is the
   textbook one *)
Lemma plusmod_is_mod a b n : 0 <= a < n -> 0 <= b < n -> a + b < 9223372036854775808 ->
  spec SIntPlusMod [a; b; n] = (a + b) mod n.
Proof.
  intros Ha Hb Hs. change (spec SIntPlusMod [a; b; n]) with (Z.rem (wrap S64 (a + b)) n).
  rewrite wrap_S64_id by lia. rewrite Z.rem_mod_nonneg by lia. reflexivity.
Qed.

Lemma timesmod_is_mod a b n : 0 <= a < n -> 0 <= b < n -> a * b < 9223372036854775808 ->
  spec SIntTimesMod [a; b; n] = (a * b) mod n.
Proof.
  intros Ha Hb Hs. change (spec SIntTimesMod [a; b; n]) with (Z.rem (wrap S64 (a * b)) n).
  assert (0 <= a * b) by (apply Z.mul_nonneg_nonneg; lia).
  rewrite wrap_S64_id by lia. rewrite Z.rem_mod_nonneg by lia. reflexivity.
Qed.

Lemma mod_is_mod a n : 0 <= a -> 0 < n -> spec SIntMod [a; n] = a mod n.
Proof. intros Ha Hn. change (spec SIntMod [a; n]) with (Z.rem a n). apply Z.rem_mod_nonneg; lia. Qed.

(* ranges of the results of bit operations, quotient and remainder *)
Definition srange (z : Z) : Prop := -9223372036854775808 <= z < 9223372036854775808.

Lemma nonneg_small_of_bits z : (forall m, 63 <= m -> Z.testbit z m = false) -> 0 <= z < 2 ^ 63.
Proof.
  intro H. assert (Hn : 0 <= z).
  { destruct (Z.neg_nonneg_cases z) as [Hneg|]; [|assumption].
    destruct (proj1 (Z.bits_iff_neg_ex z) Hneg) as [k Hk].
    specialize (Hk (Z.max (k + 1) 63)). rewrite H in Hk by lia. 
    assert (false = true); [apply Hk; lia|discriminate]. }
  split; [assumption|].
  destruct (Z.eq_dec z 0) as [->|Hz]; [reflexivity|].
  apply Z.log2_lt_pow2; [lia|].
  destruct (Z.lt_ge_cases (Z.log2 z) 63) as [|Hge]; [assumption|].
  pose proof (Z.bit_log2 z ltac:(lia)) as Hb. rewrite H in Hb by lia. discriminate.
Qed.

Lemma srange_of_bits z : (forall m, 63 <= m -> Z.testbit z m = Z.testbit z 63) -> srange z.
Proof.
  intro H. unfold srange. change 9223372036854775808 with (2 ^ 63).
  destruct (Z.testbit z 63) eqn:Hb.
  - assert (K : 0 <= Z.lnot z < 2 ^ 63).
    { apply nonneg_small_of_bits. intros m Hm. rewrite Z.lnot_spec by lia. rewrite H by lia. reflexivity. }
    unfold Z.lnot in K. lia.
  - pose proof (nonneg_small_of_bits z H). lia.
Qed.

Lemma srange_bits z m : srange z -> 63 <= m -> Z.testbit z m = Z.testbit z 63.
Proof. intros Hz Hm. rewrite (testbit_high z m Hz Hm), (testbit_high z 63 Hz); [reflexivity|lia]. Qed.

Lemma land_srange a b : srange a -> srange b -> srange (Z.land a b).
Proof. intros Ha Hb. apply srange_of_bits. intros m Hm. rewrite !Z.land_spec, (srange_bits a m), (srange_bits b m); auto. Qed.
Lemma lor_srange a b : srange a -> srange b -> srange (Z.lor a b).
Proof. intros Ha Hb. apply srange_of_bits. intros m Hm. rewrite !Z.lor_spec, (srange_bits a m), (srange_bits b m); auto. Qed.
Lemma lxor_srange a b : srange a -> srange b -> srange (Z.lxor a b).
Proof. intros Ha Hb. apply srange_of_bits. intros m Hm. rewrite !Z.lxor_spec, (srange_bits a m), (srange_bits b m); auto. Qed.

Lemma shiftr_srange a n : srange a -> 0 <= n -> srange (Z.shiftr a n).
Proof.
  intros Ha Hn. apply srange_of_bits. intros m Hm.
  rewrite !Z.shiftr_spec by lia. rewrite (srange_bits a (m + n)), (srange_bits a (63 + n)); auto; lia.
Qed.

Lemma rem_srange x y : srange x -> y <> 0 -> srange (Z.rem x y).
Proof.
  intros Hx Hy. unfold srange in *.
  pose proof (Z.rem_abs x y Hy) as Ha.
  pose proof (Z.rem_sign_mul x y Hy) as Hs.
  assert (Hle : Z.abs (Z.rem x y) <= Z.abs x).
  { rewrite <- Ha. destruct (Z.eq_dec x 0) as [->|Hx0]; [rewrite Z.rem_0_l by lia; lia|].
    rewrite Z.rem_mod_nonneg by lia.
    destruct (Z.lt_ge_cases (Z.abs x) (Z.abs y)); [rewrite Z.mod_small by lia; lia|].
    pose proof (Z.mod_pos_bound (Z.abs x) (Z.abs y) ltac:(lia)). lia. }
  destruct (Z.eq_dec x (-9223372036854775808)) as [->|Hne]; [|lia].
  lia.
Qed.

Lemma quot_srange x y : srange x -> y <> 0 -> ~ (x = -9223372036854775808 /\ y = -1) -> srange (Z.quot x y).
Proof.
  intros Hx Hy Hn. unfold srange in *.
  destruct (Z.eq_dec y 1) as [->|H1]; [rewrite Z.quot_1_r; lia|].
  destruct (Z.eq_dec y (-1)) as [->|H2].
  { replace (-1) with (- (1)) by reflexivity. rewrite Z.quot_opp_r by lia. rewrite Z.quot_1_r. lia. }
  pose proof (Z.quot_abs x y Hy) as Ha.
  assert (Z.abs x ÷ Z.abs y <= Z.abs x / 2).
  { rewrite Z.quot_div_nonneg by lia. apply Z.div_le_compat_l; lia. }
  assert (Z.abs x / 2 <= 4611686018427387904) by (apply Z.div_le_upper_bound; lia).
  lia.
Qed.

Lemma wrap_srange z : srange (wrap S64 z).
Proof. unfold srange, wrap. lia. Qed.

(* ------------------------------------------------------------------ row tactics *)

Lemma row_ok_none e : sop_of (rname e) = None -> row_ok e.
Proof. unfold row_ok. intros ->. exact I. Qed.

Lemma row_ok_some e o : sop_of (rname e) = Some o -> row_meets o e -> row_ok e.
Proof. unfold row_ok. intros ->. exact (fun H => H). Qed.

Ltac inv_typed H :=
  repeat match type of H with
  | typed _ _ => unfold typed in H
  | Forall2 _ [] _ => inversion H; subst; clear H
  | Forall2 _ (_ :: _) _ =>
      let z := fresh "z" in let l := fresh "l" in let Hz := fresh "Hz" in let Hl := fresh "Hl" in
      inversion H as [|? z ? l Hz Hl]; subst; clear H; rename Hl into H; cbn [in_ty] in Hz
  end.

(* unfold the evaluator on a concrete expression, leaving Z and bool operations *)
Ltac cev :=
  cbv [sem defd ev ty_of conv cty_eqb promote join is_int is_cmp is_shift cmp_ev arith_ev
       in_range tmin tmax width is_signed nth List.length Nat.ltb Nat.leb
       libfn_of libfn_ev glob_info
       spec in_dom a0 a1 a2 red div_ok smin smax].

Ltac cev_in H :=
  cbv [in_dom a0 a1 a2 red div_ok smin smax nth] in H.

Ltac is_zlit a := lazymatch a with Zpos _ => idtac | Zneg _ => idtac | Z0 => idtac end.

(* comparisons of two numerals *)
Ltac closed_cmp :=
  repeat match goal with
  | |- context [?a <=? ?b] => is_zlit a; is_zlit b;
      let v := eval vm_compute in (a <=? b) in change (a <=? b) with v
  | |- context [?a <? ?b] => is_zlit a; is_zlit b;
      let v := eval vm_compute in (a <? b) in change (a <? b) with v
  | |- context [?a =? ?b] => is_zlit a; is_zlit b;
      let v := eval vm_compute in (a =? b) in change (a =? b) with v
  | |- context [wrap ?t ?a] => is_zlit a;
      let v := eval vm_compute in (wrap t a) in change (wrap t a) with v
  end.

Ltac case_cmp :=
  repeat match goal with
  | |- context [?x =? ?y] => destruct (Z.eqb_spec x y)
  | |- context [?x <? ?y] => destruct (Z.ltb_spec x y)
  | |- context [?x <=? ?y] => destruct (Z.leb_spec x y)
  end.

Ltac bit_norm :=
  repeat first
    [ rewrite land_1_mod2 | rewrite even_mod2 | rewrite odd_mod2 | rewrite rem2_zero ].

Ltac srange_solve := first [ apply wrap_srange | unfold srange, wrap; lia ].

(* drop the reduction around results that are in range anyway *)
Ltac range_rw :=
  repeat match goal with
  | |- context [wrap S64 (Z.land ?a ?b)] =>
      rewrite (wrap_S64_id (Z.land a b)) by (apply land_srange; srange_solve)
  | |- context [wrap S64 (Z.lor ?a ?b)] =>
      rewrite (wrap_S64_id (Z.lor a b)) by (apply lor_srange; srange_solve)
  | |- context [wrap S64 (Z.lxor ?a ?b)] =>
      rewrite (wrap_S64_id (Z.lxor a b)) by (apply lxor_srange; srange_solve)
  | |- context [wrap S64 (Z.rem ?a ?b)] =>
      rewrite (wrap_S64_id (Z.rem a b)) by (apply rem_srange; [srange_solve | unfold wrap in *; lia])
  | |- context [wrap S64 (Z.quot ?a ?b)] =>
      rewrite (wrap_S64_id (Z.quot a b)) by (apply quot_srange; [srange_solve | unfold wrap in *; lia | unfold wrap in *; lia])
  end.

Ltac solve_val :=
  first
    [ reflexivity
    | solve [range_rw; reflexivity]
    | solve [unfold wrap; lia]
    | solve [bit_norm; unfold wrap; case_cmp; cbn [Z.b2z negb andb orb]; lia]
    | solve [unfold wrap, Z.lnot; case_cmp; cbn [Z.b2z negb andb orb]; lia]
    | solve [rewrite !wrap_S64_id by lia; reflexivity] ].

Ltac solve_sym :=
  split; [vm_compute; reflexivity|];
  let args := fresh "args" in let Ht := fresh "Ht" in let Hd := fresh "Hd" in
  intros args Ht Hd; cbn [rargs rexp] in *; inv_typed Ht; cev_in Hd; cev; closed_cmp;
  cbn [andb orb negb];
  match goal with
  | |- (if ?c then _ else _) = _ => replace c with true by (symmetry; unfold wrap in *; lia)
  end;
  f_equal; solve_val.

Ltac vm_decide := lazymatch goal with |- ?x = true => vm_cast_no_check (eq_refl true) end.

(* symbolic proof over Z first (any operand types); if that does not close and
   all operand types are finite, the exhaustive check *)
Ltac solve_meets :=
  first
    [ solve [timeout 60 solve_sym]
    | apply finite_row_meets; [vm_compute; reflexivity | vm_compute; reflexivity | vm_compute; reflexivity] ].

Ltac in_list := cbn [In]; repeat first [left; reflexivity | right]; fail.

Ltac solve_row_ok :=
  first
    [ apply row_ok_none; vm_compute; reflexivity
    | eapply row_ok_some; [vm_compute; reflexivity | solve_meets] ].

Ltac row_failed :=
  lazymatch goal with
  | |- In (rname ?e) _ \/ _ =>
      let n := eval cbv in (rname e) in fail 1000 "ROW-FAILED" n
  end.

(* one row of a run-time table / of the folder table *)
Ltac solve_rt_row := first [ left; solve [in_list] | right; solve [solve_row_ok] | row_failed ].
Ltac solve_fold_row :=
  first [ left; solve [in_list] | right; left; reflexivity | right; right; solve [solve_row_ok] | row_failed ].

Ltac walk solve_one := repeat (apply Forall_cons; [solve_one|]); apply Forall_nil.
