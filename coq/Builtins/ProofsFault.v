(* The folder never evaluates a trapping operation outside its domain (over the GENERATED folder table). *)
Require Import ZArith List String Bool Lia ZifyBool.
Require Import AV.Builtins.CInt AV.Builtins.Spec AV.Builtins.Facts AV.Gen.Builtins.
Import ListNotations.
Local Open Scope Z_scope.
Ltac Zify.zify_post_hook ::= Z.to_euclidean_division_equations.

(* the trapping operations are folded only inside their domain *)
Lemma cfold_never_faults_l : fold_fault_free known_fault_cfold cfold_tbl.
Proof. walk_filtered fold_fault_free_filter solve_fault_row. Qed.
