(* driver for the extracted builtin model: one query per line on stdin
     sem <cfold|fint|genc> <Name> <k> <arg>...   ->  "none" (no such row) | "declined" | "undef" | value
     spec <Name> <arg>...                          ->  "none" | "<value> <in_dom 0/1> <typed 0/1>"
     rows <cfold|fint|genc> <Name>                 ->  number of rows
     lib <isdigit|isalpha|tolower|toupper> <c>     ->  the model's value of the libc function
   integers travel as [-]binary digit strings; the driver only builds/prints
   constructor terms, it does no arithmetic of its own. *)
open Builtins

let rec pos_of_bits (s : Stdlib.String.t) (i : int) : positive =
  (* s.[0] is the most significant bit and is '1'; build from the top down *)
  let rec go acc j = if j >= Stdlib.String.length s then acc
    else go (if s.[j] = '1' then XI acc else XO acc) (j + 1) in
  ignore i; go XH 1

let z_of_string (s : Stdlib.String.t) : z =
  let neg = Stdlib.String.length s > 0 && s.[0] = '-' in
  let b = if neg then Stdlib.String.sub s 1 (Stdlib.String.length s - 1) else s in
  if b = "0" then Z0 else if neg then Zneg (pos_of_bits b 0) else Zpos (pos_of_bits b 0)

let rec bits_of_pos (p : positive) (acc : Stdlib.String.t) : Stdlib.String.t =
  match p with
  | XH -> "1" ^ acc
  | XO q -> bits_of_pos q ("0" ^ acc)
  | XI q -> bits_of_pos q ("1" ^ acc)

let string_of_z (v : z) : Stdlib.String.t =
  match v with Z0 -> "0" | Zpos p -> bits_of_pos p "" | Zneg p -> "-" ^ bits_of_pos p ""

let ascii_of_char (c : char) : ascii =
  let n = Char.code c in
  let b i = (n lsr i) land 1 = 1 in
  Ascii (b 0, b 1, b 2, b 3, b 4, b 5, b 6, b 7)

let coq_string (s : Stdlib.String.t) : Builtins.string =
  let rec go i = if i >= Stdlib.String.length s then EmptyString
    else String (ascii_of_char (Stdlib.String.get s i), go (i + 1)) in
  go 0

let rec nat_of_int (n : int) : nat = if n <= 0 then O else S (nat_of_int (n - 1))
let rec int_of_nat (n : nat) : int = match n with O -> 0 | S m -> 1 + int_of_nat m

let table = function
  | "cfold" -> cfold_tbl | "fint" -> fint_tbl | "genc" -> genc_tbl
  | s -> failwith ("route " ^ s)

let () =
  try
    while true do
      let line = input_line stdin in
      let ws = Stdlib.List.filter (fun w -> w <> "") (Stdlib.String.split_on_char ' ' line) in
      (match ws with
       | "sem" :: route :: name :: k :: args ->
           let t = table route in
           let n = coq_string name in
           let k = nat_of_int (int_of_string k) in
           if q_declined t n k then print_endline "declined"
           else (match q_sem t n k (Stdlib.List.map z_of_string args) with
                 | None -> print_endline "none"
                 | Some None -> print_endline "undef"
                 | Some (Some v) -> print_endline (string_of_z v))
       | "spec" :: name :: args ->
           (match q_spec (coq_string name) (Stdlib.List.map z_of_string args) with
            | None -> print_endline "none"
            | Some ((v, d), t) ->
                Printf.printf "%s %d %d\n" (string_of_z v) (if d then 1 else 0) (if t then 1 else 0))
       | "lib" :: fn :: c :: [] ->
           (match q_lib (coq_string fn) (z_of_string c) with
            | None -> print_endline "none"
            | Some v -> print_endline (string_of_z v))
       | "rows" :: route :: name :: [] ->
           Printf.printf "%d\n" (int_of_nat (q_rows (table route) (coq_string name)))
       | _ -> print_endline "bad-query");
      flush stdout
    done
  with End_of_file -> ()
