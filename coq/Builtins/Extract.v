(* Extraction of the executable model (tables are the generated ones). *)
Require Import ExtrOcamlBasic.
Require Import ZArith List String.
Require Import AV.Builtins.CInt AV.Builtins.Spec AV.Builtins.Facts AV.Gen.Builtins.

(* one query of the driver: route table, builtin name, k-th row of that name, operands *)
Definition q_rows (t : list row) (n : string) : nat := List.length (lookup_all n t).

Definition q_sem (t : list row) (n : string) (k : nat) (args : list Z) : option (option Z) :=
  match nth_error (lookup_all n t) k with
  | Some r => Some (sem args (rexp r))
  | None => None
  end.

Definition q_declined (t : list row) (n : string) (k : nat) : bool :=
  match nth_error (lookup_all n t) k with
  | Some r => is_declined (rexp r)
  | None => false
  end.

Definition q_spec (n : string) (args : list Z) : option (Z * bool * bool) :=
  match sop_of n with
  | Some o => Some (spec o args, in_dom o args,
                    (fix ok (ts : list fty) (l : list Z) : bool :=
                       match ts, l with
                       | nil, nil => true
                       | t :: ts', z :: l' => andb (in_ty_b t z) (ok ts' l')
                       | _, _ => false
                       end) (fst (sop_sig o)) args)
  | None => None
  end.

(* the model of the <ctype.h> functions, for the probe against this platform's libc *)
Definition q_lib (f : string) (c : Z) : option Z :=
  match libfn_of f with Some g => Some (libfn_ev g c) | None => None end.

Extraction "Builtins/extracted/builtins.ml" cfold_tbl fint_tbl genc_tbl q_rows q_sem q_declined q_spec q_lib.
