(* Spec.v — the mathematical definition of the Machine builtins that have one
   (hand-written; nothing here is derived from the compiler sources).

   Data: Bool = {0,1}; Char, Byte = [0,256); HInt = [-2^15,2^15); SInt = [-2^63,2^63).
   `spec o args` is the value, `in_dom o args` the domain.  The domain excludes
   exactly the operand tuples on which the C expression is undefined in all
   three evaluators: a zero divisor, LONG_MIN with divisor -1 (quotient not
   representable; x86-64 traps), a shift count or bit index outside [0,64).
   Integer + - * and negation are the ring operations of Z followed by the
   reduction into the 64-bit two's complement range (that *is* the definition of
   machine integer arithmetic here, it is not hidden); `SIntMod` is C's `%`
   (remainder with the sign of the dividend), as in all three evaluators;
   `SIntPlusMod/MinusMod/TimesMod a b n` is the remainder of the reduced
   sum/difference/product (lemma `plusmod_is_mod` etc. in Facts.v say when this
   is (a+b) mod n). *)
Require Import ZArith List String Bool.
Require Import AV.Builtins.CInt.
Import ListNotations.
Local Open Scope Z_scope.

Inductive sop :=
| BoolFalse | BoolTrue | BoolNot | BoolAnd | BoolOr | BoolEQ | BoolNE
| CharSpace | CharNewline | CharTab | CharIsDigit | CharIsLetter
| CharEQ | CharNE | CharLT | CharLE | CharLower | CharUpper | CharOrd | CharNum
| Byte0 | Byte1 | ByteMin | ByteMax
| HInt0 | HInt1 | HIntMin | HIntMax
| SInt0 | SInt1 | SIntMin | SIntMax
| SIntIsZero | SIntIsNeg | SIntIsPos | SIntIsEven | SIntIsOdd
| SIntEQ | SIntNE | SIntLT | SIntLE
| SIntNegate | SIntPrev | SIntNext | SIntPlus | SIntMinus | SIntTimes | SIntTimesPlus
| SIntMod | SIntQuo | SIntRem | SIntPlusMod | SIntMinusMod | SIntTimesMod | SIntTimesModInv
| SIntShiftUp | SIntShiftDn | SIntBit | SIntNot | SIntAnd | SIntOr | SIntXOr
| ByteToSInt | SIntToByte | HIntToSInt | SIntToHInt
| RoundZero | RoundNearest | RoundUp | RoundDown | RoundDontCare
(* components of multi-result builtins: result k of X is the row "X#k" *)
| SIntDivide0 | SIntDivide1
| WordPlusStep0 | WordPlusStep1 | WordTimesDouble0 | WordTimesDouble1 | WordTimesStep0 | WordTimesStep1.

Local Open Scope string_scope.
Definition sop_table : list (string * sop) := [
  ("BoolFalse", BoolFalse); ("BoolTrue", BoolTrue); ("BoolNot", BoolNot); ("BoolAnd", BoolAnd);
  ("BoolOr", BoolOr); ("BoolEQ", BoolEQ); ("BoolNE", BoolNE);
  ("CharSpace", CharSpace); ("CharNewline", CharNewline); ("CharTab", CharTab);
  ("CharIsDigit", CharIsDigit); ("CharIsLetter", CharIsLetter);
  ("CharEQ", CharEQ); ("CharNE", CharNE); ("CharLT", CharLT); ("CharLE", CharLE);
  ("CharLower", CharLower); ("CharUpper", CharUpper); ("CharOrd", CharOrd); ("CharNum", CharNum);
  ("Byte0", Byte0); ("Byte1", Byte1); ("ByteMin", ByteMin); ("ByteMax", ByteMax);
  ("HInt0", HInt0); ("HInt1", HInt1); ("HIntMin", HIntMin); ("HIntMax", HIntMax);
  ("SInt0", SInt0); ("SInt1", SInt1); ("SIntMin", SIntMin); ("SIntMax", SIntMax);
  ("SIntIsZero", SIntIsZero); ("SIntIsNeg", SIntIsNeg); ("SIntIsPos", SIntIsPos);
  ("SIntIsEven", SIntIsEven); ("SIntIsOdd", SIntIsOdd);
  ("SIntEQ", SIntEQ); ("SIntNE", SIntNE); ("SIntLT", SIntLT); ("SIntLE", SIntLE);
  ("SIntNegate", SIntNegate); ("SIntPrev", SIntPrev); ("SIntNext", SIntNext);
  ("SIntPlus", SIntPlus); ("SIntMinus", SIntMinus); ("SIntTimes", SIntTimes);
  ("SIntTimesPlus", SIntTimesPlus);
  ("SIntMod", SIntMod); ("SIntQuo", SIntQuo); ("SIntRem", SIntRem);
  ("SIntPlusMod", SIntPlusMod); ("SIntMinusMod", SIntMinusMod); ("SIntTimesMod", SIntTimesMod);
  ("SIntTimesModInv", SIntTimesModInv);
  ("SIntShiftUp", SIntShiftUp); ("SIntShiftDn", SIntShiftDn); ("SIntBit", SIntBit);
  ("SIntNot", SIntNot); ("SIntAnd", SIntAnd); ("SIntOr", SIntOr); ("SIntXOr", SIntXOr);
  ("ByteToSInt", ByteToSInt); ("SIntToByte", SIntToByte);
  ("HIntToSInt", HIntToSInt); ("SIntToHInt", SIntToHInt);
  ("RoundZero", RoundZero); ("RoundNearest", RoundNearest); ("RoundUp", RoundUp);
  ("RoundDown", RoundDown); ("RoundDontCare", RoundDontCare);
  ("SIntDivide#0", SIntDivide0); ("SIntDivide#1", SIntDivide1);
  ("WordPlusStep#0", WordPlusStep0); ("WordPlusStep#1", WordPlusStep1);
  ("WordTimesDouble#0", WordTimesDouble0); ("WordTimesDouble#1", WordTimesDouble1);
  ("WordTimesStep#0", WordTimesStep0); ("WordTimesStep#1", WordTimesStep1)
].

Fixpoint assoc {A} (n : string) (l : list (string * A)) : option A :=
  match l with
  | [] => None
  | (k, v) :: t => if String.eqb k n then Some v else assoc n t
  end.

Definition sop_of (n : string) : option sop := assoc n sop_table.
Local Close Scope string_scope.

(* signature: argument types, result type *)
Definition sop_sig (o : sop) : list fty * fty :=
  match o with
  | BoolFalse | BoolTrue => ([], FBool)
  | BoolNot => ([FBool], FBool)
  | BoolAnd | BoolOr | BoolEQ | BoolNE => ([FBool; FBool], FBool)
  | CharSpace | CharNewline | CharTab => ([], FChar)
  | CharIsDigit | CharIsLetter => ([FChar], FBool)
  | CharEQ | CharNE | CharLT | CharLE => ([FChar; FChar], FBool)
  | CharLower | CharUpper => ([FChar], FChar)
  | CharOrd => ([FChar], FSInt)
  | CharNum => ([FSInt], FChar)
  | Byte0 | Byte1 | ByteMin | ByteMax => ([], FByte)
  | HInt0 | HInt1 | HIntMin | HIntMax => ([], FHInt)
  | SInt0 | SInt1 | SIntMin | SIntMax => ([], FSInt)
  | SIntIsZero | SIntIsNeg | SIntIsPos | SIntIsEven | SIntIsOdd => ([FSInt], FBool)
  | SIntEQ | SIntNE | SIntLT | SIntLE => ([FSInt; FSInt], FBool)
  | SIntNegate | SIntPrev | SIntNext | SIntNot => ([FSInt], FSInt)
  | SIntPlus | SIntMinus | SIntTimes | SIntMod | SIntQuo | SIntRem
  | SIntShiftUp | SIntShiftDn | SIntAnd | SIntOr | SIntXOr => ([FSInt; FSInt], FSInt)
  | SIntTimesPlus | SIntPlusMod | SIntMinusMod | SIntTimesMod => ([FSInt; FSInt; FSInt], FSInt)
  | SIntTimesModInv => ([FSInt; FSInt; FSInt; FDFlo], FSInt)
  | SIntBit => ([FSInt; FSInt], FBool)
  | ByteToSInt => ([FByte], FSInt)
  | SIntToByte => ([FSInt], FByte)
  | HIntToSInt => ([FHInt], FSInt)
  | SIntToHInt => ([FSInt], FHInt)
  | RoundZero | RoundNearest | RoundUp | RoundDown | RoundDontCare => ([], FSInt)
  | SIntDivide0 | SIntDivide1 => ([FSInt; FSInt], FSInt)
  | WordPlusStep0 | WordPlusStep1 => ([FWord; FWord; FWord], FWord)
  | WordTimesDouble0 | WordTimesDouble1 => ([FWord; FWord], FWord)
  | WordTimesStep0 | WordTimesStep1 => ([FWord; FWord; FWord; FWord], FWord)
  end.

Definition smin : Z := -9223372036854775808.
Definition smax : Z := 9223372036854775807.

(* membership in a FOAM data type *)
Definition in_ty (t : fty) (z : Z) : Prop :=
  match t with
  | FBool => z = 0 \/ z = 1
  | FChar | FByte => 0 <= z < 256
  | FHInt => -32768 <= z < 32768
  | FSInt => -9223372036854775808 <= z < 9223372036854775808
  | FWord => 0 <= z < 18446744073709551616
  | FDFlo => True     (* a float operand is an opaque datum here: no specified result may depend on it *)
  | _ => False
  end.

Definition in_ty_b (t : fty) (z : Z) : bool :=
  match t with
  | FBool => (z =? 0) || (z =? 1)
  | FChar | FByte => (0 <=? z) && (z <? 256)
  | FHInt => (-32768 <=? z) && (z <? 32768)
  | FSInt => (-9223372036854775808 <=? z) && (z <? 9223372036854775808)
  | FWord => (0 <=? z) && (z <? 18446744073709551616)
  | FDFlo => true
  | _ => false
  end.

Definition typed (tys : list fty) (args : list Z) : Prop := Forall2 in_ty tys args.

Definition a0 (l : list Z) := nth 0 l 0.
Definition a1 (l : list Z) := nth 1 l 0.
Definition a2 (l : list Z) := nth 2 l 0.
Definition a3 (l : list Z) := nth 3 l 0.
Definition wbase : Z := 18446744073709551616.      (* 2^64: one machine word *)

Definition is_digit (c : Z) : bool := (48 <=? c) && (c <=? 57).
Definition is_upper (c : Z) : bool := (65 <=? c) && (c <=? 90).
Definition is_lower (c : Z) : bool := (97 <=? c) && (c <=? 122).

(* reduction into the machine integer range *)
Definition red (z : Z) : Z := wrap S64 z.

Definition spec (o : sop) (l : list Z) : Z :=
  let a := a0 l in let b := a1 l in let c := a2 l in
  match o with
  | BoolFalse => 0 | BoolTrue => 1
  | BoolNot => Z.b2z (negb (a =? 1))
  | BoolAnd => Z.b2z ((a =? 1) && (b =? 1))
  | BoolOr => Z.b2z ((a =? 1) || (b =? 1))
  | BoolEQ => Z.b2z (a =? b)
  | BoolNE => Z.b2z (negb (a =? b))
  | CharSpace => 32 | CharNewline => 10 | CharTab => 9
  | CharIsDigit => Z.b2z (is_digit a)
  | CharIsLetter => Z.b2z (is_upper a || is_lower a)
  | CharEQ => Z.b2z (a =? b) | CharNE => Z.b2z (negb (a =? b))
  | CharLT => Z.b2z (a <? b) | CharLE => Z.b2z (a <=? b)
  | CharLower => if is_upper a then a + 32 else a
  | CharUpper => if is_lower a then a - 32 else a
  | CharOrd => a
  | CharNum => a mod 256
  | Byte0 => 0 | Byte1 => 1 | ByteMin => 0 | ByteMax => 255
  | HInt0 => 0 | HInt1 => 1 | HIntMin => -32768 | HIntMax => 32767
  | SInt0 => 0 | SInt1 => 1 | SIntMin => smin | SIntMax => smax
  | SIntIsZero => Z.b2z (a =? 0) | SIntIsNeg => Z.b2z (a <? 0) | SIntIsPos => Z.b2z (0 <? a)
  | SIntIsEven => Z.b2z (Z.even a) | SIntIsOdd => Z.b2z (Z.odd a)
  | SIntEQ => Z.b2z (a =? b) | SIntNE => Z.b2z (negb (a =? b))
  | SIntLT => Z.b2z (a <? b) | SIntLE => Z.b2z (a <=? b)
  | SIntNegate => red (- a)
  | SIntPrev => red (a - 1) | SIntNext => red (a + 1)
  | SIntPlus => red (a + b) | SIntMinus => red (a - b) | SIntTimes => red (a * b)
  | SIntTimesPlus => red (red (a * b) + c)
  | SIntMod => Z.rem a b
  | SIntQuo => Z.quot a b
  | SIntRem => Z.rem a b
  | SIntPlusMod => Z.rem (red (a + b)) c
  | SIntMinusMod => Z.rem (red (a - b)) c
  | SIntTimesMod => Z.rem (red (a * b)) c
  | SIntTimesModInv => Z.rem (red (a * b)) c    (* the fourth operand (an approximation of 1/c) does not matter *)
  | SIntShiftUp => red (Z.shiftl a b)
  | SIntShiftDn => Z.shiftr a b
  | SIntBit => Z.b2z (Z.testbit a b)
  | SIntNot => Z.lnot a
  | SIntAnd => Z.land a b | SIntOr => Z.lor a b | SIntXOr => Z.lxor a b
  | ByteToSInt => a
  | SIntToByte => a mod 256
  | HIntToSInt => a
  | SIntToHInt => wrap S16 a
  | RoundZero => 0 | RoundNearest => 1 | RoundUp => 2 | RoundDown => 3 | RoundDontCare => 4
  | SIntDivide0 => Z.quot a b
  | SIntDivide1 => Z.rem a b
  (* double-word arithmetic on unsigned words: (high word, low word) of the exact result;
     PlusStep a b kin = a + b + kin, TimesStep a b c kin = a * b + c + kin, first result the carry / high word *)
  | WordPlusStep0 => (a + b + c) / wbase
  | WordPlusStep1 => (a + b + c) mod wbase
  | WordTimesDouble0 => (a * b) / wbase
  | WordTimesDouble1 => (a * b) mod wbase
  | WordTimesStep0 => (a * b + c + a3 l) / wbase
  | WordTimesStep1 => (a * b + c + a3 l) mod wbase
  end.

Definition div_ok (x y : Z) : bool := negb (y =? 0) && negb ((x =? smin) && (y =? -1)).

Definition in_dom (o : sop) (l : list Z) : bool :=
  let a := a0 l in let b := a1 l in let c := a2 l in
  match o with
  | SIntMod | SIntQuo | SIntRem | SIntDivide0 | SIntDivide1 => div_ok a b
  | SIntPlusMod => div_ok (red (a + b)) c
  | SIntMinusMod => div_ok (red (a - b)) c
  | SIntTimesMod | SIntTimesModInv => div_ok (red (a * b)) c
  | SIntShiftUp | SIntShiftDn | SIntBit => (0 <=? b) && (b <? 64)
  | _ => true
  end.

(* operations whose C expression traps (SIGFPE on x86-64) outside the domain: the
   folder must not evaluate them at compile time there, the call may sit in code
   that is never executed *)
Definition may_fault (o : sop) : bool :=
  match o with
  | SIntMod | SIntQuo | SIntRem | SIntPlusMod | SIntMinusMod | SIntTimesMod | SIntTimesModInv => true
  | _ => false
  end.

(* ------------------------------------------------------------------------ *)
(* classes for `coverage_complete` *)
Local Open Scope string_scope.

(* same-operation class: no mathematical definition is claimed; the embeddings
   of the evaluators that implement the builtin are syntactically the same C
   operation on the same C types / the same runtime function on the same
   arguments (after inlining the one-line wrappers and dropping pointer casts) *)
Definition sameop_names : list string := [
  (* float arithmetic and comparisons: the hardware's IEEE operation *)
  "SFloEQ"; "SFloNE"; "SFloLT"; "SFloLE"; "SFloNegate"; "SFloPlus"; "SFloMinus"; "SFloTimes";
  "SFloTimesPlus"; "SFloDivide";
  "DFloEQ"; "DFloNE"; "DFloLT"; "DFloLE"; "DFloNegate"; "DFloPlus"; "DFloMinus"; "DFloTimes";
  "DFloTimesPlus"; "DFloDivide";
  "SFloMin"; "SFloMax"; "SFloEpsilon"; "DFloMin"; "DFloMax"; "DFloEpsilon";
  "SFloPrev"; "SFloNext"; "DFloPrev"; "DFloNext";
  "SFloTruncate"; "SFloFraction"; "SFloRound"; "DFloTruncate"; "DFloFraction"; "DFloRound";
  "SFloToDFlo"; "DFloToSFlo"; "SIntToSFlo"; "SIntToDFlo";
  (* big integers: every evaluator calls the same bigint.c function (property C11) *)
  "BInt0"; "BInt1"; "BIntIsZero"; "BIntIsNeg"; "BIntIsPos"; "BIntIsSingle";
  "BIntEQ"; "BIntNE"; "BIntLT"; "BIntLE"; "BIntNegate"; "BIntPrev"; "BIntNext";
  "BIntPlus"; "BIntMinus"; "BIntTimes"; "BIntTimesPlus"; "BIntMod"; "BIntQuo"; "BIntRem";
  "BIntGcd"; "BIntSIPower"; "BIntBIPower"; "BIntPowerMod"; "BIntLength";
  "BIntBit";
  "SIntToBInt"; "BIntToSInt"; "BIntToSFlo"; "BIntToDFlo";
  (* integer operations implemented once, in the runtime, and called by both run times *)
  "SIntGcd"; "SIntLength"; "SIntHashCombine";
  (* platform constants <limits.h>, same expression in both run times *)
  "CharMin"; "CharMax";
  (* pointers *)
  "PtrIsNil"; "PtrEQ"; "PtrNE"; "PtrMagicEQ"; "PtrToSInt"; "SIntToPtr";
  (* literal conversions and formatting *)
  "ArrToSInt"; "ArrToBInt"; "ArrToSFlo"; "ArrToDFlo"; "FormatSFlo"; "FormatDFlo"; "FormatSInt"; "FormatBInt";
  "PlatformOS";
  (* directed rounding: runtime functions fi[SD]FloR* (results are the neighbouring floats) *)
  "SFloRPlus"; "SFloRMinus"; "SFloRTimes"; "SFloRTimesPlus"; "SFloRDivide";
  "DFloRPlus"; "DFloRMinus"; "DFloRTimes"; "DFloRTimesPlus"; "DFloRDivide";
  (* raw-record type tags and fixed sizes: the same constant *)
  "TypeInt8"; "TypeInt16"; "TypeInt32"; "TypeInt64"; "TypeInt128"; "TypeNil"; "TypeChar"; "TypeBool";
  "TypeByte"; "TypeHInt"; "TypeSInt"; "TypeBInt"; "TypeSFlo"; "TypeDFlo"; "TypeWord"; "TypeClos";
  "TypePtr"; "TypeRec"; "TypeArr"; "TypeTR";
  "SizeOfInt8"; "SizeOfInt16"; "SizeOfInt32"; "SizeOfInt64"; "SizeOfInt128";
  "SizeOfNil"; "SizeOfChar"; "SizeOfBool"; "SizeOfByte"; "SizeOfHInt"; "SizeOfSInt"; "SizeOfBInt"; "SizeOfSFlo";
  "SizeOfDFlo"; "SizeOfWord"; "SizeOfClos"; "SizeOfPtr"; "SizeOfRec"; "SizeOfArr"; "SizeOfTR";
  (* multi-result builtins whose runtime function is not straight-line: the same call with the same inputs,
     outputs taken in the same order (components "X#k" where the function could be inlined) *)
  "WordDivideDouble"; "BIntDivide"; "ScanSFlo"; "ScanDFlo"; "ScanSInt"; "ScanBInt";
  "SFloDissemble"; "DFloDissemble"; "SFloAssemble"; "DFloAssemble";
  (* float constants and sign tests, null pointer, run-time-system tag: the same constant / predicate up to the
     spelling of 0 and 1 and `x ? F : T` for `x == 0` (normal form `fnorm` in Facts.v) *)
  "SFlo0"; "SFlo1"; "DFlo0"; "DFlo1"; "SFloIsZero"; "SFloIsNeg"; "SFloIsPos"; "DFloIsZero"; "DFloIsNeg"; "DFloIsPos";
  "PtrNil"; "PlatformRTE";
  (* store queries and list construction: the same runtime call *)
  "StoInHeap"; "StoIsWritable"; "StoMarkObject"; "StoRecode"; "ListCons"
].

Definition excluded : list (string * string) := [
  ("BIntIsEven", "two C renderings (fiBIntMod-based and fiBIntBit-based); big integers are C11's"); ("BIntIsOdd", "as BIntIsEven");
  ("BIntShiftRem", "interpreter narrows the count to int first; otherwise the same bintShiftRem call");
  ("BIntShiftUp", "interpreter narrows the count to int first; otherwise the same bintShift call"); ("BIntShiftDn", "as BIntShiftUp"); ("Halt", "does not return");
  ("StoForceGC", "no result: called for its effect on the store (a statement in the interpreter); store manager, C09/C10"); ("StoNewObject", "no result: effect on the store only");
  ("StoATracer", "no result: registers a tracer closure"); ("StoCTracer", "no result: registers a tracer; the interpreter routes it to fiStoATracer"); ("StoShow", "no result: prints store statistics"); ("StoShowArgs", "interpreter inlines stoShowArgs with an int narrowing, the C runtime calls fiStoShowArgs: not the same expression"); ("RawRepSize", "no case in the interpreter; the folder rewrites it to a SizeOf* call when its operand is a Type* call (a FOAM rewrite, not a value)");
  ("ListNil", "interpreter calls fiListNil(), generated C writes (FiPtr)0: heap-list representation"); ("ListEmptyP", "interpreter calls fiListEmptyP(), generated C converts the pointer itself: not the same expression"); ("ListHead", "generated C reads ((FiList*)l)->data in a macro (struct access, outside the expression subset)"); ("ListTail", "generated C reads ((FiList*)l)->next in a macro (struct access, outside the expression subset)");
  ("NewExportTable", "no case in the interpreter; run-time export tables"); ("AddToExportTable", "no case in the interpreter; run-time export tables"); ("FreeExportTable", "no case in the interpreter; run-time export tables");
  ("ssaPhi", "internal to the optimiser, never evaluated")
].
