(* Proof over the GENERATED folder table (of_cfold.c:cfoldBCall). *)
Require Import ZArith List String Bool Lia ZifyBool.
Require Import AV.Builtins.CInt AV.Builtins.Spec AV.Builtins.Facts AV.Gen.Builtins.
Import ListNotations.
Local Open Scope Z_scope.
Ltac Zify.zify_post_hook ::= Z.to_euclidean_division_equations.

Lemma cfold_folds_to_spec_l : folds_to_spec known_bad_cfold cfold_tbl.
Proof. walk_filtered folds_to_spec_filter solve_fold_row. Qed.

