(* CInt.v — the C expression subset used by the builtin tables of the Aldor
   compiler, with its meaning on LP64 / gcc / x86-64 (hand-written).

   `cexp` is the deep embedding produced by tools/builtins_gen.py.  `ev` is the
   value of an expression, `defd` says that evaluating it is *defined* (no
   division by zero, no LONG_MIN / -1, shift counts inside the width, only
   integer types, only known library functions).  What the model assumes
   beyond ISO C, because it is what gcc on x86-64 does and what all three
   evaluators rely on:
     - signed overflow of + - * and unary - wraps (two's complement);
     - << on a signed left operand is the two's complement shift (wraps);
     - >> on a negative signed value is the arithmetic shift;
     - conversion to a narrower signed type wraps;
     - isdigit/isalpha return glibc's table bits 2048 / 1024 (C locale);
   each of these is exercised against the real binaries by props/c04.py. *)
Require Import ZArith List String Bool Lia.
Import ListNotations.
Local Open Scope Z_scope.

Inductive cty := U8 | S8 | S16 | S32 | U32 | S64 | U64 | F32 | F64 | PTR.

(* FOAM value types (foam.h) *)
Inductive fty := FBool | FChar | FByte | FHInt | FSInt | FWord | FBInt | FSFlo | FDFlo
               | FPtr | FArr | FNOp | FNil | FClos | FRec | FArb | FMulti | FOther.

Inductive unop := Neg | BNot | LNot.
Inductive binop := Add | Sub | Mul | Div | Mod | Shl | Shr | BAnd | BOr | BXor
                 | LAnd | LOr | Eq | Ne | Lt | Le | Gt | Ge.

Inductive cexp :=
| Arg (i : nat) (t : cty)          (* operand i, read through an lvalue of C type t *)
| Lit (z : Z) (t : cty)
| FLit (s : string) (t : cty)
| Glob (s : string)                (* a global / <limits.h> constant *)
| Cast (t : cty) (e : cexp)
| Un (o : unop) (e : cexp)
| Bin (o : binop) (a b : cexp)
| Cond (c a b : cexp)
| Call (f : string) (args : cexp)  (* args is an ANil/ACons chain *)
| ANil
| ACons (e rest : cexp)
| Opaque (s : string)              (* source text the translator could not embed *)
| Declined                         (* the folder leaves the call in place *)
| Guard (g e : cexp).              (* `if (g) break;` before the result e: when g is non-zero the folder
                                      leaves the call in place (conditional decline), otherwise e *)

Record row := mkrow { rname : string; rargs : list fty; rret : fty; rres : fty; rexp : cexp }.
Record sigrow := mksig { sname : string; sargs : list fty; sret : fty; ssfx : bool }.

Definition cty_eqb (a b : cty) : bool :=
  match a, b with
  | U8, U8 | S8, S8 | S16, S16 | S32, S32 | U32, U32 | S64, S64 | U64, U64
  | F32, F32 | F64, F64 | PTR, PTR => true
  | _, _ => false
  end.

Definition fty_eqb (a b : fty) : bool :=
  match a, b with
  | FBool, FBool | FChar, FChar | FByte, FByte | FHInt, FHInt | FSInt, FSInt | FWord, FWord
  | FBInt, FBInt | FSFlo, FSFlo | FDFlo, FDFlo | FPtr, FPtr | FArr, FArr | FNOp, FNOp
  | FNil, FNil | FClos, FClos | FRec, FRec | FArb, FArb | FMulti, FMulti | FOther, FOther => true
  | _, _ => false
  end.

Lemma fty_eqb_eq a b : fty_eqb a b = true <-> a = b.
Proof. destruct a, b; cbn; split; intro H; try reflexivity; try discriminate. Qed.

Definition is_int (t : cty) : bool :=
  match t with F32 | F64 | PTR => false | _ => true end.

(* two's complement / modular reduction into the range of t *)
Definition wrap (t : cty) (z : Z) : Z :=
  match t with
  | U8  => z mod 256
  | S8  => (z + 128) mod 256 - 128
  | S16 => (z + 32768) mod 65536 - 32768
  | S32 => (z + 2147483648) mod 4294967296 - 2147483648
  | U32 => z mod 4294967296
  | S64 => (z + 9223372036854775808) mod 18446744073709551616 - 9223372036854775808
  | U64 => z mod 18446744073709551616
  | _   => z
  end.

Definition tmin (t : cty) : Z :=
  match t with
  | S8 => -128 | S16 => -32768 | S32 => -2147483648 | S64 => -9223372036854775808 | _ => 0
  end.

Definition tmax (t : cty) : Z :=
  match t with
  | U8 => 255 | S8 => 127 | S16 => 32767 | S32 => 2147483647 | U32 => 4294967295
  | S64 => 9223372036854775807 | U64 => 18446744073709551615 | _ => 0
  end.

Definition width (t : cty) : Z :=
  match t with U8 | S8 => 8 | S16 => 16 | S32 | U32 => 32 | S64 | U64 => 64 | _ => 0 end.

Definition is_signed (t : cty) : bool :=
  match t with S8 | S16 | S32 | S64 => true | _ => false end.

Definition in_range (t : cty) (z : Z) : bool := (tmin t <=? z) && (z <=? tmax t).

(* integer promotion and usual arithmetic conversions (LP64) *)
Definition promote (t : cty) : cty :=
  match t with U8 | S8 | S16 | S32 => S32 | _ => t end.

Definition join (a b : cty) : cty :=
  match promote a, promote b with
  | U64, _ | _, U64 => U64
  | S64, _ | _, S64 => S64
  | U32, _ | _, U32 => U32
  | F64, _ | _, F64 => F64
  | F32, _ | _, F32 => F32
  | PTR, _ | _, PTR => PTR
  | _, _ => S32
  end.

(* conversion of a value of type `from` to type `to`: the identity when the
   types are the same, otherwise reduction into the target range *)
Definition conv (from to : cty) (z : Z) : Z := if cty_eqb from to then z else wrap to z.

(* <ctype.h> in the C locale, glibc return values; argument already an int *)
Definition c_isdigit (c : Z) : Z := if (48 <=? c) && (c <=? 57) then 2048 else 0.
Definition c_isalpha (c : Z) : Z :=
  if ((65 <=? c) && (c <=? 90)) || ((97 <=? c) && (c <=? 122)) then 1024 else 0.
Definition c_tolower (c : Z) : Z := if (65 <=? c) && (c <=? 90) then c + 32 else c.
Definition c_toupper (c : Z) : Z := if (97 <=? c) && (c <=? 122) then c - 32 else c.

Local Open Scope string_scope.

Definition glob_info (s : string) : option (Z * cty) :=
  if String.eqb s "CHAR_MIN" then Some (-128, S32)
  else if String.eqb s "CHAR_MAX" then Some (127, S32)
  else if String.eqb s "UCHAR_MAX" then Some (255, S32)
  else if String.eqb s "SHRT_MIN" then Some (-32768, S32)
  else if String.eqb s "SHRT_MAX" then Some (32767, S32)
  else if String.eqb s "LONG_MIN" then Some (-9223372036854775808, S64)
  else if String.eqb s "LONG_MAX" then Some (9223372036854775807, S64)
  else None.

Inductive libfn := FIsDigit | FIsAlpha | FToLower | FToUpper.

Definition libfn_of (f : string) : option libfn :=
  if String.eqb f "isdigit" then Some FIsDigit
  else if String.eqb f "isalpha" then Some FIsAlpha
  else if String.eqb f "tolower" then Some FToLower
  else if String.eqb f "toupper" then Some FToUpper
  else None.

Definition libfn_ev (f : libfn) (c : Z) : Z :=
  match f with
  | FIsDigit => c_isdigit c | FIsAlpha => c_isalpha c
  | FToLower => c_tolower c | FToUpper => c_toupper c
  end.

Local Close Scope string_scope.

Definition is_cmp (o : binop) : bool :=
  match o with Eq | Ne | Lt | Le | Gt | Ge | LAnd | LOr => true | _ => false end.

Definition is_shift (o : binop) : bool :=
  match o with Shl | Shr => true | _ => false end.

(* static C type of an expression *)
Fixpoint ty_of (e : cexp) : cty :=
  match e with
  | Arg _ t => t
  | Lit _ t => t
  | FLit _ t => t
  | Glob s => match glob_info s with Some (_, t) => t | None => PTR end
  | Cast t _ => t
  | Un LNot _ => S32
  | Un _ a => promote (ty_of a)
  | Bin o a b =>
      if is_cmp o then S32
      else if is_shift o then promote (ty_of a)
      else join (ty_of a) (ty_of b)
  | Cond _ a b => join (ty_of a) (ty_of b)
  | Call f _ => match libfn_of f with Some _ => S32 | None => PTR end
  | Guard _ e => ty_of e
  | _ => PTR
  end.

Definition cmp_ev (o : binop) (x y : Z) : Z :=
  match o with
  | Eq => Z.b2z (x =? y) | Ne => Z.b2z (negb (x =? y))
  | Lt => Z.b2z (x <? y) | Le => Z.b2z (x <=? y)
  | Gt => Z.b2z (y <? x) | Ge => Z.b2z (y <=? x)
  | _ => 0
  end.

Definition arith_ev (o : binop) (t : cty) (x y : Z) : Z :=
  match o with
  | Add => wrap t (x + y)
  | Sub => wrap t (x - y)
  | Mul => wrap t (x * y)
  | Div => wrap t (Z.quot x y)          (* C99: truncation toward zero *)
  | Mod => wrap t (Z.rem x y)           (* sign of the dividend *)
  | BAnd => wrap t (Z.land x y)
  | BOr => wrap t (Z.lor x y)
  | BXor => wrap t (Z.lxor x y)
  | _ => 0
  end.

(* value (total; meaningful where `defd` holds) *)
Fixpoint ev (args : list Z) (e : cexp) : Z :=
  match e with
  | Arg i _ => nth i args 0
  | Lit z _ => z
  | Glob s => match glob_info s with Some (z, _) => z | None => 0 end
  | Cast t a => conv (ty_of a) t (ev args a)
  | Un Neg a => let t := promote (ty_of a) in wrap t (- conv (ty_of a) t (ev args a))
  | Un BNot a => let t := promote (ty_of a) in wrap t (Z.lnot (conv (ty_of a) t (ev args a)))
  | Un LNot a => Z.b2z (ev args a =? 0)
  | Bin LAnd a b => Z.b2z (negb (ev args a =? 0) && negb (ev args b =? 0))
  | Bin LOr a b => Z.b2z (negb (ev args a =? 0) || negb (ev args b =? 0))
  | Bin Shl a b => let t := promote (ty_of a) in
                   wrap t (Z.shiftl (conv (ty_of a) t (ev args a)) (ev args b))
  | Bin Shr a b => let t := promote (ty_of a) in
                   Z.shiftr (conv (ty_of a) t (ev args a)) (ev args b)
  | Bin o a b =>
      let t := join (ty_of a) (ty_of b) in
      let x := conv (ty_of a) t (ev args a) in
      let y := conv (ty_of b) t (ev args b) in
      if is_cmp o then cmp_ev o x y else arith_ev o t x y
  | Cond c a b =>
      let t := join (ty_of a) (ty_of b) in
      if ev args c =? 0 then conv (ty_of b) t (ev args b) else conv (ty_of a) t (ev args a)
  | Call f (ACons a ANil) =>
      match libfn_of f with
      | Some g => libfn_ev g (conv (ty_of a) S32 (ev args a))
      | None => 0
      end
  | Guard _ e => ev args e
  | _ => 0
  end.

(* definedness *)
Fixpoint defd (args : list Z) (e : cexp) : bool :=
  match e with
  | Arg i t => is_int t && in_range t (nth i args 0) && (Nat.ltb i (List.length args))
  | Lit z t => is_int t && in_range t z
  | Glob s => match glob_info s with Some _ => true | None => false end
  | Cast t a => is_int t && is_int (ty_of a) && defd args a
  | Un LNot a => is_int (ty_of a) && defd args a
  | Un _ a => is_int (ty_of a) && defd args a
  | Bin LAnd a b => is_int (ty_of a) && is_int (ty_of b) && defd args a
                    && ((ev args a =? 0) || defd args b)
  | Bin LOr a b => is_int (ty_of a) && is_int (ty_of b) && defd args a
                   && (negb (ev args a =? 0) || defd args b)
  | Bin Shl a b | Bin Shr a b =>
      is_int (ty_of a) && is_int (ty_of b) && defd args a && defd args b
      && (0 <=? ev args b) && (ev args b <? width (promote (ty_of a)))
  | Bin Div a b | Bin Mod a b =>
      let t := join (ty_of a) (ty_of b) in
      let x := conv (ty_of a) t (ev args a) in
      let y := conv (ty_of b) t (ev args b) in
      is_int (ty_of a) && is_int (ty_of b) && defd args a && defd args b
      && negb (y =? 0) && negb (is_signed t && (x =? tmin t) && (y =? -1))
  | Bin _ a b => is_int (ty_of a) && is_int (ty_of b) && defd args a && defd args b
  | Cond c a b =>
      is_int (ty_of c) && is_int (ty_of a) && is_int (ty_of b) && defd args c
      && (((ev args c =? 0) && defd args b) || (negb (ev args c =? 0) && defd args a))
  | Call f (ACons a ANil) =>
      match libfn_of f with
      | Some _ => is_int (ty_of a) && defd args a
                  && (-1 <=? conv (ty_of a) S32 (ev args a)) && (conv (ty_of a) S32 (ev args a) <=? 255)
      | None => false
      end
  | Guard g e => is_int (ty_of g) && defd args g && (ev args g =? 0) && defd args e
  | _ => false
  end.

(* the folder leaves the call in place on these operands *)
Fixpoint declines (args : list Z) (e : cexp) : bool :=
  match e with
  | Declined => true
  | Guard g a => is_int (ty_of g) && defd args g && (negb (ev args g =? 0) || declines args a)
  | _ => false
  end.

(* `sem` is None both where the C expression is undefined and where a guard
   makes the folder decline: in either case nothing is claimed about a folded value *)
Definition sem (args : list Z) (e : cexp) : option Z :=
  if defd args e then Some (ev args e) else None.

(* syntactic equality of embeddings (used for the same-operation class) *)
Definition unop_eqb (a b : unop) : bool :=
  match a, b with Neg, Neg | BNot, BNot | LNot, LNot => true | _, _ => false end.

Definition binop_eqb (a b : binop) : bool :=
  match a, b with
  | Add, Add | Sub, Sub | Mul, Mul | Div, Div | Mod, Mod | Shl, Shl | Shr, Shr | BAnd, BAnd
  | BOr, BOr | BXor, BXor | LAnd, LAnd | LOr, LOr | Eq, Eq | Ne, Ne | Lt, Lt | Le, Le
  | Gt, Gt | Ge, Ge => true
  | _, _ => false
  end.

Fixpoint cexp_eqb (x y : cexp) : bool :=
  match x, y with
  | Arg i t, Arg j u => Nat.eqb i j && cty_eqb t u
  | Lit z t, Lit w u => (z =? w) && cty_eqb t u
  | FLit s t, FLit r u => String.eqb s r && cty_eqb t u
  | Glob s, Glob r => String.eqb s r
  | Cast t a, Cast u b => cty_eqb t u && cexp_eqb a b
  | Un o a, Un p b => unop_eqb o p && cexp_eqb a b
  | Bin o a b, Bin p c d => binop_eqb o p && cexp_eqb a c && cexp_eqb b d
  | Cond a b c, Cond d e f => cexp_eqb a d && cexp_eqb b e && cexp_eqb c f
  | Call f a, Call g b => String.eqb f g && cexp_eqb a b
  | ANil, ANil => true
  | ACons a b, ACons c d => cexp_eqb a c && cexp_eqb b d
  | Guard a b, Guard c d => cexp_eqb a c && cexp_eqb b d
  | _, _ => false
  end.

(* normal form for the same-operation comparison: conversions between pointer
   types and to the type the operand already has carry no meaning *)
Fixpoint strip (e : cexp) : cexp :=
  match e with
  | Cast PTR a => strip a
  | Cast t a => let a' := strip a in if cty_eqb (ty_of a') t then a' else Cast t a'
  | Un o a => Un o (strip a)
  | Bin o a b => Bin o (strip a) (strip b)
  | Cond a b c => Cond (strip a) (strip b) (strip c)
  | Call f a => Call f (strip a)
  | ACons a b => ACons (strip a) (strip b)
  | Guard a b => Guard (strip a) (strip b)
  | _ => e
  end.

Definition has_opaque_top (e : cexp) : bool :=
  match e with Opaque _ => true | _ => false end.

Fixpoint lookup (n : string) (t : list row) : option row :=
  match t with
  | [] => None
  | r :: t' => if String.eqb (rname r) n then Some r else lookup n t'
  end.

Fixpoint lookup_all (n : string) (t : list row) : list row :=
  match t with
  | [] => []
  | r :: t' => if String.eqb (rname r) n then r :: lookup_all n t' else lookup_all n t'
  end.
