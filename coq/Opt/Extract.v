Require Import ExtrOcamlBasic.
Require Import AV.Opt.Ctl AV.Gen.OptCtl AV.Opt.Model.
Extraction "Opt/extracted/opt_model.ml" opt_state shown trace lvl opt_ctl.
