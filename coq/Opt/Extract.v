Require Import ExtrOcamlBasic.
Require Import AV.Opt.Ctl AV.Gen.OptCtl AV.Opt.Model AV.Opt.FoamSem AV.Opt.Fold AV.Opt.Peep AV.Opt.Tool.
Extraction "Opt/extracted/opt_model.ml" opt_state shown trace lvl opt_ctl
  tool_cfold tool_peep z_to_dec z_of_dec ty_of_name name_of_ty has_fx frag_ops fx_ops.
