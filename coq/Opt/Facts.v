(* Facts.v — proofs about option decoding (Model.v over the generated AV.Gen.OptCtl).

   Every lemma quantifies over the state `f` the decoder starts from, i.e. over every
   sequence of earlier arguments.  The finite side (the rows of the table, the levels
   0..OPT_MaxQLevel) is walked row by row over the GENERATED list, so a harmless
   reordering or an added row keeps proving itself and a changed row breaks exactly the
   statement concerned. *)
Require Import ZArith List String Ascii Bool Lia.
Require Import AV.Opt.Ctl AV.Gen.OptCtl AV.Opt.Model.
Import ListNotations.
Local Open Scope Z_scope.
Local Open Scope string_scope.

Ltac walk tac := repeat (first [apply Forall_nil | apply Forall_cons; [tac|]]).
Ltac walk_list l tac :=
  lazymatch goal with
  | |- Forall ?P _ => let l' := eval vm_compute in l in change (Forall P l'); walk tac
  end.

(* ---------------------------------------------------------------- sequences *)

Lemma opt_from_app s l1 l2 : opt_from s (l1 ++ l2) = opt_from (opt_from s l1) l2.
Proof. unfold opt_from. apply fold_left_app. Qed.

Lemma opt_from_none l : opt_from None l = None.
Proof. induction l as [|a l IH]; [reflexivity|exact IH]. Qed.

Lemma opt_state_snoc pre f a : opt_state pre = Some f -> opt_state (pre ++ [a]) = opt_arg f a.
Proof. unfold opt_state. intro H. rewrite opt_from_app, H. reflexivity. Qed.

(* a rejected argument rejects the command line whatever follows *)
Lemma opt_state_rejected pre f a post :
  opt_state pre = Some f -> opt_arg f a = None -> opt_state (pre ++ a :: post) = None.
Proof.
  unfold opt_state. intros H Ha. rewrite opt_from_app, H. cbn [opt_from fold_left].
  rewrite Ha. apply opt_from_none.
Qed.

(* the part of the command line after the last level argument decides: what came before
   a -Q<n> is forgotten (stated below as: the result does not mention f) *)

(* ---------------------------------------------------------------- levels *)

Definition max_q : Z := Eval vm_compute in
  match decoder with
  | StLevel m :: _ => m
  | _ => -1
  end.

Fixpoint zrange (lo : Z) (n : nat) : list Z :=
  match n with O => [] | S k => lo :: zrange (lo + 1) k end.

Lemma zrange_in n : forall lo z, lo <= z < lo + Z.of_nat n -> In z (zrange lo n).
Proof.
  induction n as [|n IH]; intros lo z H; cbn [zrange].
  - lia.
  - destruct (Z.eq_dec z lo) as [->|Hne]; [left; reflexivity|right]. apply IH. lia.
Qed.

Definition levels : list Z := Eval vm_compute in zrange 0 (Z.to_nat (max_q + 1)).
Lemma levels_range : levels = zrange 0 (Z.to_nat (max_q + 1)).
Proof. reflexivity. Qed.

Definition level_ok (n : Z) : Prop := forall f,
  match opt_arg f (level_arg n) with
  | Some f' => shown f' = column n /\ lvl f' = n
  | None => False
  end.

Lemma levels_ok : Forall level_ok levels.
Proof. walk_list levels ltac:(unfold level_ok; intro f; vm_compute; split; reflexivity). Qed.

Lemma level_sets n f : 0 <= n <= max_q ->
  exists f', opt_arg f (level_arg n) = Some f' /\ shown f' = column n /\ lvl f' = n.
Proof.
  intro Hn. pose proof levels_ok as H. rewrite Forall_forall in H.
  assert (Hin : In n levels).
  { rewrite levels_range. apply zrange_in. rewrite Z2Nat.id by lia. lia. }
  specialize (H n Hin f). destruct (opt_arg f (level_arg n)) as [f'|]; [|contradiction].
  exists f'. split; [reflexivity|exact H].
Qed.

(* opt_levels_table *)
Lemma levels_table pre f n : opt_state pre = Some f -> 0 <= n <= max_q ->
  exists f', opt_state (pre ++ [level_arg n]) = Some f' /\ shown f' = column n /\ lvl f' = n.
Proof.
  intros Hp Hn. rewrite (opt_state_snoc _ _ _ Hp). apply level_sets. exact Hn.
Qed.

(* column n is column min(n, max_col) of the table for every row but the inline limit *)
Lemma column_is_min n r : In r opt_ctl -> rname r <> "inline-limit" ->
  In (rname r, V (nth (Z.to_nat (Z.min n max_col)) (rvals r) 0)) (column n).
Proof.
  intros Hr Hne. unfold column. apply in_map_iff. exists r. split; [|exact Hr].
  apply String.eqb_neq in Hne. rewrite Hne, andb_false_r. reflexivity.
Qed.

(* -O is -Q<std> *)
Lemma O_is_std f : match std_opt with
                   | Some s => opt_arg f "-O" = opt_arg f ("-Q" ++ s)
                   | None => False
                   end.
Proof. vm_compute. reflexivity. Qed.

Lemma O_sets pre f : opt_state pre = Some f ->
  exists f', opt_state (pre ++ ["-O"]) = Some f' /\ shown f' = column 2 /\ lvl f' = 2.
Proof.
  intro Hp. rewrite (opt_state_snoc _ _ _ Hp).
  pose proof (O_is_std f) as H. change std_opt with (Some "2") in H. cbv iota in H. rewrite H.
  apply (level_sets 2 f). vm_compute. split; discriminate.
Qed.

(* the default (no optimisation argument at all) is column OPT_DefaultLevel *)
Lemma default_state :
  match opt_state [], default_level with
  | Some f, Some d => shown f = column d /\ lvl f = d
  | _, _ => False
  end.
Proof. vm_compute. split; reflexivity. Qed.

(* ---------------------------------------------------------------- single flags *)

(* names handled by their own statement of the decoder (inline-all) *)
Definition also_names : list string := Eval vm_compute in
  flat_map (fun s => match s with StSetAlso n _ _ _ => [n] | _ => [] end) decoder.

Definition is_flag (r : row) : bool := match rnat r with NFlag => true | NFloat => false end.
Definition flag_rows : list row := Eval vm_compute in filter is_flag opt_ctl.
Definition plain_rows : list row := Eval vm_compute in
  filter (fun r => negb (existsb (String.eqb (rname r)) also_names)) flag_rows.
Definition plain_names : list string := Eval vm_compute in map rname plain_rows.
Lemma plain_names_rows : plain_names = map rname plain_rows.
Proof. reflexivity. Qed.

Lemma flag_names_rows : flag_names = map rname flag_rows.
Proof. vm_compute. reflexivity. Qed.

Lemma plain_in_flag_all : Forall (fun p => In p flag_names) plain_names.
Proof. walk_list plain_names ltac:(vm_compute; tauto). Qed.
Lemma plain_in_flag p : In p plain_names -> In p flag_names.
Proof. pose proof plain_in_flag_all as H. rewrite Forall_forall in H. apply H. Qed.
Lemma plain_rows_in_ctl : Forall (fun r => In r opt_ctl) plain_rows.
Proof. walk_list plain_rows ltac:(vm_compute; tauto). Qed.

Definition toggle_arg (on : bool) (p : string) : string := "-Q" ++ (if on then "" else "no-") ++ p.

Definition toggle_ok (on : bool) (r : row) : Prop := forall f,
  match opt_arg f (toggle_arg on (rname r)) with
  | Some f' => shown f' = set_shown (rname r) (b2v on) (shown f) /\ lvl f' = lvl f
  | None => False
  end.

Lemma toggles_on : Forall (toggle_ok true) plain_rows.
Proof. walk_list plain_rows ltac:(unfold toggle_ok; intro f; vm_compute; split; reflexivity). Qed.

(* switching off: every flag row, inline-all included *)
Lemma toggles_off : Forall (toggle_ok false) flag_rows.
Proof. walk_list flag_rows ltac:(unfold toggle_ok; intro f; vm_compute; split; reflexivity). Qed.

Lemma toggle_on p f : In p plain_names ->
  exists f', opt_arg f ("-Q" ++ p) = Some f' /\ shown f' = set_shown p (V 1) (shown f) /\ lvl f' = lvl f.
Proof.
  intro Hin. rewrite plain_names_rows in Hin. apply in_map_iff in Hin. destruct Hin as [r [<- Hi]].
  pose proof toggles_on as H. rewrite Forall_forall in H. specialize (H r Hi).
  specialize (H f). change (toggle_arg true (rname r)) with ("-Q" ++ rname r) in H.
  destruct (opt_arg f ("-Q" ++ rname r)) as [f'|]; [|contradiction].
  exists f'. split; [reflexivity|exact H].
Qed.

Lemma toggle_off p f : In p flag_names ->
  exists f', opt_arg f ("-Qno-" ++ p) = Some f' /\ shown f' = set_shown p (V 0) (shown f) /\ lvl f' = lvl f.
Proof.
  intro Hin. rewrite flag_names_rows in Hin.
  apply in_map_iff in Hin. destruct Hin as [r [<- Hi]].
  pose proof toggles_off as H. rewrite Forall_forall in H. specialize (H r Hi).
  specialize (H f). change (toggle_arg false (rname r)) with ("-Qno-" ++ rname r) in H.
  destruct (opt_arg f ("-Qno-" ++ rname r)) as [f'|]; [|contradiction].
  exists f'. split; [reflexivity|exact H].
Qed.

(* -Q<p> / -Qno-<p> after ANY earlier arguments change exactly the entry p of the table *)
Lemma single_on pre f p : opt_state pre = Some f -> In p plain_names ->
  exists f', opt_state (pre ++ ["-Q" ++ p]) = Some f' /\
             shown f' = set_shown p (V 1) (shown f) /\ lvl f' = lvl f.
Proof. intros Hp Hin. rewrite (opt_state_snoc _ _ _ Hp). apply toggle_on. exact Hin. Qed.

Lemma single_off pre f p : opt_state pre = Some f -> In p flag_names ->
  exists f', opt_state (pre ++ ["-Qno-" ++ p]) = Some f' /\
             shown f' = set_shown p (V 0) (shown f) /\ lvl f' = lvl f.
Proof. intros Hp Hin. rewrite (opt_state_snoc _ _ _ Hp). apply toggle_off. exact Hin. Qed.

(* set_shown really is "exactly one entry": every other name keeps its value *)
Lemma set_shown_other p x l q y : q <> p -> In (q, y) l -> In (q, y) (set_shown p x l).
Proof.
  intros Hne Hin. unfold set_shown. apply in_map_iff. exists (q, y). split; [|exact Hin].
  cbn [fst]. apply String.eqb_neq in Hne. rewrite Hne. reflexivity.
Qed.

Lemma set_shown_names p x l : map fst (set_shown p x l) = map fst l.
Proof.
  unfold set_shown. rewrite map_map. apply map_ext. intros [a b]. cbn [fst].
  destruct (String.eqb a p); reflexivity.
Qed.

(* the statement with its own decoder statement: -Qinline-all also switches inline on *)
Lemma inline_all_on f :
  match opt_arg f "-Qinline-all" with
  | Some f' => shown f' = set_shown "inline" (V 1) (set_shown "inline-all" (V 1) (shown f)) /\ lvl f' = lvl f
  | None => False
  end.
Proof. vm_compute. split; reflexivity. Qed.

Lemma inline_all_single pre f : opt_state pre = Some f ->
  exists f', opt_state (pre ++ ["-Qinline-all"]) = Some f' /\
             shown f' = set_shown "inline" (V 1) (set_shown "inline-all" (V 1) (shown f)) /\ lvl f' = lvl f.
Proof.
  intro Hp. rewrite (opt_state_snoc _ _ _ Hp). pose proof (inline_all_on f) as H.
  destruct (opt_arg f "-Qinline-all") as [f'|]; [|contradiction].
  exists f'. split; [reflexivity|exact H].
Qed.

(* ---------------------------------------------------------------- -Q0 -Q<p>, -Q9 -Qno-<p> *)

Lemma q0_pass pre f p : opt_state pre = Some f -> In p plain_names ->
  exists f', opt_state (pre ++ [level_arg 0; "-Q" ++ p]) = Some f' /\
             shown f' = set_shown p (V 1) (column 0) /\ lvl f' = 0.
Proof.
  intros Hp Hin.
  assert (H0 : 0 <= 0 <= max_q) by (vm_compute; split; discriminate).
  destruct (levels_table pre f 0 Hp H0) as [f1 [H1 [Hs1 Hl1]]].
  destruct (single_on _ f1 p H1 Hin) as [f2 [H2 [Hs2 Hl2]]].
  exists f2. rewrite <- app_assoc in H2. split; [exact H2|]. rewrite Hs2, Hs1, Hl2, Hl1. split; reflexivity.
Qed.

Lemma qmax_no_pass pre f p : opt_state pre = Some f -> In p flag_names ->
  exists f', opt_state (pre ++ [level_arg max_q; "-Qno-" ++ p]) = Some f' /\
             shown f' = set_shown p (V 0) (column max_q) /\ lvl f' = max_q.
Proof.
  intros Hp Hin.
  assert (H0 : 0 <= max_q <= max_q) by (vm_compute; split; discriminate).
  destruct (levels_table pre f max_q Hp H0) as [f1 [H1 [Hs1 Hl1]]].
  destruct (single_off _ f1 p H1 Hin) as [f2 [H2 [Hs2 Hl2]]].
  exists f2. rewrite <- app_assoc in H2. split; [exact H2|]. rewrite Hs2, Hs1, Hl2, Hl1. split; reflexivity.
Qed.

(* "enables exactly p" / "disables exactly p", as sets of enabled flag names *)
Lemma q0_enables_exactly : Forall (fun p => enabled (set_shown p (V 1) (column 0)) = [p]) plain_names.
Proof. walk_list plain_names ltac:(vm_compute; reflexivity). Qed.

Lemma qmax_disables_exactly :
  Forall (fun p => enabled (set_shown p (V 0) (column max_q))
                   = filter (fun q => negb (String.eqb q p)) (enabled (column max_q))) flag_names.
Proof. walk_list flag_names ltac:(vm_compute; reflexivity). Qed.

Lemma q0_pass_enabled pre f p : opt_state pre = Some f -> In p plain_names ->
  exists f', opt_state (pre ++ [level_arg 0; "-Q" ++ p]) = Some f' /\ enabled (shown f') = [p].
Proof.
  intros Hp Hin. destruct (q0_pass pre f p Hp Hin) as [f' [H [Hs _]]].
  exists f'. split; [exact H|]. rewrite Hs.
  pose proof q0_enables_exactly as E. rewrite Forall_forall in E. apply E. exact Hin.
Qed.

Lemma qmax_no_pass_enabled pre f p : opt_state pre = Some f -> In p flag_names ->
  exists f', opt_state (pre ++ [level_arg max_q; "-Qno-" ++ p]) = Some f' /\
             enabled (shown f') = filter (fun q => negb (String.eqb q p)) (enabled (column max_q)).
Proof.
  intros Hp Hin. destruct (qmax_no_pass pre f p Hp Hin) as [f' [H [Hs _]]].
  exists f'. split; [exact H|]. rewrite Hs.
  pose proof qmax_disables_exactly as E. rewrite Forall_forall in E. apply E. exact Hin.
Qed.

(* ---------------------------------------------------------------- -Qall, -Qno-all *)

Definition all_shown (on : bool) (f : st) : list (string * val) :=
  map (fun r => (rname r, if is_flag r then b2v on else env f (rvar r))) opt_ctl.

Lemma all_sets (on : bool) f :
  match opt_arg f (toggle_arg on "all") with
  | Some f' => shown f' = all_shown on f /\ lvl f' = lvl f
  | None => False
  end.
Proof. destruct on; vm_compute; split; reflexivity. Qed.

Lemma all_single pre f on : opt_state pre = Some f ->
  exists f', opt_state (pre ++ [toggle_arg on "all"]) = Some f' /\ shown f' = all_shown on f /\ lvl f' = lvl f.
Proof.
  intro Hp. rewrite (opt_state_snoc _ _ _ Hp). pose proof (all_sets on f) as H.
  destruct (opt_arg f (toggle_arg on "all")) as [f'|]; [|contradiction].
  exists f'. split; [reflexivity|exact H].
Qed.

(* ---------------------------------------------------------------- numeric rows *)

Lemma num_of_decimal m s : short_decimal s = true -> num_of m s = V (m * dec_acc 0 s).
Proof. intro H. unfold num_of. rewrite H. reflexivity. Qed.

Definition float_rows : list row := Eval vm_compute in filter (fun r => negb (is_flag r)) opt_ctl.

Definition float_ok (sep : string) (r : row) : Prop := forall f s,
  match opt_arg f ("-Q" ++ rname r ++ sep ++ s) with
  | Some f' => shown f' = set_shown (rname r) (num_of 100 s) (shown f) /\ lvl f' = lvl f
  | None => False
  end.

Lemma floats_eq : Forall (float_ok "=") float_rows.
Proof. walk_list float_rows ltac:(unfold float_ok; intros f s; vm_compute; split; reflexivity). Qed.
Lemma floats_colon : Forall (float_ok ":") float_rows.
Proof. walk_list float_rows ltac:(unfold float_ok; intros f s; vm_compute; split; reflexivity). Qed.

Lemma inline_limit_sets pre f s : opt_state pre = Some f -> short_decimal s = true ->
  exists f', opt_state (pre ++ ["-Qinline-limit=" ++ s]) = Some f' /\
             shown f' = set_shown "inline-limit" (V (100 * dec_acc 0 s)) (shown f) /\ lvl f' = lvl f.
Proof.
  intros Hp Hs. rewrite (opt_state_snoc _ _ _ Hp).
  assert (Hin : In "inline-limit" (map rname float_rows)) by (vm_compute; tauto).
  apply in_map_iff in Hin. destruct Hin as [r [Hr Hi]].
  pose proof floats_eq as H. rewrite Forall_forall in H. specialize (H r Hi).
  specialize (H f s). rewrite Hr in H.
  change ("-Q" ++ "inline-limit" ++ "=" ++ s) with ("-Qinline-limit=" ++ s) in H.
  destruct (opt_arg f ("-Qinline-limit=" ++ s)) as [f'|]; [|contradiction].
  exists f'. split; [reflexivity|]. rewrite <- (num_of_decimal 100 s Hs). exact H.
Qed.

(* ---------------------------------------------------------------- last toggle wins *)

Lemma set_shown_twice p x y l : set_shown p x (set_shown p y l) = set_shown p x l.
Proof.
  unfold set_shown. rewrite map_map. apply map_ext. intros [a b]. cbn [fst].
  destruct (String.eqb a p) eqn:E; cbn [fst]; rewrite E; reflexivity.
Qed.

Lemma last_toggle_wins pre f p : opt_state pre = Some f -> In p plain_names ->
  (exists f', opt_state (pre ++ ["-Q" ++ p; "-Qno-" ++ p]) = Some f' /\ shown f' = set_shown p (V 0) (shown f)) /\
  (exists f', opt_state (pre ++ ["-Qno-" ++ p; "-Q" ++ p]) = Some f' /\ shown f' = set_shown p (V 1) (shown f)).
Proof.
  intros Hp Hin.
  assert (Hf : In p flag_names).
  { apply plain_in_flag. exact Hin. }
  split.
  - destruct (single_on pre f p Hp Hin) as [f1 [H1 [Hs1 _]]].
    destruct (single_off _ f1 p H1 Hf) as [f2 [H2 [Hs2 _]]].
    exists f2. rewrite <- app_assoc in H2. split; [exact H2|]. rewrite Hs2, Hs1. apply set_shown_twice.
  - destruct (single_off pre f p Hp Hf) as [f1 [H1 [Hs1 _]]].
    destruct (single_on _ f1 p H1 Hin) as [f2 [H2 [Hs2 _]]].
    exists f2. rewrite <- app_assoc in H2. split; [exact H2|]. rewrite Hs2, Hs1. apply set_shown_twice.
Qed.

(* ---------------------------------------------------------------- the pipeline *)

(* -Q0 -Q<p> runs exactly the steps guarded by p's variable (one loop iteration, the
   unconditional announcements included) *)
Definition isolated_ok (r : row) : Prop := forall f,
  match opt_arg f (level_arg 0) with
  | Some f1 =>
      match opt_arg f1 ("-Q" ++ rname r) with
      | Some f2 => trace f2 = Some (flat_map (steps_of 1 [rvar r]) pipeline)
      | None => False
      end
  | None => False
  end.

Lemma isolated_traces : Forall isolated_ok plain_rows.
Proof. walk_list plain_rows ltac:(unfold isolated_ok; intro f; vm_compute; reflexivity). Qed.

Lemma isolated_trace pre f p : opt_state pre = Some f -> In p plain_names ->
  exists f' r, opt_state (pre ++ [level_arg 0; "-Q" ++ p]) = Some f' /\ In r opt_ctl /\ rname r = p /\
               trace f' = Some (flat_map (steps_of 1 [rvar r]) pipeline).
Proof.
  intros Hp Hin. rewrite plain_names_rows in Hin. apply in_map_iff in Hin. destruct Hin as [r [Hr Hi]].
  pose proof isolated_traces as T. rewrite Forall_forall in T. specialize (T r Hi f).
  assert (Happ : forall a b : string, (pre ++ [a; b] = (pre ++ [a]) ++ [b])%list)
    by (intros a b; rewrite <- app_assoc; reflexivity).
  rewrite Happ.
  destruct (opt_arg f (level_arg 0)) as [f1|] eqn:E1; [|contradiction].
  assert (H1 : opt_state (pre ++ [level_arg 0]) = Some f1) by (rewrite (opt_state_snoc _ _ _ Hp); exact E1).
  rewrite (opt_state_snoc _ _ _ H1). rewrite <- Hr.
  destruct (opt_arg f1 ("-Q" ++ rname r)) as [f2|]; [|contradiction].
  exists f2, r. split; [reflexivity|]. split; [|split; [reflexivity|exact T]].
  pose proof plain_rows_in_ctl as P. rewrite Forall_forall in P. apply P. exact Hi.
Qed.

(* with everything off nothing but the unconditional steps runs *)
Lemma q0_trace f :
  match opt_arg f (level_arg 0) with
  | Some f' => trace f' = Some (flat_map (steps_of 1 []) pipeline)
  | None => False
  end.
Proof. vm_compute. reflexivity. Qed.

(* ---------------------------------------------------------------- the documented level table *)

(* `aldor -h Q` prints which optimisation is on at which level.  The table of optfoam.c agrees
   with it row by row, except for the rows listed here (cc-fnonstd: documented as on at -Q4,
   never switched on by a level in the code). *)
Definition help_exceptions : list string := ["cc-fnonstd"].

Definition help_row_ok (r : row) : Prop :=
  match find (fun p => String.eqb (fst p) (rname r)) help_levels with
  | Some p => In (rname r) help_exceptions \/ snd p = map (fun v => negb (v =? 0)%Z) (rvals r)
  | None => forallb (fun v => (v =? 0)%Z) (rvals r) = true      (* undocumented rows are off at every level *)
  end.

Lemma help_agrees_rows : Forall help_row_ok flag_rows.
Proof.
  walk_list flag_rows ltac:(unfold help_row_ok; vm_compute; first [reflexivity | right; reflexivity | left; tauto]).
Qed.

Lemma help_agrees r : In r opt_ctl -> rnat r = NFlag -> help_row_ok r.
Proof.
  intros Hin Hn. pose proof help_agrees_rows as H. rewrite Forall_forall in H. apply H.
  assert (E : flag_rows = filter is_flag opt_ctl) by (vm_compute; reflexivity).
  rewrite E. apply filter_In. split; [exact Hin|]. unfold is_flag. rewrite Hn. reflexivity.
Qed.

Lemma help_default_agrees : help_default = default_level /\ match help_O, std_opt with
                                                             | Some n, Some s => s = digit n
                                                             | _, _ => False
                                                             end.
Proof. vm_compute. split; reflexivity. Qed.
