(* Ctl.v — the vocabulary in which the translator (props/c02.py:generate) writes down
   what it reads in optfoam.c: the rows of optControl[], the statements of
   optSetLevel / optSetOptimization (one constructor per statement shape the C uses)
   and the pass pipeline of optimizeFoam.  Definitions only. *)
Require Import ZArith List String Ascii.
Import ListNotations.

Inductive nature := NFlag | NFloat.

(* one initialiser of optControl[]: {name, nature, &var, {v0..vMaxLevel}} *)
Record row := mkRow { rname : string; rnat : nature; rvar : string; rvals : list Z }.

(* strEqual (strcmp) or strAEqual/strAIsPrefix (tolower on both sides) *)
Inductive cmp := CmpExact | CmpNoCase.

(* the statements of optSetOptimization(opt), in source order.  Each either returns
   (the option is decoded) or falls through to the next one. *)
Inductive stage :=
  (* i = opt[0]-'0'; if (!opt[1] && 0 <= i && i <= maxq) { optSetLevel(i); return 0; } *)
| StLevel (maxq : Z)
  (* for rows of nature FLOAT: s = <prefix test>(name, opt); *s in seps; *pvar = (int)(mult*atof(s+1)); return 0 *)
| StFloat (c : cmp) (seps : list ascii) (mult : Z)
  (* isOn = true; while (s = <prefix test>(neg, opt)) { isOn = !isOn; opt = s; } *)
| StNegate (neg : string) (c : cmp)
  (* if (<eq test>(opt, name)) { optSetAllTo(isOn); return 0; }   optSetAllTo: every row of nature FLAG *)
| StAll (name : string) (c : cmp)
  (* if (<eq test>(opt, name)) { v1 = isOn; if (isOn) v2 = isOn; return 0; } *)
| StSetAlso (name : string) (c : cmp) (v1 v2 : string)
  (* for rows: name <eq test> opt, nature FLAG: *pvar = isOn; return 0 *)
| StFlag (c : cmp)
  (* a statement the translator does not recognise: decoding is not modelled *)
| StUnknown (text : string).

(* the body of optimizeFoam: which pass runs under which variables.  A label is the
   text the pass announces under -WD+optf. *)
Inductive pstep :=
| PIf (vars : list string) (label : string) (calls : list string)   (* if (v1 || v2 ..) { announce; calls } *)
| PWhileData (label : string)                                       (* while (newConsts && ...): data dependent *)
| PLoop (label : string) (body : list pstep)                        (* for (i = 0; i < iters; i++) { announce; body } *)
| PSay (label : string).                                            (* unconditional announcement *)
