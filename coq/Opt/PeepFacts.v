(* PeepFacts.v — soundness of the peephole pass (Peep.v) on the expression fragment, for
   expressions of any size, from the per-row obligations of the generated rule tables. *)
Require Import ZArith List String Bool Lia ZifyBool.
Require Import AV.Builtins.CInt AV.Builtins.Spec AV.Builtins.Facts AV.Gen.Builtins.
Require Import AV.Opt.PeepCtl AV.Gen.PeepTbl AV.Opt.FoamSem AV.Opt.Fold AV.Opt.FoldFacts AV.Opt.PeepSem AV.Opt.Peep AV.Opt.PeepTblFacts.
Import ListNotations.
Local Open Scope string_scope.
Local Open Scope Z_scope.
Ltac Zify.zify_post_hook ::= Z.to_euclidean_division_equations.

(* ---------------------------------------------------------------- equality tests *)

Lemma pop_eqb_eq a b : pop_eqb a b = true -> a = b.
Proof.
  destruct a, b; cbn [pop_eqb]; intro H; try discriminate; try reflexivity.
  apply String.eqb_eq in H. subst. reflexivity.
Qed.

Lemma pop_eqb_refl a : pop_eqb a a = true.
Proof. destruct a; cbn [pop_eqb]; try reflexivity. apply String.eqb_refl. Qed.

Lemma expr_eqb_eq : forall a b, expr_eqb a b = true -> a = b.
Proof.
  induction a as [t z|t x|t x f|op args IH|t e IH] using expr_ind'; intros [t' z'|t' x'|t' x' f'|op' args'|t' e'] H;
    cbn [expr_eqb] in H; try discriminate.
  - apply andb_true_iff in H as [H1 H2]. apply fty_eqb_eq in H1. apply Z.eqb_eq in H2. subst. reflexivity.
  - apply andb_true_iff in H as [H1 H2]. apply fty_eqb_eq in H1. apply Nat.eqb_eq in H2. subst. reflexivity.
  - apply andb_true_iff in H as [H1 H3]. apply andb_true_iff in H1 as [H1 H2].
    apply fty_eqb_eq in H1. apply Nat.eqb_eq in H2. apply Bool.eqb_prop in H3. subst. reflexivity.
  - apply andb_true_iff in H as [H1 H2]. apply String.eqb_eq in H1. subst op'. f_equal.
    revert args' H2. induction IH as [|a l Ha Hl IHl]; intros [|b l'] H2; try discriminate; [reflexivity|].
    apply andb_true_iff in H2 as [H2 H3]. f_equal; [apply Ha; exact H2|apply IHl; exact H3].
  - apply andb_true_iff in H as [H1 H2]. apply fty_eqb_eq in H1. subst. f_equal. apply IH. exact H2.
Qed.

Lemma in_ty_b_b2z b : in_ty_b FBool (Z.b2z b) = true.
Proof. destruct b; reflexivity. Qed.

Lemma in_sint a : in_ty_b FSInt a = true -> -9223372036854775808 <= a < 9223372036854775808.
Proof. cbn [in_ty_b]. lia. Qed.

Lemma in_sint_intro a : -9223372036854775808 <= a < 9223372036854775808 -> in_ty_b FSInt a = true.
Proof. cbn [in_ty_b]. lia. Qed.

Lemma in_bool a : in_ty_b FBool a = true -> a = 0 \/ a = 1.
Proof. cbn [in_ty_b]. lia. Qed.

Lemma red_range a : in_ty_b FSInt (red a) = true.
Proof. apply in_sint_intro. unfold red, wrap. lia. Qed.

Section Sem.
  Variable S : Type.
  Variable rd : S -> nat -> Z.
  Variable lv : nat -> S -> Z.
  Variable call : nat -> S -> Z * S.

  Notation ev := (ev S rd lv call).
  Notation evs := (evs S rd lv call).

  Lemma ev_bcall1 s op a :
    ev s (BCall op [a]) =
    match ev s a with
    | Some (va, s1) => match bval op [va] with Some v => Some (v, s1) | None => None end
    | None => None
    end.
  Proof.
    rewrite ev_bcall. cbn [FoamSem.evs]. destruct (ev s a) as [[va s1]|]; reflexivity.
  Qed.

  Lemma ev_bcall2 s op a b :
    ev s (BCall op [a; b]) =
    match ev s a with
    | Some (va, s1) =>
        match ev s1 b with
        | Some (vb, s2) => match bval op [va; vb] with Some v => Some (v, s2) | None => None end
        | None => None
        end
    | None => None
    end.
  Proof.
    rewrite ev_bcall. cbn [FoamSem.evs]. destruct (ev s a) as [[va s1]|]; [|reflexivity].
    destruct (ev s1 b) as [[vb s2]|]; reflexivity.
  Qed.

  (* no side effect: the state is left alone *)
  Lemma pure_state : forall e, has_fx e = false -> forall s v s', ev s e = Some (v, s') -> s' = s.
  Proof.
    induction e as [t z|t x|t x f|op args IH|t e IH] using expr_ind'; cbn [has_fx]; intros Hp s v s' H.
    - cbn in H. congruence.
    - cbn in H. congruence.
    - subst f. cbn in H. congruence.
    - apply orb_false_iff in Hp as [_ Hp]. rewrite ev_bcall in H.
      destruct (evs s args) as [[vs s1]|] eqn:E; [|discriminate].
      destruct (bval op vs); [|discriminate]. injection H as _ <-.
      clear op v. revert s vs s1 E. induction IH as [|a l Ha Hl IHl]; intros s vs s1 E.
      + cbn in E. congruence.
      + cbn [existsb] in Hp. apply orb_false_iff in Hp as [Hpa Hpl].
        cbn [FoamSem.evs] in E. destruct (ev s a) as [[va sa]|] eqn:Ea; [|discriminate].
        destruct (evs sa l) as [[vl sl]|] eqn:El; [|discriminate]. injection E as _ <-.
        rewrite (Ha Hpa _ _ _ Ea) in El. apply (IHl Hpl _ _ _ El).
    - rewrite ev_cast in H. destruct (ev s e) as [[v0 s0]|] eqn:E; [|discriminate].
      destruct (fits t v0); [|discriminate]. injection H as _ <-. apply (IH Hp _ _ _ E).
  Qed.

  Lemma stable_pure : forall e, stable e = true -> has_fx e = false.
  Proof.
    induction e as [t z|t x|t x f|op args IH|t e IH] using expr_ind'; cbn [stable has_fx]; intro H; try discriminate; try reflexivity.
    - apply andb_true_iff in H as [H1 H2]. apply negb_true_iff in H1. rewrite H1. cbn [orb].
      induction IH as [|a l Ha Hl IHl]; [reflexivity|].
      cbn [forallb existsb] in *. apply andb_true_iff in H2 as [H2 H3]. rewrite (Ha H2), (IHl H3). reflexivity.
    - apply IH. exact H.
  Qed.

  (* a stable expression has the same value in every state *)
  Lemma stable_ev : forall e, stable e = true -> forall s v s', ev s e = Some (v, s') ->
                                                 forall s2, ev s2 e = Some (v, s2).
  Proof.
    induction e as [t z|t x|t x f|op args IH|t e IH] using expr_ind'; cbn [stable]; intros Hs s v s' H s2; try discriminate.
    - cbn in *. congruence.
    - apply andb_true_iff in Hs as [_ Hs]. rewrite ev_bcall in *.
      destruct (evs s args) as [[vs s1]|] eqn:E; [|discriminate].
      assert (E2 : evs s2 args = Some (vs, s2)).
      { clear H. revert s vs s1 E. induction IH as [|a l Ha Hl IHl]; intros s vs s1 E.
        - cbn in *. congruence.
        - cbn [forallb] in Hs. apply andb_true_iff in Hs as [Hsa Hsl].
          cbn [FoamSem.evs] in *. destruct (ev s a) as [[va sa]|] eqn:Ea; [|discriminate].
          destruct (evs sa l) as [[vl sl]|] eqn:El; [|discriminate]. injection E as <- _.
          rewrite (Ha Hsa _ _ _ Ea s2). rewrite (IHl Hsl _ _ _ El). reflexivity. }
      rewrite E2. destruct (bval op vs); [|discriminate]. congruence.
    - rewrite ev_cast in *. destruct (ev s e) as [[v0 s0]|] eqn:E; [|discriminate].
      rewrite (IH Hs _ _ _ E s2). destruct (fits t v0); [|discriminate]. congruence.
  Qed.

  (* exchanging two operands under swap_ok *)
  Lemma swap_commute a b s va s1 vb s2 :
    swap_ok a b = true -> ev s a = Some (va, s1) -> ev s1 b = Some (vb, s2) ->
    exists s1', ev s b = Some (vb, s1') /\ ev s1' a = Some (va, s2).
  Proof.
    unfold swap_ok. intros H Ea Eb.
    apply orb_true_iff in H as [H|H]; [apply orb_true_iff in H as [H|H]|].
    - apply andb_true_iff in H as [Ha Hb]. apply negb_true_iff in Ha, Hb.
      pose proof (pure_state a Ha _ _ _ Ea) as ->. pose proof (pure_state b Hb _ _ _ Eb) as ->.
      exists s. split; assumption.
    - pose proof (pure_state a (stable_pure a H) _ _ _ Ea) as ->.
      exists s2. split; [exact Eb|]. apply (stable_ev a H _ _ _ Ea).
    - pose proof (pure_state b (stable_pure b H) _ _ _ Eb) as ->.
      exists s. split; [apply (stable_ev b H _ _ _ Eb)|exact Ea].
  Qed.

  (* ---------------------------------------------------------------- the tables *)

  Section Tbl.
    Variable tbl : list bvrow.
    Hypothesis Hbv : Forall bv_ok tbl.
    Hypothesis Hops : Forall op_ok peep_ops.

    Lemma find_info_ok op i : find_info tbl op = Some i -> bname i = op /\ bv_ok i.
    Proof.
      unfold find_info. intro H. apply find_some in H as [H1 H2]. apply String.eqb_eq in H2.
      rewrite Forall_forall in Hbv. split; [exact H2|apply Hbv; exact H1].
    Qed.

    Lemma find_foam_op_ok p t f :
      find_foam_op tbl p t = Some f -> exists i, bname i = f /\ bop i = p /\ btype i = t /\ bv_ok i.
    Proof.
      unfold find_foam_op. destruct (find _ tbl) as [i|] eqn:E; [|discriminate]. intro H. injection H as <-.
      apply find_some in E as [H1 H2]. apply andb_true_iff in H2 as [H2 H3].
      apply pop_eqb_eq in H2. apply fty_eqb_eq in H3. rewrite Forall_forall in Hbv.
      exists i. repeat split; try assumption. apply Hbv. exact H1.
    Qed.

    Lemma op_row_ok p r : op_row p = Some r -> oop r = p /\ op_ok r.
    Proof.
      unfold op_row. intro H. apply find_some in H as [H1 H2]. apply pop_eqb_eq in H2.
      rewrite Forall_forall in Hops. split; [exact H2|apply Hops; exact H1].
    Qed.

    (* den1 and den2 are never both defined for one operation *)
    Lemma den_disjoint p t a x t' b c : den1 p t a = Some x -> den2 p t' b c = None.
    Proof. destruct p; cbn [den1 den2]; intro H; try discriminate; reflexivity. Qed.

    Lemma den2_int p t a b v : den2 p t a b = Some v -> (pop_eqb p OpPlus || pop_eqb p OpMinus || pop_eqb p OpTimes = true) -> t = FSInt.
    Proof.
      destruct p; cbn [den2 pop_eqb orb]; intros H K; try discriminate; destruct t; cbn [int_ty] in H; try discriminate; reflexivity.
    Qed.

    Lemma den1_int p t a v : den1 p t a = Some v -> t = FSInt.
    Proof. destruct p; cbn [den1]; intro H; try discriminate; destruct t; cbn [int_ty] in H; try discriminate; reflexivity. Qed.

    (* a defined two-operand call of a table builtin *)
    Lemma bval_bin i va vb v :
      bv_ok i -> bval (bname i) [va; vb] = Some v ->
      in_ty_b (btype i) va = true /\ in_ty_b (btype i) vb = true /\ den2 (bop i) (btype i) va vb = Some v.
    Proof.
      unfold bv_ok, bval. destruct (sop_of (bname i)) as [o|]; [|discriminate].
      intros [[Hs Hf]|[Hs Hf]] H; rewrite Hs in H; cbn [typed_b] in H.
      - destruct (in_ty_b (btype i) va) eqn:Ea; [|discriminate].
        destruct (in_ty_b (btype i) vb) eqn:Eb; [|discriminate]. cbn [andb] in H.
        destruct (Hf va vb Ea Eb) as [Hd Hv]. rewrite Hd in H. injection H as <-. auto.
      - destruct (in_ty_b (btype i) va); discriminate.
    Qed.

    Lemma bval_un i va v :
      bv_ok i -> bval (bname i) [va] = Some v ->
      in_ty_b (btype i) va = true /\ den1 (bop i) (btype i) va = Some v.
    Proof.
      unfold bv_ok, bval. destruct (sop_of (bname i)) as [o|]; [|discriminate].
      intros [[Hs Hf]|[Hs Hf]] H; rewrite Hs in H; cbn [typed_b] in H.
      - destruct (in_ty_b (btype i) va); discriminate.
      - destruct (in_ty_b (btype i) va) eqn:Ea; [|discriminate]. cbn [andb] in H.
        destruct (Hf va Ea) as [Hd Hv]. rewrite Hd in H. injection H as <-. auto.
    Qed.

    Lemma bval_bin_intro i va vb v :
      bv_ok i -> in_ty_b (btype i) va = true -> in_ty_b (btype i) vb = true ->
      den2 (bop i) (btype i) va vb = Some v -> bval (bname i) [va; vb] = Some v.
    Proof.
      unfold bv_ok, bval. destruct (sop_of (bname i)) as [o|].
      - intros [[Hs Hf]|[Hs Hf]] Ea Eb Hd.
        + rewrite Hs. cbn [typed_b]. rewrite Ea, Eb. cbn [andb]. destruct (Hf va vb Ea Eb) as [H1 H2].
          rewrite H1. congruence.
        + destruct (Hf va Ea) as [_ H2]. rewrite (den_disjoint _ _ _ _ (btype i) va vb H2) in Hd. discriminate.
      - intros [H _] _ _ Hd. rewrite H in Hd. discriminate.
    Qed.

    Lemma bval_un_intro i va v :
      bv_ok i -> in_ty_b (btype i) va = true -> den1 (bop i) (btype i) va = Some v -> bval (bname i) [va] = Some v.
    Proof.
      unfold bv_ok, bval. destruct (sop_of (bname i)) as [o|].
      - intros [[Hs Hf]|[Hs Hf]] Ea Hd.
        + destruct (Hf va va Ea Ea) as [_ H2]. rewrite (den_disjoint _ _ _ _ (btype i) va va Hd) in H2. discriminate.
        + rewrite Hs. cbn [typed_b]. rewrite Ea. cbn [andb]. destruct (Hf va Ea) as [H1 H2]. rewrite H1. congruence.
      - intros [_ [H _]] _ Hd. rewrite H in Hd. discriminate.
    Qed.

    (* BoolNot, the one builtin the rules name directly besides SIntShiftUp *)
    Lemma bval_not x : in_ty_b FBool x = true -> bval "BoolNot" [x] = Some (Z.b2z (negb (x =? 1))).
    Proof. intro H. unfold bval. change (sop_of "BoolNot") with (Some BoolNot). cbn [sop_sig fst typed_b in_dom]. rewrite H. reflexivity. Qed.

    Lemma bval_not_inv x v : bval "BoolNot" [x] = Some v -> in_ty_b FBool x = true /\ v = Z.b2z (negb (x =? 1)).
    Proof.
      unfold bval. change (sop_of "BoolNot") with (Some BoolNot). cbn [sop_sig fst typed_b in_dom].
      destruct (in_ty_b FBool x); [|discriminate]. cbn. intro H. injection H as <-. auto.
    Qed.

    (* ------------------------------------------------------------ peepMakeBinaryOp / peepMakeUnaryOp *)

    Lemma make_binary_sound p t a b e s va s1 vb s2 v :
      make_binary tbl p t a b = Some e ->
      ev s a = Some (va, s1) -> ev s1 b = Some (vb, s2) ->
      in_ty_b t va = true -> in_ty_b t vb = true -> den2 p t va vb = Some v ->
      ev s e = Some (v, s2).
    Proof.
      unfold make_binary. destruct (find_foam_op tbl p t) as [f|] eqn:E; [|discriminate].
      intro H. injection H as <-. intros Ea Eb Ta Tb Hd.
      destruct (find_foam_op_ok _ _ _ E) as [i [Hn [Hp [Ht Hi]]]]. subst f p t.
      rewrite ev_bcall2, Ea, Eb. rewrite (bval_bin_intro i va vb v Hi Ta Tb Hd). reflexivity.
    Qed.

    (* peepBValOpInfo gives arity 0 to the operations that stand for a constant *)
    Lemma const_arities : forallb (fun p => arity_of p =? 0) const_ops = true.
    Proof. vm_compute. reflexivity. Qed.

    Lemma arity_const p : In p const_ops -> arity_of p = 0.
    Proof.
      intro H. pose proof const_arities as K. rewrite forallb_forall in K.
      apply Z.eqb_eq. apply K. exact H.
    Qed.

    Lemma created_unary q t f vg :
      find_foam_op tbl q t = Some f -> cmp_ty t = true ->
      (q = OpNeg \/ q = OpNext \/ q = OpPrev \/ q = OpIsZero \/ q = OpIsNeg \/ q = OpIsPos) ->
      in_ty_b t vg = true ->
      exists x, den1 q t vg = Some x /\ bval f [vg] = Some x.
    Proof.
      intros E Ht Hq Tg. destruct (find_foam_op_ok _ _ _ E) as [i [Hn [Hp [Hti Hi]]]]. subst f t.
      assert (Hc : creatable q = true) by (destruct Hq as [->|[->|[->|[->|[->| ->]]]]]; reflexivity).
      assert (H2 : forall a b, den2 q (btype i) a b = None)
        by (intros a b; destruct Hq as [->|[->|[->|[->|[->| ->]]]]]; reflexivity).
      pose proof Hi as Hi'. unfold bv_ok in Hi'. destruct (sop_of (bname i)) as [o|] eqn:Eo.
      - destruct Hi' as [[Hs Hf]|[Hs Hf]].
        + destruct (Hf vg vg Tg Tg) as [_ K]. rewrite Hp, H2 in K. discriminate.
        + destruct (Hf vg Tg) as [_ K]. rewrite Hp in K. exists (spec o [vg]). split; [exact K|].
          apply bval_un_intro; [exact Hi|exact Tg|rewrite Hp; exact K].
      - destruct Hi' as [_ [_ K]]. rewrite Hp, Hc, Ht in K. discriminate.
    Qed.

    Lemma cmp_value t c : cmp_ty t = true -> foam_value t c = Some (Const t c).
    Proof. destruct t; cbn; intro H; try discriminate; reflexivity. Qed.

    Lemma make_unary_sound n t g e s vg s1 :
      make_unary tbl n t g = Some e -> unary_like n = true -> n <> OpNone -> cmp_ty t = true ->
      ev s g = Some (vg, s1) -> in_ty_b t vg = true ->
      exists w, denu n t vg = Some w /\ ev s e = Some (w, s1).
    Proof.
      unfold make_unary. intros H Hu Hn Ht Eg Tg.
      destruct ((arity_of n =? 0) && has_fx g) eqn:G; [discriminate|].
      assert (Hconst : In n const_ops -> s1 = s).
      { intro K. rewrite (arity_const n K) in G. cbn in G. apply (pure_state g G _ _ _ Eg). }
      assert (Hplain : forall q, (q = OpNeg \/ q = OpNext \/ q = OpPrev \/ q = OpIsZero \/ q = OpIsNeg \/ q = OpIsPos) ->
                 forall e0, match find_foam_op tbl q t with Some f => Some (BCall f [g]) | None => None end = Some e0 ->
                 exists x, den1 q t vg = Some x /\ ev s e0 = Some (x, s1)).
      { intros q Hq e0 K. destruct (find_foam_op tbl q t) as [f|] eqn:E; [|discriminate]. injection K as <-.
        destruct (created_unary q t f vg E Ht Hq Tg) as [x [Hx Hb]]. exists x. split; [exact Hx|].
        rewrite ev_bcall1, Eg, Hb. reflexivity. }
      assert (Hneg : forall q, (q = OpIsZero \/ q = OpIsNeg \/ q = OpIsPos) ->
                 forall e0, match find_foam_op tbl q t with
                            | Some f => Some (BCall "BoolNot" [BCall f [g]]) | None => None end = Some e0 ->
                 exists x, den1 q t vg = Some x /\ in_ty_b FBool x = true /\ ev s e0 = Some (Z.b2z (negb (x =? 1)), s1)).
      { intros q Hq e0 K. destruct (find_foam_op tbl q t) as [f|] eqn:E; [|discriminate]. injection K as <-.
        assert (Hq' : q = OpNeg \/ q = OpNext \/ q = OpPrev \/ q = OpIsZero \/ q = OpIsNeg \/ q = OpIsPos) by tauto.
        destruct (created_unary q t f vg E Ht Hq' Tg) as [x [Hx Hb]].
        assert (Tx : in_ty_b FBool x = true).
        { destruct Hq as [->|[->| ->]]; cbn [den1] in Hx; destruct (int_ty t); try discriminate;
            injection Hx as <-; apply in_ty_b_b2z. }
        exists x. split; [exact Hx|]. split; [exact Tx|].
        rewrite ev_bcall1, ev_bcall1, Eg, Hb, (bval_not x Tx). reflexivity. }
      destruct n; cbn [unary_like] in Hu; try discriminate; try (exfalso; apply Hn; reflexivity); cbn [denu].
      - (* OpNeg *) apply Hplain; [tauto|exact H].
      - apply Hplain; [tauto|exact H].
      - apply Hplain; [tauto|exact H].
      - apply Hplain; [tauto|exact H].
      - apply Hplain; [tauto|exact H].
      - apply Hplain; [tauto|exact H].
      - (* OpZero *) rewrite (cmp_value t 0 Ht) in H. injection H as <-. rewrite Hconst by (cbn; tauto). eexists; split; reflexivity.
      - rewrite (cmp_value t 1 Ht) in H. injection H as <-. rewrite Hconst by (cbn; tauto). eexists; split; reflexivity.
      - rewrite (cmp_value t (-1) Ht) in H. injection H as <-. rewrite Hconst by (cbn; tauto). eexists; split; reflexivity.
      - injection H as <-. rewrite Hconst by (cbn; tauto). eexists; split; reflexivity.
      - injection H as <-. rewrite Hconst by (cbn; tauto). eexists; split; reflexivity.
      - (* OpNonZero *) destruct (Hneg OpIsZero (or_introl eq_refl) e H) as [x [Hx [Tx He]]].
        cbn [den1] in Hx. destruct (int_ty t); [|discriminate]. injection Hx as <-.
        eexists. split; [reflexivity|]. rewrite He. destruct (vg =? 0); reflexivity.
      - destruct (Hneg OpIsNeg (or_intror (or_introl eq_refl)) e H) as [x [Hx [Tx He]]].
        cbn [den1] in Hx. destruct (int_ty t); [|discriminate]. injection Hx as <-.
        eexists. split; [reflexivity|]. rewrite He. destruct (vg <? 0); reflexivity.
      - destruct (Hneg OpIsPos (or_intror (or_intror eq_refl)) e H) as [x [Hx [Tx He]]].
        cbn [den1] in Hx. destruct (int_ty t); [|discriminate]. injection Hx as <-.
        eexists. split; [reflexivity|]. rewrite He. destruct (0 <? vg); reflexivity.
      - (* OpId *) injection H as <-. eexists. split; [reflexivity|exact Eg].
    Qed.

    (* ------------------------------------------------------------ peepPositive / peepAdditiveOp *)

    (* positive l = Some x: l has the value -(value of x), evaluated exactly as x is *)
    Lemma positive_sound l x s vl s1 :
      positive tbl l = Some x -> ev s l = Some (vl, s1) -> in_ty_b FSInt vl = true ->
      exists vx, ev s x = Some (vx, s1) /\ in_ty_b FSInt vx = true /\ vl = red (- vx).
    Proof.
      destruct l as [t z|t y|t y f|op args|t y]; cbn [positive]; try discriminate.
      - destruct t; try discriminate. destruct (z <? 0) eqn:Ez; [|discriminate].
        intro H. injection H as <-. cbn [FoamSem.ev]. intros E Tz. injection E as <- <-.
        exists (wrap S64 (- z)). split; [reflexivity|]. split; [apply red_range|].
        apply in_sint in Tz. unfold red, wrap. lia.
      - destruct args as [|a [|b r]]; try discriminate.
        destruct (find_info tbl op) as [i|] eqn:Ei; [|discriminate].
        destruct (pop_eqb (bop i) OpNeg) eqn:Ep; [|discriminate]. intro H. injection H as <-.
        apply pop_eqb_eq in Ep. destruct (find_info_ok _ _ Ei) as [Hn Hi]. subst op.
        rewrite ev_bcall1. destruct (ev s a) as [[va sa]|] eqn:Ea; [|discriminate].
        destruct (bval (bname i) [va]) as [v|] eqn:Eb; [|discriminate]. intros E Tl. injection E as <- <-.
        destruct (bval_un i va v Hi Eb) as [Ta Hd]. rewrite Ep in Hd.
        pose proof (den1_int _ _ _ _ Hd) as Ht. rewrite Ht in *. cbn [den1 int_ty] in Hd. injection Hd as <-.
        exists va. auto.
    Qed.

    Lemma additive_sound t p l r e s vl s1 vr s2 v :
      additive tbl t p l r = Some (e, true) ->
      (p = OpPlus \/ p = OpMinus) ->
      ev s l = Some (vl, s1) -> ev s1 r = Some (vr, s2) ->
      in_ty_b t vl = true -> in_ty_b t vr = true -> den2 p t vl vr = Some v ->
      ev s e = Some (v, s2).
    Proof.
      intros H Hp El Er Tl Tr Hd.
      assert (Ht : t = FSInt) by (apply (den2_int _ _ _ _ _ Hd); destruct Hp as [-> | ->]; reflexivity).
      subst t. unfold additive in H.
      destruct Hp as [-> | ->]; cbn [pop_eqb] in H.
      - (* plus *)
        cbn [den2 int_ty] in Hd. injection Hd as <-.
        destruct (positive tbl l) as [x|] eqn:Pl; [destruct (negb (has_fx l) && negb (has_fx r)) eqn:Pg|].
        + (* (-x) + r  ==>  r - x, operands exchanged: both without side effect *)
          destruct (make_binary tbl OpMinus FSInt r x) as [e0|] eqn:Em; [|discriminate].
          injection H as <- Hok. cbn [negb orb] in Hok.
          destruct (swap_commute l r s vl s1 vr s2 Hok El Er) as [s1' [Er' El']].
          destruct (positive_sound l x s1' vl s2 Pl El' Tl) as [vx [Ex [Tx Hv]]].
          apply (make_binary_sound OpMinus FSInt r x e0 s vr s1' vx s2 _ Em Er' Ex Tr Tx).
          cbn [den2 int_ty]. f_equal. subst vl. apply in_sint in Tr, Tx. unfold red, wrap. lia.
        + (* l is a negation but an operand has a side effect: only the right operand is looked at *)
          destruct (positive tbl r) as [y|] eqn:Pr; [|discriminate].
          destruct (make_binary tbl OpMinus FSInt l y) as [e0|] eqn:Em; [|discriminate].
          assert (He : e0 = e) by (injection H; auto). subst e0.
          destruct (positive_sound r y s1 vr s2 Pr Er Tr) as [vx [Ex [Tx Hv]]].
          apply (make_binary_sound OpMinus FSInt l y e s vl s1 vx s2 _ Em El Ex Tl Tx).
          cbn [den2 int_ty]. f_equal. subst vr. apply in_sint in Tl, Tx. unfold red, wrap. lia.
        + destruct (positive tbl r) as [x|] eqn:Pr; [|discriminate].
          destruct (make_binary tbl OpMinus FSInt l x) as [e0|] eqn:Em; [|discriminate].
          assert (He : e0 = e) by (injection H; auto). subst e0.
          destruct (positive_sound r x s1 vr s2 Pr Er Tr) as [vx [Ex [Tx Hv]]].
          apply (make_binary_sound OpMinus FSInt l x e s vl s1 vx s2 _ Em El Ex Tl Tx).
          cbn [den2 int_ty]. f_equal. subst vr. apply in_sint in Tl, Tx. unfold red, wrap. lia.
      - (* minus *)
        cbn [den2 int_ty] in Hd. injection Hd as <-.
        destruct (positive tbl r) as [x|] eqn:Pr; [|discriminate].
        destruct (make_binary tbl OpPlus FSInt l x) as [e0|] eqn:Em; [|discriminate].
        assert (He : e0 = e) by (injection H; auto). subst e0.
        destruct (positive_sound r x s1 vr s2 Pr Er Tr) as [vx [Ex [Tx Hv]]].
        apply (make_binary_sound OpPlus FSInt l x e s vl s1 vx s2 _ Em El Ex Tl Tx).
        cbn [den2 int_ty]. f_equal. subst vr. apply in_sint in Tl, Tx. unfold red, wrap. lia.
    Qed.

    (* ------------------------------------------------------------ peepTimesOp *)

    Lemma shift_of_spec z k : shift_of z = Some k -> z = 2 ^ k /\ 1 <= k <= 30.
    Proof.
      unfold shift_of. destruct ((2 <=? z) && (z =? 2 ^ Z.log2 z) && (Z.log2 z <=? 30)) eqn:E; [|discriminate].
      intro H. injection H as <-. apply andb_true_iff in E as [E E3]. apply andb_true_iff in E as [E1 E2].
      apply Z.leb_le in E1, E3. apply Z.eqb_eq in E2. split; [exact E2|]. split; [|exact E3].
      assert (0 < Z.log2 z) by (apply Z.log2_pos; lia). lia.
    Qed.

    Lemma bval_shiftup a k : in_ty_b FSInt a = true -> 0 <= k < 64 ->
      bval "SIntShiftUp" [a; k] = Some (red (a * 2 ^ k)).
    Proof.
      intros Ta Hk. unfold bval. change (sop_of "SIntShiftUp") with (Some SIntShiftUp).
      cbn [sop_sig fst typed_b]. rewrite Ta.
      assert (Tk : in_ty_b FSInt k = true) by (apply in_sint_intro; lia). rewrite Tk.
      assert (Hd : in_dom SIntShiftUp [a; k] = true) by (cbn; lia). rewrite Hd. cbn [andb].
      f_equal. change (spec SIntShiftUp [a; k]) with (red (Z.shiftl a k)). rewrite Z.shiftl_mul_pow2 by lia. reflexivity.
    Qed.

    Lemma times_sound t l r e s vl s1 vr s2 v :
      times t l r = Some (e, true) ->
      ev s l = Some (vl, s1) -> ev s1 r = Some (vr, s2) ->
      in_ty_b t vl = true -> in_ty_b t vr = true -> den2 OpTimes t vl vr = Some v ->
      ev s e = Some (v, s2).
    Proof.
      unfold times. destruct t; try discriminate. cbn [den2 int_ty]. intros H El Er Tl Tr Hd. injection Hd as <-.
      destruct (is_const l) eqn:Cl.
      - destruct l as [tl zl| | | |]; try discriminate. destruct tl; try discriminate.
        destruct (shift_of zl) as [k|] eqn:Ek; [|discriminate]. injection H as <-.
        destruct (shift_of_spec _ _ Ek) as [Hz Hk]. cbn [FoamSem.ev] in El. injection El as <- <-.
        rewrite ev_bcall2, Er. cbn [FoamSem.ev]. rewrite (bval_shiftup vr k Tr) by lia.
        rewrite Hz, (Z.mul_comm (2 ^ k) vr). reflexivity.
      - destruct r as [tr zr| | | |]; try discriminate. destruct tr; try discriminate.
        destruct (shift_of zr) as [k|] eqn:Ek; [|discriminate]. injection H as <-.
        destruct (shift_of_spec _ _ Ek) as [Hz Hk]. cbn [FoamSem.ev] in Er. injection Er as <- <-.
        rewrite ev_bcall2, El. cbn [FoamSem.ev]. rewrite (bval_shiftup vl k Tl) by lia.
        rewrite Hz. reflexivity.
    Qed.

    (* ------------------------------------------------------------ peepBinaryBCall *)

    Lemma field_row (f : oprow -> pop) p : field f p <> OpNone -> exists r, op_row p = Some r /\ field f p = f r.
    Proof. unfold field. destruct (op_row p) as [r|]; [|congruence]. intros _. exists r. auto. Qed.

    Lemma is_value_const t c e : is_value t c e = true -> e = Const t c.
    Proof.
      destruct e as [t' z| | | |]; cbn [is_value]; try discriminate. intro H.
      apply andb_true_iff in H as [H _]. apply andb_true_iff in H as [H1 H2].
      apply fty_eqb_eq in H1. apply Z.eqb_eq in H2. subst. reflexivity.
    Qed.

    Lemma den2_cmp p t a b v : den2 p t a b = Some v -> cmp_ty t = true.
    Proof. destruct p; cbn [den2]; intro H; try discriminate; destruct t; cbn in *; try discriminate; reflexivity. Qed.

    Lemma unary_like_fields r :
      op_ok r -> unary_like (oleqr r) = true /\ unary_like (ol0 r) = true /\ unary_like (ol1 r) = true /\
                 unary_like (or0 r) = true /\ unary_like (or1 r) = true.
    Proof.
      intros [H _]. repeat (apply andb_true_iff in H as [H ?]). auto.
    Qed.

    (* one "replace by" field applied: the shared step of the four literal cases and l = r *)
    Lemma field_apply (f : oprow -> pop) p t g e s vg s1 v (lhs : Z -> option Z) :
      negb (pop_eqb (field f p) OpNone) = true ->
      (forall r, op_row p = Some r -> unary_like (f r) = true /\ field_ok (f r) t lhs) ->
      make_unary tbl (field f p) t g = Some e ->
      cmp_ty t = true -> ev s g = Some (vg, s1) -> in_ty_b t vg = true -> lhs vg = Some v ->
      ev s e = Some (v, s1).
    Proof.
      intros Hn Hr Hm Ht Eg Tg Hl.
      assert (Hne : field f p <> OpNone).
      { intro K. rewrite K in Hn. discriminate. }
      destruct (field_row f p Hne) as [r [Er Ef]]. destruct (Hr r Er) as [Hu Hf].
      rewrite Ef in *.
      destruct (make_unary_sound (f r) t g e s vg s1 Hm Hu Hne Ht Eg Tg) as [w [Hw He]].
      rewrite He. f_equal. f_equal. apply (Hf vg v w Tg Hl Hw).
    Qed.

    Lemma binary_sound op l r e s v s2 :
      binary tbl op l r = Some (e, true) -> ev s (BCall op [l; r]) = Some (v, s2) -> ev s e = Some (v, s2).
    Proof.
      unfold binary. destruct (find_info tbl op) as [i|] eqn:Ei; [|discriminate].
      destruct (find_info_ok _ _ Ei) as [Hn Hi]. subst op.
      rewrite ev_bcall2. destruct (ev s l) as [[vl s1]|] eqn:El; [|discriminate].
      destruct (ev s1 r) as [[vr s2']|] eqn:Er; [|discriminate].
      destruct (bval (bname i) [vl; vr]) as [v0|] eqn:Eb; [|discriminate].
      intros H E. injection E as <- <-.
      destruct (bval_bin i vl vr v0 Hi Eb) as [Tl [Tr Hd]].
      set (t := btype i) in *. set (p := bop i) in *.
      pose proof (den2_cmp _ _ _ _ _ Hd) as Ht.
      (* additive *)
      destruct (if pop_eqb p OpPlus || pop_eqb p OpMinus then additive tbl t p l r else None) as [[ea oka]|] eqn:Ea.
      { injection H as -> ->. destruct (pop_eqb p OpPlus || pop_eqb p OpMinus) eqn:Ep; [|discriminate].
        apply (additive_sound t p l r e s vl s1 vr s2' v0 Ea); try assumption.
        apply orb_true_iff in Ep as [Ep|Ep]; apply pop_eqb_eq in Ep; auto. }
      (* times *)
      destruct (if pop_eqb p OpTimes then times t l r else None) as [[et okt]|] eqn:Et.
      { injection H as -> ->. destruct (pop_eqb p OpTimes) eqn:Ep; [|discriminate].
        apply pop_eqb_eq in Ep. rewrite Ep in Hd.
        apply (times_sound t l r e s vl s1 vr s2' v0 Et); assumption. }
      (* the fields *)
      assert (Hrow : forall r0, op_row p = Some r0 ->
                 (unary_like (oleqr r0) = true /\ field_ok (oleqr r0) t (fun a => den2 p t a a)) /\
                 (unary_like (ol0 r0) = true /\ field_ok (ol0 r0) t (fun a => den2 p t 0 a)) /\
                 (unary_like (ol1 r0) = true /\ field_ok (ol1 r0) t (fun a => den2 p t 1 a)) /\
                 (unary_like (or0 r0) = true /\ field_ok (or0 r0) t (fun a => den2 p t a 0)) /\
                 (unary_like (or1 r0) = true /\ field_ok (or1 r0) t (fun a => den2 p t a 1))).
      { intros r0 E0. destruct (op_row_ok _ _ E0) as [Hp Hok]. destruct (unary_like_fields r0 Hok) as [U1 [U2 [U3 [U4 U5]]]].
        destruct Hok as [_ [_ Hok]]. destruct (Hok t) as [F1 [F2 [F3 [F4 [F5 _]]]]]. rewrite Hp in *. tauto. }
      destruct (negb (pop_eqb (field ol0 p) OpNone) && is_value t 0 l) eqn:C1.
      { apply andb_true_iff in C1 as [N1 V1]. apply is_value_const in V1. subst l.
        cbn [FoamSem.ev] in El. injection El as <- <-.
        destruct (pop_eqb (field ol0 p) OpNone) eqn:K; [discriminate|]. cbn [negb] in N1.
        destruct (make_unary tbl (field ol0 p) t r) as [e0|] eqn:Em; [|discriminate].
        assert (He : e0 = e) by (injection H; auto). subst e0.
        apply (field_apply ol0 p t r e s vr s2' v0 (fun a => den2 p t 0 a)); try assumption; [rewrite K; reflexivity|].
        intros r0 E0. apply (Hrow r0 E0). }
      destruct (negb (pop_eqb (field ol1 p) OpNone) && is_value t 1 l) eqn:C2.
      { apply andb_true_iff in C2 as [N1 V1]. apply is_value_const in V1. subst l.
        cbn [FoamSem.ev] in El. injection El as <- <-.
        destruct (pop_eqb (field ol1 p) OpNone) eqn:K; [discriminate|]. cbn [negb] in N1.
        destruct (make_unary tbl (field ol1 p) t r) as [e0|] eqn:Em; [|discriminate].
        assert (He : e0 = e) by (injection H; auto). subst e0.
        apply (field_apply ol1 p t r e s vr s2' v0 (fun a => den2 p t 1 a)); try assumption; [rewrite K; reflexivity|].
        intros r0 E0. apply (Hrow r0 E0). }
      destruct (negb (pop_eqb (field or0 p) OpNone) && is_value t 0 r) eqn:C3.
      { apply andb_true_iff in C3 as [N1 V1]. apply is_value_const in V1. subst r.
        cbn [FoamSem.ev] in Er. injection Er as <- <-.
        destruct (pop_eqb (field or0 p) OpNone) eqn:K; [discriminate|]. cbn [negb] in N1.
        destruct (make_unary tbl (field or0 p) t l) as [e0|] eqn:Em; [|discriminate].
        assert (He : e0 = e) by (injection H; auto). subst e0.
        apply (field_apply or0 p t l e s vl s1 v0 (fun a => den2 p t a 0)); try assumption; [rewrite K; reflexivity|].
        intros r0 E0. apply (Hrow r0 E0). }
      destruct (negb (pop_eqb (field or1 p) OpNone) && is_value t 1 r) eqn:C4.
      { apply andb_true_iff in C4 as [N1 V1]. apply is_value_const in V1. subst r.
        cbn [FoamSem.ev] in Er. injection Er as <- <-.
        destruct (pop_eqb (field or1 p) OpNone) eqn:K; [discriminate|]. cbn [negb] in N1.
        destruct (make_unary tbl (field or1 p) t l) as [e0|] eqn:Em; [|discriminate].
        assert (He : e0 = e) by (injection H; auto). subst e0.
        apply (field_apply or1 p t l e s vl s1 v0 (fun a => den2 p t a 1)); try assumption; [rewrite K; reflexivity|].
        intros r0 E0. apply (Hrow r0 E0). }
      (* l = r, l without side effect *)
      destruct (negb (has_fx l) && expr_eqb l r) eqn:C5.
      - apply andb_true_iff in C5 as [P1 Q1]. apply negb_true_iff in P1. apply expr_eqb_eq in Q1. subst r.
        pose proof (pure_state l P1 _ _ _ El) as ->. rewrite El in Er. injection Er as <- <-.
        destruct (pop_eqb (field oleqr p) OpNone) eqn:K; [discriminate|].
        destruct (make_unary tbl (field oleqr p) t l) as [e0|] eqn:Em; [|discriminate].
        assert (He : e0 = e) by (injection H; auto). subst e0.
        apply (field_apply oleqr p t l e s vl s v0 (fun a => den2 p t a a)); try assumption; [rewrite K; reflexivity|].
        intros r0 E0. apply (Hrow r0 E0).
      - discriminate.
    Qed.

    (* ------------------------------------------------------------ peepUnaryBCall *)

    Lemma ev_bcall_cons s op x rest v s1 :
      ev s (BCall op (x :: rest)) = Some (v, s1) ->
      exists vx sx vs, ev s x = Some (vx, sx) /\ evs sx rest = Some (vs, s1) /\ bval op (vx :: vs) = Some v.
    Proof.
      rewrite ev_bcall. cbn [FoamSem.evs]. destruct (ev s x) as [[vx sx]|] eqn:Ex; [|discriminate].
      destruct (evs sx rest) as [[vs s2]|] eqn:Es; [|discriminate].
      destruct (bval op (vx :: vs)) as [v0|] eqn:E; [|discriminate]. intro H. injection H as <- <-.
      exists vx, sx, vs. auto.
    Qed.

    Lemma typed_b_2 t vs : typed_b [t; t] vs = true ->
      exists a b, vs = [a; b] /\ in_ty_b t a = true /\ in_ty_b t b = true.
    Proof.
      destruct vs as [|a [|b [|c r]]]; cbn [typed_b]; intro H; try discriminate.
      - destruct (in_ty_b t a); discriminate.
      - apply andb_true_iff in H as [H1 H2]. apply andb_true_iff in H2 as [H2 _]. exists a, b. auto.
      - apply andb_true_iff in H as [_ H]. apply andb_true_iff in H as [_ H]. discriminate.
    Qed.

    Lemma typed_b_1 t vs : typed_b [t] vs = true -> exists a, vs = [a] /\ in_ty_b t a = true.
    Proof.
      destruct vs as [|a [|b r]]; cbn [typed_b]; intro H; try discriminate.
      - apply andb_true_iff in H as [H1 _]. exists a. auto.
      - apply andb_true_iff in H as [_ H]. discriminate.
    Qed.

    (* a defined call of a table builtin is a binary or a unary operation of the model *)
    Lemma bv_class j vs va :
      bv_ok j -> bval (bname j) vs = Some va ->
      (exists a b, vs = [a; b] /\ in_ty_b (btype j) a = true /\ in_ty_b (btype j) b = true /\
                   den2 (bop j) (btype j) a b = Some va) \/
      (exists a, vs = [a] /\ in_ty_b (btype j) a = true /\ den1 (bop j) (btype j) a = Some va).
    Proof.
      unfold bv_ok, bval. destruct (sop_of (bname j)) as [o|]; [|discriminate].
      intros [[Hs Hf]|[Hs Hf]] H; rewrite Hs in H.
      - destruct (typed_b [btype j; btype j] vs) eqn:T; [|discriminate].
        destruct (typed_b_2 _ _ T) as [a [b [-> [Ta Tb]]]]. destruct (Hf a b Ta Tb) as [Hd Hv].
        rewrite Hd in H. injection H as <-. left. exists a, b. auto.
      - destruct (typed_b [btype j] vs) eqn:T; [|discriminate].
        destruct (typed_b_1 _ _ T) as [a [-> Ta]]. destruct (Hf a Ta) as [Hd Hv].
        rewrite Hd in H. injection H as <-. right. exists a. auto.
    Qed.

    Lemma unary_sound op a e s v s1 :
      unary tbl op a = Some (e, true) -> ev s (BCall op [a]) = Some (v, s1) -> ev s e = Some (v, s1).
    Proof.
      unfold unary. destruct a as [| | |op2 args|]; try discriminate. destruct args as [|x rest]; [discriminate|].
      destruct (find_info tbl op) as [i|] eqn:Ei; [|discriminate].
      destruct (find_info tbl op2) as [j|] eqn:Ej; [|discriminate].
      destruct (pop_eqb (field odual (bop i)) (bop j)) eqn:Ed; [|discriminate].
      intro H. injection H as <-. apply pop_eqb_eq in Ed.
      destruct (find_info_ok _ _ Ei) as [Hn Hi]. destruct (find_info_ok _ _ Ej) as [Hm Hj]. subst op op2.
      rewrite ev_bcall1. destruct (ev s (BCall (bname j) (x :: rest))) as [[va sa]|] eqn:Ea; [|discriminate].
      destruct (bval (bname i) [va]) as [v0|] eqn:Eb; [|discriminate]. intro H. injection H as <- <-.
      destruct (bval_un i va v0 Hi Eb) as [Ta Hd].
      pose proof (den1_int _ _ _ _ Hd) as Ht.
      destruct (ev_bcall_cons _ _ _ _ _ _ Ea) as [vx [sx [vs [Ex [Es Ebj]]]]].
      pose proof (bv_class j (vx :: vs) va Hj Ebj) as Hcl.
      assert (Hne : field odual (bop i) <> OpNone).
      { intro K. rewrite K in Ed. rewrite <- Ed in Hcl.
        destruct Hcl as [[a [b [_ [_ [_ K2]]]]]|[a [_ [_ K2]]]]; discriminate. }
      destruct (field_row odual (bop i) Hne) as [r0 [Er0 Ef]]. destruct (op_row_ok _ _ Er0) as [Hp Hok].
      rewrite Ef in Ed. destruct Hok as [_ [Hnb Hok]]. destruct (Hok (btype j)) as [_ [_ [_ [_ [_ [Hinv _]]]]]].
      rewrite Hp in *.
      destruct Hcl as [[a [b [Hvs [Ta' [Tb' K2]]]]]|[a [Hvs [Ta' K2]]]].
      - (* the inner operation would be binary: excluded by the table *)
        destruct Hnb as [K|K].
        + rewrite <- Ed, K in K2. discriminate.
        + rewrite K in Hd. discriminate.
      - injection Hvs as <- ->. destruct rest as [|y rest]; [|cbn [FoamSem.evs] in Es; destruct (ev sx y) as [[? ?]|]; [destruct (evs s0 rest) as [[? ?]|]|]; discriminate]. cbn [FoamSem.evs] in Es. injection Es as <-.
        pose proof (den1_int _ _ _ _ K2) as Htj.
        assert (Hv : v0 = vx).
        { apply (Hinv vx va v0); [exact Ta'| rewrite Ed; exact K2 | rewrite Htj, <- Ht; exact Hd]. }
        subst v0. exact Ex.
    Qed.

    (* ------------------------------------------------------------ peepNegate *)

    Lemma negate_sound a e s v s1 :
      negate tbl a = Some (e, true) -> ev s (BCall "BoolNot" [a]) = Some (v, s1) -> ev s e = Some (v, s1).
    Proof.
      unfold negate. destruct a as [| | |op2 args|]; try discriminate.
      rewrite ev_bcall1. destruct (ev s (BCall op2 args)) as [[va sa]|] eqn:Ea; [|discriminate].
      destruct (bval "BoolNot" [va]) as [v0|] eqn:Eb; [|discriminate]. intros H E. injection E as <- <-.
      destruct (bval_not_inv _ _ Eb) as [Ta ->].
      destruct args as [|x [|y [|z r]]]; try discriminate.
      - (* not (not x) *)
        destruct (String.eqb op2 "BoolNot") eqn:En; [|discriminate]. apply String.eqb_eq in En. subst op2.
        injection H as <-. rewrite ev_bcall1 in Ea. destruct (ev s x) as [[vx sx]|] eqn:Ex; [|discriminate].
        destruct (bval "BoolNot" [vx]) as [v1|] eqn:Eb1; [|discriminate]. injection Ea as <- <-.
        destruct (bval_not_inv _ _ Eb1) as [Tx ->]. f_equal. f_equal.
        apply in_bool in Tx. destruct Tx as [-> | ->]; reflexivity.
      - (* not (x op y)  ==>  y dual x *)
        destruct (find_info tbl op2) as [j|] eqn:Ej; [|discriminate].
        destruct (find_info_ok _ _ Ej) as [Hm Hj]. subst op2.
        destruct (negb (pop_eqb (field odual (bop j)) OpNone) && (negb (has_fx x) && negb (has_fx y))) eqn:G; [|discriminate].
        destruct (make_binary tbl (field odual (bop j)) (btype j) y x) as [e0|] eqn:Em; [|discriminate].
        injection H as <- Hok.
        rewrite ev_bcall2 in Ea. destruct (ev s x) as [[vx sx]|] eqn:Ex; [|discriminate].
        destruct (ev sx y) as [[vy sy]|] eqn:Ey; [|discriminate].
        destruct (bval (bname j) [vx; vy]) as [v1|] eqn:Eb1; [|discriminate]. injection Ea as <- <-.
        destruct (bval_bin j vx vy v1 Hj Eb1) as [Tx [Ty Hd]].
        apply andb_true_iff in G as [G _]. apply negb_true_iff in G.
        assert (Hne : field odual (bop j) <> OpNone).
        { intro K. rewrite K in G. discriminate. }
        destruct (field_row odual (bop j) Hne) as [r0 [Er0 Ef]]. destruct (op_row_ok _ _ Er0) as [Hp Hok'].
        destruct Hok' as [_ [_ Hok']]. destruct (Hok' (btype j)) as [_ [_ [_ [_ [_ [_ [Hdual Hex]]]]]]].
        rewrite Hp in *. rewrite Ef in *.
        destruct (Hex vx vy v1 Hd) as [K|[v' Hv']]; [contradiction|].
        destruct (swap_commute x y s vx sx vy _ Hok Ex Ey) as [s1' [Ey' Ex']].
        rewrite (make_binary_sound (odual r0) (btype j) y x e0 s vy s1' vx _ v' Em Ey' Ex' Ty Tx Hv').
        f_equal. f_equal. apply (Hdual vx vy v1 v' Tx Ty Hd Hv').
    Qed.

    (* ------------------------------------------------------------ the logical rules of peepBCall *)

    Lemma bval_inv op vs v : bval op vs = Some v ->
      exists o, sop_of op = Some o /\ typed_b (fst (sop_sig o)) vs = true /\ v = spec o vs.
    Proof.
      unfold bval. destruct (sop_of op) as [o|]; [|discriminate].
      destruct (typed_b (fst (sop_sig o)) vs) eqn:T; [|discriminate].
      destruct (in_dom o vs); [|discriminate]. intro H. injection H as <-. exists o. auto.
    Qed.

    Lemma is_bool_const c e : is_bool c e = true -> e = Const FBool c.
    Proof.
      destruct e as [t z| | | |]; cbn [is_bool]; try discriminate. destruct t; try discriminate.
      intro H. apply Z.eqb_eq in H. subst. reflexivity.
    Qed.

    Lemma logic_sound op args e s v s1 :
      bcall_logic tbl op args = Some (e, true) -> ev s (BCall op args) = Some (v, s1) -> ev s e = Some (v, s1).
    Proof.
      unfold bcall_logic.
      destruct (String.eqb op "BoolFalse") eqn:E1.
      { apply String.eqb_eq in E1. subst op. intro H. injection H as <-. rewrite ev_bcall.
        destruct (evs s args) as [[vs s2]|] eqn:Es; [|discriminate].
        destruct (bval "BoolFalse" vs) as [v0|] eqn:Eb; [|discriminate]. intro H. injection H as <- <-.
        destruct (bval_inv _ _ _ Eb) as [o [Ho [Ht ->]]]. change (sop_of "BoolFalse") with (Some BoolFalse) in Ho.
        injection Ho as <-. cbn [sop_sig fst] in Ht. destruct vs; [|discriminate].
        destruct args as [|a r]; [cbn in Es; injection Es as <-; reflexivity|].
        cbn [FoamSem.evs] in Es. destruct (ev s a) as [[? ?]|]; [destruct (evs s0 r) as [[? ?]|]|]; discriminate. }
      destruct (String.eqb op "BoolTrue") eqn:E2.
      { apply String.eqb_eq in E2. subst op. intro H. injection H as <-. rewrite ev_bcall.
        destruct (evs s args) as [[vs s2]|] eqn:Es; [|discriminate].
        destruct (bval "BoolTrue" vs) as [v0|] eqn:Eb; [|discriminate]. intro H. injection H as <- <-.
        destruct (bval_inv _ _ _ Eb) as [o [Ho [Ht ->]]]. change (sop_of "BoolTrue") with (Some BoolTrue) in Ho.
        injection Ho as <-. cbn [sop_sig fst] in Ht. destruct vs; [|discriminate].
        destruct args as [|a r]; [cbn in Es; injection Es as <-; reflexivity|].
        cbn [FoamSem.evs] in Es. destruct (ev s a) as [[? ?]|]; [destruct (evs s0 r) as [[? ?]|]|]; discriminate. }
      destruct (String.eqb op "BoolNot") eqn:E3.
      { apply String.eqb_eq in E3. subst op. destruct args as [|a r]; [discriminate|].
        intros H E. assert (r = []).
        { rewrite ev_bcall in E. destruct (evs s (a :: r)) as [[vs s2]|] eqn:Es; [|discriminate].
          destruct (bval "BoolNot" vs) as [v0|] eqn:Eb; [|discriminate].
          destruct (bval_inv _ _ _ Eb) as [o [Ho [Ht _]]]. change (sop_of "BoolNot") with (Some BoolNot) in Ho.
          injection Ho as <-. cbn [sop_sig fst] in Ht. destruct (typed_b_1 _ _ Ht) as [x [-> _]].
          cbn [FoamSem.evs] in Es. destruct (ev s a) as [[? ?]|]; [|discriminate].
          destruct r as [|b r]; [reflexivity|]. cbn [FoamSem.evs] in Es.
          destruct (ev s0 b) as [[? ?]|]; [destruct (evs s3 r) as [[? ?]|]|]; discriminate. }
        subst r. apply (negate_sound a e s v s1 H E). }
      assert (Hargs2 : forall opn o, sop_of opn = Some o -> fst (sop_sig o) = [FBool; FBool] ->
                 forall a b r, ev s (BCall opn (a :: b :: r)) = Some (v, s1) ->
                 r = [] /\ exists va sa vb, ev s a = Some (va, sa) /\ ev sa b = Some (vb, s1) /\
                                         in_ty_b FBool va = true /\ in_ty_b FBool vb = true /\ v = spec o [va; vb]).
      { intros opn o Ho Hsig a b r E. rewrite ev_bcall in E.
        destruct (evs s (a :: b :: r)) as [[vs s2]|] eqn:Es; [|discriminate].
        destruct (bval opn vs) as [v0|] eqn:Eb; [|discriminate]. injection E as <- <-.
        destruct (bval_inv _ _ _ Eb) as [o' [Ho' [Ht ->]]]. rewrite Ho in Ho'. injection Ho' as <-.
        rewrite Hsig in Ht. destruct (typed_b_2 _ _ Ht) as [va [vb [-> [Ta Tb]]]].
        cbn [FoamSem.evs] in Es. destruct (ev s a) as [[va' sa]|] eqn:Ea; [|discriminate].
        destruct (ev sa b) as [[vb' sb]|] eqn:Eb2; [|discriminate].
        destruct r as [|c r].
        - cbn [FoamSem.evs] in Es. injection Es as <- <- <-. split; [reflexivity|]. exists va', sa, vb'. auto.
        - cbn [FoamSem.evs] in Es. destruct (ev sb c) as [[? ?]|]; [destruct (evs s0 r) as [[? ?]|]|]; discriminate. }
      destruct (String.eqb op "BoolAnd") eqn:E4.
      { apply String.eqb_eq in E4. subst op. destruct args as [|a [|b r]]; try discriminate. intros H E.
        destruct (Hargs2 "BoolAnd" BoolAnd eq_refl eq_refl a b r E) as [-> [va [sa [vb [Ea [Eb [Ta [Tb ->]]]]]]]].
        apply in_bool in Ta, Tb.
        destruct (is_bool 0 a) eqn:A0.
        { apply is_bool_const in A0. subst a. destruct (negb (has_fx b)) eqn:P; [|discriminate]. injection H as <-.
          apply negb_true_iff in P. cbn [FoamSem.ev] in Ea. injection Ea as <- <-.
          rewrite (pure_state b P _ _ _ Eb). reflexivity. }
        destruct (is_bool 1 a) eqn:A1.
        { apply is_bool_const in A1. subst a. injection H as <-. cbn [FoamSem.ev] in Ea. injection Ea as <- <-.
          rewrite Eb. f_equal. f_equal. destruct Tb as [-> | ->]; reflexivity. }
        destruct (is_bool 0 b) eqn:B0.
        { apply is_bool_const in B0. subst b. destruct (negb (has_fx a)) eqn:P; [|discriminate]. injection H as <-.
          apply negb_true_iff in P. cbn [FoamSem.ev] in Eb. injection Eb as <- <-.
          rewrite (pure_state a P _ _ _ Ea). f_equal. f_equal. destruct Ta as [-> | ->]; reflexivity. }
        destruct (is_bool 1 b) eqn:B1; [|discriminate].
        apply is_bool_const in B1. subst b. injection H as <-. cbn [FoamSem.ev] in Eb. injection Eb as <- <-.
        rewrite Ea. f_equal. f_equal. destruct Ta as [-> | ->]; reflexivity. }
      destruct (String.eqb op "BoolOr") eqn:E5; [|discriminate].
      apply String.eqb_eq in E5. subst op. destruct args as [|a [|b r]]; try discriminate. intros H E.
      destruct (Hargs2 "BoolOr" BoolOr eq_refl eq_refl a b r E) as [-> [va [sa [vb [Ea [Eb [Ta [Tb ->]]]]]]]].
      apply in_bool in Ta, Tb.
      destruct (is_bool 1 a) eqn:A0.
      { apply is_bool_const in A0. subst a. destruct (negb (has_fx b)) eqn:P; [|discriminate]. injection H as <-.
        apply negb_true_iff in P. cbn [FoamSem.ev] in Ea. injection Ea as <- <-.
        rewrite (pure_state b P _ _ _ Eb). reflexivity. }
      destruct (is_bool 0 a) eqn:A1.
      { apply is_bool_const in A1. subst a. injection H as <-. cbn [FoamSem.ev] in Ea. injection Ea as <- <-.
        rewrite Eb. f_equal. f_equal. destruct Tb as [-> | ->]; reflexivity. }
      destruct (is_bool 1 b) eqn:B0.
      { apply is_bool_const in B0. subst b. destruct (negb (has_fx a)) eqn:P; [|discriminate]. injection H as <-.
        apply negb_true_iff in P. cbn [FoamSem.ev] in Eb. injection Eb as <- <-.
        rewrite (pure_state a P _ _ _ Ea). f_equal. f_equal. destruct Ta as [-> | ->]; reflexivity. }
      destruct (is_bool 0 b) eqn:B1; [|discriminate].
      apply is_bool_const in B1. subst b. injection H as <-. cbn [FoamSem.ev] in Eb. injection Eb as <- <-.
      rewrite Ea. f_equal. f_equal. destruct Ta as [-> | ->]; reflexivity.
    Qed.

    (* ------------------------------------------------------------ peepCast *)

    Lemma strip_casts_ev a s r : ev s a = Some r -> ev s (strip_casts a) = Some r.
    Proof.
      revert s r. induction a as [t z|t x|t x f|op args _|t a IH] using expr_ind'; intros s r H; cbn [strip_casts]; try exact H.
      apply IH. eapply ev_cast_inv. exact H.
    Qed.

    Lemma cast_sound t a e s r : peep_cast t a = Some (e, true) -> ev s (Cast t a) = Some r -> ev s e = Some r.
    Proof.
      unfold peep_cast. intros H E. pose proof (ev_cast_inv _ _ _ _ _ _ _ _ E) as Ea.
      pose proof (strip_casts_ev a s r Ea) as Ei.
      destruct (fty_eqb (ty_of (strip_casts a)) t).
      - injection H as <-. exact Ei.
      - destruct a; try discriminate. injection H as <-. destruct r as [v s'].
        apply ev_cast_intro; [exact Ei|]. eapply ev_cast_fits. exact E.
    Qed.

    (* ------------------------------------------------------------ peepBCall, one node *)

    Lemma bcall_sound op args e s r :
      peep_bcall tbl op args = Some (e, true) -> ev s (BCall op args) = Some r -> ev s e = Some r.
    Proof.
      unfold peep_bcall. destruct r as [v s1]. destruct (bcall_logic tbl op args) as [[e0 ok]|] eqn:El.
      - intro H. injection H as -> ->. apply logic_sound. exact El.
      - destruct args as [|a [|b [|c r]]]; try discriminate.
        + apply unary_sound.
        + apply binary_sound.
    Qed.

    (* peep_rule_sound: every rule of the node switch of peepExpr *)
    Lemma rule_sound e e' s r : peep_rule tbl e = Some (e', true) -> ev s e = Some r -> ev s e' = Some r.
    Proof.
      destruct e as [| | |op args|t a]; cbn [peep_rule]; try discriminate.
      - apply bcall_sound.
      - apply cast_sound.
    Qed.

    (* ------------------------------------------------------------ peepAux: any size, any fuel *)

    Lemma cast_refine t a a' :
      (forall s r, ev s a = Some r -> ev s a' = Some r) ->
      forall s r, ev s (Cast t a) = Some r -> ev s (Cast t a') = Some r.
    Proof.
      intros Hr s r H. rewrite ev_cast in *. destruct (ev s a) as [[v s']|] eqn:E; [|discriminate].
      rewrite (Hr _ _ E). exact H.
    Qed.

    Theorem peep_aux_sound : forall fuel e e',
      peep_aux tbl fuel e = (e', true) -> forall s r, ev s e = Some r -> ev s e' = Some r.
    Proof.
      induction fuel as [|k IH]; intros e e' H s r E; cbn [peep_aux] in H.
      - injection H as <-. exact E.
      - (* the children *)
        set (ch := match e with
                   | BCall op args => let rs := map (peep_aux tbl k) args in (BCall op (map fst rs), forallb snd rs)
                   | Cast t a => let '(a', ok) := peep_aux tbl k a in (Cast t a', ok)
                   | _ => (e, true)
                   end) in *.
        assert (Hch : snd ch = true -> ev s (fst ch) = Some r).
        { subst ch. destruct e as [t z|t x|t x f|op args|t a]; cbn [fst snd]; intro Hok; try exact E.
          - rewrite map_map. apply (bcall_refine S rd lv call (fun a => fst (peep_aux tbl k a))); [|exact E].
            rewrite forallb_forall in Hok. apply Forall_forall. intros a Ha s0 r0 E0.
            specialize (Hok (peep_aux tbl k a) (in_map _ _ _ Ha)). apply (IH a (fst (peep_aux tbl k a))); [|exact E0].
            destruct (peep_aux tbl k a) as [a' ok]. cbn [fst snd] in *. subst ok. reflexivity.
          - destruct (peep_aux tbl k a) as [a' ok] eqn:Ea. cbn [fst snd] in *. subst ok.
            apply (cast_refine t a a'); [|exact E]. intros s0 r0. apply IH. exact Ea. }
        destruct ch as [e1 ok1]. cbn [fst snd] in Hch.
        destruct (peep_rule tbl e1) as [[e2 ok2]|] eqn:Er.
        + destruct (peep_aux tbl k e2) as [e3 ok3] eqn:E3. injection H as <- Hok.
          apply andb_true_iff in Hok as [Hok H3]. apply andb_true_iff in Hok as [H1 H2]. subst ok1 ok2 ok3.
          apply (IH e2 e3 E3). apply (rule_sound e1 e2 s r Er). apply Hch. reflexivity.
        + injection H as <- ->. apply Hch. reflexivity.
    Qed.
  End Tbl.
End Sem.

(* ---------------------------------------------------------------- the ghost flag is always true *)

Section Flag.
  Variable tbl : list bvrow.

  Lemma pure_swap_ok l r : negb (has_fx l) && negb (has_fx r) = true -> swap_ok l r = true.
  Proof. intro H. unfold swap_ok. rewrite H. reflexivity. Qed.

  Lemma additive_flag t p l r e ok : additive tbl t p l r = Some (e, ok) -> ok = true.
  Proof.
    unfold additive.
    destruct (pop_eqb p OpPlus) eqn:Ep.
    - destruct (positive tbl l) as [x|] eqn:Pl; [destruct (negb (has_fx l) && negb (has_fx r)) eqn:G|].
      + destruct (make_binary tbl OpMinus t r x); [|discriminate]. intro H. injection H as _ <-.
        rewrite (pure_swap_ok l r G). reflexivity.
      + destruct (positive tbl r); [|discriminate]. destruct (make_binary tbl OpMinus t l e0); [|discriminate].
        intro H. injection H as _ <-. reflexivity.
      + destruct (positive tbl r); [|discriminate]. destruct (make_binary tbl OpMinus t l e0); [|discriminate].
        intro H. injection H as _ <-. reflexivity.
    - destruct (positive tbl r); [|discriminate]. destruct (make_binary tbl OpPlus t l e0); [|discriminate].
      intro H. injection H as _ <-. reflexivity.
  Qed.

  Lemma times_flag t l r e ok : times t l r = Some (e, ok) -> ok = true.
  Proof.
    unfold times. destruct t; try discriminate. destruct (is_const l).
    - destruct l as [tl zl| | | |]; try discriminate. destruct tl; try discriminate.
      destruct (shift_of zl); [|discriminate]. intro H. injection H as _ <-. reflexivity.
    - destruct r as [tr zr| | | |]; try discriminate. destruct tr; try discriminate.
      destruct (shift_of zr); [|discriminate]. intro H. injection H as _ <-. reflexivity.
  Qed.

  Lemma binary_flag op l r e ok : binary tbl op l r = Some (e, ok) -> ok = true.
  Proof.
    unfold binary. destruct (find_info tbl op) as [i|]; [|discriminate].
    destruct (if pop_eqb (bop i) OpPlus || pop_eqb (bop i) OpMinus then additive tbl (btype i) (bop i) l r else None)
      as [[ea oka]|] eqn:Ea.
    { intro H. injection H as _ <-. destruct (pop_eqb (bop i) OpPlus || pop_eqb (bop i) OpMinus); [|discriminate].
      apply (additive_flag _ _ _ _ _ _ Ea). }
    destruct (if pop_eqb (bop i) OpTimes then times (btype i) l r else None) as [[et okt]|] eqn:Et.
    { intro H. injection H as _ <-. destruct (pop_eqb (bop i) OpTimes); [|discriminate].
      apply (times_flag _ _ _ _ _ Et). }
    match goal with |- match ?c with _ => _ end = _ -> _ => destruct c as [[n g]|] end; [|discriminate].
    destruct (pop_eqb n OpNone); [discriminate|].
    destruct (make_unary tbl n (btype i) g); [|discriminate]. intro H. injection H as _ <-. reflexivity.
  Qed.

  Lemma unary_flag op a e ok : unary tbl op a = Some (e, ok) -> ok = true.
  Proof.
    unfold unary. destruct a as [| | |op2 args|]; try discriminate. destruct args; [discriminate|].
    destruct (find_info tbl op); [|discriminate]. destruct (find_info tbl op2); [|discriminate].
    destruct (pop_eqb _ _); [|discriminate]. intro H. injection H as _ <-. reflexivity.
  Qed.

  Lemma negate_flag a e ok : negate tbl a = Some (e, ok) -> ok = true.
  Proof.
    unfold negate. destruct a as [| | |op2 args|]; try discriminate.
    destruct args as [|x [|y [|z r]]]; try discriminate.
    - destruct (String.eqb op2 "BoolNot"); [|discriminate]. intro H. injection H as _ <-. reflexivity.
    - destruct (find_info tbl op2) as [j|]; [|discriminate].
      destruct (negb (pop_eqb (field odual (bop j)) OpNone) && (negb (has_fx x) && negb (has_fx y))) eqn:G; [|discriminate].
      destruct (make_binary tbl _ _ y x); [|discriminate]. intro H. injection H as _ <-.
      apply andb_true_iff in G as [_ G]. apply pure_swap_ok. exact G.
  Qed.

  Lemma logic_flag op args e ok : bcall_logic tbl op args = Some (e, ok) -> ok = true.
  Proof.
    unfold bcall_logic.
    destruct (String.eqb op "BoolFalse"); [intro H; injection H as _ <-; reflexivity|].
    destruct (String.eqb op "BoolTrue"); [intro H; injection H as _ <-; reflexivity|].
    destruct (String.eqb op "BoolNot").
    { destruct args; [discriminate|]. apply negate_flag. }
    destruct (String.eqb op "BoolAnd").
    { destruct args as [|a [|b r]]; try discriminate.
      repeat match goal with
             | |- (if ?c then _ else _) = _ -> _ => destruct c
             end; try discriminate; intro H; injection H as _ <-; reflexivity. }
    destruct (String.eqb op "BoolOr"); [|discriminate].
    destruct args as [|a [|b r]]; try discriminate.
    repeat match goal with
           | |- (if ?c then _ else _) = _ -> _ => destruct c
           end; try discriminate; intro H; injection H as _ <-; reflexivity.
  Qed.

  Lemma rule_flag e e' ok : peep_rule tbl e = Some (e', ok) -> ok = true.
  Proof.
    destruct e as [| | |op args|t a]; cbn [peep_rule]; try discriminate.
    - unfold peep_bcall. destruct (bcall_logic tbl op args) as [[e0 ok0]|] eqn:El.
      + intro H. injection H as _ <-. apply (logic_flag _ _ _ _ El).
      + destruct args as [|a [|b [|c r]]]; try discriminate; [apply unary_flag|apply binary_flag].
    - unfold peep_cast. destruct (fty_eqb _ _); [intro H; injection H as _ <-; reflexivity|].
      destruct a; try discriminate. intro H. injection H as _ <-. reflexivity.
  Qed.

  (* peep_flag: with the guards of the current source no unsafe exchange can happen *)
  Lemma peep_aux_flag : forall fuel e, snd (peep_aux tbl fuel e) = true.
  Proof.
    induction fuel as [|k IH]; intro e; [reflexivity|]. cbn [peep_aux].
    set (ch := match e with
               | BCall op args => let rs := map (peep_aux tbl k) args in (BCall op (map fst rs), forallb snd rs)
               | Cast t a => let '(a', ok) := peep_aux tbl k a in (Cast t a', ok)
               | _ => (e, true)
               end).
    assert (Hch : snd ch = true).
    { subst ch. destruct e as [t z|t x|t x f|op args|t a]; cbn [snd]; try reflexivity.
      - apply forallb_forall. intros r Hr. apply in_map_iff in Hr as [a [<- _]]. apply IH.
      - specialize (IH a). destruct (peep_aux tbl k a) as [a' ok]. exact IH. }
    destruct ch as [e1 ok1]. cbn [snd] in Hch. subst ok1.
    destruct (peep_rule tbl e1) as [[e2 ok2]|] eqn:Er; [|reflexivity].
    specialize (IH e2). destruct (peep_aux tbl k e2) as [e3 ok3]. cbn [snd] in *. subst ok3.
    rewrite (rule_flag _ _ _ Er). reflexivity.
  Qed.
End Flag.

(* ---------------------------------------------------------------- the pass over the generated tables *)

Section Pass.
  Variable S : Type.
  Variable rd : S -> nat -> Z.
  Variable lv : nat -> S -> Z.
  Variable call : nat -> S -> Z * S.

  (* peep_preserves (value AND final state, expressions of any size), for the firings whose
     exchanged operands satisfy swap_ok (ghost flag true) *)
  Theorem peep_preserves_l ff e e' :
    peep ff e = (e', true) -> forall s r, ev S rd lv call s e = Some r -> ev S rd lv call s e' = Some r.
  Proof.
    unfold peep. apply peep_aux_sound.
    - destruct ff; [exact bvals_fast_ok|exact bvals_slow_ok].
    - exact ops_ok.
  Qed.

  (* full strength: no hypothesis on the run *)
  Theorem peep_preserves_full ff e :
    forall s r, ev S rd lv call s e = Some r -> ev S rd lv call s (fst (peep ff e)) = Some r.
  Proof.
    intros s r E. apply (peep_preserves_l ff e (fst (peep ff e))); [|exact E].
    pose proof (peep_aux_flag (peep_tbl ff) (4 * size e + 8) e) as F. unfold peep.
    destruct (peep_aux (peep_tbl ff) (4 * size e + 8) e) as [e' ok]. cbn [fst snd] in *. subst ok. reflexivity.
  Qed.

  (* peep_rule_sound for the two rules that exchange operands, guard as coded *)
  Theorem negate_rule_sound ff a e ok :
    negate (peep_tbl ff) a = Some (e, ok) ->
    forall s v s1, ev S rd lv call s (BCall "BoolNot" [a]) = Some (v, s1) -> ev S rd lv call s e = Some (v, s1).
  Proof.
    intros H s v s1 E. pose proof (negate_flag _ _ _ _ H) as ->.
    apply (negate_sound S rd lv call (peep_tbl ff)) with (a := a); try assumption.
    - destruct ff; [exact bvals_fast_ok|exact bvals_slow_ok].
    - exact ops_ok.
  Qed.

  Theorem additive_rule_sound ff t p l r e ok :
    additive (peep_tbl ff) t p l r = Some (e, ok) -> (p = OpPlus \/ p = OpMinus) ->
    forall s vl s1 vr s2 v, ev S rd lv call s l = Some (vl, s1) -> ev S rd lv call s1 r = Some (vr, s2) ->
      in_ty_b t vl = true -> in_ty_b t vr = true -> den2 p t vl vr = Some v ->
      ev S rd lv call s e = Some (v, s2).
  Proof.
    intros H Hp s vl s1 vr s2 v El Er Tl Tr Hd. pose proof (additive_flag _ _ _ _ _ _ _ H) as ->.
    apply (additive_sound S rd lv call (peep_tbl ff)) with (t := t) (p := p) (l := l) (r := r) (vl := vl) (s1 := s1) (vr := vr);
      try assumption.
    destruct ff; [exact bvals_fast_ok|exact bvals_slow_ok].
  Qed.
End Pass.

(* ---------------------------------------------------------------- what is NOT true of the code *)

(* A concrete machine: the state is one integer; variable 0 reads it; the effectful leaf x
   returns 5 and sets the state to 10 * state + x (so the order of two calls is visible and a
   call changes what the variable reads). *)
Definition rS := Z.
Definition r_rd (s : rS) (x : nat) : Z := s.
Definition r_lv (x : nat) (s : rS) : Z := 0.
Definition r_call (x : nat) (s : rS) : Z * rS := (5, 10 * s + Z.of_nat x).

(* Regression items (fix 159355b in /repo): the two rules that exchange operands are refused
   when an operand has a side effect.  Before the fix peepNegate turned  not (G <= h())  into
   h() < G  (results (0, 11) against (1, 11) on this machine from state 1) and peepAdditiveOp
   turned  (-f()) + g()  into  g() - f()  (final states 12 against 21). *)
Definition ex_negate : expr :=
  BCall "BoolNot" [BCall "SIntLE" [Var FSInt 0; Leaf FSInt 1 true]].
Definition ex_additive : expr :=
  BCall "SIntPlus" [BCall "SIntNegate" [Leaf FSInt 1 true]; Leaf FSInt 2 true].

Lemma swap_rules_guarded :
  peep false ex_negate = (ex_negate, true) /\
  peep false ex_additive = (ex_additive, true) /\
  peep false (BCall "BoolNot" [BCall "SIntLE" [Var FSInt 0; Leaf FSInt 1 false]])
  = (BCall "SIntLT" [Leaf FSInt 1 false; Var FSInt 0], true) /\
  peep false (BCall "SIntPlus" [BCall "SIntNegate" [Var FSInt 1]; Leaf FSInt 2 false])
  = (BCall "SIntMinus" [Leaf FSInt 2 false; Var FSInt 1], true) /\
  ev rS r_rd r_lv r_call 1 ex_negate = Some (0, 11) /\
  ev rS r_rd r_lv r_call 0 ex_additive = Some (0, 12).
Proof. vm_compute. repeat split; reflexivity. Qed.

(* peep_drop_needs_pure: a rule that drops an operand is sound only for an operand without
   side effect - dropping an effectful one changes the final state; the pass does not do it *)
Definition ex_drop : expr := BCall "BoolAnd" [Const FBool 0; Leaf FBool 3 true].

Lemma drop_needs_pure :
  ev rS r_rd r_lv (fun x s => (1, 10 * s + Z.of_nat x)) 0 ex_drop = Some (0, 3) /\
  ev rS r_rd r_lv (fun x s => (1, 10 * s + Z.of_nat x)) 0 (Const FBool 0) = Some (0, 0) /\
  peep false ex_drop = (ex_drop, true) /\
  peep false (BCall "BoolAnd" [Const FBool 0; Leaf FBool 3 false]) = (Const FBool 0, true) /\
  peep false (BCall "SIntTimes" [Const FSInt 0; Leaf FSInt 3 true]) = (BCall "SIntTimes" [Const FSInt 0; Leaf FSInt 3 true], true) /\
  peep false (BCall "SIntTimes" [Const FSInt 0; Leaf FSInt 3 false]) = (Const FSInt 0, true).
Proof. vm_compute. repeat split; reflexivity. Qed.

(* ---------------------------------------------------------------- what the model does NOT cover: the float rows

   With -Qffold the pass uses foamBValOpInfoTableFast, where the SFlo/DFlo builtins stand for the GENERIC
   operations (x - x = 0, x / x = 1, x * 0 = 0, x = x ...).  Those identities fail for NaN, infinities
   and signed zeros.  The fragment gives a float (or big-integer) builtin no value at all, so every
   theorem above is vacuous for an expression containing one: nothing is claimed about these rows.  They
   are decided by running (tools/c02_float.py, keys peep:fast-float-table:<shape>). *)
Definition outside_model_ty (t : fty) : bool :=
  match t with FSFlo | FDFlo | FBInt => true | _ => false end.

Lemma float_rows_have_no_spec :
  forallb (fun r => negb (outside_model_ty (btype r)) || match sop_of (bname r) with None => true | Some _ => false end)
          (peep_bvals_fast ++ peep_bvals_slow) = true.
Proof. vm_compute. reflexivity. Qed.

Lemma float_rows_not_covered r vs :
  In r (peep_bvals_fast ++ peep_bvals_slow) -> outside_model_ty (btype r) = true -> bval (bname r) vs = None.
Proof.
  intros Hin Ht. pose proof float_rows_have_no_spec as H. rewrite forallb_forall in H. specialize (H r Hin).
  rewrite Ht in H. cbn [negb orb] in H. unfold bval. destruct (sop_of (bname r)); [discriminate|reflexivity].
Qed.
