(* PeepCtl.v — vocabulary of the rule tables of of_peep.c (enum bvalOp, struct _bvalOpInfo,
   FoamBVals), in which the translator writes coq/Gen/PeepTbl.v.  Definitions only. *)
Require Import ZArith List String.
Require Import AV.Builtins.CInt.

Inductive pop :=
| OpNone
| OpPlus | OpMinus | OpTimes | OpDivide | OpDivRem | OpGCD | OpEQ | OpNE | OpLT | OpLE
| OpFPlus | OpFMinus | OpFTimes | OpFDivide | OpFEQ | OpFNE | OpFLT | OpFLE | OpFNeg
| OpFIsZero | OpFIsNeg | OpFIsPos
| OpNeg | OpNext | OpPrev | OpIsZero | OpIsNeg | OpIsPos
| OpZero | OpOne | OpMOne | OpTrue | OpFalse
| OpNonZero | OpNonNeg | OpNonPos | OpId
| OpUnknown (s : string).

(* { op, arity, dual, leqr, leftOne, rightOne, leftZero, rightZero } *)
Record oprow := mkOp { oop : pop; oarity : Z; odual : pop; oleqr : pop; ol1 : pop; or1 : pop; ol0 : pop; or0 : pop }.

(* { foamOp, type, peepOp } *)
Record bvrow := mkBv { bname : string; btype : fty; bop : pop }.
