(* Model.v — how a sequence of -O / -Q command-line arguments sets the optimiser's
   control variables (optfoam.c: optInit, optSetLevel, optSetAllTo, optSetOptimization,
   optSetStdOptimization; cmdline.c: cases 'O' and 'Q' of cmdHandleOption), what
   -WD+optf then prints (optPrintOpts) and which passes optimizeFoam announces.

   The table, the level arithmetic, the statements of the decoder and the pipeline are
   NOT written here: they are the generated definitions of AV.Gen.OptCtl, interpreted
   below one statement shape at a time.  Definitions only.

   Values.  A control variable is a C int.  `V z` is the integer z.  `-Qinline-limit=<s>`
   stores (int)(100*atof(s)); for s a decimal numeral of at most 7 digits that is
   V (100*s) exactly; for any other text the model keeps the symbolic `VAtof 100 s`
   (C's atof is not modelled; such values are never compared with the implementation).

   Outside the model: clustered option letters (-OQ3), response files (-a), the
   environment variable of default arguments. *)
Require Import ZArith List String Ascii Bool.
Require Import AV.Opt.Ctl AV.Gen.OptCtl.
Import ListNotations.
Local Open Scope Z_scope.

Inductive val := V (z : Z) | VAtof (mult : Z) (s : string).

(* the static variables of optfoam.c: optLevel and the ints the table points at *)
Record st := mkSt { lvl : Z; env : string -> val }.

Definition upd (v : string) (x : val) (e : string -> val) : string -> val :=
  fun w => if String.eqb w v then x else e w.

Definition b2v (b : bool) : val := V (if b then 1 else 0).

(* ---------------------------------------------------------------- strings as the C sees them *)

Definition lower (a : ascii) : ascii :=
  let n := N_of_ascii a in
  if (N.leb 65 n && N.leb n 90)%bool then ascii_of_N (n + 32) else a.

Definition upper (a : ascii) : ascii :=
  let n := N_of_ascii a in
  if (N.leb 97 n && N.leb n 122)%bool then ascii_of_N (n - 32) else a.

Definition ch_eq (c : cmp) (a b : ascii) : bool :=
  match c with
  | CmpExact => Ascii.eqb a b
  | CmpNoCase => Ascii.eqb (lower a) (lower b)
  end.

(* strIsPrefix / strAIsPrefix: the rest of s after pre, or None (null pointer) *)
Fixpoint strip_prefix (c : cmp) (pre s : string) : option string :=
  match pre with
  | EmptyString => Some s
  | String a pre' =>
      match s with
      | EmptyString => None
      | String b s' => if ch_eq c a b then strip_prefix c pre' s' else None
      end
  end.

(* strEqual / strAEqual *)
Fixpoint str_eq (c : cmp) (a b : string) : bool :=
  match a, b with
  | EmptyString, EmptyString => true
  | String x a', String y b' => ch_eq c x y && str_eq c a' b'
  | _, _ => false
  end.

Definition is_digit (a : ascii) : bool :=
  let n := N_of_ascii a in (N.leb 48 n && N.leb n 57)%bool.

Fixpoint all_digits (s : string) : bool :=
  match s with
  | EmptyString => true
  | String a r => is_digit a && all_digits r
  end.

Fixpoint dec_acc (acc : Z) (s : string) : Z :=
  match s with
  | EmptyString => acc
  | String a r => dec_acc (10 * acc + (Z.of_N (N_of_ascii a) - 48)) r
  end.

Definition short_decimal (s : string) : bool :=
  all_digits s && negb (String.eqb s "") && (Nat.leb (String.length s) 7).

(* (int)(mult * atof(s)) *)
Definition num_of (mult : Z) (s : string) : val :=
  if short_decimal s then V (mult * dec_acc 0 s) else VAtof mult s.

(* ---------------------------------------------------------------- optSetLevel, optSetAllTo *)

(* for (i = 0; optControl[i].name; i++) *optControl[i].pvar = optControl[i].value[index];
   None when a row has no such column (the C would read past the initialiser) *)
Fixpoint set_column (idx : nat) (rows : list row) (e : string -> val) : option (string -> val) :=
  match rows with
  | [] => Some e
  | r :: t =>
      match nth_error (rvals r) idx with
      | Some x => set_column idx t (upd (rvar r) (V x) e)
      | None => None
      end
  end.

Definition set_level (lev : Z) (f : st) : option st :=
  match set_level_shape with
  | None => None
  | Some (maxl, ovar) =>
      let idx := if lev >? maxl then maxl else lev in
      if idx <? 0 then None else
      match set_column (Z.to_nat idx) opt_ctl (env f) with
      | None => None
      | Some e1 =>
          if lev >? maxl then
            match nth_error opt_qinline_limit (Z.to_nat (lev - maxl - 1)) with
            | Some x => Some (mkSt lev (upd ovar (V x) e1))
            | None => None
            end
          else Some (mkSt lev e1)
      end
  end.

Fixpoint set_all_rows (on : bool) (rows : list row) (e : string -> val) : string -> val :=
  match rows with
  | [] => e
  | r :: t =>
      match rnat r with
      | NFlag => set_all_rows on t (upd (rvar r) (b2v on) e)
      | NFloat => set_all_rows on t e
      end
  end.

(* ---------------------------------------------------------------- optSetOptimization *)

(* a statement either returns (Done: Some = rc 0 with the new state, None = the model does
   not cover it) or falls through with possibly changed opt / isOn *)
Inductive sres := Done (r : option st) | Next (opt : string) (on : option bool).

Fixpoint find_float (c : cmp) (seps : list ascii) (mult : Z) (rows : list row) (opt : string) (f : st)
  : option st :=
  match rows with
  | [] => None
  | r :: t =>
      match rnat r with
      | NFlag => find_float c seps mult t opt f
      | NFloat =>
          match strip_prefix c (rname r) opt with
          | Some (String ch rest) =>
              if existsb (Ascii.eqb ch) seps
              then Some (mkSt (lvl f) (upd (rvar r) (num_of mult rest) (env f)))
              else find_float c seps mult t opt f
          | _ => find_float c seps mult t opt f
          end
      end
  end.

Fixpoint negate (fuel : nat) (neg : string) (c : cmp) (opt : string) (on : bool) : string * bool :=
  match fuel with
  | O => (opt, on)
  | S k =>
      match strip_prefix c neg opt with
      | Some s => negate k neg c s (negb on)
      | None => (opt, on)
      end
  end.

Fixpoint find_flag (c : cmp) (rows : list row) (opt : string) (on : bool) (f : st) : option st :=
  match rows with
  | [] => None
  | r :: t =>
      if str_eq c opt (rname r) then
        match rnat r with
        | NFlag => Some (mkSt (lvl f) (upd (rvar r) (b2v on) (env f)))
        | NFloat => find_flag c t opt on f
        end
      else find_flag c t opt on f
  end.

Definition do_stage (s : stage) (f : st) (opt : string) (on : option bool) : sres :=
  match s with
  | StLevel maxq =>
      match opt with
      | String ch EmptyString =>
          let i := Z.of_N (N_of_ascii ch) - 48 in
          if (0 <=? i) && (i <=? maxq) then Done (set_level i f) else Next opt on
      | _ => Next opt on
      end
  | StFloat c seps mult =>
      match find_float c seps mult opt_ctl opt f with
      | Some f' => Done (Some f')
      | None => Next opt on
      end
  | StNegate neg c =>
      let '(o, b) := negate (S (String.length opt)) neg c opt true in Next o (Some b)
  | StAll name c =>
      if str_eq c opt name then
        match on with
        | Some b => if set_all_flag_rows then Done (Some (mkSt (lvl f) (set_all_rows b opt_ctl (env f)))) else Done None
        | None => Done None      (* isOn read before it is assigned *)
        end
      else Next opt on
  | StSetAlso name c v1 v2 =>
      if str_eq c opt name then
        match on with
        | Some b =>
            let e1 := upd v1 (b2v b) (env f) in
            Done (Some (mkSt (lvl f) (if b then upd v2 (b2v b) e1 else e1)))
        | None => Done None
        end
      else Next opt on
  | StFlag c =>
      match on with
      | Some b =>
          match find_flag c opt_ctl opt b f with
          | Some f' => Done (Some f')
          | None => Next opt on
          end
      | None => Done None
      end
  | StUnknown _ => Done None
  end.

(* falling off the end is `return -1` *)
Fixpoint run_stages (ss : list stage) (f : st) (opt : string) (on : option bool) : option st :=
  match ss with
  | [] => None
  | s :: t =>
      match do_stage s f opt on with
      | Done r => r
      | Next o b => run_stages t f o b
      end
  end.

(* optSetOptimization(opt): Some = returns 0, None = returns -1 (cmdUseError: the
   compiler stops with a usage message) *)
Definition decode (opt : string) (f : st) : option st := run_stages decoder f opt None.

(* ---------------------------------------------------------------- command line *)

(* one argv word: "-Q<arg>", "-q<arg>", "-O", "-o"; anything else is not an
   optimisation argument and is outside this model (None) *)
Definition opt_arg (f : st) (a : string) : option st :=
  match a with
  | String "-" (String l rest) =>
      let l' := if cmd_letter_nocase then upper l else l in
      if Ascii.eqb l' "Q" then
        (if cmd_Q_is_decoder then decode rest f else None)
      else if Ascii.eqb l' "O" then
        (if String.eqb rest "" then
           (if cmd_O_is_std then match std_opt with Some s => decode s f | None => None end else None)
         else None)
      else None
  | _ => None
  end.

(* static storage: optLevel = OPT_DefaultLevel, every int 0; then optInit *)
Definition st0 : st := mkSt 0 (fun _ => V 0).

Definition opt_init : option st :=
  match default_level with
  | Some d => set_level d st0
  | None => None
  end.

Definition opt_from (start : option st) (args : list string) : option st :=
  fold_left (fun acc a => match acc with Some f => opt_arg f a | None => None end) args start.

(* THE function: the state after the whole command line, arguments left to right *)
Definition opt_state (args : list string) : option st := opt_from opt_init args.

(* ---------------------------------------------------------------- observations *)

(* optPrintOpts: one line per row, name and *pvar *)
Definition shown (f : st) : list (string * val) :=
  map (fun r => (rname r, env f (rvar r))) opt_ctl.

Definition on_var (f : st) (v : string) : bool :=
  match env f v with V 0 => false | _ => true end.

Fixpoint repeat_list {A} (n : nat) (l : list A) : list A :=
  match n with O => [] | S k => l ++ repeat_list k l end.

(* what optimizeFoam announces under -WD+optf, the data-dependent re-inlining loop left out *)
Fixpoint trace1 (iters : nat) (f : st) (p : pstep) : list string :=
  match p with
  | PIf vs lab _ => if existsb (on_var f) vs then [lab] else []
  | PWhileData _ => []
  | PLoop lab body => repeat_list iters (lab :: flat_map (trace1 iters f) body)
  | PSay lab => [lab]
  end.

Definition trace (f : st) : option (list string) :=
  match opt_iters (lvl f) with
  | Some n => Some (flat_map (trace1 (Z.to_nat n) f) pipeline)
  | None => None
  end.

(* ---------------------------------------------------------------- the specification side *)

(* number of level columns - 1 (OPT_MaxLevel), from the table itself *)
Definition max_col : Z :=
  match opt_ctl with
  | r :: _ => Z.of_nat (List.length (rvals r)) - 1
  | [] => 0
  end.

(* what -Q<n> is documented to select: column min(n, max_col) of every row, and above
   max_col the inline limit taken from optQInlineLimit[n - max_col - 1] *)
Definition column (n : Z) : list (string * val) :=
  map (fun r =>
         (rname r,
          V (if (n >? max_col) && String.eqb (rname r) "inline-limit"
             then nth (Z.to_nat (n - max_col - 1)) opt_qinline_limit 0
             else nth (Z.to_nat (Z.min n max_col)) (rvals r) 0)))
      opt_ctl.

(* the printed table with exactly the entry `name` replaced *)
Definition set_shown (name : string) (x : val) (l : list (string * val)) : list (string * val) :=
  map (fun p => if String.eqb (fst p) name then (fst p, x) else p) l.

Definition flag_names : list string :=
  map rname (filter (fun r => match rnat r with NFlag => true | NFloat => false end) opt_ctl).

(* names of the FLAG rows whose variable is non-zero *)
Definition enabled (l : list (string * val)) : list string :=
  map fst (filter (fun p => existsb (String.eqb (fst p)) flag_names &&
                            match snd p with V 0 => false | _ => true end) l).

Definition digit (n : Z) : string := String (ascii_of_N (Z.to_N (48 + n))) EmptyString.
Definition level_arg (n : Z) : string := ("-Q" ++ digit n)%string.

(* the labels of the pipeline steps guarded (only) by variables among vs, in pipeline order,
   one loop iteration: what must run when exactly those variables are on *)
Fixpoint steps_of (iters : nat) (vs : list string) (p : pstep) : list string :=
  match p with
  | PIf gs lab _ => if existsb (fun g => existsb (String.eqb g) vs) gs then [lab] else []
  | PWhileData _ => []
  | PLoop lab body => repeat_list iters (lab :: flat_map (steps_of iters vs) body)
  | PSay lab => [lab]
  end.
