(* FoldFacts.v — the constant folder preserves the value and the final state of every
   expression of the fragment, whatever its size (induction on the expression), from the
   per-row statement of property C04 about the GENERATED folder table. *)
Require Import ZArith List String Bool Lia.
Require Import AV.Builtins.CInt AV.Builtins.Spec AV.Builtins.Facts AV.Gen.Builtins AV.Gen.CfoldGuards.
Require Import AV.Opt.FoamSem AV.Opt.Fold.
Import ListNotations.
Local Open Scope Z_scope.

(* ---------------------------------------------------------------- induction on expressions *)

Section ExprInd.
  Variable P : expr -> Prop.
  Hypothesis HC : forall t z, P (Const t z).
  Hypothesis HV : forall t x, P (Var t x).
  Hypothesis HL : forall t x f, P (Leaf t x f).
  Hypothesis HB : forall op args, Forall P args -> P (BCall op args).
  Hypothesis HK : forall t e, P e -> P (Cast t e).

  Fixpoint expr_ind' (e : expr) : P e :=
    match e with
    | Const t z => HC t z
    | Var t x => HV t x
    | Leaf t x f => HL t x f
    | BCall op args =>
        HB op args ((fix go (l : list expr) : Forall P l :=
                       match l with
                       | [] => Forall_nil P
                       | a :: r => Forall_cons a (expr_ind' a) (go r)
                       end) args)
    | Cast t a => HK t a (expr_ind' a)
    end.
End ExprInd.

(* ---------------------------------------------------------------- basic facts *)

Lemma in_ty_b_true t z : in_ty_b t z = true -> in_ty t z.
Proof.
  (* written so that a further data type given a range in AV.Builtins.Spec keeps proving itself *)
  destruct t; cbn [in_ty_b in_ty]; intro H; try discriminate; try exact I;
    repeat match goal with
           | K : (_ && _)%bool = true |- _ => apply andb_true_iff in K; destruct K
           | K : (_ || _)%bool = true |- _ => apply orb_true_iff in K; destruct K
           | K : (_ <=? _) = true |- _ => apply Z.leb_le in K
           | K : (_ <? _) = true |- _ => apply Z.ltb_lt in K
           | K : (_ =? _) = true |- _ => apply Z.eqb_eq in K
           end; try lia; try tauto.
Qed.

Lemma typed_b_true ts : forall vs, typed_b ts vs = true -> typed ts vs.
Proof.
  induction ts as [|t ts IH]; intros [|v vs] H; cbn [typed_b] in H; try discriminate.
  - constructor.
  - apply andb_true_iff in H as [H1 H2]. constructor; [apply in_ty_b_true; exact H1|apply IH; exact H2].
Qed.

Section Sem.
  Variable S : Type.
  Variable rd : S -> nat -> Z.
  Variable lv : nat -> S -> Z.
  Variable call : nat -> S -> Z * S.

  Notation ev := (ev S rd lv call).
  Notation evs := (evs S rd lv call).

  Lemma ev_bcall s op args :
    ev s (BCall op args) =
    match evs s args with
    | Some (vs, s') => match bval op vs with Some v => Some (v, s') | None => None end
    | None => None
    end.
  Proof.
    cbn [FoamSem.ev].
    assert (E : forall l s0,
               (fix evs0 (s1 : S) (l0 : list expr) {struct l0} : option (list Z * S) :=
                  match l0 with
                  | [] => Some ([], s1)
                  | a :: r =>
                      match ev s1 a with
                      | Some (v, s2) =>
                          match evs0 s2 r with
                          | Some (vs, s3) => Some (v :: vs, s3)
                          | None => None
                          end
                      | None => None
                      end
                  end) s0 l = evs s0 l).
    { induction l as [|a r IH]; intro s0; [reflexivity|].
      cbn [FoamSem.evs]. destruct (ev s0 a) as [[v s2]|]; [|reflexivity]. rewrite IH. reflexivity. }
    rewrite E. reflexivity.
  Qed.

  Lemma ev_cast s t e :
    ev s (Cast t e) = match ev s e with
                      | Some (v, s') => if fits t v then Some (v, s') else None
                      | None => None
                      end.
  Proof. reflexivity. Qed.

  (* an expression that has a value as a cast operand has it without the cast *)
  Lemma ev_cast_inv s t e r : ev s (Cast t e) = Some r -> ev s e = Some r.
  Proof.
    rewrite ev_cast. destruct (ev s e) as [[v s']|]; [|discriminate].
    destruct (fits t v); [|discriminate]. intro H; exact H.
  Qed.

  Lemma ev_cast_fits s t e v s' : ev s (Cast t e) = Some (v, s') -> fits t v = true.
  Proof.
    rewrite ev_cast. destruct (ev s e) as [[v0 s0]|]; [|discriminate].
    destruct (fits t v0) eqn:F; [|discriminate]. intro H. injection H as -> _. exact F.
  Qed.

  Lemma ev_cast_intro s t e v s' : ev s e = Some (v, s') -> fits t v = true -> ev s (Cast t e) = Some (v, s').
  Proof. intros H F. rewrite ev_cast, H, F. reflexivity. Qed.

  (* refinement of operand lists *)
  Lemma evs_refine (f : expr -> expr) args :
    Forall (fun a => forall s r, ev s a = Some r -> ev s (f a) = Some r) args ->
    forall s r, evs s args = Some r -> evs s (map f args) = Some r.
  Proof.
    induction 1 as [|a l Ha Hl IH]; intros s r H; [exact H|].
    cbn [FoamSem.evs map] in *.
    destruct (ev s a) as [[v s1]|] eqn:E; [|discriminate].
    rewrite (Ha _ _ E).
    destruct (evs s1 l) as [[vs s2]|] eqn:E2; [|discriminate].
    rewrite (IH _ _ E2). exact H.
  Qed.

  Lemma bcall_refine (f : expr -> expr) op args :
    Forall (fun a => forall s r, ev s a = Some r -> ev s (f a) = Some r) args ->
    forall s r, ev s (BCall op args) = Some r -> ev s (BCall op (map f args)) = Some r.
  Proof.
    intros HF s r H. rewrite ev_bcall in *.
    destruct (evs s args) as [[vs s']|] eqn:E; [|discriminate].
    rewrite (evs_refine f args HF _ _ E). exact H.
  Qed.

  (* rewrite_under_context: a rewriting f that preserves every expression it is applied to may be
     applied to the operands of a call and under a cast - soundness is closed under the contexts
     of the fragment *)
  Lemma context_closed (f : expr -> expr) :
    (forall a s r, ev s a = Some r -> ev s (f a) = Some r) ->
    (forall op args s r, ev s (BCall op args) = Some r -> ev s (BCall op (map f args)) = Some r) /\
    (forall t a s r, ev s (Cast t a) = Some r -> ev s (Cast t (f a)) = Some r).
  Proof.
    intro Hf. split.
    - intros op args. apply bcall_refine. apply Forall_forall. intros a _. apply Hf.
    - intros t a s r H. rewrite ev_cast in *. destruct (ev s a) as [[v s']|] eqn:E; [|discriminate].
      rewrite (Hf _ _ _ E). exact H.
  Qed.

  (* constants evaluate to themselves and leave the state alone *)
  Lemma evs_consts args : forall vs s, const_vals args = Some vs -> evs s args = Some (vs, s).
  Proof.
    induction args as [|a r IH]; intros vs s H; cbn [const_vals] in H.
    - injection H as <-. reflexivity.
    - destruct a; cbn [const_val] in H; try discriminate.
      destruct (const_vals r) as [vr|] eqn:E; [|discriminate]. injection H as <-.
      cbn [FoamSem.evs FoamSem.ev]. rewrite (IH _ _ eq_refl). reflexivity.
  Qed.

  Lemma find_row_in op r :
    find (fun r => String.eqb (rname r) op) cfold_tbl = Some r -> In r cfold_tbl /\ rname r = op.
  Proof. intro H. apply find_some in H as [H1 H2]. apply String.eqb_eq in H2. tauto. Qed.

  Section WithTable.
    (* the statement proved in AV.Builtins.ProofsCfold over the generated table *)
    Hypothesis Hc : folds_to_spec known_bad_cfold cfold_tbl.

    Lemma cfold_bcall_sound fa op args s r :
      existsb (String.eqb op) known_bad_cfold = false ->
      ev s (BCall op args) = Some r -> ev s (cfold_bcall fa op args) = Some r.
    Proof.
      intros Hb H. unfold cfold_bcall.
      destruct (negb (cfold_needs_const_args && cfold_data_is_const)); [exact H|].
      destruct (const_vals args) as [vs|] eqn:Ec; [|exact H].
      destruct (find (fun r0 => String.eqb (rname r0) op) cfold_tbl) as [row|] eqn:Ef; [|exact H].
      destruct (negb (fa && existsb (String.eqb op) cfold_guard_all)); [exact H|].
      destruct (find_row_in _ _ Ef) as [Hin Hn].
      rewrite ev_bcall in H. rewrite (evs_consts _ _ s Ec) in H.
      unfold bval in H. destruct (sop_of op) as [o|] eqn:Eo; [|discriminate].
      destruct (typed_b (fst (sop_sig o)) vs && in_dom o vs) eqn:Et; [|discriminate].
      apply andb_true_iff in Et as [Et Ed]. injection H as <-.
      assert (Hnb : ~ In (rname row) known_bad_cfold).
      { intro K. rewrite Hn in K.
        assert (existsb (String.eqb op) known_bad_cfold = true)
          by (apply existsb_exists; exists op; split; [exact K|apply String.eqb_refl]).
        congruence. }
      assert (Hsem : rexp row <> Declined -> sem vs (rexp row) = Some (spec o vs)).
      { intro Hd. apply (cfold_row_spec known_bad_cfold cfold_tbl Hc row o vs Hin Hnb Hd).
        - rewrite Hn. exact Eo.
        - apply typed_b_true. exact Et.
        - exact Ed. }
      assert (Horig : ev s (BCall op args) = Some (spec o vs, s)).
      { rewrite ev_bcall, (evs_consts _ _ s Ec). unfold bval. rewrite Eo, Et, Ed. reflexivity. }
      destruct (rexp row) eqn:Er; try exact Horig;
        (rewrite Hsem by discriminate; reflexivity).
    Qed.

    Lemma cfold_cast_sound t a s r : ev s (Cast t a) = Some r -> ev s (cfold_cast t a) = Some r.
    Proof.
      intro H. unfold cfold_cast.
      (* every answer is the operand with casts removed, or the node itself *)
      assert (Ha : ev s a = Some r) by (eapply ev_cast_inv; exact H).
      destruct a as [t0 z|t0 x|t0 x f|op args|u x]; cbn [ty_of];
        repeat first
          [ exact H | exact Ha
          | match goal with
            | |- context [if ?c then _ else _] => destruct c
            | |- context [match ?u with FBool => _ | _ => _ end] => destruct u
            | |- context [match ?x with Const _ _ => _ | _ => _ end] => destruct x
            end
          | progress cbn [negb ty_of] ];
        try (eapply ev_cast_inv; exact Ha);
        try (eapply ev_cast_inv; eapply ev_cast_inv; exact Ha).
    Qed.

    (* cfold_preserves *)
    Theorem cfold_preserves_l fa e :
      bad_free e = true -> forall s r, ev s e = Some r -> ev s (cfold fa e) = Some r.
    Proof.
      induction e as [t z|t x|t x f|op args IH|t e IH] using expr_ind'; intros Hb s r H; cbn [cfold]; try exact H.
      - cbn [bad_free] in Hb. apply andb_true_iff in Hb as [Hb1 Hb2]. apply negb_true_iff in Hb1.
        apply cfold_bcall_sound; [exact Hb1|].
        apply bcall_refine; [|exact H].
        rewrite Forall_forall in IH. rewrite forallb_forall in Hb2. apply Forall_forall.
        intros a Ha s0 r0. apply IH; [exact Ha|apply Hb2; exact Ha].
      - cbn [bad_free] in Hb. apply cfold_cast_sound.
        rewrite ev_cast in *. destruct (ev s e) as [[v s']|] eqn:E; [|discriminate].
        rewrite (IH Hb _ _ E). exact H.
    Qed.
  End WithTable.
End Sem.

Lemma bad_free_when_none : known_bad_cfold = [] -> forall e, bad_free e = true.
Proof.
  intro K. induction e as [t z|t x|t x f|op args IH|t e IH] using expr_ind'; cbn [bad_free]; try reflexivity.
  - rewrite K. cbn [existsb negb andb]. apply forallb_forall. rewrite Forall_forall in IH. exact IH.
  - exact IH.
Qed.
