(* Peep.v — of_peep.c on the expression fragment, function for function, over the rule
   tables REGENERATED from of_peep.c (AV.Gen.PeepTbl: foamBValOpInfoTableFast/Slow and
   peepBValOpInfo).  Definitions only.

   Every rule function returns `option (expr * bool)`: None = the C returns its argument
   (no rewrite); Some (e', ok) = the C returns the new node e'.  `ok` is a GHOST output, not
   part of the code: it would be false if a rule exchanged the evaluation order of two
   operands without `swap_ok` holding for them.  With the guards of the current source (both
   operands free of side effects, fix 159355b) it is always true (PeepFacts.peep_flag).

   Outside the fragment (not modelled): big-integer and float data nodes (peepTimesOp /
   peepPositive / BIntToSInt / SIntToBInt on BInt), peepIf / peepSelect / peepCCall /
   peepEEnsure (statements and calls). *)
Require Import ZArith List String Bool.
Require Import AV.Builtins.CInt AV.Builtins.Spec AV.Gen.Builtins AV.Opt.PeepCtl AV.Gen.PeepTbl AV.Opt.FoamSem.
Import ListNotations.
Local Open Scope string_scope.
Local Open Scope Z_scope.

Definition pop_eqb (a b : pop) : bool :=
  match a, b with
  | OpNone, OpNone | OpPlus, OpPlus | OpMinus, OpMinus | OpTimes, OpTimes | OpDivide, OpDivide
  | OpDivRem, OpDivRem | OpGCD, OpGCD | OpEQ, OpEQ | OpNE, OpNE | OpLT, OpLT | OpLE, OpLE
  | OpFPlus, OpFPlus | OpFMinus, OpFMinus | OpFTimes, OpFTimes | OpFDivide, OpFDivide
  | OpFEQ, OpFEQ | OpFNE, OpFNE | OpFLT, OpFLT | OpFLE, OpFLE | OpFNeg, OpFNeg
  | OpFIsZero, OpFIsZero | OpFIsNeg, OpFIsNeg | OpFIsPos, OpFIsPos
  | OpNeg, OpNeg | OpNext, OpNext | OpPrev, OpPrev | OpIsZero, OpIsZero | OpIsNeg, OpIsNeg
  | OpIsPos, OpIsPos | OpZero, OpZero | OpOne, OpOne | OpMOne, OpMOne | OpTrue, OpTrue
  | OpFalse, OpFalse | OpNonZero, OpNonZero | OpNonNeg, OpNonNeg | OpNonPos, OpNonPos
  | OpId, OpId => true
  | OpUnknown s, OpUnknown s' => String.eqb s s'
  | _, _ => false
  end.

Section Tables.
  (* peepBValTbl: Fast when floats may be folded, else Slow *)
  Variable tbl : list bvrow.

  (* peepFindOpInfo *)
  Definition find_info (op : string) : option bvrow :=
    find (fun r => String.eqb (bname r) op) tbl.

  (* peepFindFoamOp *)
  Definition find_foam_op (p : pop) (t : fty) : option string :=
    match find (fun r => pop_eqb (bop r) p && fty_eqb (btype r) t) tbl with
    | Some r => Some (bname r)
    | None => None
    end.

  (* peepBValOpInfo[op].  The enum bvalOp has more values than the table has rows: the value that
     indexes the sentinel row reads the sentinel's arity; the values behind it (OpNonNeg, OpNonPos,
     OpId in the current source) make the C read PAST the table (undefined behaviour; no effect on
     soundness: a zero only makes the rule refuse operands with a side effect).  What is read there
     was OBSERVED, on the pinned build and on the build the check makes: zero for all of them except
     OpId, whose slot reads non-zero (x + 0 ==> x also for x with a side effect, 0 <= x ==> not
     (x < 0) only for x without).  The tie with the real pass re-checks this on every run. *)
  Definition op_row (p : pop) : option oprow := find (fun r => pop_eqb (oop r) p) peep_ops.
  Definition observed_beyond_table (p : pop) : Z := match p with OpId => 1 | _ => 0 end.
  Definition arity_of (p : pop) : Z :=
    match op_row p with
    | Some r => oarity r
    | None => if existsb (pop_eqb p) peep_ops_at_sentinel then peep_sentinel_arity
              else observed_beyond_table p
    end.
  Definition field (f : oprow -> pop) (p : pop) : pop := match op_row p with Some r => f r | None => OpNone end.

  (* peepFoamIsValue(type, value, foam) on the fragment's data types *)
  Definition is_value (t : fty) (v : Z) (e : expr) : bool :=
    match e with
    | Const t' z =>
        fty_eqb t' t && (z =? v) &&
        match t with FBool | FSInt | FHInt | FChar => true | _ => false end
    | _ => false
    end.

  (* peepFoamValue(type, value) *)
  Definition foam_value (t : fty) (v : Z) : option expr :=
    match t with
    | FBool | FSInt | FHInt | FChar => Some (Const t v)
    | _ => None
    end.

  (* peepMakeUnaryOp; None = NULL *)
  Definition make_unary (p : pop) (t : fty) (a : expr) : option expr :=
    if (arity_of p =? 0) && has_fx a then None else
    let plain q := match find_foam_op q t with Some f => Some (BCall f [a]) | None => None end in
    let negated q :=
        match find_foam_op q t with
        | Some f => Some (BCall "BoolNot" [BCall f [a]])
        | None => None
        end in
    match p with
    | OpZero => foam_value t 0
    | OpOne => foam_value t 1
    | OpMOne => foam_value t (-1)
    | OpTrue => Some (Const FBool 1)
    | OpFalse => Some (Const FBool 0)
    | OpId => Some a
    | OpNonZero => negated OpIsZero
    | OpNonPos => negated OpIsPos
    | OpNonNeg => negated OpIsNeg
    | q => plain q
    end.

  (* peepMakeBinaryOp *)
  Definition make_binary (p : pop) (t : fty) (a b : expr) : option expr :=
    match find_foam_op p t with
    | Some f => Some (BCall f [a; b])
    | None => None
    end.

  (* peepPositive (SInt data and negations; BInt data is outside the fragment) *)
  Definition positive (e : expr) : option expr :=
    match e with
    | BCall op [x] =>
        match find_info op with
        | Some i => if pop_eqb (bop i) OpNeg then Some x else None
        | None => None
        end
    | BCall op _ => None
    | Const FSInt z => if z <? 0 then Some (Const FSInt (wrap S64 (- z))) else None
    | _ => None
    end.

  (* peepAdditiveOp.  (-a) + b ==> b - a exchanges the operands: only when neither has a side
     effect ("if (pos && !(peepNoSideFx(lhs) && peepNoSideFx(rhs))) pos = NULL") *)
  Definition additive (t : fty) (p : pop) (l r : expr) : option (expr * bool) :=
    let first :=
        if pop_eqb p OpPlus then
          match positive l with
          | Some x => if negb (has_fx l) && negb (has_fx r) then Some x else None
          | None => None
          end
        else None in
    let '(l', r', swapped) := match first with Some _ => (r, l, true) | None => (l, r, false) end in
    let pos := match first with Some x => Some x | None => positive r' end in
    match pos with
    | None => None
    | Some x =>
        match make_binary (if pop_eqb p OpPlus then OpMinus else OpPlus) t l' x with
        | Some e => Some (e, negb swapped || swap_ok l r)
        | None => None      (* the C returns NULL: the caller goes on *)
        end
    end.

  Definition is_const (e : expr) : bool := match e with Const _ _ => true | _ => false end.

  (* 2^k for 1 <= k <= 30 (peepFoamIsPowerOf2, intLength - 1, "shift > 30 return NULL") *)
  Definition shift_of (z : Z) : option Z :=
    if (2 <=? z) && (z =? 2 ^ Z.log2 z) && (Z.log2 z <=? 30) then Some (Z.log2 z) else None.

  (* peepTimesOp *)
  Definition times (t : fty) (l r : expr) : option (expr * bool) :=
    match t with
    | FSInt =>
        let '(l', r') := if is_const l then (r, l) else (l, r) in
        match r' with
        | Const FSInt z =>
            match shift_of z with
            | Some k => Some (BCall "SIntShiftUp" [l'; Const FSInt k], true)
            | None => None
            end
        | _ => None
        end
    | _ => None
    end.

  (* peepBinaryBCall *)
  Definition binary (op : string) (l r : expr) : option (expr * bool) :=
    match find_info op with
    | None => None
    | Some i =>
        let t := btype i in
        let p := bop i in
        let a1 := if pop_eqb p OpPlus || pop_eqb p OpMinus then additive t p l r else None in
        match a1 with
        | Some x => Some x
        | None =>
            let a2 := if pop_eqb p OpTimes then times t l r else None in
            match a2 with
            | Some x => Some x
            | None =>
                (* newOp/arg: the l = r candidate is overridden by any of the four literal cases *)
                let cand :=
                    if negb (pop_eqb (field ol0 p) OpNone) && is_value t 0 l then Some (field ol0 p, r)
                    else if negb (pop_eqb (field ol1 p) OpNone) && is_value t 1 l then Some (field ol1 p, r)
                    else if negb (pop_eqb (field or0 p) OpNone) && is_value t 0 r then Some (field or0 p, l)
                    else if negb (pop_eqb (field or1 p) OpNone) && is_value t 1 r then Some (field or1 p, l)
                    else if negb (has_fx l) && expr_eqb l r then Some (field oleqr p, l)
                    else None in
                match cand with
                | None => None
                | Some (n, g) =>
                    if pop_eqb n OpNone then None else
                    match make_unary n t g with
                    | Some e => Some (e, true)
                    | None => None
                    end
                end
            end
        end
    end.

  (* peepUnaryBCall *)
  Definition unary (op : string) (a : expr) : option (expr * bool) :=
    match a with
    | BCall op2 (x :: _) =>
        match find_info op, find_info op2 with
        | Some i, Some j => if pop_eqb (field odual (bop i)) (bop j) then Some (x, true) else None
        | _, _ => None
        end
    | _ => None
    end.

  (* peepNegate *)
  Definition negate (a : expr) : option (expr * bool) :=
    match a with
    | BCall op2 args2 =>
        match args2 with
        | [x] => if String.eqb op2 "BoolNot" then Some (x, true) else None
        | [x; y] =>
            match find_info op2 with
            | None => None
            | Some j =>
                let d := field odual (bop j) in
                if negb (pop_eqb d OpNone) && (negb (has_fx x) && negb (has_fx y)) then
                  match make_binary d (btype j) y x with
                  | Some e => Some (e, swap_ok x y)
                  | None => None
                  end
                else None
            end
        | _ => None
        end
    | _ => None
    end.

  Definition is_bool (v : Z) (e : expr) : bool :=
    match e with Const FBool z => z =? v | _ => false end.

  (* the first switch of peepBCall *)
  Definition bcall_logic (op : string) (args : list expr) : option (expr * bool) :=
    if String.eqb op "BoolFalse" then Some (Const FBool 0, true)
    else if String.eqb op "BoolTrue" then Some (Const FBool 1, true)
    else if String.eqb op "BoolNot" then
      match args with a :: _ => negate a | [] => None end
    else if String.eqb op "BoolAnd" then
      match args with
      | a :: b :: _ =>
          if is_bool 0 a then (if negb (has_fx b) then Some (Const FBool 0, true) else None)
          else if is_bool 1 a then Some (b, true)
          else if is_bool 0 b then (if negb (has_fx a) then Some (Const FBool 0, true) else None)
          else if is_bool 1 b then Some (a, true)
          else None
      | _ => None
      end
    else if String.eqb op "BoolOr" then
      match args with
      | a :: b :: _ =>
          if is_bool 1 a then (if negb (has_fx b) then Some (Const FBool 1, true) else None)
          else if is_bool 0 a then Some (b, true)
          else if is_bool 1 b then (if negb (has_fx a) then Some (Const FBool 1, true) else None)
          else if is_bool 0 b then Some (a, true)
          else None
      | _ => None
      end
    else None.

  (* peepBCall *)
  Definition peep_bcall (op : string) (args : list expr) : option (expr * bool) :=
    match bcall_logic op args with
    | Some x => Some x
    | None =>
        match args with
        | [a] => unary op a
        | [a; b] => binary op a b
        | _ => None
        end
    end.

  (* peepCast *)
  Fixpoint strip_casts (e : expr) : expr :=
    match e with Cast _ x => strip_casts x | _ => e end.

  Definition peep_cast (t : fty) (a : expr) : option (expr * bool) :=
    let inner := strip_casts a in
    if fty_eqb (ty_of inner) t then Some (inner, true)
    else match a with
         | Cast _ _ => Some (Cast t inner, true)
         | _ => None
         end.

  (* the switch of peepExpr on one node whose children are done *)
  Definition peep_rule (e : expr) : option (expr * bool) :=
    match e with
    | BCall op args => peep_bcall op args
    | Cast t a => peep_cast t a
    | _ => None
    end.

  (* peepAux / peepExpr: children first (each to its own fixpoint), then the node, again while
     it changes.  Structural on the fuel; running out of fuel returns the expression reached
     so far (which is a correct answer too). *)
  Fixpoint peep_aux (fuel : nat) (e : expr) : expr * bool :=
    match fuel with
    | O => (e, true)
    | S k =>
        let '(e1, ok1) :=
            match e with
            | BCall op args =>
                let rs := map (peep_aux k) args in
                (BCall op (map fst rs), forallb snd rs)
            | Cast t a => let '(a', ok) := peep_aux k a in (Cast t a', ok)
            | _ => (e, true)
            end in
        match peep_rule e1 with
        | Some (e2, ok2) => let '(e3, ok3) := peep_aux k e2 in (e3, ok1 && ok2 && ok3)
        | None => (e1, ok1)
        end
    end.
End Tables.

Definition peep_tbl (fold_floats : bool) : list bvrow :=
  if fold_floats then peep_bvals_fast else peep_bvals_slow.

Fixpoint size (e : expr) : nat :=
  match e with
  | BCall _ args => Datatypes.S (fold_right (fun a n => (size a + n)%nat) O args)
  | Cast _ a => Datatypes.S (size a)
  | _ => 1%nat
  end.

(* the pass on one expression; the fuel is ample (every firing shrinks or keeps the size) *)
Definition peep (fold_floats : bool) (e : expr) : expr * bool :=
  peep_aux (peep_tbl fold_floats) (4 * size e + 8) e.
