(* Fold.v — of_cfold.c:cfoldExpr on the expression fragment: bottom-up, a BCall all of
   whose arguments are data nodes is replaced by the data node the GENERATED folder table
   (AV.Gen.Builtins.cfold_tbl, b-c04's translation of the switch in cfoldBCall) computes,
   when the case is guarded by cfoldFoldAll and that flag is on; cfoldCast removes casts.
   Definitions only. *)
Require Import ZArith List String Bool.
Require Import AV.Builtins.CInt AV.Builtins.Spec AV.Gen.Builtins AV.Gen.CfoldGuards AV.Opt.FoamSem.
Import ListNotations.
Local Open Scope Z_scope.

Definition const_val (e : expr) : option Z :=
  match e with Const _ z => Some z | _ => None end.

Fixpoint const_vals (l : list expr) : option (list Z) :=
  match l with
  | [] => Some []
  | a :: r =>
      match const_val a, const_vals r with
      | Some v, Some vs => Some (v :: vs)
      | _, _ => None
      end
  end.

(* cfoldBCall: arguments already folded *)
Definition cfold_bcall (fold_all : bool) (op : string) (args : list expr) : expr :=
  let same := BCall op args in
  if negb (cfold_needs_const_args && cfold_data_is_const) then same else
  match const_vals args with
  | None => same
  | Some vs =>
      match find (fun r => String.eqb (rname r) op) cfold_tbl with
      | None => same
      | Some r =>
          if negb (fold_all && existsb (String.eqb op) cfold_guard_all) then same else
          match rexp r with
          | Declined => same
          | e =>
              match sem vs e with
              | Some v => Const (rres r) v
              | None => same          (* an embedding the model cannot evaluate: left in place here *)
              end
          end
      end
  end.

Definition is_int_ty (t : fty) : bool :=
  match t with FSInt | FHInt | FWord | FBInt => true | _ => false end.

(* cfoldCast, statement by statement; `expr` = (Cast t arg) *)
Definition cfold_cast (t : fty) (arg : expr) : expr :=
  let same := Cast t arg in
  match (match arg with
         | Cast FWord x => if fty_eqb (ty_of x) t then Some x else None
         | _ => None
         end) with
  | Some x => x
  | None =>
      if negb (is_int_ty t) then same else
      match (match arg with
             | Cast _ (Const t' z) => if fty_eqb t' t then Some (Const t' z) else None
             | _ => None
             end) with
      | Some x => x
      | None =>
          if fty_eqb (ty_of arg) t then arg else
          match arg with
          | Cast u x =>
              if negb (is_int_ty u) then same else
              if fty_eqb (ty_of x) t then x else
              match x with
              | Cast u2 y => if fty_eqb u2 t then y else same
              | _ => same
              end
          | _ => same
          end
      end
  end.

Fixpoint cfold (fold_all : bool) (e : expr) : expr :=
  match e with
  | BCall op args => cfold_bcall fold_all op (map (cfold fold_all) args)
  | Cast t a => cfold_cast t (cfold fold_all a)
  | _ => e
  end.

(* no call of a builtin whose folder row is listed as a known defect (C04) *)
Fixpoint bad_free (e : expr) : bool :=
  match e with
  | BCall op args => negb (existsb (String.eqb op) known_bad_cfold) && forallb bad_free args
  | Cast _ a => bad_free a
  | _ => true
  end.
