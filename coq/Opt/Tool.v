(* Tool.v — string conversions for the extracted Fold/Peep model driver (decimal numerals,
   FOAM type names).  Definitions only; no semantics here. *)
Require Import ZArith List String Ascii Bool Decimal DecimalString.
Require Import AV.Builtins.CInt AV.Builtins.Spec AV.Gen.Builtins AV.Opt.FoamSem AV.Opt.Fold AV.Opt.Peep.
Import ListNotations.
Local Open Scope string_scope.

Definition z_to_dec (z : Z) : string := NilZero.string_of_int (Z.to_int z).

Definition z_of_dec (s : string) : Z :=
  match NilZero.int_of_string s with
  | Some i => Z.of_int i
  | None => 0%Z
  end.

Definition ty_names : list (string * fty) :=
  [("Bool", FBool); ("Char", FChar); ("Byte", FByte); ("HInt", FHInt); ("SInt", FSInt); ("Word", FWord);
   ("BInt", FBInt); ("SFlo", FSFlo); ("DFlo", FDFlo); ("Ptr", FPtr); ("Arr", FArr); ("NOp", FNOp);
   ("Nil", FNil); ("Clos", FClos); ("Rec", FRec); ("Arb", FArb); ("Multi", FMulti); ("Other", FOther)].

Definition ty_of_name (s : string) : fty :=
  match find (fun p => String.eqb (fst p) s) ty_names with
  | Some p => snd p
  | None => FOther
  end.

Definition name_of_ty (t : fty) : string :=
  match find (fun p => fty_eqb (snd p) t) ty_names with
  | Some p => fst p
  | None => "Other"
  end.

Definition tool_cfold (fold_all : bool) (e : expr) : expr := cfold fold_all e.
Definition tool_peep (fold_floats : bool) (e : expr) : expr * bool := peep fold_floats e.

(* the builtins of the fragment (those with a specification) and the builtins with hasSideFx *)
Definition frag_ops : list string := map fst sop_table.
Definition fx_ops : list string := map sname (filter ssfx bval_sig).
