(* C02 model driver.  One command per input line:
     opts <argv words>          the option model (no word = no optimisation argument)
     cfold <0|1> <expr>         Fold.cfold with cfoldFoldAll = the flag
     peep <0|1> <expr>          Peep.peep with foldfloats = the flag; answers "ok <expr>" or
                                "swap <expr>" (an operand exchange without swap_ok happened)
   Output of opts, one line each:
     ERR                                     the model rejects the sequence (usage error)
     lvl=<n>|name=v,name=v,...|label;label   optLevel, the table -WD+optf prints, the pass trace
   Every value comes from the extracted definitions; the driver converts strings/numerals. *)
open Opt_model

let ascii_of_char (c : char) : ascii =
  let n = Char.code c in
  let b i = (n lsr i) land 1 = 1 in
  Ascii (b 0, b 1, b 2, b 3, b 4, b 5, b 6, b 7)
let char_of_ascii (a : ascii) : char =
  match a with
  | Ascii (b0, b1, b2, b3, b4, b5, b6, b7) ->
    let v b i = if b then 1 lsl i else 0 in
    Char.chr (v b0 0 lor v b1 1 lor v b2 2 lor v b3 3 lor v b4 4 lor v b5 5 lor v b6 6 lor v b7 7)
let to_coq (s : Stdlib.String.t) : Opt_model.string =
  let r = ref EmptyString in
  for i = Stdlib.String.length s - 1 downto 0 do r := String (ascii_of_char s.[i], !r) done; !r
let of_coq (s : Opt_model.string) : Stdlib.String.t =
  let b = Buffer.create 64 in
  let rec go = function EmptyString -> () | String (a, r) -> Buffer.add_char b (char_of_ascii a); go r in
  go s; Buffer.contents b
let rec int_of_pos = function XH -> 1 | XO p -> 2 * int_of_pos p | XI p -> 2 * int_of_pos p + 1
let int_of_z = function Z0 -> 0 | Zpos p -> int_of_pos p | Zneg p -> - (int_of_pos p)

let show_val = function V z -> string_of_int (int_of_z z) | VAtof (_, _) -> "?"

let opts_line ws =
  match opt_state (List.map to_coq ws) with
  | None -> "ERR"
  | Some f ->
    let tbl = Stdlib.String.concat "," (List.map (fun (n, v) -> of_coq n ^ "=" ^ show_val v) (shown f)) in
    let tr = match trace f with
      | None -> "?"
      | Some l -> Stdlib.String.concat ";" (List.map of_coq l) in
    "lvl=" ^ string_of_int (int_of_z f.lvl) ^ "|" ^ tbl ^ "|" ^ tr

(* expressions of the Fold/Peep fragment, as s-expressions:
   (C ty z) (V ty id) (L ty id fx) (B op e...) (K ty e) *)
let rec nat_of_int n = if n <= 0 then O else S (nat_of_int (n - 1))
let rec int_of_nat = function O -> 0 | S n -> 1 + int_of_nat n

let tokenize (s : Stdlib.String.t) : Stdlib.String.t list =
  let b = Buffer.create 16 and out = ref [] in
  let flush () = if Buffer.length b > 0 then (out := Buffer.contents b :: !out; Buffer.clear b) in
  Stdlib.String.iter (fun c ->
    match c with
    | '(' | ')' -> flush (); out := Stdlib.String.make 1 c :: !out
    | ' ' | '\t' -> flush ()
    | c -> Buffer.add_char b c) s;
  flush (); List.rev !out

let rec parse toks =
  match toks with
  | "(" :: "C" :: t :: z :: ")" :: r -> (Const (ty_of_name (to_coq t), z_of_dec (to_coq z)), r)
  | "(" :: "V" :: t :: x :: ")" :: r -> (Var (ty_of_name (to_coq t), nat_of_int (int_of_string x)), r)
  | "(" :: "L" :: t :: x :: f :: ")" :: r -> (Leaf (ty_of_name (to_coq t), nat_of_int (int_of_string x), f = "1"), r)
  | "(" :: "K" :: t :: r -> let (e, r') = parse r in
    (match r' with ")" :: r'' -> (Cast0 (ty_of_name (to_coq t), e), r'') | _ -> failwith "parse K")
  | "(" :: "B" :: op :: r ->
    let rec args r acc = match r with
      | ")" :: r' -> (List.rev acc, r')
      | _ -> let (e, r') = parse r in args r' (e :: acc) in
    let (l, r') = args r [] in (BCall (to_coq op, l), r')
  | _ -> failwith "parse"

let rec show = function
  | Const (t, z) -> "(C " ^ of_coq (name_of_ty t) ^ " " ^ of_coq (z_to_dec z) ^ ")"
  | Var (t, x) -> "(V " ^ of_coq (name_of_ty t) ^ " " ^ string_of_int (int_of_nat x) ^ ")"
  | Leaf (t, x, f) -> "(L " ^ of_coq (name_of_ty t) ^ " " ^ string_of_int (int_of_nat x) ^ " " ^ (if f then "1" else "0") ^ ")"
  | BCall (op, l) -> "(B " ^ of_coq op ^ Stdlib.String.concat "" (List.map (fun e -> " " ^ show e) l) ^ ")"
  | Cast0 (t, e) -> "(K " ^ of_coq (name_of_ty t) ^ " " ^ show e ^ ")"

let doline line =
  let ws = List.filter (fun w -> w <> "") (Stdlib.String.split_on_char ' ' (Stdlib.String.trim line)) in
  match ws with
  | "opts" :: r -> opts_line r
  | "cfold" :: fa :: _ ->
    let i = Stdlib.String.index line '(' in
    let (e, _) = parse (tokenize (Stdlib.String.sub line i (Stdlib.String.length line - i))) in
    show (tool_cfold (fa = "1") e)
  | "peep" :: ff :: _ ->
    let i = Stdlib.String.index line '(' in
    let (e, _) = parse (tokenize (Stdlib.String.sub line i (Stdlib.String.length line - i))) in
    let (e', ok) = tool_peep (ff = "1") e in
    (if ok then "ok " else "swap ") ^ show e'
  | ["fragops"] -> Stdlib.String.concat " " (List.map of_coq frag_ops)
  | ["fxops"] -> Stdlib.String.concat " " (List.map of_coq fx_ops)
  | _ -> "BAD"

let () =
  try
    while true do
      print_endline (doline (input_line stdin))
    done
  with End_of_file -> ()
