(* C02 option-decoding model driver.  One command line per input line (argv words separated
   by blanks; an empty line is "no optimisation argument").  Output, one line each:
     ERR                                     the model rejects the sequence (usage error)
     lvl=<n>|name=v,name=v,...|label;label   optLevel, the table -WD+optf prints, the pass trace
   Every value comes from the extracted definitions; the driver converts strings/numerals. *)
open Opt_model

let ascii_of_char (c : char) : ascii =
  let n = Char.code c in
  let b i = (n lsr i) land 1 = 1 in
  Ascii (b 0, b 1, b 2, b 3, b 4, b 5, b 6, b 7)
let char_of_ascii (a : ascii) : char =
  match a with
  | Ascii (b0, b1, b2, b3, b4, b5, b6, b7) ->
    let v b i = if b then 1 lsl i else 0 in
    Char.chr (v b0 0 lor v b1 1 lor v b2 2 lor v b3 3 lor v b4 4 lor v b5 5 lor v b6 6 lor v b7 7)
let to_coq (s : Stdlib.String.t) : Opt_model.string =
  let r = ref EmptyString in
  for i = Stdlib.String.length s - 1 downto 0 do r := String (ascii_of_char s.[i], !r) done; !r
let of_coq (s : Opt_model.string) : Stdlib.String.t =
  let b = Buffer.create 64 in
  let rec go = function EmptyString -> () | String (a, r) -> Buffer.add_char b (char_of_ascii a); go r in
  go s; Buffer.contents b
let rec int_of_pos = function XH -> 1 | XO p -> 2 * int_of_pos p | XI p -> 2 * int_of_pos p + 1
let int_of_z = function Z0 -> 0 | Zpos p -> int_of_pos p | Zneg p -> - (int_of_pos p)

let show_val = function V z -> string_of_int (int_of_z z) | VAtof (_, _) -> "?"

let doline line =
  let ws = List.filter (fun w -> w <> "") (Stdlib.String.split_on_char ' ' (Stdlib.String.trim line)) in
  match opt_state (List.map to_coq ws) with
  | None -> "ERR"
  | Some f ->
    let tbl = Stdlib.String.concat "," (List.map (fun (n, v) -> of_coq n ^ "=" ^ show_val v) (shown f)) in
    let tr = match trace f with
      | None -> "?"
      | Some l -> Stdlib.String.concat ";" (List.map of_coq l) in
    "lvl=" ^ string_of_int (int_of_z f.lvl) ^ "|" ^ tbl ^ "|" ^ tr

let () =
  try
    while true do
      print_endline (doline (input_line stdin))
    done
  with End_of_file -> ()
