(* PeepTblFacts.v — the per-row obligations (PeepSem.op_ok / bv_ok) hold for every row of the
   tables REGENERATED from of_peep.c (walked row by row: a changed row breaks exactly here). *)
Require Import ZArith List String Bool Lia ZifyBool.
Require Import AV.Builtins.CInt AV.Builtins.Spec AV.Opt.PeepCtl AV.Gen.PeepTbl AV.Opt.PeepSem.
Import ListNotations.
Local Open Scope Z_scope.
Ltac Zify.zify_post_hook ::= Z.to_euclidean_division_equations.

Ltac walk tac := repeat (first [apply Forall_nil | apply Forall_cons; [tac|]]).

Lemma in_sint a : in_ty_b FSInt a = true -> -9223372036854775808 <= a < 9223372036854775808.
Proof. cbn [in_ty_b]. lia. Qed.
Lemma in_char a : in_ty_b FChar a = true -> 0 <= a < 256.
Proof. cbn [in_ty_b]. lia. Qed.
Lemma in_bool a : in_ty_b FBool a = true -> a = 0 \/ a = 1.
Proof. cbn [in_ty_b]. lia. Qed.

Ltac use_range :=
  repeat match goal with
         | H : in_ty_b FSInt _ = true |- _ => apply in_sint in H
         | H : in_ty_b FChar _ = true |- _ => apply in_char in H
         | H : in_ty_b FBool _ = true |- _ => apply in_bool in H
         end.

Ltac inj_all :=
  repeat match goal with
         | H : Some ?x = Some ?y |- _ =>
             let E := fresh "E" in
             pose proof (f_equal (fun o => match o with Some z => z | None => 0 end) H) as E;
             cbv beta iota in E; clear H; try subst
         | H : None = Some _ |- _ => discriminate H
         end.

Ltac field_solve :=
  unfold field_ok; intros;
  repeat match goal with
         | H : den2 _ _ _ _ = _ |- _ => progress cbv beta iota delta [den2 den1 denu int_ty cmp_ty ord_ty] in H
         | H : denu _ _ _ = _ |- _ => progress cbv beta iota delta [den2 den1 denu int_ty cmp_ty ord_ty] in H
         end;
  inj_all; try discriminate; try reflexivity; use_range; try (unfold red, wrap in *; lia).

Ltac dual_solve :=
  intros;
  repeat match goal with
         | H : den2 _ _ _ _ = _ |- _ => progress cbv beta iota delta [den2 den1 denu int_ty cmp_ty ord_ty] in H
         | H : den1 _ _ _ = _ |- _ => progress cbv beta iota delta [den2 den1 denu int_ty cmp_ty ord_ty] in H
         end;
  inj_all; try discriminate; try reflexivity; use_range; try (unfold red, wrap in *; lia).

Ltac dual3_solve :=
  intros;
  repeat match goal with
         | H : den2 _ _ _ _ = _ |- _ => progress cbv beta iota delta [den2 den1 denu int_ty cmp_ty ord_ty] in H
         end;
  try discriminate;
  first [ left; reflexivity | right; eexists; cbv beta iota delta [den2 int_ty cmp_ty ord_ty]; reflexivity ].
Ltac dual4_solve :=
  first [ left; intros; reflexivity | right; intros; reflexivity ].

Ltac op_row_solve :=
  unfold op_ok; cbn [oop oleqr ol0 ol1 or0 or1 odual]; split; [reflexivity|]; split; [dual4_solve|];
  let t := fresh "t" in intro t; destruct t;
  (split; [field_solve | split; [field_solve | split; [field_solve | split; [field_solve | split; [field_solve | split; [dual_solve | split; [dual_solve | dual3_solve]]]]]]]).

Lemma ops_ok : Forall op_ok peep_ops.
Proof. walk op_row_solve. Qed.

Ltac bv_row_solve :=
  unfold bv_ok; cbn [bname btype bop];
  match goal with
  | |- context [sop_of ?n] => let v := eval vm_compute in (sop_of n) in change (sop_of n) with v
  end;
  cbv iota;
  first
    [ split; [intros; reflexivity | split; [intros; reflexivity | reflexivity]]
    | left; split; [reflexivity | intros; split; reflexivity]
    | right; split; [reflexivity | intros; split; reflexivity] ].

Lemma bvals_slow_ok : Forall bv_ok peep_bvals_slow.
Proof. walk bv_row_solve. Qed.
Lemma bvals_fast_ok : Forall bv_ok peep_bvals_fast.
Proof. walk bv_row_solve. Qed.

(* peep_drop_needs_pure, table part: the operations that stand for a constant have arity 0 in
   peepBValOpInfo, which is what makes peepMakeUnaryOp refuse to drop an operand with a side
   effect *)
Lemma const_ops_arity0 :
  forallb (fun p => match find (fun r => match oop r, p with
                                         | OpZero, OpZero | OpOne, OpOne | OpMOne, OpMOne
                                         | OpTrue, OpTrue | OpFalse, OpFalse => true
                                         | _, _ => false end) peep_ops with
                    | Some r => oarity r =? 0
                    | None => false
                    end) const_ops = true.
Proof. vm_compute. reflexivity. Qed.
