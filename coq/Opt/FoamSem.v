(* FoamSem.v — the expression fragment of FOAM on which the two local rewriting passes
   (of_cfold.c, of_peep.c) are modelled, and its semantics.  Definitions only.

   Expressions: data nodes (Bool/Char/Byte/HInt/SInt literals), variable reads
   (Loc/Par/Lex/Glo), builtin calls, casts, and `Leaf`: any other node (calls, array and
   record access, ...) - opaque, with the answer foamHasSideEffect gives for it.

   Semantics: big step, left to right, over an abstract machine state S.
     * a variable read depends on the state (`rd`);
     * a pure leaf has a value that may depend on the state (`lv`);
     * an effectful leaf returns a value and a new state (`call`) - printing, assignment,
       allocation, anything: the state is what the rest of the program can observe;
     * a builtin of the specified class (AV.Builtins.Spec, property C04) applied to operands
       of its signature's types inside its domain has the specified value; applied to
       anything else it has no value here (None: division by zero, a shift count outside
       [0,64), an operand outside its type - the C is undefined or faults there);
       builtins outside the specified class (floats, big integers, pointers) have no value
       in this fragment;
     * a cast keeps the value when it fits the target type, otherwise no value.
   All theorems are refinements: IF the original expression has a value and final state
   THEN the rewritten one has the same value and final state. *)
Require Import ZArith List String Bool.
Require Import AV.Builtins.CInt AV.Builtins.Spec AV.Gen.Builtins.
Import ListNotations.
Local Open Scope Z_scope.

Inductive expr :=
| Const (t : fty) (z : Z)
| Var (t : fty) (x : nat)
| Leaf (t : fty) (x : nat) (fx : bool)
| BCall (op : string) (args : list expr)
| Cast (t : fty) (e : expr).

Fixpoint expr_eqb (a b : expr) : bool :=
  match a, b with
  | Const t z, Const t' z' => fty_eqb t t' && (z =? z')
  | Var t x, Var t' x' => fty_eqb t t' && Nat.eqb x x'
  | Leaf t x f, Leaf t' x' f' => fty_eqb t t' && Nat.eqb x x' && Bool.eqb f f'
  | BCall o l, BCall o' l' =>
      String.eqb o o' &&
      (fix go (l l' : list expr) : bool :=
         match l, l' with
         | [], [] => true
         | x :: r, y :: r' => expr_eqb x y && go r r'
         | _, _ => false
         end) l l'
  | Cast t e, Cast t' e' => fty_eqb t t' && expr_eqb e e'
  | _, _ => false
  end.

(* foamBValInfo(op).hasSideFx, from the generated foamBValInfoTable *)
Definition bval_fx (op : string) : bool :=
  match find (fun s => String.eqb (sname s) op) bval_sig with
  | Some s => ssfx s
  | None => true
  end.

(* foam.c:foamHasSideEffect on the fragment *)
Fixpoint has_fx (e : expr) : bool :=
  match e with
  | Const _ _ => false
  | Var _ _ => false
  | Leaf _ _ fx => fx
  | BCall op args => bval_fx op || existsb has_fx args
  | Cast _ e => has_fx e
  end.

(* value range of a FOAM type; word-like and opaque types hold any value *)
Definition fits (t : fty) (z : Z) : bool :=
  match t with
  | FBool => (z =? 0) || (z =? 1)
  | FChar | FByte => (0 <=? z) && (z <? 256)
  | FHInt => (-32768 <=? z) && (z <? 32768)
  | FSInt => (-9223372036854775808 <=? z) && (z <? 9223372036854775808)
  | _ => true
  end.

Fixpoint typed_b (ts : list fty) (vs : list Z) : bool :=
  match ts, vs with
  | [], [] => true
  | t :: ts', v :: vs' => in_ty_b t v && typed_b ts' vs'
  | _, _ => false
  end.

(* the value of a builtin call on operand values *)
Definition bval (op : string) (vs : list Z) : option Z :=
  match sop_of op with
  | Some o => if typed_b (fst (sop_sig o)) vs && in_dom o vs then Some (spec o vs) else None
  | None => None
  end.

(* peepFoamExprType / foamExprType on the fragment *)
Definition ty_of (e : expr) : fty :=
  match e with
  | Const t _ => t
  | Var t _ => t
  | Leaf t _ _ => t
  | BCall op _ =>
      match find (fun s => String.eqb (sname s) op) bval_sig with
      | Some s => sret s
      | None => FOther
      end
  | Cast t _ => t
  end.

Section Sem.
  Variable S : Type.
  Variable rd : S -> nat -> Z.
  Variable lv : nat -> S -> Z.
  Variable call : nat -> S -> Z * S.

  Fixpoint ev (s : S) (e : expr) : option (Z * S) :=
    match e with
    | Const _ z => Some (z, s)
    | Var _ x => Some (rd s x, s)
    | Leaf _ x fx => if fx then Some (call x s) else Some (lv x s, s)
    | BCall op args =>
        match (fix evs (s : S) (l : list expr) : option (list Z * S) :=
                 match l with
                 | [] => Some ([], s)
                 | a :: r =>
                     match ev s a with
                     | Some (v, s1) =>
                         match evs s1 r with
                         | Some (vs, s2) => Some (v :: vs, s2)
                         | None => None
                         end
                     | None => None
                     end
                 end) s args with
        | Some (vs, s') =>
            match bval op vs with
            | Some v => Some (v, s')
            | None => None
            end
        | None => None
        end
    | Cast t e =>
        match ev s e with
        | Some (v, s') => if fits t v then Some (v, s') else None
        | None => None
        end
    end.

  (* the operand evaluation of BCall, by name *)
  Fixpoint evs (s : S) (l : list expr) : option (list Z * S) :=
    match l with
    | [] => Some ([], s)
    | a :: r =>
        match ev s a with
        | Some (v, s1) =>
            match evs s1 r with
            | Some (vs, s2) => Some (v :: vs, s2)
            | None => None
            end
        | None => None
        end
    end.
End Sem.

(* an expression whose value cannot depend on the state and that has no effect: it may be
   moved across anything *)
Fixpoint stable (e : expr) : bool :=
  match e with
  | Const _ _ => true
  | Var _ _ => false
  | Leaf _ _ _ => false
  | BCall op args => negb (bval_fx op) && forallb stable args
  | Cast _ e => stable e
  end.

(* exchanging the evaluation order of a and b is harmless when neither has an effect
   (the state does not change between them) or one of them is stable *)
Definition swap_ok (a b : expr) : bool :=
  (negb (has_fx a) && negb (has_fx b)) || stable a || stable b.
