(* PeepSem.v — what the abstract operations of of_peep.c's rule table (enum bvalOp) MEAN on
   the integer-like FOAM types, and the per-row obligations of the two generated tables.
   Written from the meaning of the names (plus, minus, ..., is-zero), not from the table.
   Definitions only. *)
Require Import ZArith List String Bool.
Require Import AV.Builtins.CInt AV.Builtins.Spec AV.Opt.PeepCtl.
Import ListNotations.
Local Open Scope Z_scope.

Definition cmp_ty (t : fty) : bool := match t with FSInt | FChar | FBool => true | _ => false end.
Definition ord_ty (t : fty) : bool := match t with FSInt | FChar => true | _ => false end.
Definition int_ty (t : fty) : bool := match t with FSInt => true | _ => false end.

(* binary operations *)
Definition den2 (p : pop) (t : fty) (a b : Z) : option Z :=
  match p with
  | OpPlus => if int_ty t then Some (red (a + b)) else None
  | OpMinus => if int_ty t then Some (red (a - b)) else None
  | OpTimes => if int_ty t then Some (red (a * b)) else None
  | OpEQ => if cmp_ty t then Some (Z.b2z (a =? b)) else None
  | OpNE => if cmp_ty t then Some (Z.b2z (negb (a =? b))) else None
  | OpLT => if ord_ty t then Some (Z.b2z (a <? b)) else None
  | OpLE => if ord_ty t then Some (Z.b2z (a <=? b)) else None
  | _ => None
  end.

(* unary operations that exist as builtins *)
Definition den1 (p : pop) (t : fty) (a : Z) : option Z :=
  match p with
  | OpNeg => if int_ty t then Some (red (- a)) else None
  | OpNext => if int_ty t then Some (red (a + 1)) else None
  | OpPrev => if int_ty t then Some (red (a - 1)) else None
  | OpIsZero => if int_ty t then Some (Z.b2z (a =? 0)) else None
  | OpIsNeg => if int_ty t then Some (Z.b2z (a <? 0)) else None
  | OpIsPos => if int_ty t then Some (Z.b2z (0 <? a)) else None
  | _ => None
  end.

(* what peepMakeUnaryOp builds for a "new operation" applied to a value: the builtins above,
   the constants, the identity, and the negated tests *)
Definition denu (p : pop) (t : fty) (a : Z) : option Z :=
  match p with
  | OpZero => Some 0
  | OpOne => Some 1
  | OpMOne => Some (-1)
  | OpTrue => Some 1
  | OpFalse => Some 0
  | OpId => Some a
  | OpNonZero => if int_ty t then Some (Z.b2z (negb (a =? 0))) else None
  | OpNonNeg => if int_ty t then Some (Z.b2z (negb (a <? 0))) else None
  | OpNonPos => if int_ty t then Some (Z.b2z (negb (0 <? a))) else None
  | q => den1 q t a
  end.

(* obligations of a row of peepBValOpInfo: each non-empty field is an identity of the
   operation, for every operand of the type *)
Definition field_ok (f : pop) (t : fty) (lhs : Z -> option Z) : Prop :=
  forall a v v', in_ty_b t a = true -> lhs a = Some v -> denu f t a = Some v' -> v' = v.

(* what may stand in a "replace by" field of peepBValOpInfo: nothing, a unary builtin, a
   constant, the identity, a negated test *)
Definition unary_like (f : pop) : bool :=
  match f with
  | OpNone | OpNeg | OpNext | OpPrev | OpIsZero | OpIsNeg | OpIsPos | OpZero | OpOne | OpMOne
  | OpTrue | OpFalse | OpNonZero | OpNonNeg | OpNonPos | OpId => true
  | _ => false
  end.

(* the unary builtins the rules may create a call of *)
Definition creatable (p : pop) : bool :=
  match p with
  | OpNeg | OpNext | OpPrev | OpIsZero | OpIsNeg | OpIsPos
  | OpPlus | OpMinus | OpEQ | OpNE | OpLT | OpLE => true
  | _ => false
  end.

Definition op_ok (r : oprow) : Prop :=
  unary_like (oleqr r) && unary_like (ol0 r) && unary_like (ol1 r) && unary_like (or0 r) && unary_like (or1 r) = true /\
  (* the dual of a unary operation is not a binary one *)
  ((forall t a b, den2 (odual r) t a b = None) \/ (forall t a, den1 (oop r) t a = None)) /\
  forall t,
    field_ok (oleqr r) t (fun a => den2 (oop r) t a a) /\
    field_ok (ol0 r) t (fun a => den2 (oop r) t 0 a) /\
    field_ok (ol1 r) t (fun a => den2 (oop r) t 1 a) /\
    field_ok (or0 r) t (fun a => den2 (oop r) t a 0) /\
    field_ok (or1 r) t (fun a => den2 (oop r) t a 1) /\
    (* unary inverse: op (dual x) = x *)
    (forall a w v, in_ty_b t a = true -> den1 (odual r) t a = Some w -> den1 (oop r) t w = Some v -> v = a) /\
    (* binary dual: not (a op b) = b dual a *)
    (forall a b v v', in_ty_b t a = true -> in_ty_b t b = true ->
                      den2 (oop r) t a b = Some v -> den2 (odual r) t b a = Some v' ->
                      v' = Z.b2z (negb (v =? 1))) /\
    (* the dual of a binary operation exists wherever the operation does *)
    (forall a b v, den2 (oop r) t a b = Some v -> odual r = OpNone \/ exists v', den2 (odual r) t b a = Some v').

(* obligations of a row of foamBValOpInfoTable: a builtin of the specified class stands for
   the abstract operation of its row at the row's type; a builtin outside the class stands
   for nothing the model gives a meaning *)
Definition bv_ok (r : bvrow) : Prop :=
  let t := btype r in
  match sop_of (bname r) with
  | Some o =>
      (fst (sop_sig o) = [t; t] /\
       forall a b, in_ty_b t a = true -> in_ty_b t b = true ->
                   in_dom o [a; b] = true /\ den2 (bop r) t a b = Some (spec o [a; b]))
      \/
      (fst (sop_sig o) = [t] /\
       forall a, in_ty_b t a = true -> in_dom o [a] = true /\ den1 (bop r) t a = Some (spec o [a]))
  | None => (forall a b, den2 (bop r) t a b = None) /\ (forall a, den1 (bop r) t a = None) /\
            creatable (bop r) && cmp_ty t = false
  end.

(* the operations that stand for a constant: peepMakeUnaryOp builds the constant and DROPS the
   operand; the C guards this with "arity 0 and the operand has a side effect -> no rewrite" *)
Definition const_ops : list pop := [OpZero; OpOne; OpMOne; OpTrue; OpFalse].
