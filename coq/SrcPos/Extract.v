Require Import ExtrOcamlBasic.
Require Import AV.SrcPos.Model.
Extraction Language OCaml.
Extraction "SrcPos/extracted/srcpos.ml" sposNew grow sposOffset sposChar sposGlobalLine sposIsMacroExpanded
  sposMacroExpanded sposLine sposFile sposCmp run init report spec_items.
