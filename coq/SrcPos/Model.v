(* Model of /repo/aldor/aldor/src/srcpos.c (packed source positions and the
   global line table) and of the calls include.c makes into it.
   Definitions only; proofs are in Facts.v.  Constants come from the
   regenerated AV.Gen.SrcPosParams. *)
From Coq Require Import ZArith List Bool.
Require Import AV.Gen.SrcPosParams.
Import ListNotations.
Local Open Scope Z_scope.

(* ---- bit layout: # define SPOS_*  ------------------------------------- *)
Definition WORD : Z := 2 ^ word_nbits.               (* ULong *)
Definition wrap (x : Z) : Z := x mod WORD.

Definition MAC_SHIFT : Z := 0.
Definition CNO_SHIFT : Z := MAC_SHIFT + mac_nbits.
Definition LNO_SHIFT : Z := CNO_SHIFT + cno_nbits.
Definition LNO_NBITS : Z := word_nbits - cno_nbits - mac_nbits - stk_nbits.
Definition CNO_MAX : Z := 2 ^ cno_nbits - 1.
Definition MAC_MASK : Z := (2 ^ mac_nbits - 1) * 2 ^ MAC_SHIFT.
Definition CNO_MASK : Z := (2 ^ cno_nbits - 1) * 2 ^ CNO_SHIFT.
Definition LNO_MASK : Z := (2 ^ LNO_NBITS - 1) * 2 ^ LNO_SHIFT.
Definition END_LINE_NO : Z := 2 ^ LNO_NBITS - 1.

(* field extraction: (spos & MASK) >> SHIFT *)
Definition field (p shift nbits : Z) : Z := (p / 2 ^ shift) mod 2 ^ nbits.

Definition sposChar (p : Z) : Z := field p CNO_SHIFT cno_nbits.
Definition sposGlobalLine (p : Z) : Z := field p LNO_SHIFT LNO_NBITS.
Definition sposIsMacroExpanded (p : Z) : Z := field p MAC_SHIFT mac_nbits.

(* sposClampCno(long cno) *)
Definition clampCno (c : Z) : Z :=
  if c <? 0 then 0 else if CNO_MAX <? c then CNO_MAX else c.

(* # define sposSet(l, c) (((l) << LNO_SHIFT) | ((c) << CNO_SHIFT)) on ULong.
   With c already clamped the two parts do not overlap, so | is +. *)
Definition sposSet (l c : Z) : Z := wrap (l * 2 ^ LNO_SHIFT) + c * 2 ^ CNO_SHIFT.

(* sposOffset: (p & ~CNO_MASK) | (clamp(char p + c) << CNO_SHIFT) *)
Definition sposOffset (p c : Z) : Z :=
  (p - sposChar p * 2 ^ CNO_SHIFT) + clampCno (sposChar p + c) * 2 ^ CNO_SHIFT.

Definition sposMacroExpanded (p : Z) : Z :=
  if sposIsMacroExpanded p =? 0 then p + 2 ^ MAC_SHIFT else p.

(* sposCmp compares p >> CNO_SHIFT *)
Definition sposCmp (p q : Z) : Z :=
  let P := p / 2 ^ CNO_SHIFT in let Q := q / 2 ^ CNO_SHIFT in
  if P <? Q then -1 else if Q <? P then 1 else 0.

Definition sposIsSpecial (p : Z) : bool :=
  let g := sposGlobalLine p in (g =? 0) || (g =? END_LINE_NO).

(* ---- global line table ------------------------------------------------- *)
Record gline := { glno : Z; gfn : Z; gflno : Z }.   (* file names are ids <> 0 *)
Definition tbl := list gline.                         (* entries [0, gloPos) in order *)

Definition grow (t : tbl) (fn flno g : Z) : tbl := t ++ [{| glno := g; gfn := fn; gflno := flno |}].

(* sposNew(fname, flno, glno, cno) : table effect and returned position *)
Definition sposNew (t : tbl) (fn flno g cno : Z) : tbl * Z :=
  if fn =? 0 then (t, sposSet 0 0) else
  let t' :=
    match rev t with
    | [] => grow t fn flno g
    | prev :: _ =>
        if (g <=? glno prev) || (gfn prev =? 0) || negb (fn =? gfn prev)
        then grow t fn flno g else t
    end in
  (t', sposSet g (clampCno cno)).

(* the lookup loop shared by sposLine and sposFile:
   for i < argc-1: if g >= glno[i] && g < glno[i+1] -> entry i; else last *)
Fixpoint seg (t : tbl) (g : Z) : option gline :=
  match t with
  | [] => None
  | [e] => Some e
  | e :: ((e' :: _) as rest) =>
      if (glno e <=? g) && (g <? glno e') then Some e else seg rest g
  end.

Definition sposLine (t : tbl) (p : Z) : Z :=
  if sposIsSpecial p then 0 else
  let g := sposGlobalLine p in
  match seg t g with
  | Some e => (g - glno e) + gflno e
  | None => 0
  end.

Definition sposFile (t : tbl) (p : Z) : Z :=
  if sposIsSpecial p then match t with e :: _ => gfn e | [] => 0 end else
  match seg t (sposGlobalLine p) with
  | Some e => gfn e
  | None => 0
  end.

(* ---- what include.c does with it --------------------------------------- *)
(* One source "item" per physical line of a file. *)
Inductive item :=
| Line                       (* a line that reaches sposNew: code, blank, comment, any directive
                                other than #line: lineNumber++, serial++, sposNew(cur, lineNumber, serial, 1) *)
| Skip                       (* a line inside an inactive #if branch: counted, no sposNew *)
| HashLine (n : Z) (fn : Z)  (* #line n ["file"] : fn = 0 means no file name given *)
| Include (fn : Z) (body : list item).  (* #include "fn": the line itself, then the body, then back *)

Record st := { T : tbl; serial : Z; cur : Z; lineno : Z;
               log : list (Z * Z * Z) }.   (* (position, file, line) of the first character of each
                                              Line, newest first: what a diagnostic there must name *)

Definition do_line (s : st) : st :=
  let ln := lineno s + 1 in let g := serial s + 1 in
  let '(t', p) := sposNew (T s) (cur s) ln g 1 in
  {| T := t'; serial := g; cur := cur s; lineno := ln; log := (p, cur s, ln) :: log s |}.

Definition do_skip (s : st) : st :=
  {| T := T s; serial := serial s + 1; cur := cur s; lineno := lineno s + 1; log := log s |}.

Definition do_hashline (s : st) (n fn : Z) : st :=
  let g := serial s + 1 in
  let f := if fn =? 0 then cur s else fn in
  {| T := grow (T s) f (n - 1) g; serial := g; cur := f; lineno := n - 1; log := log s |}.

Definition enter (s : st) (fn : Z) : st :=
  {| T := T s; serial := serial s; cur := fn; lineno := 0; log := log s |}.
Definition leave (outer inner : st) : st :=
  {| T := T inner; serial := serial inner; cur := cur outer; lineno := lineno outer; log := log inner |}.

Fixpoint run_item (s : st) (it : item) : st :=
  match it with
  | Line => do_line s
  | Skip => do_skip s
  | HashLine n fn => do_hashline s n fn
  | Include fn body =>
      let s1 := do_line s in                 (* the #include line itself *)
      leave s1 (fold_left run_item body (enter s1 fn))
  end.

Definition run (s : st) (its : list item) : st := fold_left run_item its s.

Definition init (f : Z) : st := {| T := []; serial := 0; cur := f; lineno := 0; log := [] |}.

(* what the diagnostics print for a logged position *)
Definition report (t : tbl) (p : Z) : Z * Z * Z := (sposFile t p, sposLine t p, sposChar p).

(* ---- independent specification: the true (file, line) of every Line ------ *)
(* An entry (top, f, n): a line that reaches sposNew is line n of file f; top = true
   when the line belongs to the list being numbered itself, false when it lies
   inside an included file.  Plain physical numbering, no table. *)
Definition cur_after (f : Z) (it : item) : Z :=
  match it with HashLine _ fn => if fn =? 0 then f else fn | _ => f end.
Definition ln_after (ln : Z) (it : item) : Z :=
  match it with HashLine n _ => n - 1 | _ => ln + 1 end.

Fixpoint spec_item (f ln : Z) (it : item) : list (bool * Z * Z) :=
  match it with
  | Line => [(true, f, ln + 1)]
  | Skip => []
  | HashLine _ _ => []
  | Include fn body =>
      (true, f, ln + 1) ::
      map (fun e => (false, snd (fst e), snd e))
        ((fix go (l : list item) (f' ln' : Z) : list (bool * Z * Z) :=
            match l with
            | [] => []
            | it' :: r => spec_item f' ln' it' ++ go r (cur_after f' it') (ln_after ln' it')
            end) body fn 0)
  end.

Fixpoint spec_items (f ln : Z) (l : list item) : list (bool * Z * Z) :=
  match l with
  | [] => []
  | it :: r => spec_item f ln it ++ spec_items (cur_after f it) (ln_after ln it) r
  end.

(* number of physical lines read (= final serial number) *)
Fixpoint nlines_item (it : item) : Z :=
  match it with
  | Include _ body => 1 + fold_right (fun i a => nlines_item i + a) 0 body
  | _ => 1
  end.
Definition nlines (l : list item) : Z := fold_right (fun i a => nlines_item i + a) 0 l.

(* every file name occurring in an item tree *)
Fixpoint names_item (it : item) : list Z :=
  match it with
  | HashLine _ fn => if fn =? 0 then [] else [fn]
  | Include fn body => fn :: flat_map names_item body
  | _ => []
  end.
Definition names (l : list item) : list Z := flat_map names_item l.

Definition is_skip (it : item) : bool := match it with Skip => true | _ => false end.

(* the sources the theorems speak about: an included file is named, is not a file
   that is currently being read further out, contains no #line naming such a file,
   and - if it has lines at all - has one that is not in an inactive #if branch *)
Fixpoint wf_item (f : Z) (it : item) : Prop :=
  match it with
  | Include fn body =>
      fn <> 0 /\ fn <> f /\ (~ In f (flat_map names_item body)) /\
      (body = [] \/ existsb (fun i => negb (is_skip i)) body = true) /\
      (fix go (l : list item) (f' : Z) : Prop :=
         match l with
         | [] => True
         | it' :: r => wf_item f' it' /\ go r (cur_after f' it')
         end) body fn
  | _ => True
  end.
Fixpoint wf_items (f : Z) (l : list item) : Prop :=
  match l with
  | [] => True
  | it :: r => wf_item f it /\ wf_items (cur_after f it) r
  end.
