(* The global line table: every logged position resolves to its true file and line. *)
From Coq Require Import ZArith List Bool Lia.
Require Import AV.Gen.SrcPosParams AV.SrcPos.Model AV.SrcPos.Facts.
Import ListNotations.
Local Open Scope Z_scope.

(* ---------- nested induction principle for item -------------------------- *)
Section ItemInd.
  Variable P : item -> Prop.
  Hypothesis HL : P Line.
  Hypothesis HS : P Skip.
  Hypothesis HH : forall n fn, P (HashLine n fn).
  Hypothesis HI : forall fn body, Forall P body -> P (Include fn body).
  Fixpoint item_ind' (it : item) : P it :=
    match it with
    | Line => HL
    | Skip => HS
    | HashLine n fn => HH n fn
    | Include fn body =>
        HI fn body ((fix go (l : list item) : Forall P l :=
                       match l with
                       | [] => Forall_nil P
                       | x :: r => Forall_cons x (item_ind' x) (go r)
                       end) body)
    end.
End ItemInd.

(* the inline fixpoints of Model.v are the list versions *)
Lemma spec_go_eq body : forall f ln,
  (fix go (l : list item) (f' ln' : Z) : list (bool * Z * Z) :=
     match l with
     | [] => []
     | it' :: r => spec_item f' ln' it' ++ go r (cur_after f' it') (ln_after ln' it')
     end) body f ln = spec_items f ln body.
Proof. induction body as [|x r IH]; intros; cbn; [reflexivity|]. now rewrite IH. Qed.

Lemma wf_go_eq body : forall f,
  (fix go (l : list item) (f' : Z) : Prop :=
     match l with
     | [] => True
     | it' :: r => wf_item f' it' /\ go r (cur_after f' it')
     end) body f = wf_items f body.
Proof. induction body as [|x r IH]; intros; cbn; [reflexivity|]. now rewrite IH. Qed.

(* ---------- sorted tables and the lookup loop ----------------------------- *)
Fixpoint sorted_from (lo : Z) (t : tbl) : Prop :=
  match t with
  | [] => True
  | e :: r => lo < glno e /\ sorted_from (glno e) r
  end.

Lemma sorted_from_weaken lo lo' t : lo' <= lo -> sorted_from lo t -> sorted_from lo' t.
Proof. destruct t; cbn; intuition lia. Qed.

Lemma sorted_from_app lo t e :
  sorted_from lo t -> (forall x, In x t -> glno x < glno e) -> lo < glno e -> sorted_from lo (t ++ [e]).
Proof.
  revert lo. induction t as [|a r IH]; cbn; intros lo Hs Hall Hlo; [auto|].
  destruct Hs as [H1 H2]. split; [assumption|]. apply IH; auto.
Qed.

Lemma sorted_from_lb lo t x : sorted_from lo t -> In x t -> lo < glno x.
Proof.
  revert lo. induction t as [|a r IH]; cbn; intros lo Hs Hin; [contradiction|].
  destruct Hs as [H1 H2]. destruct Hin as [->|Hin]; [assumption|].
  specialize (IH _ H2 Hin). lia.
Qed.

(* "g lies in the segment that starts at entry e" *)
Definition located (t : tbl) (g : Z) (e : gline) : Prop :=
  exists t1 t2, t = t1 ++ e :: t2 /\ glno e <= g /\
                match t2 with [] => True | e' :: _ => g < glno e' end.

Lemma located_grow t g e x : located t g e -> g < glno x -> located (t ++ [x]) g e.
Proof.
  intros (t1 & t2 & -> & Hle & Hnext) Hx. exists t1, (t2 ++ [x]). split.
  - now rewrite <- app_assoc.
  - split; [assumption|]. destruct t2; cbn; assumption.
Qed.

Lemma located_last t e g : glno e <= g -> located (t ++ [e]) g e.
Proof. intros H. exists t, []. auto. Qed.

Lemma seg_cons2 a y rest g :
  seg (a :: y :: rest) g = if (glno a <=? g) && (g <? glno y) then Some a else seg (y :: rest) g.
Proof. reflexivity. Qed.

Lemma located_seg lo t g e : sorted_from lo t -> located t g e -> seg t g = Some e.
Proof.
  intros Hs (t1 & t2 & -> & Hle & Hnext). revert lo Hs.
  induction t1 as [|a r IH]; intros lo Hs.
  - cbn [app seg]. destruct t2 as [|e' t2']; [reflexivity|].
    replace (glno e <=? g) with true by lia. replace (g <? glno e') with true by lia. reflexivity.
  - cbn [app] in *. destruct Hs as [Ha Hs].
    assert (Hnext' : exists y rest, r ++ e :: t2 = y :: rest /\ glno y <= glno e).
    { destruct r as [|y r'].
      - exists e, t2. split; [reflexivity|lia].
      - exists y, (r' ++ e :: t2). split; [reflexivity|].
        cbn in Hs. destruct Hs as [_ Hs]. 
        assert (In e (r' ++ e :: t2)) by (apply in_or_app; right; left; reflexivity).
        pose proof (sorted_from_lb _ _ _ Hs H). lia. }
    destruct Hnext' as (y & rest & Heq & Hy). rewrite Heq. rewrite seg_cons2.
    replace (g <? glno y) with false by lia. rewrite andb_false_r.
    rewrite <- Heq. eapply IH; eassumption.
Qed.

(* ---------- the invariant ------------------------------------------------- *)
Definition lastfile (t : tbl) : option Z :=
  match rev t with [] => None | e :: _ => Some (gfn e) end.

Definition sync (s : st) : Prop :=
  exists t' e, T s = t' ++ [e] /\ gfn e = cur s /\ gflno e - glno e = lineno s - serial s.
Definition desync (s : st) : Prop :=
  T s = [] \/ exists t' e, T s = t' ++ [e] /\ gfn e <> cur s.

Definition entry_ok (t : tbl) (ser : Z) (x : Z * Z * Z) : Prop :=
  let '(p, f, n) := x in
  exists g e, p = sposSet g 1 /\ 1 <= g <= ser /\ located t g e /\ gfn e = f /\ g - glno e + gflno e = n.

Record Inv (s : st) : Prop := {
  I_sorted : sorted_from 0 (T s);
  I_le : forall x, In x (T s) -> glno x <= serial s;
  I_ser : 0 <= serial s;
  I_cur : cur s <> 0;
  I_sync : sync s \/ desync s;
  I_log : Forall (entry_ok (T s) (serial s)) (log s)
}.

Lemma entry_ok_mono t ser ser' x : ser <= ser' -> entry_ok t ser x -> entry_ok t ser' x.
Proof.
  destruct x as [[p f] n]. intros H (g & e & ? & ? & ?). exists g, e. repeat split; try tauto; lia.
Qed.

Lemma entry_ok_grow t ser y x : ser < glno y -> entry_ok t ser x -> entry_ok (t ++ [y]) ser x.
Proof.
  destruct x as [[p f] n]. intros H (g & e & Hp & Hg & Hloc & Hf & Hn). exists g, e.
  repeat split; try tauto; try lia. apply located_grow; [assumption|lia].
Qed.

Lemma rev_snoc {A} (l : list A) x : rev (l ++ [x]) = x :: rev l.
Proof. rewrite rev_app_distr. reflexivity. Qed.

Lemma list_snoc_cases {A} (l : list A) : l = [] \/ exists l' x, l = l' ++ [x].
Proof.
  destruct (rev l) as [|x r] eqn:E.
  - left. apply (f_equal (@rev A)) in E. rewrite rev_involutive in E. assumption.
  - right. exists (rev r), x. apply (f_equal (@rev A)) in E. rewrite rev_involutive in E. assumption.
Qed.

(* the table effect of sposNew, case by case *)
Lemma sposNew_tbl t fn flno g cno : fn <> 0 ->
  fst (sposNew t fn flno g cno) =
    match rev t with
    | [] => grow t fn flno g
    | prev :: _ => if (g <=? glno prev) || (gfn prev =? 0) || negb (fn =? gfn prev)
                   then grow t fn flno g else t
    end /\ snd (sposNew t fn flno g cno) = sposSet g (clampCno cno).
Proof.
  intros H. unfold sposNew. replace (fn =? 0) with false by lia. split; reflexivity.
Qed.

Lemma do_line_inv s : Inv s ->
  Inv (do_line s) /\ sync (do_line s) /\ cur (do_line s) = cur s /\ lineno (do_line s) = lineno s + 1
  /\ serial (do_line s) = serial s + 1
  /\ exists p, log (do_line s) = (p, cur s, lineno s + 1) :: log s.
Proof.
  intros [Hs Hle Hser Hcur Hsy Hlog].
  unfold do_line.
  destruct (sposNew (T s) (cur s) (lineno s + 1) (serial s + 1) 1) as [t' p] eqn:E.
  pose proof (sposNew_tbl (T s) (cur s) (lineno s + 1) (serial s + 1) 1 Hcur) as [Et Ep].
  rewrite E in Et, Ep. cbn [fst snd] in Et, Ep.
  assert (Hc1 : clampCno 1 = 1) by reflexivity. rewrite Hc1 in Ep.
  set (g := serial s + 1) in *. set (ln := lineno s + 1) in *.
  set (new := {| glno := g; gfn := cur s; gflno := ln |}).
  (* the two possible outcomes *)
  assert (Hcase : (t' = T s ++ [new]) \/
                  (t' = T s /\ exists t0 e, T s = t0 ++ [e] /\ gfn e = cur s)).
  { destruct (list_snoc_cases (T s)) as [E0|(t0 & e & E0)].
    - rewrite E0 in Et. cbn in Et. left. rewrite E0. exact Et.
    - rewrite E0, rev_snoc in Et.
      destruct ((g <=? glno e) || (gfn e =? 0) || negb (cur s =? gfn e)) eqn:Ec.
      + left. rewrite E0. exact Et.
      + right. split; [rewrite E0; exact Et|]. exists t0, e. split; [assumption|].
        apply orb_false_iff in Ec. destruct Ec as [_ Ec]. apply negb_false_iff in Ec. lia. }
  cbn [T serial cur lineno log]. clear Et E.
  destruct Hcase as [Hg|(Hsame & t0 & e & E0 & Hfe)].
  - (* grew *)
    subst t'.
    assert (Hnew_sync : sync {| T := T s ++ [new]; serial := g; cur := cur s; lineno := ln;
                                log := (p, cur s, ln) :: log s |}).
    { exists (T s), new. cbn. repeat split; lia. }
    split; [|repeat split; try reflexivity; [exact Hnew_sync|eexists; reflexivity]].
    constructor; cbn [T serial cur lineno log].
    + apply sorted_from_app; [assumption| |cbn; lia].
      intros x Hx. specialize (Hle x Hx). cbn. lia.
    + intros x Hx. apply in_app_or in Hx. destruct Hx as [Hx|[<-|[]]]; [specialize (Hle x Hx); lia|cbn; lia].
    + lia.
    + assumption.
    + left. exact Hnew_sync.
    + constructor.
      * exists g, new. repeat split; try assumption; try lia; try reflexivity.
        -- apply located_last. cbn. lia.
        -- cbn. lia.
      * eapply Forall_impl; [|exact Hlog]. intros x Hx.
        apply (entry_ok_mono _ (serial s)); [lia|]. apply entry_ok_grow; [cbn; lia|exact Hx].
  - (* same file: no new entry; must be in sync *)
    subst t'.
    assert (Hsyn : sync s).
    { destruct Hsy as [H|[H|(t1 & e1 & E1 & Hne)]]; [assumption| |].
      - rewrite H in E0. destruct t0; discriminate.
      - rewrite E1 in E0. apply app_inj_tail in E0. destruct E0 as [_ <-]. contradiction. }
    destruct Hsyn as (t1 & e1 & E1 & Hf1 & Hd1).
    assert (Hnew_sync : sync {| T := T s; serial := g; cur := cur s; lineno := ln;
                                log := (p, cur s, ln) :: log s |}).
    { exists t1, e1. cbn. repeat split; try assumption. lia. }
    split; [|repeat split; try reflexivity; [exact Hnew_sync|eexists; reflexivity]].
    constructor; cbn [T serial cur lineno log]; try assumption.
    + intros x Hx. specialize (Hle x Hx). lia.
    + lia.
    + left. exact Hnew_sync.
    + constructor.
      * assert (Hin1 : In e1 (T s)) by (rewrite E1; apply in_or_app; right; left; reflexivity).
        pose proof (Hle _ Hin1) as Hle1.
        exists g, e1. split; [assumption|]. split; [lia|]. split; [|split; [assumption|lia]].
        rewrite E1. apply located_last. lia.
      * eapply Forall_impl; [|exact Hlog]. intros x Hx. eapply entry_ok_mono; [|exact Hx]. lia.
Qed.

Lemma do_skip_inv s : Inv s -> Inv (do_skip s).
Proof.
  intros [Hs Hle Hser Hcur Hsy Hlog]. constructor; cbn; try assumption.
  - intros x Hx. specialize (Hle x Hx). lia.
  - lia.
  - destruct Hsy as [(t1 & e1 & E1 & Hf1 & Hd1)|Hd].
    + left. exists t1, e1. cbn. repeat split; try assumption. lia.
    + right. exact Hd.
  - eapply Forall_impl; [|exact Hlog]. intros x Hx. eapply entry_ok_mono; [|exact Hx]. lia.
Qed.

Lemma do_hashline_inv s n fn : Inv s -> Inv (do_hashline s n fn) /\ sync (do_hashline s n fn).
Proof.
  intros [Hs Hle Hser Hcur Hsy Hlog]. unfold do_hashline.
  set (f := if fn =? 0 then cur s else fn). set (g := serial s + 1).
  set (new := {| glno := g; gfn := f; gflno := n - 1 |}).
  assert (Hf : f <> 0) by (subst f; destruct (fn =? 0) eqn:?; lia).
  assert (Hsyn : sync {| T := grow (T s) f (n - 1) g; serial := g; cur := f; lineno := n - 1; log := log s |}).
  { exists (T s), new. cbn. repeat split; lia. }
  split; [|exact Hsyn].
  constructor; cbn [T serial cur lineno log]; unfold grow.
  - apply sorted_from_app; [assumption| |cbn; lia]. intros x Hx. specialize (Hle x Hx). cbn. lia.
  - intros x Hx. apply in_app_or in Hx. destruct Hx as [Hx|[<-|[]]]; [specialize (Hle x Hx); lia|cbn; lia].
  - lia.
  - assumption.
  - left. exact Hsyn.
  - eapply Forall_impl; [|exact Hlog]. intros x Hx.
    apply (entry_ok_mono _ (serial s)); [lia|]. apply entry_ok_grow; [cbn; lia|exact Hx].
Qed.

(* ---------- running whole sources ---------------------------------------- *)
Definition lfn (x : Z * Z * Z) : Z * Z := (snd (fst x), snd x).
Definition sfn (e : bool * Z * Z) : Z * Z := (snd (fst e), snd e).

Definition touched (s s' : st) (skips : bool) (univ : list Z) : Prop :=
  (skips = true /\ T s' = T s /\ (sync s -> lineno s' - serial s' = lineno s - serial s -> True)) \/
  (exists t e, T s' = t ++ [e] /\ In (gfn e) univ).

Definition item_stmt (it : item) : Prop :=
  forall s, Inv s -> wf_item (cur s) it ->
    let s' := run_item s it in
    Inv s' /\ cur s' = cur_after (cur s) it /\ lineno s' = ln_after (lineno s) it
    /\ serial s' = serial s + nlines_item it
    /\ touched s s' (is_skip it) (cur s :: names_item it)
    /\ exists newl, log s' = newl ++ log s /\
                    map lfn (rev newl) = map sfn (spec_item (cur s) (lineno s) it).

Definition items_stmt (l : list item) : Prop :=
  forall s, Inv s -> wf_items (cur s) l ->
    let s' := fold_left run_item l s in
    Inv s' /\ serial s' = serial s + nlines l
    /\ touched s s' (forallb is_skip l) (cur s :: names l)
    /\ exists newl, log s' = newl ++ log s /\
                    map lfn (rev newl) = map sfn (spec_items (cur s) (lineno s) l).

Lemma touched_univ s s' b u u' : incl u u' -> touched s s' b u -> touched s s' b u'.
Proof.
  intros Hi [H|(t & e & E & Hin)]; [left; exact H|right; exists t, e; split; [exact E|apply Hi, Hin]].
Qed.

Lemma items_from_items l : Forall item_stmt l -> items_stmt l.
Proof.
  induction 1 as [|it r Hit Hr IH]; intros s HI Hwf s'.
  - subst s'. cbn [fold_left]. split; [exact HI|]. split; [cbn; lia|]. split.
    + left. cbn. repeat split; auto.
    + exists []. split; reflexivity.
  - subst s'. cbn [fold_left]. cbn [wf_items] in Hwf. destruct Hwf as [Hw1 Hw2].
    destruct (Hit s HI Hw1) as (HI1 & Hc1 & Hl1 & Hs1 & Ht1 & (n1 & Hlog1 & Hm1)).
    set (s1 := run_item s it) in *.
    rewrite <- Hc1 in Hw2.
    destruct (IH s1 HI1 Hw2) as (HI2 & Hs2 & Ht2 & (n2 & Hlog2 & Hm2)).
    set (s2 := fold_left run_item r s1) in *.
    split; [exact HI2|]. split; [cbn [nlines fold_right]; fold (nlines r); lia|]. split.
    + (* touched *)
      cbn [forallb names flat_map]. fold (names r).
      destruct Ht2 as [(Hb2 & HT2 & _)|(t & e & E & Hin)].
      * destruct Ht1 as [(Hb1 & HT1 & _)|(t & e & E & Hin)].
        -- left. rewrite Hb1, Hb2. repeat split; auto. congruence.
        -- right. exists t, e. split; [congruence|].
           destruct Hin as [Hin|Hin]; [left; exact Hin|right; apply in_or_app; left; exact Hin].
      * right. exists t, e. split; [exact E|].
        destruct Hin as [Hin|Hin].
        -- (* gfn e = cur s1 = cur_after (cur s) it *)
           rewrite Hc1 in Hin. destruct it; cbn in Hin; try (left; exact Hin).
           cbn [names_item]. destruct (fn =? 0) eqn:?; [left; exact Hin|right; left; exact Hin].
        -- right. apply in_or_app. right. exact Hin.
    + exists (n2 ++ n1). split.
      * rewrite Hlog2, Hlog1, app_assoc. reflexivity.
      * rewrite rev_app_distr, map_app, Hm1, Hm2. cbn [spec_items]. rewrite map_app.
        rewrite Hc1, Hl1. reflexivity.
Qed.

Lemma forallb_existsb_skip body :
  existsb (fun i => negb (is_skip i)) body = true -> forallb is_skip body = false.
Proof.
  induction body as [|x r IH]; cbn; [discriminate|].
  destruct (is_skip x); cbn; [exact IH|reflexivity].
Qed.

Lemma item_all it : item_stmt it.
Proof.
  induction it as [| |n fn|fn body IHb] using item_ind'; intros s HI Hwf s'; subst s'.
  - (* Line *)
    destruct (do_line_inv s HI) as (HI' & Hsy & Hc & Hl & Hs & (p & Hlog)).
    cbn [run_item]. split; [exact HI'|]. split; [exact Hc|]. split; [exact Hl|].
    split; [cbn [nlines_item]; lia|]. split.
    + right. destruct Hsy as (t & e & E & Hf & _). exists t, e. split; [exact E|left; congruence].
    + exists [(p, cur s, lineno s + 1)]. split; [exact Hlog|reflexivity].
  - (* Skip *)
    cbn [run_item]. split; [apply do_skip_inv; assumption|]. split; [reflexivity|].
    split; [reflexivity|]. split; [reflexivity|]. split.
    + left. cbn. repeat split; auto.
    + exists []. split; reflexivity.
  - (* HashLine *)
    destruct (do_hashline_inv s n fn HI) as (HI' & Hsy).
    cbn [run_item]. split; [exact HI'|]. split; [reflexivity|]. split; [reflexivity|].
    split; [reflexivity|]. split.
    + right. destruct Hsy as (t & e & E & Hf & _). exists t, e. split; [exact E|].
      cbn in Hf. cbn [names_item]. destruct (fn =? 0) eqn:?; [left; congruence|right; left; congruence].
    + exists []. split; reflexivity.
  - (* Include *)
    cbn [wf_item] in Hwf. rewrite wf_go_eq in Hwf.
    destruct Hwf as (Hfn0 & Hfnf & Hnin & Hbody & Hwfb).
    destruct (do_line_inv s HI) as (HI1 & Hsy1 & Hc1 & Hl1 & Hs1 & (p & Hlog1)).
    cbn [run_item]. set (s1 := do_line s) in *.
    set (s0 := enter s1 fn).
    assert (HI0 : Inv s0).
    { destruct HI1 as [A B Cc D E F]. constructor; cbn; try assumption.
      right. right. destruct Hsy1 as (t & e & Et & Hf & _). exists t, e. split; [exact Et|].
      subst s0. cbn [cur enter]. intro Heq. apply Hfnf. rewrite <- Heq, Hf. exact Hc1. }
    pose proof (items_from_items body IHb) as Hitems.
    assert (Hwf0 : wf_items (cur s0) body) by exact Hwfb.
    destruct (Hitems s0 HI0 Hwf0) as (HI2 & Hs2 & Ht2 & (n2 & Hlog2 & Hm2)).
    set (s2 := fold_left run_item body s0) in *.
    assert (Htouch : exists t e, T s2 = t ++ [e] /\
                       (body = [] /\ gfn e = cur s /\ gflno e - glno e = lineno s1 - serial s2
                        \/ In (gfn e) (fn :: names body))).
    { destruct Hbody as [->|Hex].
      - subst s2 s0. cbn. destruct Hsy1 as (t & e & Et & Hf & Hd). exists t, e. split; [exact Et|].
        left. repeat split; [congruence|exact Hd].
      - apply forallb_existsb_skip in Hex. destruct Ht2 as [(Hb & _)|(t & e & E & Hin)]; [congruence|].
        exists t, e. split; [exact E|right; exact Hin]. }
    destruct Htouch as (t & e & Et & Hcase).
    assert (HIl : Inv (leave s1 s2)).
    { destruct HI2 as [A B Cc D E F]. constructor; cbn; try assumption.
      - rewrite Hc1. destruct HI as [_ _ _ D0 _ _]. exact D0.
      - destruct Hcase as [(Hb & Hf & Hd)|Hin].
        + left. exists t, e. cbn. repeat split; [exact Et|congruence|exact Hd].
        + right. right. exists t, e. split; [exact Et|]. cbn. rewrite Hc1.
          destruct Hin as [<-|Hin]; [congruence|]. intro Heq. apply Hnin. rewrite <- Heq. exact Hin. }
    split; [exact HIl|]. cbn [cur lineno serial leave cur_after ln_after].
    split; [exact Hc1|]. split; [exact Hl1|]. split.
    { rewrite Hs2. subst s0. cbn [serial enter]. rewrite Hs1. cbn [nlines_item]. fold (nlines body). lia. }
    split.
    { right. exists t, e. split; [exact Et|]. cbn [names_item]. fold (names body).
      destruct Hcase as [(_ & Hf & _)|Hin]; [left; congruence|right; exact Hin]. }
    exists (n2 ++ [(p, cur s, lineno s + 1)]). split.
    { cbn [log leave]. rewrite Hlog2. subst s0. cbn [log enter]. rewrite Hlog1, <- app_assoc. reflexivity. }
    rewrite rev_app_distr. cbn [rev app map]. cbn [spec_item]. rewrite spec_go_eq.
    cbn [map]. f_equal. rewrite Hm2. subst s0. cbn [cur lineno enter].
    rewrite map_map. apply map_ext. intros [[b f] n]. reflexivity.
Qed.

Lemma items_all l : items_stmt l.
Proof. apply items_from_items. apply Forall_forall. intros x _. apply item_all. Qed.

Lemma init_inv f : f <> 0 -> Inv (init f).
Proof.
  intros H. constructor; cbn; auto; try lia; try contradiction.
  right. left. reflexivity.
Qed.

(* ---------- main theorem: every logged position resolves to the truth ---- *)
Lemma gline_set g c : 0 <= g < Lw -> 0 <= c <= Cw - 1 -> sposGlobalLine (sposSet g c) = g.
Proof. intros; apply set_fields; assumption. Qed.

Lemma END_eq : END_LINE_NO = Lw - 1. Proof. reflexivity. Qed.

Lemma report_entry t ser x : sorted_from 0 t -> ser < Lw - 1 -> entry_ok t ser x ->
  report t (fst (fst x)) = (snd (fst x), snd x, 1).
Proof.
  destruct x as [[p f] n]. intros Hs Hser (g & e & -> & Hg & Hloc & Hf & Hn). cbn [fst snd].
  pose proof Cw_pos. pose proof Lw_pos.
  assert (Hc1 : 0 <= 1 <= Cw - 1) by (split; [lia|]; unfold Cw; vm_compute; discriminate).
  destruct (set_fields g 1) as (Hgl & Hch & _); [lia|exact Hc1|].
  unfold report, sposLine, sposFile, sposIsSpecial. rewrite Hgl, Hch, END_eq.
  replace (g =? 0) with false by lia. replace (g =? Lw - 1) with false by lia. cbn [orb].
  rewrite (located_seg _ _ _ _ Hs Hloc). congruence.
Qed.

Theorem run_reports_truth f0 items :
  f0 <> 0 -> wf_items f0 items -> nlines items < Lw - 1 ->
  let s := run (init f0) items in
  map (fun x => report (T s) (fst (fst x))) (rev (log s))
  = map (fun e => (snd (fst e), snd e, 1)) (spec_items f0 0 items).
Proof.
  intros Hf Hwf Hn s.
  destruct (items_all items (init f0) (init_inv f0 Hf) Hwf) as (HI & Hser & _ & (newl & Hlog & Hm)).
  fold (run (init f0) items) in HI, Hser, Hlog. fold s in HI, Hser, Hlog.
  cbn [log init serial] in *. rewrite app_nil_r in Hlog.
  destruct HI as [Hs _ _ _ _ Hl]. rewrite Hlog in *.
  assert (Hser' : serial s < Lw - 1) by lia.
  transitivity (map (fun x : Z * Z * Z => (snd (fst x), snd x, 1)) (rev newl)).
  - apply map_ext_in. intros x Hx. apply in_rev in Hx.
    rewrite Forall_forall in Hl. exact (report_entry _ _ _ Hs Hser' (Hl x Hx)).
  - change (fun x : Z * Z * Z => (snd (fst x), snd x, 1)) with (fun x => (fun q : Z * Z => (fst q, snd q, 1)) (lfn x)).
    rewrite <- (map_map lfn (fun q : Z * Z => (fst q, snd q, 1))), Hm, map_map. reflexivity.
Qed.

(* ---------- inserting k code-free lines ----------------------------------- *)
Definition no_top_hashline (l : list item) : Prop :=
  Forall (fun it => match it with HashLine _ _ => False | _ => True end) l.

Definition shift_top (k : Z) (e : bool * Z * Z) : bool * Z * Z :=
  let '(b, f, n) := e in if b then (b, f, n + k) else e.

Lemma spec_shift l : no_top_hashline l -> forall f ln k,
  spec_items f (ln + k) l = map (shift_top k) (spec_items f ln l).
Proof.
  induction 1 as [|it r Hit Hr IH]; intros f ln k; [reflexivity|].
  cbn [spec_items]. rewrite map_app.
  destruct it; try contradiction; cbn [spec_item cur_after ln_after].
  - replace (ln + k + 1) with (ln + 1 + k) by lia. rewrite IH. reflexivity.
  - replace (ln + k + 1) with (ln + 1 + k) by lia. rewrite IH. reflexivity.
  - replace (ln + k + 1) with (ln + 1 + k) by lia. rewrite IH. cbn [map app shift_top].
    f_equal. f_equal. rewrite map_map. apply map_ext. intros [[b f'] n]. reflexivity.
Qed.

Lemma spec_items_app l1 l2 : forall f ln,
  exists f' ln', spec_items f ln (l1 ++ l2) = spec_items f ln l1 ++ spec_items f' ln' l2
  /\ (forall l2', spec_items f ln (l1 ++ l2') = spec_items f ln l1 ++ spec_items f' ln' l2').
Proof.
  induction l1 as [|it r IH]; intros f ln.
  - exists f, ln. split; reflexivity.
  - destruct (IH (cur_after f it) (ln_after ln it)) as (f' & ln' & E & Eall).
    exists f', ln'. cbn [app spec_items]. split.
    + rewrite E, app_assoc. reflexivity.
    + intros l2'. rewrite Eall, app_assoc. reflexivity.
Qed.

Lemma spec_repeat_line n f : forall ln,
  exists blanks, length blanks = n /\ forall l2,
    spec_items f ln (repeat Line n ++ l2) = blanks ++ spec_items f (ln + Z.of_nat n) l2.
Proof.
  induction n as [|n IH]; intros ln.
  - exists []. split; [reflexivity|]. intros l2. cbn. replace (ln + 0) with ln by lia. reflexivity.
  - destruct (IH (ln + 1)) as (bl & Hlen & Hbl). exists ((true, f, ln + 1) :: bl). split; [cbn; lia|].
    intros l2. cbn [repeat app spec_items spec_item cur_after ln_after]. rewrite Hbl.
    replace (ln + 1 + Z.of_nat n) with (ln + Z.of_nat (S n)) by lia. reflexivity.
Qed.

(* The property's statement at model level: k inserted code-free lines shift every
   later line of the same file by exactly k, leave lines of included files and all
   earlier lines alone (l2 has no #line at its own level: a #line renumbers anyway). *)
Theorem blank_insert_shift l1 l2 f ln k : 0 <= k -> no_top_hashline l2 ->
  exists f' ln' blanks, length blanks = Z.to_nat k /\
    spec_items f ln (l1 ++ l2) = spec_items f ln l1 ++ spec_items f' ln' l2 /\
    spec_items f ln (l1 ++ repeat Line (Z.to_nat k) ++ l2)
      = spec_items f ln l1 ++ blanks ++ map (shift_top k) (spec_items f' ln' l2).
Proof.
  intros Hk Hl2.
  destruct (spec_items_app l1 l2 f ln) as (f' & ln' & E & Eall).
  destruct (spec_repeat_line (Z.to_nat k) f' ln') as (bl & Hlen & Hbl).
  exists f', ln', bl. split; [exact Hlen|]. split; [exact E|].
  rewrite Eall, Hbl, (Z2Nat.id k Hk), (spec_shift l2 Hl2). reflexivity.
Qed.
