(* Proofs about AV.SrcPos.Model. *)
From Coq Require Import ZArith List Bool Lia.
Require Import AV.Gen.SrcPosParams AV.SrcPos.Model.
Import ListNotations.
Local Open Scope Z_scope.

Ltac Zify.zify_post_hook ::= Z.div_mod_to_equations.

(* The generated constants, as numerals (re-established on every run). *)
Lemma consts :
  CNO_SHIFT = 1 /\ LNO_SHIFT = 1 + cno_nbits /\ 0 < cno_nbits /\ 0 < LNO_NBITS /\ mac_nbits = 1
  /\ LNO_SHIFT + LNO_NBITS < word_nbits /\ MAC_SHIFT = 0.
Proof. vm_compute. repeat split; congruence. Qed.

Definition Cw : Z := 2 ^ cno_nbits.          (* number of column values *)
Definition Lw : Z := 2 ^ LNO_NBITS.

Lemma Cw_pos : 0 < Cw. Proof. vm_compute; reflexivity. Qed.
Lemma Lw_pos : 0 < Lw. Proof. vm_compute; reflexivity. Qed.
Lemma pow_cno_shift : 2 ^ CNO_SHIFT = 2. Proof. reflexivity. Qed.
Lemma pow_lno_shift : 2 ^ LNO_SHIFT = 2 * Cw. Proof. vm_compute; reflexivity. Qed.
Lemma pow_mac_shift : 2 ^ MAC_SHIFT = 1. Proof. reflexivity. Qed.
Lemma pow_mac : 2 ^ mac_nbits = 2. Proof. reflexivity. Qed.
Lemma cno_max : CNO_MAX = Cw - 1. Proof. reflexivity. Qed.
Lemma WORD_eq : WORD = 4 * Cw * Lw. Proof. vm_compute; reflexivity. Qed.

Lemma clamp_range c : 0 <= clampCno c <= Cw - 1.
Proof.
  unfold clampCno. rewrite cno_max. pose proof Cw_pos.
  destruct (c <? 0) eqn:?; [lia|]. destruct (Cw - 1 <? c) eqn:?; lia.
Qed.

Lemma clamp_id c : 0 <= c <= Cw - 1 -> clampCno c = c.
Proof.
  intros H. unfold clampCno. rewrite cno_max.
  destruct (c <? 0) eqn:?; [lia|]. destruct (Cw - 1 <? c) eqn:?; lia.
Qed.

(* Decomposition of any word into macro bit, column, rest. *)
Lemma char_eq p : sposChar p = (p / 2) mod Cw.
Proof. unfold sposChar, field. rewrite pow_cno_shift. reflexivity. Qed.
Lemma gline_eq p : sposGlobalLine p = (p / (2 * Cw)) mod Lw.
Proof. unfold sposGlobalLine, field. rewrite pow_lno_shift. reflexivity. Qed.
Lemma mac_eq p : sposIsMacroExpanded p = p mod 2.
Proof. unfold sposIsMacroExpanded, field. rewrite pow_mac_shift, pow_mac, Z.div_1_r. reflexivity. Qed.

Lemma offset_eq p c : sposOffset p c = p - 2 * ((p / 2) mod Cw) + 2 * clampCno ((p / 2) mod Cw + c).
Proof. unfold sposOffset. rewrite pow_cno_shift, char_eq. lia. Qed.

Section Packing.
  Variables (p c : Z).
  Let cl := clampCno ((p / 2) mod Cw + c).

  Lemma offset_char : sposChar (sposOffset p c) = clampCno (sposChar p + c).
  Proof.
    rewrite (char_eq (sposOffset p c)), offset_eq, char_eq. fold cl.
    pose proof (clamp_range ((p / 2) mod Cw + c)) as Hc. fold cl in Hc.
    pose proof Cw_pos. clearbody cl.
    set (q := p / 2) in *. assert (Hp : p = 2 * q + p mod 2) by (subst q; lia).
    assert (Hm : 0 <= p mod 2 < 2) by lia.
    set (m := p mod 2) in *. clearbody m q.
    set (ch := q mod Cw) in *. assert (Hq : q = Cw * (q / Cw) + ch) by (subst ch; lia).
    assert (0 <= ch < Cw) by (subst ch; lia).
    set (L := q / Cw) in *. clearbody ch L.
    replace ((p - 2 * ch + 2 * cl) / 2) with (Cw * L + cl) by lia.
    replace (Cw * L + cl) with (cl + L * Cw) by lia.
    rewrite Z.mod_add by lia. apply Z.mod_small. lia.
  Qed.

  Lemma offset_gline : sposGlobalLine (sposOffset p c) = sposGlobalLine p.
  Proof.
    rewrite !gline_eq, offset_eq. fold cl.
    pose proof (clamp_range ((p / 2) mod Cw + c)) as Hc. fold cl in Hc.
    pose proof Cw_pos. clearbody cl.
    set (q := p / 2) in *. assert (Hp : p = 2 * q + p mod 2) by (subst q; lia).
    assert (Hm : 0 <= p mod 2 < 2) by lia.
    set (m := p mod 2) in *. clearbody m q.
    set (ch := q mod Cw) in *. assert (Hq : q = Cw * (q / Cw) + ch) by (subst ch; lia).
    assert (0 <= ch < Cw) by (subst ch; lia).
    set (L := q / Cw) in *. clearbody ch L.
    f_equal.
    assert (E1 : (p - 2 * ch + 2 * cl) / (2 * Cw) = L).
    { symmetry; apply Z.div_unique_pos with (r := 2 * cl + m); lia. }
    assert (E2 : p / (2 * Cw) = L).
    { symmetry; apply Z.div_unique_pos with (r := 2 * ch + m); lia. }
    congruence.
  Qed.

  Lemma offset_mac : sposIsMacroExpanded (sposOffset p c) = sposIsMacroExpanded p.
  Proof.
    rewrite !mac_eq, offset_eq. fold cl. clearbody cl.
    replace (p - 2 * ((p / 2) mod Cw) + 2 * cl) with (p + (cl - (p / 2) mod Cw) * 2) by lia.
    apply Z.mod_add. lia.
  Qed.
End Packing.

(* sposSet with an in-range line and column keeps the three fields apart. *)
Lemma set_fields l c : 0 <= l < Lw -> 0 <= c <= Cw - 1 ->
  sposGlobalLine (sposSet l c) = l /\ sposChar (sposSet l c) = c /\ sposIsMacroExpanded (sposSet l c) = 0.
Proof.
  intros Hl Hc. pose proof Cw_pos. pose proof Lw_pos.
  assert (E : sposSet l c = l * (2 * Cw) + c * 2).
  { unfold sposSet, wrap. rewrite pow_lno_shift, pow_cno_shift, WORD_eq.
    rewrite Z.mod_small; [reflexivity|]. nia. }
  rewrite gline_eq, char_eq, mac_eq, E. repeat split.
  - replace ((l * (2 * Cw) + c * 2) / (2 * Cw)) with l.
    + apply Z.mod_small; lia.
    + apply Z.div_unique_pos with (r := c * 2); lia.
  - replace ((l * (2 * Cw) + c * 2) / 2) with (c + l * Cw) by lia.
    rewrite Z.mod_add by lia. apply Z.mod_small; lia.
  - replace (l * (2 * Cw) + c * 2) with (0 + (l * Cw + c) * 2) by lia.
    rewrite Z.mod_add by lia. reflexivity.
Qed.

(* Full statement on packed positions: a token at column c of global line l. *)
Lemma pack_unpack l c : 0 <= l < Lw ->
  let p := sposOffset (sposSet l 0) c in
  sposGlobalLine p = l /\ sposChar p = clampCno c /\ sposIsMacroExpanded p = 0.
Proof.
  intros Hl p. subst p. pose proof Cw_pos.
  destruct (set_fields l 0 Hl) as (Hg & Hc & Hm); [lia|].
  rewrite offset_gline, offset_char, offset_mac, Hg, Hc, Hm. auto.
Qed.

(* sposCmp orders by (global line, column) lexicographically *)
Lemma cmp_lex p q : 0 <= p < WORD -> 0 <= q < WORD ->
  sposGlobalLine p < Lw -> True ->
  (sposCmp p q = -1 <-> p / 2 < q / 2) /\ (sposCmp p q = 0 <-> p / 2 = q / 2).
Proof.
  intros _ _ _ _. unfold sposCmp. rewrite pow_cno_shift.
  destruct (p / 2 <? q / 2) eqn:E1; [split; split; intros; try lia; discriminate|].
  destruct (q / 2 <? p / 2) eqn:E2; split; split; intros; try lia; try discriminate.
Qed.
