(* Driver for the extracted SrcPos model.  Numbers travel as signed binary
   strings ("-101"); conversion only applies constructors, no arithmetic. *)
open Srcpos
let z_of_string (s : string) : z =
  let neg = String.length s > 0 && s.[0] = '-' in
  let st = if neg then 1 else 0 in
  let acc = ref None in
  for i = st to String.length s - 1 do
    (match !acc, s.[i] with
     | None, '1' -> acc := Some XH
     | None, _ -> ()
     | Some p, '1' -> acc := Some (XI p)
     | Some p, _ -> acc := Some (XO p))
  done;
  match !acc with None -> Z0 | Some p -> if neg then Zneg p else Zpos p
let rec bits p = match p with XH -> "1" | XO q -> bits q ^ "0" | XI q -> bits q ^ "1"
let string_of_z = function Z0 -> "0" | Zpos p -> bits p | Zneg p -> "-" ^ bits p
let tbl = ref []
let () =
  try while true do
    let l = input_line stdin in
    let w = List.filter (fun x -> x <> "") (String.split_on_char ' ' l) in
    let z i = z_of_string (List.nth w i) in
    let out s = print_string s; print_newline () in
    (match w with
     | "new" :: _ -> let (t, p) = sposNew !tbl (z 1) (z 2) (z 3) (z 4) in tbl := t; out (string_of_z p)
     | "grow" :: _ -> tbl := grow !tbl (z 1) (z 2) (z 3); out "ok"
     | "offset" :: _ -> out (string_of_z (sposOffset (z 1) (z 2)))
     | "char" :: _ -> out (string_of_z (sposChar (z 1)))
     | "gline" :: _ -> out (string_of_z (sposGlobalLine (z 1)))
     | "mac" :: _ -> out (string_of_z (sposIsMacroExpanded (z 1)))
     | "setmac" :: _ -> out (string_of_z (sposMacroExpanded (z 1)))
     | "line" :: _ -> out (string_of_z (sposLine !tbl (z 1)))
     | "file" :: _ -> out (string_of_z (sposFile !tbl (z 1)))
     | "cmp" :: _ -> out (string_of_z (sposCmp (z 1) (z 2)))
     | "reset" :: _ -> tbl := []; out "ok"
     | [] -> ()
     | _ -> out "?")
  done with End_of_file -> ()
