From Coq Require Import ZArith Bool List Lia ZifyBool.
Require Import AV.Gen.DiagParams AV.Diag.Model.
Local Open Scope Z_scope.

Lemma all_bytes_in b : 0 <= b < 256 -> In b all_bytes.
Proof.
  intros H. unfold all_bytes. replace b with (Z.of_nat (Z.to_nat b)) by lia.
  apply in_map. apply in_seq. lia.
Qed.

(* finite domain (256 byte values): exhaustive computation, lifted by forallb_forall *)
Lemma key_index_sweep : forallb key_index_ok all_bytes = true.
Proof. vm_compute. reflexivity. Qed.

Lemma key_index_in_bounds b : 0 <= b < 256 ->
  key_guard (char_of_byte b) = false -> 0 <= char_of_byte b < keyIx_size.
Proof.
  intros Hb Hg. pose proof (proj1 (forallb_forall _ _) key_index_sweep b (all_bytes_in b Hb)) as H.
  unfold key_index_ok in H. rewrite Hg, orb_false_l in H.
  apply andb_true_iff in H. destruct H as [H1 H2]. lia.
Qed.

Lemma clamped : exit_clamped = true. Proof. reflexivity. Qed.

Lemma status_honest n : 0 <= n -> (exit_status n <> 0 <-> n <> 0).
Proof.
  intros Hn. unfold exit_status. rewrite clamped.
  destruct ((255 <? n) || (n <? 0)) eqn:E.
  - split; [lia|]. intros _. discriminate.
  - apply orb_false_iff in E. destruct E as [E1 E2].
    rewrite Z.mod_small by lia. tauto.
Qed.

Lemma status_in_range n : 0 <= exit_status n < 256.
Proof. unfold exit_status. apply Z.mod_pos_bound. lia. Qed.
