(* C07, the two decidable sub-claims.
   (1) token.c: keyTag/keyLongest look up keyIx[ch] where ch = str[0] is a C `char`
       (signed on this platform) unless the code casts to unsigned char; the lookup is
       guarded by `ch <= 0` (or `ch == 0`).  keyIx has keyIx_size entries.
   (2) main.c: the process exit status is the low 8 bits of what main returns.
   Constants/shape flags are regenerated from the sources (AV.Gen.DiagParams). *)
From Coq Require Import ZArith Bool List.
Require Import AV.Gen.DiagParams.
Local Open Scope Z_scope.

(* value of `ch` for the source byte b in [0,256) *)
Definition char_of_byte (b : Z) : Z :=
  if key_index_unsigned then b else if b <? 128 then b else b - 256.

(* the guard `!str || (ch = str[0]) <= 0 || ...` : true = lookup skipped *)
Definition key_guard (ch : Z) : bool := if key_guard_le then ch <=? 0 else ch =? 0.

(* the index used when the guard lets the lookup through *)
Definition key_index_ok (b : Z) : bool :=
  let ch := char_of_byte b in
  key_guard ch || ((0 <=? ch) && (ch <? keyIx_size)).

Definition all_bytes : list Z := map Z.of_nat (seq 0 256).

(* what the shell sees for a total error count n >= 0 returned through main *)
Definition exit_status (n : Z) : Z :=
  (if exit_clamped then (if (255 <? n) || (n <? 0) then 255 else n) else n) mod 256.
