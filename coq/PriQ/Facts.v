(* Lemmas about the model of priq.c. *)
Require Import ZArith List Bool Lia Arith Permutation Sorted.
Require Import ZifyBool ZifyNat.
Import ListNotations.
Require Import AV.PriQ.Model.
Local Open Scope Z_scope.
Ltac Zify.zify_post_hook ::= Z.div_mod_to_equations.

(* ------------------------------------------------------------------ arrays *)
Lemma upd_length : forall h i v, length (upd h i v) = length h.
Proof. induction h as [|x t IH]; intros [|i] v; cbn; auto. Qed.

Lemma get_upd_same : forall h i v, (i < length h)%nat -> get (upd h i v) i = v.
Proof.
  unfold get. induction h as [|x t IH]; intros [|i] v H; cbn in *; try lia; [reflexivity|].
  apply IH. lia.
Qed.

Lemma get_upd_other : forall h i k v, k <> i -> get (upd h i v) k = get h k.
Proof.
  unfold get. induction h as [|x t IH]; intros [|i] [|k] v H; cbn; try reflexivity; try lia.
  apply IH. lia.
Qed.

Lemma upd_perm : forall h i v, (i < length h)%nat -> Permutation (get h i :: upd h i v) (v :: h).
Proof.
  unfold get. induction h as [|x t IH]; intros [|i] v H; cbn in *; try lia.
  - apply perm_swap.
  - eapply perm_trans; [apply perm_swap|].
    eapply perm_trans; [apply perm_skip, IH; lia|]. apply perm_swap.
Qed.

Lemma exchange_length : forall h i j, length (exchange h i j) = length h.
Proof. intros. unfold exchange. now rewrite !upd_length. Qed.

Lemma get_exchange : forall h i j k, (i < length h)%nat -> (j < length h)%nat ->
  get (exchange h i j) k = if Nat.eqb k j then get h i else if Nat.eqb k i then get h j else get h k.
Proof.
  intros h i j k Hi Hj. unfold exchange.
  destruct (Nat.eqb k j) eqn:Ej.
  - apply Nat.eqb_eq in Ej. subst k. apply get_upd_same. now rewrite upd_length.
  - apply Nat.eqb_neq in Ej. rewrite get_upd_other by exact Ej.
    destruct (Nat.eqb k i) eqn:Ei.
    + apply Nat.eqb_eq in Ei. subst k. now apply get_upd_same.
    + apply Nat.eqb_neq in Ei. now apply get_upd_other.
Qed.

Lemma key_exchange : forall h i j k, (i < length h)%nat -> (j < length h)%nat ->
  key (exchange h i j) k = if Nat.eqb k j then key h i else if Nat.eqb k i then key h j else key h k.
Proof.
  intros. unfold key. rewrite get_exchange by assumption.
  destruct (Nat.eqb k j); [reflexivity|]. destruct (Nat.eqb k i); reflexivity.
Qed.

Lemma exchange_perm : forall h i j, (i < length h)%nat -> (j < length h)%nat ->
  Permutation (exchange h i j) h.
Proof.
  intros h i j Hi Hj. unfold exchange.
  set (a := get h i). set (b := get h j).
  pose proof (upd_perm h i b Hi) as P1. fold a in P1.
  assert (Hj' : (j < length (upd h i b))%nat) by now rewrite upd_length.
  pose proof (upd_perm (upd h i b) j a Hj') as P2.
  assert (E : get (upd h i b) j = b).
  { destruct (Nat.eq_dec j i) as [->|N]; [now apply get_upd_same | now rewrite get_upd_other]. }
  rewrite E in P2.
  apply (Permutation_cons_inv (a := b)).
  eapply perm_trans; [exact P2 | exact P1].
Qed.

Lemma get_firstn : forall (h : heap) m i, (i < m)%nat -> get (firstn m h) i = get h i.
Proof.
  unfold get. induction h as [|x t IH]; intros [|m] [|i] H; cbn; try reflexivity; try lia.
  apply IH. lia.
Qed.

Lemma get_app_l : forall (h t : heap) i, (i < length h)%nat -> get (h ++ t) i = get h i.
Proof. intros. unfold get. now apply app_nth1. Qed.

Lemma get_app_last : forall (h : heap) v, get (h ++ [v]) (length h) = v.
Proof. intros. unfold get. rewrite app_nth2 by lia. now rewrite Nat.sub_diag. Qed.

Lemma firstn_get_last : forall (h : heap) n, length h = S n -> h = firstn n h ++ [get h n].
Proof.
  unfold get. induction h as [|x t IH]; intros n H; [discriminate|].
  destruct n as [|n]; cbn in *.
  - destruct t; [reflexivity | discriminate].
  - f_equal. apply IH. lia.
Qed.

(* ------------------------------------------------------------------ heap order *)
(* ordered on the first n slots *)
Definition ordered (h : heap) (n : nat) : Prop :=
  forall j, (0 < j < n)%nat -> key h (heapParent j) <= key h j.

(* every edge fine except those from i down to its children; children of i not below i's parent *)
Definition okDown (h : heap) (n i : nat) : Prop :=
  (forall j, (0 < j < n)%nat -> heapParent j <> i -> key h (heapParent j) <= key h j) /\
  ((0 < i)%nat -> forall c, (c < n)%nat -> (0 < c)%nat -> heapParent c = i ->
                            key h (heapParent i) <= key h c).

(* every edge fine except the one from i up to its parent; children of i not below i's parent *)
Definition okUp (h : heap) (n i : nat) : Prop :=
  (forall j, (0 < j < n)%nat -> j <> i -> key h (heapParent j) <= key h j) /\
  ((0 < i)%nat -> forall c, (c < n)%nat -> (0 < c)%nat -> heapParent c = i ->
                            key h (heapParent i) <= key h c).

Lemma root_min : forall h n, ordered h n -> forall j, (j < n)%nat -> key h 0 <= key h j.
Proof.
  intros h n H j. induction j as [j IH] using lt_wf_ind. intros Hj.
  destruct j as [|j]; [lia|].
  assert (P : (heapParent (S j) < S j)%nat) by (unfold heapParent; lia).
  specialize (IH _ P ltac:(lia)). specialize (H (S j) ltac:(lia)). lia.
Qed.

(* ------------------------------------------------------------------ heapSiftOutward *)
Lemma siftOut_spec : forall fuel h n i,
  (n <= length h)%nat -> (i < n \/ n = 0)%nat -> (n <= i + fuel)%nat -> (1 <= fuel)%nat ->
  okDown h n i ->
  let h' := siftOut fuel h n i in
  ordered h' n /\ Permutation h' h /\ length h' = length h /\
  (forall k, (n <= k)%nat -> get h' k = get h k).
Proof.
  induction fuel as [|f IH]; intros h n i Hn Hi Hf H1 [Hd Hg]; [lia|].
  cbn [siftOut]. unfold heapLeft, heapRight.
  set (l := (2 * i + 1)%nat). set (r := (2 * i + 2)%nat).
  set (m1 := if Nat.ltb l n && (key h l <=? key h i) then l else i).
  set (m2 := if Nat.ltb r n && (key h r <=? key h m1) then r else m1).
  destruct (Nat.eqb m2 i) eqn:Em.
  - (* break: i is not above its children *)
    apply Nat.eqb_eq in Em. cbv zeta.
    split; [|split; [apply Permutation_refl | split; [reflexivity | reflexivity]]].
    intros j Hj.
    destruct (Nat.eq_dec (heapParent j) i) as [Pj|Pj]; [|now apply Hd].
    assert (Cj : j = l \/ j = r) by (unfold heapParent in Pj; subst l r; lia).
    rewrite Pj. subst m2 m1.
    destruct (Nat.ltb l n && (key h l <=? key h i)) eqn:E1.
    { destruct (Nat.ltb r n && (key h r <=? key h l)); subst l r; lia. }
    destruct (Nat.ltb r n && (key h r <=? key h i)) eqn:E2.
    { subst l r; lia. }
    destruct Cj; subst j; subst l r; lia.
  - (* exchange and continue at m2 *)
    apply Nat.eqb_neq in Em. cbv zeta.
    assert (Hm : (m2 = l \/ m2 = r) /\ (m2 < n)%nat /\ key h m2 <= key h i /\
                 ((l < n)%nat -> key h m2 <= key h l) /\ ((r < n)%nat -> key h m2 <= key h r)).
    { subst m2 m1.
      destruct (Nat.ltb l n && (key h l <=? key h i)) eqn:E1.
      - destruct (Nat.ltb r n && (key h r <=? key h l)) eqn:E2; subst l r; repeat split; lia.
      - destruct (Nat.ltb r n && (key h r <=? key h i)) eqn:E2; subst l r; repeat split; try lia. }
    destruct Hm as (Hc & Hmn & Hmi & Hml & Hmr).
    assert (Hin : (i < n)%nat) by (subst l r; lia).
    assert (Li : (i < length h)%nat) by lia. assert (Lm : (m2 < length h)%nat) by lia.
    assert (Hpm : heapParent m2 = i) by (unfold heapParent; subst l r; lia).
    assert (Hinv : okDown (exchange h i m2) n m2).
    { split.
      - intros j Hj Pj. rewrite !key_exchange by assumption.
        destruct (Nat.eq_dec (heapParent j) i) as [Pi|Pi].
        + (* j is a child of i *)
          rewrite Pi. assert (Cj : j = l \/ j = r) by (unfold heapParent in Pi; subst l r; lia).
          replace (Nat.eqb i m2) with false by (symmetry; apply Nat.eqb_neq; subst l r; lia).
          rewrite Nat.eqb_refl.
          destruct (Nat.eqb j m2) eqn:Ejm.
          * exact Hmi.
          * apply Nat.eqb_neq in Ejm.
            replace (Nat.eqb j i) with false by (symmetry; apply Nat.eqb_neq; subst l r; lia).
            destruct Cj; subst j; [apply Hml | apply Hmr]; lia.
        + (* parent j is neither i nor m2 *)
          replace (Nat.eqb (heapParent j) m2) with false by (symmetry; now apply Nat.eqb_neq).
          replace (Nat.eqb (heapParent j) i) with false by (symmetry; now apply Nat.eqb_neq).
          destruct (Nat.eqb j m2) eqn:Ejm. { apply Nat.eqb_eq in Ejm. subst j. contradiction. }
          destruct (Nat.eqb j i) eqn:Eji.
          * apply Nat.eqb_eq in Eji. subst j.
            (* edge (parent i, i): new key at i is old key m2, a child of i *)
            apply Hg; lia.
          * now apply Hd.
      - intros _ c Hc1 Hc0 Pc. rewrite !key_exchange by assumption.
        rewrite Hpm.
        replace (Nat.eqb i m2) with false by (symmetry; apply Nat.eqb_neq; lia).
        rewrite Nat.eqb_refl.
        replace (Nat.eqb c m2) with false by (symmetry; apply Nat.eqb_neq; unfold heapParent in Pc; lia).
        replace (Nat.eqb c i) with false by (symmetry; apply Nat.eqb_neq; unfold heapParent in Pc; subst l r; lia).
        specialize (Hd c ltac:(lia) ltac:(lia)). rewrite Pc in Hd. exact Hd. }
    assert (Hf' : (n <= m2 + f)%nat) by (subst l r; lia).
    assert (H1' : (1 <= f)%nat) by (subst l r; lia).
    specialize (IH (exchange h i m2) n m2 ltac:(rewrite exchange_length; lia) ltac:(lia) Hf' H1' Hinv).
    cbv zeta in IH. destruct IH as (O & P & L & K).
    split; [exact O|]. split; [eapply perm_trans; [exact P | now apply exchange_perm]|].
    split; [now rewrite L, exchange_length|].
    intros k Hk. rewrite K by exact Hk. rewrite get_exchange by assumption.
    replace (Nat.eqb k m2) with false by (symmetry; apply Nat.eqb_neq; lia).
    replace (Nat.eqb k i) with false by (symmetry; apply Nat.eqb_neq; lia). reflexivity.
Qed.

(* ------------------------------------------------------------------ heapSiftInward (r = 0) *)
Lemma siftIn_spec : forall fuel h n i,
  n = length h -> (i < n)%nat -> (i < fuel)%nat -> okUp h n i ->
  let h' := siftIn fuel h 0 i in
  ordered h' n /\ Permutation h' h /\ length h' = length h.
Proof.
  induction fuel as [|f IH]; intros h n i Hn Hi Hf [Hu Hg]; [lia|].
  cbn [siftIn]. destruct (Nat.ltb 0 i) eqn:E0.
  - apply Nat.ltb_lt in E0. set (ip := heapParent i).
    assert (Hip : (ip < i)%nat) by (subst ip; unfold heapParent; lia).
    destruct (key h ip <? key h i) eqn:Ek.
    + (* break *)
      cbv zeta. split; [|split; [apply Permutation_refl | reflexivity]].
      intros j Hj. destruct (Nat.eq_dec j i) as [->|N]; [fold ip; lia | now apply Hu].
    + cbv zeta.
      assert (Li : (i < length h)%nat) by lia. assert (Lp : (ip < length h)%nat) by lia.
      assert (Hinv : okUp (exchange h i ip) n ip).
      { split.
        - intros j Hj Nj. rewrite !key_exchange by assumption.
          destruct (Nat.eqb j ip) eqn:E1. { apply Nat.eqb_eq in E1. contradiction. }
          destruct (Nat.eqb j i) eqn:E2.
          + apply Nat.eqb_eq in E2. subst j. fold ip. rewrite Nat.eqb_refl. lia.
          + apply Nat.eqb_neq in E1. apply Nat.eqb_neq in E2.
            destruct (Nat.eqb (heapParent j) ip) eqn:E3.
            * (* sibling of i *)
              apply Nat.eqb_eq in E3. specialize (Hu j Hj E2). rewrite E3 in Hu. lia.
            * destruct (Nat.eqb (heapParent j) i) eqn:E4.
              -- apply Nat.eqb_eq in E4. apply (Hg E0 j); lia.
              -- now apply Hu.
        - intros Pp c Hc Hc0 Pc. rewrite !key_exchange by assumption.
          assert (Npp : heapParent ip <> ip) by (unfold heapParent; lia).
          assert (Npi : heapParent ip <> i) by (unfold heapParent in *; lia).
          replace (Nat.eqb (heapParent ip) ip) with false by (symmetry; now apply Nat.eqb_neq).
          replace (Nat.eqb (heapParent ip) i) with false by (symmetry; now apply Nat.eqb_neq).
          assert (Eup : key h (heapParent ip) <= key h ip) by (apply Hu; lia).
          destruct (Nat.eqb c ip) eqn:E1. { apply Nat.eqb_eq in E1. unfold heapParent in Pc. lia. }
          destruct (Nat.eqb c i) eqn:E2; [exact Eup|].
          apply Nat.eqb_neq in E2. specialize (Hu c ltac:(lia) E2). rewrite Pc in Hu. lia. }
      specialize (IH (exchange h i ip) n ip ltac:(now rewrite exchange_length) ltac:(lia) ltac:(lia) Hinv).
      cbv zeta in IH. destruct IH as (O & P & L).
      split; [exact O|]. split; [eapply perm_trans; [exact P | now apply exchange_perm]|].
      now rewrite L, exchange_length.
  - apply Nat.ltb_ge in E0. assert (i = 0)%nat by lia. subst i. cbv zeta.
    split; [|split; [apply Permutation_refl | reflexivity]].
    intros j Hj. apply Hu; lia.
Qed.

(* ------------------------------------------------------------------ heapInsert / heapExtractMin *)
Definition wfheap (h : heap) : Prop := ordered h (length h).

Lemma heapInsert_spec : forall h k e, wfheap h ->
  wfheap (heapInsert h k e) /\ Permutation (heapInsert h k e) ((k, e) :: h).
Proof.
  intros h k e H. unfold heapInsert, wfheap.
  set (n := length h). set (h1 := h ++ [(k, e)]).
  assert (L1 : length h1 = S n) by (subst h1; rewrite app_length; cbn; lia).
  assert (Hinv : okUp h1 (S n) n).
  { split.
    - intros j Hj Nj. assert (Jn : (j < n)%nat) by lia.
      unfold key. subst h1. rewrite !get_app_l by (unfold heapParent; lia).
      apply H. lia.
    - intros Hn0 c Hc Hc0 Pc. unfold heapParent in Pc. lia. }
  pose proof (siftIn_spec (S n) h1 (S n) n (eq_sym L1) ltac:(lia) ltac:(lia) Hinv) as S.
  cbv zeta in S. destruct S as (O & P & L).
  split.
  - rewrite L, L1. exact O.
  - eapply perm_trans; [exact P|]. subst h1. apply Permutation_sym, Permutation_cons_append.
Qed.

Lemma heapExtractMin_spec : forall h, wfheap h -> h <> [] ->
  let '(h', m) := heapExtractMin h in
  wfheap h' /\ Permutation (m :: h') h /\ Forall (fun x => fst m <= fst x) h /\
  length h' = (length h - 1)%nat.
Proof.
  intros h H Hne. unfold heapExtractMin, wfheap in *.
  set (n := length h). assert (Hn : (1 <= n)%nat) by (subst n; destruct h; [congruence | cbn; lia]).
  set (h1 := exchange h 0 (n - 1)).
  assert (L1 : length h1 = n) by (subst h1; now rewrite exchange_length).
  assert (Hinv : okDown h1 (n - 1) 0).
  { split; [|lia]. intros j Hj Pj. subst h1. rewrite !key_exchange by lia.
    assert (heapParent j < j)%nat by (unfold heapParent; lia).
    replace (Nat.eqb (heapParent j) (n - 1)) with false by (symmetry; apply Nat.eqb_neq; lia).
    replace (Nat.eqb (heapParent j) 0) with false by (symmetry; now apply Nat.eqb_neq).
    replace (Nat.eqb j (n - 1)) with false by (symmetry; apply Nat.eqb_neq; lia).
    replace (Nat.eqb j 0) with false by (symmetry; apply Nat.eqb_neq; lia).
    apply H. lia. }
  pose proof (siftOut_spec n h1 (n - 1) 0 ltac:(lia) ltac:(lia) ltac:(lia) Hn Hinv) as S.
  cbv zeta in S. set (h2 := siftOut n h1 (n - 1) 0) in *. destruct S as (O & P & L & K).
  assert (L2 : length h2 = S (n - 1)) by lia.
  assert (Em : get h2 (n - 1) = get h 0).
  { rewrite K by lia. subst h1. rewrite get_exchange by lia. now rewrite Nat.eqb_refl. }
  split; [|split; [|split]].
  - rewrite firstn_length, L2. replace (Nat.min (n - 1) (S (n - 1))) with (n - 1)%nat by lia.
    intros j Hj. unfold key. rewrite !get_firstn by (unfold heapParent; lia). now apply O.
  - pose proof (firstn_get_last h2 (n - 1) L2) as Eh.
    eapply perm_trans; [apply Permutation_cons_append|].
    rewrite <- Eh. eapply perm_trans; [exact P|].
    subst h1. apply exchange_perm; lia.
  - rewrite Em. apply Forall_forall. intros x Hx.
    destruct (In_nth _ _ dflt Hx) as (j & Hj & Ej). fold (get h j) in Ej. rewrite <- Ej.
    apply (root_min h n H j Hj).
  - rewrite firstn_length, L2. lia.
Qed.

(* ------------------------------------------------------------------ cielLg *)
Lemma cielLgLoop_pow : forall fuel n i p, p = 2 ^ Z.of_nat i ->
  exists j, cielLgLoop fuel n i p = j /\ (i <= j)%nat.
Proof.
  induction fuel as [|f IH]; intros n i p Hp; cbn [cielLgLoop]; [eauto|].
  destruct (n <=? p); [eauto|].
  destruct (IH n (S i) (2 * p)) as (j & E & Hj).
  { rewrite Nat2Z.inj_succ, Z.pow_succ_r by lia. lia. }
  exists j. split; [exact E | lia].
Qed.

Lemma cielLgLoop_spec : forall fuel n i, n <= 2 ^ Z.of_nat (i + fuel) ->
  (forall k, (k < i)%nat -> 2 ^ Z.of_nat k < n) ->
  let j := cielLgLoop fuel n i (2 ^ Z.of_nat i) in
  n <= 2 ^ Z.of_nat j /\ (forall k, (k < j)%nat -> 2 ^ Z.of_nat k < n).
Proof.
  induction fuel as [|f IH]; intros n i Hb Hlow; cbn [cielLgLoop]; cbv zeta.
  - rewrite Nat.add_0_r in Hb. split; assumption.
  - destruct (n <=? 2 ^ Z.of_nat i) eqn:E; [split; [lia | assumption]|].
    replace (2 * 2 ^ Z.of_nat i) with (2 ^ Z.of_nat (S i))
      by (rewrite Nat2Z.inj_succ, Z.pow_succ_r by lia; reflexivity).
    apply IH.
    + replace (S i + f)%nat with (i + S f)%nat by lia. exact Hb.
    + intros k Hk. destruct (Nat.eq_dec k i) as [->|N]; [lia | apply Hlow; lia].
Qed.

(* for the arguments the C can be given without looping forever (n <= 2^63: p <<= 1 wraps to 0
   after 2^63) cielLg is the ceiling of the binary logarithm *)
Lemma cielLg_spec : forall n, n <= 2 ^ 63 ->
  n <= 2 ^ Z.of_nat (cielLg n) /\ (forall k, (k < cielLg n)%nat -> 2 ^ Z.of_nat k < n).
Proof.
  intros n Hn. unfold cielLg. change 1 with (2 ^ Z.of_nat 0).
  apply cielLgLoop_spec; [|intros k Hk; lia].
  cbn [Nat.add]. eapply Z.le_trans; [exact Hn|]. apply Z.pow_le_mono_r; lia.
Qed.

(* ------------------------------------------------------------------ the queue *)
Definition inv (q : priq) : Prop :=
  wfheap (argv q) /\ argc q <= size q /\ 1 <= size q.

Lemma priqNew_inv : forall g, inv (priqNew g) /\ argv (priqNew g) = [].
Proof.
  intros g. split; [|reflexivity]. unfold inv, priqNew, argc, wfheap. cbn [argv size length].
  split; [intros j Hj; lia|].
  assert (0 < 2 ^ Z.of_nat (cielLg g)) by (apply Z.pow_pos_nonneg; lia). split; lia.
Qed.

Lemma priqInsert_spec : forall q k e, inv q ->
  inv (priqInsert q k e) /\ Permutation (argv (priqInsert q k e)) ((k, e) :: argv q) /\
  argc q < size (priqInsert q k e) /\
  (size (priqInsert q k e) = size q \/ size (priqInsert q k e) = 2 * size q).
Proof.
  intros q k e (W & A & S). destruct (heapInsert_spec (argv q) k e W) as (W' & P).
  unfold priqInsert, inv, argc in *. cbn [argv size].
  pose proof (Permutation_length P) as L. cbn [length] in L.
  destruct (size q =? Z.of_nat (length (argv q))) eqn:E.
  - repeat split; try assumption; lia.
  - repeat split; try assumption; lia.
Qed.

Lemma priqExtractMin_spec : forall q, inv q -> argv q <> [] ->
  exists q' m, priqExtractMin q = Some (q', m) /\ inv q' /\
    Permutation (m :: argv q') (argv q) /\ Forall (fun x => fst m <= fst x) (argv q) /\
    size q' = size q.
Proof.
  intros q (W & A & S) Hne. unfold priqExtractMin.
  pose proof (heapExtractMin_spec (argv q) W Hne) as E.
  destruct (argv q) as [|x t] eqn:Eq; [congruence|]. rewrite <- Eq in *.
  destruct (heapExtractMin (argv q)) as [h' m]. destruct E as (W' & P & F & L).
  exists (mkPriq (size q) h'), m. split; [reflexivity|].
  split; [|split; [exact P | split; [exact F | reflexivity]]].
  unfold inv, argc in *. cbn [argv size]. split; [exact W'|]. split; lia.
Qed.

Lemma priqPeekMin_spec : forall q, inv q -> argv q <> [] ->
  exists m, priqPeekMin q = Some m /\ In m (argv q) /\ Forall (fun x => fst m <= fst x) (argv q).
Proof.
  intros q (W & _) Hne. unfold priqPeekMin, heapPeekMin.
  destruct (argv q) as [|x t] eqn:Eq; [congruence|]. rewrite <- Eq in *.
  exists (get (argv q) 0). split; [reflexivity|]. split.
  - rewrite Eq. cbn. now left.
  - apply Forall_forall. intros y Hy.
    destruct (In_nth _ _ dflt Hy) as (j & Hj & Ej). fold (get (argv q) j) in Ej. rewrite <- Ej.
    apply (root_min (argv q) (length (argv q)) W j Hj).
Qed.

(* heapCheck is sound (when it does not call bug() the heap is ordered); it is NOT complete:
   it rejects equal keys on an edge, which the sifts produce *)
Lemma heapCheck_sound : forall h, heapCheck h = true -> wfheap h.
Proof.
  intros h H j Hj. unfold heapCheck in H. rewrite forallb_forall in H.
  specialize (H j). rewrite in_seq in H. specialize (H ltac:(lia)). lia.
Qed.

Lemma heapCheck_incomplete : exists h, wfheap h /\ h = heapInsert (heapInsert [] 1 10) 1 11 /\ heapCheck h = false.
Proof.
  eexists. split; [|split; [reflexivity | reflexivity]].
  apply (proj1 (heapInsert_spec _ 1 11 (proj1 (heapInsert_spec [] 1 10 (fun j Hj => ltac:(cbn in Hj; lia)))))).
Qed.

(* ------------------------------------------------------------------ refinement to a sorted list *)
Definition sortedZ := StronglySorted Z.le.

Lemma insSorted_perm : forall k s, Permutation (insSorted k s) (k :: s).
Proof.
  intros k. induction s as [|x t IH]; cbn [insSorted]; [apply Permutation_refl|].
  destruct (k <=? x); [apply Permutation_refl|].
  eapply perm_trans; [apply perm_skip, IH | apply perm_swap].
Qed.

Lemma insSorted_sorted : forall k s, sortedZ s -> sortedZ (insSorted k s).
Proof.
  intros k. induction s as [|x t IH]; intros H; cbn [insSorted].
  - constructor; constructor.
  - inversion H as [|? ? Ht Hx]; subst. destruct (k <=? x) eqn:E.
    + constructor; [exact H|]. constructor; [lia|].
      rewrite Forall_forall in *. intros y Hy. specialize (Hx y Hy). lia.
    + constructor; [now apply IH|].
      rewrite Forall_forall in *. intros y Hy.
      apply (Permutation_in _ (insSorted_perm k t)) in Hy. destruct Hy as [<-|Hy]; [lia | now apply Hx].
Qed.

Definition rel (q : priq) (s : list Z) : Prop :=
  inv q /\ Permutation (map fst (argv q)) s /\ sortedZ s.

Lemma rel_nil : forall q, rel q [] -> argv q = [].
Proof.
  intros q (_ & P & _). apply Permutation_sym, Permutation_nil in P.
  destruct (argv q); [reflexivity | discriminate].
Qed.

Lemma rel_cons : forall q k t, rel q (k :: t) -> argv q <> [].
Proof.
  intros q k t (_ & P & _) E. rewrite E in P. cbn in P. apply Permutation_nil in P. discriminate.
Qed.

Lemma min_is_head : forall (h : heap) m k t,
  In m h -> Forall (fun x => fst m <= fst x) h -> Permutation (map fst h) (k :: t) -> sortedZ (k :: t) ->
  fst m = k.
Proof.
  intros h m k t Hin Hmin P S.
  inversion S as [|? ? St Hk]; subst.
  assert (A : k <= fst m).
  { assert (I : In (fst m) (k :: t)) by (eapply Permutation_in; [exact P | now apply in_map]).
    destruct I as [<-|I]; [lia|]. rewrite Forall_forall in Hk. now apply Hk. }
  assert (B : fst m <= k).
  { assert (I : In k (map fst h)) by (eapply Permutation_in; [apply Permutation_sym; exact P | now left]).
    apply in_map_iff in I as (x & <- & Hx). rewrite Forall_forall in Hmin. now apply Hmin. }
  lia.
Qed.

Lemma step_refines : forall q s o, rel q s ->
  let '(q', r) := step q o in let '(s', kr) := kstep s o in
  rel q' s' /\ keyOf r = kr.
Proof.
  intros q s o R. destruct o as [k e| |]; cbn [step kstep].
  - destruct R as (I & P & S). destruct (priqInsert_spec q k e I) as (I' & P' & _).
    split; [|reflexivity]. split; [exact I'|]. split; [|now apply insSorted_sorted].
    eapply perm_trans; [apply Permutation_map; exact P'|]. cbn [map fst].
    eapply perm_trans; [apply perm_skip; exact P|]. apply Permutation_sym, insSorted_perm.
  - destruct s as [|k t].
    + pose proof (rel_nil _ R) as E. unfold priqExtractMin. rewrite E. split; [exact R | reflexivity].
    + pose proof (rel_cons _ _ _ R) as Hne. destruct R as (I & P & S).
      destruct (priqExtractMin_spec q I Hne) as (q' & m & E & I' & Pm & F & _). rewrite E.
      assert (Hin : In m (argv q)) by (eapply Permutation_in; [exact Pm | now left]).
      pose proof (min_is_head _ _ _ _ Hin F P S) as Ek.
      split; [|cbn; now f_equal].
      split; [exact I'|]. split; [|now inversion S].
      apply (Permutation_cons_inv (a := k)). rewrite <- Ek at 1.
      eapply perm_trans; [|exact P]. change (fst m :: map fst (argv q')) with (map fst (m :: argv q')).
      now apply Permutation_map.
  - destruct s as [|k t].
    + pose proof (rel_nil _ R) as E. unfold priqPeekMin. rewrite E. split; [exact R | reflexivity].
    + pose proof (rel_cons _ _ _ R) as Hne. pose proof R as (I & P & S).
      destruct (priqPeekMin_spec q I Hne) as (m & E & Hin & F). rewrite E.
      split; [exact R|]. cbn. f_equal. eapply min_is_head; eauto.
Qed.

Lemma run_refines_gen : forall ops q s, rel q s ->
  let '(q', rs) := run q ops in map keyOf rs = krun s ops /\ inv q'.
Proof.
  induction ops as [|o t IH]; intros q s R; cbn [run krun].
  - split; [reflexivity | apply R].
  - pose proof (step_refines q s o R) as St.
    destruct (step q o) as [q1 r]. destruct (kstep s o) as [s1 kr]. destruct St as (R1 & Ek).
    specialize (IH q1 s1 R1). destruct (run q1 t) as [q2 rs]. destruct IH as (E & I).
    split; [cbn [map]; now rewrite Ek, E | exact I].
Qed.

Lemma run_refines : forall g ops,
  let '(q', rs) := run (priqNew g) ops in map keyOf rs = krun [] ops /\ inv q'.
Proof.
  intros g ops. apply run_refines_gen. destruct (priqNew_inv g) as (I & E).
  split; [exact I|]. rewrite E. split; [apply Permutation_refl | constructor].
Qed.

(* conservation of the payloads: what was inserted = what was extracted + what is still queued *)
Fixpoint inserted (ops : list op) : list part :=
  match ops with [] => [] | OIns k e :: t => (k, e) :: inserted t | _ :: t => inserted t end.
Fixpoint extracted (ops : list op) (rs : list out) : list part :=
  match ops, rs with
  | OExt :: t, RPart p :: rt => p :: extracted t rt
  | _ :: t, _ :: rt => extracted t rt
  | _, _ => []
  end.

Lemma run_conserves_gen : forall ops q, inv q ->
  let '(q', rs) := run q ops in
  Permutation (extracted ops rs ++ argv q') (inserted ops ++ argv q).
Proof.
  induction ops as [|o t IH]; intros q I; cbn [run].
  - apply Permutation_refl.
  - destruct o as [k e| |]; cbn [step].
    + destruct (priqInsert_spec q k e I) as (I' & P' & _).
      specialize (IH _ I'). destruct (run (priqInsert q k e) t) as [q2 rs]. cbn [extracted inserted].
      eapply perm_trans; [exact IH|]. cbn [app].
      eapply perm_trans; [apply Permutation_app_head; exact P'|].
      apply Permutation_sym, Permutation_middle.
    + destruct (argv q) as [|x xs] eqn:Eq.
      * unfold priqExtractMin. rewrite Eq. specialize (IH _ I). destruct (run q t) as [q2 rs].
        cbn [extracted inserted]. now rewrite Eq in IH.
      * assert (Hne : argv q <> []) by (rewrite Eq; discriminate).
        destruct (priqExtractMin_spec q I Hne) as (q' & m & E & I' & Pm & _). rewrite E.
        specialize (IH _ I'). destruct (run q' t) as [q2 rs]. cbn [extracted inserted app].
        rewrite <- Eq.
        eapply perm_trans; [apply perm_skip; exact IH|].
        eapply perm_trans; [apply Permutation_middle|].
        now apply Permutation_app_head.
    + destruct (priqPeekMin q) as [m|]; specialize (IH _ I); destruct (run q t) as [q2 rs];
        cbn [extracted inserted]; exact IH.
Qed.

Lemma run_conserves : forall g ops,
  let '(q', rs) := run (priqNew g) ops in
  Permutation (extracted ops rs ++ argv q') (inserted ops).
Proof.
  intros g ops. destruct (priqNew_inv g) as (I & E).
  pose proof (run_conserves_gen ops _ I) as H. destruct (run (priqNew g) ops) as [q' rs].
  rewrite E, app_nil_r in H. exact H.
Qed.

(* ------------------------------------------------------------------ examples *)
Example ex_heap : wfheap [(1, 0); (3, 0); (2, 0); (3, 1); (5, 0)].
Proof. intros j Hj. cbn in Hj. do 5 (destruct j as [|j]; [cbn; lia|]). lia. Qed.
Example ex_insert : heapInsert [(1, 0); (3, 0); (2, 0); (3, 1); (5, 0)] 0 7
                    = [(0, 7); (3, 0); (1, 0); (3, 1); (5, 0); (2, 0)].
Proof. reflexivity. Qed.
Example ex_extract : heapExtractMin [(1, 0); (3, 0); (2, 0); (3, 1); (5, 0)]
                     = ([(2, 0); (3, 0); (5, 0); (3, 1)], (1, 0)).
Proof. reflexivity. Qed.
Example ex_run :
  run (priqNew 0) [OIns 5 1; OIns 3 2; OIns 5 3; OPeek; OExt; OExt; OIns 1 4; OExt; OExt; OExt]
  = ({| size := 4; argv := [] |},
     [RNone; RNone; RNone; RPart (3, 2); RPart (3, 2); RPart (5, 1); RNone; RPart (1, 4); RPart (5, 3); RBad]).
Proof. reflexivity. Qed.
Example ex_new : size (priqNew 30) = 32 /\ size (priqNew 0) = 1 /\ size (priqNew 33) = 64.
Proof. repeat split; reflexivity. Qed.
