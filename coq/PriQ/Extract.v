Require Import ExtrOcamlBasic.
Require Import AV.PriQ.Model.
Extraction "PriQ/extracted/priq_model.ml"
  priqNew priqInsert priqExtractMin priqPeekMin priqCount priqCheck priqMap heapOrdered
  cielLg run krun keyOf.
