(* Model of /repo/aldor/aldor/src/priq.c (array heap, minimum at the root), function for
   function.  Definitions only.

   Representation
     PriQKey (double)          Z    -- any total order; NaN keys are outside the model
     PriQElt (Pointer)         Z    -- an opaque payload
     struct priqPart           (Z * Z)
     h[0 .. n-1]               list (Z * Z)   (the used slots; the C array has `size` slots)
     struct priq               record { size; argv }   argc = length argv
   Indices are nat; the C uses int, so heaps of more than 2^30 entries (overflow of 2*i+2)
   are outside the model.  Loops that are not structurally recursive carry explicit fuel; the
   out-of-fuel value is the array as it is.  The callers pass fuel n (sift outward over n-1
   slots) and n+1 (sift inward from slot n); Facts.siftOut_spec / siftIn_spec are proved under
   exactly these bounds (n <= i + fuel, i < fuel), i.e. the loop's own exit is always reached
   first and the out-of-fuel value never is the result. *)

Require Import ZArith List Bool.
Import ListNotations.
Local Open Scope Z_scope.

Definition part := (Z * Z)%type.
Definition heap := list part.

Definition dflt : part := (0, 0).
Definition get (h : heap) (i : nat) : part := nth i h dflt.
Definition key (h : heap) (i : nat) : Z := fst (get h i).

Fixpoint upd (h : heap) (i : nat) (v : part) : heap :=
  match h with
  | [] => []
  | x :: t => match i with O => v :: t | S i' => x :: upd t i' v end
  end.

Definition heapParent (i : nat) : nat := Nat.div (i - 1) 2.
Definition heapLeft (i : nat) : nat := 2 * i + 1.
Definition heapRight (i : nat) : nat := 2 * i + 2.

(* heapExchange(h,i,j) *)
Definition exchange (h : heap) (i j : nat) : heap :=
  let a := get h i in let b := get h j in upd (upd h i b) j a.

(* heapSiftOutward(h, n, i):  for (;; i = imax) { ... if (imax == i) break; exchange } *)
Fixpoint siftOut (fuel : nat) (h : heap) (n i : nat) : heap :=
  match fuel with
  | O => h
  | S f =>
      let imax := i in
      let ic := heapLeft i in
      let imax := if Nat.ltb ic n && (key h ic <=? key h imax) then ic else imax in
      let ic := heapRight i in
      let imax := if Nat.ltb ic n && (key h ic <=? key h imax) then ic else imax in
      if Nat.eqb imax i then h else siftOut f (exchange h i imax) n imax
  end.

(* heapSiftInward(h, r, i):  for (; i > r; i = ip) { ip = parent i; if (h[ip].key < h[i].key) break; exchange } *)
Fixpoint siftIn (fuel : nat) (h : heap) (r i : nat) : heap :=
  match fuel with
  | O => h
  | S f =>
      if Nat.ltb r i then
        let ip := heapParent i in
        if key h ip <? key h i then h else siftIn f (exchange h i ip) r ip
      else h
  end.

(* heapInsert(h, n, key, entry): h[n] = (key,entry); heapSiftInward(h, 0, n)   (n = length h) *)
Definition heapInsert (h : heap) (k e : Z) : heap :=
  let n := length h in siftIn (S n) (h ++ [(k, e)]) 0 n.

(* heapExtractMin(h, n, pkey): exchange(h,0,n-1); siftOut(h,n-1,0); result h[n-1].
   Returns (remaining heap h[0..n-2], extracted part). Requires n >= 1. *)
Definition heapExtractMin (h : heap) : heap * part :=
  let n := length h in
  let h1 := exchange h 0 (n - 1) in
  let h2 := siftOut n h1 (n - 1) 0 in
  (firstn (n - 1) h2, get h2 (n - 1)).

Definition heapPeekMin (h : heap) : part := get h 0.

(* heapCheck: for i = 1..n-1: if (h[parent i].key >= h[i].key) bug(...).  true = no bug().
   NOTE it demands STRICT order, which equal keys violate although the sifts allow them. *)
Definition heapCheck (h : heap) : bool :=
  forallb (fun i => negb (key h (heapParent i) >=? key h i)) (seq 1 (length h - 1)).

(* heapMap0: preorder visit *)
Fixpoint heapMap0 (fuel : nat) (h : heap) (n ix : nat) : list part :=
  match fuel with
  | O => []
  | S f => if Nat.ltb ix n
           then get h ix :: heapMap0 f h n (heapLeft ix) ++ heapMap0 f h n (heapRight ix)
           else []
  end.
Definition heapMap (h : heap) : list part := heapMap0 (S (length h)) h (length h) 0.

(* ---- util.c: cielLg(n): least i with n <= 2^i  (for (i=0,p=1;;i++,p<<=1) if (n<=p) return i) *)
Fixpoint cielLgLoop (fuel : nat) (n : Z) (i : nat) (p : Z) : nat :=
  match fuel with
  | O => i
  | S f => if n <=? p then i else cielLgLoop f n (S i) (2 * p)
  end.
Definition cielLg (n : Z) : nat := cielLgLoop 64 n 0 1.

(* ---- priority queue ---- *)
Record priq := mkPriq { size : Z; argv : heap }.
Definition argc (q : priq) : Z := Z.of_nat (length (argv q)).

Definition priqNew (argcGuess : Z) : priq := mkPriq (2 ^ Z.of_nat (cielLg argcGuess)) [].

Definition priqInsert (q : priq) (k e : Z) : priq :=
  let sz := if size q =? argc q then 2 * size q else size q in
  mkPriq sz (heapInsert (argv q) k e).

(* priqExtractMin / priqPeekMin: the C guards with `pq->size == 0` (never true: size >= 1), so
   an empty queue is NOT rejected and the C then indexes h[-1]; the model answers None there and
   the theorems exclude it. *)
Definition priqExtractMin (q : priq) : option (priq * part) :=
  match argv q with
  | [] => None
  | _ => let (h', m) := heapExtractMin (argv q) in Some (mkPriq (size q) h', m)
  end.

Definition priqPeekMin (q : priq) : option part :=
  match argv q with [] => None | _ => Some (heapPeekMin (argv q)) end.

Definition priqCount (q : priq) : Z := argc q.
Definition priqCheck (q : priq) : bool := heapCheck (argv q).
Definition priqMap (q : priq) : list part := heapMap (argv q).

(* ---- histories ---- *)
Inductive op := OIns (k e : Z) | OExt | OPeek.
Inductive out := RNone | RPart (p : part) | RBad.      (* RBad: extract/peek on an empty queue *)

Definition step (q : priq) (o : op) : priq * out :=
  match o with
  | OIns k e => (priqInsert q k e, RNone)
  | OExt => match priqExtractMin q with Some (q', m) => (q', RPart m) | None => (q, RBad) end
  | OPeek => match priqPeekMin q with Some m => (q, RPart m) | None => (q, RBad) end
  end.

Fixpoint run (q : priq) (ops : list op) : priq * list out :=
  match ops with
  | [] => (q, [])
  | o :: t => let (q1, r) := step q o in let (q2, rs) := run q1 t in (q2, r :: rs)
  end.

(* ---- specification: a sorted list of keys / a multiset of parts ---- *)
Fixpoint insSorted (k : Z) (l : list Z) : list Z :=
  match l with [] => [k] | x :: t => if k <=? x then k :: l else x :: insSorted k t end.

(* outputs of the reference: keys only (the key of the minimum is unique, the payload among
   equal keys is not) *)
Inductive kout := KNone | KKey (k : Z) | KBad.
Definition kstep (s : list Z) (o : op) : list Z * kout :=
  match o with
  | OIns k _ => (insSorted k s, KNone)
  | OExt => match s with [] => (s, KBad) | k :: t => (t, KKey k) end
  | OPeek => match s with [] => (s, KBad) | k :: _ => (s, KKey k) end
  end.
Fixpoint krun (s : list Z) (ops : list op) : list kout :=
  match ops with [] => [] | o :: t => let (s1, r) := kstep s o in r :: krun s1 t end.

Definition keyOf (r : out) : kout :=
  match r with RNone => KNone | RPart p => KKey (fst p) | RBad => KBad end.

(* heap order, as a boolean (for Examples and the driver) *)
Definition heapOrdered (h : heap) : bool :=
  forallb (fun i => key h (heapParent i) <=? key h i) (seq 1 (length h - 1)).
