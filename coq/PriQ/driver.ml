(* C20/priq model driver: same line syntax as harness/priq/h.c; every result comes from the
   extracted definitions (Priq_model); the driver parses, converts numerals, prints. *)
open Priq_model

let rec pos_of_int n = if n = 1 then XH else if n land 1 = 0 then XO (pos_of_int (n lsr 1)) else XI (pos_of_int (n lsr 1))
let z_of_int n = if n = 0 then Z0 else if n > 0 then Zpos (pos_of_int n) else Zneg (pos_of_int (- n))
let rec int_of_pos = function XH -> 1 | XO p -> 2 * int_of_pos p | XI p -> 2 * int_of_pos p + 1
let int_of_z = function Z0 -> 0 | Zpos p -> int_of_pos p | Zneg p -> - (int_of_pos p)
let zs z = string_of_int (int_of_z z)

let q = ref (priqNew Z0)
let parts l = String.concat " " (List.map (fun (k, e) -> zs k ^ ":" ^ zs e) l)

let doline line =
  match String.split_on_char ' ' (String.trim line) with
  | ["new"; g] -> q := priqNew (z_of_int (int_of_string g)); zs !q.size
  | ["ins"; k; e] ->
      q := priqInsert !q (z_of_int (int_of_string k)) (z_of_int (int_of_string e));
      zs (priqCount !q) ^ " " ^ zs !q.size
  | ["ext"] ->
      (match priqExtractMin !q with
       | None -> "EMPTY"
       | Some (q', (k, e)) -> q := q'; zs k ^ " " ^ zs e ^ " " ^ zs (priqCount q'))
  | ["peek"] -> (match priqPeekMin !q with None -> "EMPTY" | Some (k, e) -> zs k ^ " " ^ zs e)
  | ["count"] -> zs (priqCount !q)
  | ["check"] -> if priqCheck !q then "1" else "bug"
  | ["map"] -> parts (priqMap !q)
  | ["dump"] -> parts !q.argv
  | _ -> failwith ("bad line " ^ line)

let () =
  try
    while true do
      let line = input_line stdin in
      if String.length line > 0 && line.[0] <> '#' then print_endline (doline line)
    done
  with End_of_file -> ()
