(* C06: facts about the fault catalogue of AV.Mini.Mut that the development of the oracle
   (AV.Mini.MutFacts, builder b-c01) does not state itself.  Nothing here models Aldor's
   real type checker (tfSat, tiBottomUp, tiTopDown): `typecheck` is the checker of the
   reference semantics, AV.Mini.Types.                                                  *)
Require Import List Bool Arith Lia.
Require Import AV.Mini.Syntax AV.Mini.Types AV.Mini.Gen AV.Mini.Mut.
Require Import AV.Mini.MutFacts AV.Mini.GenFacts.
Import ListNotations.

(* eligibility is decidable (it is a boolean function: the tool enumerates it) *)
Lemma eligible_dec_lemma : forall k p site,
    {eligible k p site = true} + {eligible k p site = false}.
Proof. intros k p site. destruct (eligible k p site); [left | right]; reflexivity. Qed.

(* the enumeration of eligible sites misses none ... *)
Lemma eligible_sites_complete_lemma : forall k p site,
    eligible k p site = true -> In site (eligible_sites k p).
Proof.
  intros k p site H. unfold eligible_sites. apply filter_In. split; [| exact H].
  apply in_seq. unfold eligible in H. apply andb_prop in H as [H _]. apply andb_prop in H as [H _].
  apply Nat.ltb_lt in H. lia.
Qed.

(* ... and lists no site twice *)
Lemma eligible_sites_nodup_lemma : forall k p, NoDup (eligible_sites k p).
Proof. intros k p. unfold eligible_sites. apply NoDup_filter. apply seq_NoDup. Qed.

(* a mutant at an eligible site is a different program from its well-typed base *)
Lemma mutant_differs_lemma : forall k p site,
    typecheck p = true -> eligible k p site = true -> mutate k p site <> p.
Proof.
  intros k p site Hp He Heq. pose proof (mutant_ill_typed_lemma k p site Hp He) as Hm.
  rewrite Heq in Hm. rewrite Hp in Hm. discriminate.
Qed.

(* both halves of the decision on the generated family: the base program is in the accepted
   family, every eligible mutant of it is outside (strict and lax checker)                 *)
Lemma gen_mutant_lemma : forall seed size k site,
    eligible k (gen seed size) site = true ->
    typecheck (gen seed size) = true
    /\ typecheck (mutate k (gen seed size) site) = false
    /\ typecheck_lax (mutate k (gen seed size) site) = false.
Proof.
  intros seed size k site He. pose proof (gen_well_typed_lemma seed size) as Hg.
  split; [exact Hg |]. split.
  - exact (mutant_ill_typed_lemma k _ site Hg He).
  - exact (mutant_ill_typed_lax k _ site He).
Qed.

(* the catalogue has exactly the six modelled kinds, pairwise distinct names *)
Lemma all_kinds_complete_lemma : forall k, In k all_kinds.
Proof. destruct k; simpl; tauto. Qed.

Lemma kind_names_distinct_lemma : NoDup (map kind_name all_kinds).
Proof.
  simpl. repeat constructor; simpl; intuition discriminate.
Qed.
