(* C09: consequences of AV.Store.GcFacts.schedule_irrelevant for the schedule
   shapes the real runs use (periodic k:j, single collection, finite sets, and
   "whatever the allocator decides" = an arbitrary unknown predicate). *)
Require Import ZArith Arith List Bool.
Import ListNotations.
Require Import AV.Store.Gc AV.Store.GcFacts AV.GcSched.Model.

(* any two schedules are indistinguishable: in particular "the collector runs
   when the heap happens to fill" (some schedule [s1] nobody chose) versus a
   forced schedule [s2] *)
Lemma any_two_schedules : forall (prog : list instr) (s1 s2 : nat -> bool),
    outputs (run_with_gc s1 prog) = outputs (run_with_gc s2 prog).
Proof.
  intros prog s1 s2.
  rewrite (schedule_irrelevant prog s1), (schedule_irrelevant prog s2). reflexivity.
Qed.

Lemma periodic_irrelevant : forall (prog : list instr) (k j : nat),
    outputs (run_with_gc (periodic k j) prog) = outputs (run_no_gc prog).
Proof. intros prog k j. apply schedule_irrelevant. Qed.

Lemma single_shot_irrelevant : forall (prog : list instr) (j : nat),
    outputs (run_with_gc (single_shot j) prog) = outputs (run_no_gc prog).
Proof. intros prog j. apply schedule_irrelevant. Qed.

Lemma at_points_irrelevant : forall (prog : list instr) (pts : list nat),
    outputs (run_with_gc (at_points pts) prog) = outputs (run_no_gc prog).
Proof. intros prog pts. apply schedule_irrelevant. Qed.

(* run_no_gc is the schedule [never] *)
Lemma run_never : forall prog, run_with_gc never prog = run_no_gc prog.
Proof. reflexivity. Qed.

(* the hook without the variable (k = 0) never collects *)
Lemma periodic_0 : forall j n, periodic 0 j n = false.
Proof. reflexivity. Qed.

(* with k = 1, j = 0 it collects at every allocation *)
Lemma periodic_1_0 : forall n, periodic 1 0 n = true.
Proof. intros n. unfold periodic. rewrite Nat.mod_1_r. reflexivity. Qed.

(* the periodic schedules really are different schedules: 3:1 collects at
   allocations 1, 4, 7 and at no other of the first nine *)
Example ex_periodic_3_1 :
  map (periodic 3 1) (seq 0 9) = [false; true; false; false; true; false; false; true; false].
Proof. vm_compute. reflexivity. Qed.

(* non-vacuity on the example program of GcFacts: under 2:1 the heaps differ
   from the run without collections, the outputs do not *)
Example ex_periodic_2_1 :
  outputs (run_with_gc (periodic 2 1) ex_prog) = [5%Z; 0%Z; 1%Z; 5%Z] /\
  length (m_heap (run_with_gc (periodic 2 1) ex_prog)) <> length (m_heap (run_no_gc ex_prog)).
Proof. split; [vm_compute; reflexivity|vm_compute; discriminate]. Qed.
