(* C09: the collection schedules the hook ALDOR_VERIF_GC can produce, as
   predicates on allocation ordinals for AV.Store.Gc.run.  Definitions only.

   store.c (guarded by ALDOR_VERIF):
       static long k = -1, j = 0, count = 0;
       ... sscanf(e, "%ld:%ld", &k, &j) ...
       if (k > 0 && (count++ % k) == j) stoGc();
   i.e. with k > 0 the n-th call of stoAlloc (n = 0, 1, ...) collects first
   when n mod k = j; with k = 0 (variable absent) it never does. *)
Require Import Arith List Bool.
Import ListNotations.

Definition periodic (k j : nat) : nat -> bool :=
  fun n => match k with O => false | S _ => Nat.eqb (n mod k) j end.

(* k larger than the number of allocations of the run: exactly one collection,
   at allocation number j *)
Definition single_shot (j : nat) : nat -> bool := fun n => Nat.eqb n j.

(* a schedule given by an explicit finite set of allocation ordinals *)
Definition at_points (pts : list nat) : nat -> bool := fun n => existsb (Nat.eqb n) pts.

Definition never : nat -> bool := fun _ => false.
Definition always : nat -> bool := fun _ => true.
