(* C09: clearing dead variable slots before a collection (the model of
   fint.c:fintFreeJunk, which zeroes the interpreter's stack before `#int gc').

   Definitions:
     clean live m         the variable file truncated to its first [live] slots
                          (reading a slot beyond the end yields 0, writing one
                          re-extends the file with zeros: truncation IS zeroing)
     reads i / wrote m i  the variables instruction i reads / actually writes
                          when executed in state m (a load through a non-pointer
                          and an out-of-range interior step are no-ops)
     safe_from live d p m along the execution of p from m (no collection, no
                          clearing) no slot >= live is read unless p itself has
                          written it before ([d] = slots written so far): the
                          slots above [live] are DEAD at m

   Theorem fint_free_junk_safe: zero the slots above the live top and collect,
   at a point where those slots are dead ([safe_from]); whatever the schedules
   before and after, the outputs are those of the whole program without any
   collection and without clearing.
   Theorem junk_unsafe_example: the [safe_from] hypothesis is needed - clearing a
   slot the program still reads changes the output. *)
Require Import ZArith Arith List Bool Lia.
Import ListNotations.
Require Import AV.Store.Gc AV.Store.GcFacts AV.GcSched.Model.

Definition clean (live : nat) (m : mstate) : mstate :=
  mkM (m_heap m) (firstn live (m_env m)) (m_next m) (m_out m).

Definition reads (i : instr) : list nat :=
  match i with
  | IAlloc _ _ => []
  | IConst _ _ => []
  | IMove _ y => [y]
  | IInterior _ y _ => [y]
  | ILoad _ y _ => [y]
  | IStore x _ y => [x; y]
  | IOutput x => [x]
  | IEq x y => [x; y]
  end.

(* the slots instruction i really writes when executed in state m *)
Definition wrote (m : mstate) (i : instr) : list nat :=
  match i with
  | IAlloc x _ => [x]
  | IConst x _ => [x]
  | IMove x _ => [x]
  | IInterior x y d =>
      match eget (m_env m) y with
      | VPtr id off =>
          match hget (m_heap m) id with
          | Some o => if (0 <=? off + d)%Z && (off + d <? o_size o)%Z then [x] else []
          | None => []
          end
      | VInt _ => []
      end
  | ILoad x y _ =>
      match vresolve (m_heap m) (eget (m_env m) y) with Some _ => [x] | None => [] end
  | _ => []
  end.

Definition known (live : nat) (d : list nat) (x : nat) : bool :=
  (x <? live)%nat || existsb (Nat.eqb x) d.

Fixpoint safe_from (live : nat) (d : list nat) (p : list instr) (m : mstate) : bool :=
  match p with
  | [] => true
  | i :: rest => forallb (known live d) (reads i) && safe_from live (wrote m i ++ d) rest (mstep m i)
  end.

(* ---- environment lemmas ---- *)
Lemma eget_eset_same : forall x e v, eget (eset e x v) x = v.
Proof.
  unfold eget. induction x as [|x IH]; intros e v; destruct e as [|a t]; cbn [eset nth]; try reflexivity.
  - apply IH.
  - apply IH.
Qed.

Lemma eget_nil : forall y, eget [] y = VInt 0.
Proof. intros y. unfold eget. destruct y; reflexivity. Qed.

Lemma eget_eset_other : forall x e v y, x <> y -> eget (eset e x v) y = eget e y.
Proof.
  unfold eget. induction x as [|x IH]; intros e v y Hne; destruct e as [|a t]; cbn [eset].
  - destruct y as [|y]; [congruence|]. cbn [nth]. destruct y; reflexivity.
  - destruct y as [|y]; [congruence|]. reflexivity.
  - destruct y as [|y]; [reflexivity|]. cbn [nth].
    rewrite (IH [] v y) by congruence. destruct y; reflexivity.
  - destruct y as [|y]; [reflexivity|]. cbn [nth]. apply IH. congruence.
Qed.

Lemma eget_firstn : forall live e x, (x < live)%nat -> eget (firstn live e) x = eget e x.
Proof.
  unfold eget. induction live as [|n IH]; intros e x Hlt; [lia|].
  destruct e as [|a t]; [reflexivity|]. cbn [firstn]. destruct x as [|x]; [reflexivity|].
  cbn [nth]. apply IH. lia.
Qed.

(* ---- the dead-variable relation: same heap, same counter, same outputs,
        the variable files agree on the slots the program may still read ---- *)
Definition agree (live : nat) (d : list nat) (m1 m2 : mstate) : Prop :=
  m_heap m1 = m_heap m2 /\ m_next m1 = m_next m2 /\ m_out m1 = m_out m2 /\
  forall x, known live d x = true -> eget (m_env m1) x = eget (m_env m2) x.

Lemma known_app : forall live w d x, known live d x = true -> known live (w ++ d) x = true.
Proof.
  intros live w d x H. unfold known in *. apply orb_true_iff in H. apply orb_true_iff.
  destruct H as [H|H]; [left; exact H|right]. rewrite existsb_app. rewrite H. apply orb_true_r.
Qed.

Lemma known_cons_cases : forall live y d x,
    known live (y :: d) x = true -> x = y \/ known live d x = true.
Proof.
  intros live y d x H. unfold known in *. cbn [existsb] in H.
  destruct (Nat.eqb x y) eqn:He; [left; apply Nat.eqb_eq; exact He|right].
  rewrite orb_false_l in H. exact H.
Qed.

Lemma agree_eset : forall live d h1 e1 n1 o1 h2 e2 n2 o2 x v,
    agree live d (mkM h1 e1 n1 o1) (mkM h2 e2 n2 o2) ->
    agree live (x :: d) (mkM h1 (eset e1 x v) n1 o1) (mkM h2 (eset e2 x v) n2 o2).
Proof.
  intros live d h1 e1 n1 o1 h2 e2 n2 o2 x v [Hh [Hn [Ho He]]].
  cbn [m_heap m_env m_next m_out] in *. repeat split; try assumption.
  cbn [m_env]. intros y Hk. destruct (Nat.eq_dec x y) as [Heq|Hne].
  - subst y. rewrite !eget_eset_same. reflexivity.
  - rewrite !eget_eset_other by exact Hne.
    destruct (known_cons_cases live x d y Hk) as [Hy|Hy]; [congruence|]. exact (He y Hy).
Qed.

Lemma mstep_agree : forall i live d m1 m2,
    forallb (known live d) (reads i) = true ->
    agree live d m1 m2 ->
    agree live (wrote m1 i ++ d) (mstep m1 i) (mstep m2 i).
Proof.
  intros i live d [h1 e1 n1 o1] [h2 e2 n2 o2] Hr Ha.
  pose proof Ha as [Hh [Hn [Ho He]]]. cbn [m_heap m_env m_next m_out] in Hh, Hn, Ho, He.
  subst h2 n2 o2.
  destruct i as [x n|x z|x y|x y dd|x y f|x f y|x|x y]; cbn [reads wrote app forallb m_heap m_env] in *.
  - (* IAlloc *) cbn [mstep m_heap m_env m_next m_out].
    pose proof (agree_eset live d h1 e1 n1 o1 h1 e2 n1 o1 x (VPtr n1 0) Ha) as [_ [_ [_ He']]].
    repeat split. exact He'.
  - (* IConst *) cbn [mstep m_heap m_env m_next m_out].
    exact (agree_eset live d h1 e1 n1 o1 h1 e2 n1 o1 x (VInt z) Ha).
  - (* IMove *) cbn [mstep m_heap m_env m_next m_out].
    apply andb_true_iff in Hr. destruct Hr as [Hy _]. rewrite <- (He y Hy).
    exact (agree_eset live d h1 e1 n1 o1 h1 e2 n1 o1 x (eget e1 y) Ha).
  - (* IInterior *) cbn [mstep m_heap m_env m_next m_out].
    apply andb_true_iff in Hr. destruct Hr as [Hy _]. rewrite <- (He y Hy).
    destruct (eget e1 y) as [z|id off]; [exact Ha|].
    destruct (hget h1 id) as [o|]; [|exact Ha].
    destruct ((0 <=? off + dd)%Z && (off + dd <? o_size o)%Z); [|exact Ha].
    exact (agree_eset live d h1 e1 n1 o1 h1 e2 n1 o1 x (VPtr id (off + dd)) Ha).
  - (* ILoad *) cbn [mstep m_heap m_env m_next m_out].
    apply andb_true_iff in Hr. destruct Hr as [Hy _]. rewrite <- (He y Hy).
    destruct (vresolve h1 (eget e1 y)) as [id|]; [|exact Ha].
    exact (agree_eset live d h1 e1 n1 o1 h1 e2 n1 o1 x _ Ha).
  - (* IStore *) cbn [mstep m_heap m_env m_next m_out].
    apply andb_true_iff in Hr. destruct Hr as [Hx Hr]. apply andb_true_iff in Hr. destruct Hr as [Hy _].
    rewrite <- (He x Hx), <- (He y Hy).
    destruct (vresolve h1 (eget e1 x)) as [id|]; [|exact Ha].
    destruct (hget h1 id) as [o|]; [|exact Ha].
    destruct (f <? length (o_fields o))%nat; [|exact Ha].
    repeat split. exact He.
  - (* IOutput *) cbn [mstep m_heap m_env m_next m_out].
    apply andb_true_iff in Hr. destruct Hr as [Hx _]. rewrite <- (He x Hx).
    destruct (eget e1 x); [|exact Ha]. repeat split. exact He.
  - (* IEq *) cbn [mstep m_heap m_env m_next m_out].
    apply andb_true_iff in Hr. destruct Hr as [Hx Hr]. apply andb_true_iff in Hr. destruct Hr as [Hy _].
    rewrite <- (He x Hx), <- (He y Hy). repeat split. exact He.
Qed.

Lemma run_agree : forall p live d k k' m1 m2,
    safe_from live d p m1 = true -> agree live d m1 m2 ->
    m_out (run never k p m1) = m_out (run never k' p m2).
Proof.
  induction p as [|i rest IH]; intros live d k k' m1 m2 Hs Ha.
  - destruct Ha as [_ [_ [Ho _]]]. exact Ho.
  - cbn [safe_from] in Hs. apply andb_true_iff in Hs. destruct Hs as [Hr Hs].
    cbn [run]. unfold never at 1 3.
    pose proof (mstep_agree i live d m1 m2 Hr Ha) as Ha'.
    destruct (is_alloc i); exact (IH live _ _ _ _ _ Hs Ha').
Qed.

Lemma agree_clean : forall live m, agree live [] m (clean live m).
Proof.
  intros live m. unfold clean. repeat split. cbn [m_env]. intros x Hk.
  unfold known in Hk. cbn [existsb] in Hk. rewrite orb_false_r in Hk.
  apply Nat.ltb_lt in Hk. symmetry. apply eget_firstn. exact Hk.
Qed.

(* ---- clearing preserves well-formedness and the collector simulation ---- *)
Lemma wfm_clean : forall live m, wfm m -> wfm (clean live m).
Proof.
  intros live m [Henv Hheap]. split; [|exact Hheap].
  cbn [clean m_env m_heap m_next]. intros v Hin. apply Henv. exact (in_firstn _ live _ v Hin).
Qed.

Lemma sim_clean : forall live m1 m2, sim m1 m2 -> sim (clean live m1) (clean live m2).
Proof.
  intros live m1 m2 [He [Hn [Ho Hs]]]. unfold sim, clean. cbn [m_heap m_env m_next m_out].
  repeat split; try assumption.
  - rewrite He. reflexivity.
  - apply Hs.
  - apply (hsim_env _ _ _ (firstn live (m_env m1)) Hs).
    intros v b Hin Hres. exact (hreach_root _ _ v b (in_firstn _ live _ v Hin) Hres).
Qed.

Lemma run_never_app : forall p1 p2 k m,
    exists k', run never k (p1 ++ p2) m = run never k' p2 (run never k p1 m).
Proof.
  induction p1 as [|i rest IH]; intros p2 k m.
  - exists k. reflexivity.
  - cbn [app run]. unfold never at 1 3. destruct (is_alloc i); apply IH.
Qed.

Lemma run_never_wf : forall p k m, wfm m -> wfm (run never k p m).
Proof. exact run_no_gc_wf. Qed.

(* THE THEOREM.  [p1] has run under any schedule [s1]; the slots above [live]
   are zeroed and a collection is made (fintFreeJunk(); stoGc()); [p2], for
   which those slots are dead (it reads none of them before writing it), runs
   under any schedule [s2] (counter [k2] arbitrary).  The outputs are those of
   p1 ++ p2 run with no collection and no clearing at all. *)
Theorem fint_free_junk_safe : forall (p1 p2 : list instr) (live : nat) (s1 s2 : nat -> bool) (k2 : nat),
    safe_from live [] p2 (run_no_gc p1) = true ->
    outputs (run s2 k2 p2 (mgc (clean live (run_with_gc s1 p1)))) = outputs (run_no_gc (p1 ++ p2)).
Proof.
  intros p1 p2 live s1 s2 k2 Hsafe. unfold outputs. f_equal.
  set (a := run_no_gc p1). set (b := run_with_gc s1 p1).
  assert (Hwa : wfm a) by (apply run_no_gc_wf; exact wfm_m0).
  assert (Hsim : sim a b) by (apply run_with_gc_sim).
  (* with collections, after clearing  ~  without collections, after clearing *)
  assert (Hs2 : sim (clean live a) (mgc (clean live b))) by (apply mgc_sim; apply sim_clean; exact Hsim).
  pose proof (run_sim p2 s2 O k2 (clean live a) (mgc (clean live b)) (wfm_clean live a Hwa) Hs2) as [_ [_ [Ho _]]].
  rewrite <- Ho.
  (* without collections: clearing dead slots is not observable *)
  unfold run_no_gc. destruct (run_never_app p1 p2 O m0) as [k' Happ].
  change (fun _ : nat => false) with never. rewrite Happ.
  symmetry. apply (run_agree p2 live [] k' O). exact Hsafe. apply agree_clean.
Qed.

(* Non-vacuity and necessity. p1 builds a two-block structure held from slot 0
   and leaves junk (a pointer to a dropped block) in slot 3; p2 reads slot 0,
   reuses slot 3 only after writing it.  Clearing above 1 and collecting frees
   the junk block, outputs unchanged.  If p2 instead READS slot 3 first
   (p2_bad), [safe_from] fails and the output changes. *)
Definition jk_p1 : list instr :=
  [ IAlloc 0 2; IAlloc 1 1; IConst 2 7; IStore 1 0 2; IStore 0 1 1; IAlloc 3 1; IConst 1 0 ].
Definition jk_p2 : list instr :=
  [ ILoad 1 0 1; ILoad 2 1 0; IOutput 2; IConst 3 9; IOutput 3; IAlloc 3 1; IEq 3 3 ].
Definition jk_p2_bad : list instr := [ IEq 3 3; IStore 3 0 0; ILoad 2 3 0; IEq 2 0 ].

Example jk_safe : safe_from 1 [] jk_p2 (run_no_gc jk_p1) = true.
Proof. vm_compute. reflexivity. Qed.

Example jk_outputs :
  outputs (run (fun _ => true) 0 jk_p2 (mgc (clean 1 (run_with_gc (fun _ => true) jk_p1)))) = [7%Z; 9%Z; 1%Z] /\
  outputs (run_no_gc (jk_p1 ++ jk_p2)) = [7%Z; 9%Z; 1%Z] /\
  length (m_heap (mgc (clean 1 (run_with_gc (fun _ => true) jk_p1)))) = 2%nat /\
  length (m_heap (run_no_gc jk_p1)) = 3%nat.
Proof. repeat split; vm_compute; reflexivity. Qed.

Theorem junk_unsafe_example :
  safe_from 1 [] jk_p2_bad (run_no_gc jk_p1) = false /\
  outputs (run never 0 jk_p2_bad (mgc (clean 1 (run_no_gc jk_p1)))) <> outputs (run_no_gc (jk_p1 ++ jk_p2_bad)).
Proof. split; [vm_compute; reflexivity|vm_compute; discriminate]. Qed.
