(* stoGcSweep keeps the invariant and frees exactly the unmarked busy blocks. *)
Require Import ZArith List Bool Lia ZifyBool Permutation.
Import ListNotations.
Require Import AV.Gen.StoreParams AV.Store.Gc AV.Store.Model AV.Store.ListFacts
        AV.Store.SizeFacts AV.Store.PieceFacts AV.Store.IndexFacts AV.Store.PutFacts AV.Store.Facts
        AV.Store.LiveFacts.
Local Open Scope Z_scope.

(* ---- the mixed part of a state, with the fixed sections erased ------------ *)
(* While stoGcSweep runs, fixedPieces[] is stale (it is rebuilt at the end).
   The part of the invariant that does not mention it is exactly the invariant
   of the state in which the fixed sections are forgotten. *)

Definition erase (x : sect) : sect := match x with SFixed _ _ _ _ => SDead | _ => x end.
Definition mview (t : st) : st :=
  mkSt (map erase (sects t)) (repeat [] nclasses) (index t) (front t).

Lemma get_sect_mview : forall t s, get_sect (mview t) s = erase (get_sect t s).
Proof. intros. unfold get_sect, mview. cbn [sects]. change SDead with (erase SDead) at 1. apply map_nth. Qed.

Lemma free_at_mview : forall t x k, free_at (mview t) x k <-> free_at t x k.
Proof. intros. unfold free_at. rewrite get_sect_mview. destruct (get_sect t (fst x)); cbn; tauto. Qed.

Lemma front_at_mview : forall t x, front_at (mview t) x <-> front_at t x.
Proof. intros. unfold front_at. rewrite get_sect_mview. destruct (get_sect t (fst x)); cbn; tauto. Qed.

Lemma fq_mview : forall t c x, ~ fq (mview t) c x.
Proof. intros t c x. unfold fq. rewrite get_sect_mview. destruct (get_sect t (fst x)); cbn; tauto. Qed.

Lemma sect_ok_erase : forall x, sect_ok x -> sect_ok (erase x).
Proof. intros [| |] H; cbn; auto. Qed.

Lemma inv_mview : forall t h, InvH t h -> InvH (mview t) h.
Proof.
  intros t h HI. constructor; cbn [mview flist index front].
  - apply repeat_length.
  - intros s. rewrite get_sect_mview. apply sect_ok_erase. apply (ih_sect _ _ HI).
  - intros c x Hx. rewrite nth_repeat_nil in Hx. destruct Hx.
  - intros c. rewrite nth_repeat_nil. constructor.
  - intros c x Hx. exfalso. eapply fq_mview. exact Hx.
  - apply (ih_keys _ _ HI).
  - apply (ih_noempty _ _ HI).
  - apply (ih_ix_nodup _ _ HI).
  - intros k x Hin. destruct (ih_ix_sound _ _ HI _ _ Hin). split; [apply free_at_mview|]; assumption.
  - intros k x Hx Hh. apply (ih_ix_complete _ _ HI); [apply free_at_mview|]; assumption.
  - intros x Hx. destruct (ih_front_sound _ _ HI _ Hx). split; [apply front_at_mview|]; assumption.
  - intros x Hx Hh. apply (ih_front_complete _ _ HI); [apply front_at_mview|]; assumption.
Qed.

(* the free-list part of the invariant *)
Record FL (t : st) : Prop := {
  fl_len : length (flist t) = nclasses;
  fl_sound : forall c x, In x (nth c (flist t) []) -> fq t c x;
  fl_nodup : forall c, NoDup (nth c (flist t) []);
  fl_complete : forall c x, fq t c x -> In x (nth c (flist t) [])
}.

Lemma inv_from_mview : forall t, Inv (mview t) -> FL t -> (forall s, sect_ok (get_sect t s)) -> Inv t.
Proof.
  intros t HI HF Hok. constructor.
  - apply (fl_len _ HF).
  - assumption.
  - apply (fl_sound _ HF).
  - apply (fl_nodup _ HF).
  - apply (fl_complete _ HF).
  - apply (ih_keys _ _ HI).
  - apply (ih_noempty _ _ HI).
  - apply (ih_ix_nodup _ _ HI).
  - intros k x Hin. destruct (ih_ix_sound _ _ HI _ _ Hin). split; [apply free_at_mview|]; assumption.
  - intros k x Hx Hh. apply (ih_ix_complete _ _ HI); [apply free_at_mview|]; assumption.
  - intros x Hx. destruct (ih_front_sound _ _ HI _ Hx). split; [apply front_at_mview|]; assumption.
  - intros x Hx Hh. apply (ih_front_complete _ _ HI); [apply front_at_mview|]; assumption.
Qed.

(* ---- piecePutMixed does not look at the fixed sections --------------------- *)

Lemma dll_insert_ext : forall abs1 abs2 x l, (forall y, abs1 y = abs2 y) ->
  dll_insert abs1 x l = dll_insert abs2 x l.
Proof.
  intros abs1 abs2 x l H. induction l as [|u rest IH]; [reflexivity|].
  cbn [dll_insert]. destruct rest; [reflexivity|]. rewrite !H, IH. reflexivity.
Qed.

Lemma idx_link_ext : forall abs1 abs2 key x ix, (forall y, abs1 y = abs2 y) ->
  idx_link abs1 key x ix = idx_link abs2 key x ix.
Proof.
  intros abs1 abs2 key x ix H. induction ix as [|[k l] t IH]; [reflexivity|].
  cbn [idx_link]. rewrite IH, (dll_insert_ext abs1 abs2 x l H). reflexivity.
Qed.

Lemma loc_abs_mview : forall t l, loc_abs (mview t) l = loc_abs t l.
Proof. intros. unfold loc_abs. rewrite get_sect_mview. destruct (get_sect t (fst l)); reflexivity. Qed.

Lemma put_mixed_mview : forall t s ps ix k, put_mixed (mview t) s ps ix k = put_mixed t s ps ix k.
Proof.
  intros. unfold put_mixed.
  repeat match goal with |- context [let '(a, b) := ?e in _] => destruct e end.
  repeat match goal with |- context [match ?e with (a, b) => _ end] => destruct e end.
  f_equal. f_equal. apply idx_link_ext. apply loc_abs_mview.
Qed.

Lemma map_upd : forall (A B : Type) (f : A -> B) l n x, map f (upd n x l) = upd n (f x) (map f l).
Proof. induction l as [|h t IH]; intros [|n] x; cbn; try reflexivity. f_equal. apply IH. Qed.

Lemma upd_same : forall (A : Type) (l : list A) n d, upd n (nth n l d) l = l.
Proof.
  induction l as [|h t IH]; intros [|n] d; cbn; try reflexivity. f_equal. apply IH.
Qed.

(* replacing a fixed section by a fixed or dead one does not change the mixed view *)
Lemma mview_set_fixed : forall t s x' fl ix fr,
  erase (get_sect t s) = SDead -> erase x' = SDead ->
  mview (mkSt (upd s x' (sects t)) fl ix fr) = mkSt (map erase (sects t)) (repeat [] nclasses) ix fr.
Proof.
  intros t s x' fl ix fr H1 H2. unfold mview. cbn [sects index front]. f_equal.
  rewrite map_upd, H2. rewrite <- H1. unfold get_sect.
  change SDead with (erase SDead) at 1. rewrite <- map_nth. apply upd_same.
Qed.

(* ---- stoGcSweepMixed: the loop over the pieces of one section -------------- *)

Ltac and_split := repeat match goal with |- _ /\ _ => split end.

Section Sweep.
Variable m : list addr.
Definition mk (e : addr * Z * binfo) : bool := is_marked m (fst (fst e)).

Lemma mview_put_step : forall t s b pg l1 p l2,
  get_sect t s = SMixed b pg (l1 ++ p :: l2) ->
  links_ok 0 (l1 ++ p :: l2) -> pos_sizes l1 ->
  mview (mkSt (upd s (SMixed b pg (put_ps l1 p l2)) (sects t)) (flist t)
              (put_ix (loc_abs t) s l1 p l2 (index t)) (front t))
  = put_mixed_st (mview t) s (length l1).
Proof.
  intros t s b pg l1 p l2 Hs Hl Hp.
  assert (Hs' : get_sect (mview t) s = SMixed b pg (l1 ++ p :: l2)) by (rewrite get_sect_mview, Hs; reflexivity).
  rewrite (put_mixed_st_eq (mview t) s b pg l1 p l2 Hs' Hl Hp).
  unfold mview at 1. cbn [sects flist index front]. rewrite map_upd. cbn [erase].
  unfold put_ix. rewrite (idx_link_ext (loc_abs t) (loc_abs (mview t))) by (intros; symmetry; apply loc_abs_mview).
  reflexivity.
Qed.

Lemma mixed_live_l1_put : forall s pg l1, mixed_live s pg l1 0 = mixed_live s pg (put_l0 l1) 0.
Proof.
  intros. rewrite (l1_decomp l1) at 1. rewrite mixed_live_app.
  rewrite (mixed_live_allfree s pg (put_pl l1)) by apply put_pl_free. rewrite app_nil_r. reflexivity.
Qed.

Lemma mixed_live_l2_put : forall s pg l2 cur,
  mixed_live s pg l2 cur = mixed_live s pg (put_l3 l2) (cur + put_szn l2).
Proof.
  intros. rewrite (l2_decomp l2) at 1. rewrite mixed_live_app.
  rewrite (mixed_live_allfree s pg (put_nl l2)) by apply put_nl_free. rewrite put_nl_psum. reflexivity.
Qed.

Lemma sweep_mixed_spec : forall fuel t s b pg l1 l2 nbusy fr,
  Inv (mview t) -> get_sect t s = SMixed b pg (l1 ++ l2) -> (length l2 <= fuel)%nat ->
  exists t' ps' fr',
    sweep_mixed m fuel t s (length l1) nbusy fr
    = (t', (nbusy + length (filter mk (mixed_live s pg l2 (psum l1))))%nat, fr') /\
    Inv (mview t') /\ get_sect t' s = SMixed b pg ps' /\
    (forall s', s' <> s -> get_sect t' s' = get_sect t s') /\
    flist t' = flist t /\ front t' = front t /\ length (sects t') = length (sects t) /\
    mixed_live s pg ps' 0 = mixed_live s pg l1 0 ++ filter mk (mixed_live s pg l2 (psum l1)).
Proof.
  induction fuel as [|fuel IH]; intros t s b pg l1 l2 nbusy fr HI Hs Hfuel.
  - destruct l2; [|cbn in Hfuel; lia]. rewrite app_nil_r in Hs. exists t, l1, fr.
    cbn [sweep_mixed mixed_live filter length]. rewrite Nat.add_0_r, app_nil_r. and_split; auto.
  - cbn [sweep_mixed]. rewrite Hs.
    destruct l2 as [|p l2].
    + rewrite app_nil_r. rewrite (proj2 (nth_error_None l1 (length l1))) by lia.
      rewrite app_nil_r in Hs. exists t, l1, fr. cbn [mixed_live filter length]. rewrite Nat.add_0_r, app_nil_r.
      and_split; auto.
    + rewrite nth_error_app_len. rewrite poff_app.
      assert (Hs1 : get_sect t s = SMixed b pg ((l1 ++ [p]) ++ l2)) by (rewrite <- app_assoc; exact Hs).
      assert (Hlen1 : length (l1 ++ [p]) = S (length l1)) by (rewrite app_length; cbn; lia).
      assert (Hsum1 : psum (l1 ++ [p]) = psum l1 + psz p) by (rewrite psum_app; cbn; lia).
      assert (Hfuel' : (length l2 <= fuel)%nat) by (cbn in Hfuel; lia).
      destruct (pkd p) as [| |bi] eqn:Ek.
      * (* free piece *)
        destruct (IH t s b pg (l1 ++ [p]) l2 nbusy fr HI Hs1 Hfuel') as (t' & ps' & fr' & H1 & H2 & H3 & H4 & H5 & H6 & H7 & H8).
        rewrite Hlen1 in H1. exists t', ps', fr'. cbn [mixed_live]. rewrite Ek.
        rewrite Hsum1 in H1, H8. split; [exact H1|]. and_split; auto.
        rewrite H8. rewrite mixed_live_app. cbn [mixed_live]. rewrite Ek. rewrite app_nil_r. reflexivity.
      * (* the frontier *)
        destruct (IH t s b pg (l1 ++ [p]) l2 nbusy fr HI Hs1 Hfuel') as (t' & ps' & fr' & H1 & H2 & H3 & H4 & H5 & H6 & H7 & H8).
        rewrite Hlen1 in H1. exists t', ps', fr'. cbn [mixed_live]. rewrite Ek.
        rewrite Hsum1 in H1, H8. split; [exact H1|]. and_split; auto.
        rewrite H8. rewrite mixed_live_app. cbn [mixed_live]. rewrite Ek. rewrite app_nil_r. reflexivity.
      * (* a busy piece *)
        cbn [mixed_live]. rewrite Ek. cbn [filter].
        set (blk0 := ((s, mdata_off pg + psum l1 + MxMemHeadSize), psz p - MxMemHeadSize, bi)).
        change (is_marked m (s, mdata_off pg + psum l1 + MxMemHeadSize)) with (mk blk0).
        destruct (mk blk0) eqn:Em.
        -- destruct (IH t s b pg (l1 ++ [p]) l2 (S nbusy) fr HI Hs1 Hfuel')
             as (t' & ps' & fr' & H1 & H2 & H3 & H4 & H5 & H6 & H7 & H8).
           rewrite Hlen1 in H1. exists t', ps', fr'. rewrite Hsum1 in H1, H8.
           cbn [length]. replace (nbusy + S (length (filter mk (mixed_live s pg l2 (psum l1 + psz p)))))%nat
             with (S nbusy + length (filter mk (mixed_live s pg l2 (psum l1 + psz p))))%nat by lia.
           split; [exact H1|]. and_split; auto.
           rewrite H8. rewrite mixed_live_app. cbn [mixed_live]. rewrite Ek. rewrite Z.add_0_l.
           rewrite <- app_assoc. reflexivity.
        -- (* unmarked: piecePutMixed *)
           pose proof (ih_sect _ _ HI s) as Hok. rewrite get_sect_mview, Hs in Hok. cbn [erase sect_ok] in Hok.
           destruct Hok as [Hpg Hps].
           pose proof (quant_pos _ (pso_sizes _ _ Hps)) as Hpos. apply pos_sizes_app in Hpos. destruct Hpos as [Hpos1 _].
           rewrite (put_mixed_spec t s l1 p l2 (index t) (pso_links _ _ Hps) Hpos1).
           set (t1 := mkSt (upd s (SMixed b pg (put_ps l1 p l2)) (sects t)) (flist t)
                           (put_ix (loc_abs t) s l1 p l2 (index t)) (front t)).
           assert (Hr : (s < length (sects t))%nat) by (apply get_sect_in_range; rewrite Hs; discriminate).
           assert (HI1 : Inv (mview t1)).
           { unfold t1. rewrite (mview_put_step t s b pg l1 p l2 Hs (pso_links _ _ Hps) Hpos1).
             assert (Hs' : get_sect (mview t) s = SMixed b pg (l1 ++ p :: l2)) by (rewrite get_sect_mview, Hs; reflexivity).
             eapply put_mixed_st_inv; [|exact Hs'].
             eapply invh_hole_busy; try eassumption; unfold kfree, kfront; rewrite Ek; reflexivity. }
           set (mg := mkP (put_pvp l1 p) (put_total l1 p l2) KFree).
           assert (Hs1' : get_sect t1 s = SMixed b pg ((put_l0 l1 ++ [mg]) ++ fix_pv (put_total l1 p l2) (put_l3 l2))).
           { unfold t1. rewrite get_sect_mk_upd by assumption. rewrite Nat.eqb_refl. unfold put_ps.
             rewrite <- app_assoc. reflexivity. }
           assert (Hf1 : (length (fix_pv (put_total l1 p l2) (put_l3 l2)) <= fuel)%nat).
           { assert (length (put_l3 l2) <= length l2)%nat.
             { unfold put_l3. destruct (head_free l2); [destruct l2; cbn; lia | lia]. }
             destruct (put_l3 l2); cbn in *; lia. }
           destruct (IH t1 s b pg (put_l0 l1 ++ [mg]) (fix_pv (put_total l1 p l2) (put_l3 l2)) nbusy
                        (fr ++ [(s, mdata_off pg + psum l1 + MxMemHeadSize)]) HI1 Hs1' Hf1)
             as (t' & ps' & fr' & H1 & H2 & H3 & H4 & H5 & H6 & H7 & H8).
           rewrite app_length in H1. cbn [length] in H1.
           replace (length (put_l0 l1) + 1)%nat with (S (length (put_l0 l1))) in H1 by lia.
           assert (Hsum' : psum (put_l0 l1 ++ [mg]) = psum l1 + psz p + put_szn l2).
           { rewrite psum_app. cbn [psum mg psz]. rewrite (psum_l1 l1). unfold put_total. lia. }
           rewrite Hsum' in H1, H8. rewrite mixed_live_fix_pv in H1, H8.
           rewrite <- (mixed_live_l2_put s pg l2 (psum l1 + psz p)) in H1, H8.
           exists t', ps', fr'. split; [exact H1|]. split; [exact H2|]. split; [exact H3|].
           split. { intros s' Hne. rewrite H4 by assumption. unfold t1. rewrite get_sect_mk_upd by assumption.
                    destruct (Nat.eqb s s') eqn:E; [apply Nat.eqb_eq in E; congruence | reflexivity]. }
           split; [rewrite H5; reflexivity|]. split; [rewrite H6; reflexivity|].
           split; [rewrite H7; unfold t1; cbn [sects]; apply upd_length|].
           rewrite H8. rewrite mixed_live_app. cbn [mixed_live mg pkd]. rewrite app_nil_r.
           rewrite <- mixed_live_l1_put. reflexivity.
Qed.
End Sweep.

(* ---- stoGcSweepFixed ---------------------------------------------------------- *)

Section Sweep2.
Variable m : list addr.
Notation mk := (mk m).

Lemma sweep_fixed_spec : forall s qsz qs i qs' fl nb fr,
  sweep_fixed m s qsz qs i = (qs', fl, nb, fr) ->
  length qs' = length qs /\
  fixed_live s qsz qs' i = filter mk (fixed_live s qsz qs i) /\
  nb = length (filter mk (fixed_live s qsz qs i)) /\
  (forall x, In x fl <-> fst x = s /\ (i <= snd x)%nat /\ nth_error qs' (snd x - i) = Some QFree) /\
  NoDup fl.
Proof.
  induction qs as [|q qs IH]; intros i qs' fl nb fr H; cbn [sweep_fixed] in H.
  - inversion H; subst. cbn. and_split; auto; [|constructor].
    intros x. split; [intros [] | intros (_ & _ & Hc)]. destruct (snd x - i)%nat; discriminate.
  - destruct (sweep_fixed m s qsz qs (S i)) as [[[qs1 fl1] nb1] fr1] eqn:E.
    destruct (IH _ _ _ _ _ E) as (Hlen & Hlive & Hnb & Hfl & Hnd).
    assert (Hcons : forall x q0, (fst x = s /\ (i <= snd x)%nat /\ nth_error (q0 :: qs1) (snd x - i) = Some QFree)
                                 <-> ((q0 = QFree /\ x = (s, i)) \/ In x fl1)).
    { intros [sx ix] q0. cbn [fst snd]. rewrite Hfl. cbn [fst snd]. split.
      - intros (-> & Hle & Hn). destruct (Nat.eq_dec ix i) as [->|Hne].
        + rewrite Nat.sub_diag in Hn. cbn in Hn. left. inversion Hn. auto.
        + right. split; [reflexivity|]. split; [lia|].
          replace (ix - i)%nat with (S (ix - S i)) in Hn by lia. exact Hn.
      - intros [[-> Heq]|(-> & Hle & Hn)].
        + inversion Heq; subst. rewrite Nat.sub_diag. cbn. auto.
        + split; [reflexivity|]. split; [lia|]. replace (ix - i)%nat with (S (ix - S i)) by lia. exact Hn. }
    assert (Hnotin : ~ In (s, i) fl1).
    { intros Hc. apply Hfl in Hc. cbn in Hc. lia. }
    destruct q as [|bq].
    + inversion H; subst. cbn [length fixed_live]. and_split; auto.
      * intros x. rewrite Hcons. cbn [In]. intuition congruence.
      * constructor; assumption.
    + cbn [fixed_live filter]. unfold Facts.qblock, mk at 1 2, SweepFacts.mk. cbn [fst].
      destruct (is_marked m (s, fdata_off qsz + Z.of_nat i * qsz)) eqn:Em.
      * inversion H; subst. cbn [length fixed_live]. and_split; auto.
        -- rewrite Hlive. reflexivity.
        -- intros x. rewrite Hcons. split; [intros Hx; right; exact Hx | intros [[Hc _]|Hx]; [discriminate | exact Hx]].
      * inversion H; subst. cbn [length fixed_live]. and_split; auto.
        -- intros x. rewrite Hcons. cbn [In]. intuition congruence.
        -- constructor; assumption.
Qed.

(* ---- giving a wholly free mixed section back ------------------------------------ *)

Lemma all_free_single : forall ps, Forall (fun p => kfree p = true) ps -> no_adj_free ps -> ps <> [] ->
  exists p, ps = [p].
Proof.
  intros [|p [|q ps]] Hall Hn Hne; [congruence | eauto |].
  exfalso. inversion Hall as [|? ? Hp Hall']; subst. inversion Hall' as [|? ? Hq _]; subst.
  cbn [no_adj_free] in Hn. apply (proj1 Hn); assumption.
Qed.

Lemma mixed_live_nil_no_busy : forall s pg ps cur, mixed_live s pg ps cur = [] ->
  Forall (fun p => is_busy (pkd p) = false) ps.
Proof.
  induction ps as [|p ps IH]; intros cur H; [constructor|]. cbn [mixed_live] in H.
  destruct (pkd p) eqn:E; try discriminate; constructor; try (rewrite E; reflexivity); eapply IH; eassumption.
Qed.

Lemma release_mixed_inv : forall t s b pg ps,
  Inv t -> get_sect t s = SMixed b pg ps -> mixed_live s pg ps 0 = [] ->
  (forall f, front t = Some f -> fst f <> s) ->
  Inv (set_sect (set_index t (idx_unlink (psz (pget ps 0)) (s, 0) (index t))) s SDead).
Proof.
  intros t s b pg ps HI Hs Hlive Hfr.
  pose proof (ih_sect _ _ HI s) as Hok. rewrite Hs in Hok. cbn [sect_ok] in Hok. destruct Hok as [Hpg Hps].
  (* every piece is free *)
  assert (Hall : Forall (fun p => kfree p = true) ps).
  { pose proof (mixed_live_nil_no_busy _ _ _ _ Hlive) as Hnb. rewrite Forall_forall in *.
    intros p Hp. specialize (Hnb p Hp). unfold kfree. destruct (pkd p) eqn:Ek; cbn in *; try reflexivity; try discriminate.
    exfalso. apply in_split in Hp. destruct Hp as (l1 & l2 & ->).
    assert (Hfa : front_at t (s, psum l1)).
    { unfold front_at. cbn [fst snd]. rewrite Hs. rewrite frview_app. apply in_or_app. right.
      cbn [frview]. unfold kfront. rewrite Ek. left. lia. }
    pose proof (ih_front_complete _ _ HI _ Hfa ltac:(discriminate)) as Hc. apply Hfr in Hc. cbn in Hc. congruence. }
  destruct (all_free_single ps Hall (pso_noadj _ _ Hps) (pso_ne _ _ Hps)) as [p0 ->].
  inversion Hall as [|? ? Hp0 _]; subst. cbn [pget nth].
  assert (Hr : (s < length (sects t))%nat) by (apply get_sect_in_range; rewrite Hs; discriminate).
  pose proof (ih_keys _ _ HI) as Hk. pose proof (ih_ix_nodup _ _ HI) as Hnd.
  set (t' := set_sect _ _ _).
  assert (Hget : forall s', get_sect t' s' = if Nat.eqb s s' then SDead else get_sect t s').
  { intros. unfold t', set_sect, set_index. cbn [sects]. apply (get_sect_mk_upd t s SDead); assumption. }
  assert (Hfa : forall x k, free_at t' x k <-> free_at t x k /\ fst x <> s).
  { intros x k. unfold free_at. rewrite Hget. destruct (Nat.eqb s (fst x)) eqn:E.
    - apply Nat.eqb_eq in E. intuition congruence.
    - apply Nat.eqb_neq in E. intuition congruence. }
  assert (Hfra : forall x, front_at t' x <-> front_at t x).
  { intros x. unfold front_at. rewrite Hget. destruct (Nat.eqb s (fst x)) eqn:E; [|tauto].
    apply Nat.eqb_eq in E. rewrite <- E, Hs. cbn [frview]. rewrite (kfree_not_front p0 Hp0). cbn. tauto. }
  assert (Hfq : forall c x, fq t' c x <-> fq t c x).
  { intros c x. unfold fq. rewrite Hget. destruct (Nat.eqb s (fst x)) eqn:E; [|tauto].
    apply Nat.eqb_eq in E. rewrite <- E, Hs. tauto. }
  constructor; cbn [t' set_sect set_index flist index front sects].
  - apply (ih_flen _ _ HI).
  - intros s'. fold t'. rewrite Hget. destruct (Nat.eqb s s'); [exact I | apply (ih_sect _ _ HI)].
  - intros c x Hx. apply Hfq. apply (ih_fl_sound _ _ HI). assumption.
  - apply (ih_fl_nodup _ _ HI).
  - intros c x Hx. apply (ih_fl_complete _ _ HI). apply Hfq. assumption.
  - apply unlink_keys. assumption.
  - eapply unlink_no_empty; [eassumption | apply (ih_noempty _ _ HI)].
  - eapply unlink_nodup; eassumption.
  - intros k x Hin. rewrite (unlink_in _ _ _ k x 0 Hk Hnd) in Hin. destruct Hin as [Hin Hne].
    destruct (ih_ix_sound _ _ HI _ _ Hin) as [Hf _]. split; [|discriminate].
    apply Hfa. split; [assumption|]. intros Hc. apply Hne.
    unfold free_at in Hf. rewrite Hc, Hs in Hf. cbn [fview] in Hf. rewrite Hp0 in Hf.
    destruct Hf as [Hf|[]]. inversion Hf. destruct x; cbn in *; subst. auto.
  - intros k x Hx _. apply Hfa in Hx. destruct Hx as [Hx Hne].
    rewrite (unlink_in _ _ _ k x 0 Hk Hnd). split; [apply (ih_ix_complete _ _ HI); [assumption | discriminate]|].
    intros [_ ->]. cbn in Hne. congruence.
  - intros x Hx. destruct (ih_front_sound _ _ HI _ Hx). split; [apply Hfra; assumption | discriminate].
  - intros x Hx _. apply (ih_front_complete _ _ HI); [apply Hfra; assumption | discriminate].
Qed.
End Sweep2.

(* ---- stoGcSweep: the loop over the sections ----------------------------------- *)

Section Sweep3.
Variable m : list addr.
Notation mk := (mk m).

Record J (t0 t : st) (acc : list (list (nat * nat))) (P : list nat) : Prop := {
  j_inv : Inv (mview t);
  j_ok : forall s, sect_ok (get_sect t s);
  j_len : length acc = nclasses;
  j_nodup : forall c, NoDup (nth c acc []);
  j_acc : forall c x, In x (nth c acc []) <-> In (fst x) P /\ fq t c x;
  j_nsects : length (sects t) = length (sects t0);
  j_live : forall s, In s P -> sect_live s (get_sect t s) = filter mk (sect_live s (get_sect t0 s));
  j_rest : forall s, ~ In s P -> get_sect t s = get_sect t0 s
}.

Lemma NoDup_app_intro : forall (A : Type) (l1 l2 : list A), NoDup l1 -> NoDup l2 ->
  (forall x, In x l1 -> In x l2 -> False) -> NoDup (l1 ++ l2).
Proof.
  induction l1 as [|a l1 IH]; intros l2 H1 H2 H; [assumption|].
  inversion H1; subst. cbn [app]. constructor.
  - rewrite in_app_iff. intros [Hc|Hc]; [tauto | apply (H a); [left; reflexivity | assumption]].
  - apply IH; try assumption. intros x Hx1 Hx2. apply (H x); [right|]; assumption.
Qed.

Lemma filter_nil_length : forall (A : Type) (f : A -> bool) l, length (filter f l) = O -> filter f l = [].
Proof. intros A f l H. destruct (filter f l); [reflexivity | discriminate]. Qed.

Lemma mview_set_sect_dead : forall t s, mview (set_sect t s SDead) = set_sect (mview t) s SDead.
Proof. intros. unfold mview, set_sect. cbn [sects flist index front]. rewrite map_upd. reflexivity. Qed.

Lemma mview_set_index : forall t ix, mview (set_index t ix) = set_index (mview t) ix.
Proof. reflexivity. Qed.

Lemma sweep_sect_step : forall t0 t acc P s fr rel,
  J t0 t acc P -> ~ In s P -> get_sect t0 s <> SDead ->
  J t0 (fst (fst (fst (sweep_sect m s (t, acc, fr, rel)))))
       (snd (fst (fst (sweep_sect m s (t, acc, fr, rel))))) (s :: P).
Proof.
  intros t0 t acc P s fr rel HJ HnP Hlive0.
  pose proof (j_rest _ _ _ _ HJ s HnP) as Hsame.
  assert (Hr : (s < length (sects t))%nat) by (apply get_sect_in_range; rewrite Hsame; assumption).
  pose proof (j_ok _ _ _ _ HJ s) as Hok.
  unfold sweep_sect.
  destruct (get_sect t s) as [b qsz c qs|b pg ps|] eqn:Hs; [| |congruence].
  - (* a fixed section *)
    cbn [sect_ok] in Hok. destruct Hok as (Hc & Hqsz & Hlen).
    destruct (sweep_fixed m s qsz qs 0) as [[[qs' fl] nb] fr'] eqn:Esf.
    destruct (sweep_fixed_spec m _ _ _ _ _ _ _ _ Esf) as (Hlen' & Hlive' & Hnb & Hfl & Hnd).
    assert (Hgetany : forall x' s', get_sect (set_sect t s x') s' = if Nat.eqb s s' then x' else get_sect t s')
      by (intros; unfold set_sect; apply get_sect_mk_upd; assumption).
    destruct nb as [|nb'].
    + (* nothing busy: the page is given back *)
      cbn [fst snd]. constructor.
      * unfold set_sect. rewrite (mview_set_fixed t s SDead); [apply (j_inv _ _ _ _ HJ) | rewrite Hs; reflexivity | reflexivity].
      * intros s'. rewrite Hgetany. destruct (Nat.eqb s s'); [exact I | apply (j_ok _ _ _ _ HJ)].
      * apply (j_len _ _ _ _ HJ).
      * apply (j_nodup _ _ _ _ HJ).
      * intros c' x. rewrite (j_acc _ _ _ _ HJ). unfold fq. rewrite Hgetany. cbn [In].
        destruct (Nat.eqb s (fst x)) eqn:E.
        -- apply Nat.eqb_eq in E. split; [intros [Hp _]; congruence | intros [_ []]].
        -- apply Nat.eqb_neq in E. intuition congruence.
      * unfold set_sect. cbn [sects]. rewrite upd_length. apply (j_nsects _ _ _ _ HJ).
      * intros s' [<-|Hin].
        -- rewrite Hgetany, Nat.eqb_refl. rewrite <- Hsame. cbn [sect_live].
           symmetry. apply filter_nil_length. symmetry. exact Hnb.
        -- rewrite Hgetany. destruct (Nat.eqb s s') eqn:E; [apply Nat.eqb_eq in E; congruence|].
           apply (j_live _ _ _ _ HJ). assumption.
      * intros s' Hn. rewrite Hgetany. destruct (Nat.eqb s s') eqn:E.
        -- apply Nat.eqb_eq in E. subst. exfalso. apply Hn. left. reflexivity.
        -- apply (j_rest _ _ _ _ HJ). intros Hc0. apply Hn. right. assumption.
    + cbn [fst snd].
      assert (Hcl : (c < length acc)%nat) by (rewrite (j_len _ _ _ _ HJ); assumption).
      assert (Hfqs : forall c' x, fq (set_sect t s (SFixed b qsz c qs')) c' x <->
                                  (fst x = s /\ c' = c /\ nth_error qs' (snd x) = Some QFree) \/
                                  (fst x <> s /\ fq t c' x)).
      { intros c' x. unfold fq. rewrite Hgetany. destruct (Nat.eqb s (fst x)) eqn:E.
        - apply Nat.eqb_eq in E. intuition congruence.
        - apply Nat.eqb_neq in E. intuition congruence. }
      constructor.
      * unfold set_sect. rewrite (mview_set_fixed t s (SFixed b qsz c qs')); [apply (j_inv _ _ _ _ HJ) | rewrite Hs; reflexivity | reflexivity].
      * intros s'. rewrite Hgetany. destruct (Nat.eqb s s'); [|apply (j_ok _ _ _ _ HJ)].
        cbn [sect_ok]. rewrite Hlen'. auto.
      * rewrite upd_length. apply (j_len _ _ _ _ HJ).
      * intros c'. rewrite nth_flist_upd by assumption. destruct (Nat.eqb c c'); [|apply (j_nodup _ _ _ _ HJ)].
        apply NoDup_app_intro; [apply (j_nodup _ _ _ _ HJ) | assumption|].
        intros x H1 H2. apply (j_acc _ _ _ _ HJ) in H1. apply Hfl in H2. destruct H1 as [H1 _]. destruct H2 as [H2 _].
        congruence.
      * intros c' x. rewrite nth_flist_upd by assumption. rewrite Hfqs. cbn [In].
        destruct (Nat.eqb c c') eqn:E.
        -- apply Nat.eqb_eq in E. subst c'. rewrite in_app_iff, (j_acc _ _ _ _ HJ), Hfl.
           rewrite Nat.sub_0_r. split.
           ++ intros [[Hp Hf]|(Hx & _ & Hn)].
              ** split; [right; assumption|]. right. split; [congruence | assumption].
              ** split; [left; congruence|]. left. auto.
           ++ intros [Hp [(Hx & _ & Hn)|[Hne Hf]]].
              ** right. split; [assumption|]. split; [lia | assumption].
              ** left. split; [destruct Hp; [congruence | assumption] | assumption].
        -- apply Nat.eqb_neq in E. rewrite (j_acc _ _ _ _ HJ). split.
           ++ intros [Hp Hf]. split; [right; assumption|]. right. split; [congruence | assumption].
           ++ intros [Hp [(Hx & Hc' & _)|[Hne Hf]]]; [congruence|].
              split; [destruct Hp; [congruence | assumption] | assumption].
      * unfold set_sect. cbn [sects]. rewrite upd_length. apply (j_nsects _ _ _ _ HJ).
      * intros s' [<-|Hin].
        -- rewrite Hgetany, Nat.eqb_refl. rewrite <- Hsame. cbn [sect_live]. exact Hlive'.
        -- rewrite Hgetany. destruct (Nat.eqb s s') eqn:E; [apply Nat.eqb_eq in E; congruence|].
           apply (j_live _ _ _ _ HJ). assumption.
      * intros s' Hn. rewrite Hgetany. destruct (Nat.eqb s s') eqn:E.
        -- apply Nat.eqb_eq in E. subst. exfalso. apply Hn. left. reflexivity.
        -- apply (j_rest _ _ _ _ HJ). intros Hc'. apply Hn. right. assumption.
  - (* a mixed section *)
    destruct (sweep_mixed_spec m (length ps) t s b pg [] ps O [] (j_inv _ _ _ _ HJ) Hs (le_n _))
      as (t1 & ps' & fr' & Hsw & HI1 & Hs1 & Hoth & Hfl1 & Hfr1 & Hns1 & Hlive1).
    cbn [length app psum mixed_live] in Hsw, Hlive1. rewrite Hsw.
    assert (Hfq1 : forall c x, fq t1 c x <-> fq t c x).
    { intros c x. unfold fq. destruct (Nat.eq_dec (fst x) s) as [->|Hne]; [rewrite Hs1, Hs; tauto|].
      rewrite Hoth by assumption. tauto. }
    assert (Hok1 : forall s', sect_ok (get_sect t1 s')).
    { intros s'. destruct (Nat.eq_dec s' s) as [->|Hne].
      - pose proof (ih_sect _ _ HI1 s) as H. rewrite get_sect_mview, Hs1 in H. rewrite Hs1. exact H.
      - rewrite Hoth by assumption. apply (j_ok _ _ _ _ HJ). }
    assert (Hkeep : J t0 t1 acc (s :: P)).
    { constructor; try assumption.
      - apply (j_len _ _ _ _ HJ).
      - apply (j_nodup _ _ _ _ HJ).
      - intros c x. rewrite (j_acc _ _ _ _ HJ), Hfq1. cbn [In]. split; [intros [Hp Hf]; auto|].
        intros [[Hp|Hp] Hf]; [|auto]. exfalso. unfold fq in Hf. rewrite <- Hp, Hs in Hf. exact Hf.
      - rewrite Hns1. apply (j_nsects _ _ _ _ HJ).
      - intros s' [<-|Hin].
        + rewrite Hs1, <- Hsame. cbn [sect_live]. exact Hlive1.
        + assert (s' <> s) by congruence. rewrite Hoth by assumption. apply (j_live _ _ _ _ HJ). assumption.
      - intros s' Hn. assert (s' <> s) by (intros ->; apply Hn; left; reflexivity).
        rewrite Hoth by assumption. apply (j_rest _ _ _ _ HJ). intros Hc. apply Hn. right. assumption. }
    destruct (length (filter mk (mixed_live s pg ps 0))) as [|nb'] eqn:Enb; cbn [Nat.add]; [|exact Hkeep].
    destruct (match front t1 with Some f => Nat.eqb (fst f) s | None => false end) eqn:Ehf; [exact Hkeep|].
    (* the section is a single free piece: unlink it, pagesPut *)
    cbn [fst snd]. rewrite Hs1. cbn [mixed_pieces_of].
    assert (Hlive_nil : mixed_live s pg ps' 0 = []) by (rewrite Hlive1; apply filter_nil_length; exact Enb).
    assert (Hr1 : (s < length (sects t1))%nat) by (rewrite Hns1; assumption).
    set (t2 := set_index t1 (idx_unlink (psz (pget ps' 0)) (s, 0) (index t1))).
    assert (Hget2 : forall s', get_sect (set_sect t2 s SDead) s' = if Nat.eqb s s' then SDead else get_sect t1 s').
    { intros. unfold set_sect, t2, set_index. cbn [sects]. apply (get_sect_mk_upd t1 s SDead); assumption. }
    constructor.
    + rewrite mview_set_sect_dead. unfold t2. rewrite mview_set_index.
      apply (release_mixed_inv (mview t1) s b pg ps' HI1).
      * rewrite get_sect_mview, Hs1. reflexivity.
      * exact Hlive_nil.
      * intros f Hf. cbn [mview front] in Hf. rewrite Hf in Ehf. apply Nat.eqb_neq. exact Ehf.
    + intros s'. rewrite Hget2. destruct (Nat.eqb s s'); [exact I | apply Hok1].
    + apply (j_len _ _ _ _ HJ).
    + apply (j_nodup _ _ _ _ HJ).
    + intros c x. rewrite (j_acc _ _ _ _ Hkeep). unfold fq. rewrite Hget2.
      destruct (Nat.eqb s (fst x)) eqn:E; [|tauto].
      apply Nat.eqb_eq in E. rewrite <- E, Hs1. tauto.
    + unfold set_sect, t2, set_index. cbn [sects]. rewrite upd_length, Hns1. apply (j_nsects _ _ _ _ HJ).
    + intros s' [<-|Hin].
      * rewrite Hget2, Nat.eqb_refl. cbn [sect_live]. rewrite <- Hsame. cbn [sect_live].
        symmetry. apply filter_nil_length. exact Enb.
      * rewrite Hget2. destruct (Nat.eqb s s') eqn:E; [apply Nat.eqb_eq in E; congruence|].
        apply (j_live _ _ _ _ Hkeep). right. assumption.
    + intros s' Hn. rewrite Hget2. destruct (Nat.eqb s s') eqn:E.
      * apply Nat.eqb_eq in E. subst. exfalso. apply Hn. left. reflexivity.
      * apply (j_rest _ _ _ _ Hkeep). assumption.
Qed.
End Sweep3.

(* ---- stoGc --------------------------------------------------------------------- *)

Section Sweep4.
Variable m : list addr.
Notation mk := (mk m).

Lemma fold_sweep : forall l t0 t acc fr rel P,
  J m t0 t acc P -> NoDup l -> (forall s, In s l -> ~ In s P /\ get_sect t0 s <> SDead) ->
  exists t1 acc1 fr1 rel1 P1,
    fold_left (fun x s => sweep_sect m s x) l (t, acc, fr, rel) = (t1, acc1, fr1, rel1) /\
    J m t0 t1 acc1 P1 /\ (forall s, In s P1 <-> In s l \/ In s P).
Proof.
  induction l as [|s l IH]; intros t0 t acc fr rel P HJ Hnd Hl.
  - exists t, acc, fr, rel, P. cbn. split; [reflexivity|]. split; [assumption|]. tauto.
  - cbn [fold_left]. inversion Hnd as [|? ? Hs Hnd']; subst.
    destruct (Hl s (or_introl eq_refl)) as [HnP Hlive].
    pose proof (sweep_sect_step m t0 t acc P s fr rel HJ HnP Hlive) as HJ'.
    destruct (sweep_sect m s (t, acc, fr, rel)) as [[[t' acc'] fr'] rel']. cbn [fst snd] in HJ'.
    destruct (IH t0 t' acc' fr' rel' (s :: P) HJ' Hnd') as (t1 & acc1 & fr1 & rel1 & P1 & Hf & HJ1 & HP1).
    { intros s' Hs'. destruct (Hl s' (or_intror Hs')) as [H1 H2]. split; [|assumption].
      intros [<-|Hc]; [tauto | tauto]. }
    exists t1, acc1, fr1, rel1, P1. split; [exact Hf|]. split; [exact HJ1|].
    intros s'. rewrite HP1. cbn [In]. intuition.
Qed.

Lemma insert_by_base_in : forall t s l x, In x (insert_by_base t s l) <-> x = s \/ In x l.
Proof.
  intros t s l x. induction l as [|y r IH]; cbn [insert_by_base In]; [intuition|].
  destruct (sect_base (get_sect t s) <? sect_base (get_sect t y)); cbn [In]; [intuition|].
  rewrite IH. intuition.
Qed.

Lemma insert_by_base_nodup : forall t s l, ~ In s l -> NoDup l -> NoDup (insert_by_base t s l).
Proof.
  intros t s l. induction l as [|y r IH]; intros Hs Hnd; cbn [insert_by_base].
  - constructor; [tauto | constructor].
  - destruct (sect_base (get_sect t s) <? sect_base (get_sect t y)).
    + constructor; assumption.
    + inversion Hnd; subst. constructor.
      * rewrite insert_by_base_in. cbn in Hs. intuition.
      * apply IH; [cbn in Hs; tauto | assumption].
Qed.

Lemma live_sects_in : forall t s, In s (live_sects t) <-> get_sect t s <> SDead.
Proof.
  intros t s. unfold live_sects. rewrite filter_In, in_seq. split.
  - intros [_ H]. destruct (get_sect t s); congruence.
  - intros H. split; [pose proof (get_sect_in_range t s H); lia|]. destruct (get_sect t s); congruence.
Qed.

Lemma sweep_order_spec : forall t, NoDup (sweep_order t) /\ (forall s, In s (sweep_order t) <-> get_sect t s <> SDead).
Proof.
  intros t. unfold sweep_order.
  assert (Hnd : NoDup (live_sects t)) by (unfold live_sects; apply NoDup_filter; apply seq_NoDup).
  assert (H : NoDup (fold_right (insert_by_base t) [] (live_sects t)) /\
              forall s, In s (fold_right (insert_by_base t) [] (live_sects t)) <-> In s (live_sects t)).
  { induction (live_sects t) as [|a l IH]; cbn [fold_right].
    - split; [constructor | tauto].
    - inversion Hnd as [|? ? Ha Hl]; subst. destruct (IH Hl) as [H1 H2]. split.
      + apply insert_by_base_nodup; [rewrite H2; assumption | assumption].
      + intros s. rewrite insert_by_base_in, H2. cbn [In]. intuition. }
  destruct H as [H1 H2]. split; [assumption|]. intros s. rewrite H2. apply live_sects_in.
Qed.

Lemma sects_live_pointwise : forall (f : addr * Z * binfo -> bool) l l' n, length l' = length l ->
  (forall s, sect_live (n + s) (nth s l' SDead) = filter f (sect_live (n + s) (nth s l SDead))) ->
  sects_live l' n = filter f (sects_live l n).
Proof.
  intros f. induction l as [|x l IH]; intros [|x' l'] n Hlen H; cbn in Hlen; try lia; [reflexivity|].
  cbn [sects_live]. rewrite filter_app. f_equal.
  - specialize (H O). cbn [nth] in H. rewrite Nat.add_0_r in H. exact H.
  - apply IH; [lia|]. intros s. specialize (H (S s)). cbn [nth] in H.
    replace (n + S s)%nat with (S n + s)%nat in H by lia. exact H.
Qed.

End Sweep4.

Theorem gc_with_spec : forall mm t t' o,
  Inv t -> gc_with mm t = (t', o) ->
  Inv t' /\ live t' = filter (SweepFacts.mk mm) (live t).
Proof.
  intros mm t t' o HI Hg. unfold gc_with in Hg.
  destruct (sweep_order_spec t) as [Hnd Hord].
  assert (HJ0 : J mm t t (repeat [] (length (flist t))) []).
  { constructor.
    - apply inv_mview. assumption.
    - apply (ih_sect _ _ HI).
    - rewrite repeat_length. apply (ih_flen _ _ HI).
    - intros c. rewrite nth_repeat_nil. constructor.
    - intros c x. rewrite nth_repeat_nil. cbn. tauto.
    - reflexivity.
    - intros s [].
    - reflexivity. }
  destruct (fold_sweep mm (sweep_order t) t t _ [] [] [] HJ0 Hnd) as (t1 & acc1 & fr1 & rel1 & P1 & Hf & HJ1 & HP1).
  { intros s Hs. split; [tauto | apply Hord; assumption]. }
  rewrite Hf in Hg. inversion Hg; subst t' o. clear Hg.
  assert (HP : forall s, In s P1 <-> get_sect t s <> SDead) by (intros s; rewrite HP1, Hord; cbn; tauto).
  set (tf := mkSt (sects t1) acc1 (index t1) (front t1)).
  assert (Hgetf : forall s, get_sect tf s = get_sect t1 s) by reflexivity.
  split.
  - apply inv_from_mview.
    + exact (j_inv _ _ _ _ _ HJ1).
    + constructor; cbn [tf flist].
      * apply (j_len _ _ _ _ _ HJ1).
      * intros c x Hx. apply (j_acc _ _ _ _ _ HJ1) in Hx. destruct Hx as [_ Hx]. exact Hx.
      * apply (j_nodup _ _ _ _ _ HJ1).
      * intros c x Hx. apply (j_acc _ _ _ _ _ HJ1). split; [|exact Hx].
        apply HP. intros Hc.
        assert (Hn : ~ In (fst x) P1) by (rewrite HP; tauto).
        pose proof (j_rest _ _ _ _ _ HJ1 _ Hn) as Hr. unfold fq in Hx.
        change (get_sect tf (fst x)) with (get_sect t1 (fst x)) in Hx. rewrite Hr, Hc in Hx. exact Hx.
    + intros s. rewrite Hgetf. apply (j_ok _ _ _ _ _ HJ1).
  - unfold live. cbn [tf sects]. apply sects_live_pointwise.
    + apply (j_nsects _ _ _ _ _ HJ1).
    + intros s. cbn [Nat.add]. fold (get_sect t1 s). fold (get_sect t s).
      destruct (get_sect t s) eqn:Es.
      * rewrite <- Es. apply (j_live _ _ _ _ _ HJ1). apply HP. rewrite Es. discriminate.
      * rewrite <- Es. apply (j_live _ _ _ _ _ HJ1). apply HP. rewrite Es. discriminate.
      * assert (Hn : ~ In s P1) by (rewrite HP; tauto).
        rewrite (j_rest _ _ _ _ _ HJ1 _ Hn), Es. reflexivity.
Qed.
