(* Extraction of the store model for the correspondence driver. *)
Require Import ExtrOcamlBasic.
Require Import AV.Store.Gc AV.Store.Model.
Extraction "Store/extracted/store_model.ml" step st0 new_sects addr_z mk_addr nat_z block_data.
