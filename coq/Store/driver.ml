(* Correspondence driver for the extracted store model (Store/Model.v).
   One operation per input line, one result line per operation.  The driver
   does no arithmetic of its own: it converts between decimal text and the
   extracted binary integers, keeps the table "script id -> model address",
   and prints what the model returns.

   input                               output
   a <id> <n> <code> <base>            A <id> s= o= z= c= [ns=ord:K:pages:cls]...
   f <id>                              F <id>
   r <id> <n> <base>                   R <id> s= o= z= c= same= pre=<hex> [ns=...]
   c <id> <code>                       C <id> c= z= same=1
   w <id> <byte>...                    W <id>
   p <id> <slot> <absaddr> | p <id> <slot> -  P <id> <slot>
   g <absaddr> ...   (roots)           G freed=<ids> rel=<ords>
   (  /  )                             save / restore the model state (excursions)
*)
open Store_model

let rec pos_of_int n =
  if n = 1 then XH
  else if n land 1 = 0 then XO (pos_of_int (n lsr 1))
  else XI (pos_of_int (n lsr 1))
let z_of_int n = if n = 0 then Z0 else if n > 0 then Zpos (pos_of_int n) else Zneg (pos_of_int (- n))
let rec int_of_pos = function
  | XH -> 1
  | XO p -> (int_of_pos p) lsl 1
  | XI p -> ((int_of_pos p) lsl 1) lor 1
let int_of_z = function Z0 -> 0 | Zpos p -> int_of_pos p | Zneg p -> - (int_of_pos p)
let zs z = string_of_int (int_of_z z)

let tbl : (int, addr) Hashtbl.t ref = ref (Hashtbl.create 997)
let rev : (int * int, int) Hashtbl.t ref = ref (Hashtbl.create 997)
let stack : (st * (int, addr) Hashtbl.t * (int * int, int) Hashtbl.t) list ref = ref []

let key a = let (s, o) = addr_z a in (int_of_z s, int_of_z o)

let ns_str t t' =
  String.concat ""
    (List.map (fun (((o, k), pg), c) ->
         Printf.sprintf " ns=%s:%s:%s:%s" (zs o)
           (match int_of_z k with 0 -> "F" | 1 -> "M" | _ -> "D") (zs pg) (zs c))
       (new_sects t t'))

let err what = Printf.sprintf "%s ERR" what

let () =
  let t = ref st0 in
  (try
     while true do
       let line = input_line stdin in
       try begin
       let w = List.filter (fun x -> x <> "") (String.split_on_char ' ' line) in
       match w with
       | [] -> ()
       | "(" :: _ ->
           stack := (!t, Hashtbl.copy !tbl, Hashtbl.copy !rev) :: !stack; print_string "(\n"
       | ")" :: _ ->
           (match !stack with
            | (t0, tb, rv) :: tl -> t := t0; tbl := tb; rev := rv; stack := tl
            | [] -> ());
           print_string ")\n"
       | "a" :: id :: n :: code :: base :: _ ->
           let id = int_of_string id in
           let (t', o) = step !t (OpAlloc (z_of_int (int_of_string n), z_of_int (int_of_string code),
                                           z_of_int (int_of_string base))) in
           (match o with
            | OAddr (a, sz, c) ->
                Hashtbl.replace !tbl id a; Hashtbl.replace !rev (key a) id;
                let (s, off) = addr_z a in
                Printf.printf "A %d s=%s o=%s z=%s c=%s%s\n" id (zs s) (zs off) (zs sz) (zs c) (ns_str !t t')
            | ONull -> Printf.printf "A %d null\n" id
            | _ -> Printf.printf "%s\n" (err ("A " ^ string_of_int id)));
           t := t'
       | "f" :: id :: _ ->
           let id = int_of_string id in
           let a = Hashtbl.find !tbl id in
           let (t', o) = step !t (OpFree a) in
           (match o with
            | ONone -> Hashtbl.remove !tbl id; Hashtbl.remove !rev (key a); Printf.printf "F %d\n" id
            | _ -> Printf.printf "%s\n" (err ("F " ^ string_of_int id)));
           t := t'
       | "r" :: id :: n :: base :: _ ->
           let id = int_of_string id in
           let a = Hashtbl.find !tbl id in
           let (t', o) = step !t (OpResize (a, z_of_int (int_of_string n), z_of_int (int_of_string base))) in
           (match o with
            | OAddr (na, sz, c) ->
                Hashtbl.remove !rev (key a);
                Hashtbl.replace !tbl id na; Hashtbl.replace !rev (key na) id;
                let (s, off) = addr_z na in
                let pre = String.concat "" (List.map (fun b -> Printf.sprintf "%02x" (int_of_z b)) (block_data t' na)) in
                Printf.printf "R %d s=%s o=%s z=%s c=%s same=%d pre=%s%s\n" id (zs s) (zs off) (zs sz) (zs c)
                  (if key a = key na then 1 else 0) pre (ns_str !t t')
            | ONull -> Hashtbl.remove !tbl id; Hashtbl.remove !rev (key a); Printf.printf "R %d null\n" id
            | _ -> Printf.printf "%s\n" (err ("R " ^ string_of_int id)));
           t := t'
       | "c" :: id :: code :: _ ->
           let id = int_of_string id in
           let a = Hashtbl.find !tbl id in
           let (t', o) = step !t (OpRecode (a, z_of_int (int_of_string code))) in
           (match o with
            | OAddr (na, sz, c) ->
                Printf.printf "C %d c=%s z=%s same=%d\n" id (zs c) (zs sz) (if key a = key na then 1 else 0)
            | _ -> Printf.printf "%s\n" (err ("C " ^ string_of_int id)));
           t := t'
       | "w" :: id :: bytes ->
           let id = int_of_string id in
           let a = Hashtbl.find !tbl id in
           let (t', o) = step !t (OpWrite (a, List.map (fun b -> z_of_int (int_of_string b)) bytes)) in
           (match o with
            | ONone -> Printf.printf "W %d\n" id
            | _ -> Printf.printf "%s\n" (err ("W " ^ string_of_int id)));
           t := t'
       | "p" :: id :: slot :: rest ->
           let id = int_of_string id in
           let a = Hashtbl.find !tbl id in
           let v = match rest with
             | s :: _ when s <> "-" -> Some (z_of_int (int_of_string s))
             | _ -> None in
           let (t', o) = step !t (OpSetPtr (a, z_of_int (int_of_string slot), v)) in
           (match o with
            | ONone -> Printf.printf "P %d %s\n" id slot
            | _ -> Printf.printf "%s\n" (err ("P " ^ string_of_int id)));
           t := t'
       | "g" :: rest ->
           let (t', o) = step !t (OpGc (List.map (fun s -> z_of_int (int_of_string s)) rest)) in
           (match o with
            | OGc (freed, rel) ->
                let ids = List.sort compare (List.map (fun a ->
                    let k = key a in
                    let id = (try Hashtbl.find !rev k with Not_found -> -1) in
                    Hashtbl.remove !rev k; Hashtbl.remove !tbl id; id) freed) in
                Printf.printf "G freed=%s rel=%s\n"
                  (String.concat "," (List.map string_of_int ids))
                  (String.concat "," (List.map string_of_int (List.sort compare (List.map (fun n -> int_of_z (nat_z n)) rel))))
            | _ -> Printf.printf "%s\n" (err "G"));
           t := t'
       | x :: _ -> Printf.printf "? %s\n" x
       end with Not_found -> Printf.printf "ERR unknown-id %s\n" line
     done
   with End_of_file -> ());
  flush stdout
