(* Facts about the index of free mixed pieces: an ordered association list
   size -> list of pieces (the abstract stand-in for the B-tree of btree.c plus
   the doubly linked lists of mxmemLink / mxmemUnlink). *)
Require Import ZArith List Bool Lia ZifyBool.
Import ListNotations.
Require Import AV.Gen.StoreParams AV.Store.Gc AV.Store.Model AV.Store.ListFacts.
Local Open Scope Z_scope.

Definition idx := list (Z * list loc).

Lemma loc_eqb_spec : forall a b : loc, loc_eqb a b = true <-> a = b.
Proof.
  intros [s1 o1] [s2 o2]. unfold loc_eqb. cbn. rewrite andb_true_iff, Nat.eqb_eq, Z.eqb_eq.
  split; [intros [-> ->]; reflexivity | intros H; inversion H; auto].
Qed.

Lemma loc_eqb_refl : forall a, loc_eqb a a = true.
Proof. intros. apply loc_eqb_spec. reflexivity. Qed.

(* ---- the list of one size --------------------------------------------- *)

Lemma dll_insert_in : forall abs x l y, In y (dll_insert abs x l) <-> y = x \/ In y l.
Proof.
  intros abs x l. induction l as [|u rest IH]; intros y.
  - cbn. intuition congruence.
  - cbn [dll_insert]. destruct rest as [|v rest'].
    + cbn. intuition congruence.
    + destruct (abs u <? abs x).
      * cbn [In]. rewrite IH. cbn [In]. intuition congruence.
      * cbn [In]. intuition congruence.
Qed.

Lemma dll_insert_nonempty : forall abs x l, dll_insert abs x l <> [].
Proof.
  intros abs x [|u [|v r]]; cbn; try discriminate. destruct (abs u <? abs x); discriminate.
Qed.

Lemma dll_insert_nodup : forall abs x l, ~ In x l -> NoDup l -> NoDup (dll_insert abs x l).
Proof.
  intros abs x l. induction l as [|u rest IH]; intros Hx Hnd.
  - cbn. constructor; [cbn; tauto | constructor].
  - cbn [dll_insert]. inversion Hnd as [|? ? Hu Hr]; subst.
    destruct rest as [|v rest'].
    + constructor; [cbn in *; intuition congruence | constructor; [cbn; tauto | constructor]].
    + destruct (abs u <? abs x).
      * constructor.
        -- rewrite dll_insert_in. cbn in Hx. intros [->|H]; tauto.
        -- apply IH; [cbn in *; tauto | assumption].
      * constructor; [cbn in *; intuition congruence|].
        constructor; [cbn in *; tauto | assumption].
Qed.

Lemma dll_insert_head : forall abs x l u, hd_error l = Some u -> hd_error (dll_insert abs x l) = Some u.
Proof.
  intros abs x [|u' [|v r]] u H; cbn in *; try discriminate; try assumption.
  destruct (abs u' <? abs x); cbn; assumption.
Qed.

Lemma dll_remove_in : forall x l y, NoDup l -> (In y (dll_remove x l) <-> In y l /\ y <> x).
Proof.
  intros x l y. induction l as [|u rest IH]; intros Hnd.
  - cbn. tauto.
  - inversion Hnd as [|? ? Hu Hr]; subst. cbn [dll_remove].
    destruct (loc_eqb u x) eqn:E.
    + apply loc_eqb_spec in E. subst u. cbn [In]. split.
      * intros H. split; [tauto|]. intros ->. tauto.
      * intros [[->|H] Hne]; tauto.
    + assert (u <> x) by (intros ->; rewrite loc_eqb_refl in E; discriminate).
      cbn [In]. rewrite IH by assumption. split.
      * intros [->|[H1 H2]]; tauto.
      * intros [[->|H1] H2]; tauto.
Qed.

Lemma dll_remove_nodup : forall x l, NoDup l -> NoDup (dll_remove x l).
Proof.
  intros x l. induction l as [|u rest IH]; intros Hnd; [constructor|].
  inversion Hnd as [|? ? Hu Hr]; subst. cbn [dll_remove].
  destruct (loc_eqb u x); [assumption|].
  constructor; [|auto]. rewrite dll_remove_in by assumption. tauto.
Qed.

Lemma dll_remove_head : forall x l, dll_remove x (x :: l) = l.
Proof. intros. cbn. rewrite loc_eqb_refl. reflexivity. Qed.

(* ---- the ordered map --------------------------------------------------- *)

Fixpoint keys_above (lo : Z) (ix : idx) : Prop :=
  match ix with
  | [] => True
  | (k, _) :: t => lo < k /\ keys_above k t
  end.

Fixpoint ilookup (key : Z) (ix : idx) : list loc :=
  match ix with
  | [] => []
  | (k, l) :: t => if k =? key then l else ilookup key t
  end.

Definition no_empty (ix : idx) : Prop := Forall (fun e => snd e <> []) ix.

Lemma keys_above_weaken : forall ix lo lo', lo' <= lo -> keys_above lo ix -> keys_above lo' ix.
Proof. intros [|[k l] t] lo lo' H Hk; cbn in *; [exact I|]. split; [lia | tauto]. Qed.

Lemma ilookup_below : forall ix lo key, keys_above lo ix -> key <= lo -> ilookup key ix = [].
Proof.
  induction ix as [|[k l] t IH]; intros lo key Hk Hle; cbn in *; [reflexivity|].
  destruct Hk as [Hlo Hk]. destruct (k =? key) eqn:E; [lia|]. apply IH with (lo := k); [assumption | lia].
Qed.

Lemma in_keys_above : forall ix lo k l, keys_above lo ix -> In (k, l) ix -> lo < k.
Proof.
  induction ix as [|[k1 l1] t IH]; intros lo k l Hk Hin; [destruct Hin|].
  destruct Hk as [H1 Hk]. destruct Hin as [Heq|Hin]; [inversion Heq; subst; lia|].
  specialize (IH k1 k l Hk Hin). lia.
Qed.

Lemma ilookup_in : forall ix key l, In (key, l) ix -> forall lo, keys_above lo ix -> ilookup key ix = l.
Proof.
  induction ix as [|[k l'] t IH]; intros key l Hin lo Hk; cbn in *; [tauto|].
  destruct Hk as [Hlo Hk]. destruct Hin as [Heq|Hin].
  - inversion Heq; subst. rewrite Z.eqb_refl. reflexivity.
  - pose proof (in_keys_above t k key l Hk Hin) as Hlt.
    destruct (k =? key) eqn:E; [lia|].
    eapply IH; eassumption.
Qed.

Lemma ilookup_nonempty_in : forall ix key, ilookup key ix <> [] -> In (key, ilookup key ix) ix.
Proof.
  induction ix as [|[k l] t IH]; intros key H; cbn in *; [congruence|].
  destruct (k =? key) eqn:E.
  - apply Z.eqb_eq in E. subst. left. reflexivity.
  - right. apply IH. assumption.
Qed.

(* btreeSearchGE *)
Lemma search_ge_some : forall ix n k l lo, keys_above lo ix ->
  idx_search_ge n ix = Some (k, l) ->
  In (k, l) ix /\ n <= k /\ ilookup k ix = l /\
  (forall k', n <= k' -> k' < k -> ilookup k' ix = []).
Proof.
  induction ix as [|[k0 l0] t IH]; intros n k l lo Hk H; cbn in *; [discriminate|].
  destruct Hk as [Hlo Hk].
  destruct (n <=? k0) eqn:E.
  - inversion H; subst. rewrite Z.eqb_refl. repeat split; auto; try lia.
    intros k' H1 H2. destruct (k =? k') eqn:E2; [lia|].
    apply ilookup_below with (lo := k); [assumption | lia].
  - destruct (IH n k l k0 Hk H) as (Hin & Hn & Hl & Hmin).
    assert (k0 <> k) by lia.
    destruct (k0 =? k) eqn:E2; [lia|]. repeat split; auto.
    intros k' H1 H2. destruct (k0 =? k') eqn:E3; [lia|]. apply Hmin; assumption.
Qed.

Lemma search_ge_none : forall ix n, idx_search_ge n ix = None ->
  forall k, n <= k -> ilookup k ix = [].
Proof.
  induction ix as [|[k0 l0] t IH]; intros n H k Hk; cbn in *; [reflexivity|].
  destruct (n <=? k0) eqn:E; [discriminate|].
  destruct (k0 =? k) eqn:E2; [lia|]. eapply IH; eassumption.
Qed.

(* mxmemLink *)
Lemma link_lookup : forall abs ix key x k lo, keys_above lo ix ->
  ilookup k (idx_link abs key x ix) =
  if k =? key then dll_insert abs x (ilookup key ix) else ilookup k ix.
Proof.
  intros abs. induction ix as [|[k0 l0] t IH]; intros key x k lo Hk; cbn [idx_link ilookup].
  - cbn. destruct (key =? k) eqn:E1; destruct (k =? key) eqn:E2; try lia; reflexivity.
  - destruct Hk as [Hlo Hk]. destruct (k0 =? key) eqn:E.
    + apply Z.eqb_eq in E. subst k0. cbn [ilookup].
      destruct (key =? k) eqn:E1; destruct (k =? key) eqn:E2; try lia; reflexivity.
    + destruct (key <? k0) eqn:E0.
      * cbn [ilookup]. rewrite (ilookup_below t k0 key Hk ltac:(lia)).
        destruct (key =? k) eqn:E1; destruct (k =? key) eqn:E2; try lia; try reflexivity.
      * cbn [ilookup]. destruct (k0 =? k) eqn:E1.
        -- destruct (k =? key) eqn:E2; [lia | reflexivity].
        -- apply IH with (lo := k0). assumption.
Qed.

Lemma link_keys_above : forall abs ix key x lo, keys_above lo ix -> lo < key ->
  keys_above lo (idx_link abs key x ix).
Proof.
  intros abs. induction ix as [|[k0 l0] t IH]; intros key x lo Hk Hlt; cbn [idx_link].
  - cbn. tauto.
  - destruct Hk as [Hlo Hk]. destruct (k0 =? key) eqn:E; [cbn; tauto|].
    destruct (key <? k0) eqn:E0.
    + cbn. repeat split; try lia. assumption.
    + cbn. split; [lia|]. apply IH; [assumption | lia].
Qed.

Lemma link_no_empty : forall abs ix key x, no_empty ix -> no_empty (idx_link abs key x ix).
Proof.
  intros abs. induction ix as [|[k0 l0] t IH]; intros key x Hne; cbn [idx_link].
  - constructor; [cbn; discriminate | constructor].
  - inversion Hne as [|? ? H0 Ht]; subst. destruct (k0 =? key).
    + constructor; [cbn; apply dll_insert_nonempty | assumption].
    + destruct (key <? k0).
      * constructor; [cbn; discriminate | assumption].
      * constructor; [assumption | apply IH; assumption].
Qed.

(* mxmemUnlink *)
Lemma unlink_keep_lookup : forall ix key x k,
  ilookup k (idx_unlink_keep key x ix) =
  if k =? key then dll_remove x (ilookup key ix) else ilookup k ix.
Proof.
  induction ix as [|[k0 l0] t IH]; intros key x k; cbn [idx_unlink_keep ilookup].
  - destruct (k =? key); reflexivity.
  - destruct (k0 =? key) eqn:E.
    + apply Z.eqb_eq in E. subst k0. cbn [ilookup].
      destruct (key =? k) eqn:E1; destruct (k =? key) eqn:E2; try lia; reflexivity.
    + cbn [ilookup]. destruct (k0 =? k) eqn:E1.
      * destruct (k =? key) eqn:E2; [lia | reflexivity].
      * apply IH.
Qed.

Lemma unlink_keep_keys : forall ix key x lo, keys_above lo ix -> keys_above lo (idx_unlink_keep key x ix).
Proof.
  induction ix as [|[k0 l0] t IH]; intros key x lo Hk; cbn [idx_unlink_keep]; [exact I|].
  destruct Hk as [Hlo Hk]. destruct (k0 =? key); cbn; auto.
Qed.

Lemma delete_lookup : forall ix key k lo, keys_above lo ix ->
  ilookup k (idx_delete key ix) = if k =? key then [] else ilookup k ix.
Proof.
  induction ix as [|[k0 l0] t IH]; intros key k lo Hk; cbn [idx_delete ilookup].
  - destruct (k =? key); reflexivity.
  - destruct Hk as [Hlo Hk]. destruct (k0 =? key) eqn:E.
    + apply Z.eqb_eq in E. subst k0.
      destruct (k =? key) eqn:E2.
      * apply Z.eqb_eq in E2. subst. apply ilookup_below with (lo := key); [assumption | lia].
      * destruct (key =? k) eqn:E3; [lia | reflexivity].
    + cbn [ilookup]. destruct (k0 =? k) eqn:E1.
      * destruct (k =? key) eqn:E2; [lia | reflexivity].
      * apply IH with (lo := k0). assumption.
Qed.

Lemma delete_keys : forall ix key lo, keys_above lo ix -> keys_above lo (idx_delete key ix).
Proof.
  induction ix as [|[k0 l0] t IH]; intros key lo Hk; cbn [idx_delete]; [exact I|].
  destruct Hk as [Hlo Hk]. destruct (k0 =? key).
  - eapply keys_above_weaken; [|eassumption]. lia.
  - cbn. auto.
Qed.

Lemma delete_no_empty : forall ix key, no_empty ix -> no_empty (idx_delete key ix).
Proof.
  induction ix as [|[k0 l0] t IH]; intros key Hne; cbn [idx_delete]; [constructor|].
  inversion Hne as [|? ? H0 Ht]; subst. destruct (k0 =? key); [assumption|].
  constructor; [assumption | apply IH; assumption].
Qed.

Lemma idx_get_lookup : forall ix key lo, keys_above lo ix -> idx_get key ix = ilookup key ix.
Proof.
  intros ix key lo Hk. unfold idx_get.
  destruct (idx_search_ge key ix) as [[k l]|] eqn:E.
  - destruct (search_ge_some ix key k l lo Hk E) as (Hin & Hn & Hl & Hmin).
    destruct (k =? key) eqn:E2.
    + apply Z.eqb_eq in E2. congruence.
    + symmetry. apply Hmin; lia.
  - symmetry. eapply search_ge_none; [eassumption | lia].
Qed.

(* no_empty except possibly at [key] *)
Definition no_empty_but (key : Z) (ix : idx) : Prop :=
  Forall (fun e => fst e = key \/ snd e <> []) ix.

Lemma no_empty_but_weaken : forall key ix, no_empty ix -> no_empty_but key ix.
Proof. intros key ix H. eapply Forall_impl; [|exact H]. cbn. tauto. Qed.

Lemma unlink_keep_no_empty_but : forall ix key x, no_empty ix -> no_empty_but key (idx_unlink_keep key x ix).
Proof.
  induction ix as [|[k0 l0] t IH]; intros key x Hne; cbn [idx_unlink_keep]; [constructor|].
  inversion Hne; subst. destruct (k0 =? key) eqn:E.
  - constructor; [left; cbn; lia | apply no_empty_but_weaken; assumption].
  - constructor; [right; assumption | apply IH; assumption].
Qed.

Lemma keys_above_forall : forall ix lo, keys_above lo ix -> Forall (fun e => lo < fst e) ix.
Proof.
  induction ix as [|[k0 l0] t IH]; intros lo Hk; [constructor|].
  destruct Hk as [Hlo Hk]. constructor; [exact Hlo|].
  eapply Forall_impl; [|apply IH; exact Hk]. cbn. intros; lia.
Qed.

Lemma no_empty_but_above : forall ix key lo, keys_above lo ix -> key <= lo -> no_empty_but key ix -> no_empty ix.
Proof.
  intros ix key lo Hk Hle Hne. apply keys_above_forall in Hk.
  unfold no_empty, no_empty_but in *. rewrite Forall_forall in *.
  intros e He. destruct (Hne e He) as [H|H]; [|assumption]. specialize (Hk e He). lia.
Qed.

Lemma delete_no_empty_but : forall ix key lo, keys_above lo ix -> no_empty_but key ix -> no_empty (idx_delete key ix).
Proof.
  induction ix as [|[k0 l0] t IH]; intros key lo Hk Hne; cbn [idx_delete]; [constructor|].
  destruct Hk as [Hlo Hk]. inversion Hne as [|? ? H0 Ht]; subst. destruct (k0 =? key) eqn:E.
  - apply Z.eqb_eq in E. subst. exact (no_empty_but_above t _ _ Hk (Z.le_refl _) Ht).
  - constructor.
    + destruct H0 as [H0|H0]; [cbn in H0; lia | assumption].
    + eapply IH; eassumption.
Qed.

Lemma no_empty_but_lookup : forall ix key lo, keys_above lo ix -> no_empty_but key ix ->
  ilookup key ix <> [] -> no_empty ix.
Proof.
  induction ix as [|[k0 l0] t IH]; intros key lo Hk Hne Hl; [constructor|].
  destruct Hk as [Hlo Hk]. inversion Hne as [|? ? H0 Ht]; subst. cbn in Hl.
  destruct (k0 =? key) eqn:E.
  - apply Z.eqb_eq in E. subst. constructor; [assumption|].
    exact (no_empty_but_above t _ _ Hk (Z.le_refl _) Ht).
  - constructor; [destruct H0 as [H0|H0]; [cbn in H0; lia | assumption]|].
    eapply IH; eassumption.
Qed.

(* mxmemUnlinkFromBTree *)
Lemma unlink_lookup : forall ix key x k lo, keys_above lo ix ->
  ilookup k (idx_unlink key x ix) =
  if k =? key then dll_remove x (ilookup key ix) else ilookup k ix.
Proof.
  intros ix key x k lo Hk. unfold idx_unlink.
  pose proof (unlink_keep_keys ix key x lo Hk) as Hk1.
  rewrite (idx_get_lookup _ key lo Hk1).
  destruct (ilookup key (idx_unlink_keep key x ix)) eqn:E.
  - rewrite (delete_lookup _ key k lo Hk1). rewrite unlink_keep_lookup.
    destruct (k =? key) eqn:E2; [|reflexivity].
    rewrite unlink_keep_lookup, Z.eqb_refl in E. congruence.
  - apply unlink_keep_lookup.
Qed.

Lemma unlink_keys : forall ix key x lo, keys_above lo ix -> keys_above lo (idx_unlink key x ix).
Proof.
  intros ix key x lo Hk. unfold idx_unlink.
  pose proof (unlink_keep_keys ix key x lo Hk) as Hk1.
  destruct (idx_get key (idx_unlink_keep key x ix)); [apply delete_keys|]; assumption.
Qed.

Lemma unlink_no_empty : forall ix key x lo, keys_above lo ix -> no_empty ix -> no_empty (idx_unlink key x ix).
Proof.
  intros ix key x lo Hk Hne. unfold idx_unlink.
  pose proof (unlink_keep_keys ix key x lo Hk) as Hk1.
  pose proof (unlink_keep_no_empty_but ix key x Hne) as Hb.
  rewrite (idx_get_lookup _ key lo Hk1).
  destruct (ilookup key (idx_unlink_keep key x ix)) eqn:E.
  - eapply delete_no_empty_but; eassumption.
  - eapply no_empty_but_lookup; try eassumption. congruence.
Qed.

(* ---- membership form ---------------------------------------------------- *)

Lemma unlink_in : forall ix key x k y lo, keys_above lo ix -> (forall k, NoDup (ilookup k ix)) ->
  (In y (ilookup k (idx_unlink key x ix)) <-> In y (ilookup k ix) /\ ~ (k = key /\ y = x)).
Proof.
  intros ix key x k y lo Hk Hnd. rewrite (unlink_lookup ix key x k lo Hk).
  destruct (k =? key) eqn:E.
  - apply Z.eqb_eq in E. subst k. rewrite dll_remove_in by apply Hnd. intuition congruence.
  - intuition lia.
Qed.

Lemma unlink_nodup : forall ix key x lo, keys_above lo ix -> (forall k, NoDup (ilookup k ix)) ->
  forall k, NoDup (ilookup k (idx_unlink key x ix)).
Proof.
  intros ix key x lo Hk Hnd k. rewrite (unlink_lookup ix key x k lo Hk).
  destruct (k =? key); [apply dll_remove_nodup|]; apply Hnd.
Qed.

Lemma link_in : forall abs ix key x k y lo, keys_above lo ix ->
  (In y (ilookup k (idx_link abs key x ix)) <-> (k = key /\ y = x) \/ In y (ilookup k ix)).
Proof.
  intros abs ix key x k y lo Hk. rewrite (link_lookup abs ix key x k lo Hk).
  destruct (k =? key) eqn:E.
  - apply Z.eqb_eq in E. subst k. rewrite dll_insert_in. intuition congruence.
  - intuition lia.
Qed.

Lemma link_nodup : forall abs ix key x lo, keys_above lo ix -> ~ In x (ilookup key ix) ->
  (forall k, NoDup (ilookup k ix)) -> forall k, NoDup (ilookup k (idx_link abs key x ix)).
Proof.
  intros abs ix key x lo Hk Hx Hnd k. rewrite (link_lookup abs ix key x k lo Hk).
  destruct (k =? key); [apply dll_insert_nodup; [assumption|]|]; apply Hnd.
Qed.

Lemma unlink_keep_in : forall ix key x k y, (forall k, NoDup (ilookup k ix)) ->
  (In y (ilookup k (idx_unlink_keep key x ix)) <-> In y (ilookup k ix) /\ ~ (k = key /\ y = x)).
Proof.
  intros ix key x k y Hnd. rewrite unlink_keep_lookup.
  destruct (k =? key) eqn:E.
  - apply Z.eqb_eq in E. subst k. rewrite dll_remove_in by apply Hnd. intuition congruence.
  - intuition lia.
Qed.

Lemma unlink_keep_nodup : forall ix key x, (forall k, NoDup (ilookup k ix)) ->
  forall k, NoDup (ilookup k (idx_unlink_keep key x ix)).
Proof.
  intros ix key x Hnd k. rewrite unlink_keep_lookup.
  destruct (k =? key); [apply dll_remove_nodup|]; apply Hnd.
Qed.

Lemma delete_in : forall ix key k y lo, keys_above lo ix ->
  (In y (ilookup k (idx_delete key ix)) <-> In y (ilookup k ix) /\ k <> key).
Proof.
  intros ix key k y lo Hk. rewrite (delete_lookup ix key k lo Hk).
  destruct (k =? key) eqn:E; cbn [In]; intuition lia.
Qed.

Lemma unlink_keep_to_unlink : forall ix key mi restl lo, keys_above lo ix ->
  ilookup key ix = mi :: restl ->
  (match restl with [] => idx_delete key (idx_unlink_keep key mi ix) | _ => idx_unlink_keep key mi ix end)
  = idx_unlink key mi ix.
Proof.
  intros ix key mi restl lo Hk Hl. unfold idx_unlink.
  rewrite (idx_get_lookup _ key lo (unlink_keep_keys ix key mi lo Hk)).
  rewrite unlink_keep_lookup, Z.eqb_refl, Hl, dll_remove_head. destruct restl; reflexivity.
Qed.
