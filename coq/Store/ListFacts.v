(* Generic list lemmas used by the store proofs. *)
Require Import ZArith List Bool Lia.
Import ListNotations.
Require Import AV.Store.Model.

Lemma upd_length : forall (A : Type) (l : list A) n x, length (upd n x l) = length l.
Proof. induction l as [|h t IH]; intros [|n] x; cbn; auto. Qed.

Lemma upd_app : forall (A : Type) (l1 l2 : list A) x y,
  upd (length l1) y (l1 ++ x :: l2) = l1 ++ y :: l2.
Proof. induction l1 as [|h t IH]; intros; cbn; [reflexivity|]. f_equal. apply IH. Qed.

Lemma upd_nth_error_same : forall (A : Type) (l : list A) n x,
  (n < length l)%nat -> nth_error (upd n x l) n = Some x.
Proof.
  induction l as [|h t IH]; intros [|n] x Hn; cbn in *; try lia; [reflexivity|].
  apply IH. lia.
Qed.

Lemma upd_nth_error_other : forall (A : Type) (l : list A) n m x,
  n <> m -> nth_error (upd n x l) m = nth_error l m.
Proof.
  induction l as [|h t IH]; intros [|n] [|m] x Hnm; cbn; try reflexivity; try lia.
  apply IH. lia.
Qed.

Lemma upd_beyond : forall (A : Type) (l : list A) n x, (length l <= n)%nat -> upd n x l = l.
Proof.
  induction l as [|h t IH]; intros [|n] x Hn; cbn in *; try reflexivity; try lia.
  f_equal. apply IH. lia.
Qed.

Lemma nth_upd_same : forall (A : Type) (l : list A) n x d,
  (n < length l)%nat -> nth n (upd n x l) d = x.
Proof.
  induction l as [|h t IH]; intros [|n] x d Hn; cbn in *; try lia; [reflexivity|].
  apply IH. lia.
Qed.

Lemma nth_upd_other : forall (A : Type) (l : list A) n m x d,
  n <> m -> nth m (upd n x l) d = nth m l d.
Proof.
  induction l as [|h t IH]; intros [|n] [|m] x d Hnm; cbn; try reflexivity; try lia.
  apply IH. lia.
Qed.

Lemma nth_error_app_len : forall (A : Type) (l1 l2 : list A) x,
  nth_error (l1 ++ x :: l2) (length l1) = Some x.
Proof. induction l1; intros; cbn; auto. Qed.

Lemma nth_error_app_S : forall (A : Type) (l1 l2 : list A) x,
  nth_error (l1 ++ x :: l2) (S (length l1)) = nth_error l2 0.
Proof. induction l1 as [|h t IH]; intros; cbn; [reflexivity|]. apply IH. Qed.

Lemma nth_app_len : forall (A : Type) (l1 l2 : list A) x d,
  nth (length l1) (l1 ++ x :: l2) d = x.
Proof. induction l1; intros; cbn; auto. Qed.

Lemma nth_error_split' : forall (A : Type) (l : list A) n x,
  nth_error l n = Some x -> exists l1 l2, l = l1 ++ x :: l2 /\ length l1 = n.
Proof.
  intros A l n x H. destruct (nth_error_split l n H) as (l1 & l2 & H1 & H2). eauto.
Qed.

Lemma nth_error_nth' : forall (A : Type) (l : list A) n x d,
  nth_error l n = Some x -> nth n l d = x.
Proof. intros. apply nth_error_nth. assumption. Qed.

Lemma remove_nth_app : forall (A : Type) (l1 l2 : list A) x,
  remove_nth (length l1) (l1 ++ x :: l2) = l1 ++ l2.
Proof. induction l1 as [|h t IH]; intros; cbn; [reflexivity|]. f_equal. apply IH. Qed.

Lemma remove_nth_app_S : forall (A : Type) (l1 l2 : list A) x y,
  remove_nth (S (length l1)) (l1 ++ x :: y :: l2) = l1 ++ x :: l2.
Proof. induction l1 as [|h t IH]; intros; cbn; [reflexivity|]. f_equal. apply IH. Qed.

Lemma insert_nth_app_S : forall (A : Type) (l1 l2 : list A) x y,
  insert_nth (S (length l1)) y (l1 ++ x :: l2) = l1 ++ x :: y :: l2.
Proof. induction l1 as [|h t IH]; intros; cbn; [destruct l2; reflexivity|]. f_equal. apply IH. Qed.

Lemma app_cons_assoc : forall (A : Type) (l1 l2 : list A) x, (l1 ++ [x]) ++ l2 = l1 ++ x :: l2.
Proof. intros. rewrite <- app_assoc. reflexivity. Qed.

Lemma list_last_cases : forall (A : Type) (l : list A), l = [] \/ exists l0 x, l = l0 ++ [x].
Proof.
  intros A l. destruct l as [|a l]; [left; reflexivity | right].
  destruct (@exists_last A (a :: l) ltac:(discriminate)) as (l0 & x & H). eauto.
Qed.

Lemma upd_upd : forall (A : Type) (l : list A) n x y, upd n x (upd n y l) = upd n x l.
Proof. induction l as [|h t IH]; intros [|n] x y; cbn; try reflexivity. f_equal. apply IH. Qed.
