(* Abstract collector (shared by C10 and C09): definitions only.

   Part 1: the marking closure, generic in the type of pointer values [V] and
   of block identities [B].  [resolve v] is the block a (possibly interior)
   pointer value keeps alive -- store.c:stoGcMarkRange maps a word that points
   anywhere into a busy piece to that piece; [fields b] are the words of block
   [b] that the collector scans.  [mark] is stoGcMarkRange's recursion written
   as an explicit worklist (the C recursion / tail call visits the same words;
   the set of marked pieces does not depend on the visiting order).

   Part 2: an abstract heap with a small mutator language (used by C09): blocks
   with value fields, variables as roots, allocate / load / store / drop /
   output / pointer-equality, and [gc] = mark from the variables + sweep. *)
Require Import ZArith List Bool.
Import ListNotations.
Local Open Scope Z_scope.

Section Mark.
  Variable V B : Type.
  Variable beq : B -> B -> bool.
  Variable resolve : V -> option B.
  Variable fields : B -> list V.

  Definition memb (b : B) (l : list B) : bool := existsb (beq b) l.

  (* one word at a time, like the for-loop of stoGcMarkRange:
       not a pointer into a busy piece  -> next word
       piece already marked             -> next word
       otherwise set the mark and scan the piece's own words too *)
  Fixpoint mark (fuel : nat) (work : list V) (marked : list B) : list B :=
    match fuel with
    | O => marked
    | S fuel' =>
        match work with
        | [] => marked
        | v :: w =>
            match resolve v with
            | None => mark fuel' w marked
            | Some b =>
                if memb b marked then mark fuel' w marked
                else mark fuel' (fields b ++ w) (b :: marked)
            end
        end
    end.

  (* enough fuel for the loop to run to completion: every iteration either
     drops one work item or marks one new block of [universe] *)
  Definition mark_fuel (universe : list B) (work : list V) : nat :=
    length work + fold_right (fun b n => S (length (fields b)) + n)%nat O universe + 1.
End Mark.

(* ------------------------------------------------------------------ *)
(* Part 2: abstract heap + mutator                                      *)

Inductive value := VInt (z : Z) | VPtr (id : Z) (off : Z).

Record obj := mkObj { o_size : Z; o_fields : list value }.

(* heap: association list id -> object; ids are chosen by an allocator *)
Definition heap := list (Z * obj).

Fixpoint hget (h : heap) (id : Z) : option obj :=
  match h with
  | [] => None
  | (i, o) :: t => if i =? id then Some o else hget t id
  end.

Fixpoint hset (h : heap) (id : Z) (o : obj) : heap :=
  match h with
  | [] => []
  | (i, x) :: t => if i =? id then (i, o) :: t else (i, x) :: hset t id o
  end.

(* an interior pointer keeps its enclosing block alive when the offset lies
   inside the block; anything else (integers, dangling or out-of-range
   pointers) keeps nothing alive *)
Definition vresolve (h : heap) (v : value) : option Z :=
  match v with
  | VInt _ => None
  | VPtr id off =>
      match hget h id with
      | Some o => if (0 <=? off) && (off <? o_size o) then Some id else None
      | None => None
      end
  end.

Definition vfields (h : heap) (id : Z) : list value :=
  match hget h id with Some o => o_fields o | None => [] end.

Definition hmark (h : heap) (roots : list value) : list Z :=
  mark value Z Z.eqb (vresolve h) (vfields h)
       (mark_fuel value Z (vfields h) (map fst h) roots) roots [].

Definition hsweep (h : heap) (marked : list Z) : heap :=
  filter (fun e => existsb (Z.eqb (fst e)) marked) h.

Definition hgc (h : heap) (roots : list value) : heap := hsweep h (hmark h roots).

(* mutator: variables are numbered; the variable file is the root set *)
Inductive instr :=
| IAlloc (x : nat) (nfields : nat)          (* x := new block, fields = 0 *)
| IConst (x : nat) (z : Z)                  (* x := z   (also "drop root") *)
| IMove (x y : nat)                         (* x := y *)
| IInterior (x y : nat) (d : Z)             (* x := y + d  (pointer arithmetic inside a block) *)
| ILoad (x y : nat) (f : nat)               (* x := y.f *)
| IStore (x : nat) (f : nat) (y : nat)      (* x.f := y *)
| IOutput (x : nat)                         (* print x when it is an integer *)
| IEq (x y : nat).                          (* print whether x and y are the same value *)

Definition env := list value.
Definition eget (e : env) (x : nat) : value := nth x e (VInt 0).
Fixpoint eset (e : env) (x : nat) (v : value) : env :=
  match x, e with
  | O, [] => [v]
  | O, _ :: t => v :: t
  | S x', [] => VInt 0 :: eset [] x' v
  | S x', h :: t => h :: eset t x' v
  end.

Record mstate := mkM { m_heap : heap; m_env : env; m_next : Z; m_out : list Z }.

Definition veqb (a b : value) : bool :=
  match a, b with
  | VInt x, VInt y => x =? y
  | VPtr i o, VPtr j p => (i =? j) && (o =? p)
  | _, _ => false
  end.

(* One mutator step.  Block ids come from the counter [m_next] (never reused:
   the abstract heap does not model address reuse; the concrete layer,
   Store/Model.v, does).  A load or store through something that is not a
   pointer to a block of the heap is a mutator error: it is skipped. *)
Definition mstep (m : mstate) (i : instr) : mstate :=
  match i with
  | IAlloc x n =>
      let id := m_next m in
      mkM ((id, mkObj (Z.of_nat n) (repeat (VInt 0) n)) :: m_heap m)
          (eset (m_env m) x (VPtr id 0)) (id + 1) (m_out m)
  | IConst x z => mkM (m_heap m) (eset (m_env m) x (VInt z)) (m_next m) (m_out m)
  | IMove x y => mkM (m_heap m) (eset (m_env m) x (eget (m_env m) y)) (m_next m) (m_out m)
  | IInterior x y d =>
      match eget (m_env m) y with
      | VPtr id off =>
          match hget (m_heap m) id with
          | Some o => if (0 <=? off + d) && (off + d <? o_size o)
                      then mkM (m_heap m) (eset (m_env m) x (VPtr id (off + d))) (m_next m) (m_out m)
                      else m
          | None => m
          end
      | VInt _ => m
      end
  | ILoad x y f =>
      match vresolve (m_heap m) (eget (m_env m) y) with
      | Some id => mkM (m_heap m) (eset (m_env m) x (nth f (vfields (m_heap m) id) (VInt 0)))
                       (m_next m) (m_out m)
      | None => m
      end
  | IStore x f y =>
      match vresolve (m_heap m) (eget (m_env m) x) with
      | Some id =>
          match hget (m_heap m) id with
          | Some o =>
              if (f <? length (o_fields o))%nat
              then mkM (hset (m_heap m) id
                             (mkObj (o_size o)
                                    (firstn f (o_fields o) ++ eget (m_env m) y :: skipn (S f) (o_fields o))))
                       (m_env m) (m_next m) (m_out m)
              else m
          | None => m
          end
      | None => m
      end
  | IOutput x =>
      match eget (m_env m) x with
      | VInt z => mkM (m_heap m) (m_env m) (m_next m) (z :: m_out m)
      | VPtr _ _ => m
      end
  | IEq x y =>
      mkM (m_heap m) (m_env m) (m_next m)
          ((if veqb (eget (m_env m) x) (eget (m_env m) y) then 1 else 0) :: m_out m)
  end.

Definition mgc (m : mstate) : mstate :=
  mkM (hgc (m_heap m) (m_env m)) (m_env m) (m_next m) (m_out m).

Definition is_alloc (i : instr) : bool := match i with IAlloc _ _ => true | _ => false end.

(* [sched k] says whether a collection is forced at the k-th allocation point
   (this is what the hook ALDOR_VERIF_GC=k:j does in stoAlloc: collect, then
   allocate). *)
Fixpoint run (sched : nat -> bool) (k : nat) (p : list instr) (m : mstate) : mstate :=
  match p with
  | [] => m
  | i :: rest =>
      if is_alloc i
      then run sched (S k) rest (mstep (if sched k then mgc m else m) i)
      else run sched k rest (mstep m i)
  end.

Definition m0 : mstate := mkM [] [] 0 [].
Definition outputs (m : mstate) : list Z := rev (m_out m).
Definition run_with_gc (sched : nat -> bool) (p : list instr) : mstate := run sched O p m0.
Definition run_no_gc (p : list instr) : mstate := run (fun _ => false) O p m0.
