(* The invariant along operation histories. *)
Require Import ZArith List Bool Lia ZifyBool Permutation.
Import ListNotations.
Require Import AV.Gen.StoreParams AV.Store.Gc AV.Store.Model AV.Store.ListFacts
        AV.Store.SizeFacts AV.Store.PieceFacts AV.Store.IndexFacts AV.Store.PutFacts AV.Store.Facts
        AV.Store.LiveFacts.
Local Open Scope Z_scope.

(* requests the C code accepts: sizes are unsigned *)
Definition op_ok (o : op) : Prop :=
  match o with
  | OpAlloc n _ _ => 0 <= n
  | OpResize _ n _ => 0 <= n
  | _ => True
  end.

Definition is_gc (o : op) : bool := match o with OpGc _ => true | _ => false end.

Lemma alloc_inv : forall t n code base, Inv t -> 0 <= n -> Inv (fst (alloc t n code base)).
Proof.
  intros t n code base HI Hn. destruct (Z.eq_dec n 0) as [->|Hne].
  - unfold alloc. cbn. assumption.
  - assert (Hpos : 0 < n) by lia. destruct (alloc t n code base) as [t' o] eqn:Ea.
    apply (alloc_spec _ _ _ _ _ _ HI Hpos Ea).
Qed.

Lemma resize_inv : forall t a n base, Inv t -> 0 <= n -> Inv (fst (resize t a n base)).
Proof.
  intros t a n base HI Hn.
  destruct (lookup t a) as [[r b]|] eqn:El.
  - destruct (Z.eq_dec n 0) as [->|Hne].
    + unfold resize. rewrite El. destruct (bref_size t r =? true_size 0); [assumption|].
      unfold alloc. cbn [Z.eqb]. destruct (free t a) as [t3 o3] eqn:Ef. cbn [fst].
      eapply free_inv; eassumption.
    + assert (Hpos : 0 < n) by lia. destruct (resize t a n base) as [t' o] eqn:Er.
      apply (resize_spec _ _ _ _ _ _ _ _ HI Hpos El Er).
  - unfold resize. rewrite El. assumption.
Qed.

(* every operation except the collection keeps the invariant *)
Theorem inv_step_nogc : forall t o, Inv t -> op_ok o -> is_gc o = false -> Inv (fst (step t o)).
Proof.
  intros t o HI Hok Hng. destruct o as [n code base|a|a n base|a code|a d|a slot v|roots]; cbn [step].
  - apply alloc_inv; assumption.
  - destruct (free t a) as [t' o'] eqn:Ef. eapply free_inv; eassumption.
  - apply resize_inv; assumption.
  - destruct (recode t a code) as [t' o'] eqn:Er. apply (recode_spec _ _ _ _ _ HI Er).
  - destruct (write t a d) as [t' o'] eqn:Ew. apply (write_spec _ _ _ _ _ HI Ew).
  - destruct (setptr t a slot v) as [t' o'] eqn:Es. apply (setptr_spec _ _ _ _ _ _ HI Es).
  - discriminate.
Qed.

Lemma run_from_nogc : forall ops t, Inv t ->
  Forall (fun o => op_ok o /\ is_gc o = false) ops ->
  Inv (fold_left (fun t o => fst (step t o)) ops t).
Proof.
  induction ops as [|o ops IH]; intros t HI Hall; cbn [fold_left]; [assumption|].
  inversion Hall as [|? ? [Hok Hng] Hall']; subst.
  apply IH; [apply inv_step_nogc; assumption | assumption].
Qed.
