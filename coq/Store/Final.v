(* stoGc = concrete marker + sweep; the invariant along every history. *)
Require Import ZArith List Bool Lia ZifyBool Permutation.
Import ListNotations.
Require Import AV.Gen.StoreParams AV.Store.Gc AV.Store.GcFacts AV.Store.Model AV.Store.ListFacts
        AV.Store.SizeFacts AV.Store.PieceFacts AV.Store.IndexFacts AV.Store.PutFacts AV.Store.Facts
        AV.Store.LiveFacts AV.Store.Steps AV.Store.SweepFacts AV.Store.GcStore AV.Store.MarkFacts.
Local Open Scope Z_scope.

(* (3) the sweep frees exactly the unmarked pieces, whatever the set of marks is; the
   others keep address, size, code, contents and pointer words *)
Theorem sweep_frees_only_unmarked : forall m t t' o, Inv t -> gc_with m t = (t', o) ->
  Inv t' /\ forall e, In e (live t') <-> In e (live t) /\ In (fst (fst e)) m.
Proof.
  intros m t t' o HI Hg. destruct (gc_with_spec m t t' o HI Hg) as [HI' Hlive].
  split; [exact HI'|]. intros e. rewrite Hlive, filter_In. unfold SweepFacts.mk. rewrite is_marked_in. tauto.
Qed.

(* stoGc: the live pieces afterwards are exactly the live pieces reachable from the
   roots through any word of any reachable piece *)
Theorem gc_live : forall t roots t' o, Inv t -> gc t roots = (t', o) ->
  Inv t' /\
  forall e, In e (live t') <-> In e (live t) /\ creach t roots (fst (fst e)).
Proof.
  intros t roots t' o HI Hg. unfold gc in Hg.
  destruct (sweep_frees_only_unmarked _ t t' o HI Hg) as [HI' H]. split; [exact HI'|].
  intros e. rewrite H. rewrite (mark_closure_exact t roots _ HI). tauto.
Qed.

Theorem gc_keeps_reachable_store : forall t roots t' o e, Inv t -> gc t roots = (t', o) ->
  In e (live t) -> creach t roots (fst (fst e)) -> In e (live t').
Proof. intros t roots t' o e HI Hg He Hr. apply (gc_live t roots t' o HI Hg). auto. Qed.

Theorem gc_frees_only_unmarked_store : forall t roots t' o e, Inv t -> gc t roots = (t', o) ->
  In e (live t') -> In e (live t) /\ creach t roots (fst (fst e)).
Proof. intros t roots t' o e HI Hg He. apply (gc_live t roots t' o HI Hg). assumption. Qed.

Theorem inv_step : forall t o, Inv t -> op_ok o -> Inv (fst (step t o)).
Proof.
  intros t o HI Hok. destruct (is_gc o) eqn:Eg.
  - destruct o; try discriminate. cbn [step]. destruct (gc t roots) as [t' o'] eqn:E. cbn [fst].
    apply (gc_live t roots t' o' HI E).
  - apply inv_step_nogc; assumption.
Qed.

Lemma inv_run_from : forall ops t, Inv t -> Forall op_ok ops ->
  Inv (fold_left (fun t o => fst (step t o)) ops t).
Proof.
  induction ops as [|o ops IH]; intros t HI Hall; cbn [fold_left]; [assumption|].
  inversion Hall; subst. apply IH; [apply inv_step; assumption | assumption].
Qed.

Theorem inv_run : forall ops, Forall op_ok ops -> Inv (run_ops ops).
Proof. intros ops H. unfold run_ops. apply inv_run_from; [apply inv_init | assumption]. Qed.

Theorem alloc_disjoint : forall t n code base t' a z c,
  Inv t -> 0 < n -> alloc t n code base = (t', OAddr a z c) ->
  forall e, In e (live t) -> blk_disjoint (a, z, new_binfo code) e.
Proof.
  intros t n code base t' a z c HI Hn Ha e He.
  destruct (alloc_spec _ _ _ _ _ _ HI Hn Ha) as [HI' (_ & _ & _ & Hp)].
  pose proof (live_nodup t' HI') as Hnd.
  assert (Hnd' : NoDup ((a, z, new_binfo code) :: live t)) by (eapply Permutation_NoDup; eassumption).
  inversion Hnd' as [|? ? Hnotin _]; subst.
  assert (H1 : In (a, z, new_binfo code) (live t')) by (eapply Permutation_in; [symmetry; exact Hp | left; reflexivity]).
  assert (H2 : In e (live t')) by (eapply Permutation_in; [symmetry; exact Hp | right; assumption]).
  destruct (live_disjoint t' _ _ HI' H1 H2) as [Heq|Hd]; [subst; tauto | assumption].
Qed.
